\* same wrong algorithm, looking only at the returned values: the FIRST call of a history is
\* right, a LATER call on the same object carries the marker as a token:
\* EXPECTED TO BE REJECTED (DoneOK, at depth >= 2 calls)
SPECIFICATION Spec
CONSTANTS
  TokLens <- LenSet
  MaxToks = 3
  LineLens <- WidthSet
  MaxLineLens <- WidthSet
  Variant = "alias"
INVARIANT DoneOK
CHECK_DEADLOCK FALSE
