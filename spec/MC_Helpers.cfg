\* the repaired algorithms (keyword-only parameters seen; docstring names the exception raised) on every
\* documented input: 288 signature shapes x 16 keyword sets, species dictionaries with <= 2 blocks over names
\* that are prefixes/suffixes of each other and a species called 'kwargs' (2 calls each: repeatable),
\* equal-length condition lists, object lists <= 4, arrays <= 3, every kind of value
SPECIFICATION Spec
CONSTANTS
  Worlds <- AllQuick
  V <- VRepaired
INVARIANT TypeOK
INVARIANT RouteFaithful
INVARIANT NeverUnexpected
INVARIANT NothingDropped
INVARIANT ExpectedFaithful
INVARIANT AllowedFaithful
INVARIANT CollectInv
INVARIANT SpecieFaithful
INVARIANT BlockKeysRemoved
INVARIANT FormatFaithful
INVARIANT FormatCount
INVARIANT DictFaithful
INVARIANT RaisesDocumented
INVARIANT NpFaithful
INVARIANT IterFaithful
INVARIANT AttrFaithful
INVARIANT CallerUntouched
CHECK_DEADLOCK FALSE
