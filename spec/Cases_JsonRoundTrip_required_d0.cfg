\* schema only (replay of a stored case): the minimal tree of every class
INIT CInit
NEXT CNext
CONSTANTS
  Variant = "required"
  MaxDepth = 0
  MaxLife = 0
  Roots <- AllRoots
CHECK_DEADLOCK FALSE
