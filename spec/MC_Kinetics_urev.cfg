\* implementation-shaped variant: BEP.get_UoRT uses the reverse barrier (pinned tree). EXPECTED TO BE REJECTED: BepUandHSameBarrier
SPECIFICATION Spec
CONSTANTS
  Vals <- MCVals
  Slopes2 <- MCSlopes2
  Icpts <- MCIcpts
  Variant = "urev"
  Kinds = {"bep"}
  MaxEdits = 0
INVARIANT TypeOK
INVARIANT ClampRefines
INVARIANT NotBelowMinimum
INVARIANT ClampConsistent
INVARIANT BepDifference
INVARIANT BepViaReaction
INVARIANT BepUandHSameBarrier
INVARIANT BepOffsetIsForwardBarrier
INVARIANT EditedEqualsFresh
CHECK_DEADLOCK FALSE
