\* EXPECTED TO BE REJECTED: the source as found cannot be called again (KeyError on the same descriptions; TypeError when species is omitted)
SPECIFICATION Spec
CONSTANTS
  MaxPhases = 3
  SpCounts <- Sp3
  MaxRx = 2
  MaxIa = 1
  MaxCalls = 3
  Variant = "pinned"
  Scope = "narrow"
INVARIANT NeverRaises
VIEW View
CHECK_DEADLOCK FALSE
