\* EXPECTED TO BE REJECTED: the source as found cannot be called again (KeyError on the same descriptions; TypeError when species is omitted)
SPECIFICATION Spec
CONSTANTS
  MaxPhases = 2
  SpCounts <- Sp2
  MaxRx = 1
  MaxIa = 0
  MaxCalls = 3
  Variant = "pinned"
  Scope = "narrow"
INVARIANT NeverRaises
VIEW View
CHECK_DEADLOCK FALSE
