\* pmutt_list_to_dict keeping the first of several objects with one key: also satisfies the requirement (which
\* object of a repeated key is kept is not documented)
SPECIFICATION Spec
CONSTANTS
  Worlds <- DictQuick
  V <- VFirst
INVARIANT TypeOK
INVARIANT DictFaithful
INVARIANT CallerUntouched
CHECK_DEADLOCK FALSE
