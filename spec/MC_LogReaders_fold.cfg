\* X06: the functional folds of LogFormat.tla (case generator, trace spec) agree with the action form of the
\* design model: every file of <= 2 lines over the WHOLE alphabet (both families)
SPECIFICATION Spec
CONSTANTS
  Lines <- MCLines
  Kinds <- AllKinds
  MaxLen = 2
  Cuts <- MCCuts
  Pat <- MCPat
  Variant = "impl"
INVARIANT InQuantifier
INVARIANT Refines
INVARIANT FoldAgrees
CHECK_DEADLOCK FALSE
