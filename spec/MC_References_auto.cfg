\* the hypothetical object that refits on every edit is always fresh and satisfies the same property
SPECIFICATION Spec
CONSTANTS
  ND = 2
  RefKinds <- BehKinds
  InsKinds <- BehIns
  ExtSets <- BehExt
  InitSets <- BehInit
  MaxRefs = 3
  MaxOps = 3
  Variant = "auto"
  Steps <- MCSteps
  Algo = "lstsq"
  Garbage = 1000
  Acts = {"setitem"}
  GivenSets <- NoGiven
  Record = FALSE
  Temps = {200, 1000}
INVARIANT AlwaysFresh
INVARIANT NormalEquations
INVARIANT Reproduces
INVARIANT FitIsContraction
INVARIANT OffsetsBounded
INVARIANT KeysAreDescriptors
INVARIANT TrefIsMean
VIEW View
CHECK_DEADLOCK FALSE
