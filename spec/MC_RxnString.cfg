\* exhaustive design model: families A-D of RxnCases.tla, intended printer
SPECIFICATION Spec
CONSTANTS
  Variant = "round"
  Families = {"A", "B", "C", "D", "F", "G"}
INVARIANT ModeOK
INVARIANT LexerShape
INVARIANT Requirement
INVARIANT Functional
INVARIANT ExpectSound
CHECK_DEADLOCK FALSE
