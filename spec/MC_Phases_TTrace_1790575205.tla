---- MODULE MC_Phases_TTrace_1790575205 ----
EXTENDS Sequences, TLCExt, Toolbox, Naturals, TLC, MC_Phases

_expression ==
    LET MC_Phases_TEExpression == INSTANCE MC_Phases_TEExpression
    IN MC_Phases_TEExpression!expression
----

_trace ==
    LET MC_Phases_TETrace == INSTANCE MC_Phases_TETrace
    IN MC_Phases_TETrace!trace
----

_inv ==
    ~(
        TLCGet("level") = Len(_TETrace)
        /\
        owner = ([s1 |-> "p2", s2 |-> "none", s3 |-> "none"])
        /\
        alive = ({"p2", "p3"})
        /\
        want = ([p1 |-> <<>>, p2 |-> <<"s1">>, p3 |-> <<>>])
        /\
        h = (<<[p |-> "p2", alive |-> {"p2"}, s |-> "-", i |-> 0, L |-> <<"default">>, ret |-> <<>>, act |-> "new", kind |-> "iface", mem |-> [p1 |-> <<>>, p2 |-> <<>>, p3 |-> <<>>], own |-> [s1 |-> "none", s2 |-> "none", s3 |-> "none"]], [p |-> "p2", alive |-> {"p2"}, s |-> "s1", i |-> 0, L |-> <<>>, ret |-> <<>>, act |-> "append", kind |-> "iface", mem |-> [p1 |-> <<>>, p2 |-> <<"s1">>, p3 |-> <<>>], own |-> [s1 |-> "p2", s2 |-> "none", s3 |-> "none"]], [p |-> "p3", alive |-> {"p2", "p3"}, s |-> "-", i |-> 0, L |-> <<"default">>, ret |-> <<>>, act |-> "new", kind |-> "iface", mem |-> [p1 |-> <<>>, p2 |-> <<"s1">>, p3 |-> <<>>], own |-> [s1 |-> "p2", s2 |-> "none", s3 |-> "none"]]>>)
        /\
        store = ((<<"dflt">> :> <<"s1">> @@ <<"own", "p1">> :> <<>> @@ <<"own", "p2">> :> <<>> @@ <<"own", "p3">> :> <<>>))
        /\
        cell = ([p1 |-> <<"own", "p1">>, p2 |-> <<"dflt">>, p3 |-> <<"dflt">>])
    )
----

_init ==
    /\ alive = _TETrace[1].alive
    /\ h = _TETrace[1].h
    /\ store = _TETrace[1].store
    /\ want = _TETrace[1].want
    /\ owner = _TETrace[1].owner
    /\ cell = _TETrace[1].cell
----

_next ==
    /\ \E i,j \in DOMAIN _TETrace:
        /\ \/ /\ j = i + 1
              /\ i = TLCGet("level")
        /\ alive  = _TETrace[i].alive
        /\ alive' = _TETrace[j].alive
        /\ h  = _TETrace[i].h
        /\ h' = _TETrace[j].h
        /\ store  = _TETrace[i].store
        /\ store' = _TETrace[j].store
        /\ want  = _TETrace[i].want
        /\ want' = _TETrace[j].want
        /\ owner  = _TETrace[i].owner
        /\ owner' = _TETrace[j].owner
        /\ cell  = _TETrace[i].cell
        /\ cell' = _TETrace[j].cell

\* Uncomment the ASSUME below to write the states of the error trace
\* to the given file in Json format. Note that you can pass any tuple
\* to `JsonSerialize`. For example, a sub-sequence of _TETrace.
    \* ASSUME
    \*     LET J == INSTANCE Json
    \*         IN J!JsonSerialize("MC_Phases_TTrace_1790575205.json", _TETrace)

=============================================================================

 Note that you can extract this module `MC_Phases_TEExpression`
  to a dedicated file to reuse `expression` (the module in the 
  dedicated `MC_Phases_TEExpression.tla` file takes precedence 
  over the module `MC_Phases_TEExpression` below).

---- MODULE MC_Phases_TEExpression ----
EXTENDS Sequences, TLCExt, Toolbox, Naturals, TLC, MC_Phases

expression == 
    [
        \* To hide variables of the `MC_Phases` spec from the error trace,
        \* remove the variables below.  The trace will be written in the order
        \* of the fields of this record.
        alive |-> alive
        ,h |-> h
        ,store |-> store
        ,want |-> want
        ,owner |-> owner
        ,cell |-> cell
        
        \* Put additional constant-, state-, and action-level expressions here:
        \* ,_stateNumber |-> _TEPosition
        \* ,_aliveUnchanged |-> alive = alive'
        
        \* Format the `alive` variable as Json value.
        \* ,_aliveJson |->
        \*     LET J == INSTANCE Json
        \*     IN J!ToJson(alive)
        
        \* Lastly, you may build expressions over arbitrary sets of states by
        \* leveraging the _TETrace operator.  For example, this is how to
        \* count the number of times a spec variable changed up to the current
        \* state in the trace.
        \* ,_aliveModCount |->
        \*     LET F[s \in DOMAIN _TETrace] ==
        \*         IF s = 1 THEN 0
        \*         ELSE IF _TETrace[s].alive # _TETrace[s-1].alive
        \*             THEN 1 + F[s-1] ELSE F[s-1]
        \*     IN F[_TEPosition - 1]
    ]

=============================================================================



Parsing and semantic processing can take forever if the trace below is long.
 In this case, it is advised to uncomment the module below to deserialize the
 trace from a generated binary file.

\*
\*---- MODULE MC_Phases_TETrace ----
\*EXTENDS IOUtils, TLC, MC_Phases
\*
\*trace == IODeserialize("MC_Phases_TTrace_1790575205.bin", TRUE)
\*
\*=============================================================================
\*

---- MODULE MC_Phases_TETrace ----
EXTENDS TLC, MC_Phases

trace == 
    <<
    ([owner |-> [s1 |-> "none", s2 |-> "none", s3 |-> "none"],alive |-> {},want |-> [p1 |-> <<>>, p2 |-> <<>>, p3 |-> <<>>],h |-> <<>>,store |-> (<<"dflt">> :> <<>> @@ <<"own", "p1">> :> <<>> @@ <<"own", "p2">> :> <<>> @@ <<"own", "p3">> :> <<>>),cell |-> [p1 |-> <<"own", "p1">>, p2 |-> <<"own", "p2">>, p3 |-> <<"own", "p3">>]]),
    ([owner |-> [s1 |-> "none", s2 |-> "none", s3 |-> "none"],alive |-> {"p2"},want |-> [p1 |-> <<>>, p2 |-> <<>>, p3 |-> <<>>],h |-> <<[p |-> "p2", alive |-> {"p2"}, s |-> "-", i |-> 0, L |-> <<"default">>, ret |-> <<>>, act |-> "new", kind |-> "iface", mem |-> [p1 |-> <<>>, p2 |-> <<>>, p3 |-> <<>>], own |-> [s1 |-> "none", s2 |-> "none", s3 |-> "none"]]>>,store |-> (<<"dflt">> :> <<>> @@ <<"own", "p1">> :> <<>> @@ <<"own", "p2">> :> <<>> @@ <<"own", "p3">> :> <<>>),cell |-> [p1 |-> <<"own", "p1">>, p2 |-> <<"dflt">>, p3 |-> <<"own", "p3">>]]),
    ([owner |-> [s1 |-> "p2", s2 |-> "none", s3 |-> "none"],alive |-> {"p2"},want |-> [p1 |-> <<>>, p2 |-> <<"s1">>, p3 |-> <<>>],h |-> <<[p |-> "p2", alive |-> {"p2"}, s |-> "-", i |-> 0, L |-> <<"default">>, ret |-> <<>>, act |-> "new", kind |-> "iface", mem |-> [p1 |-> <<>>, p2 |-> <<>>, p3 |-> <<>>], own |-> [s1 |-> "none", s2 |-> "none", s3 |-> "none"]], [p |-> "p2", alive |-> {"p2"}, s |-> "s1", i |-> 0, L |-> <<>>, ret |-> <<>>, act |-> "append", kind |-> "iface", mem |-> [p1 |-> <<>>, p2 |-> <<"s1">>, p3 |-> <<>>], own |-> [s1 |-> "p2", s2 |-> "none", s3 |-> "none"]]>>,store |-> (<<"dflt">> :> <<"s1">> @@ <<"own", "p1">> :> <<>> @@ <<"own", "p2">> :> <<>> @@ <<"own", "p3">> :> <<>>),cell |-> [p1 |-> <<"own", "p1">>, p2 |-> <<"dflt">>, p3 |-> <<"own", "p3">>]]),
    ([owner |-> [s1 |-> "p2", s2 |-> "none", s3 |-> "none"],alive |-> {"p2", "p3"},want |-> [p1 |-> <<>>, p2 |-> <<"s1">>, p3 |-> <<>>],h |-> <<[p |-> "p2", alive |-> {"p2"}, s |-> "-", i |-> 0, L |-> <<"default">>, ret |-> <<>>, act |-> "new", kind |-> "iface", mem |-> [p1 |-> <<>>, p2 |-> <<>>, p3 |-> <<>>], own |-> [s1 |-> "none", s2 |-> "none", s3 |-> "none"]], [p |-> "p2", alive |-> {"p2"}, s |-> "s1", i |-> 0, L |-> <<>>, ret |-> <<>>, act |-> "append", kind |-> "iface", mem |-> [p1 |-> <<>>, p2 |-> <<"s1">>, p3 |-> <<>>], own |-> [s1 |-> "p2", s2 |-> "none", s3 |-> "none"]], [p |-> "p3", alive |-> {"p2", "p3"}, s |-> "-", i |-> 0, L |-> <<"default">>, ret |-> <<>>, act |-> "new", kind |-> "iface", mem |-> [p1 |-> <<>>, p2 |-> <<"s1">>, p3 |-> <<>>], own |-> [s1 |-> "p2", s2 |-> "none", s3 |-> "none"]]>>,store |-> (<<"dflt">> :> <<"s1">> @@ <<"own", "p1">> :> <<>> @@ <<"own", "p2">> :> <<>> @@ <<"own", "p3">> :> <<>>),cell |-> [p1 |-> <<"own", "p1">>, p2 |-> <<"dflt">>, p3 |-> <<"dflt">>]])
    >>
----


=============================================================================

---- CONFIG MC_Phases_TTrace_1790575205 ----
CONSTANTS
    PhaseObj <- P3
    KindOf <- Kinds3
    Species <- S3
    GivenLists <- Given3
    MaxLen = 3
    MaxOps = 6
    Variant = "shared_default"

INVARIANT
    _inv

CHECK_DEADLOCK
    \* CHECK_DEADLOCK off because of PROPERTY or INVARIANT above.
    FALSE

INIT
    _init

NEXT
    _next

CONSTANT
    _TETrace <- _trace

ALIAS
    _expression
=============================================================================
\* Generated on Mon Sep 28 06:00:08 UTC 2026