\* the tables of the pinned source: TLC is expected to REJECT this configuration (Repeatable)
SPECIFICATION Spec
CONSTANTS
  Variant = "pinned"
  MaxDepth = 2
  MaxLife = 4
  Roots <- AllRoots
INVARIANT Repeatable
CHECK_DEADLOCK FALSE
