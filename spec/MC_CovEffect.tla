---------------------------- MODULE MC_CovEffect ----------------------------
EXTENDS CovEffect
MCInitSets == {<<0>>, <<0, 2>>, <<0, 1, 3>>, <<0, 2, 4>>}
MCInitSmall == {<<0>>, <<0, 2>>}
SlopeSet == {-1, 0, 2}
SlopeSmall == {-1, 2}
\* `frozen` never changes under Sharing = "copy" (checked by FrozenUntouched on every transition), so its
\* length is enough to tell states apart there; the alias variant uses the full view
View == <<iv, sl, ic, Len(h), h[Len(h)].act, Len(frozen)>>
ViewFull == <<iv, sl, ic, Len(h), h[Len(h)].act, frozen>>
=============================================================================
