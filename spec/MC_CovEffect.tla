---------------------------- MODULE MC_CovEffect ----------------------------
EXTENDS CovEffect
MCInitSets == {<<0>>, <<0, 2>>, <<0, 1, 3>>, <<0, 2, 4>>}
MCInitSmall == {<<0>>, <<0, 2>>}
\* initial lists of 4, 5 and 6 breakpoints (the quantifier allows 1-6), one of them with a repeated breakpoint
MCInitLong == {<<0, 1, 2, 3>>, <<0, 2, 2, 5>>, <<0, 1, 2, 4, 6>>, <<0, 1, 2, 3, 4, 6>>}
\* every initial length 1..6 on the grid {0..8}/8 (simulation: histories of 6 edits)
MCInitSim == {<<0>>, <<0, 4>>, <<0, 2, 8>>, <<0, 1, 5, 8>>, <<0, 4, 4, 8>>, <<0, 2, 3, 6, 7>>, <<0, 1, 3, 4, 6, 8>>}
SlopeSet == {-1, 0, 2}
SlopeSmall == {-1, 2}
\* `frozen` never changes under Sharing = "copy" (checked by FrozenUntouched on every transition), so its
\* length is enough to tell states apart there; the alias variant uses the full view
View == <<iv, sl, ic, Len(h), h[Len(h)].act, Len(frozen)>>
ViewFull == <<iv, sl, ic, Len(h), h[Len(h)].act, frozen>>
=============================================================================
