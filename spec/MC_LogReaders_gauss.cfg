\* X06: design model, Gaussian alphabet (24 line kinds + 2 unrelated OUTCAR lines), every file of <= 3 lines
SPECIFICATION Spec
CONSTANTS
  Lines <- MCLines
  Kinds <- GaussPlus
  MaxLen = 3
  Cuts <- MCCuts
  Pat <- MCPat
  Variant = "impl"
INVARIANT InQuantifier
INVARIANT Refines
INVARIANT VibRequired
INVARIANT ScalarRequired
INVARIANT ListRequired
INVARIANT PatternRequired
INVARIANT NoiseIndependent
PROPERTY Monotone
CHECK_DEADLOCK FALSE
