\* the source as found (variant "unnamed"): EXPECTED TO BE REJECTED by NeverRaises
SPECIFICATION Spec
CONSTANTS
  Slopes <- MCSlopes2
  Icpts <- MCIcpts2
  Energies <- MCEnergies2
  Temps = {250, 500}
  MaxN = 2
  MaxOps = 2
  Variant = "unnamed"
  Kinds = {"lsr"}
  Stoichs = {2}
  ExtParts <- MCExtParts
INVARIANT NeverRaises
VIEW View
CHECK_DEADLOCK FALSE
