-------------------------- MODULE Trace_OmkmRange --------------------------
(***************************************************************************)
(* C18 (ranges) - trace validation of recorded calls of the real           *)
(* pmutt.cantera._get_omkm_range and of the range fields of written        *)
(* phases and BEPs.  One NDJSON line per call:                             *)
(*   ev     "range"                                                        *)
(*   ids    the identifiers handed in, each as character codes             *)
(*   after  the same collection read again after the call                  *)
(*   delim  delimiter character code                                       *)
(*   raised "" or the exception class name                                 *)
(*   form   the requested format: "str" or "list" (a field cut out of a     *)
(*          CTI text is "str"; a BEP's YAML list is "list")                 *)
(*   kind   "text"  - out is the returned str (or the field text cut out   *)
(*                    of a written CTI phase / BEP), as character codes    *)
(*          "elems" - out is the returned list, each element as codes      *)
(* The verdict is OmkmRangeText!Judge, the same operator the design model  *)
(* OmkmRange.tla is checked against: the text is parsed, every entry is    *)
(* expanded by Denote and the set is compared with the identifiers, all by *)
(* TLC.  `st` counts the lines of the current trace id (a trace is the     *)
(* sequence of calls made on one collection).  Verdicts are total.         *)
(***************************************************************************)
EXTENDS OmkmRangeText, TLC, TLCExt, Json, IOUtils

TraceLog == ndJsonDeserialize(IOEnv.TRACE_FILE)
VARIABLES l, st

Clauses(e) ==
   CASE e.ev = "range" -> Judge(e.ids, e.after, e.delim, e.raised, e.form, e.kind, e.out)
     [] OTHER -> {"UnknownEvent"}

Step(e) == IF st.tid = e.tid THEN [tid |-> e.tid, n |-> st.n + 1] ELSE [tid |-> e.tid, n |-> 1]

Init == l = 1 /\ st = [tid |-> -1, n |-> 0] /\ TLCSet(1, {})
Next == /\ l <= Len(TraceLog)
        /\ LET e == TraceLog[l]  bad == Clauses(e) IN
             /\ IF bad # {} THEN TLCSet(1, TLCGet(1) \cup {<<e.tid, l, c>> : c \in bad}) ELSE TRUE
             /\ st' = Step(e)
        /\ l' = l + 1
Spec == Init /\ [][Next]_<<l, st>>
Post == /\ PrintT(<<"FAILS", TLCGet(1)>>)
        /\ PrintT(<<"CONSUMED", TLCGet("stats").diameter - 1>>)
=============================================================================
