--------------------------- MODULE Trace_Observers ---------------------------
(***************************************************************************)
(* X09 - trace validation of recorded call histories on real pMuTT objects.*)
(*                                                                         *)
(* One NDJSON line per call of one history (trace id):                     *)
(*   construct  the object is built                                        *)
(*   mutate     a documented mutator ran (attribute assignment, insert,    *)
(*              pop, append, extend, fit); st = "ok" | "raise"             *)
(*   write      the caller changed one of ITS OWN argument objects         *)
(*   eval       one documented evaluation, fully observed:                 *)
(*      m, kind           method tag, dtype kind of the caller's argument  *)
(*      key               m + digest of every argument by value and dtype  *)
(*      ab, aa            digest of the arguments before / after the call  *)
(*      sb, sa            digest of to_dict() before / after the call      *)
(*      st, res           "ok" | "raise", the result (17-digit Dec2 list)  *)
(*      fst, fresh        the same call on an object freshly constructed   *)
(*                        from the content, with an equal argument         *)
(*      arr, n, k, sst, scal   array clause applies; n elements of k       *)
(*                        numbers; the element-wise scalar calls           *)
(*      isint, flst, flt  integer-typed argument; the same temperatures    *)
(*                        passed as floats                                 *)
(*      mag               per element: magnitude of the largest term (Dec) *)
(*      fin               every logged number is finite (informative)      *)
(*      epoch             number of mutators so far                        *)
(* `st` (state carried between the lines of one trace id) remembers what   *)
(* every key returned since the last mutator.                              *)
(*                                                                         *)
(* Clauses (the relation of Observers.tla on observed values):             *)
(*   ArgsUntouched, StateUntouched        digests equal                    *)
(*   Repeatable         same key since the last mutator => same result,    *)
(*                      digit for digit                                    *)
(*   NoHiddenState      epoch = 0: result = fresh object's result          *)
(*   FreshAfterMutation epoch > 0: result = fresh object's result          *)
(*   ArrayIsMapOfScalar n*k numbers, each within 10^-13 of the largest     *)
(*                      term of the element-wise scalar call               *)
(*   IntEqualsFloat     integer-typed temperatures: defined whenever the   *)
(*                      float call is, and within 10^-13 of it             *)
(*   Raises             the evaluation raised on a valid call              *)
(*   MutatorRaises      a documented mutator raised on a valid value       *)
(* Non-finite numbers (a legitimate overflow of exp) are logged as three   *)
(* sentinels (nan / +inf / -inf) and compared like any other value.        *)
(* Verdicts are total (TLC register 1).                                    *)
(***************************************************************************)
EXTENDS Dec2, TLC, TLCExt, Json, IOUtils

TraceLog == ndJsonDeserialize(IOEnv.TRACE_FILE)
VARIABLES l, st

Idx(s) == 1..Len(s)
Chk(ok, name) == IF ok THEN {} ELSE {name}
Same2(a, b) == Len(a) = Len(b) /\ \A i \in Idx(a) : Equal2(a[i], b[i])
\* element j (1..n) of a flattened n x k list owns positions (j-1)k+1 .. jk
Owner(i, k) == ((i - 1) \div k) + 1
Near(a, b, mag, k) ==
   /\ Len(a) = Len(b)
   /\ \A i \in Idx(a) : Owner(i, k) \in Idx(mag) /\ Close2At(a[i], b[i], mag[Owner(i, k)], 13)

EvalClauses(e) ==
   LET ok == e.st = "ok"
       intundef == e.isint /\ ~ok /\ e.flst = "ok"       \* undefined for integers, defined for floats
   IN Chk(e.ab = e.aa, "ArgsUntouched")
      \cup Chk(e.sb = e.sa, "StateUntouched")
      \cup Chk(ok \/ intundef, "Raises")
      \cup Chk(~intundef, "IntEqualsFloat")
      \cup (IF ok
            THEN Chk(e.key \notin DOMAIN st.seen \/ Same2(e.res, st.seen[e.key]), "Repeatable")
                 \cup Chk(e.fst = "ok" /\ Same2(e.res, e.fresh),
                          IF e.epoch = 0 THEN "NoHiddenState" ELSE "FreshAfterMutation")
                 \cup (IF e.arr
                       THEN Chk(e.sst = "ok" /\ Len(e.res) = e.n * e.k /\ Len(e.mag) = e.n
                                /\ Near(e.res, e.scal, e.mag, e.k), "ArrayIsMapOfScalar")
                       ELSE {})
                 \cup (IF e.isint
                       THEN Chk(e.flst = "ok" /\ Len(e.mag) = e.n /\ Near(e.res, e.flt, e.mag, e.k),
                                "IntEqualsFloat")
                       ELSE {})
            ELSE {})

Clauses(e) ==
   CASE e.ev = "construct" -> {}
     [] e.ev = "mutate" -> Chk(e.st = "ok", "MutatorRaises")
     [] e.ev = "write" -> {}
     [] e.ev = "eval" -> EvalClauses(e)
     [] OTHER -> {"UnknownEvent"}

Empty == [seen |-> <<>>]
Step(e) ==
   CASE e.ev \in {"construct", "mutate"} -> Empty
     [] e.ev = "eval" /\ e.st = "ok" /\ e.key \notin DOMAIN st.seen -> [seen |-> (e.key :> e.res) @@ st.seen]
     [] OTHER -> st

Init == l = 1 /\ st = Empty /\ TLCSet(1, {})
Next == /\ l <= Len(TraceLog)
        /\ LET e == TraceLog[l]  bad == Clauses(e) IN
             /\ IF bad # {} THEN TLCSet(1, TLCGet(1) \cup {<<e.tid, l, c>> : c \in bad}) ELSE TRUE
             /\ st' = Step(e)
        /\ l' = l + 1
Spec == Init /\ [][Next]_<<l, st>>
Post == /\ PrintT(<<"FAILS", TLCGet(1)>>)
        /\ PrintT(<<"CONSUMED", TLCGet("stats").diameter - 1>>)
=============================================================================
