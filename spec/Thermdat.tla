------------------------------ MODULE Thermdat ------------------------------
(***************************************************************************)
(* C05 - design model: write_thermdat followed by read_thermdat as a state *)
(* machine over the file text (ThermdatFormat.tla holds the layout, the    *)
(* writer and the reader automaton).                                       *)
(*                                                                         *)
(* State: the species list given to the writer (src), the file as a        *)
(* sequence of lines, the reader's position i, the reader automaton state  *)
(* rs and the species returned so far (out).  Actions: Write (the whole    *)
(* list, header and END line), then one reader action per line - Skip      *)
(* (blank / comment / THERMO / END / temperature header), Record(n) for    *)
(* the four numbered records, Reject (a line of no class) - then Close.    *)
(*                                                                         *)
(* Required (invariants): the written file has the fixed-column layout     *)
(* (FileLayout); the reader never fails (NoError); what it has returned is *)
(* always a prefix of src - nothing duplicated, merged or altered          *)
(* (PrefixOK); it has returned exactly as many species as record-4 lines   *)
(* went by - nothing dropped (NoDrop); at the end out = src (RoundTrip).   *)
(*                                                                         *)
(* The constants Classifier / ElemScan / Order select the required reader  *)
(* ("layout", "columns", "strict") or the implementation-shaped variants   *)
(* described in ThermdatFormat.tla; TLC is expected to reject the pinned   *)
(* ones ("substring", "firstblank" with "reuse") and to accept the         *)
(* repaired ones ("guarded", "cap2" with "reuse").                         *)
(***************************************************************************)
EXTENDS ThermdatFormat, TLC

CONSTANTS Lists,        \* set of species lists the writer is given
          Classifier,   \* "layout" | "substring" | "guarded"
          ElemScan,     \* "columns" | "firstblank" | "cap2"
          Order         \* "strict" | "reuse"

VARIABLES src, file, i, rs, out, pc
vars == <<src, file, i, rs, out, pc>>
V == [cls |-> Classifier, scan |-> ElemScan, ord |-> Order]

Init == /\ src \in Lists /\ file = <<>> /\ i = 1 /\ rs = RS0 /\ out = <<>> /\ pc = "new"

Write == /\ pc = "new"
         /\ file' = WriteFile(src) /\ pc' = "reading"
         /\ UNCHANGED <<src, i, rs, out>>

ReadLine(classes) ==
   /\ pc = "reading" /\ i <= Len(file)
   /\ ClassOf(Classifier, file[i]) \in classes
   /\ rs' = Step(V, rs, file[i])
   /\ out' = out \o rs'.emit
   /\ i' = i + 1
   /\ UNCHANGED <<src, file, pc>>
Skip == ReadLine(SkipClasses)
Record(n) == ReadLine({"record"}) /\ RecordNo(file[i]) = n
Reject == ReadLine({"other"})
Close == /\ pc = "reading" /\ i > Len(file) /\ pc' = "closed"
         /\ UNCHANGED <<src, file, i, rs, out>>

Next == Write \/ Skip \/ (\E n \in 1..4 : Record(n)) \/ Reject \/ Close
Spec == Init /\ [][Next]_vars

\* ---- properties
FileLayout == pc # "new" => FileLayoutOK(file)
NoError == rs.err = ""
PrefixOK == IsPrefixOf(out, src)
\* record-4 lines gone by, counted with the REQUIRED classification
Rec4Before(k) == Cardinality({j \in 1..(k - 1) : RecordNo(file[j]) = 4 /\ LayoutClass(file[j]) = "record"})
NoDrop == pc # "new" => Len(out) = Rec4Before(i)
RoundTrip == pc = "closed" => SameList(out, src) /\ rs.ph = 0
\* the functional form of the reader (used for case generation and by the trace spec)
\* agrees with the action form
FoldAgrees == pc = "closed" => ReadFile(V, file).out = out
=============================================================================
