\* the pinned source (default list shared by default-constructed interfaces): EXPECTED TO BE REJECTED
SPECIFICATION Spec
CONSTANTS
  PhaseObj <- P3
  KindOf <- Kinds3
  Species <- S3
  GivenLists <- Given3
  MaxLen = 3
  MaxOps = 6
  Variant = "shared_default"
  ElemOf <- Elem3
  CacheVariant = "none"
  OwnerVariant = "keep"
INVARIANT TypeOK
INVARIANT ListsExactlyItsSpecies
INVARIANT OwnerAlive
PROPERTY Frame
PROPERTY NewIsWhatWasGiven
PROPERTY OwnerAfterInsert
VIEW ViewDepth
CHECK_DEADLOCK FALSE
