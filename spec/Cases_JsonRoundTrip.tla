------------------------- MODULE Cases_JsonRoundTrip -------------------------
(***************************************************************************)
(* C11 (S->C): TLC writes the schema, every enumerated tree and, for each  *)
(* tree, what encode -> decode yields according to JsonRoundTrip.tla       *)
(* ("same" when the decoded tree equals the original, otherwise the        *)
(* predicted projection).  With Variant = "required" the driver requires   *)
(* "same" everywhere (the abstract result the real code is compared with); *)
(* with Variant = "pinned" the output is the model's prediction of where   *)
(* the pinned source diverges (used as a cross-check, never as a verdict). *)
(***************************************************************************)
EXTENDS JsonRoundTrip, Json, IOUtils, SequencesExt
AllRoots == Class

RECURSIVE Strip(_), Proj(_)
Strip(t) == [c |-> t.c, k |-> [s \in DOMAIN t.k |-> MapSeq(t.k[s], Strip)]]
Proj(t) == IF t.kind \in {"null", "error"} THEN t
           ELSE [kind |-> t.kind, c |-> t.c, a |-> t.a, k |-> [s \in DOMAIN t.k |-> MapSeq(t.k[s], Proj)]]
Outcome(t, r) == IF r = t THEN "same" ELSE Proj(r)

CaseOf(t) == LET j == Encode(t)
                 ld == HookDecode(j)
                 dd == DictDecode(j)
                 af == After(j)
             IN [t |-> Strip(t),
                 load |-> Outcome(t, ld),
                 dict |-> Outcome(t, dd),
                 again |-> Outcome(t, DictDecode(af)),
                 untouched |-> af = j,
                 reload |-> IF ld.kind = "obj" /\ ~HasKind(ld, "dict")
                            THEN Outcome(t, HookDecode(Encode(ld))) ELSE "skipped"]

Out == [variant |-> Variant,
        classes |-> SetToSeq(Class),
        schema |-> [c \in Class |-> Schema[c]],
        attrs |-> [c \in Class |-> SetToSeq(Attrs[c])],
        registry |-> SetToSeq(Registry),
        cases |-> SetToSeq({CaseOf(t) : t \in Trees})]
ASSUME JsonSerialize(IOEnv.OUT_FILE, Out)
\* dummy behaviour spec (the work is done by the ASSUME)
CInit == obj = Null /\ text = Null /\ dictGiven = Null /\ dict0 = Null /\ decoded = Null /\ first = Null /\ h = << >>
CNext == UNCHANGED vars
=============================================================================
