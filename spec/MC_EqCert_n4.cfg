\* thorough: every matrix of 4 species x 2 elements, entries 0..1, box -2..2
SPECIFICATION Spec
CONSTANTS
  NS <- NS4
  NE = 2
  MaxEntry = 1
  BoxR = 2
  Sorted = FALSE
  Rule = "full"
INVARIANT CertSound
CHECK_DEADLOCK FALSE
