------------------------------- MODULE Dec2 -------------------------------
(***************************************************************************)
(* 17-significant-digit decimals for near-ulp comparisons (array vs scalar *)
(* evaluation, text round trips).  A number is <<hi, lo, e>> meaning       *)
(* (hi * 10^8 + lo) * 10^e with |hi| < 10^9, |lo| < 10^8, same sign        *)
(* (harness/core.py: to_dec2 gives exactly 17 significant digits).         *)
(* Only comparison is provided.                                            *)
(***************************************************************************)
EXTENDS Dec

IsZero2(a) == a[1] = 0 /\ a[2] = 0
\* drop d (0..8) low digits
Shift2(a, d) == IF d = 0 THEN a
                ELSE <<TDiv(a[1], Pow10(d)),
                       (a[1] - TDiv(a[1], Pow10(d)) * Pow10(d)) * Pow10(8 - d) + TDiv(a[2], Pow10(d)),
                       a[3] + d>>
ToDec(a) == <<a[1], a[3] + 8>>            \* leading 9 digits as a Dec
\* |a - b| <= 10^(17 - k) units of the last digit of the larger operand, 9 <= k <= 16
Close2(a, b, k) ==
   IF IsZero2(a) /\ IsZero2(b) THEN TRUE
   ELSE IF IsZero2(a) \/ IsZero2(b) THEN FALSE
   ELSE LET e == IF a[3] > b[3] THEN a[3] ELSE b[3]
            da == e - a[3]  db == e - b[3] IN
        IF da > 8 \/ db > 8 THEN FALSE
        ELSE LET x == Shift2(a, da)  y == Shift2(b, db)
                 dh == x[1] - y[1]  dl == x[2] - y[2] IN
             /\ Abs(dh) <= 1
             /\ Abs(dh * 100000000 + dl) <= Pow10(17 - k)
\* a - b as a Dec (exact when the leading limbs differ by at most 20 units, else to 9 digits)
Sub2(a, b) ==
   IF IsZero2(a) /\ IsZero2(b) THEN Zero
   ELSE IF IsZero2(b) THEN ToDec(a) ELSE IF IsZero2(a) THEN Neg(ToDec(b))
   ELSE LET e == IF a[3] > b[3] THEN a[3] ELSE b[3]
            da == e - a[3]  db == e - b[3] IN
        IF da > 8 THEN Neg(ToDec(b)) ELSE IF db > 8 THEN ToDec(a)
        ELSE LET x == Shift2(a, da)  y == Shift2(b, db)
                 dh == x[1] - y[1]  dl == x[2] - y[2] IN
             IF Abs(dh) <= 20 THEN <<dh * 100000000 + dl, e>> ELSE <<dh, e + 8>>
\* |a - b| < 10^(Mag(scale) - k): the scale is supplied (largest term that entered a or b)
Close2At(a, b, scale, k) == LET d == Sub2(a, b) IN d[1] = 0 \/ Mag(d) <= Mag(scale) - k
Equal2(a, b) == (IsZero2(a) /\ IsZero2(b)) \/ a = b
=============================================================================
