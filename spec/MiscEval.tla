------------------------------ MODULE MiscEval ------------------------------
(***************************************************************************)
(* C13, evaluation half - "the reported value equals the bare polynomial   *)
(* value plus the sum of every attached model's contribution at the same   *)
(* temperature and conditions, for scalar and array temperatures and any   *)
(* number and order of attached models".                                   *)
(*                                                                         *)
(* Everything here is constant level and exact.  Numbers are integers in   *)
(* units of 1/64 (the grid the harness instantiates with dyadic values):   *)
(*   tau   = T / 256 K        in {1, 2, 4}                                 *)
(*   P4    = 4 * P / bar      in {2, 4, 16}      (P = 1 bar  <=>  P4 = 4)  *)
(*   xB,xC = 4 * coverage of species B / C   in {0, 1, 2}                  *)
(* Bare polynomials (harness: NASA-7 a2 = 2^-9, a6 = 256, a7 = 3; NASA-9   *)
(* a4, a8, a9 alike; Shomate all-zero coefficients):                       *)
(*   Cp/R = tau/2,  H/RT = tau/4 + 1/tau,  S/R = tau/2 + 3   (Shomate: 0)  *)
(* Model kinds:                                                            *)
(*   PAdj  real GasPressureAdj   : S -= ln P  (exactly 0 at 1 bar)         *)
(*   CovB / CovC  real PiecewiseCovEffect with name_j = B / C : adds to H  *)
(*         (exactly 0 at zero coverage), nothing to Cp and S               *)
(*   P1    harness probe, f(T, P)         : (8 a + tau P4) / 64            *)
(*   P2B   harness probe, f(T, x), name_j = B : 32 (a + tau (1 + xB)) / 64 *)
(*   P2C   harness probe, f(T, x), name_j = C : 512 (a + tau (1 + xC)) / 64*)
(*   with a = 1, 2, 3 for Cp, H, S.  Every probe contribution is positive  *)
(*   and depends on T and on its own condition, so a dropped, doubled or   *)
(*   mis-routed model, or a wrong temperature, changes the sum.            *)
(* A contribution that is not a dyadic number (ln P, slope x / RT) is      *)
(* flagged inexact: the replay then compares nothing for that entry and    *)
(* the trace specification judges it in Dec arithmetic instead.  The       *)
(* integer carried for an inexact contribution is only a stand-in used by  *)
(* the refinement check below.                                             *)
(*                                                                         *)
(* Required(...)  is the relation of the property (an order-free sum over  *)
(* the index set).  Alg("persum", ...) is the loop of Nasa/Nasa9.get_*     *)
(* (for every T_i: fold the models left to right, each with the kwargs of  *)
(* its own name_j); Alg("lastbroadcast", ...) is Shomate.get_* as pinned   *)
(* (mix array of the LAST temperature added element-wise, unsummed).  TLC  *)
(* checks Alg = Required over the whole case set (EvalRefines).            *)
(***************************************************************************)
EXTENDS Integers, Sequences, FiniteSets, TLC

Kinds == {"PAdj", "CovB", "CovC", "P1", "P2B", "P2C"}
Quantities == <<"Cp", "H", "S">>            \* G = H - S is derived
A(q) == CASE q = "Cp" -> 1 [] q = "H" -> 2 [] q = "S" -> 3

Bare(fam, q, tau) ==
   IF fam = "Shomate" THEN 0
   ELSE CASE q = "Cp" -> 32 * tau
          [] q = "H"  -> 16 * tau + 64 \div tau
          [] q = "S"  -> 32 * tau + 192

\* stand-ins for the non-dyadic contributions (64 ln(P) rounded; 7 x / tau)
LnP64(P4) == CASE P4 = 2 -> -44 [] P4 = 4 -> 0 [] P4 = 16 -> 89 [] OTHER -> 1000 + P4
Ex(v) == [exact |-> TRUE, v |-> v]
Inex(v) == [exact |-> FALSE, v |-> v]

\* name_j routing: a model with name_j = B sees B's coverage, and so on
NameJ(k) == CASE k \in {"CovB", "P2B"} -> "B" [] k \in {"CovC", "P2C"} -> "C" [] OTHER -> "-"
XFor(k, c) == IF NameJ(k) = "B" THEN c.xB ELSE IF NameJ(k) = "C" THEN c.xC ELSE 0

Contrib(k, q, tau, c) ==
   CASE k = "PAdj" -> IF q = "S" /\ c.P4 # 4 THEN Inex(-LnP64(c.P4)) ELSE Ex(0)
     [] k \in {"CovB", "CovC"} ->
          IF q = "H" /\ XFor(k, c) # 0
          THEN Inex(((IF k = "CovB" THEN 28 ELSE -52) * XFor(k, c)) \div tau) ELSE Ex(0)
     [] k = "P1"  -> Ex(8 * A(q) + tau * c.P4)
     [] k = "P2B" -> Ex(32 * (A(q) + tau * (1 + XFor(k, c))))
     [] k = "P2C" -> Ex(512 * (A(q) + tau * (1 + XFor(k, c))))

RECURSIVE SumOver(_, _)
SumOver(f, S) == IF S = {} THEN 0 ELSE LET i == CHOOSE j \in S : TRUE IN f[i] + SumOver(f, S \ {i})

\* ---- the required relation (misc: sequence of kinds; <<>> also stands for None)
ReqAt(fam, misc, q, tau, c) ==
   LET cs == [i \in 1..Len(misc) |-> Contrib(misc[i], q, tau, c)]
   IN [exact |-> \A i \in 1..Len(misc) : cs[i].exact,
       v |-> Bare(fam, q, tau) + SumOver([i \in 1..Len(misc) |-> cs[i].v], 1..Len(misc))]
Required(fam, misc, q, ts, c) == [i \in 1..Len(ts) |-> ReqAt(fam, misc, q, ts[i], c)]
RequiredG(fam, misc, ts, c) ==
   [i \in 1..Len(ts) |->
      LET hh == ReqAt(fam, misc, "H", ts[i], c)  ss == ReqAt(fam, misc, "S", ts[i], c)
      IN [exact |-> hh.exact /\ ss.exact, v |-> hh.v - ss.v]]

\* ---- implementation-shaped algorithms (values only; Raises when the code would raise)
RECURSIVE FoldModels(_, _, _, _, _)
FoldModels(misc, q, tau, c, k) ==          \* np.sum over the mix array filled model by model
   IF k = 0 THEN 0 ELSE FoldModels(misc, q, tau, c, k - 1) + Contrib(misc[k], q, tau, c).v
Ok(v) == [raises |-> FALSE, v |-> v]
Raises == [raises |-> TRUE, v |-> <<>>]
Alg(variant, fam, misc, isNone, q, ts, c) ==
   IF variant = "persum"
   THEN Ok([i \in 1..Len(ts) |-> Bare(fam, q, ts[i]) + FoldModels(misc, q, ts[i], c, Len(misc))])
   ELSE \* "lastbroadcast": CpoR + CpoR_mix with CpoR_mix from the last T_i
        LET last == ts[Len(ts)]
            mix == IF isNone THEN <<0>> ELSE [m \in 1..Len(misc) |-> Contrib(misc[m], q, last, c).v]
            n == Len(ts)  k == Len(mix)
        IN IF k = 0 THEN Raises                                         \* (n,) + (0,)
           ELSE IF n = 1 THEN Ok(<<Bare(fam, q, ts[1]) + mix[1]>>)      \* (1,)+(k,) -> item(0)
           ELSE IF k = 1 THEN Ok([i \in 1..n |-> Bare(fam, q, ts[i]) + mix[1]])
           ELSE IF k = n THEN Ok([i \in 1..n |-> Bare(fam, q, ts[i]) + mix[i]])
           ELSE Raises
Values(req) == [i \in 1..Len(req) |-> req[i].v]
Refines(variant, fam, misc, isNone, ts, c) ==
   \A qi \in 1..3 : Alg(variant, fam, misc, isNone, Quantities[qi], ts, c)
                      = Ok(Values(Required(fam, misc, Quantities[qi], ts, c)))

\* ---- order independence and "exactly once": the total decodes the multiset
Perms(s) == {p \in [1..Len(s) -> 1..Len(s)] : \A i, j \in 1..Len(s) : p[i] = p[j] => i = j}
OrderFree(fam, misc, ts, c) ==
   \A p \in Perms(misc) : \A qi \in 1..3 :
      Required(fam, [i \in 1..Len(misc) |-> misc[p[i]]], Quantities[qi], ts, c)
        = Required(fam, misc, Quantities[qi], ts, c)

\* ---- expected totals for replay: ex[i] = FALSE marks "inexact: judged by the trace spec"
Expect(req) == [v |-> [i \in 1..Len(req) |-> IF req[i].exact THEN req[i].v ELSE 0],
                ex |-> [i \in 1..Len(req) |-> req[i].exact]]
=============================================================================
