\* X09 design model, implementation shape "scratch" (Keyed <- AllFields): evaluation writes the observable content - expected: REJECTED
SPECIFICATION Spec
CONSTANTS
  NF = 3
  Vals = {1, 2}
  Methods = {1, 2}
  Refs <- RefSet
  Args <- ArgsSmall
  InitStores <- StoresSmall
  Keyed <- AllFields
  Impl = "scratch"
  MaxOps = 4
INVARIANT TypeOK
PROPERTY StateUntouched
VIEW View
CHECK_DEADLOCK FALSE
