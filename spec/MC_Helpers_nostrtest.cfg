\* EXPECTED TO BE REJECTED (sensitivity): _is_iterable without the string test
SPECIFICATION Spec
CONSTANTS
  Worlds <- Small
  V <- VNoStrTest
INVARIANT TypeOK
INVARIANT SpecieFaithful
INVARIANT BlockKeysRemoved
INVARIANT FormatFaithful
INVARIANT FormatCount
INVARIANT DictFaithful
INVARIANT IterFaithful
INVARIANT AttrFaithful
INVARIANT CallerUntouched
CHECK_DEADLOCK FALSE
