\* format_conditions as built on ragged lists: run i holds the names that have an i-th element (the only
\* reading that keeps "each index corresponds to a run"); not judged on the real code, the docstring is silent
SPECIFICATION Spec
CONSTANTS
  Worlds <- FormatRaggedQuick
  V <- VRepaired
INVARIANT TypeOK
INVARIANT FormatFaithful
INVARIANT FormatCount
INVARIANT CallerUntouched
CHECK_DEADLOCK FALSE
