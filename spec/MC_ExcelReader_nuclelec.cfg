\* variant "nuclelec": nucl_model names are looked up among the electronic models, as pmutt/io/excel.py:set_nucl_model does - EXPECTED TO BE REJECTED (NoRaise on EmptyNucl)
SPECIFICATION Spec
CONSTANTS
  Groups <- MCGroups
  GroupSheets <- MCGroupSheets
  Variant = "nuclelec"
  SetName = "small"
INVARIANT KeysFunctional
INVARIANT OneRecordPerRow
INVARIANT RowOrder
INVARIANT Refines
INVARIANT CarriedEmpty
INVARIANT NoLeak
INVARIANT NoEmptyCells
INVARIANT NoRaise
INVARIANT DispatchDisjoint
INVARIANT ChainAgrees
INVARIANT InQuantifier
CHECK_DEADLOCK FALSE
