\* X09 design model, thorough tier: implementation shape "pure", more arguments / stores, 5 calls
SPECIFICATION Spec
CONSTANTS
  NF = 3
  Vals = {1, 2}
  Methods = {1, 2}
  Refs <- RefSet
  Args <- ArgsBig
  InitStores <- StoresBig
  Keyed <- AllFields
  Impl = "pure"
  MaxOps = 5
INVARIANT TypeOK
PROPERTY ArgsUntouched
PROPERTY StateUntouched
PROPERTY Repeatable
PROPERTY NoHiddenState
PROPERTY FreshAfterMutation
PROPERTY ArrayIsMapOfScalar
PROPERTY IntEqualsFloat
VIEW View
CHECK_DEADLOCK FALSE
