\* numpy.nanargmin(GoRT, axis=1) variant, entries only: EXPECTED TO BE REJECTED
\* (shows that the report is wrong even where #reactions = #grid points)
SPECIFICATION Spec
CONSTANTS
  MaxR = 3
  MaxP = 3
  MaxR2 = 2
  MaxP2 = 2
  Vals <- MCVals
  MaxS = 6
  SVals <- MCSVals
  MaxSteps = 2
  StepVals <- MCStepVals
  Variant = "axis1"
INVARIANT StableIsArgMin
CHECK_DEADLOCK FALSE
