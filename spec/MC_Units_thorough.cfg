\* design model, longer conversion chains (thorough tier)
SPECIFICATION Spec
CONSTANTS
  Variant = "viabase"
  MaxSteps = 6
INVARIANT TypeOK
INVARIANT PathIndependent
INVARIANT DerivedAgree
INVARIANT LawsInv
PROPERTY TypePreserved
PROPERTY RefusalChangesNothing
CHECK_DEADLOCK FALSE
