\* X09: every behaviour of a small instance of the required machine, printed for replay into the real classes
SPECIFICATION Spec
CONSTANTS
  NF = 3
  Vals = {1, 2}
  Methods = {1, 2}
  Refs <- RefSet
  Args <- ArgsTiny
  InitStores <- StoresOne
  Keyed <- AllFields
  Impl = "pure"
  MaxOps = 3
INVARIANT EmitBehaviours
CHECK_DEADLOCK FALSE
