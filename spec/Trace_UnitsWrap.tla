-------------------------- MODULE Trace_UnitsWrap --------------------------
(***************************************************************************)
(* C04 - trace validation of recorded (dimensional getter, dimensionless   *)
(* twin) pairs.  One trace id = one cell of UnitsWrap.tla instantiated     *)
(* with a concrete object and concrete option values.  Lines:              *)
(*   twin  : the dimensionless call (keywords KwT of the cell): XoR, T,    *)
(*           composition of the species and the library's weights          *)
(*   dim   : one per unit string: the dimensional call (keywords KwD)      *)
(*   focus : one per option that is set: both calls again WITHOUT that     *)
(*           option (the other keywords unchanged)                         *)
(* A trace id holds up to three blocks twin/dim...: the cell's object, a   *)
(* second species of the same name with another stoichiometry, and the     *)
(* first object again at another temperature.                              *)
(* `st` carries the twin line and the previous successful dim line of the  *)
(* trace id.  Values are sequences (length 1 for scalars; arrays of T and  *)
(* the verbose vector are judged element by element).  R comes from the    *)
(* specification's own table (UnitsWrap!RTable), never from the log; the   *)
(* molar mass is computed here from the logged composition.                *)
(* Tolerance: each clause is a few Mul (8-9 digits each) -> k = 6.         *)
(***************************************************************************)
EXTENDS Dec, TLC, TLCExt, Json, IOUtils

UW == INSTANCE UnitsWrap WITH Variant <- "required", ShomateOwn <- {}, ClassFilter <- {}, pc <- "call", cell <- 0, unit <- 0, res <- 0

TraceLog == ndJsonDeserialize(IOEnv.TRACE_FILE)
VARIABLES l, st

One == <<1, 0>>
Elements == {"H", "N", "O"}
K == 6

U(e) == [e |-> e.e, per |-> e.per]
KnownUnit(e) == U(e) \in UW!Units
Rspec(e) == UW!RTable[UW!RKey(U(e))]

\* molar mass [g/mol] from the composition and the weights logged with the twin line
MolarMass(t) == Add(Add(Mul(t.comp.H, t.aw.H), Mul(t.comp.N, t.aw.N)), Mul(t.comp.O, t.aw.O))
\* mass of one mole in the mass unit of u (1 for molar / per-molecule units)
MassFactor(t, e) == CASE e.per = "g"  -> MolarMass(t)
                      [] e.per = "kg" -> Mul(MolarMass(t), <<1, -3>>)
                      [] OTHER        -> One
\* counts are Dec (integers, zeros and floats are all accepted by the library)
HasComposition(t) == ~(IsZero(t.comp.H) /\ IsZero(t.comp.N) /\ IsZero(t.comp.O))

Tat(t, i) == IF Len(t.T) = 1 THEN t.T[1] ELSE t.T[i]
\* XoR[i] * R * (T[i] for energies)
RhsAt(t, e, xor, i) == LET a == Mul(xor[i], Rspec(e)) IN IF t.energy THEN Mul(a, Tat(t, i)) ELSE a
\* X[i] * (mass of a mole in the mass unit)
LhsAt(t, e, x, i) == IF e.per \in {"g", "kg"} THEN Mul(x[i], MassFactor(t, e)) ELSE x[i]

RelationHolds(t, e, x, xor) ==
   \A i \in 1..Len(x) : Close(LhsAt(t, e, x, i), RhsAt(t, e, xor, i), K)

ShapeOK(t) ==
   /\ Len(t.T) >= 1
   /\ t.ok => /\ Len(t.XoR) >= 1
              /\ t.shape = "scalar" => Len(t.XoR) = 1 /\ Len(t.T) = 1
              /\ t.shape = "array"  => Len(t.XoR) = Len(t.T)
              /\ t.shape = "verbose" => Len(t.T) = 1

TwinClauses(e) ==
   (IF ShapeOK(e) THEN {} ELSE {"Shape"})
   \cup (IF HasComposition(e) /\ ~(\A el \in Elements : Close(e.aw[el], UW!AtomicWeight[el], 4))
         THEN {"AtomicWeightTable"} ELSE {})
   \cup (IF e.energy = UW!Energy(e.q) THEN {} ELSE {"CaseBinding"})

\* X(u1) R(u2) m(u1) = X(u2) R(u1) m(u2): the same quantity in two units differs by the
\* conversion factor only
RatioHolds(t, e1, x1, e2, x2) ==
   \A i \in 1..Len(x1) :
      LET a == Mul(LhsAt(t, e1, x1, i), Rspec(e2))
          b == Mul(LhsAt(t, e2, x2, i), Rspec(e1))
      IN Close(a, b, K)

DimClauses(e) ==
   IF ~KnownUnit(e) THEN {"UnknownUnit"}
   ELSE
   (IF e.ustr = UW!UnitStr(U(e), st.twin.energy) THEN {} ELSE {"UnitString"})
   \cup (IF e.per \in {"g", "kg"} /\ ~HasComposition(st.twin) THEN {"CaseBinding"} ELSE {})
   \* the caller's temperature (array) still holds what it held before the calls
   \cup (IF e.Tnow = st.twin.T THEN {} ELSE {"InputUntouched"})
   \cup
   (IF ~st.twin.ok THEN {}                                   \* no dimensionless value: nothing is demanded
    ELSE IF ~e.ok THEN {"Raises"}
    ELSE IF Len(e.X) # Len(st.twin.XoR) THEN {"Shape"}
    ELSE
      (IF RelationHolds(st.twin, e, e.X, st.twin.XoR) THEN {}
       ELSE {IF e.per \in {"g", "kg"} THEN "PerMass" ELSE "UnitsTimesR"})
      \cup (IF e.Rok /\ Close(e.R, Rspec(e), 7) THEN {} ELSE {"RTable"})
      \cup (IF st.hasPrev /\ Len(st.prev.X) = Len(e.X)
               /\ ~RatioHolds(st.twin, st.prev, st.prev.X, e, e.X)
            THEN {"TwoUnitsRatio"} ELSE {}))

\* (X - X0) m = (XoR - XoR0) R T : the option acts on both forms, identically
FocusHolds(t, e) ==
   \A i \in 1..Len(e.X) :
      LET x1 == LhsAt(t, e, e.X, i)   x0 == LhsAt(t, e, e.X0, i)
          r1 == RhsAt(t, e, t.XoR, i) r0 == RhsAt(t, e, e.XoR0, i)
      IN CloseIn(Sub(x1, x0), Sub(r1, r0), {x1, x0, r1, r0}, K)

FocusClauses(e) ==
   IF ~KnownUnit(e) THEN {"UnknownUnit"}
   ELSE IF ~(st.twin.ok /\ e.ok /\ e.ok0 /\ e.okT0) THEN {}   \* judged by Raises on the dim lines
   ELSE IF ~(Len(e.X) = Len(e.X0) /\ Len(e.XoR0) = Len(e.X) /\ Len(st.twin.XoR) = Len(e.X))
        THEN {"Shape"}
   ELSE IF FocusHolds(st.twin, e) THEN {} ELSE {"OptionActsOnBoth"}

Clauses(e) ==
   CASE e.ev = "twin"  -> TwinClauses(e)
     [] e.ev = "dim"   -> DimClauses(e)
     [] e.ev = "focus" -> FocusClauses(e)
     [] OTHER -> {"UnknownEvent"}

NoLine == [ev |-> "none"]
Step(e) ==
   CASE e.ev = "twin" -> [twin |-> e, hasPrev |-> FALSE, prev |-> NoLine]
     [] e.ev = "dim" /\ KnownUnit(e) /\ e.ok /\ st.twin.ok -> [st EXCEPT !.hasPrev = TRUE, !.prev = e]
     [] OTHER -> st

Init == l = 1 /\ st = [twin |-> NoLine, hasPrev |-> FALSE, prev |-> NoLine] /\ TLCSet(1, {})
Next == /\ l <= Len(TraceLog)
        /\ LET e == TraceLog[l]  bad == Clauses(e) IN
             /\ IF bad # {} THEN TLCSet(1, TLCGet(1) \cup {<<e.tid, l, c>> : c \in bad}) ELSE TRUE
             /\ st' = Step(e)
        /\ l' = l + 1
Spec == Init /\ [][Next]_<<l, st>>
Post == /\ PrintT(<<"FAILS", TLCGet(1)>>)
        /\ PrintT(<<"CONSUMED", TLCGet("stats").diameter - 1>>)
=============================================================================
