\* exhaustive design model, quick: <=2 columns from 24 header instances x <=2 rows, 3 columns from 6
\* x 2 rows, 2 columns from 6 x 3 rows (all emptiness patterns), formula with element.O / element.Pt in every order, 10 five-column layouts x 3 rows x
\* 216 structured patterns
SPECIFICATION Spec
CONSTANTS
  Groups <- MCGroups
  GroupSheets <- MCGroupSheets
  Variant = "code"
  SetName = "quick"
INVARIANT KeysFunctional
INVARIANT OneRecordPerRow
INVARIANT RowOrder
INVARIANT Refines
INVARIANT CarriedEmpty
INVARIANT NoLeak
INVARIANT NoEmptyCells
INVARIANT NoRaise
INVARIANT DispatchDisjoint
INVARIANT ChainAgrees
INVARIANT InQuantifier
CHECK_DEADLOCK FALSE
