\* EXPECTED TO BE REJECTED: the "square fast path" variant (direct solve when #references = #descriptors,
\* least squares only when the solver notices singularity) on square rank-deficient sets
SPECIFICATION Spec
CONSTANTS
  ND = 3
  RefKinds <- SqKinds
  InsKinds <- SqIns
  ExtSets <- SqExt
  InitSets <- SqInit
  MaxRefs = 3
  MaxOps = 2
  Variant = "explicit"
  Steps <- MCSteps
  Algo = "squarefast"
  Garbage = 1000
  Acts = {"remove", "setitem", "clear", "reload"}
  GivenSets <- NoGiven
  Record = FALSE
  Temps = {200, 1000}
INVARIANT NormalEquations
VIEW View
CHECK_DEADLOCK FALSE
