----------------------------- MODULE MC_Helpers -----------------------------
(* Worlds and variant records for the design model Helpers.tla: see HelpersWorlds.tla and the cfgs. *)
EXTENDS Helpers, HelpersWorlds
=============================================================================
