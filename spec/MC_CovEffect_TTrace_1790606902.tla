---- MODULE MC_CovEffect_TTrace_1790606902 ----
EXTENDS Sequences, MC_CovEffect, TLCExt, Toolbox, Naturals, TLC

_expression ==
    LET MC_CovEffect_TEExpression == INSTANCE MC_CovEffect_TEExpression
    IN MC_CovEffect_TEExpression!expression
----

_trace ==
    LET MC_CovEffect_TETrace == INSTANCE MC_CovEffect_TETrace
    IN MC_CovEffect_TETrace!trace
----

_inv ==
    ~(
        TLCGet("level") = Len(_TETrace)
        /\
        h = (<<[iv |-> <<0>>, sl |-> <<-1>>, ic |-> <<0>>, act |-> "construct", s |-> 0, x |-> 0], [iv |-> <<0>>, sl |-> <<-1>>, ic |-> <<0>>, act |-> "reload", s |-> 0, x |-> 0], [iv |-> <<0, 0>>, sl |-> <<-1, -1>>, ic |-> <<0, 0>>, act |-> "insert", s |-> -1, x |-> 0]>>)
        /\
        frozen = (<<[iv |-> <<0>>, sl |-> <<-1>>, ic |-> <<0>>], [iv |-> <<0>>, sl |-> <<-1>>, ic |-> <<0>>], [iv |-> <<0, 0>>, sl |-> <<-1, -1>>, ic |-> <<0>>]>>)
        /\
        sl = (<<-1, -1>>)
        /\
        ic = (<<0, 0>>)
        /\
        iv = (<<0, 0>>)
    )
----

_init ==
    /\ h = _TETrace[1].h
    /\ frozen = _TETrace[1].frozen
    /\ sl = _TETrace[1].sl
    /\ ic = _TETrace[1].ic
    /\ iv = _TETrace[1].iv
----

_next ==
    /\ \E i,j \in DOMAIN _TETrace:
        /\ \/ /\ j = i + 1
              /\ i = TLCGet("level")
        /\ h  = _TETrace[i].h
        /\ h' = _TETrace[j].h
        /\ frozen  = _TETrace[i].frozen
        /\ frozen' = _TETrace[j].frozen
        /\ sl  = _TETrace[i].sl
        /\ sl' = _TETrace[j].sl
        /\ ic  = _TETrace[i].ic
        /\ ic' = _TETrace[j].ic
        /\ iv  = _TETrace[i].iv
        /\ iv' = _TETrace[j].iv

\* Uncomment the ASSUME below to write the states of the error trace
\* to the given file in Json format. Note that you can pass any tuple
\* to `JsonSerialize`. For example, a sub-sequence of _TETrace.
    \* ASSUME
    \*     LET J == INSTANCE Json
    \*         IN J!JsonSerialize("MC_CovEffect_TTrace_1790606902.json", _TETrace)

=============================================================================

 Note that you can extract this module `MC_CovEffect_TEExpression`
  to a dedicated file to reuse `expression` (the module in the 
  dedicated `MC_CovEffect_TEExpression.tla` file takes precedence 
  over the module `MC_CovEffect_TEExpression` below).

---- MODULE MC_CovEffect_TEExpression ----
EXTENDS Sequences, MC_CovEffect, TLCExt, Toolbox, Naturals, TLC

expression == 
    [
        \* To hide variables of the `MC_CovEffect` spec from the error trace,
        \* remove the variables below.  The trace will be written in the order
        \* of the fields of this record.
        h |-> h
        ,frozen |-> frozen
        ,sl |-> sl
        ,ic |-> ic
        ,iv |-> iv
        
        \* Put additional constant-, state-, and action-level expressions here:
        \* ,_stateNumber |-> _TEPosition
        \* ,_hUnchanged |-> h = h'
        
        \* Format the `h` variable as Json value.
        \* ,_hJson |->
        \*     LET J == INSTANCE Json
        \*     IN J!ToJson(h)
        
        \* Lastly, you may build expressions over arbitrary sets of states by
        \* leveraging the _TETrace operator.  For example, this is how to
        \* count the number of times a spec variable changed up to the current
        \* state in the trace.
        \* ,_hModCount |->
        \*     LET F[s \in DOMAIN _TETrace] ==
        \*         IF s = 1 THEN 0
        \*         ELSE IF _TETrace[s].h # _TETrace[s-1].h
        \*             THEN 1 + F[s-1] ELSE F[s-1]
        \*     IN F[_TEPosition - 1]
    ]

=============================================================================



Parsing and semantic processing can take forever if the trace below is long.
 In this case, it is advised to uncomment the module below to deserialize the
 trace from a generated binary file.

\*
\*---- MODULE MC_CovEffect_TETrace ----
\*EXTENDS IOUtils, MC_CovEffect, TLC
\*
\*trace == IODeserialize("MC_CovEffect_TTrace_1790606902.bin", TRUE)
\*
\*=============================================================================
\*

---- MODULE MC_CovEffect_TETrace ----
EXTENDS MC_CovEffect, TLC

trace == 
    <<
    ([h |-> <<[iv |-> <<0>>, sl |-> <<-1>>, ic |-> <<0>>, act |-> "construct", s |-> 0, x |-> 0]>>,frozen |-> <<[iv |-> <<0>>, sl |-> <<-1>>, ic |-> <<0>>]>>,sl |-> <<-1>>,ic |-> <<0>>,iv |-> <<0>>]),
    ([h |-> <<[iv |-> <<0>>, sl |-> <<-1>>, ic |-> <<0>>, act |-> "construct", s |-> 0, x |-> 0], [iv |-> <<0>>, sl |-> <<-1>>, ic |-> <<0>>, act |-> "reload", s |-> 0, x |-> 0]>>,frozen |-> <<[iv |-> <<0>>, sl |-> <<-1>>, ic |-> <<0>>], [iv |-> <<0>>, sl |-> <<-1>>, ic |-> <<0>>], [iv |-> <<0>>, sl |-> <<-1>>, ic |-> <<0>>]>>,sl |-> <<-1>>,ic |-> <<0>>,iv |-> <<0>>]),
    ([h |-> <<[iv |-> <<0>>, sl |-> <<-1>>, ic |-> <<0>>, act |-> "construct", s |-> 0, x |-> 0], [iv |-> <<0>>, sl |-> <<-1>>, ic |-> <<0>>, act |-> "reload", s |-> 0, x |-> 0], [iv |-> <<0, 0>>, sl |-> <<-1, -1>>, ic |-> <<0, 0>>, act |-> "insert", s |-> -1, x |-> 0]>>,frozen |-> <<[iv |-> <<0>>, sl |-> <<-1>>, ic |-> <<0>>], [iv |-> <<0>>, sl |-> <<-1>>, ic |-> <<0>>], [iv |-> <<0, 0>>, sl |-> <<-1, -1>>, ic |-> <<0>>]>>,sl |-> <<-1, -1>>,ic |-> <<0, 0>>,iv |-> <<0, 0>>])
    >>
----


=============================================================================

---- CONFIG MC_CovEffect_TTrace_1790606902 ----
CONSTANTS
    Grid = { 0 , 1 , 2 , 3 , 4 }
    Slopes <- SlopeSet
    MaxLen = 6
    MaxOps = 4
    Variant = "bisect"
    Sharing = "dictalias"
    InitSets <- MCInitSets

INVARIANT
    _inv

CHECK_DEADLOCK
    \* CHECK_DEADLOCK off because of PROPERTY or INVARIANT above.
    FALSE

INIT
    _init

NEXT
    _next

CONSTANT
    _TETrace <- _trace

ALIAS
    _expression
=============================================================================
\* Generated on Mon Sep 28 14:48:24 UTC 2026