\* random behaviours (tlc -simulate) of ExtendedLSR objects of 1..2 terms, printed for replay
SPECIFICATION Spec
CONSTANTS
  Slopes <- MCSlopes2
  Icpts <- MCIcpts2
  Energies <- MCEnergies2
  Temps = {250, 500}
  MaxN = 2
  MaxOps = 4
  Variant = "required"
  Kinds = {"ext"}
  Stoichs = {2}
  ExtParts <- MCExtParts
INVARIANT EmitBehaviours
CHECK_DEADLOCK FALSE
