\* variant "hoist": the record is created once, before the row loop - EXPECTED TO BE REJECTED (CarriedEmpty / NoLeak / RowOrder)
SPECIFICATION Spec
CONSTANTS
  Groups <- MCGroups
  GroupSheets <- MCGroupSheets
  Variant = "hoist"
  SetName = "small"
INVARIANT KeysFunctional
INVARIANT OneRecordPerRow
INVARIANT RowOrder
INVARIANT Refines
INVARIANT CarriedEmpty
INVARIANT NoLeak
INVARIANT NoEmptyCells
INVARIANT NoRaise
INVARIANT DispatchDisjoint
INVARIANT ChainAgrees
INVARIANT InQuantifier
CHECK_DEADLOCK FALSE
