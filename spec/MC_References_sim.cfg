\* random long behaviours (tlc -simulate): 3 descriptors, <= 5 references, 8 calls, printed for replay
SPECIFICATION Spec
CONSTANTS
  ND = 3
  RefKinds <- MCKinds3
  InsKinds <- MCIns3
  ExtSets <- MCExt3
  InitSets <- MCInit3
  MaxRefs = 5
  MaxOps = 8
  Variant = "explicit"
  Steps <- MCSteps
  Algo = "lstsq"
  Garbage = 1000
  Acts = {"remove", "setitem", "clear", "reload"}
  GivenSets <- NoGiven
  Record = TRUE
  Temps = {200, 1000}
INVARIANT EmitBehaviours
CHECK_DEADLOCK FALSE
