\* EXPECTED TO BE REJECTED (RunsInv): write_EA evaluating the activation method once per distinct
\* temperature of a reaction and re-using it for later runs at that temperature; TLC exhibits a run
\* list with equal T and different P
SPECIFICATION Spec
CONSTANTS
  Pool <- MCPool
  Sites <- MCSites
  MaxSp = 3
  MaxRx = 2
  MaxMol = 2
  MaxCoef = 2
  GasTest = "all"
  LoneBulk = FALSE
  SDelims <- MCSDelims
  RDelims <- MCRDelims
  RunLists <- MCRunLists
  EvalMode = "memoT"
INVARIANT DistinctInv
INVARIANT Partition
INVARIANT EachOnceReactions
INVARIANT EachOnceElements
INVARIANT EachOnceGasSpecies
INVARIANT EachOnceSites
INVARIANT EachOnceAdsorbates
INVARIANT EachOnceBulk
INVARIANT CountsMatch
INVARIANT ReadBack
INVARIANT TubeInv
INVARIANT RunsInv
CHECK_DEADLOCK FALSE
