\* X09 design model, thorough tier: implementation shape "cache", every field keyed, more arguments / stores, 5 calls
SPECIFICATION Spec
CONSTANTS
  NF = 3
  Vals = {1, 2}
  Methods = {1, 2}
  Refs <- RefSet
  Args <- ArgsBig
  InitStores <- StoresBig
  Keyed <- AllFields
  Impl = "cache"
  MaxOps = 5
INVARIANT TypeOK
PROPERTY ArgsUntouched
PROPERTY StateUntouched
PROPERTY Repeatable
PROPERTY NoHiddenState
PROPERTY FreshAfterMutation
PROPERTY ArrayIsMapOfScalar
PROPERTY IntEqualsFloat
INVARIANT CacheFresh
VIEW View
CHECK_DEADLOCK FALSE
