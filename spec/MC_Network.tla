----------------------------- MODULE MC_Network -----------------------------
(* (D) design model of X02: constants.                                          *)
(* A network = a set of reaction kinds <<a, b, hasTS>> over intermediates 1..MI *)
(* (a < b; every even-numbered reaction is written backwards), the transition   *)
(* state of the i-th reaction is the state MI + i.  Only networks whose         *)
(* intermediates are an initial segment 1..m are generated (the others are      *)
(* renamings), with at most MN nodes and ME edges when transition states are    *)
(* included.                                                                    *)
EXTENDS Network, TLC

Kinds(MI) == {<<a, b, t>> : a \in 1..MI, b \in 1..MI, t \in BOOLEAN} \ {x \in (1..MI) \X (1..MI) \X BOOLEAN : x[1] >= x[2]}
KindKey(x) == x[1] * 100 + x[2] * 10 + (IF x[3] THEN 1 ELSE 0)
ToNet(S, MI) ==
   LET sq == SetToSortSeq(S, LAMBDA x, y : KindKey(x) < KindKey(y)) IN
   [i \in 1..Len(sq) |->
      LET t == IF sq[i][3] THEN MI + i ELSE 0 IN
      IF i % 2 = 0 THEN <<sq[i][2], sq[i][1], t>> ELSE <<sq[i][1], sq[i][2], t>>]
Segment(S) == LET U == UNION {{x[1], x[2]} : x \in S} IN U = 1..Cardinality(U)
Nets(MI, MR, MN, ME) ==
   {n \in {ToNet(S, MI) : S \in {K \in SUBSET Kinds(MI) : K # {} /\ Cardinality(K) <= MR /\ Segment(K)}} :
       Cardinality(NodesOf(n, TRUE)) <= MN /\ Cardinality(EdgesOf(n, TRUE)) <= ME}

\* quick: <= 4 intermediates, <= 4 reactions, <= 6 nodes, <= 6 edges
MCNets == Nets(4, 3, 6, 6)
MCCutoffs == {0, 2, 3, 4}
\* neighbour order reversed, transition states as end points, up to 3 targets
MCNetsEnds == Nets(3, 3, 6, 6)
\* thorough
MCNetsBig == Nets(4, 4, 6, 6)
MCCutoffsBig == {0, 2, 3, 4, 5}
\* energies: smaller graphs, every energy assignment over 0..2
MCNetsSpan == Nets(4, 4, 4, 5)
MCNetsSpanBig == Nets(4, 3, 5, 5)
MCEVals == 0..2
\* the rejected variants: a small set suffices
MCNetsTiny == Nets(3, 2, 5, 4)
MCZero == {0}
MCNone == {0}

ASSUME \A n \in MCNets : WellFormed(n)
ASSUME \A n \in MCNetsSpan : WellFormed(n)
=============================================================================
