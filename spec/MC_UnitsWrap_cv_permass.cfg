\* C04 design model, wrapper variant "cv_permass" - EXPECTED TO BE REJECTED (Refines)
SPECIFICATION Spec
CONSTANTS
  Variant = "cv_permass"
  ShomateOwn <- MCShomateOwn
  ClassFilter <- MCCvInherited
INVARIANT TypeOK
INVARIANT WellFormed
INVARIANT Refines
CHECK_DEADLOCK FALSE
