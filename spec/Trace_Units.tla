---------------------------- MODULE Trace_Units ----------------------------
(***************************************************************************)
(* C12 - trace validation of what pmutt.constants answered when asked.     *)
(*                                                                         *)
(* The driver interrogates the functions (convert_unit, R, h, kb, c, m_e,  *)
(* m_p, P0, T0, V0, the spectroscopic helpers, the element tables,         *)
(* get_molecular_weight) and records one NDJSON line per observation;      *)
(* every judgement below is evaluated by TLC on those lines.  Numbers are  *)
(* Dec values <<m, e>>.                                                    *)
(*                                                                         *)
(* Kinds of trace (field ev):                                              *)
(*  matrix   the full conversion matrix of one quantity type               *)
(*  temp     the temperature conversions, round trips and two-step paths   *)
(*  cross    one row of the accept/refuse matrix over all unit strings     *)
(*  array    one array-valued argument reused for several conversions      *)
(*  unit .. entry .. const .. R .. kb .. h .. c .. acc                     *)
(*           the "tables" trace: st accumulates the units (their factor    *)
(*           from the SI unit, the written precision of their tabulated    *)
(*           literal) and the SI values; later lines are judged against it *)
(*  spec, inertia, debye     the spectroscopic helpers at sample points    *)
(*  helper                   one helper called with an array argument      *)
(*  element, mw              element tables, then molar masses (st keeps   *)
(*                           the atomic weights)                           *)
(*                                                                         *)
(* Tolerance of a derived-entry clause ("to within the rounding of the     *)
(* tabulated constants"): a literal written with mantissa digits M is      *)
(* taken as correctly rounded at its last written digit, relative          *)
(* half-ulp 1/(2M) (the driver logs M and the witness u = 1/(2M); the spec *)
(* verifies 2*u*M = 1); a literal written as a pure power of ten (1., 100.,*)
(* 1.e-3) is an exact SI prefix.  Rnd(entry) is the sum over the literals  *)
(* of the entry; a clause allows  2 * (sum of Rnd of the entries it        *)
(* involves) * |value|  plus the Dec floor 10^(Mag - 7): every such clause *)
(* has at most two inexact multiplications (<= 1e-8 each), four projected  *)
(* operands (<= 5e-9 each) and one subtraction (<= 1e-8), i.e. <= 5e-8     *)
(* against a floor >= 1e-7 relative.  Temperature scales are exact         *)
(* definitions; the spectroscopic clauses use Close at k = 6.              *)
(***************************************************************************)

(***************************************************************************)
(* Docstrings are documentation, not behaviour: a disagreement between a   *)
(* docstring table and the function (a documented value, a documented key  *)
(* or unit that the function refuses) is reported under a name starting    *)
(* with "Note"; the driver records those as informational notes in the     *)
(* evidence file and never as violations.  e.tab says that a key is a key  *)
(* of the tabulated dictionary (as opposed to a key only the docstring     *)
(* mentions); only tabulated keys must be accepted.                        *)
(***************************************************************************)
EXTENDS Dec2, Units, Sequences, TLC, TLCExt, Json, IOUtils

TraceLog == ndJsonDeserialize(IOEnv.TRACE_FILE)
VARIABLES l, st

\* ------------------------------------------------------------------ numbers
Pi == <<314159265, -8>>
Within(lhs, rhs, rnd, k) ==
   LET d == DAbs(Sub(lhs, rhs))
       big == DMax(DAbs(lhs), DAbs(rhs))
       tol == Add(Mul(Mul(I(2), rnd), big), <<1, MaxMag({lhs, rhs}) - k>>)
   IN Le(d, tol)
Mul3(a, b, c) == Mul(Mul(a, b), c)
Positive(a) == a[1] > 0

IsPow10(m) == m[1] # 0 /\ Up(m)[1] = 100000000
LitRnd(x) == IF x.d = 0 \/ IsPow10(x.mant) THEN Zero ELSE x.u
Rnd(ls) == SumSeq([i \in 1..Len(ls) |-> LitRnd(ls[i])])
WitnessOK(x) == x.d = 0 \/ Close(Mul3(I(2), x.u, x.mant), I(1), 7)
WitnessesOK(ls) == \A i \in 1..Len(ls) : WitnessOK(ls[i])

\* ------------------------------------------------------------------ text
RECURSIVE Split(_, _)
Split(s, c) ==            \* split a code sequence at every occurrence of c
   IF \E i \in 1..Len(s) : s[i] = c
   THEN LET i == CHOOSE i \in 1..Len(s) : s[i] = c /\ \A j \in 1..(i - 1) : s[j] # c
        IN <<SubSeq(s, 1, i - 1)>> \o Split(SubSeq(s, i + 1, Len(s)), c)
   ELSE <<s>>
SLASH == 47
BLANK == 32
CodeK == <<75>>                 \* "K"
CodeS == <<115>>                \* "s"
CodeMol == <<109, 111, 108>>    \* "mol"

\* ------------------------------------------------------------------ the units seen so far (tables trace)
NU == Len(st.units)
HasUnit(n) == \E i \in 1..NU : st.units[i].name = n
U(n) == st.units[CHOOSE i \in 1..NU : st.units[i].name = n]
NameOf(cs) == IF \E i \in 1..NU : st.units[i].codes = cs
              THEN st.units[CHOOSE i \in 1..NU : st.units[i].codes = cs].name ELSE ""
Usable(n) == n # "" /\ HasUnit(n) /\ U(n).typed /\ U(n).gok
G(n) == U(n).g                         \* factor: 1 SI unit of its type = G(n) n
RU(n) == Rnd(U(n).lits)
SIof(n) == SIUnit(U(n).type)
RUsi(n) == IF HasUnit(SIof(n)) THEN RU(SIof(n)) ELSE Zero
IsType(n, t) == Usable(n) /\ U(n).type = t
RndG(n) == Add(RU(n), RUsi(n))         \* roundings behind G(n)

\* ------------------------------------------------------------------ matrix traces
MatrixClauses(e) ==
   LET N == Len(e.units)
       Ix == 1..N
       allok == \A i \in Ix, j \in Ix : e.ok[i][j]
   IN IF ~allok THEN {"EveryTypedUnitAccepted"} ELSE
      (IF \A i \in Ix : Close(e.f[i][i], I(1), 7) THEN {} ELSE {"Reflexive"})
      \cup (IF \A i \in Ix, j \in Ix : Close(Mul(e.f[i][j], e.f[j][i]), I(1), 7)
            THEN {} ELSE {"Inverse"})
      \cup (IF \A i \in Ix, j \in Ix, k \in Ix : Close(Mul(e.f[i][j], e.f[j][k]), e.f[i][k], 7)
            THEN {} ELSE {"Transitive"})
      \cup (IF \A i \in Ix, j \in Ix, n \in 1..Len(e.nums) :
                 Close(e.v[i][j][n], Mul(e.nums[n], e.f[i][j]), 7)
            THEN {} ELSE {"Proportional"})
      \* a numeric argument that is zero (0, 0.0, -0.0) is a value, not an omitted argument:
      \* only omitting num yields the factor
      \cup (IF \A i \in Ix, j \in Ix, n \in 1..Len(e.nums) : IsZero(e.nums[n]) => IsZero(e.v[i][j][n])
            THEN {} ELSE {"ZeroMapsToZero"})
      \cup (IF \E n \in 1..Len(e.nums) : IsZero(e.nums[n]) THEN {} ELSE {"MachineryNoZeroProbe"})
      \cup (IF \A i \in Ix, j \in Ix : Positive(e.f[i][j]) THEN {} ELSE {"PositiveFactor"})
      \* convert_unit(x, a, b) with positional arguments is the same call as with keywords
      \cup (IF \A i \in Ix, j \in Ix : e.vp[i][j] = e.v[i][j][e.pidx]
            THEN {} ELSE {"PositionalIsKeyword"})

\* Rankine reading of x on scale u, in Dec (exact constants)
D95 == <<18, -1>>
RankD(u, x) == CASE u = "C" -> Add(Mul(D95, x), <<49167, -2>>)
                 [] u = "K" -> Mul(D95, x)
                 [] u = "F" -> Add(x, <<45967, -2>>)
                 [] u = "R" -> x
TScale == {<<49167, -2>>}
TClose(a, b, S) == CloseIn(a, b, S \cup TScale, 7)
TempClauses(e) ==
   LET N == Len(e.units)
       Ix == {i \in 1..N : e.units[i] \in Temp}
       Nn == 1..Len(e.nums)
       allok == \A i \in 1..N, j \in 1..N : e.ok[i][j]
   IN IF ~allok THEN {"EveryTypedUnitAccepted"} ELSE
      (IF \A i \in Ix, j \in Ix, n \in Nn :
             TClose(RankD(e.units[j], e.v[i][j][n]), RankD(e.units[i], e.nums[n]),
                    {e.nums[n], e.v[i][j][n]})
       THEN {} ELSE {"AffineTemperature"})
      \cup (IF \A i \in 1..N, n \in Nn : Close(e.v[i][i][n], e.nums[n], 7)
            THEN {} ELSE {"Reflexive"})
      \cup (IF \A i \in 1..N, j \in 1..N, n \in Nn :
                 TClose(e.rt[i][j][n], e.nums[n], {e.v[i][j][n]})
            THEN {} ELSE {"Inverse"})
      \cup (IF \A i \in 1..N, j \in 1..N, k \in 1..N, n \in Nn :
                 TClose(e.via[i][j][k][n], e.v[i][k][n], {e.v[i][j][n], e.nums[n]})
            THEN {} ELSE {"Transitive"})
      \* a scale the catalogue does not define is judged by the algebra only
      \cup (IF \A i \in 1..N, j \in 1..N : e.vp[i][j] = e.v[i][j][e.pidx]
            THEN {} ELSE {"PositionalIsKeyword"})

\* e.refused[k][i]: outcome against e.vs[i] when num is given as variant k
\* (e.variants: 1.0, omitted, 0, again, after_success - a refusal must depend neither on the
\* numeric argument nor on what was asked before)
CrossClauses(e) ==
   LET Ix == 1..Len(e.vs)  V == 1..Len(e.refused) IN
   (IF \A k \in V, i \in Ix :
          (e.utype # "" /\ e.vtypes[i] # "" /\ e.utype # e.vtypes[i]) => e.refused[k][i]
    THEN {} ELSE {"CrossTypeRefused"})
   \cup (IF \A k \in V, i \in Ix : (e.utype = "" \/ e.vtypes[i] = "") => e.refused[k][i]
         THEN {} ELSE {"UnknownUnitRefused"})
   \cup (IF \A k \in V, i \in Ix : (e.utype # "" /\ e.utype = e.vtypes[i]) => ~e.refused[k][i]
         THEN {} ELSE {"EveryTypedUnitAccepted"})
   \* a pair that must be refused is refused on EVERY attempt made in one process (three in a
   \* row, again after the other pairs, again after a successful conversion), and with the same
   \* exception type as the first time (e.exc[k][i]: exception name, "" when a value came back)
   \cup (IF \A k \in V, i \in Ix :
              (e.utype = "" \/ e.vtypes[i] = "" \/ e.utype # e.vtypes[i])
                 => (e.refused[k][i] /\ e.exc[k][i] = e.exc[1][i])
         THEN {} ELSE {"RefusedEveryTime"})
   \cup (IF Len(e.refused) >= 5 THEN {} ELSE {"MachineryNoRepeatedAttempt"})

\* ------------------------------------------------------------------ array-valued arguments
\* One probe: a container X (float64 array, int64 array or list; e.kind) holding e.x is passed
\* to convert_unit three times, and the first result y1 is itself reused twice:
\*   y1 = conv(X, a->b)   y2 = conv(X, a->w)   y0 = conv(X, a->a)     e.after[k] = X after call k
\*   y3 = conv(y1, b->w)  y4 = conv(y1, b->a)                         e.y1after = y1 after both
\*   s1[i] = conv(x[i], a->b), s2[i] = conv(x[i], a->w) with scalar arguments.
\* All values are Dec2 (17 digits).  A python list the function refuses (e.raised) is only
\* required to be left untouched (num is documented as float; refusing a container keeps the property).
SeqEq2(p, q) == Len(p) = Len(q) /\ \A i \in 1..Len(p) : Equal2(p[i], q[i])
SeqClose2(p, q) == Len(p) = Len(q) /\ \A i \in 1..Len(p) : Close2(p[i], q[i], 13)
ArrClose(e, p, q, S) == IF e.type = "temp" THEN TClose(p, q, S) ELSE Close(p, q, 7)
ArrayClauses(e) ==
   IF e.raised
   THEN (IF \A k \in 1..Len(e.after) : SeqEq2(e.x, e.after[k]) THEN {} ELSE {"InputUntouched"})
        \* `num` is documented as float: a container the function refuses is only required to be untouched
   ELSE
   LET N == 1..Len(e.x) IN
   (IF (\A k \in 1..Len(e.after) : SeqEq2(e.x, e.after[k])) /\ SeqEq2(e.y1, e.y1after)
    THEN {} ELSE {"InputUntouched"})
   \cup (IF SeqClose2(e.y1, e.s1) /\ SeqClose2(e.y2, e.s2) /\ SeqClose2(e.y0, e.x)
         THEN {} ELSE {"ArrayIsMapOfScalar"})
   \cup (IF Len(e.y3) = Len(e.x) /\ Len(e.y2) = Len(e.x)
            /\ \A i \in N : ArrClose(e, ToDec(e.y3[i]), ToDec(e.y2[i]), {ToDec(e.y1[i]), ToDec(e.x[i])})
         THEN {} ELSE {"ArrayTransitive"})
   \cup (IF Len(e.y4) = Len(e.x)
            /\ \A i \in N : ArrClose(e, ToDec(e.y4[i]), ToDec(e.x[i]), {ToDec(e.y1[i])})
         THEN {} ELSE {"ArrayInverse"})

\* ------------------------------------------------------------------ tables trace: units
DocType(h) == IF h = "temperature" THEN "temp" ELSE h
UnitClauses(e) ==
   (IF WitnessesOK(e.lits) THEN {} ELSE {"MachineryWitness"})
   \cup (IF e.typed /\ Known(e.name) /\ TypeOf(e.name) # e.type
         THEN {"TypeAgreesWithCatalogue"} ELSE {})
   \cup (IF e.tabulated /\ ~e.typed THEN {"TabulatedUnitTyped"} ELSE {})
   \cup (IF e.typed /\ ~e.tabulated /\ e.type # "temp" THEN {"TypedUnitTabulated"} ELSE {})
   \cup (IF e.documented /\ (~e.typed \/ DocType(e.heading) # e.type)
         THEN {"NoteDocumentedUnitTyped"} ELSE {})
   \cup (IF e.typed /\ ~e.accepted THEN {"EveryTypedUnitAccepted"} ELSE {})
   \cup (IF e.typed /\ e.gok /\ e.type # "temp" /\ ~Positive(e.g) THEN {"PositiveFactor"} ELSE {})
   \cup (IF e.typed /\ e.type # "temp" /\ e.name = SIUnit(e.type) /\ e.gok /\ ~Close(e.g, I(1), 7)
         THEN {"Reflexive"} ELSE {})

\* ------------------------------------------------------------------ tables trace: derived entries
\* 1 (SI volume) = 10^3 L etc. are not assumed: the definitions are stated between table entries
VolumeDef == "mL" :> <<"cm3", I(1)>> @@ "L" :> <<"cm3", I(1000)>>    \* 1 mL = 1 cm3, 1 L = 1000 cm3

PowerClause(n, p) ==        \* name = <length unit> \o "2"/"3"
   LET cs == U(n).codes
       stem == NameOf(SubSeq(cs, 1, Len(cs) - 1))
       lhs == G(n)
       rhs == IF p = 2 THEN Mul(G(stem), G(stem)) ELSE Mul3(G(stem), G(stem), G(stem))
       rnd == Add(RndG(n), Mul(I(p), RndG(stem)))
   IN IsType(stem, "length") /\ Within(lhs, rhs, rnd, 7)
HasStem(n, digit) ==
   LET cs == U(n).codes IN
   Len(cs) >= 2 /\ cs[Len(cs)] = digit /\ IsType(NameOf(SubSeq(cs, 1, Len(cs) - 1)), "length")

EntryClauses(e) ==
   LET n == e.name IN
   IF ~Usable(n) THEN {} ELSE
   LET t == U(n).type
       cs == U(n).codes
       bySlash == Split(cs, SLASH)
       byBlank == Split(cs, BLANK)
   IN
   (IF t = "area" /\ HasStem(n, 50) /\ ~PowerClause(n, 2) THEN {"AreaIsLengthSquared"} ELSE {})
   \cup (IF t = "volume" /\ HasStem(n, 51) /\ ~PowerClause(n, 3)
         THEN {"VolumeIsLengthCubed"} ELSE {})
   \cup (IF t = "volume" /\ n \in DOMAIN VolumeDef
         THEN LET ref == VolumeDef[n][1]  k == VolumeDef[n][2] IN
              IF IsType(ref, "volume") /\ Within(G(ref), Mul(k, G(n)), Add(RndG(n), RndG(ref)), 7)
              THEN {} ELSE {"VolumeDefinition"}
         ELSE {})
   \cup (IF t = "energy" /\ Len(byBlank) = 2
         THEN LET v == NameOf(byBlank[1])  p == NameOf(byBlank[2]) IN
              IF IsType(v, "volume") /\ IsType(p, "pressure")
                 /\ Within(G(n), Mul(G(v), G(p)), Add(RndG(n), Add(RndG(v), RndG(p))), 7)
              THEN {} ELSE {"CompositeEnergy"}
         ELSE {})
   \cup (IF t = "energy/amount" /\ Len(bySlash) = 2
         THEN LET en == NameOf(bySlash[1])  per == NameOf(bySlash[2]) IN
              IF ~(IsType(en, "energy") /\ IsType(per, "amount")) THEN {"PerAmountIsEnergyOverAmount"}
              ELSE IF Within(Mul(G(n), G(per)), G(en),
                             Add(RndG(n), Add(RndG(per), RndG(en))), 7)
                   THEN {} ELSE {"PerAmountIsEnergyOverAmount"}
         ELSE {})
   \cup (IF t = "amount" /\ n # SIUnit("amount")
         THEN IF st.Na # Zero /\ Within(G(n), st.Na, Add(RndG(n), st.NaRnd), 7)
              THEN {} ELSE {"AmountIsAvogadro"}
         ELSE {})

\* ------------------------------------------------------------------ tables trace: constant tables
DocClause(e, extra) ==
   IF e.doc /\ ~e.raised /\ ~Within(e.val, e.docval, Add(Rnd(e.doclit), extra), 7)
   THEN {"NoteDocValue"} ELSE {}
DocAccepted(e) == IF e.doc /\ e.raised THEN {"NoteDocumentedKeyAccepted"} ELSE {}
LitsOK(e) == (IF WitnessesOK(e.lits) /\ WitnessesOK(e.doclit) THEN {} ELSE {"MachineryWitness"})
             \* f(units=key) is the same call as f(key)
             \cup (IF ~e.raised /\ e.kwval # e.val THEN {"KeywordIsPositional"} ELSE {})

\* numerator of an R key: an energy unit, or "<volume> <pressure>"
NumOK(cs) == LET w == Split(cs, BLANK) IN
   \/ Len(w) = 1 /\ IsType(NameOf(w[1]), "energy")
   \/ Len(w) = 2 /\ IsType(NameOf(w[1]), "volume") /\ IsType(NameOf(w[2]), "pressure")
NumG(cs) == LET w == Split(cs, BLANK) IN
   IF Len(w) = 1 THEN G(NameOf(w[1])) ELSE Mul(G(NameOf(w[1])), G(NameOf(w[2])))
NumRnd(cs) == LET w == Split(cs, BLANK) IN
   IF Len(w) = 1 THEN RndG(NameOf(w[1])) ELSE Add(RndG(NameOf(w[1])), RndG(NameOf(w[2])))

RClauses(e) ==
   LET p == Split(e.codes, SLASH)
       shape == IF Len(p) = 3 /\ p[2] = CodeMol /\ p[3] = CodeK THEN "permol"
                ELSE IF Len(p) = 2 /\ p[2] = CodeK THEN "permolecule" ELSE "none"
       isSI == e.key = "J/mol/K"
       r0 == IF isSI THEN e.val ELSE st.R0
       r0rnd == IF isSI THEN Rnd(e.lits) ELSE st.R0Rnd
   IN LitsOK(e) \cup DocAccepted(e) \cup DocClause(e, Zero)
      \cup (IF e.raised THEN (IF e.tab THEN {"TableKeyAccepted"} ELSE {})
            ELSE IF shape = "none" \/ ~NumOK(p[1]) THEN {"TableKeyUnderstood"}
            ELSE IF r0 = Zero THEN {"MachineryOrder"}
            ELSE IF shape = "permol"
                 THEN (IF Within(e.val, Mul(r0, NumG(p[1])),
                                 Add(Rnd(e.lits), Add(r0rnd, NumRnd(p[1]))), 7)
                       THEN {} ELSE {"RTable"})
                 ELSE (IF st.Na # Zero
                          /\ Within(Mul(e.val, st.Na), Mul(r0, NumG(p[1])),
                                    Add(Add(Rnd(e.lits), st.NaRnd), Add(r0rnd, NumRnd(p[1]))), 7)
                       THEN {} ELSE {"RTable"}))

\* kb "<energy>/K", h "<energy> s", c "<length>/s"
SimpleTable(e, sep, last, type, siKey, v0, v0rnd, clause) ==
   LET p == Split(e.codes, sep)
       isSI == e.key = siKey
       b0 == IF isSI THEN e.val ELSE v0
       b0rnd == IF isSI THEN Rnd(e.lits) ELSE v0rnd
   IN IF e.raised THEN (IF e.tab THEN {"TableKeyAccepted"} ELSE {})
      ELSE IF ~(Len(p) = 2 /\ p[2] = last /\ IsType(NameOf(p[1]), type)) THEN {"TableKeyUnderstood"}
      ELSE IF b0 = Zero THEN {"MachineryOrder"}
      ELSE IF Within(e.val, Mul(b0, G(NameOf(p[1]))),
                     Add(Rnd(e.lits), Add(b0rnd, RndG(NameOf(p[1])))), 7)
           THEN {} ELSE {clause}

KbClauses(e) ==
   LitsOK(e) \cup DocAccepted(e) \cup DocClause(e, Zero)
   \cup SimpleTable(e, SLASH, CodeK, "energy", "J/K", st.kb0, st.kb0Rnd, "KbTable")
   \cup (IF e.key = "J/K" /\ ~e.raised
         THEN IF st.R0 # Zero /\ st.Na # Zero
                 /\ Within(st.R0, Mul(e.val, st.Na),
                           Add(st.R0Rnd, Add(Rnd(e.lits), st.NaRnd)), 7)
              THEN {} ELSE {"RisKbNa"}
         ELSE {})
HClauses(e) ==
   LitsOK(e) \cup DocAccepted(e) \cup DocClause(e, Zero)
   \cup SimpleTable(e, BLANK, CodeS, "energy", "J s", st.h0, st.h0Rnd, "HTable")
   \cup (IF ~e.raised /\ ~Within(Mul3(I(2), Pi, e.bar), e.val, Zero, 7) THEN {"HBar"} ELSE {})
   \* bar=False is the default; bar given positionally is bar given by keyword
   \cup (IF ~e.raised /\ e.barF # e.val THEN {"HBarFalseIsDefault"} ELSE {})
   \cup (IF ~e.raised /\ e.barpos # e.bar THEN {"HBarPositional"} ELSE {})
CClauses(e) ==
   LitsOK(e) \cup DocAccepted(e) \cup DocClause(e, Zero)
   \cup SimpleTable(e, SLASH, CodeS, "length", "m/s", st.c0, st.c0Rnd, "CTable")

\* accessors computed from an SI value: P0 = 1 bar = 10^5 Pa, T0 = 298.15 K, V0 = R T0 / P0
P0SI == <<1, 5>>
T0SI == <<29815, -2>>
AccClauses(e) ==
   LET n == e.key
       known == Usable(n)
       rk == IF known THEN RndG(n) ELSE Zero
   IN
   LitsOK(e) \cup DocAccepted(e)
   \cup (IF e.raised /\ HasUnit(n) /\ U(n).typed /\ U(n).type = e.qtype
         THEN {"AccessorAcceptsTypedUnit"} ELSE {})
   \cup (IF e.raised \/ ~HasUnit(n) \/ ~U(n).typed THEN {} ELSE
         CASE e.fn = "P0" ->
                (IF known /\ Within(e.val, Mul(P0SI, G(n)), rk, 7) THEN {} ELSE {"P0FromSI"})
                \cup DocClause(e, rk)
           [] e.fn = "T0" ->
                (IF n \in Temp /\ TClose(RankD(n, e.val), RankD("K", T0SI), {e.val})
                 THEN {} ELSE {"T0FromSI"})
                \cup DocClause(e, Zero)
           [] e.fn = "V0" ->
                (IF known /\ st.R0 # Zero
                    /\ Within(Mul(e.val, P0SI), Mul3(st.R0, T0SI, G(n)), Add(st.R0Rnd, rk), 7)
                 THEN {} ELSE {"V0isRT0overP0"})
                \cup DocClause(e, Add(st.R0Rnd, rk))
           [] e.fn \in {"m_e", "m_p"} ->
                \* the same mass in two units: val[key] * G(ref) = val[ref] * G(key)
                (IF known /\ Usable(e.ref)
                    /\ Within(Mul(e.val, G(e.ref)), Mul(e.refval, G(n)), Add(rk, RndG(e.ref)), 7)
                 THEN {} ELSE {"MassFromTable"})
                \cup DocClause(e, Add(Rnd(e.lits), Add(rk, IF Usable(e.ref) THEN RndG(e.ref) ELSE Zero)))
           [] OTHER -> {"UnknownAccessor"})

\* module-level constants: Na is used by the clauses above; e (elementary charge, C) defines
\* the electron volt: 1 J = (1/e) eV, i.e. G("eV") * e = 1
ConstClauses(e) ==
   (IF WitnessesOK(e.lits) THEN {} ELSE {"MachineryWitness"})
   \cup (IF e.name = "e"
         THEN IF Usable("eV") /\ Within(Mul(G("eV"), e.val), I(1), Add(RndG("eV"), Rnd(e.lits)), 7)
              THEN {} ELSE {"ElementaryChargeIsJoulePerEV"}
         ELSE {})

\* ------------------------------------------------------------------ spectroscopic helpers
\* quantities in the order <<energy J, frequency Hz, temperature K, wavenumber 1/cm>>;
\* e.xs[a] a sample of quantity a, e.g[a][b] = a_to_b(xs[a]) (g[a][a] = xs[a]),
\* e.rt[a][b] = b_to_a(g[a][b]), e.via[a][b][c] = b_to_c(g[a][b]), e.g3[a][b] = a_to_b(3.7 xs[a])
SpecClauses(e) ==
   LET Q == 1..4
       \* definitions through the library's own constants, from the wavenumber sample:
       \* energy = h freq, energy = kb temp, freq = c[cm/s] wavenumber
       w == e.xs[4]  en == e.g[4][1]  fr == e.g[4][2]  te == e.g[4][3]
   IN (IF \A a \in Q, b \in Q : Close(e.rt[a][b], e.xs[a], 6) THEN {} ELSE {"SpectroscopicInverse"})
      \cup (IF \A a \in Q, b \in Q, c \in Q : Close(e.via[a][b][c], e.g[a][c], 6)
            THEN {} ELSE {"SpectroscopicTransitive"})
      \cup (IF \A a \in Q, b \in Q : Close(e.g3[a][b], Mul(<<37, -1>>, e.g[a][b]), 6)
            THEN {} ELSE {"SpectroscopicProportional"})
      \cup (IF /\ Close(en, Mul(e.h, fr), 6) /\ Close(en, Mul(e.kb, te), 6)
               /\ Close(fr, Mul(e.c, w), 6)
            THEN {} ELSE {"SpectroscopicDefinition"})
InertiaClauses(e) ==
   \* I = h / (8 pi^2 c B);  theta_rot = hbar^2 / (2 kB I) = h c B / kB
   (IF Close(e.th, e.thw, 6) THEN {} ELSE {"InertiaInverse"})
   \cup (IF Close(Mul3(Mul3(I(8), Pi, Pi), Mul(e.w, e.c), e.inertia), e.h, 6)
         THEN {} ELSE {"InertiaDefinition"})
   \cup (IF Close(Mul3(Mul3(I(8), Pi, Pi), Mul(e.kb, e.th), e.inertia), Mul(e.h, e.h), 6)
         THEN {} ELSE {"RotationalTemperatureDefinition"})
DebyeClauses(e) ==
   \* einstein = (pi/6)^(1/3) debye   <=>   6 einstein^3 = pi debye^3
   (IF Close(e.back, e.d, 7) THEN {} ELSE {"DebyeEinsteinInverse"})
   \cup (IF Close(Mul(I(6), Mul3(e.e, e.e, e.e)), Mul(Pi, Mul3(e.d, e.d, e.d)), 6)
         THEN {} ELSE {"DebyeEinsteinDefinition"})

\* a helper called with an array-valued argument (e.kind): element-wise the scalar result,
\* the caller's container untouched; a refused container is only required to be untouched
HelperClauses(e) ==
   (IF SeqEq2(e.x, e.after) THEN {} ELSE {"InputUntouched"})
   \cup (IF ~e.raised /\ ~SeqClose2(e.y, e.s) THEN {"ArrayIsMapOfScalar"} ELSE {})

\* ------------------------------------------------------------------ elements
ElementClauses(e) ==
   (IF e.z \in Elements /\ (\E k \in 1..Len(SymbolsOf(e.z)) : SymbolsOf(e.z)[k] = e.sym)
       /\ (\E k \in 1..Len(SymbolsOf(e.z)) : SymbolsOf(e.z)[k] = e.symS)
    THEN {} ELSE {"MachinerySymbol"})
   \cup (IF e.awZ.has = e.awS.has /\ (e.awZ.has => Equal2(e.awZ.v, e.awS.v))
         THEN {} ELSE {"ElementLookupAgrees"})
   \cup (IF e.sZ.has = e.sS.has /\ (e.sZ.has => Equal2(e.sZ.v, e.sS.v))
         THEN {} ELSE {"EntropyLookupAgrees"})
   \cup (IF e.awZ.has /\ ~Positive(ToDec(e.awZ.v)) THEN {"PositiveWeight"} ELSE {})
AW(z) == st.aw[CHOOSE i \in 1..Len(st.aw) : st.aw[i][1] = z][2]
HasAW(z) == \E i \in 1..Len(st.aw) : st.aw[i][1] = z
MwClauses(e) ==
   IF e.raised THEN {"MolarMassRaises"} ELSE
   IF ~(\A i \in 1..Len(e.comp) : HasAW(e.comp[i][1])) THEN {"MachineryOrder"} ELSE
   LET terms == [i \in 1..Len(e.comp) |-> Mul(e.comp[i][2], AW(e.comp[i][1]))]
   IN IF CloseIn(e.val, SumSeq(terms), {terms[i] : i \in 1..Len(terms)}, 6)
      THEN {} ELSE {"MolarMassIsWeightedSum"}

\* ------------------------------------------------------------------ dispatch
Clauses(e) ==
   CASE e.ev = "matrix" -> MatrixClauses(e)
     [] e.ev = "temp" -> TempClauses(e)
     [] e.ev = "cross" -> CrossClauses(e)
     [] e.ev = "array" -> ArrayClauses(e)
     [] e.ev = "unit" -> UnitClauses(e)
     [] e.ev = "entry" -> EntryClauses(e)
     [] e.ev = "const" -> ConstClauses(e)
     [] e.ev = "R" -> RClauses(e)
     [] e.ev = "kb" -> KbClauses(e)
     [] e.ev = "h" -> HClauses(e)
     [] e.ev = "c" -> CClauses(e)
     [] e.ev = "acc" -> AccClauses(e)
     [] e.ev = "spec" -> SpecClauses(e)
     [] e.ev = "inertia" -> InertiaClauses(e)
     [] e.ev = "debye" -> DebyeClauses(e)
     [] e.ev = "helper" -> HelperClauses(e)
     [] e.ev = "element" -> ElementClauses(e)
     [] e.ev = "mw" -> MwClauses(e)
     [] OTHER -> {"UnknownEvent"}

St0 == [units |-> <<>>, Na |-> Zero, NaRnd |-> Zero, R0 |-> Zero, R0Rnd |-> Zero,
        kb0 |-> Zero, kb0Rnd |-> Zero, h0 |-> Zero, h0Rnd |-> Zero, c0 |-> Zero, c0Rnd |-> Zero,
        aw |-> <<>>]
Step(e) ==
   CASE e.ev = "unit" ->
          [st EXCEPT !.units = Append(@, [name |-> e.name, codes |-> e.codes, typed |-> e.typed,
                                          type |-> e.type, g |-> e.g, gok |-> e.gok,
                                          lits |-> e.lits])]
     [] e.ev = "const" /\ e.name = "Na" -> [st EXCEPT !.Na = e.val, !.NaRnd = Rnd(e.lits)]
     [] e.ev = "R" /\ e.key = "J/mol/K" /\ ~e.raised ->
          [st EXCEPT !.R0 = e.val, !.R0Rnd = Rnd(e.lits)]
     [] e.ev = "kb" /\ e.key = "J/K" /\ ~e.raised ->
          [st EXCEPT !.kb0 = e.val, !.kb0Rnd = Rnd(e.lits)]
     [] e.ev = "h" /\ e.key = "J s" /\ ~e.raised ->
          [st EXCEPT !.h0 = e.val, !.h0Rnd = Rnd(e.lits)]
     [] e.ev = "c" /\ e.key = "m/s" /\ ~e.raised ->
          [st EXCEPT !.c0 = e.val, !.c0Rnd = Rnd(e.lits)]
     [] e.ev = "element" /\ e.awZ.has -> [st EXCEPT !.aw = Append(@, <<e.z, ToDec(e.awZ.v)>>)]
     [] e.ev = "reset" -> St0
     [] OTHER -> st

Init == l = 1 /\ st = St0 /\ TLCSet(1, {})
Next == /\ l <= Len(TraceLog)
        /\ LET e == TraceLog[l]  bad == IF e.ev = "reset" THEN {} ELSE Clauses(e) IN
             /\ IF bad # {} THEN TLCSet(1, TLCGet(1) \cup {<<e.tid, l, c>> : c \in bad}) ELSE TRUE
             /\ st' = Step(e)
        /\ l' = l + 1
Spec == Init /\ [][Next]_<<l, st>>
Post == /\ PrintT(<<"FAILS", TLCGet(1)>>)
        /\ PrintT(<<"CONSUMED", TLCGet("stats").diameter - 1>>)
=============================================================================
