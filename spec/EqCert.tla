------------------------------- MODULE EqCert -------------------------------
(***************************************************************************)
(* C16 design model, part 2: the null-space certificate is sound.          *)
(*                                                                         *)
(* The trace specification accepts a basis of reaction vectors only with a *)
(* certificate EqLin!CertOK (atom conservation of every vector, pivot      *)
(* form, a non-singular minor, r + k = n).  Here TLC checks, for EVERY     *)
(* element matrix of the family in the cfg and EVERY certificate whose     *)
(* vectors have entries in -BoxR..BoxR, that the certified basis really    *)
(* spans every integer reaction vector with entries in -BoxR..BoxR         *)
(* (brute-force enumeration of the box).  One matrix per initial state;    *)
(* the check of a matrix is one action so that the TLC workers share the   *)
(* matrices.                                                               *)
(*                                                                         *)
(* Rule = "full"   : the certificate rule used by the trace specification. *)
(* Rule = "norank" : the same rule without the non-singular minor; kept as *)
(*    MC_EqCert_norank.cfg, EXPECTED TO BE REJECTED (a basis that misses a *)
(*    reaction is then accepted), which shows the brute-force side has     *)
(*    teeth.                                                               *)
(*                                                                         *)
(* Nets (second use, MC_EqCert_nets.cfg): the certificates the harness     *)
(* really proposed in this run for networks of <= 6 species (read from     *)
(* IOEnv.NETS_FILE) are checked the same way: CertOK and Spans by brute    *)
(* force over -3..3.                                                       *)
(***************************************************************************)
EXTENDS EqLin, TLC, Json, IOUtils

CONSTANTS NS,        \* set of species counts
          NE,        \* number of elements
          MaxEntry,  \* atoms of one element in one species: 0..MaxEntry
          BoxR,      \* reaction-vector entries: -BoxR..BoxR
          Rule,
          Sorted     \* TRUE: one matrix per multiset of rows (species order is a symmetry of CertSound)
VARIABLES mat, verdict
vars == <<mat, verdict>>

Min(a, b) == IF a < b THEN a ELSE b
Rows == {r \in [1..NE -> 0..MaxEntry] : \E j \in 1..NE : r[j] > 0}
LexLe(a, b) == LET d == {j \in 1..NE : a[j] # b[j]} IN
               d = {} \/ LET j == CHOOSE x \in d : \A y \in d : x <= y IN a[j] < b[j]
Mats == UNION {{E \in [1..n -> Rows] : Sorted => \A i \in 1..(n - 1) : LexLe(E[i], E[i + 1])}
                 : n \in NS}

\* ascending index sequences of length r out of 1..n
RECURSIVE Asc(_, _, _)
Asc(lo, n, r) == IF r = 0 THEN {<<>>}
                 ELSE UNION {{<<a>> \o t : t \in Asc(a + 1, n, r - 1)} : a \in lo..n}
\* injective sequences of length k over 1..n
RECURSIVE Inj(_, _, _)
Inj(n, k, used) == IF k = 0 THEN {<<>>}
                   ELSE UNION {{<<a>> \o t : t \in Inj(n, k - 1, used \cup {a})} : a \in (1..n) \ used}
RECURSIVE ProdSets(_, _)
ProdSets(C, k) == IF k = 0 THEN {<<>>} ELSE {Append(b, x) : b \in ProdSets(C, k - 1), x \in C[k]}

\* every certificate (within the box) that the rule accepts for E, with pruning that
\* mirrors PivotForm only (CertOK itself stays in the antecedent below)
PivotBases(E, piv, NB) ==
   ProdSets([j \in 1..Len(piv) |->
               {nu \in NB : nu[piv[j]] # 0 /\ \A m \in 1..Len(piv) : m # j => nu[piv[m]] = 0}],
            Len(piv))
RuleOK(E, B, piv, rows, cols) ==
   IF Rule = "full" THEN CertOK(E, B, piv, rows, cols)
   ELSE /\ \A j \in 1..Len(B) : IsReaction(B[j], E)
        /\ PivotForm(B, piv)
        /\ Len(rows) + Len(B) = Len(E)
\* (the minor is quantified first: a certificate differs from another one with the same
\*  r only in which non-singular minor it names, which InSpan does not look at)
HasMinor(E, r) == \E rows \in Asc(1, Len(E), r), cols \in Asc(1, NE, r) :
                     Det(SubMatrix(E, rows, cols)) # 0
FirstMinor(E, r) == CHOOSE rc \in Asc(1, Len(E), r) \X Asc(1, NE, r) :
                       Rule = "full" => Det(SubMatrix(E, rc[1], rc[2])) # 0
Certs(E, NB) ==
   UNION {UNION {{<<r, piv, B>> : B \in PivotBases(E, piv, NB)} : piv \in Inj(Len(E), Len(E) - r, {})}
            : r \in {x \in 0..Min(Len(E), NE) : Rule = "full" => HasMinor(E, x)}}
Accepted(E, NB) == {c \in Certs(E, NB) :
                      LET rc == FirstMinor(E, c[1]) IN RuleOK(E, c[3], c[2], rc[1], rc[2])}
\* <<every accepted certificate spans the box, number of accepted certificates>>
CertSoundAt(E) ==
   LET NB == NullBox(E, BoxR)
       acc == Accepted(E, NB)
   IN <<\A c \in acc : \A nu \in NB : InSpan(nu, c[3], c[2]), Cardinality(acc)>>

Init == mat \in Mats /\ verdict = "new"
Check == /\ verdict = "new"
         /\ LET v == CertSoundAt(mat) IN
              /\ verdict' = IF ~v[1] THEN "unsound" ELSE IF v[2] > 0 THEN "sound" ELSE "nocert"
              /\ PrintT(<<"CERTS", v[2]>>)
         /\ UNCHANGED mat
Next == Check
Spec == Init /\ [][Next]_vars
CertSound == verdict # "unsound"

\* ---- certificates proposed by the harness for real networks (<= 6 species)
Nets == IF "NETS_FILE" \in DOMAIN IOEnv THEN ndJsonDeserialize(IOEnv.NETS_FILE) ELSE <<>>
NetOK(c) == /\ IsMatrix(c.E)
            /\ CertOK(c.E, c.B, c.piv, c.rows, c.cols)
            /\ Spans(c.E, c.B, c.piv, 3)
NetsChecked == \A i \in 1..Len(Nets) : NetOK(Nets[i]) \/ ~PrintT(<<"BADNET", i>>)
NInit == mat = <<>> /\ verdict = "new"
NNext == /\ verdict = "new" /\ verdict' = IF NetsChecked THEN "sound" ELSE "unsound"
         /\ PrintT(<<"NETS", Len(Nets)>>) /\ UNCHANGED mat
NSpec == NInit /\ [][NNext]_vars
=============================================================================
