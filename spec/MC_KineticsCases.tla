--------------------------- MODULE MC_KineticsCases ---------------------------
(* constant-level theorems of Kinetics.tla and the case sets for the replay (S->C) *)
EXTENDS Kinetics, Json, IOUtils, SequencesExt
MCVals == {-2, -1, 0, 1, 3}
MCSlopes2 == {0, 1, 2}
MCIcpts == {0, 2}

ASSUME SiteOK
ASSUME HandedOK
\* the reading of BepViaReaction in the reverse direction is the computed one
ASSUME RevViaHolds = {"delta_H", "rev_delta_H"}
ASSUME \A d \in Descriptors : ViaDemanded(d, "rev") <=> d \in RevViaHolds

ClampCases == {[hasTS |-> s.hasTS, r |-> s.r, p |-> s.p, ts |-> s.ts,
                fwd |-> Clamp(s, "fwd"), rev |-> Clamp(s, "rev")] : s \in PlainCfg}
SlopeCases == {[desc |-> d, dir |-> dir, a2 |-> a, adj2 |-> AdjSlope2(d, dir, a),
                specified |-> SlopeSpecified(d, dir)]
                 : d \in Descriptors, dir \in Dirs, a \in Slopes2}
\* pw is shifted by 10: JSON integers of TLC's serialiser are unsigned-friendly only
HandedCases == {[ads |-> c.ads, method |-> c.method, ea |-> c.ea, a |-> c.a, stick |-> c.stick,
                 beta |-> c.beta, mw |-> c.mw, easrc |-> EaSource(c), asrc |-> ASource(c),
                 bsrc |-> BetaSource(c)] : c \in HandedCfg}
SerSite(cs) == [rs |-> cs.rs, n |-> cs.n, sites |-> cs.sites, gas |-> cs.gas, pw |-> cs.pw + 10]
EmitCases == IF "OUT_FILE" \in DOMAIN IOEnv
             THEN JsonSerialize(IOEnv.OUT_FILE,
                    [clamp |-> SetToSeq(ClampCases),
                     slope |-> SetToSeq(SlopeCases),
                     handed |-> SetToSeq(HandedCases),
                     site  |-> [i \in 1..Cardinality(SiteCases) |-> SerSite(SetToSeq(SiteCases)[i])]])
             ELSE TRUE
ASSUME EmitCases
=============================================================================
