-------------------------- MODULE Trace_References --------------------------
(***************************************************************************)
(* C10 - trace validation of recorded histories of a real References       *)
(* object and of StatMech species evaluated through it.                    *)
(*                                                                         *)
(* One NDJSON line per observation.  Numbers are Dec <<m, e>> (Dec2        *)
(* <<hi, lo, e>> where "exactly" is judged); the composition matrix is an  *)
(* integer matrix, so its rank is decided here (Lin!IRank), not in Python. *)
(*                                                                         *)
(*  state events  ev in {construct, fit, append, extend, insert, pop,      *)
(*     remove, setitem, clear, reload, given}:                             *)
(*     A     composition matrix of the CURRENT references over `desc`      *)
(*     desc  the descriptors occurring in the current references (sorted)  *)
(*     keys, off   the offset dictionary the object holds (sorted by key)  *)
(*     Tref  the object's T_ref;  dft, exp, Ti  per reference: model H/RT  *)
(*           at its T_ref, experimental H/RT, its T_ref;  fitv  per        *)
(*           reference: off . x_i evaluated by the object (witness)        *)
(*     construct / fit must satisfy the fit clauses.  After an edit the    *)
(*     object may be STALE (offset, keys, T_ref exactly as before: the     *)
(*     code refits only on fit_HoRT_offset()) or freshly fitted.           *)
(*  eval    a target species at two temperatures, references on / off and  *)
(*          a twin species built without references                        *)
(*  linear  three species x, y, z = a x + b y at one temperature           *)
(*  repro   reference i itself evaluated through StatMech at its T_ref     *)
(*          (only recorded after construct / fit)                          *)
(*                                                                         *)
(* `st` carries what the last state event showed: keys, off, Tref, whether *)
(* it was a fit, and whether the rows of A were independent.               *)
(* Reading of "reproduces ... at the reference temperature" for slightly   *)
(* different reference temperatures: the library documents (warning) that  *)
(* it then uses the mean temperature; the reproduction error allowed is    *)
(* |d_i| |T_i - Tref| / T_i, which is zero for equal temperatures.         *)
(***************************************************************************)
EXTENDS Dec2, Lin, TLCExt, Json, IOUtils

TraceLog == ndJsonDeserialize(IOEnv.TRACE_FILE)
VARIABLES l, st

Chk(ok, name) == IF ok THEN {} ELSE {name}
SetOf(s) == {s[i] : i \in 1..Len(s)}
IsEdit(e) == e.ev \in {"append", "extend", "insert", "pop", "remove", "setitem"}
IsState(e) == e.ev \in {"construct", "fit", "append", "extend", "insert", "pop", "remove", "setitem", "clear", "reload", "given"}

\* ---- fit clauses on a state event
\* e.fitv[i] = off . x_i as the object itself evaluates it (References.get_HoRT on the composition of
\* reference i, sign removed): a double-precision witness, so the residual d_i - fitv_i is known to
\* ~1e-9 of the DATA whatever the size of the offsets.  FittedValuesMatchOffsets ties the witness to the
\* logged offsets; every other clause is judged against the scale of the data (dft, exp) only, so
\* offsets of order 1e16 cannot hide behind their own magnitude.
NRefs(e) == Len(e.A)
NDesc(e) == Len(e.desc)
DOff(e, i) == Sub(e.dft[i], e.exp[i])                               \* d_i = dft_i - exp_i
FitTerms(e, i) == [j \in 1..NDesc(e) |-> Mul(I(e.A[i][j]), e.off[j])]
Resid(e, i) == Sub(DOff(e, i), e.fitv[i])                           \* r_i = d_i - (A off)_i
RowsIndependent(e) == IRank(e.A, NDesc(e)) = NRefs(e)
DataScale(e) == SetOf(e.dft) \cup SetOf(e.exp)

WitnessAt(e, i) == CloseIn(e.fitv[i], SumSeq(FitTerms(e, i)), SetOf(FitTerms(e, i)), 6)
NormalEqAt(e, j) ==
   LET terms == [i \in 1..NRefs(e) |-> Mul(I(e.A[i][j]), Resid(e, i))]
       scale == UNION {{Mul(I(e.A[i][j]), e.dft[i]), Mul(I(e.A[i][j]), e.exp[i])} : i \in 1..NRefs(e)}
   IN CloseAt(SumSeq(terms), Zero, MaxMag(scale), 6)
ReproAt(e, i) == CloseAt(Resid(e, i), Zero, MaxMag({e.dft[i], e.exp[i]}), 6)
\* |A off|^2 <= |d|^2 (the fitted vector is a projection of d)
SqTol(e) == <<1, 2 * MaxMag(DataScale(e)) - 6>>
DSq(e) == SumSeq([i \in 1..NRefs(e) |-> Sq(DOff(e, i))])
FittedBounded(e) == Le(SumSeq([i \in 1..NRefs(e) |-> Sq(e.fitv[i])]), Add(DSq(e), SqTol(e)))
\* |off|^2 <= |d|^2 F^(rank-1), F = sum of squared entries (see References.tla, OffsetsBounded)
RECURSIVE DPow(_, _)
DPow(b, n) == IF n <= 0 THEN <<1, 0>> ELSE Mul(b, DPow(b, n - 1))
Frob2(e) == LET rowsq == [i \in 1..NRefs(e) |-> SumSeq([j \in 1..NDesc(e) |-> I(e.A[i][j] * e.A[i][j])])]
            IN SumSeq(rowsq)
OffsetsBounded(e) ==
   LET f == DPow(Frob2(e), IRank(e.A, NDesc(e)) - 1)
       bound == Mul(Add(DSq(e), SqTol(e)), f)
   IN Le(SumSeq([j \in 1..NDesc(e) |-> Sq(e.off[j])]), Add(bound, <<1, Mag(bound) - 6>>))

WellFormed(e) ==
   /\ NRefs(e) >= 1 /\ NDesc(e) >= 1
   /\ Len(e.dft) = NRefs(e) /\ Len(e.exp) = NRefs(e) /\ Len(e.Ti) = NRefs(e) /\ Len(e.fitv) = NRefs(e)
   /\ \A i \in 1..NRefs(e) : Len(e.A[i]) = NDesc(e)
   /\ Len(e.off) = Len(e.keys)

FitClauses(e) ==
   IF e.keys # e.desc THEN {"KeysAreDescriptors"}
   ELSE Chk(\A i \in 1..NRefs(e) : WitnessAt(e, i), "FittedValuesMatchOffsets")
        \cup Chk(\A j \in 1..NDesc(e) : NormalEqAt(e, j), "NormalEquations")
        \cup Chk(RowsIndependent(e) => \A i \in 1..NRefs(e) : ReproAt(e, i), "Reproduces")
        \cup Chk(FittedBounded(e), "FittedBounded")
        \cup Chk(OffsetsBounded(e), "OffsetsBounded")
        \cup Chk(CloseIn(Mul(I(NRefs(e)), e.Tref), SumSeq(e.Ti), SetOf(e.Ti), 7), "TrefIsMean")

Unchanged(e) == e.keys = st.keys /\ e.off = st.off /\ e.Tref = st.Tref
StateClauses(e) ==
   IF e.ev = "given"                                                 \* offsets passed in: nothing fitted,
   THEN Chk(Len(e.off) = Len(e.keys) /\ Len(e.goff) = Len(e.gkeys), "WITNESS")   \* the object holds them as given
        \cup Chk(e.keys = e.gkeys /\ e.off = e.goff /\ e.Tref = e.gTref, "GivenOffsetsKept")
   ELSE IF e.ev = "clear"                                            \* clear_offset(): no offsets left
        THEN Chk(e.keys = <<>> /\ e.off = <<>> /\ e.Tref = st.Tref, "ClearEmpties")
   ELSE IF ~WellFormed(e) THEN {"WITNESS"}
   ELSE IF e.ev = "reload" THEN Chk(Unchanged(e), "ReloadKeepsOffsets") \* to_dict / from_dict, JSON
   ELSE IF IsEdit(e) /\ Unchanged(e) THEN {}                        \* stale: allowed
   ELSE FitClauses(e)                                               \* construct / fit / refitted edit

\* ---- evaluation of a target species: e.x aligned with st.keys; per temperature t = 1, 2:
\*      e.T[t]; Hon/Hoff/Gon/Goff/HkJon/HkJoff (Dec); exact twins as Dec2:
\*      e.S, e.Cp, e.Cv, e.H2, e.G2, e.GSe (G with S_elements=True) = <<on, off, none>> per temperature; e.R = R in kJ/mol/K
DH(e, t) == Sub(e.Hon[t], e.Hoff[t])
Energy(e, t) == Mul(DH(e, t), e.T[t])
OffTerms(e) == [j \in 1..Len(st.off) |-> Mul(Mul(st.off[j], e.x[j]), st.Tref)]     \* e.x[j] is a Dec
HScale(e) == {Mul(e.Hon[t], e.T[t]) : t \in 1..2} \cup {Mul(e.Hoff[t], e.T[t]) : t \in 1..2}
EvalClauses(e) ==
   IF e.keys # st.keys \/ Len(e.x) # Len(st.off) THEN {"WITNESS"} ELSE
   Chk(\A t \in 1..2 : CloseIn(Energy(e, t), Neg(SumSeq(OffTerms(e))), HScale(e) \cup SetOf(OffTerms(e)), 6),
       "AppliesFittedOffsets")
   \cup Chk(CloseIn(Energy(e, 1), Energy(e, 2), HScale(e), 6)
            /\ CloseIn(Sub(e.HkJon[1], e.HkJoff[1]), Sub(e.HkJon[2], e.HkJoff[2]),
                       {e.HkJon[1], e.HkJoff[1], e.HkJon[2], e.HkJoff[2]}, 6),
            "EnergyIndependentOfT")
   \cup Chk(\A t \in 1..2 : CloseIn(Sub(e.HkJon[t], e.HkJoff[t]), Mul(Mul(DH(e, t), e.R), e.T[t]),
                                    {e.HkJon[t], e.HkJoff[t], Mul(Mul(e.Hon[t], e.R), e.T[t])}, 6),
            "EnergyInUnits")
   \cup Chk(\A t \in 1..2 : CloseIn(Sub(e.Gon[t], e.Goff[t]), DH(e, t),
                                    {e.Gon[t], e.Goff[t], e.Hon[t], e.Hoff[t]}, 6),
            "GAlsoShifted")
   \cup Chk(\A t \in 1..2 : /\ Equal2(e.S[t][1], e.S[t][2])
                            /\ Equal2(e.Cp[t][1], e.Cp[t][2])
                            /\ Equal2(e.Cv[t][1], e.Cv[t][2]),
            "NoEntropyNoCp")
   \cup Chk(\A t \in 1..2 : /\ Equal2(e.H2[t][2], e.H2[t][3]) /\ Equal2(e.G2[t][2], e.G2[t][3])
                            /\ Equal2(e.GSe[t][2], e.GSe[t][3])       \* G with S_elements=True
                            /\ Equal2(e.S[t][2], e.S[t][3]) /\ Equal2(e.Cp[t][2], e.Cp[t][3])
                            /\ Equal2(e.Cv[t][2], e.Cv[t][3]),
            "SwitchOff")
   \* use_references omitted = True; a second call returns the same number
   \cup Chk(\A t \in 1..2 : Equal2(e.Hdef[t], e.H2[t][1]), "DefaultIsOn")
   \cup Chk(\A t \in 1..2 : Equal2(e.Hrep[t], e.H2[t][1]), "Repeatable")
   \* T given per species ('<species name>_kwargs': {'T': ...}, the documented keyword routing), alone and
   \* together with a different global T: every part of the species, the adjustment included, follows
   \* the species' own T - the same number as with T passed plainly
   \cup Chk(\A t \in 1..2 : /\ Equal2(e.Hks[t][1], e.H2[t][1]) /\ Equal2(e.Hks[t][2], e.H2[t][1])
                            /\ Equal2(e.Gks[t][1], e.G2[t][1]) /\ Equal2(e.Gks[t][2], e.G2[t][1]),
            "SpeciesKwargsRouting")
   \* verbose=True: slot 6 of [trans, vib, rot, elec, nucl, references, misc...] is the adjustment,
   \* which is what References.get_HoRT(descriptors, T) returns when called directly
   \cup Chk(\A t \in 1..2 : Equal2(e.ver[t], e.Hdir2[t]), "VerboseSlot")
   \* the References object called directly: get_HoRT(x, T) is the shift of the species, get_GoRT
   \* the same number, get_SoR / get_CpoR / get_CvoR / get_UoRT / get_AoRT zero, and with T omitted
   \* the offset is not rescaled (documented: "adjusts using T_ref")
   \cup Chk(/\ \A t \in 1..2 : CloseIn(DH(e, t), e.Hdir[t], {e.Hon[t], e.Hoff[t]}, 6)
            /\ \A t \in 1..2 : Equal2(e.Gdir2[t], e.Hdir2[t])
            /\ \A i \in 1..Len(e.zeros) : IsZero2(e.zeros[i])
            /\ CloseIn(Mul(e.HnoT, st.Tref), Neg(SumSeq(OffTerms(e))), SetOf(OffTerms(e)), 6),
            "DirectCalls")
   \* get_G(units) carries the same energy as get_H(units)
   \cup Chk(\A t \in 1..2 : CloseIn(Sub(e.GkJon[t], e.GkJoff[t]), Sub(e.HkJon[t], e.HkJoff[t]),
                                    {e.GkJon[t], e.GkJoff[t], e.HkJon[t], e.HkJoff[t]}, 6),
            "GAlsoShiftedInUnits")
   \* an empirical species (NASA / Shomate) fitted to this species carries the shift at its anchor
   \* temperature (k = 4: the polynomial fit itself is C03's business)
   \cup (IF e.emp.has
         THEN Chk(CloseIn(Sub(e.emp.H, e.emp.Hoff), Sub(e.emp.Hon, e.emp.Hoff),
                          {e.emp.H, e.emp.Hoff, e.emp.Hon}, 4), "EmpiricalCarriesShift")
         ELSE {})

\* ---- linearity: e.a, e.b small integers; e.Hx, e.Hy, e.Hz = <<on, off>> at one temperature
LinearClauses(e) ==
   LET dx == Sub(e.Hx[1], e.Hx[2])  dy == Sub(e.Hy[1], e.Hy[2])  dz == Sub(e.Hz[1], e.Hz[2])
       scale == {Mul(I(e.a), e.Hx[1]), Mul(I(e.a), e.Hx[2]), Mul(I(e.b), e.Hy[1]), Mul(I(e.b), e.Hy[2]),
                 e.Hz[1], e.Hz[2]}
   IN Chk(CloseIn(dz, Add(Mul(I(e.a), dx), Mul(I(e.b), dy)), scale, 6), "LinearInComposition")

\* ---- reference i through StatMech at its own T_ref: e.Hon, e.Hoff (= dft_i), e.exp, e.Ti
ReproClauses(e) ==
   IF ~(st.fit /\ st.det) THEN {}
   ELSE LET lhs == DAbs(Mul(Sub(e.Hon, e.exp), e.Ti))
            bound == Mul(DAbs(Sub(e.Hoff, e.exp)), DAbs(Sub(e.Ti, st.Tref)))
            tol == <<1, MaxMag({Mul(e.Hon, e.Ti), Mul(e.exp, e.Ti), Mul(e.Hoff, e.Ti)}) - 6>>
        IN Chk(Le(lhs, Add(bound, tol)), "ReproducesExperimental")

Clauses(e) ==
   CASE IsState(e) -> StateClauses(e)
     [] e.ev = "eval" -> EvalClauses(e)
     [] e.ev = "linear" -> LinearClauses(e)
     [] e.ev = "repro" -> ReproClauses(e)
     [] e.ev = "nonfinite" -> {"Finite"}
     [] OTHER -> {"UnknownEvent"}

Step(e) == IF e.ev = "given"
           THEN [keys |-> e.keys, off |-> e.off, Tref |-> e.Tref, fit |-> FALSE, det |-> FALSE]
           ELSE IF e.ev = "reload" /\ WellFormed(e)
           THEN [keys |-> e.keys, off |-> e.off, Tref |-> e.Tref, fit |-> st.fit, det |-> st.det]
           ELSE IF e.ev = "clear"
           THEN [keys |-> e.keys, off |-> e.off, Tref |-> e.Tref, fit |-> FALSE, det |-> FALSE]
           ELSE IF IsState(e) /\ WellFormed(e)
           THEN [keys |-> e.keys, off |-> e.off, Tref |-> e.Tref,
                 fit |-> ~(IsEdit(e) /\ Unchanged(e)),
                 det |-> RowsIndependent(e)]
           ELSE st

TInit == l = 1 /\ st = [keys |-> <<>>, off |-> <<>>, Tref |-> Zero, fit |-> FALSE, det |-> FALSE]
         /\ TLCSet(1, {})
TNext == /\ l <= Len(TraceLog)
         /\ LET e == TraceLog[l]  bad == Clauses(e) IN
              /\ IF bad # {} THEN TLCSet(1, TLCGet(1) \cup {<<e.tid, l, c>> : c \in bad}) ELSE TRUE
              /\ st' = Step(e)
         /\ l' = l + 1
Spec == TInit /\ [][TNext]_<<l, st>>
Post == /\ PrintT(<<"FAILS", TLCGet(1)>>)
        /\ PrintT(<<"CONSUMED", TLCGet("stats").diameter - 1>>)
=============================================================================
