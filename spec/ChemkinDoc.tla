----------------------------- MODULE ChemkinDoc -----------------------------
(***************************************************************************)
(* C06 - design model of the Chemkin mechanism writers (PART 2; the        *)
(* mechanism, the documents and the required relation are PART 1, module   *)
(* ChemkinReq.tla, whose header describes both parts).                     *)
(***************************************************************************)
EXTENDS ChemkinReq

\* ============================================================ design model
CONSTANTS Pool,      \* sequence of species records a session can choose from
          Sites,     \* sequence of [name, bulk]
          MaxSp, MaxRx,
          MaxMol,    \* molecules per side (sum of coefficients)
          MaxCoef,
          GasTest,   \* "all" | "reactants"
          LoneBulk,  \* TRUE: a bulk species may react without an adsorbate of its site
          SDelims, RDelims,   \* species / reaction delimiters tried by ReadBack
          RunLists,  \* run lists (sequences of <<T, P>>, T and P small indices) tried by RunsInv
          EvalMode   \* "each" (required) | "memoT" (one evaluation per distinct temperature)

VARIABLES sel,       \* chosen species: set of Pool indices
          rxset,     \* reactions added so far (set; the file order is SetToSeq's)
          written    \* the files have been written (what they say is a function of the
                     \* mechanism at that moment: Docs below; it is not stored in the state)
vars == <<sel, rxset, written>>

SelSeq == SortInts(sel)
Mech == [sp |-> [k \in 1..Len(SelSeq) |-> Pool[SelSeq[k]]], sites |-> Sites, rx |-> SetToSeq(rxset)]

\* sides: one or two distinct species (increasing index), coefficients 1..MaxCoef, <= MaxMol molecules
SidesOf(n) == {<< <<c, i>> >> : c \in 1..(IF MaxCoef < MaxMol THEN MaxCoef ELSE MaxMol), i \in 1..n}
              \cup {<< <<c[1], p[1]>>, <<c[2], p[2]>> >> :
                       c \in {x \in (1..MaxCoef) \X (1..MaxCoef) : x[1] + x[2] <= MaxMol},
                       p \in {x \in (1..n) \X (1..n) : x[1] < x[2]}}
Accompanied(M, r) ==        \* every bulk species of r reacts together with an adsorbate of its site
   \A t \in Terms(r) : M.sp[t[2]].bulk =>
      \E u \in Terms(r) : /\ M.sp[u[2]].ph # "G" /\ ~M.sp[u[2]].bulk
                          /\ M.sp[u[2]].site = M.sp[t[2]].site
\* the model gives a pre-exponential factor only when a reactant carries a site density
\* (ChemkinReaction.get_A), or when no reactant is on a surface at all
Workable(M, r) == \/ \A t \in Range(r.lhs) : M.sp[t[2]].ph = "G"
                  \/ \E t \in Range(r.lhs) : M.sp[t[2]].ph # "G" /\ ~M.sp[t[2]].bulk
IsAds(M, r) == (\E t \in Range(r.lhs) : M.sp[t[2]].ph = "G") /\ ~AllGaseous(M, r)
RxOf(M) == {r \in {[lhs |-> l, rhs |-> rr, ads |-> FALSE] : l, rr \in SidesOf(Len(M.sp))} :
               /\ Bag(r.lhs) # Bag(r.rhs)
               /\ (LoneBulk \/ Accompanied(M, r))
               /\ Workable(M, r)}

\* ---- the writers, shaped like pmutt/io/chemkin.py
IsGasV(M, r) == IsGasBy(GasTest, M, r)
SD0 == <<43>>
RD0 == <<61>>
EntryOf(M, r) == [lhs |-> RxBags(M, r).lhs, rhs |-> RxBags(M, r).rhs, stick |-> r.ads,
                  text |-> PrintEq(NamedSide(M, r.lhs), NamedSide(M, r.rhs), SD0, RD0)]
Entries(M, want) == LET s == SelectSeq(M.rx, LAMBDA r : IsGasV(M, r) = want)
                    IN [k \in DOMAIN s |-> EntryOf(M, s[k])]
RECURSIVE Dedupe(_)
Dedupe(s) == IF Len(s) = 0 THEN <<>>
             ELSE LET r == Dedupe(SubSeq(s, 1, Len(s) - 1))  x == s[Len(s)]
                  IN IF x \in Range(r) THEN r ELSE Append(r, x)
RECURSIVE RxSpecies(_, _)                     \* Reactions.get_species: reactants then products
RxSpecies(rx, k) == IF k > Len(rx) THEN <<>>
                    ELSE [i \in DOMAIN rx[k].lhs |-> rx[k].lhs[i][2]] \o [i \in DOMAIN rx[k].rhs |-> rx[k].rhs[i][2]]
                         \o RxSpecies(rx, k + 1)

GasEls(M) == SetToSeq(UNION {Range(M.sp[i].els) : i \in DOMAIN M.sp})      \* a Python set
GasSp(M) == LET g == SelectSeq(M.sp, LAMBDA s : s.ph = "G") IN [k \in DOMAIN g |-> g[k].name]
WriteGas(M) == [els |-> GasEls(M), sp |-> GasSp(M), rx |-> Entries(M, TRUE)]
SurfSites(M) ==
   LET found == Dedupe(RxSpecies(M.rx, 1))
       ads == SelectSeq(found, LAMBDA i : M.sp[i].ph # "G" /\ ~M.sp[i].bulk)
       order == Dedupe([k \in DOMAIN ads |-> M.sp[ads[k]].site])
   IN [sites |-> [k \in DOMAIN order |->
                    LET mine == SelectSeq(ads, LAMBDA i : M.sp[i].site = order[k])
                    IN [name |-> M.sites[order[k]].name,
                        ads |-> [a \in DOMAIN mine |-> <<M.sp[mine[a]].name, M.sp[mine[a]].occ>>]]],
       bulk |-> [k \in DOMAIN order |-> M.sites[order[k]].bulk]]
WriteSurf(M) == LET ss == SurfSites(M) IN [sites |-> ss.sites, bulk |-> ss.bulk, rx |-> Entries(M, FALSE)]
WriteEA(M, gas) == LET rows == Entries(M, gas) IN [count |-> Len(rows), rows |-> rows]
WriteTube(M, F) ==
   LET idx == SelectSeq([i \in DOMAIN M.sp |-> i], LAMBDA i : M.sp[i].name \in F)
   IN [count |-> Len(idx), rows |-> [k \in DOMAIN idx |-> [name |-> M.sp[idx[k]].name, tag |-> TagOf(M, idx[k])]]]

\* EAs.inp / EAg.inp hold one entry per (reaction, run).  The entry of run k is the activation
\* method evaluated at the conditions of run k; symbolically, the value "evaluated at <<T, P>>" IS
\* the pair <<T, P>> (a pressure-dependent method separates any two different pairs).
\* "memoT" re-uses the first evaluation made at the same temperature.
FirstWithT(runs, k) == CHOOSE j \in 1..k : runs[j][1] = runs[k][1] /\ \A i \in 1..(j - 1) : runs[i][1] # runs[k][1]
EARowVals(mode, runs) == [k \in DOMAIN runs |-> IF mode = "each" THEN runs[k] ELSE runs[FirstWithT(runs, k)]]
RunsOK(runs, vals) == Len(vals) = Len(runs) /\ \A k \in DOMAIN runs : vals[k] = runs[k]

\* ---- session
PoolOK(S) == /\ \A a, b \in S : a # b => Pool[a].name # Pool[b].name
             /\ \A a, b \in S : (a # b /\ Pool[a].bulk /\ Pool[b].bulk) => Pool[a].site # Pool[b].site
Init == /\ sel \in {S \in SUBSET (1..Len(Pool)) : Cardinality(S) \in 1..MaxSp /\ PoolOK(S)}
        /\ rxset = {}
        /\ written = FALSE
AddReaction == /\ ~written /\ Cardinality(rxset) < MaxRx
               /\ LET M == Mech IN
                  \E r \in RxOf(M) :
                     /\ \A q \in rxset : RxBags(M, q) # RxBags(M, r)
                     /\ rxset' = rxset \cup {[r EXCEPT !.ads = IsAds(M, r)]}
               /\ UNCHANGED <<sel, written>>
\* write_gas, write_surf, write_EA (gas and surface) on the mechanism as it stands
WriteAll == /\ ~written /\ rxset # {}
            /\ written' = TRUE
            /\ UNCHANGED <<sel, rxset>>
Next == AddReaction \/ WriteAll
Spec == Init /\ [][Next]_vars
Docs == [gas |-> WriteGas(Mech), surf |-> WriteSurf(Mech), eag |-> WriteEA(Mech, TRUE), eas |-> WriteEA(Mech, FALSE)]

\* ---- what TLC checks (on the states in which the files exist)
Written == written
Partition == Written => LET M == Mech  g == Entries(M, TRUE)  s == Entries(M, FALSE) IN
                        /\ PartitionOK(M, g, TRUE) /\ PartitionOK(M, s, FALSE)
                        /\ PartitionOK(M, WriteEA(M, TRUE).rows, TRUE) /\ PartitionOK(M, WriteEA(M, FALSE).rows, FALSE)
EachOnceReactions == Written => LET M == Mech IN
                                \A d \in {Entries(M, TRUE), Entries(M, FALSE)} :
                                   ReactionsOnce(M, d) /\ NoStrangers(M, d) /\ StickOK(M, d)
EachOnceElements == Written => LET M == Mech IN ElementsOK(M, GasEls(M))
EachOnceGasSpecies == Written => LET M == Mech IN GasSpeciesOK(M, GasSp(M))
EachOnceSites == Written => LET M == Mech IN SitesOK(M, SurfSites(M).sites)
EachOnceAdsorbates == Written => LET M == Mech IN AdsorbatesOK(M, SurfSites(M).sites)
EachOnceBulk == Written => LET M == Mech IN BulkOK(M, SurfSites(M).bulk)
CountsMatch == Written => LET M == Mech IN CountOK(WriteEA(M, TRUE)) /\ CountOK(WriteEA(M, FALSE))
\* every reaction of the session, printed with every delimiter pair, reads back as itself;
\* and the text carried by the written entries does
ReadBack == Written => LET M == Mech IN
            /\ \A r \in rxset : \A sd \in SDelims, rd \in RDelims :
                  ReadBackOK(NamedSide(M, r.lhs), NamedSide(M, r.rhs), sd, rd)
            /\ \A d \in {Entries(M, TRUE), Entries(M, FALSE)} :
                  \A k \in DOMAIN d : LET p == ParseEq(d[k].text)
                                      IN p.ok /\ Bag(p.lhs) = d[k].lhs /\ Bag(p.rhs) = d[k].rhs
\* tube_mole.inp for every set of named species (including names that are not species)
Stranger == <<90, 90>>
TubeInv == rxset = {} => LET M == Mech IN
              \A F \in SUBSET ({M.sp[i].name : i \in DOMAIN M.sp} \cup {Stranger}) :
                 LET d == WriteTube(M, F) IN TubeOK(M, F, d) /\ CountOK(d)
DistinctInv == Written => DistinctRx(Mech)
\* every entry of an EA row is evaluated at the conditions of its own run, for every run list
\* (repeated temperatures with different pressures, repeated pairs, equal pressures included)
RunsInv == rxset = {} => \A runs \in RunLists : RunsOK(runs, EARowVals(EvalMode, runs))

\* S->C: one record per written session, printed for replay into the real writers
Expected(M, D) ==
   [gasrx |-> [k \in DOMAIN M.rx |-> IF AllGaseous(M, M.rx[k]) THEN 1 ELSE 0],
    gassp |-> D.gas.sp,
    sites |-> [k \in DOMAIN D.surf.sites |->
                 [name |-> D.surf.sites[k].name,
                  ads |-> [a \in DOMAIN D.surf.sites[k].ads |-> D.surf.sites[k].ads[a][1]]]],
    bulk |-> D.surf.bulk,
    neag |-> D.eag.count, neas |-> D.eas.count]
EmitCases == /\ Written => PrintT(<<"CASE", Mech, Expected(Mech, Docs)>>)
             /\ (rxset = {} /\ sel = {1}) => PrintT(<<"RUNS", SetToSeq(RunLists)>>)
=============================================================================
