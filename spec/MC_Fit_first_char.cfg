\* the pinned NASA-9 algorithm: continuity holds, and the anchor is lost only when T_ref is outside segment 1 or the records alias
SPECIFICATION Spec
CONSTANTS
  TGrid = {1, 2, 3, 4, 5, 6}
  CpVals = {0, 1, 3}
  FRefs = {0, 7}
  MaxSeg = 3
  Algorithm = "first"
INVARIANT Continuous
INVARIANT BreaksInside
INVARIANT FirstWrongOnlyIf
CHECK_DEADLOCK FALSE
