\* exhaustive: all sequences of <= 3 items over 5 symbols x 5 counts
SPECIFICATION Spec
CONSTANTS
  Variant = "sum"
  MaxItems = 3
INVARIANT WellFormed
INVARIANT Requirement
INVARIANT Functional
INVARIANT Monotone
CHECK_DEADLOCK FALSE
