------------------------- MODULE MC_LogReaders_cases -------------------------
(* X06 (S->C): the finite case set of the design model as JSON.  A case is a  *)
(* file (sequence of alphabet indices) with every result the specification    *)
(* DECLARES for it (LogReaders!Declared, computed by TLC): the assigned        *)
(* vib_wavenumbers for every cutoff and both values of include_imaginary, the  *)
(* six Gaussian readers, read_pattern first/complete for both groups, and      *)
(* the value / "none" of get_vib_wavenumber_from_line per alphabet line.       *)
(* IOEnv.CASEKINDS = "outcar" | "gauss", IOEnv.CASELEN = longest file.         *)
EXTENDS MC_LogReaders, Json, IOUtils
SX == INSTANCE SequencesExt

CaseKinds == IF IOEnv.CASEKINDS = "gauss" THEN GaussPlus ELSE OutcarPlus
CaseLen == atoi(IOEnv.CASELEN)
Files == UNION {[1..n -> CaseKinds] : n \in 0..CaseLen}
ScalarSeq == <<"zpe", "sum", "mass", "sym">>
ListSeq == <<"freq", "rott">>
CaseOf(f) ==
   [f |-> f,
    vib |-> [c \in 1..Len(Cuts) |-> <<DeclVib(f, Cuts[c], FALSE), DeclVib(f, Cuts[c], TRUE)>>],
    scalar |-> [k \in 1..4 |-> DeclScalar(f, ScalarSeq[k])],
    list |-> [k \in 1..2 |-> DeclList(f, ListSeq[k])],
    first |-> [g \in 1..NGroups(Pat) |-> DeclFirst(f, g - 1)],
    all |-> [g \in 1..NGroups(Pat) |-> DeclAll(f, g - 1)]]
Cases == {CaseOf(f) : f \in Files}
PerLine == [k \in AllKinds |-> LineValue(Lines[k])]
ASSUME JsonSerialize(IOEnv.OUT_FILE,
          [lines |-> Lines, cuts |-> Cuts, pat |-> Pat, perline |-> PerLine,
           scalars |-> ScalarSeq, lists |-> ListSeq, cases |-> SX!SetToSeq(Cases)])
DInit == file = <<>> /\ req = Acc0 /\ imp = Acc0
DNext == UNCHANGED vars
=============================================================================
