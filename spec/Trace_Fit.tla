----------------------------- MODULE Trace_Fit -----------------------------
(***************************************************************************)
(* C03 - trace validation of fitted NASA-7 / NASA-9 / Shomate species.     *)
(* One event per fit.  The fitted object is observed through its public    *)
(* getters (values at T_ref, samples) and its per-segment evaluators       *)
(* (one-sided values at every interior break).                             *)
(***************************************************************************)
EXTENDS Dec, TLC, TLCExt, Json, IOUtils, FiniteSets

TraceLog == ndJsonDeserialize(IOEnv.TRACE_FILE)
VARIABLES l

Chk(ok, name) == IF ok THEN {} ELSE {name}
Tiny == <<1, -6>>            \* absolute floor 1e-11 / 1e-12 for dimensionless values
Idx(s) == 1..Len(s)

\* Tracking thresholds for smooth statistical-mechanical sources (dimensionless Cp/R, H/RT, S/R).
\* The error of a polynomial form over one segment is governed by the segment's span ratio
\* r = T_hi / T_lo.  Measured (worst |fit - source| over the judged samples) on ~13 000 fits of ideal-gas
\* and adsorbate sources over the C01 parameter range (all three families, every window class, n_T 15..200,
\* tree with the proposed C03 fixes; round 5):
\*   r < 2: 1.9e-3 / 1.2e-4 / 8.7e-5;  r < 3: 1.2e-2 / 1.8e-3 / 1.2e-3;  r < 4: 4.6e-2 / 5.4e-3 / 3.9e-3;
\*   r < 6: 0.22 / 2.7e-2 / 2.0e-2;  r < 31 (NASA-7, Shomate): 0.79 / 0.80 / 0.55.
\* The thresholds are 5x these (rounded up), or the round-1 value where that was larger.  Band(e) is computed
\* here from the fitted object's own bounds and breaks.
Edges(e) == <<e.Tlo>> \o e.brk \o <<e.Thi>>
AllUnder(e, c) == \A i \in 1..(Len(Edges(e)) - 1) : Lt(Edges(e)[i + 1], Mul(I(c), Edges(e)[i]))
\* Round 5 (the whole range 100-3000 K is a window of the quantifier): NASA-7 and Shomate fits whose widest
\* segment has 6 <= r < 31 form band 31 (thresholds measured the same way); NASA-9
\* is still not asserted there (it fits Cp*T^2 unweighted: Cp/R off by > 20 at the cold end of a 100-3000 K interval).
Band(e) == IF AllUnder(e, 2) THEN 2 ELSE IF AllUnder(e, 3) THEN 3 ELSE IF AllUnder(e, 4) THEN 4
           ELSE IF AllUnder(e, 6) THEN 6
           ELSE IF e.fam \in {"nasa7", "shomate"} /\ AllUnder(e, 31) THEN 31 ELSE 0
TrackCp(b) == CASE b = 2 -> <<1, -2>> [] b = 3 -> <<1, -1>> [] b = 4 -> <<25, -2>> [] b = 6 -> <<125, -2>> [] b = 31 -> <<4, 0>>
TrackH(b) == CASE b = 2 -> <<6, -4>> [] b = 3 -> <<1, -2>> [] b = 4 -> <<3, -2>> [] b = 6 -> <<14, -2>> [] b = 31 -> <<4, 0>>
TrackS(b) == CASE b = 2 -> <<5, -4>> [] b = 3 -> <<6, -3>> [] b = 4 -> <<2, -2>> [] b = 6 -> <<12, -2>> [] b = 31 -> <<3, 0>>
\* distinct data temperatures a segment needs for its Cp polynomial to be determined by the data: a quartic (NASA-7),
\* A..E (Shomate), seven coefficients fitted without the lowest data temperature (NASA-9)
Need(fam) == CASE fam = "nasa7" -> 5 [] fam = "shomate" -> 5 [] fam = "nasa9" -> 8

Col(samples, j) == [i \in Idx(samples) |-> samples[i][j]]
SetOf(s) == {s[i] : i \in Idx(s)}
AbsLe(a, b, tol) == Le(DAbs(Sub(a, b)), tol)

FitClauses(e) ==
   IF e.st # "ok" THEN {"Raises"}
   ELSE
   LET cpF == Col(e.samples, 2)  hF == Col(e.samples, 3)  sF == Col(e.samples, 4)
       cpS == Col(e.samples, 5)  hS == Col(e.samples, 6)  sS == Col(e.samples, 7)
       exact == e.src \in {"poly", "const", "zero"}
       \* a sample is judged for recovery / tracking only if the fitted object's segments from the one that holds it
       \* to the one that holds T_ref each carry enough distinct data temperatures (samples[i][8] = the smallest count;
       \* under-determined segments are outside the quantifier)
       dense(i) == e.samples[i][8] >= Need(e.fam)
       \* Cp is not chained to the reference: it is judged wherever the sample's OWN segment is determined
       \* (samples[i][9]), also when a segment between it and T_ref is not
       denseOwn(i) == e.samples[i][9] >= Need(e.fam)
       nd == Cardinality({i \in Idx(e.samples) : dense(i)})
       tracks == e.src = "statmech" /\ Band(e) # 0
       bd == Band(e)
   IN Chk(CloseIn(e.hfit, e.href, {Tiny}, 6), "AnchorH")
      \cup Chk(CloseIn(e.sfit, e.sref, {Tiny}, 6), "AnchorS")
      \cup Chk(\A i \in Idx(e.hl) : CloseIn(e.hl[i], e.hr[i], {Tiny}, 6), "ContinuousH")
      \cup Chk(\A i \in Idx(e.sl) : CloseIn(e.sl[i], e.sr[i], {Tiny}, 6), "ContinuousS")
      \* the value the object REPORTS at a break (scalar call, and the middle element of an array bracketing the
      \* break) is the common value of the two polynomials there
      \cup Chk(\A i \in Idx(e.hb) : \A k \in 1..2 : CloseIn(e.hb[i][k], e.hl[i], {e.hr[i], Tiny}, 6), "ReportedAtBreakH")
      \cup Chk(\A i \in Idx(e.sb) : \A k \in 1..2 : CloseIn(e.sb[i][k], e.sl[i], {e.sr[i], Tiny}, 6), "ReportedAtBreakS")
      \* a fit asked with a LIST of T_mid guesses is the fit at the guess it reports: refitting with that scalar
      \* gives the same species (e.refit = its Cp/R, H/RT, S/R at the sample temperatures; <<>> when not applicable)
      \cup Chk(\A i \in Idx(e.refit) : /\ CloseIn(e.refit[i][1], cpF[i], SetOf(cpF) \cup {Tiny}, 6)
                                          /\ CloseIn(e.refit[i][2], hF[i], SetOf(hF) \cup {Tiny}, 6)
                                          /\ CloseIn(e.refit[i][3], sF[i], SetOf(sF) \cup {Tiny}, 6),
               "ListChoiceIsFitAtReportedTmid")
      \cup Chk(e.Tlo = e.dmin /\ e.Thi = e.dmax, "Bounds")
      \cup Chk(\A i \in Idx(e.brk) : Lt(e.Tlo, e.brk[i]) /\ Lt(e.brk[i], e.Thi), "BreakInside")
      \cup Chk(Len(e.hl) = Len(e.brk), "BreakCount")
      \cup (IF exact
            THEN Chk(\A i \in Idx(cpF) : denseOwn(i) => CloseIn(cpF[i], cpS[i], SetOf(cpS) \cup {Tiny}, 6), "ExactRecoveryCp")
                 \cup Chk(\A i \in Idx(hF) : dense(i) => CloseIn(hF[i], hS[i], SetOf(hS) \cup {Tiny}, 6), "ExactRecoveryH")
                 \cup Chk(\A i \in Idx(sF) : dense(i) => CloseIn(sF[i], sS[i], SetOf(sS) \cup {Tiny}, 6), "ExactRecoveryS")
            ELSE {})
      \cup (IF tracks
            THEN Chk(\A i \in Idx(cpF) : denseOwn(i) => AbsLe(cpF[i], cpS[i], TrackCp(bd)), "TracksCp")
                 \cup Chk(\A i \in Idx(hF) : dense(i) => AbsLe(hF[i], hS[i], TrackH(bd)), "TracksH")
                 \cup Chk(\A i \in Idx(sF) : dense(i) => AbsLe(sF[i], sS[i], TrackS(bd)), "TracksS")
            ELSE {})
      \* vacuity accounting (names starting with ~ are counters for the driver, not verdicts)
      \cup (IF exact /\ nd > 0 THEN {"~exact:" \o ToString(nd)} ELSE {})
      \cup (IF tracks /\ nd > 0 THEN {"~tracks" \o ToString(bd) \o ":" \o ToString(nd)} ELSE {})

Clauses(e) == IF e.ev = "fit" THEN FitClauses(e) ELSE {"UnknownEvent"}

Init == l = 1 /\ TLCSet(1, {})
Next == /\ l <= Len(TraceLog)
        /\ LET e == TraceLog[l]  bad == Clauses(e) IN
             IF bad # {} THEN TLCSet(1, TLCGet(1) \cup {<<e.tid, l, c>> : c \in bad}) ELSE TRUE
        /\ l' = l + 1
Spec == Init /\ [][Next]_l
Post == /\ PrintT(<<"FAILS", TLCGet(1)>>)
        /\ PrintT(<<"CONSUMED", TLCGet("stats").diameter - 1>>)
=============================================================================
