---------------------------- MODULE MC_ChemkinDoc ----------------------------
(* Pools and constants of the C06 design model. *)
EXTENDS ChemkinDoc

H == <<72>>
O == <<79>>
Pt == <<80, 116>>
Sp(n, ph, site, bulk, occ, els) == [name |-> n, ph |-> ph, site |-> site, bulk |-> bulk, occ |-> occ, els |-> els]
\* A  B-2  C(S,T)  D*  M(B)  E(T)  N(B)   (hyphen and comma inside names; site PT-111)
MCPool == << Sp(<<65>>, "G", 0, FALSE, 0, <<H>>),
             Sp(<<66, 45, 50>>, "G", 0, FALSE, 0, <<H, O>>),
             Sp(<<67, 40, 83, 44, 84, 41>>, "S", 1, FALSE, 1, <<H, Pt>>),
             Sp(<<68, 42>>, "S", 1, FALSE, 2, <<O, Pt>>),
             Sp(<<77, 40, 66, 41>>, "S", 1, TRUE, 1, <<Pt>>),
             Sp(<<69, 40, 84, 41>>, "S", 2, FALSE, 1, <<H, Pt>>),
             Sp(<<78, 40, 66, 41>>, "S", 2, TRUE, 1, <<Pt>>) >>
\* PT-111 / M(B),  T2 / N(B)
MCSites == << [name |-> <<80, 84, 45, 49, 49, 49>>, bulk |-> <<77, 40, 66, 41>>],
              [name |-> <<84, 50>>, bulk |-> <<78, 40, 66, 41>>] >>
\* a pool whose first gas species is called 2A (starts with a digit): ReadBack must fail
MCPoolDigit == << Sp(<<50, 65>>, "G", 0, FALSE, 0, <<H>>),
                  Sp(<<66, 50>>, "G", 0, FALSE, 0, <<H, O>>),
                  Sp(<<67, 40, 83, 41>>, "S", 1, FALSE, 1, <<H, Pt>>) >>
\* small pool for the replayed cases: A  B-2  C(S,T)  M(B)  E(T)
MCPoolSmall == << MCPool[1], MCPool[2], MCPool[3], MCPool[5], MCPool[6] >>
\* species delimiters "+" and " + ";  reaction delimiters "=", "<=>", "=>", " = "
MCSDelims == {<<43>>, <<32, 43, 32>>}
\* run lists: every sequence of 1..3 runs over 2 temperatures x 2 pressures (84 lists)
TP == (1..2) \X (1..2)
MCRunLists == {<<a>> : a \in TP} \cup {<<a, b>> : a, b \in TP} \cup {<<a, b, c>> : a, b, c \in TP}
MCRDelims == {<<61>>, <<60, 61, 62>>, <<61, 62>>, <<32, 61, 32>>}
=============================================================================
