--------------------------- MODULE HelpersWorlds ---------------------------
(* X04 - the finite input spaces ("worlds") of the helper layer, shared by the design model  *)
(* (MC_Helpers.tla) and the case generator (MC_Helpers_cases.tla), and the variant records.  *)
EXTENDS HelpersRule

\* ---- signature shapes
Par(n, d) == [n |-> n, d |-> d]
PosChoices == {<<>>, <<Par("a", FALSE)>>, <<Par("a", TRUE)>>, <<Par("b", FALSE)>>, <<Par("b", TRUE)>>,
               <<Par("a", FALSE), Par("b", FALSE)>>, <<Par("a", FALSE), Par("b", TRUE)>>,
               <<Par("a", TRUE), Par("b", TRUE)>>}
Kw1 == {<<>>, <<Par("c", FALSE)>>, <<Par("c", TRUE)>>}
Kw2 == Kw1 \cup {<<Par("d", FALSE)>>, <<Par("d", TRUE)>>}
           \cup {<<Par("c", x), Par("d", y)>> : x, y \in BOOLEAN}
ShapesOf(kinds, poss, kws) ==
   {[kind |-> k, pos |-> p, kwonly |-> q, varargs |-> va, varkw |-> vk] :
       k \in kinds, p \in poss, q \in kws, va \in BOOLEAN, vk \in BOOLEAN}
DocKinds == {"function", "method", "class"}
RouteWorldsOf(shapes, pool) == {[topic |-> "route", calls |-> 1, sh |-> s, kw |-> k] : s \in shapes, k \in SUBSET pool}
RouteQuick == RouteWorldsOf(ShapesOf(DocKinds, PosChoices, Kw1), {"a", "b", "c", "x"})
RouteBig == RouteWorldsOf(ShapesOf(DocKinds, PosChoices, Kw2), {"a", "b", "c", "d", "x"})
RouteNoKwonly == RouteWorldsOf(ShapesOf(DocKinds, PosChoices, {<<>>}), {"a", "b", "c", "x"})
\* outside the documentation: functools.partial, instances with __call__, a class without a Python __init__
RouteWide == RouteWorldsOf(ShapesOf({"partial", "object"}, PosChoices, {<<>>}), {"a", "b", "x"})
             \cup RouteWorldsOf({[kind |-> "bareclass", pos |-> <<>>, kwonly |-> <<>>, varargs |-> FALSE,
                                  varkw |-> FALSE]}, {"a"})

\* ---- species dictionaries (keys are texts)
tH2 == <<72, 50>>
tH2O == <<72, 50, 79>>
tO2 == <<79, 50>>
tCO2 == <<67, 79, 50>>
tKW == KWARGS                       \* a species called 'kwargs'
tH2K == tH2 \o UKWARGS              \* a species called 'H2_kwargs'
tT == <<84>>
tP == <<80>>
tV == <<86>>
G(k, v) == [k |-> k, b |-> FALSE, v |-> v, blk |-> <<>>]
B(name, blk) == [k |-> name \o UKWARGS, b |-> TRUE, v |-> 0, blk |-> blk]
Globals == {<<>>, <<G(tT, 1)>>, <<G(tT, 1), G(tP, 2)>>}
Contents == {<<>>, <<<<tP, 5>>>>, <<<<tT, 7>>, <<tP, 5>>>>, <<<<tV, 9>>>>}
BlockSeqs(names, contents) ==
   {<<>>} \cup {<<B(n, c)>> : n \in names, c \in contents}
          \cup {<<B(n[1], c[1]), B(n[2], c[2])>> : n \in {x \in names \X names : x[1] # x[2]}, c \in contents \X contents}
SpecieWorldsOf(names, contents, globals) ==
   {[topic |-> "specie", calls |-> 2, names |-> names, kw |-> IF first THEN g \o b ELSE b \o g] :
       g \in globals, b \in BlockSeqs(names, contents), first \in BOOLEAN}
NamesQuick == {tH2, tH2O, tCO2, tO2, tKW}
NamesBig == NamesQuick \cup {tH2K}
SpecieQuick == SpecieWorldsOf(NamesQuick, {<<>>, <<<<tP, 5>>>>, <<<<tT, 7>>, <<tV, 9>>>>}, {<<G(tT, 1), G(tP, 2)>>})
SpecieBig == SpecieWorldsOf(NamesBig, Contents, Globals)
\* outside the quantifier: ordinary keywords whose name contains 'kwargs'
GlobalsWide == {<<G(tT, 1), G(KWARGS, 3)>>, <<G(<<110>> \o KWARGS \o <<120>>, 4)>>, <<G(KWARGS \o <<95, 84>>, 5), G(tP, 2)>>}
SpecieWide == SpecieWorldsOf({tH2, tKW}, {<<>>, <<<<tP, 5>>>>}, GlobalsWide)

\* ---- condition lists
NameSeqs == {<<>>, <<"T">>, <<"T", "P">>, <<"P", "T">>, <<"T", "P", "V">>}
ListsOfLen(n, vals) == [1..n -> vals]
FW(ns, ls) == [topic |-> "format", calls |-> 1, names |-> ns, lists |-> ls]
FormatEqual(maxn, vals) ==
   UNION {{FW(ns, ls) : ls \in UNION {[1..Len(ns) -> ListsOfLen(n, vals)] : n \in 0..maxn}} : ns \in NameSeqs}
FormatRagged(maxn, vals) ==
   UNION {{FW(ns, ls) : ls \in [1..Len(ns) -> UNION {ListsOfLen(n, vals) : n \in 0..maxn}]} : ns \in NameSeqs}
FormatQuick == FormatEqual(3, {1, 2})
FormatRaggedQuick == FormatRagged(2, {1, 2})
FormatRaggedBig == FormatRagged(3, {1, 2})

\* ---- object lists
Obj(k) == [has |-> TRUE, key |-> k]
NoAttr == [has |-> FALSE, key |-> ""]
ObjSeqs(maxn, pool) == UNION {[1..n -> pool] : n \in 0..maxn}
DictWorldsOf(maxn, pool) == {[topic |-> "listdict", calls |-> 1, objs |-> s] : s \in ObjSeqs(maxn, pool)}
DictQuick == DictWorldsOf(4, {Obj("k1"), Obj("k2"), Obj("k3")})
DictMissing == {w \in DictWorldsOf(3, {Obj("k1"), Obj("k2"), NoAttr}) : ~ListInQuantifier(w.objs)}

\* ---- arrays and kinds
MinusTwo == -2
NpWorlds == {[topic |-> "npop", calls |-> 1, q |-> s] : s \in UNION {[1..n -> {MinusTwo, 0, 1, 3}] : n \in 0..3}}
IterWorlds == {[topic |-> "iter", calls |-> 1, kind |-> k] : k \in IterableKinds \cup ScalarKinds \cup StringKinds
                                                                   \cup {"bytes"}}
IterDoc == {w \in IterWorlds : w.kind # "bytes"}      \* bytes: iterable, "string" is read as str

\* ---- variants
VAsFound == [route |-> "argcount", drop |-> "substring", match |-> "exact", merge |-> "copy",
             format |-> "asbuilt", dict |-> "last", raises |-> "AttributeError", documented |-> {"KeyError"},
             iter |-> "asbuilt"]
VRepaired == [VAsFound EXCEPT !.route = "kwonly", !.documented = {"AttributeError"}]
VDropLast == [VRepaired EXCEPT !.route = "droplast"]
VSuffix == [VRepaired EXCEPT !.drop = "suffix"]
VStartsWith == [VRepaired EXCEPT !.match = "startswith"]
VContains == [VRepaired EXCEPT !.match = "contains"]
VInBlock == [VRepaired EXCEPT !.merge = "inblock"]
VTruncate == [VRepaired EXCEPT !.format = "truncate"]
VFirst == [VRepaired EXCEPT !.dict = "first"]
VNoStrTest == [VRepaired EXCEPT !.iter = "nostrtest"]

AllQuick == RouteQuick \cup SpecieQuick \cup FormatQuick \cup DictQuick \cup DictMissing \cup NpWorlds \cup IterDoc
AllBig == RouteBig \cup SpecieBig \cup FormatQuick \cup FormatRaggedBig \cup DictQuick \cup DictMissing \cup NpWorlds \cup IterDoc
Small == SpecieQuick \cup FormatQuick \cup FormatRaggedQuick \cup DictQuick \cup IterDoc
=============================================================================
