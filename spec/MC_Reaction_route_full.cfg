\* (D) routing: six reactions, all 1 250 caller dictionaries (T, optional P, blocks for any subset of
\* {A, AB, D, Z} with contents {}, {T}, {P}, {T,P}), every public call once
SPECIFICATION Spec
CONSTANTS
  Rxns <- RxnSmall
  KwParts <- AllKwParts
  ProbeNames <- MCProbeNames
  ProbeBlocks <- MCProbeBlocks
  Variant = "asbuilt"
  MaxCalls = 1
  MaxEdits = 0
  EditCoefs <- MCEditCoefs
  EditNames <- MCEditNames
INVARIANT TypeOK
INVARIANT RouteRefines
INVARIANT StateRefines
INVARIANT ResultOK
INVARIANT Hess
INVARIANT Antisymmetry
INVARIANT ActDifference
INVARIANT DetailedBalance
INVARIANT KeqActRatio
INVARIANT ActWithoutTSRefused
INVARIANT RouteIsolation
PROPERTY CallerUntouched
CHECK_DEADLOCK FALSE
