\* EXPECTED TO BE REJECTED (outside the quantifier): an ordinary keyword whose name contains "kwargs" is
\* dropped by the test 'kwargs' in key; the requirement removes only the <name>_kwargs blocks
SPECIFICATION Spec
CONSTANTS
  Worlds <- SpecieWide
  V <- VRepaired
INVARIANT TypeOK
INVARIANT SpecieFaithful
INVARIANT BlockKeysRemoved
INVARIANT CallerUntouched
CHECK_DEADLOCK FALSE
