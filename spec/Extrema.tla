------------------------------ MODULE Extrema ------------------------------
(***************************************************************************)
(* C19 - phase diagrams and energy spans select the true extrema.          *)
(*                                                                         *)
(* What the property talks about:                                          *)
(*   Table[i][j]      normalised Gibbs energy of formation of candidate    *)
(*                    phase i (reaction i) at grid point j (1-D scan);     *)
(*   Table[i][j][k]   the same for a two-parameter scan;                   *)
(*   stable[j] / stable[j][k]  the phase reported as stable at that point; *)
(*   G[1..n]          Gibbs energies of the states of a reaction sequence  *)
(*                    in the order they are visited; span(G).  The states  *)
(*                    of a sequence are ALL occupied states of ALL steps:  *)
(*                    States(steps) lists every step's reactant state,     *)
(*                    its transition state if any, and its product state.  *)
(*                    The reactant state of step k is NOT assumed to be    *)
(*                    the product state of step k-1 (a co-reactant may     *)
(*                    join, a by-product may leave).                       *)
(*                                                                         *)
(* REQUIRED RELATION (order-generic: the design model instantiates it with *)
(* integers, Trace_Extrema.tla with Dec numbers logged from the library):  *)
(*   - one reported phase per GRID POINT (shape |grid| resp. |g1| x |g2|); *)
(*   - the reported phase attains the minimum of its column.  Ties: any    *)
(*     index attaining the minimum is acceptable (the property does not    *)
(*     say which);                                                         *)
(*   - a 2-D scan whose second axis is a single value reports what the     *)
(*     1-D scan reports;                                                   *)
(*   - span = G[a] - G[b] + (IF a < b THEN G[n] - G[1] ELSE 0) for a state *)
(*     a attaining the maximum and a state b attaining the minimum (under  *)
(*     ties any such pair is acceptable - narrower reading, written here   *)
(*     because the property text is silent).                               *)
(* NaN entries are outside the quantifier (formation energies are finite). *)
(*                                                                         *)
(* IMPLEMENTATION-SHAPED VARIANTS (named, next to the required relation):  *)
(*   Variant = "axis0": first arg-min of every column (numpy.nanargmin     *)
(*                      over the reaction axis);                           *)
(*   Variant = "axis1": what PhaseDiagram.get_GoRT_1D did at the pinned    *)
(*                      commit - numpy.nanargmin(GoRT, axis=1), i.e. the   *)
(*                      first arg-min of every ROW (one entry per          *)
(*                      reaction, holding a grid index).  MC_Extrema_axis1 *)
(*                      .cfg is expected to be REJECTED.                   *)
(*   Impl2D: transpose to [j][k][i], arg-min over the last axis (correct). *)
(*   ImplSpan: first arg-max, first arg-min (numpy.argmax / argmin).       *)
(*   Variant = "skipreact": arg-min as "axis0", but the state list of a    *)
(*                      sequence drops the reactant state of every step    *)
(*                      after the first ("it is the previous product       *)
(*                      state").  Equal to States only for contiguous      *)
(*                      chains (lemma ContiguousSkipHarmless);             *)
(*                      MC_Extrema_skipreact.cfg is expected to be         *)
(*                      REJECTED by SpanDefinition.                        *)
(***************************************************************************)
EXTENDS Integers, Sequences, FiniteSets

\* ------------------------------------------------------------------------
\* order-generic selection; LE(_, _) is the (total, possibly coarse) order
\* ------------------------------------------------------------------------
ArgMins(col, LE(_, _)) == {i \in 1..Len(col) : \A k \in 1..Len(col) : LE(col[i], col[k])}
ArgMaxs(col, LE(_, _)) == {i \in 1..Len(col) : \A k \in 1..Len(col) : LE(col[k], col[i])}

\* column of a table given as a sequence of rows (one row per reaction)
Col1(T, j) == [i \in 1..Len(T) |-> T[i][j]]
Col2(T, j, k) == [i \in 1..Len(T) |-> T[i][j][k]]

\* table shapes
IsTable1(T, n, np) == Len(T) = n /\ \A i \in 1..n : Len(T[i]) = np
IsTable2(T, n, np, nq) ==
   Len(T) = n /\ \A i \in 1..n : Len(T[i]) = np /\ \A j \in 1..np : Len(T[i][j]) = nq

\* required: shape of the report
Shape1OK(st, np) == Len(st) = np
Shape2OK(st, np, nq) == Len(st) = np /\ \A j \in 1..np : Len(st[j]) = nq

\* required: every reported entry (where there is one) attains its column's minimum
Min2(a, b) == IF a < b THEN a ELSE b
Stable1OK(T, np, st, LE(_, _)) ==
   \A j \in 1..Min2(np, Len(st)) : st[j] \in ArgMins(Col1(T, j), LE)
Stable2OK(T, np, nq, st, LE(_, _)) ==
   \A j \in 1..Min2(np, Len(st)) : \A k \in 1..Min2(nq, Len(st[j])) :
      st[j][k] \in ArgMins(Col2(T, j, k), LE)

\* a 1-D table as a 2-D one with a singleton second axis, and slice k of a 2-D table
Lift(T) == [i \in 1..Len(T) |-> [j \in 1..Len(T[i]) |-> <<T[i][j]>>]]
Slice(T, k) == [i \in 1..Len(T) |-> [j \in 1..Len(T[i]) |-> T[i][j][k]]]

\* energy span for a chosen (arg-max a, arg-min b)
SpanAt(G, a, b, Plus(_, _), Minus(_, _), zero) ==
   Plus(Minus(G[a], G[b]), IF a < b THEN Minus(G[Len(G)], G[1]) ELSE zero)
SpanSet(G, LE(_, _), Plus(_, _), Minus(_, _), zero) ==
   {SpanAt(G, a, b, Plus, Minus, zero) : a \in ArgMaxs(G, LE), b \in ArgMins(G, LE)}

\* ---- the states of a reaction sequence.  A step is a record
\*   [r |-> energy of its reactant state, t |-> <<>> or <<energy of its TS>>, p |-> products]
\* and EVERY step contributes its reactant state explicitly.
StepStates(st) == <<st.r>> \o st.t \o <<st.p>>
RECURSIVE States(_)
States(steps) == IF Len(steps) = 0 THEN <<>> ELSE StepStates(steps[1]) \o States(Tail(steps))
\* implementation-shaped variant: later reactant states dropped
RECURSIVE StatesSkipFrom(_, _)
StatesSkipFrom(steps, k) ==
   IF k > Len(steps) THEN <<>>
   ELSE (IF k = 1 THEN StepStates(steps[k]) ELSE steps[k].t \o <<steps[k].p>>)
        \o StatesSkipFrom(steps, k + 1)
StatesSkip(steps) == StatesSkipFrom(steps, 1)
\* positions in States(steps) of the reactant states of steps 2, 3, ...
RECURSIVE LaterReactantPos(_, _, _)
LaterReactantPos(steps, k, off) ==
   IF k > Len(steps) THEN {}
   ELSE (IF k > 1 THEN {off + 1} ELSE {}) \cup LaterReactantPos(steps, k + 1, off + 2 + Len(steps[k].t))
Contiguous(steps) == \A k \in 2..Len(steps) : steps[k].r = steps[k - 1].p

\* CONTIGUOUS CHAINS ONLY (used for nothing but the lemmas below and the legacy chain
\* cases): the state list Reactions.get_E_span walks: reactants, [TS], products of every step
\* (products of step s and reactants of step s+1 are the same state, listed twice);
\* g = path without repetition, ts[s] = step s has a transition state
RECURSIVE WalkFrom(_, _, _, _)
WalkFrom(g, ts, s, p) ==      \* p = position in g of the reactants of step s
   IF s > Len(ts) THEN <<>>
   ELSE IF ts[s] THEN <<g[p], g[p + 1], g[p + 2]>> \o WalkFrom(g, ts, s + 1, p + 2)
        ELSE <<g[p], g[p + 1]>> \o WalkFrom(g, ts, s + 1, p + 1)
Walk(g, ts) == WalkFrom(g, ts, 1, 1)
NStates(ts) == 1 + Len(ts) + Cardinality({s \in 1..Len(ts) : ts[s]})

\* ------------------------------------------------------------------------
\* design model on small integer tables
\* ------------------------------------------------------------------------
CONSTANTS MaxR, MaxP,        \* 1-D: up to MaxR reactions x MaxP grid points
          MaxR2, MaxP2,      \* 2-D: up to MaxR2 reactions x MaxP2 x MaxP2 points
          Vals,              \* table entries
          MaxS, SVals,       \* spans: up to MaxS states with energies in SVals
          MaxSteps, StepVals,\* sequences: up to MaxSteps steps, every state energy in StepVals
          Variant            \* "axis0" | "axis1" | "skipreact"

VARIABLES call,              \* "idle" | "scan1" | "scan2" | "slice" | "span" | "spanseq"
          arg,               \* the object queried: [kind, v] - a table or a list of state energies
          out                \* what the call reports
vars == <<call, arg, out>>

ILE(a, b) == a <= b
IPlus(a, b) == a + b
IMinus(a, b) == a - b
First(S) == CHOOSE x \in S : \A y \in S : x <= y

Tables1 == UNION {[1..r -> [1..p -> Vals]] : r \in 1..MaxR, p \in 1..MaxP}
Tables2 == UNION {[1..r -> [1..p -> [1..q -> Vals]]] : r \in 1..MaxR2, p \in 1..MaxP2, q \in 1..MaxP2}
Energies == UNION {[1..n -> SVals] : n \in 1..MaxS}
StepRecs == [r : StepVals, t : {<<>>} \cup {<<v>> : v \in StepVals}, p : StepVals]
Sequences == UNION {[1..n -> StepRecs] : n \in 1..MaxSteps}

Impl1D(T) ==
   IF Variant # "axis1"
   THEN [j \in 1..Len(T[1]) |-> First(ArgMins(Col1(T, j), ILE))]
   ELSE [i \in 1..Len(T) |-> First(ArgMins(T[i], ILE))]           \* nanargmin(GoRT, axis=1)
Impl2D(T) ==
   [j \in 1..Len(T[1]) |-> [k \in 1..Len(T[1][1]) |-> First(ArgMins(Col2(T, j, k), ILE))]]
ImplSpan(G) ==
   SpanAt(G, First(ArgMaxs(G, ILE)), First(ArgMins(G, ILE)), IPlus, IMinus, 0)

\* the object (a phase diagram / a reaction sequence) exists first, then is queried
Objects == [kind : {"t1"}, v : Tables1] \cup [kind : {"t2"}, v : Tables2] \cup [kind : {"g"}, v : Energies]
           \cup [kind : {"seq"}, v : Sequences]
\* Reactions.get_E_span on a sequence of steps
ImplStates(steps) == IF Variant = "skipreact" THEN StatesSkip(steps) ELSE States(steps)
ImplSpanSeq(steps) == ImplSpan(ImplStates(steps))

Init == call = "idle" /\ arg \in Objects /\ out = <<>>
Scan1D == call = "idle" /\ arg.kind = "t1" /\ call' = "scan1" /\ out' = Impl1D(arg.v) /\ UNCHANGED arg
Scan2D == call = "idle" /\ arg.kind = "t2" /\ call' = "scan2" /\ out' = Impl2D(arg.v) /\ UNCHANGED arg
\* the same table scanned once with one parameter and once with a singleton second parameter
Sliced == call = "idle" /\ arg.kind = "t1" /\ call' = "slice"
          /\ out' = <<Impl1D(arg.v), Impl2D(Lift(arg.v))>> /\ UNCHANGED arg
Span == call = "idle" /\ arg.kind = "g" /\ call' = "span" /\ out' = ImplSpan(arg.v) /\ UNCHANGED arg
SpanSeq == call = "idle" /\ arg.kind = "seq" /\ call' = "spanseq" /\ out' = ImplSpanSeq(arg.v)
           /\ UNCHANGED arg
Return == call # "idle" /\ call' = "idle" /\ out' = <<>> /\ UNCHANGED arg
Next == Scan1D \/ Scan2D \/ Sliced \/ Span \/ SpanSeq \/ Return
Spec == Init /\ [][Next]_vars

\* ---- the property on the design model
StableShape ==
   /\ call = "scan1" => Shape1OK(out, Len(arg.v[1]))
   /\ call = "scan2" => Shape2OK(out, Len(arg.v[1]), Len(arg.v[1][1]))
StableIsArgMin ==
   /\ call = "scan1" => Stable1OK(arg.v, Len(arg.v[1]), out, ILE)
   /\ call = "scan2" => Stable2OK(arg.v, Len(arg.v[1]), Len(arg.v[1][1]), out, ILE)
\* where the report has an entry it is a reaction index at all
StableInRange ==
   call = "scan1" => \A j \in 1..Len(out) : out[j] \in 1..Len(arg.v)
OneDEqualsTwoDSlice ==
   call = "slice" =>
      /\ Len(out[1]) = Len(out[2])
      /\ \A j \in 1..Len(out[1]) : out[2][j] = <<out[1][j]>>
SpanDefinition ==
   /\ call = "span" => out \in SpanSet(arg.v, ILE, IPlus, IMinus, 0)
   \* over ALL states of the sequence, every step's reactant state included
   /\ call = "spanseq" => out \in SpanSet(States(arg.v), ILE, IPlus, IMinus, 0)

\* ---- facts about the definitions themselves (ASSUMEd in MC_Extrema)
\* both branches of the span definition occur, also with first-extremum selection
BothBranches ==
   /\ \E G \in Energies : First(ArgMaxs(G, ILE)) < First(ArgMins(G, ILE)) /\ G[Len(G)] # G[1]
   /\ \E G \in Energies : First(ArgMaxs(G, ILE)) > First(ArgMins(G, ILE))
\* a single state has span 0
SpanOfOne == \A v \in SVals : ImplSpan(<<v>>) = 0
\* CONTIGUOUS CHAINS: listing the shared state of consecutive steps twice
\* (Reactions.get_E_span) does not change the set of acceptable spans (Network.get_E_span
\* lists it once).  This is a statement about chains; it is never used to drop a state:
\* the trace specification always evaluates States(steps).
WalkInvariant(TsPatterns) ==
   \A ts \in TsPatterns : \A g \in [1..NStates(ts) -> SVals] :
      SpanSet(Walk(g, ts), ILE, IPlus, IMinus, 0) = SpanSet(g, ILE, IPlus, IMinus, 0)
\* dropping later reactant states is harmless exactly-enough for contiguous sequences ...
ContiguousSkipHarmless ==
   \A steps \in Sequences : Contiguous(steps) =>
      SpanSet(StatesSkip(steps), ILE, IPlus, IMinus, 0) = SpanSet(States(steps), ILE, IPlus, IMinus, 0)
\* ... and wrong for some non-contiguous one (no acceptable span is reported)
SkipWrongSomewhere ==
   \E steps \in Sequences :
      ImplSpan(StatesSkip(steps)) \notin SpanSet(States(steps), ILE, IPlus, IMinus, 0)
\* a later step's reactant state lies strictly beyond every other state of the sequence
LaterReactantExtreme(steps) ==
   LET rest == StatesSkip(steps) IN
   \E k \in 2..Len(steps) :
      \/ \A i \in 1..Len(rest) : rest[i] < steps[k].r
      \/ \A i \in 1..Len(rest) : rest[i] > steps[k].r
=============================================================================
