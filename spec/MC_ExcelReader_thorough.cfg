\* thorough: quick + 3 columns from 12 x 2 rows + 4 columns from 6 x 2 rows (all emptiness patterns)
SPECIFICATION Spec
CONSTANTS
  Groups <- MCGroups
  GroupSheets <- MCGroupSheets
  Variant = "code"
  SetName = "thorough"
INVARIANT KeysFunctional
INVARIANT OneRecordPerRow
INVARIANT RowOrder
INVARIANT Refines
INVARIANT CarriedEmpty
INVARIANT NoLeak
INVARIANT NoEmptyCells
INVARIANT NoRaise
INVARIANT DispatchDisjoint
INVARIANT ChainAgrees
INVARIANT InQuantifier
CHECK_DEADLOCK FALSE
