\* the algorithm of the code ("%04d") on identifiers already printed as %04d:
\* 4 heads x 6 numbers, collections of <= 3 identifiers, all orders, duplicates
SPECIFICATION Spec
CONSTANTS
  Heads <- HeadsCanon
  Numbers <- NumsCanon
  Widths = {4}
  Extra = {}
  MaxIds = 3
  Variant = "pad4"
INVARIANT TypeOK
INVARIANT Faithful
INVARIANT FormsAgree
PROPERTY IdsUntouched
CHECK_DEADLOCK FALSE
