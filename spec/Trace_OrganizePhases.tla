------------------------ MODULE Trace_OrganizePhases ------------------------
(***************************************************************************)
(* X03 - trace validation of recorded calls of pmutt.io.omkm               *)
(* organize_phases / get_species_phases / get_reactions_phases /           *)
(* get_interactions_phases on real objects.  One NDJSON line per call.     *)
(*                                                                         *)
(*  begin    the universe of this trace id (see OrganizeRule.tla): ph, sp, *)
(*           rx, ia, spgiven, rxgiven, iagiven - what the driver BUILT     *)
(*           (phase names the species were created with), never read back  *)
(*           from the library                                              *)
(*  helper   which = "species" | "reactions" | "interactions", raised,     *)
(*           res = <<key, member names>> per dictionary entry, in the      *)
(*           dictionary's order; key = <<"str", k>> | <<"none">> |         *)
(*           <<"obj", name>>.  Helpers are called on the SAME objects      *)
(*           before and after organize_phases has run.                     *)
(*  organize raised, res = one record per returned phase object: name,     *)
(*           cls (type name), species / reactions / inters (the names /    *)
(*           ids the object lists, in its order); keys_before / keys_after *)
(*           = the keys of every phase description before / after the      *)
(*           call; lists_before / lists_after = names in the caller's      *)
(*           species / reactions / interactions lists; kw_given / kw_got = *)
(*           <<key, repr(value)>> of the other entries of each description *)
(*           and of the attributes of the returned object.                 *)
(*           mode = "first" | "same" (same descriptions, same objects) |   *)
(*           "fresh_dicts" (descriptions rebuilt, same objects) |          *)
(*           "fresh_all" (everything rebuilt from equal values).  Whatever *)
(*           the mode, the universe is the same, so the required result is *)
(*           the same: a second call returns what the first did.           *)
(*                                                                         *)
(* Clauses: OutOfQuantifier (the driver's fault), Raises,                  *)
(* PhasesAsDescribed, SpeciesInExactlyOnePhase, SpeciesInThePhaseItNames,  *)
(* ReactionInExactlyOnePhase, ReactionInItsHomePhase,                      *)
(* InteractionInExactlyOnePhase, InteractionInThePhaseOfItsSpecies,        *)
(* NothingInvented, ResultIsRequired, CallerDescriptionsUntouched,         *)
(* CallerListsUntouched, KwargsForwarded, HelperRaises,                    *)
(* HelperKeysArePhaseNames, HelperSpeciesExact, HelperReactionsExact,      *)
(* HelperInteractionsExact, UnknownEvent.                                  *)
(***************************************************************************)
EXTENDS OrganizeRule, TLC, TLCExt, Json, IOUtils

TraceLog == ndJsonDeserialize(IOEnv.TRACE_FILE)
VARIABLES l, st

If(ok, name) == IF ok THEN {} ELSE {name}

OrganizeClauses(U, e) ==
   IF e.raised THEN {"Raises"}
   ELSE If(PhasesAsDescribed(U, e.res), "PhasesAsDescribed")
        \cup If(SpeciesInExactlyOnePhase(U, e.res), "SpeciesInExactlyOnePhase")
        \cup If(SpeciesInThePhaseItNames(U, e.res), "SpeciesInThePhaseItNames")
        \cup If(ReactionInExactlyOnePhase(U, e.res), "ReactionInExactlyOnePhase")
        \cup If(ReactionInItsHomePhase(U, e.res), "ReactionInItsHomePhase")
        \cup If(InteractionInExactlyOnePhase(U, e.res), "InteractionInExactlyOnePhase")
        \cup If(InteractionInThePhaseOfItsSpecies(U, e.res), "InteractionInThePhaseOfItsSpecies")
        \cup If(NothingInvented(U, e.res), "NothingInvented")
        \cup If(MatchesRequired(U, e.res), "ResultIsRequired")
        \cup If(e.keys_after = e.keys_before, "CallerDescriptionsUntouched")
        \cup If(e.lists_after = e.lists_before, "CallerListsUntouched")
        \cup If(e.kw_got = e.kw_given, "KwargsForwarded")

HelperClauses(U, e) ==
   IF e.raised THEN {"HelperRaises"}
   ELSE If(KeysArePhaseNames(e.res), "HelperKeysArePhaseNames")
        \cup (CASE e.which = "species" -> If(HelperSpeciesExact(U, e.res), "HelperSpeciesExact")
                [] e.which = "reactions" -> If(HelperReactionsExact(U, e.res), "HelperReactionsExact")
                [] e.which = "interactions" -> If(HelperInteractionsExact(U, e.res), "HelperInteractionsExact")
                [] OTHER -> {"UnknownEvent"})

Universe(e) == [ph |-> e.ph, sp |-> e.sp, rx |-> e.rx, ia |-> e.ia,
                spgiven |-> e.spgiven, rxgiven |-> e.rxgiven, iagiven |-> e.iagiven]

Clauses(e) ==
   CASE e.ev = "begin" -> If(InQuantifier(Universe(e)), "OutOfQuantifier")
     [] e.ev = "organize" -> OrganizeClauses(st, e)
     [] e.ev = "helper" -> HelperClauses(st, e)
     [] OTHER -> {"UnknownEvent"}

Step(e) == IF e.ev = "begin" THEN Universe(e) ELSE st

NoUniverse == [ph |-> <<>>, sp |-> <<>>, rx |-> <<>>, ia |-> <<>>,
               spgiven |-> TRUE, rxgiven |-> TRUE, iagiven |-> TRUE]
Init == l = 1 /\ st = NoUniverse /\ TLCSet(1, {})
Next == /\ l <= Len(TraceLog)
        /\ LET e == TraceLog[l]  bad == Clauses(e) IN
             /\ IF bad # {} THEN TLCSet(1, TLCGet(1) \cup {<<e.tid, l, c>> : c \in bad}) ELSE TRUE
             /\ st' = Step(e)
        /\ l' = l + 1
Spec == Init /\ [][Next]_<<l, st>>
Post == /\ PrintT(<<"FAILS", TLCGet(1)>>)
        /\ PrintT(<<"CONSUMED", TLCGet("stats").diameter - 1>>)
=============================================================================
