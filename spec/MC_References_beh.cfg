\* every behaviour of a small instance (5 reference kinds, <= 4 references, 3 calls), printed for replay
SPECIFICATION Spec
CONSTANTS
  ND = 2
  RefKinds <- BehKinds
  InsKinds <- BehIns
  ExtSets <- BehExt
  InitSets <- BehInit
  MaxRefs = 4
  MaxOps = 3
  Variant = "explicit"
  Steps <- MCSteps
  Algo = "lstsq"
  Garbage = 1000
  Acts = {}
  GivenSets <- NoGiven
  Record = TRUE
  Temps = {200, 1000}
INVARIANT EmitBehaviours
CHECK_DEADLOCK FALSE
