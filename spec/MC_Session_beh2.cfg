\* every behaviour of a small instance (2 round trips), printed for replay (quick tier)
SPECIFICATION Spec
CONSTANTS
  Workspaces <- BehWorkspaces
  MaxObjs = 5
  MaxOps = 2
  RoundMode = "nearest"
  KeepClass = TRUE
  LoseFlag = FALSE
  ThermdatAny = FALSE
  ThermdatOrder = "kept"
  RecordWs = TRUE
INVARIANT EmitBehaviours
CHECK_DEADLOCK FALSE
