\* EXPECTED TO BE REJECTED: the code does not refit after append/extend/pop, so a References object is
\* not always fresh (counterexample: construct; append)
SPECIFICATION Spec
CONSTANTS
  ND = 2
  RefKinds <- BehKinds
  InsKinds <- BehIns
  ExtSets <- BehExt
  InitSets <- BehInit
  MaxRefs = 3
  MaxOps = 2
  Variant = "explicit"
  Steps <- MCSteps
  Algo = "lstsq"
  Garbage = 1000
  Acts = {"setitem", "clear"}
  GivenSets <- NoGiven
  Record = FALSE
  Temps = {200, 1000}
INVARIANT AlwaysFresh
VIEW View
CHECK_DEADLOCK FALSE
