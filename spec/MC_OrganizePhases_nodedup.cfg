\* EXPECTED TO BE REJECTED: without the 'skip duplicate reactions' test a reaction with two species of one phase is listed twice
SPECIFICATION Spec
CONSTANTS
  MaxPhases = 2
  SpCounts <- Sp2
  MaxRx = 1
  MaxIa = 0
  MaxCalls = 3
  Variant = "nodedup"
  Scope = "narrow"
INVARIANT ReactionOnce
VIEW View
CHECK_DEADLOCK FALSE
