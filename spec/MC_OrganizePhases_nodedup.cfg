\* EXPECTED TO BE REJECTED: without the 'skip duplicate reactions' test a reaction with two species of one phase is listed twice
SPECIFICATION Spec
CONSTANTS
  MaxPhases = 3
  SpCounts <- Sp3
  MaxRx = 2
  MaxIa = 1
  MaxCalls = 3
  Variant = "nodedup"
  Scope = "narrow"
INVARIANT ReactionOnce
VIEW View
CHECK_DEADLOCK FALSE
