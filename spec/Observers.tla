------------------------------ MODULE Observers ------------------------------
(***************************************************************************)
(* X09 - evaluation calls of pMuTT objects are pure observers.             *)
(*                                                                         *)
(* One model object as a state machine.  `content` is the object's         *)
(* observable content (a small integer vector: what to_dict() shows),      *)
(* `store` is the CALLER's argument store (objects the caller owns and     *)
(* passes by reference: arrays / lists / scalars of temperatures, each     *)
(* with a dtype `kind`), `cache` and `memo` are what an implementation may *)
(* keep privately.  Actions:                                               *)
(*   Mutate(i, v)       a documented mutator (attribute assignment, ...)   *)
(*   Eval(m, r)         a documented evaluation get_<m>(T = store[r])      *)
(*   CallerWrite(r, a)  the caller changes ITS OWN argument object between *)
(*                      calls (same identity r, new value)                 *)
(* `last` is the record of the last call (with the result the              *)
(* implementation returned), `seen` remembers what every (method,          *)
(* argument) returned since the last mutation, `dirty` says a mutator ran. *)
(*                                                                         *)
(* The required relation (the property):                                   *)
(*   ArgsUntouched       an evaluation leaves `store` as it was            *)
(*   StateUntouched      an evaluation leaves `content` as it was          *)
(*   Repeatable          equal (method, argument) with no mutator between  *)
(*                       => equal results, whatever was evaluated between  *)
(*   NoHiddenState       before any mutation the result is the one a       *)
(*                       freshly constructed object returns                *)
(*   FreshAfterMutation  after mutators the result is the one an object    *)
(*                       freshly constructed from the content returns      *)
(*   ArrayIsMapOfScalar  the result for an array is, element by element,   *)
(*                       what the same object returns for the scalar       *)
(*   IntEqualsFloat      integer-typed temperatures give what the same     *)
(*                       temperatures give as floats                       *)
(*                                                                         *)
(* Implementation shapes (constant Impl).  The first two satisfy the       *)
(* property; every other one is a named deviation that TLC must REJECT     *)
(* (own cfg each):                                                         *)
(*   "pure"       evaluates from `content`                                 *)
(*   "cache"      evaluates from derived data recomputed when a field in   *)
(*                Keyed is assigned: legitimate iff Keyed = all fields;    *)
(*                Keyed = {1} is the shape of HarmonicVib / QRRHOVib       *)
(*                (_valid_vib_wavenumbers refreshed by the vib_wavenumbers *)
(*                setter only) and, with Keyed = the structural edits, of  *)
(*                PiecewiseCovEffect (_intercepts)                         *)
(*   "lastcall"   one-slot memo keyed by the method only (not the          *)
(*                argument): state carried from one evaluation to the next *)
(*   "memoid"     memo keyed by (method, id(argument)): stale when the     *)
(*                caller changes the argument object                       *)
(*   "inplace"    scales the caller's array in place (T /= 1000)           *)
(*   "intbuffer"  result buffer allocated with the argument's dtype        *)
(*                (zeros_like(T)): integer temperatures truncate           *)
(*   "scratch"    the evaluation normalises / stores something in the      *)
(*                object's observable content                              *)
(***************************************************************************)
EXTENDS Integers, Sequences, FiniteSets, TLC

CONSTANTS NF,         \* number of content fields
          Vals,       \* values of a field
          Methods,    \* evaluation methods (small positive integers)
          Refs,       \* caller-owned argument objects
          Args,       \* arguments a caller can hold: [val : Seq(temperature id), kind : Kinds]
          InitStores, \* initial argument stores
          Keyed,      \* fields whose assignment refreshes the derived cache ("cache")
          Impl,
          MaxOps

VARIABLES content, store, cache, memo, last, seen, dirty, n, h
vars == <<content, store, cache, memo, last, seen, dirty, n, h>>

Kinds == {"farr", "iarr", "list", "sint", "sflt"}
IntKinds == {"iarr", "sint"}
ArrayKinds == {"farr", "iarr", "list"}
FloatOf(k) == IF k = "iarr" THEN "farr" ELSE IF k = "sint" THEN "sflt" ELSE k
Fields == 1..NF
NoMemo == [m |-> 0, res |-> <<>>]
NoLast == [act |-> "construct", i |-> 0, v |-> 0, m |-> 0, r |-> "", arg |-> [val |-> <<>>, kind |-> "sflt"],
           res |-> <<>>]

\* ---- the mathematical function the object stands for: injective in every field, the method and the
\* temperature; results are "half units" (odd values are not whole numbers)
Weight(i) == IF i = 1 THEN 1 ELSE IF i = 2 THEN 3 ELSE IF i = 3 THEN 9 ELSE 27
RECURSIVE Mix(_, _)
Mix(c, k) == IF k = 0 THEN 0 ELSE Weight(k) * c[k] + Mix(c, k - 1)
Val(c, m, t) == 1000 * m + 100 * t + Mix(c, NF)
Map(c, m, ts) == [k \in 1..Len(ts) |-> Val(c, m, ts[k])]
Fresh(c, m, arg) == Map(c, m, arg.val)                \* what a freshly constructed object returns
Trunc(x) == 2 * (x \div 2)                             \* storing a half-unit value in an integer buffer
Scaled(ts) == [k \in 1..Len(ts) |-> ts[k] + 10]        \* the array after T /= 1000 (another temperature)

\* ---- what the implementation returns in a given private state (no side effects here)
Answer(c, ca, me, m, r, arg) ==
   LET src == IF Impl = "cache" THEN ca ELSE c
       base == Map(src, m, arg.val)
   IN CASE Impl = "intbuffer" /\ arg.kind \in IntKinds -> [k \in 1..Len(base) |-> Trunc(base[k])]
        [] Impl = "lastcall" /\ me.m = m -> me.res
        [] Impl = "memoid" /\ r # "" /\ <<m, r>> \in DOMAIN me -> me[<<m, r>>]
        [] OTHER -> base
\* the same object asked for one scalar float temperature (no identity: a temporary)
Scalar(c, ca, me, m, t) == Answer(c, ca, me, m, "", [val |-> <<t>>, kind |-> "sflt"])

Init == /\ content \in [Fields -> Vals]
        /\ store \in InitStores
        /\ cache = content
        /\ memo = (IF Impl = "memoid" THEN <<>> ELSE NoMemo)
        /\ last = NoLast
        /\ seen = <<>>
        /\ dirty = FALSE
        /\ n = 0
        /\ h = <<[act |-> "construct", content |-> content, store |-> store]>>

Rec(step) == [act |-> step.act, i |-> step.i, v |-> step.v, m |-> step.m, r |-> step.r, arg |-> step.arg,
              same |-> (step.act # "eval" \/ step.res = Fresh(content, step.m, step.arg)),
              argsame |-> (step.act # "eval" \/ store' = store),
              statesame |-> (step.act # "eval" \/ content' = content)]

Mutate(i, v) ==
   /\ n < MaxOps
   /\ content' = [content EXCEPT ![i] = v]
   /\ cache' = (IF Impl = "cache" /\ i \notin Keyed THEN cache ELSE content')
   /\ seen' = <<>> /\ dirty' = TRUE
   /\ last' = [NoLast EXCEPT !.act = "mutate", !.i = i, !.v = v]
   /\ n' = n + 1
   /\ UNCHANGED <<store, memo>>
   /\ h' = Append(h, Rec(last'))

Eval(m, r) ==
   /\ n < MaxOps
   /\ LET arg == store[r]
          res == Answer(content, cache, memo, m, r, arg)
      IN /\ last' = [NoLast EXCEPT !.act = "eval", !.m = m, !.r = r, !.arg = arg, !.res = res]
         /\ store' = (IF Impl = "inplace" /\ arg.kind \in ArrayKinds
                      THEN [store EXCEPT ![r] = [val |-> Scaled(arg.val), kind |-> arg.kind]] ELSE store)
         /\ content' = (IF Impl = "scratch"
                        THEN [content EXCEPT ![NF] = CHOOSE x \in Vals : \A y \in Vals : x <= y] ELSE content)
         /\ memo' = (CASE Impl = "lastcall" -> [m |-> m, res |-> res]
                       [] Impl = "memoid" -> (<<m, r>> :> res) @@ memo
                       [] OTHER -> memo)
         /\ seen' = (IF <<m, arg>> \in DOMAIN seen THEN seen ELSE (<<m, arg>> :> res) @@ seen)
   /\ n' = n + 1
   /\ UNCHANGED <<cache, dirty>>
   /\ h' = Append(h, Rec(last'))

CallerWrite(r, a) ==
   /\ n < MaxOps /\ a # store[r] /\ last.act # "write"
   /\ store' = [store EXCEPT ![r] = a]
   /\ last' = [NoLast EXCEPT !.act = "write", !.r = r, !.arg = a]
   /\ n' = n + 1
   /\ UNCHANGED <<content, cache, memo, seen, dirty>>
   /\ h' = Append(h, Rec(last'))

Next == \/ \E i \in Fields, v \in Vals : Mutate(i, v)
        \/ \E m \in Methods, r \in Refs : Eval(m, r)
        \/ \E r \in Refs, a \in Args : CallerWrite(r, a)
Spec == Init /\ [][Next]_vars

\* ---- the property
TypeOK == /\ content \in [Fields -> Vals]
          /\ \A r \in Refs : store[r].kind \in Kinds /\ Len(store[r].val) >= 1
          /\ n \in 0..MaxOps /\ dirty \in BOOLEAN
IsEval == last'.act = "eval"
ArgsUntouched == [][IsEval => store' = store]_vars
StateUntouched == [][IsEval => content' = content]_vars
Repeatable == [][IsEval /\ <<last'.m, last'.arg>> \in DOMAIN seen
                   => last'.res = seen[<<last'.m, last'.arg>>]]_vars
NoHiddenState == [][IsEval /\ ~dirty => last'.res = Fresh(content, last'.m, last'.arg)]_vars
FreshAfterMutation == [][IsEval /\ dirty => last'.res = Fresh(content, last'.m, last'.arg)]_vars
ArrayIsMapOfScalar ==
   [][IsEval => /\ Len(last'.res) = Len(last'.arg.val)
                /\ \A k \in 1..Len(last'.res) :
                      last'.res[k] = Scalar(content', cache', memo', last'.m, last'.arg.val[k])[1]]_vars
IntEqualsFloat ==
   [][IsEval /\ last'.arg.kind \in IntKinds
        => last'.res = Answer(content', cache', memo', last'.m, "",
                              [val |-> last'.arg.val, kind |-> FloatOf(last'.arg.kind)])]_vars
\* the cache of the "cache" shape is what the property needs it to be
CacheFresh == Impl = "cache" => cache = content

\* ---- behaviours for the replay into the real classes
Done == n = MaxOps
EmitBehaviours == Done => PrintT(<<"BEH", h>>)
=============================================================================
