------------------------------ MODULE MC_Units ------------------------------
(***************************************************************************)
(* C12 - design model: a conversion table as a state machine.              *)
(*                                                                         *)
(* A small unit system with exact rational factors (decimetres instead of  *)
(* centimetres and the toy numbers 1 m = 3 ft, 1 atm = 5 Pa, so that       *)
(* everything fits TLC's integers) plus the four real temperature scales.  *)
(* State: the table `tab` in use and a quantity (unit, val) that a user    *)
(* keeps converting; `base` is its value in the SI unit when the behaviour *)
(* started, computed through the SAME table.  Actions:                     *)
(*   Convert(v)  - same type: the quantity is re-expressed in v;           *)
(*   Refuse(v)   - different type: refused, nothing changes.               *)
(* PathIndependent (after any chain of conversions the quantity still      *)
(* means `base`) is reflexivity + inverse + transitivity in one invariant. *)
(* DerivedAgree is the other half of the property: area = length^2,        *)
(* volume = length^3, L = 1 dm3, "L atm" = L x atm.                        *)
(*                                                                         *)
(* Variant selects how conversions are computed:                           *)
(*   "viabase"   x * F[v] / F[u], affine through Rankine for temperatures  *)
(*               (what pmutt does): every invariant holds;                 *)
(*   "inverted"  as viabase but the composite entry "L atm" holds the      *)
(*               reciprocal of its definition (the pinned pmutt table):    *)
(*               the ALGEBRA still holds - an inverted entry is a          *)
(*               perfectly consistent unit of its own - and only           *)
(*               DerivedAgree rejects it;                                  *)
(*   "pairwise"  conversions read from a pairwise matrix in which one cell *)
(*               (dm -> ft) was edited: PathIndependent rejects it;        *)
(*   "nooffset"  F -> C implemented without the 32 degree offset:          *)
(*               PathIndependent rejects it.                               *)
(***************************************************************************)
EXTENDS Units, Sequences

CONSTANTS Variant, MaxSteps

VARIABLES tab, unit, val, base, steps, refusals
vars == <<tab, unit, val, base, steps, refusals>>

ToyType == "m" :> "length" @@ "dm" :> "length" @@ "ft" :> "length"
        @@ "m2" :> "area" @@ "dm2" :> "area" @@ "ft2" :> "area"
        @@ "m3" :> "volume" @@ "dm3" :> "volume" @@ "L" :> "volume" @@ "ft3" :> "volume"
        @@ "Pa" :> "pressure" @@ "atm" :> "pressure"
        @@ "J" :> "energy" @@ "L atm" :> "energy"
        @@ "K" :> "temp" @@ "C" :> "temp" @@ "F" :> "temp" @@ "R" :> "temp"
ToyUnits == DOMAIN ToyType
SameType(u, v) == ToyType[u] = ToyType[v]

\* 1 SI unit = F[u] unit
Defined == "m" :> R(1) @@ "dm" :> R(10) @@ "ft" :> R(3)
        @@ "m2" :> R(1) @@ "dm2" :> R(100) @@ "ft2" :> R(9)
        @@ "m3" :> R(1) @@ "dm3" :> R(1000) @@ "L" :> R(1000) @@ "ft3" :> R(27)
        @@ "Pa" :> R(1) @@ "atm" :> RFrac(1, 5)
        @@ "J" :> R(1) @@ "L atm" :> R(200)
Table == IF Variant = "inverted" THEN [Defined EXCEPT !["L atm"] = RFrac(1, 200)] ELSE Defined

F == tab
ViaBase(u, v, x) == RDiv(RMul(x, F[v]), F[u])
Matrix(u, v) == IF u = "dm" /\ v = "ft" THEN RFrac(3, 100)         \* should be 3/10
                ELSE RDiv(F[v], F[u])
TempImpl(u, v, x) == IF Variant = "nooffset" /\ u = "F" /\ v = "C"
                     THEN RMul(RFrac(5, 9), x) ELSE TempConv(u, v, x)
Conv(u, v, x) ==
   IF ToyType[u] = "temp" THEN TempImpl(u, v, x)
   ELSE IF Variant = "pairwise" THEN RMul(x, Matrix(u, v))
   ELSE ViaBase(u, v, x)

\* meaning of a quantity: its value in the SI unit of its type, through the table itself
ToSI(u, x) == IF ToyType[u] = "temp" THEN RankOf(u, x) ELSE RDiv(x, F[u])

Samples == {R(1), RFrac(37, 10), R(-40), R(0)}

Init == /\ tab = Table
        /\ unit \in ToyUnits /\ val \in Samples
        /\ base = ToSI(unit, val) /\ steps = 0 /\ refusals = 0
Convert(v) == /\ steps < MaxSteps /\ SameType(unit, v)
              /\ unit' = v /\ val' = Conv(unit, v, val)
              /\ steps' = steps + 1 /\ UNCHANGED <<tab, base, refusals>>
Refuse(v) == /\ steps < MaxSteps /\ ~SameType(unit, v) /\ refusals < 1
             /\ refusals' = refusals + 1 /\ steps' = steps + 1
             /\ UNCHANGED <<tab, unit, val, base>>
Next == \E v \in ToyUnits : Convert(v) \/ Refuse(v)
Spec == Init /\ [][Next]_vars

TypeOK == unit \in ToyUnits /\ steps \in 0..MaxSteps
PathIndependent == ToSI(unit, val) = base
TypePreserved == [][ToyType[unit'] = ToyType[unit]]_vars
RefusalChangesNothing == [][refusals' # refusals => unit' = unit /\ val' = val]_vars

\* derived entries agree with their definitions
Cube(x) == RMul(x, RMul(x, x))
DerivedAgree ==
   /\ \A l \in {"m", "dm", "ft"} : F[l \o "2"] = RMul(F[l], F[l]) /\ F[l \o "3"] = Cube(F[l])
   /\ F["L"] = F["dm3"]                                       \* 1 L = 1 dm3
   /\ F["L atm"] = RMul(F["L"], F["atm"])                    \* 1 J = 1 Pa m3
\* the same laws, stated pairwise (what the trace specification evaluates on the real table)
LawsPairwise ==
   \A t \in {ToyType[u] : u \in ToyUnits} :
      LET S == {u \in ToyUnits : ToyType[u] = t} IN
      /\ Reflexive(Conv, S, Samples) /\ Inverse(Conv, S, Samples) /\ Transitive(Conv, S, Samples)
      /\ (IF t = "temp" THEN Affine(Conv, S, Samples) ELSE Proportional(Conv, S, Samples))
LawsInv == steps = 0 => LawsPairwise     \* depends on the table only: once per initial state
=============================================================================
