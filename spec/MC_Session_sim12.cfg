\* random long behaviours (tlc -simulate): chains of 6..12 round trips, printed for replay
SPECIFICATION Spec
CONSTANTS
  Workspaces <- SimWorkspaces
  MaxObjs = 6
  MaxOps = 12
  RoundMode = "nearest"
  KeepClass = TRUE
  LoseFlag = FALSE
  ThermdatAny = FALSE
  ThermdatOrder = "kept"
  RecordWs = TRUE
INVARIANT EmitBehaviours
CHECK_DEADLOCK FALSE
