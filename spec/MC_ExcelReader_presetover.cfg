\* variant "presetover": the preset overwrites keys assigned by earlier columns - EXPECTED TO BE REJECTED (RowOrder: the result depends on the column order)
SPECIFICATION Spec
CONSTANTS
  Groups <- MCGroups
  GroupSheets <- MCGroupSheets
  Variant = "presetover"
  SetName = "small"
INVARIANT KeysFunctional
INVARIANT OneRecordPerRow
INVARIANT RowOrder
INVARIANT Refines
INVARIANT CarriedEmpty
INVARIANT NoLeak
INVARIANT NoEmptyCells
INVARIANT NoRaise
INVARIANT DispatchDisjoint
INVARIANT ChainAgrees
INVARIANT InQuantifier
CHECK_DEADLOCK FALSE
