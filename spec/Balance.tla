------------------------------ MODULE Balance ------------------------------
(***************************************************************************)
(* C14 - element balance: "the check accepts exactly those reactions whose *)
(* element totals agree on both sides and at the transition state".        *)
(*                                                                         *)
(* A reaction is [re, ts, pr, hasTS]; each side a sequence of species      *)
(* [co, comp]: co the coefficient as an INTEGER number of units (tenths in *)
(* the design model, 10^-4 in recorded traces - only ratios matter), comp  *)
(* a sequence of <<element, count>> (count >= 0, an element at most once). *)
(* Totals are exact integers: Total(side, el) = sum co * count.  An absent *)
(* element and a zero total are the same thing.                            *)
(*                                                                         *)
(* Required verdict:  Balanced(r).                                         *)
(* Implementation-shaped algorithm: _count_elements accumulates a          *)
(* collections.Counter species by species, element by element; Counter's   *)
(* += keeps only positive totals.  CAdd/CVerdict model that in exact       *)
(* arithmetic (variant "counter"); variant "dict" keeps zero entries and   *)
(* compares key sets, which is what a plain dict would do and is expected  *)
(* to be rejected.  Floating point is NOT modelled: whether the code's     *)
(* float totals compare equal when the exact totals do is decided on the   *)
(* real code by the replay and the trace specification.                    *)
(***************************************************************************)
EXTENDS Integers, Sequences, FiniteSets

ElementsOfSide(side) == UNION {{side[j].comp[m][1] : m \in 1..Len(side[j].comp)} : j \in 1..Len(side)}
ElementsOf(r) == ElementsOfSide(r.re) \cup ElementsOfSide(r.pr) \cup ElementsOfSide(r.ts)
CountIn(comp, el) == IF \E m \in 1..Len(comp) : comp[m][1] = el
                     THEN comp[CHOOSE m \in 1..Len(comp) : comp[m][1] = el][2] ELSE 0
RECURSIVE Total(_, _)
Total(side, el) == IF Len(side) = 0 THEN 0
                   ELSE side[1].co * CountIn(side[1].comp, el) + Total(Tail(side), el)
Balanced(r) == \A el \in ElementsOf(r) :
                  /\ Total(r.re, el) = Total(r.pr, el)
                  /\ (r.hasTS => Total(r.re, el) = Total(r.ts, el))
CompOK(comp) == /\ \A m \in 1..Len(comp) : comp[m][2] >= 0
                /\ \A m, n \in 1..Len(comp) : m # n => comp[m][1] # comp[n][1]

\* ---- Counter-shaped accumulation: acc is a set of <<element, total>> pairs
CGet(acc, el) == IF \E p \in acc : p[1] = el THEN (CHOOSE p \in acc : p[1] = el)[2] ELSE 0
CHas(acc, el) == \E p \in acc : p[1] = el
CAdd(variant, acc, el, v) ==
   LET t == CGet(acc, el) + v
       rest == {p \in acc : p[1] # el}
   IN IF variant = "counter" THEN (IF t > 0 THEN rest \cup {<<el, t>>} ELSE rest)
      ELSE rest \cup {<<el, t>>}
CVerdict(accRe, accPr, accTs, hasTS) == accRe = accPr /\ (hasTS => accRe = accTs)

\* ---------------------------------------------------------------- bounded case families
eC == "C"  eH == "H"  eO == "O"
CH2 == <<<<eC, 1>>, <<eH, 2>>>>
C3H6 == <<<<eC, 3>>, <<eH, 6>>>>
C2H4 == <<<<eC, 2>>, <<eH, 4>>>>
H2 == <<<<eH, 2>>>>
Cs == <<<<eC, 1>>>>
O2 == <<<<eO, 2>>>>
H2O == <<<<eH, 2>>, <<eO, 1>>>>
CH2z == <<<<eC, 1>>, <<eO, 0>>, <<eH, 2>>>>
Pool == {CH2, C3H6, C2H4, H2, Cs, O2, H2O, CH2z}
Tenths == {1, 2, 3, 5, 10, 15, 20, 30}
Sp(co, comp) == [co |-> co, comp |-> comp]
S1 == {<<Sp(c, x)>> : c \in Tenths, x \in Pool}
S2 == {<<Sp(ca, a), Sp(cb, b)>> : ca \in {5, 10, 20}, cb \in {5, 10, 20},
                                  a \in {Cs, CH2, H2}, b \in {H2, C2H4, O2}}
Rxn(re, ts, pr) == [re |-> re, ts |-> ts, pr |-> pr, hasTS |-> Len(ts) > 0]
TSes == {<<Sp(10, CH2)>>, <<Sp(10, C3H6)>>, <<Sp(5, C2H4), Sp(10, Cs)>>}
\* the case set, written as a predicate so that TLC enumerates it without building one big set
InBalanceCases(x, Scope) ==
   \/ \E a \in S1, b \in S1 : x = Rxn(a, <<>>, b)
   \/ \E a \in S1, b \in S2 : x = Rxn(a, <<>>, b)
   \/ \E a \in S2, b \in S1 : x = Rxn(a, <<>>, b)
   \/ Scope = "thorough" /\ \E a \in S2, b \in S2 : x = Rxn(a, <<>>, b)
   \/ \E a \in S1, b \in S1 : x = Rxn(a, a, b)                  \* TS agrees with the reactants
   \/ \E a \in S1, b \in S1 : x = Rxn(a, b, b)                  \* TS agrees with the products
   \/ \E a \in {q \in S1 : q[1].co = 10}, b \in S1, t \in TSes : x = Rxn(a, t, b)

\* the same families as sets (case generation for the replay); the dummy parameter keeps TLC
\* from evaluating the set eagerly in every run that extends this module
S1ten == {q \in S1 : q[1].co = 10}
BalanceCases(full) ==
   {Rxn(a, <<>>, b) : a \in S1, b \in S1} \cup {Rxn(a, <<>>, b) : a \in S1, b \in S2}
   \cup {Rxn(a, a, b) : a \in S1ten, b \in S1} \cup {Rxn(a, b, b) : a \in S1ten, b \in S1}
   \cup {Rxn(a, t, b) : a \in S1ten, b \in S1, t \in TSes}
   \cup (IF full THEN {Rxn(a, <<>>, b) : a \in S2, b \in S1}
                      \cup {Rxn(a, a, b) : a \in S1, b \in S1} \cup {Rxn(a, b, b) : a \in S1, b \in S1}
          ELSE {})
=============================================================================
