--------------------------- MODULE Trace_Kinetics ---------------------------
(***************************************************************************)
(* C09 - trace validation of recorded kinetic-parameter getters.           *)
(* One NDJSON line per observation of the real library; numbers are Dec    *)
(* <<m, e>>.  Events:                                                      *)
(*  clamp   : an activation getter of ChemkinReaction / SurfaceReaction    *)
(*            (q = H | G, dimensionless or with units, dir) together with  *)
(*            the state values r, p, ts obtained from the same reaction's  *)
(*            get_*_state getters under the same keywords and units        *)
(*  bep     : BEP.get_E_act against slope, intercept and the descriptor    *)
(*            value D (kcal/mol) taken from the reaction's own getters by  *)
(*            the documented meaning of the descriptor; uf = kcal/mol ->   *)
(*            output units (the harness's own table)                       *)
(*  bepdiff : forward and reverse BEP barriers and the reaction's dH, dE   *)
(*  bepvia  : BEP barrier vs the reaction's transition-state enthalpy      *)
(*  bepuh   : BEP U and H minus the reactants' U and H                     *)
(*  A       : a pre-exponential factor; rs = reactants as <<kind, stoich>> *)
(*            (kinds of Kinetics.tla), sdA / sdB site densities, op, the   *)
(*            value again with every site density times ten (val10),       *)
(*            sensors ex = exp(x), witnesses x = dS + m, mw = mean         *)
(*            route "q" (partition-function route): only positivity and the   *)
(*            site-density power are judged (the property states the entropy  *)
(*            route); events with handed = TRUE carry the value written by    *)
(*            SurfaceReaction.to_omkm_yaml instead of the getter's            *)
(*  fresh   : after an assignment to a public attribute: what the edited    *)
(*            object answers and what a fresh object built from its current   *)
(*            attribute values answers (17-digit texts / None / raise:<type>) *)
(*  raised  : the library raised on a call the property quantifies over    *)
(* Tolerances: k = 7 for one subtraction / comparison, k = 6 where several *)
(* multiplications enter (BepRelation, AEntropyRoute, ANoTS).              *)
(***************************************************************************)
EXTENDS Kinetics, Dec, TLCExt, Json, IOUtils

TraceLog == ndJsonDeserialize(IOEnv.TRACE_FILE)
VARIABLES l

\* ---- clamp
\* With a witness record tsw (shared-BEP histories) the transition-state value is not taken from
\* the reaction but rebuilt from the species level: H_r + slope * D + intercept for H, and the same
\* minus T S_r = H_r - G_r for G (tsw.hr = H_r; tsw.gr = the reactants' value of the quantity q).
ClampClauses(e) ==
   LET wit == "tsw" \in DOMAIN e
       w1 == IF wit THEN Mul(e.tsw.slope, e.tsw.D) ELSE Zero
       tsv == IF wit THEN Add(Add(w1, e.tsw.icpt), e.tsw.gr) ELSE e.ts
       init == IF e.dir = "fwd" THEN e.r ELSE e.p
       fin == IF e.dir = "fwd" THEN e.p ELSE e.r
       delta == Sub(fin, init)
       barrier == IF e.hasTS THEN Sub(tsv, init) ELSE delta
       want == DMax(Zero, DMax(barrier, delta))
       S == (IF e.hasTS THEN {e.r, e.p, tsv} ELSE {e.r, e.p}) \cup (IF wit THEN {w1, e.tsw.icpt, e.tsw.gr} ELSE {})
       ok == CloseIn(e.val, want, S, IF wit THEN 6 ELSE 7)
       name == IF e.q = "H" THEN "ClampH" ELSE "ClampG"
   IN IF ok THEN {} ELSE {name} \cup (IF Lt(e.val, want) THEN {"NotBelowMinimum"} ELSE {})

\* ---- BEP
\* E_a = (slope * D + intercept) * uf in the native direction, ((slope - 1) * D + intercept) * uf in
\* the other one.  slope - 1 is never formed (it cancels when the slope is close to one): the
\* three products slope*D*uf, D*uf, intercept*uf are summed and all of them set the scale.
BepClauses(e) ==
   IF ~SlopeSpecified(e.desc, e.dir) THEN {}
   ELSE LET native == e.dir = Native(e.desc)
            t1 == Mul(Mul(e.slope, e.D), e.uf)
            t2 == IF native THEN Zero ELSE Mul(e.D, e.uf)
            t3 == Mul(e.icpt, e.uf)
            want == Add(Sub(t1, t2), t3)
        IN IF CloseIn(e.val, want, {t1, t2, t3}, 6) THEN {} ELSE {"BepRelation"}
BepDiffClauses(e) ==
   IF ~IsDelta(e.desc) THEN {}
   ELSE LET delta == IF UsesH(e.desc) THEN e.dH ELSE e.dE
        IN IF CloseIn(Sub(e.ef, e.er), delta, {e.ef, e.er}, 7) THEN {} ELSE {"BepDifference"}
BepViaClauses(e) ==
   IF ~ViaDemanded(e.desc, e.dir) THEN {}
   ELSE IF CloseIn(e.direct, e.via, {e.hts, e.hinit}, 7) THEN {} ELSE {"BepViaReaction"}
BepUHClauses(e) ==
   IF CloseIn(Sub(e.uts, e.ur), Sub(e.hts, e.hr), {e.uts, e.ur, e.hts, e.hr}, 7)
   THEN {} ELSE {"BepUandHSameBarrier"}

\* ---- pre-exponential factor
KbLit == <<138064852, -31>>       \* J/K   (CODATA 2014; 2018 differs by 3e-7)
HLit == <<662607004, -42>>        \* J s
RECURSIVE PowN(_, _)
PowN(x, n) == IF n = 0 THEN <<1, 0>> ELSE Mul(x, PowN(x, n - 1))
RECURSIVE FoldMin(_)
FoldMin(s) == IF Len(s) = 1 THEN s[1] ELSE DMin(s[1], FoldMin(Tail(s)))
RECURSIVE FoldMax(_)
FoldMax(s) == IF Len(s) = 1 THEN s[1] ELSE DMax(s[1], FoldMax(Tail(s)))
SdList(e) == LET sl == SiteList(e.rs) IN [i \in 1..Len(sl) |-> IF sl[i] = "surfA" THEN e.sdA ELSE e.sdB]
SigmaEff(e) == LET sd == SdList(e) IN
   CASE e.op = "sum" -> SumSeq(sd)
     [] e.op = "min" -> FoldMin(sd)
     [] e.op = "max" -> FoldMax(sd)
     [] OTHER -> e.mw
\* a surface reaction none of whose reactants is adsorbed: no site density is defined by the
\* reactants, only positivity is judged
NoSite(e) == ~AllGas(e.rs) /\ NSurf(e.rs) = 0
AClausesFull(e) ==
   LET pw == SigmaPower(e.rs)                       \* A ~ sigma^pw, pw <= 0 here
       sd == SdList(e)
       witness == /\ Close(e.kb, KbLit, 5) /\ Close(e.h, HLit, 5)
                  /\ (e.route = "entropy" => CloseIn(e.x, Add(e.dS, e.m), {e.dS, e.m}, 8))
                  /\ ((e.op = "mean" /\ Len(sd) > 0) =>
                         Close(Mul(e.mw, I(Len(sd))), SumSeq(sd), 7))
                  /\ pw <= 0 /\ (pw < 0 => Len(sd) > 0)
       sig == IF pw = 0 THEN <<1, 0>> ELSE PowN(Mul(SigmaEff(e), e.uf), -pw)
       lhs == Mul(Mul(e.val, e.h), sig)
       tfac == IF e.perT THEN <<1, 0>> ELSE e.T
       rhs == IF e.route = "entropy" THEN Mul(Mul(e.kb, tfac), e.ex) ELSE Mul(e.kb, tfac)
   IN (IF witness THEN {} ELSE {"WITNESS"})
      \cup (IF e.ok /\ e.val[1] > 0 THEN {} ELSE {"APositive"})
      \cup (IF ~e.ok \/ ~witness \/ e.route = "q" \/ Close(lhs, rhs, 6) THEN {}
            ELSE IF e.route = "entropy" THEN {"AEntropyRoute"} ELSE {"ANoTS"})
      \cup (IF ~e.ok \/ ~e.ok10 \/ Close(Mul(e.val, <<1, pw>>), e.val10, 7) THEN {}
            ELSE {"ASiteDensityPower"})
      \cup (IF e.ok /\ ~e.ok10 THEN {"APositive"} ELSE {})

AClauses(e) == IF NoSite(e) THEN (IF e.ok /\ e.val[1] > 0 THEN {} ELSE {"APositive"}) ELSE AClausesFull(e)

Clauses(e) ==
   CASE e.ev = "clamp" -> ClampClauses(e)
     [] e.ev = "bep" -> BepClauses(e)
     [] e.ev = "bepdiff" -> BepDiffClauses(e)
     [] e.ev = "bepvia" -> BepViaClauses(e)
     [] e.ev = "bepuh" -> BepUHClauses(e)
     [] e.ev = "A" -> AClauses(e)
     [] e.ev = "fresh" -> (IF e.edited = e.fresh THEN {} ELSE {"EditedEqualsFresh"})
     [] e.ev = "raised" -> {"Raises"}
     [] OTHER -> {"UnknownEvent"}

TInit == l = 1 /\ TLCSet(1, {})
TNext == /\ l <= Len(TraceLog)
         /\ LET e == TraceLog[l]  bad == Clauses(e) IN
              IF bad # {} THEN TLCSet(1, TLCGet(1) \cup {<<e.tid, l, c>> : c \in bad}) ELSE TRUE
         /\ l' = l + 1
         /\ UNCHANGED <<rx, obs, flag, edits>>
TSpec == TInit /\ rx = [kind |-> "none"] /\ obs = None /\ flag = FALSE /\ edits = 0
         /\ [][TNext]_<<l, rx, obs, flag, edits>>
Post == /\ PrintT(<<"FAILS", TLCGet(1)>>)
        /\ PrintT(<<"CONSUMED", TLCGet("stats").diameter - 1>>)
=============================================================================
