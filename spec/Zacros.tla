------------------------------- MODULE Zacros -------------------------------
(***************************************************************************)
(* X08 - pmutt.empirical.zacros.Zacros (a thin class: constructor that     *)
(* derives partition-function quantities at T0 from its inputs, to_dict,   *)
(* from_dict; everything else is inherited).  There is NO Zacros input     *)
(* writer in the library, so there is no text automaton here.              *)
(*                                                                         *)
(* Part 1 (dimensions, constant level): every reported partition function  *)
(* is a pure number.  Dimensions are vectors of DOUBLED exponents of       *)
(* <<kg, m, s, K>> so that square roots stay integral.  The rotational     *)
(* formula is a parameter: "product" (sqrt(pi I1 I2 I3), the rigid rotor   *)
(* the library documents in RigidRotor.get_q) or "maxmoment" (the shape of *)
(* the shipped code, sqrt(pi max(I))).                                     *)
(*                                                                         *)
(* Part 2 (object life cycle on exact toy numbers): one action per public  *)
(* call - Construct, ToDict, FromDict.  Inputs are scaled by powers of two *)
(* (moment k = I0_k 4^b_k, sigma = 2^a, A_st = A0 2^c) so that the derived *)
(* quantities are exact powers of two times those of the base species      *)
(* (all exponents 0): TLC computes the exponent, the driver checks         *)
(* q = ldexp(q_base, exponent) on the real object by equality (IEEE        *)
(* multiplication by a power of two, sqrt of a power of four and           *)
(* elementwise operations are exact).  Vibrational modes are ids of an     *)
(* alphabet; 0 is the zero wavenumber (narrow reading: a species has only  *)
(* real modes, or the single placeholder 0).                               *)
(***************************************************************************)
EXTENDS Integers, Sequences, FiniteSets, TLC

CONSTANTS ModeIds,     \* non-zero mode ids
          MaxModes,    \* longest list of modes
          MaxA, MaxB, MaxC,   \* largest exponents of sigma, a moment, the area
          MaxOps,
          Walk,        \* TRUE: consecutive constructions differ in one input only (behaviour generation)
          QRotRule,    \* "product" | "maxmoment"
          DictRule     \* "complete" | "noreturn" | "nowavenumbers"

\* ------------------------------------------------------------ Part 1
DAdd(x, y) == [i \in 1..4 |-> x[i] + y[i]]
DNeg(x) == [i \in 1..4 |-> -x[i]]
DSub(x, y) == DAdd(x, DNeg(y))
DTimes(n, x) == [i \in 1..4 |-> n * x[i]]
DHalf(x) == [i \in 1..4 |-> x[i] \div 2]          \* only applied to even vectors
Even(x) == \A i \in 1..4 : x[i] % 2 = 0
Pure == <<0, 0, 0, 0>>
Dkg == <<2, 0, 0, 0>>   Dm == <<0, 2, 0, 0>>   Ds == <<0, 0, 2, 0>>   DK == <<0, 0, 0, 2>>
DJ == DAdd(Dkg, DSub(DTimes(2, Dm), DTimes(2, Ds)))         \* J = kg m2 s-2
Dh == DAdd(DJ, Ds)                                          \* J s
DkB == DSub(DJ, DK)                                         \* J / K
Dc == DSub(Dm, Ds)                                          \* speed of light
Dnu == DNeg(Dm)                                             \* wavenumber
DI == DAdd(Dkg, DTimes(2, Dm))                              \* moment of inertia
DA == DTimes(2, Dm)                                         \* area per site
DTI == DSub(DTimes(2, Dh), DkB)                             \* h^2 / (8 pi^2 kB)
DimEps == DAdd(Dh, DAdd(Dc, Dnu))                           \* h c nu
DimTheta == DSub(DimEps, DkB)
DimQVibArg == DSub(DimTheta, DK)                            \* theta / T0
DimQRotLinear == DSub(DAdd(DK, DI), DTI)                    \* T0 I / T_I
DimQRotNonlinear(rule) ==                                   \* sqrt(pi X) (T0 / T_I)^(3/2)
   LET x == IF rule = "product" THEN DTimes(3, DI) ELSE DI
       r == DTimes(3, DSub(DK, DTI))                        \* (T0/T_I)^3, still doubled
   IN DAdd(DHalf(x), DHalf(r))
DimQTrans2D == DSub(DAdd(DA, DAdd(Dkg, DAdd(DkB, DK))), DTimes(2, Dh))
DimensionsOK ==
   /\ DimEps = DJ /\ DimTheta = DK /\ DimQVibArg = Pure
   /\ DTI = DAdd(DI, DK)
   /\ DimQRotLinear = Pure /\ DimQTrans2D = Pure
   /\ Even(DTimes(3, DI)) /\ Even(DTimes(3, DSub(DK, DTI)))
   /\ DimQRotNonlinear("product") = Pure
   /\ DimQRotNonlinear("maxmoment") # Pure

\* ------------------------------------------------------------ Part 2
VARIABLES inp, obj, dct, h
vars == <<inp, obj, dct, h>>

None == -1
ModeLists == {<<0>>} \cup UNION {[1..n -> ModeIds] : n \in 1..MaxModes}
GasShapes == [geom : {"linear"}, sig : 0..MaxA, mom : [1..1 -> 0..MaxB]]
             \cup [geom : {"nonlinear"}, sig : 0..MaxA, mom : [1..3 -> 0..MaxB]]
Inputs == [phase : {"S"}, geom : {"none"}, sig : {None}, mom : {<<>>}, ast : {None} \cup 0..MaxC, modes : ModeLists]
          \cup {[phase |-> "G", geom |-> g.geom, sig |-> g.sig, mom |-> g.mom, ast |-> a, modes |-> ms] :
                   g \in GasShapes, a \in {None} \cup 0..MaxC, ms \in ModeLists}

RECURSIVE SumTo(_, _)
SumTo(f, n) == IF n = 0 THEN 0 ELSE f[n] + SumTo(f, n - 1)
MaxOf(f) == CHOOSE x \in {f[i] : i \in DOMAIN f} : \A i \in DOMAIN f : f[i] <= x

\* quantities the object reports for a species (required)
Attrs(i) == {"A_st", "geometry", "symmetrynumber", "inertia", "etotal", "vib_energies", "theta", "zpe", "q_rot"}
            \cup (IF i.modes # <<0>> THEN {"q_vib"} ELSE {})
            \cup (IF i.phase = "G" THEN {"I3", "T_I"} ELSE {})
            \cup (IF i.ast # None THEN {"MW", "q_trans2D"} ELSE {})
\* log2(q_rot / q_rot(base species)); the required law and the implementation-shaped rule
QRotExpRequired(i) == IF i.geom = "linear" THEN 2 * i.mom[1] - i.sig ELSE SumTo(i.mom, 3) - i.sig
QRotExp(i) == IF i.geom = "linear" THEN 2 * i.mom[1] - i.sig
              ELSE IF QRotRule = "product" THEN SumTo(i.mom, 3) - i.sig
              ELSE MaxOf(i.mom) - i.sig
Derive(i) == [ok |-> TRUE, attrs |-> Attrs(i),
              rotZero |-> i.phase # "G",
              qrotE |-> IF i.phase = "G" THEN QRotExp(i) ELSE 0,
              qtransE |-> IF i.ast # None THEN i.ast ELSE 0,
              \* what the KNOWN deviation X08-F2 (only the largest moment) would report; used by the driver to
              \* name that deviation exactly (base moments of the replay are equal, so max(I) = I0 4^max(b))
              qrotEMax |-> IF i.phase = "G" /\ i.geom = "nonlinear" THEN MaxOf(i.mom) - i.sig ELSE 0,
              modes |-> i.modes]

\* keys a dictionary needs so that the constructor can be run again
CtorKeys == {"class", "name", "phase", "elements", "model", "misc_models", "A_st", "geometry", "symmetrynumber",
             "inertia", "vib_wavenumbers", "potentialenergy"}
ErrObj == [ok |-> FALSE, attrs |-> {}, rotZero |-> FALSE, qrotE |-> 0, qtransE |-> 0, qrotEMax |-> 0, modes |-> <<>>]
NoDict(i) == [some |-> FALSE, keys |-> {}, src |-> i]
DictOf(i) == CASE DictRule = "complete" -> [some |-> TRUE, keys |-> CtorKeys, src |-> i]
               [] DictRule = "nowavenumbers" -> [some |-> TRUE, keys |-> CtorKeys \ {"vib_wavenumbers", "potentialenergy"}, src |-> i]
               [] OTHER -> NoDict(i)                           \* "noreturn": the method returns nothing
Entry(act) == [act |-> act, inp |-> inp', obj |-> obj', keys |-> dct'.keys, isdict |-> dct'.some]

Init == /\ inp \in Inputs /\ obj = Derive(inp) /\ dct = NoDict(inp)
        /\ h = <<[act |-> "construct", inp |-> inp, obj |-> obj, keys |-> {}, isdict |-> FALSE]>>
Fields == {"phase", "geom", "sig", "mom", "ast", "modes"}
Neighbour(i, j) == \E f \in Fields : i[f] # j[f] /\ \A g \in Fields \ {f} : i[g] = j[g]
Construct(i) == /\ Len(h) < MaxOps /\ i # inp /\ (Walk => Neighbour(inp, i))
                /\ inp' = i /\ obj' = Derive(i) /\ dct' = NoDict(i)
                /\ h' = Append(h, Entry("construct"))
ToDict == /\ Len(h) < MaxOps /\ obj.ok /\ ~dct.some
          /\ dct' = DictOf(inp) /\ UNCHANGED <<inp, obj>>
          /\ h' = Append(h, Entry("to_dict"))
\* from_dict runs the constructor on what the dictionary holds
FromDict == /\ Len(h) < MaxOps /\ dct.some
            /\ obj' = IF CtorKeys \subseteq dct.keys THEN Derive(dct.src) ELSE ErrObj
            /\ UNCHANGED <<inp, dct>>
            /\ h' = Append(h, Entry("from_dict"))
Next == (\E i \in Inputs : Construct(i)) \/ ToDict \/ FromDict
Spec == Init /\ [][Next]_vars

\* one-coordinate neighbours, for the scaling laws
SameBut(i, j, field) == \A f \in {"phase", "geom", "sig", "mom", "ast", "modes"} \ {field} : i[f] = j[f]
MomentScaled(i, j, k) == /\ SameBut(i, j, "mom") /\ k \in DOMAIN i.mom /\ DOMAIN j.mom = DOMAIN i.mom
                         /\ j.mom[k] = i.mom[k] + 1 /\ \A n \in DOMAIN i.mom \ {k} : j.mom[n] = i.mom[n]

TypeOK == /\ inp \in Inputs
          /\ obj.attrs \subseteq Attrs(inp) \cup {"q_vib", "I3", "T_I", "MW", "q_trans2D"}
          /\ dct.src \in Inputs /\ dct.keys \subseteq CtorKeys
\* --- properties
QRotDimensionless == inp.geom = "nonlinear" => DimQRotNonlinear(QRotRule) = Pure
QRotLaw == obj.ok /\ inp.phase = "G" => obj.qrotE = QRotExpRequired(inp)
SurfaceHasNoRotation == obj.ok /\ inp.phase = "S" => obj.rotZero
DefinedQuantities == obj.ok => obj.attrs = Attrs(inp)
DictComplete == dct.some => CtorKeys \subseteq dct.keys /\ dct.src = inp
NeverError == obj.ok
ToDictReturnsDict == [][h'[Len(h')].act = "to_dict" /\ Len(h') > Len(h) => dct'.some]_vars
RoundTrip == [][h'[Len(h')].act = "from_dict" /\ Len(h') > Len(h) => obj' = obj]_vars
\* every principal moment enters q_rot^2 to the first power; sigma and the area enter linearly
MomentLaw == [][\A k \in 1..3 : inp.phase = "G" /\ inp'.phase = "G" /\ MomentScaled(inp, inp', k)
                   => obj'.qrotE = obj.qrotE + (IF inp.geom = "linear" THEN 2 ELSE 1)]_vars
SigmaLaw == [][inp.phase = "G" /\ inp'.phase = "G" /\ SameBut(inp, inp', "sig") /\ inp'.sig = inp.sig + 1
                   => obj'.qrotE = obj.qrotE - 1]_vars
AreaLaw == [][SameBut(inp, inp', "ast") /\ inp.ast # None /\ inp'.ast = inp.ast + 1
                   => obj'.qtransE = obj.qtransE + 1]_vars
VibOnlyLaw == [][SameBut(inp, inp', "modes") /\ inp'.modes # inp.modes
                   => obj'.qrotE = obj.qrotE /\ obj'.qtransE = obj.qtransE /\ obj'.modes = inp'.modes]_vars

Done == Len(h) = MaxOps
EmitBehaviours == Done => PrintT(<<"BEH", h>>)
=============================================================================
