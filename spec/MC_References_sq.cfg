\* 3 descriptors, compositions of real molecules with entries up to 8, <= 4 references, 2 calls: every
\* square 3 x 3 matrix of the 6 kinds (full rank and rank 2) is fitted; invariants checked and every
\* behaviour printed for replay (single worker)
SPECIFICATION Spec
CONSTANTS
  ND = 3
  RefKinds <- SqKinds
  InsKinds <- SqIns
  ExtSets <- SqExt
  InitSets <- SqInit
  MaxRefs = 4
  MaxOps = 2
  Variant = "explicit"
  Steps <- MCSteps
  Algo = "lstsq"
  Garbage = 1000
  Acts = {"remove", "setitem", "clear", "reload"}
  GivenSets <- NoGiven
  Record = TRUE
  Temps = {200, 1000}
INVARIANT NormalEquations
INVARIANT Optimal
INVARIANT Reproduces
INVARIANT FitIsContraction
INVARIANT OffsetsBounded
INVARIANT KeysAreDescriptors
INVARIANT TrefIsMean
INVARIANT MinNorm
INVARIANT ReproducesAtTref
INVARIANT EmitBehaviours
CHECK_DEADLOCK FALSE
