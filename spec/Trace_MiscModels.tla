-------------------------- MODULE Trace_MiscModels --------------------------
(***************************************************************************)
(* C13 - trace validation of recorded lifecycles and evaluations of        *)
(* empirical species (Nasa, Nasa9, Shomate) with attached models.          *)
(*                                                                         *)
(* One NDJSON line per call.  Lifecycle lines (construct / copy / deepcopy *)
(* / reload / attach) carry the arguments and `objs`, the projection of    *)
(* the misc_models list of EVERY live species after the call (kind names;  *)
(* "dict" for an entry that is still a dictionary).  `st` carries what the *)
(* specification knows: for every species its phase, the add_gas_P_adj the *)
(* user asked for, the kinds the user attached (intent), the identity of   *)
(* its list (copy.copy shares it) and the projection seen last.            *)
(*                                                                         *)
(* Clauses on lifecycle lines (MiscModels.tla, evaluated on observations): *)
(*   PAdjCount       enabled gas species carry exactly one GasPressureAdj; *)
(*                   all others exactly those the user supplied            *)
(*   UserModelsKept  the user's models are there, once, in order           *)
(*   AllDecoded      no entry is left as a dictionary                      *)
(*   OthersUntouched the call did not change what other species carry      *)
(*   ObjCount / Raises   the call produced the species it should           *)
(* Clauses on eval lines (MiscEval.tla in Dec arithmetic; k = 6, scale =   *)
(* every term of the sum):                                                 *)
(*   SumOnceCp/H/S/G value[i] = bare[i] + sum over attached models of the  *)
(*                   model's own value at T[i] and the conditions of its   *)
(*                   own name_j (the route is chosen HERE, from both       *)
(*                   logged routes)                                        *)
(*   GFollows        G[i] = H[i] - S[i] of the reported totals             *)
(*   EntropyPressure S(P)[i] - S(default P)[i] = -n ln P, n = the number   *)
(*                   of adjustments the PROPERTY expects (not the number   *)
(*                   observed); GibbsPressure likewise with +n ln P.       *)
(*                   Antecedent: no pressure-dependent probe attached.     *)
(*   ShapeCp/H/S/G   one value per temperature                             *)
(*   RaisesCp/H/S/G, Finite, ListStable (evaluation leaves the list alone) *)
(*   DimFollowsCp/H/S/G  get_Cp/H/S/G(units) = R(units) (T[i]) x the           *)
(*                   dimensionless value reported under the same conditions *)
(*   VerbosePlacement / VerboseSum  (StatMech carrier, verbose=True)        *)
(* ln P is a sensor (math.log of the logged P).  Bare values come from a   *)
(* twin species without models evaluated at scalar T; model values from    *)
(* calling each attached model object directly.                            *)
(***************************************************************************)
EXTENDS Dec, MiscEval, TLCExt, Json, IOUtils

TraceLog == ndJsonDeserialize(IOEnv.TRACE_FILE)
VARIABLES l, st

IsGas(p) == p \in {"g", "gas", "G"}
KindOf(s) == IF s = "PAdjDict" THEN "PAdj" ELSE s
Count(s, k) == Cardinality({i \in 1..Len(s) : s[i] = k})
RECURSIVE Without(_, _)
Without(s, k) == IF s = <<>> THEN <<>>
                 ELSE IF Head(s) = k THEN Without(Tail(s), k) ELSE <<Head(s)>> \o Without(Tail(s), k)
ExpectedP(o) == IF IsGas(o.phase) /\ o.flag THEN 1 ELSE Count(o.intent, "PAdj")

\* ---- expected state after a lifecycle line (s = what the specification knew before it)
NewObj(phase, flag, intent, lid) == [phase |-> phase, flag |-> flag, intent |-> intent, lid |-> lid]
After(s, e) ==
   CASE e.ev = "construct" ->
          LET int == IF e.sib THEN s.caller ELSE [i \in 1..Len(e.given) |-> KindOf(e.given[i])]
          IN [s EXCEPT !.objs = Append(@, NewObj(e.phase, e.flag, int, s.nl)),
                       !.caller = int, !.nl = @ + 1]
     [] e.ev = "copy" -> [s EXCEPT !.objs = Append(@, s.objs[e.src])]
     [] e.ev \in {"deepcopy", "reload"} ->
          [s EXCEPT !.objs = Append(@, [s.objs[e.src] EXCEPT !.lid = s.nl]), !.nl = @ + 1]
     [] e.ev = "attach" ->
          [s EXCEPT !.objs = [j \in 1..Len(s.objs) |->
              IF s.objs[j].lid = s.objs[e.src].lid
              THEN [s.objs[j] EXCEPT !.intent = Append(@, e.kind)] ELSE s.objs[j]]]
     [] OTHER -> s

\* what the species that existed before should show now
OldShouldShow(s, e, j) ==
   IF e.ev = "attach" /\ s.objs[j].lid = s.objs[e.src].lid THEN Append(s.seen[j], e.kind)
   ELSE s.seen[j]

LifeClauses(s, e) ==
   IF e.raised THEN {"Raises"} ELSE
   LET nx == After(s, e) IN
   IF Len(e.objs) # Len(nx.objs) THEN {"ObjCount"} ELSE
   UNION {
      (IF Count(e.objs[i], "PAdj") = ExpectedP(nx.objs[i]) THEN {} ELSE {"PAdjCount"})
      \cup (IF Without(e.objs[i], "PAdj") = Without(nx.objs[i].intent, "PAdj")
            THEN {} ELSE {"UserModelsKept"})
      \cup (IF Count(e.objs[i], "dict") = 0 THEN {} ELSE {"AllDecoded"})
      : i \in 1..Len(e.objs)}
   \cup (IF \A j \in 1..Len(s.objs) : e.objs[j] = OldShouldShow(s, e, j) THEN {} ELSE {"OthersUntouched"})

\* ---- evaluation
RouteAt(m, q, i) ==        \* the model's own value under the conditions of ITS name_j
   IF m.k \in {"CovB", "CovC", "P2B", "P2C"}
   THEN (IF NameJ(m.k) = "B" THEN m.cB[q][i] ELSE m.cC[q][i])
   ELSE IF m.k \in {"PAdj", "P1"} THEN m.c0[q][i]
   ELSE Zero                                      \* "dict"/unknown entries contribute nothing
SumAt(e, q, i) == LET terms == [m \in 1..Len(e.ms) |-> RouteAt(e.ms[m], q, i)]
                  IN [v |-> Add(e.bare[q][i], SumSeq(terms)),
                      s |-> {terms[m] : m \in 1..Len(terms)} \cup {e.bare[q][i]}]
SumOK(e, q) == \A i \in 1..Len(e.Ts) : LET x == SumAt(e, q, i) IN CloseIn(e.r[q][i], x.v, x.s, 6)
SumGOK(e) ==
   \A i \in 1..Len(e.Ts) :
      LET hh == SumAt(e, "H", i)  ss == SumAt(e, "S", i)
      IN CloseIn(e.r.G[i], Sub(hh.v, ss.v), hh.s \cup ss.s, 6)
NoPProbe(e) == \A m \in 1..Len(e.ms) : e.ms[m].k # "P1"
Times(n, a) == IF n = 0 THEN Zero ELSE IF n = 1 THEN a ELSE Mul(I(n), a)

EvalClauses(s, e) ==
   LET n == ExpectedP(s.objs[e.o])
       okq(q) == e.ok[q]
       shape(q) == Len(e.r[q]) = Len(e.Ts)
       good(q) == okq(q) /\ shape(q)
   IN (IF okq("Cp") THEN {} ELSE {"RaisesCp"}) \cup (IF okq("H") THEN {} ELSE {"RaisesH"})
      \cup (IF okq("S") THEN {} ELSE {"RaisesS"}) \cup (IF okq("G") THEN {} ELSE {"RaisesG"})
      \cup (IF okq("S1") /\ okq("G1") THEN {} ELSE {"RaisesDefaultP"})
      \cup (IF e.fin THEN {} ELSE {"Finite"})
      \cup (IF e.after = s.seen[e.o] /\ [m \in 1..Len(e.ms) |-> e.ms[m].k] = s.seen[e.o]
            THEN {} ELSE {"ListStable"})
      \cup (IF okq("Cp") /\ ~shape("Cp") THEN {"ShapeCp"} ELSE {})
      \cup (IF okq("H") /\ ~shape("H") THEN {"ShapeH"} ELSE {})
      \cup (IF okq("S") /\ ~shape("S") THEN {"ShapeS"} ELSE {})
      \cup (IF okq("G") /\ ~shape("G") THEN {"ShapeG"} ELSE {})
      \cup (IF good("Cp") /\ ~SumOK(e, "Cp") THEN {"SumOnceCp"} ELSE {})
      \cup (IF good("H") /\ ~SumOK(e, "H") THEN {"SumOnceH"} ELSE {})
      \cup (IF good("S") /\ ~SumOK(e, "S") THEN {"SumOnceS"} ELSE {})
      \cup (IF good("G") /\ ~SumGOK(e) THEN {"SumOnceG"} ELSE {})
      \cup (IF good("G") /\ good("H") /\ good("S")
               /\ ~(\A i \in 1..Len(e.Ts) :
                       CloseIn(e.r.G[i], Sub(e.r.H[i], e.r.S[i]), {e.r.H[i], e.r.S[i]}, 7))
            THEN {"GFollows"} ELSE {})
      \cup (IF NoPProbe(e) /\ good("S") /\ good("S1")
               /\ ~(\A i \in 1..Len(e.Ts) :
                       CloseIn(Sub(e.r.S[i], e.r.S1[i]), Neg(Times(n, e.lnP)),
                               {e.r.S[i], e.r.S1[i], e.lnP}, 6))
            THEN {"EntropyPressure"} ELSE {})
      \cup (IF NoPProbe(e) /\ good("G") /\ good("G1")
               /\ ~(\A i \in 1..Len(e.Ts) :
                       CloseIn(Sub(e.r.G[i], e.r.G1[i]), Times(n, e.lnP),
                               {e.r.G[i], e.r.G1[i], e.lnP}, 6))
            THEN {"GibbsPressure"} ELSE {})

\* ---- dimensional getters (get_Cp/get_H/get_S/get_G with units): the value with units is the
\* dimensionless value reported under the SAME conditions times R (times T[i] for H and G);
\* e.R is pmutt.constants.R(units) (the table itself is C12's subject)
DimOK(e, q, withT) ==
   Len(e.dim[q]) = Len(e.Ts) /\
   \A i \in 1..Len(e.Ts) :
      LET x == IF withT THEN Mul(Mul(e.R, e.Ts[i]), e.r[q][i]) ELSE Mul(e.R, e.r[q][i])
      IN CloseIn(e.dim[q][i], x, {x}, 6)
DimClauses(e) ==
   IF ~e.hasdim THEN {} ELSE
   LET good(q) == e.ok[q] /\ Len(e.r[q]) = Len(e.Ts) IN
   (IF e.okd.Cp /\ e.okd.H /\ e.okd.S /\ e.okd.G THEN {} ELSE {"RaisesDim"})
   \cup (IF e.okd.Cp /\ good("Cp") /\ ~DimOK(e, "Cp", FALSE) THEN {"DimFollowsCp"} ELSE {})
   \cup (IF e.okd.H /\ good("H") /\ ~DimOK(e, "H", TRUE) THEN {"DimFollowsH"} ELSE {})
   \cup (IF e.okd.S /\ good("S") /\ ~DimOK(e, "S", FALSE) THEN {"DimFollowsS"} ELSE {})
   \cup (IF e.okd.G /\ good("G") /\ ~DimOK(e, "G", TRUE) THEN {"DimFollowsG"} ELSE {})

\* ---- StatMech verbose=True: [trans, vib, rot, elec, nucl, references, misc_1 .. misc_N]; the
\* entry of model m is the model's own value (G: H - S) and the vector sums to the total
VerbAt(e, q, m) == IF q = "G" THEN Sub(RouteAt(e.ms[m], "H", 1), RouteAt(e.ms[m], "S", 1))
                   ELSE RouteAt(e.ms[m], q, 1)
VerbOK(e, q) ==
   /\ Len(e.verb[q]) = 6 + Len(e.ms)
   /\ \A m \in 1..Len(e.ms) :
         CloseIn(e.verb[q][6 + m], VerbAt(e, q, m), {VerbAt(e, q, m), e.r[q][1]}, 6)
VerbSumOK(e, q) ==
   CloseIn(SumSeq(e.verb[q]), e.r[q][1], {e.verb[q][i] : i \in 1..Len(e.verb[q])}, 6)
VerbClauses(e) ==
   IF ~e.hasverb THEN {} ELSE
   UNION {(IF ~e.okv[q] THEN {"RaisesVerbose"} ELSE
             (IF e.ok[q] /\ Len(e.r[q]) = 1 /\ ~e.misc_none /\ ~VerbOK(e, q) THEN {"VerbosePlacement"} ELSE {})
             \cup (IF e.ok[q] /\ Len(e.r[q]) = 1 /\ ~VerbSumOK(e, q) THEN {"VerboseSum"} ELSE {}))
          : q \in {"Cp", "H", "S", "G"}}

Clauses(s, e) ==
   CASE e.ev \in {"construct", "copy", "deepcopy", "reload", "attach"} -> LifeClauses(s, e)
     [] e.ev = "eval" -> EvalClauses(s, e) \cup DimClauses(e) \cup VerbClauses(e)
     [] OTHER -> {"UnknownEvent"}

Step(s, e) ==
   IF e.ev = "eval" THEN s
   ELSE IF e.raised \/ Len(e.objs) # Len(After(s, e).objs) THEN s
   ELSE [After(s, e) EXCEPT !.seen = e.objs]

Fresh == [objs |-> <<>>, seen |-> <<>>, caller |-> <<>>, nl |-> 1]
Init == l = 1 /\ st = Fresh /\ TLCSet(1, {})
Next == /\ l <= Len(TraceLog)
        /\ LET e == TraceLog[l]
               s == IF e.ev = "construct" /\ ~e.sib THEN Fresh ELSE st   \* a new trace starts here
               bad == Clauses(s, e)
           IN /\ IF bad # {} THEN TLCSet(1, TLCGet(1) \cup {<<e.tid, l, c>> : c \in bad}) ELSE TRUE
              /\ st' = Step(s, e)
        /\ l' = l + 1
Spec == Init /\ [][Next]_<<l, st>>
Post == /\ PrintT(<<"FAILS", TLCGet(1)>>)
        /\ PrintT(<<"CONSUMED", TLCGet("stats").diameter - 1>>)
=============================================================================
