\* constant-level case generation (the ASSUME writes the JSON); dummy behaviour spec
INIT DInit
NEXT DNext
CONSTANTS
  Lines <- MCLines
  Kinds <- AllKinds
  MaxLen = 0
  Cuts <- MCCuts
  Pat <- MCPat
  Variant = "impl"
CHECK_DEADLOCK FALSE
