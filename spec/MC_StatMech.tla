---------------------------- MODULE MC_StatMech ----------------------------
EXTENDS StatMech, Json, IOUtils, SequencesExt
MinusTwoHundred == -200
MCWN == {MinusTwoHundred, 0, 100, 3000}
MCWNsmall == {MinusTwoHundred, 100, 3000}
MCSUBS == {0, 50}
View == <<wn, sub, valid, stale, Len(h)>>
ASSUME AggregatorOK
ASSUME PressureOnlyTrans
ASSUME OptionsOK
EmitCases == IF "OUT_FILE" \in DOMAIN IOEnv
             THEN LET seq == SetToSeq(Configs) IN JsonSerialize(IOEnv.OUT_FILE, [c \in DOMAIN seq |-> Case(seq[c])])
             ELSE TRUE
ASSUME EmitCases
=============================================================================
