------------------------- MODULE MC_OmkmRange_cases -------------------------
(* (S->C) the finite case set replayed into the real _get_omkm_range: every  *)
(* collection (sequence: order and duplicates matter) of                      *)
(*   <= 2 identifiers over 6 heads x 8 numbers x 4 printed widths + 13 others *)
(*   (letters, signs, blank, digits of other scripts as code points),         *)
(*   3 identifiers over 3 heads x 4 numbers x 2 widths,                       *)
(*   4-5 identifiers over {a_0001, a_0002, a_0003, b_0002}.                   *)
(* Each case carries what TLC computed: `must` (every identifier is in the    *)
(* form the function must accept, so the call may not raise) and `n` (the     *)
(* number of distinct identifiers the output has to denote).  The quick tier   *)
(* replays a rotating quarter of the set (by seed), the thorough tier all.     *)
EXTENDS OmkmRangeText, TLC, Json, IOUtils
DELIM == 95
HNone == <<>>
HEmpty == <<95>>
HA == <<97, 95>>
HAB == <<97, 95, 98, 95>>
HUU == <<95, 95>>
HA1 == <<97, 49, 95>>                \* a1_ : ends in a digit, `a` is a prefix of it
U(heads, nums, widths) == {hd \o Pad(n, w) : hd \in heads, n \in nums, w \in widths}
U2 == U({HNone, HEmpty, HA, HAB, HUU, HA1}, {0, 1, 2, 3, 9, 10, 100, 99999}, {1, 2, 4, 5})
      \cup {<<97, 95, 120>>, <<97, 95>>, <<97, 98, 99>>}          \* a_x  a_  abc
      \cup {<<97, 95, 43, 50>>, <<97, 95, 32, 50>>, <<97, 95, 45, 50>>,      \* a_+2  a_ 2  a_-2
            <<97, 95, 49, 101, 49>>,                                        \* a_1e1
            <<97, 95, 1634>>, <<97, 95, 2409>>,                             \* a_ + ARABIC-INDIC 2, DEVANAGARI 3
            <<97, 95, 65296, 65296, 65296, 65298>>,                         \* a_ + FULLWIDTH 0002
            <<97, 95, 49, 1632>>, <<97, 95, 178>>,                          \* a_1 + ARABIC-INDIC 0; a_ + SUPERSCRIPT 2
            <<65296, 65296, 65296, 65297>>}                                 \* FULLWIDTH 0001 alone
U3 == U({HNone, HEmpty, HA}, {1, 2, 3, 5}, {1, 4})
U5 == U({HA}, {1, 2, 3}, {4}) \cup {<<98, 95, 48, 48, 48, 50>>}
Seqs(S, lo, hi) == UNION {[1..k -> S] : k \in lo..hi}
Collections == Seqs(U2, 0, 2) \cup Seqs(U3, 3, 3) \cup Seqs(U5, 4, 5)
Cases == {[ids |-> s,
           must |-> \A k \in 1..Len(s) : MustAccept(s[k], DELIM),
           n |-> Cardinality(SeqToSet(s))] : s \in Collections}
ASSUME JsonSerialize(IOEnv.OUT_FILE, SX!SetToSeq(Cases))
VARIABLE dummy
Init == dummy = 0
Next == UNCHANGED dummy
=============================================================================
