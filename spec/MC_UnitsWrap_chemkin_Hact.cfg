\* C04 design model, wrapper variant "chemkin_Hact" - EXPECTED TO BE REJECTED (Refines)
SPECIFICATION Spec
CONSTANTS
  Variant = "chemkin_Hact"
INVARIANT TypeOK
INVARIANT WellFormed
INVARIANT Refines
CHECK_DEADLOCK FALSE
