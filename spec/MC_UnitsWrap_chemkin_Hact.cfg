\* C04 design model, wrapper variant "chemkin_Hact" - EXPECTED TO BE REJECTED (Refines)
SPECIFICATION Spec
CONSTANTS
  Variant = "chemkin_Hact"
  ShomateOwn <- MCShomateOwn
  ClassFilter <- MCChemkin
INVARIANT TypeOK
INVARIANT WellFormed
INVARIANT Refines
CHECK_DEADLOCK FALSE
