\* case generation + constant-level theorems; the state space is one trivial state
SPECIFICATION Spec
CONSTANTS
  Vals <- MCVals
  Slopes2 <- MCSlopes2
  Icpts <- MCIcpts
  Variant = "required"
  Kinds = {}
CHECK_DEADLOCK FALSE
