\* case generation + constant-level theorems; the state space is one trivial state
SPECIFICATION Spec
CONSTANTS
  Vals <- MCVals
  Slopes2 <- MCSlopes2
  Icpts <- MCIcpts
  Variant = "required"
  Kinds = {}
  MaxEdits = 0
CHECK_DEADLOCK FALSE
