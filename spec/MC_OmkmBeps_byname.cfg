\* collection by the name at collection time: EXPECTED TO BE REJECTED (unnamed BEPs collapse into the first)
SPECIFICATION Spec
CONSTANTS
  N = 4
  NB = 3
  UserNames = {"b_0000", "b_0001", "NH-H"}
  Variant = "by_name"
INVARIANT EachBepOnce
INVARIANT BepNamesUnique
INVARIANT UserNamesKept
CHECK_DEADLOCK FALSE
