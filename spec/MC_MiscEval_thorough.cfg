\* thorough tier: lists of up to 4 attached models
INIT DInit
NEXT DNext
CONSTANTS
  MaxLen = 4
  EvalAlg = "persum"
  Extra = FALSE
  AlgFams = {"Nasa", "Nasa9", "Shomate"}
CHECK_DEADLOCK FALSE
