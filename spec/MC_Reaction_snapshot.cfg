\* defective variant "snapshot" (coefficients copied at assignment): EXPECTED TO BE REJECTED by EditedEqualsFresh
SPECIFICATION Spec
CONSTANTS
  Rxns <- RxnSmall
  KwParts <- KwSmall
  ProbeNames <- MCProbeNames
  ProbeBlocks <- MCProbeBlocks
  Variant = "snapshot"
  MaxCalls = 2
  MaxEdits = 1
  EditCoefs <- MCEditCoefs
  EditNames <- MCEditNames
INVARIANT TypeOK
INVARIANT EditedEqualsFresh
INVARIANT ResultOK
INVARIANT ActWithoutTSRefused
PROPERTY CallerUntouched
CHECK_DEADLOCK FALSE
