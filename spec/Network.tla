------------------------------ MODULE Network ------------------------------
(***************************************************************************)
(* X02 - design model of pmutt.reaction.network.Network.                   *)
(*                                                                         *)
(* One behaviour = one network object: it is built from its reactions      *)
(* (update_network, one reaction per step, implementation-shaped: nodes    *)
(* and edges are added one at a time and node attributes are overwritten   *)
(* by the last reaction that mentions the node), then queried once         *)
(* (get_min_E_span / plot_coordinate_diagram: source, targets, cutoff).    *)
(* The query is answered the way the library answers it: the stack-based   *)
(* depth-first enumeration of networkx.all_simple_paths (one loop          *)
(* iteration per step: a stack of neighbour iterators, the current path,   *)
(* pruning when no target remains outside the path, the bound on the       *)
(* number of EDGES), then first-arg-max / first-arg-min span per           *)
(* enumerated path and the least of these.                                 *)
(* The invariants compare this with the REQUIRED relations of              *)
(* NetworkDefs.tla (G1-G3, P1, P2, S1, S2).                                *)
(*                                                                         *)
(* Variant (implementation-shaped variants, next to the required one):     *)
(*   "ok"         include_TS honoured; networkx is given cutoff - 1 edges  *)
(*                for a cutoff of `cutoff` states.                         *)
(*   "ignoreflag" update_network ignores include_TS (pinned code): the     *)
(*                transition states stay in the graph.  MC_Network_        *)
(*                ignoreflag.cfg is expected to be REJECTED (GraphIs-      *)
(*                Network).                                                *)
(*   "edgecutoff" the documented "maximum number of states" is handed to   *)
(*                networkx unchanged, where it bounds the number of edges  *)
(*                (pinned code): pathways of cutoff + 1 states.            *)
(*                MC_Network_edgecutoff.cfg is expected to be REJECTED     *)
(*                (CutoffStates).                                          *)
(* Order = "asc" | "desc": the order in which a node's neighbours are      *)
(* iterated (networkx: insertion order); the set found must not depend on  *)
(* it.                                                                     *)
(***************************************************************************)
EXTENDS NetworkDefs, SequencesExt

CONSTANTS Networks,      \* set of well-formed reaction sequences
          Cutoffs,       \* cutoff values offered to a query; 0 = not given
          EVals,         \* state energies
          EndAtTS,       \* may the source / a target be a transition state?
          MaxTargets,    \* largest number of targets of a query
          Variant, Order

VARIABLES pc,            \* "build" | "built" | "dfs" | "done"
          rxns, inc,     \* the reactions; the include_TS argument of update_network
          k,             \* next reaction to be added
          nodes, edges,  \* the graph attribute
          ists,          \* node attribute is_transition_state
          q,             \* the query [s, T, c]
          stack, cur,    \* depth-first search: neighbour iterators; nodes of the current path
          found,         \* pathways yielded so far, in order
          out            \* [en, spans, min] once the query has been answered
vars == <<pc, rxns, inc, k, nodes, edges, ists, q, stack, cur, found, out>>

NeighSeq(n) ==
   LET S == {m \in nodes : {n, m} \in edges} IN
   IF Order = "asc" THEN SetToSortSeq(S, LAMBDA a, b : a < b)
   ELSE SetToSortSeq(S, LAMBDA a, b : a > b)

Init ==
   /\ pc = "build" /\ rxns \in Networks /\ inc \in BOOLEAN /\ k = 1
   /\ nodes = {} /\ edges = {} /\ ists = <<>>
   /\ q = <<>> /\ stack = <<>> /\ cur = <<>> /\ found = <<>> /\ out = <<>>

\* ---- update_network: for reaction in self.reactions: add_node x 2 or 3, add_edge x 1 or 2
AddReaction ==
   /\ pc = "build" /\ k <= Len(rxns)
   /\ LET x == rxns[k]
          useTS == x[3] # 0 /\ (inc \/ Variant = "ignoreflag")
          new == {x[1], x[2]} \cup (IF useTS THEN {x[3]} ELSE {})
      IN /\ nodes' = nodes \cup new
         /\ ists' = [n \in nodes \cup new |->
                        IF n \in new THEN (useTS /\ n = x[3]) ELSE ists[n]]   \* last writer wins
         /\ edges' = edges \cup (IF useTS THEN {{x[1], x[3]}, {x[2], x[3]}} ELSE {{x[1], x[2]}})
   /\ k' = k + 1
   /\ UNCHANGED <<pc, rxns, inc, q, stack, cur, found, out>>
BuildDone ==
   /\ pc = "build" /\ k > Len(rxns) /\ pc' = "built"
   /\ UNCHANGED <<rxns, inc, k, nodes, edges, ists, q, stack, cur, found, out>>

\* ---- a query: all_simple_paths(graph, source, targets, cutoff)
Ends == IF EndAtTS THEN nodes ELSE {n \in nodes : ~ists[n]}
EdgeBound(c) == IF c = 0 THEN Cardinality(nodes) - 1
                ELSE IF Variant = "edgecutoff" THEN c ELSE c - 1
Query ==
   /\ pc = "built"
   /\ \E s \in Ends : \E T \in SUBSET (Ends \ {s}) : \E c \in Cutoffs :
         /\ T # {} /\ Cardinality(T) <= MaxTargets
         /\ q' = [s |-> s, T |-> T, c |-> c]
         /\ stack' = <<<<s>>>> /\ cur' = <<>> /\ found' = <<>>
   /\ pc' = "dfs"
   /\ UNCHANGED <<rxns, inc, k, nodes, edges, ists, out>>

\* one iteration of `while stack:` in networkx _all_simple_edge_paths
DfsStep ==
   /\ pc = "dfs" /\ stack # <<>>
   /\ LET top == stack[Len(stack)]
          cand == SelectSeq(top, LAMBDA n : n \notin RangeOf(cur))
      IN IF cand = <<>>
         THEN /\ stack' = SubSeq(stack, 1, Len(stack) - 1)
              /\ cur' = IF cur = <<>> THEN <<>> ELSE SubSeq(cur, 1, Len(cur) - 1)
              /\ found' = found
         ELSE LET n == cand[1]
                  stack1 == [stack EXCEPT ![Len(stack)] = Tail(cand)]
              IN /\ found' = IF n \in q.T THEN Append(found, Append(cur, n)) ELSE found
                 /\ IF Len(cur) < EdgeBound(q.c) /\ (q.T \ RangeOf(cur)) \ {n} # {}
                    THEN cur' = Append(cur, n) /\ stack' = Append(stack1, NeighSeq(n))
                    ELSE cur' = cur /\ stack' = stack1
   /\ UNCHANGED <<pc, rxns, inc, k, nodes, edges, ists, q, out>>

\* get_E_span per enumerated path (numpy.argmax / argmin: first extremum), numpy.amin
First(S) == CHOOSE x \in S : \A y \in S : x <= y
ImplSpan(G) == Ex!SpanAt(G, First(Ex!ArgMaxs(G, ILe)), First(Ex!ArgMins(G, ILe)), IAdd, ISub, 0)
LeastOf(s) == CHOOSE v \in RangeOf(s) : \A w \in RangeOf(s) : v <= w
Answer ==
   /\ pc = "dfs" /\ stack = <<>>
   /\ \E en \in [nodes -> EVals] :
         LET sp == [i \in 1..Len(found) |-> ImplSpan(PathEnergies(en, found[i]))]
         IN out' = [en |-> en, spans |-> sp, min |-> IF found = <<>> THEN -1 ELSE LeastOf(sp)]
   /\ pc' = "done"
   /\ UNCHANGED <<rxns, inc, k, nodes, edges, ists, q, stack, cur, found>>
Idle == pc = "done" /\ UNCHANGED vars

Next == AddReaction \/ BuildDone \/ Query \/ DfsStep \/ Answer \/ Idle
Spec == Init /\ [][Next]_vars

\* ------------------------------------------------------------------------
\* the required relations on the design model
\* ------------------------------------------------------------------------
\* G1-G3
GraphIsNetwork ==
   pc # "build" => /\ nodes = NodesOf(rxns, inc)
                   /\ edges = EdgesOf(rxns, inc)
                   /\ {n \in nodes : ists[n]} = TSOf(rxns, inc)
\* P1: nothing invalid is ever yielded ...
FoundSound ==
   pc \in {"dfs", "done"} /\ found # <<>> =>
      IsPathway(nodes, edges, q.s, q.T, found[Len(found)])
\* P2 (before P1-completeness in the cfg: it names the cutoff defect)
CutoffStates ==
   pc = "done" /\ q.c # 0 => \A i \in 1..Len(found) : Len(found[i]) <= q.c
\* ... each once, none missing
FoundExact ==
   pc = "done" =>
      LET R == Pathways(nodes, edges, q.s, q.T, q.c) IN
      RangeOf(found) = R /\ Len(found) = Cardinality(R)
\* S1, S2
SpanDefinition ==
   pc = "done" => \A i \in 1..Len(found) : out.spans[i] \in PathSpans(out.en, found[i])
MinSpan ==
   pc = "done" /\ found # <<>> => MinSpanOK(out.min, RangeOf(found), out.en)
\* the search holds a simple path at all times
CurSimple ==
   pc = "dfs" => cur = <<>> \/ (IsSimplePath(nodes, edges, cur) /\ cur[1] = q.s)
=============================================================================
