\* one behaviour per transition of the reachable graph of a small instance (printed for replay):
\* 3 phase objects (gas, interface, interface), 2 species, lists <= 2, <= 4 calls
SPECIFICATION SpecEmit
CONSTANTS
  PhaseObj <- P3
  KindOf <- Kinds3
  Species <- S2
  GivenLists <- Given2
  MaxLen = 2
  MaxOps = 4
  Variant = "fresh"
  ElemOf <- Elem2
  CacheVariant = "none"
  OwnerVariant = "keep"
VIEW ViewDepth
CHECK_DEADLOCK FALSE
