\* the tables of the pinned source (registry, to_dict/from_dict keys, remove_class popping in
\* place): TLC is expected to REJECT this configuration
SPECIFICATION Spec
CONSTANTS
  Variant = "pinned"
  MaxDepth = 2
  MaxLife = 4
  Roots <- AllRoots
INVARIANT TypeOK
INVARIANT RegistryTotal
INVARIANT NoRaise
INVARIANT SameClassTree
INVARIANT AttrsKept
INVARIANT DictUntouched
INVARIANT Repeatable
INVARIANT Idempotent
CHECK_DEADLOCK FALSE
