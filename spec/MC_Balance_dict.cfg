\* a plain dict instead of a Counter (zero entries kept): EXPECTED TO BE REJECTED
SPECIFICATION Spec
CONSTANTS
  Variant = "dict"
  Scope = "quick"
INVARIANT Requirement
CHECK_DEADLOCK FALSE
