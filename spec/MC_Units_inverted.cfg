\* ... only the derived-entry clause rejects it: expected violation of DerivedAgree
SPECIFICATION Spec
CONSTANTS
  Variant = "inverted"
  MaxSteps = 3
INVARIANT DerivedAgree
CHECK_DEADLOCK FALSE
