\* EXPECTED TO BE REJECTED (sensitivity): a block is matched by name in key: CO2_kwargs reaches O2
SPECIFICATION Spec
CONSTANTS
  Worlds <- Small
  V <- VContains
INVARIANT TypeOK
INVARIANT SpecieFaithful
INVARIANT BlockKeysRemoved
INVARIANT FormatFaithful
INVARIANT FormatCount
INVARIANT DictFaithful
INVARIANT IterFaithful
INVARIANT AttrFaithful
INVARIANT CallerUntouched
CHECK_DEADLOCK FALSE
