----------------------------- MODULE CovEffect -----------------------------
(***************************************************************************)
(* C17 - pmutt.mixture.cov.PiecewiseCovEffect as a state machine.          *)
(*                                                                         *)
(* Abstract state: parallel sequences of breakpoints `iv` and slopes `sl`  *)
(* and the derived intercepts `ic`.  Breakpoints live on a dyadic grid     *)
(* (integers standing for multiples of 1/Q) and slopes are integers, so    *)
(* every value of the real object is exact in binary floating point and    *)
(* the replay compares by equality.  Intercepts are stored times Q.        *)
(*                                                                         *)
(* Required behaviour (the property):                                      *)
(*   InsertOK  - breakpoints stay ascending, the (breakpoint, slope) pairs *)
(*               are the old ones plus the new one, old order kept;        *)
(*   PopOK     - removes exactly pair i (i = 0 refused; a negative i       *)
(*               counts from the end like a Python list index);            *)
(*   invariants Ascending, Paired, FirstIsZero, InterceptsFresh,           *)
(*   ZeroAtZero, Continuous, Unique (the function is the integral of the   *)
(*   slopes).                                                              *)
(* Implementation-shaped algorithm: Pos(variant, iv, x) is where the code  *)
(* puts the new pair.  "argmax" is numpy.argmax(x < intervals) as in the   *)
(* pinned source (0 when no breakpoint exceeds x); "bisect" is the         *)
(* position after every breakpoint <= x.  TLC checks that the algorithm    *)
(* refines the requirement; h records the behaviour for replay.            *)
(***************************************************************************)
EXTENDS Integers, Sequences, FiniteSets, TLC

CONSTANTS Grid,      \* breakpoints that can be inserted (integers, unit 1/Q)
          Slopes,    \* slopes that can be used
          MaxLen,    \* bound on the number of breakpoints
          MaxOps,    \* bound on the number of edits in a behaviour
          Variant,   \* "argmax" | "bisect"
          Sharing,   \* who shares its breakpoint/slope lists with the live object (everything but "copy" is a named
                     \* variant that is expected to be rejected):
                     \*   "copy"      nobody: to_dict, from_dict and the constructor all copy;
                     \*   "alias"     the object a reload was made from (to_dict hands out its own lists);
                     \*   "dictalias" the serialised record a reload was made from (from_dict / the constructor keep the
                     \*               lists they are given) - and with it every other object loaded from that record;
                     \*   "ctoralias" a second object constructed from the same argument lists
          InitSets   \* set of initial breakpoint sequences

VARIABLES iv, sl, ic, h,
          frozen    \* things left behind that must never change again: [1] a second object constructed from the
                    \* same arguments, then per Reload the object that was serialised and the serialised record
vars == <<iv, sl, ic, h, frozen>>

RECURSIVE Intercepts(_, _, _)
\* _set_intercepts: ic[1] = 0, ic[i] = sl[i-1]*iv[i] + ic[i-1] - sl[i]*iv[i]
Intercepts(ivs, sls, k) ==
   IF k = 0 THEN <<>>
   ELSE IF k = 1 THEN <<0>>
   ELSE LET prev == Intercepts(ivs, sls, k - 1)
        IN Append(prev, sls[k - 1] * ivs[k] + prev[k - 1] - sls[k] * ivs[k])
Recompute(ivs, sls) == Intercepts(ivs, sls, Len(ivs))

InsertAt(s, p, x) == SubSeq(s, 1, p) \o <<x>> \o SubSeq(s, p + 1, Len(s))   \* after p elements
RemoveAt(s, i) == SubSeq(s, 1, i - 1) \o SubSeq(s, i + 1, Len(s))             \* 1-based

IsAscending(s) == \A i \in 1..(Len(s) - 1) : s[i] <= s[i + 1]

\* ---- where the implementation inserts (0-based count of elements kept in front)
FirstGreater(ivs, x) == IF \E i \in 1..Len(ivs) : x < ivs[i]
                        THEN CHOOSE i \in 1..Len(ivs) : x < ivs[i] /\ \A j \in 1..(i - 1) : ~(x < ivs[j])
                        ELSE 0
Pos(variant, ivs, x) ==
   IF variant = "argmax"
   THEN (IF FirstGreater(ivs, x) = 0 THEN 0 ELSE FirstGreater(ivs, x) - 1)
   ELSE Cardinality({i \in 1..Len(ivs) : ivs[i] <= x})

\* ---- the requirement on an insertion
InsertOK(oiv, osl, niv, nsl, x, s) ==
   /\ Len(niv) = Len(oiv) + 1 /\ Len(nsl) = Len(niv)
   /\ IsAscending(niv)
   /\ \E p \in 0..Len(oiv) : niv = InsertAt(oiv, p, x) /\ nsl = InsertAt(osl, p, s)
PyIndex(i, n) == IF i < 0 THEN i + n ELSE i      \* a python list index counted from the end when negative
PopOK(oiv, osl, niv, nsl, i0) ==      \* i0 is the 0-based python index, 1 <= i0 < n or -(n-1) <= i0 <= -1
   LET i == PyIndex(i0, Len(oiv)) IN
   /\ i >= 1 /\ i < Len(oiv)
   /\ niv = RemoveAt(oiv, i + 1) /\ nsl = RemoveAt(osl, i + 1)

\* ---- evaluation (times Q): get_UoRT's interval lookup
Index(ivs, x) == IF FirstGreater(ivs, x) = 0 THEN Len(ivs) ELSE FirstGreater(ivs, x) - 1
EvalQ(ivs, sls, ics, x) == LET i == IF Index(ivs, x) = 0 THEN Len(ivs) ELSE Index(ivs, x)
                           IN sls[i] * x + ics[i]
\* the function defined directly: integral of the slope from 0 to x
RECURSIVE Integral(_, _, _, _)
Integral(ivs, sls, x, k) ==      \* contribution of intervals k..Len
   IF k > Len(ivs) THEN 0
   ELSE LET lo == ivs[k]
            hi == IF k = Len(ivs) THEN x ELSE (IF ivs[k + 1] < x THEN ivs[k + 1] ELSE x)
        IN (IF x > lo /\ hi > lo THEN sls[k] * (hi - lo) ELSE 0) + Integral(ivs, sls, x, k + 1)
F(ivs, sls, x) == Integral(ivs, sls, x, 1)

\* ---- behaviours
Rec(a, x, s) == [act |-> a, x |-> x, s |-> s, iv |-> iv', sl |-> sl', ic |-> ic']
\* what an edit of the live object does to the objects left behind
\* (an edit writes through to whatever shares the lists; the intercepts of the other holder stay as they were)
TouchIdx == CASE Sharing = "alias" /\ Len(frozen) > 1 -> Len(frozen) - 1
              [] Sharing = "dictalias" /\ Len(frozen) > 1 -> Len(frozen)
              [] Sharing = "ctoralias" /\ Len(frozen) = 1 -> 1     \* until the first reload replaces the live object
              [] OTHER -> 0
Touch == IF TouchIdx > 0
         THEN frozen' = [frozen EXCEPT ![TouchIdx] = [iv |-> iv', sl |-> sl', ic |-> @.ic]]
         ELSE UNCHANGED frozen

Init == /\ iv \in InitSets
        /\ sl \in [1..Len(iv) -> Slopes]
        /\ ic = Recompute(iv, sl)
        /\ h = <<[act |-> "construct", x |-> 0, s |-> 0, iv |-> iv, sl |-> sl, ic |-> ic]>>
        /\ frozen = <<[iv |-> iv, sl |-> sl, ic |-> ic]>>            \* the sibling built from the same arguments

Insert(x, s) == /\ Len(iv) < MaxLen /\ Len(h) <= MaxOps
                /\ LET p == Pos(Variant, iv, x) IN
                     /\ iv' = InsertAt(iv, p, x)
                     /\ sl' = InsertAt(sl, p, s)
                /\ ic' = Recompute(iv', sl')
                /\ h' = Append(h, Rec("insert", x, s))
                /\ Touch
Pop(i) == /\ Len(h) <= MaxOps /\ i >= 1 /\ i < Len(iv)
          /\ iv' = RemoveAt(iv, i + 1) /\ sl' = RemoveAt(sl, i + 1)
          /\ ic' = Recompute(iv', sl')
          /\ h' = Append(h, Rec("pop", i, 0))
          /\ Touch
\* pop(-j): the j-th pair from the end, i.e. python's list.pop(-j); -Len(iv) (the first pair) is not offered
PopNeg(j) == /\ Len(h) <= MaxOps /\ j >= 1 /\ j < Len(iv)
             /\ LET i == Len(iv) - j IN iv' = RemoveAt(iv, i + 1) /\ sl' = RemoveAt(sl, i + 1)
             /\ ic' = Recompute(iv', sl')
             /\ h' = Append(h, Rec("pop", 0 - j, 0))
             /\ Touch
PopZero == /\ Len(h) <= MaxOps /\ h[Len(h)].act # "pop0"
           /\ UNCHANGED <<iv, sl, ic, frozen>>           \* refused: ValueError, no change
           /\ h' = Append(h, Rec("pop0", 0, 0))
Reload == /\ Len(h) <= MaxOps /\ h[Len(h)].act # "reload"
          /\ UNCHANGED <<iv, sl>> /\ ic' = Recompute(iv, sl)
          /\ h' = Append(h, Rec("reload", 0, 0))
          \* the old object and the serialised record (it carries the intercepts too) stay behind
          /\ frozen' = frozen \o <<[iv |-> iv, sl |-> sl, ic |-> ic], [iv |-> iv, sl |-> sl, ic |-> ic]>>

Next == \/ \E x \in Grid, s \in Slopes : Insert(x, s)
        \/ \E i \in 1..MaxLen : Pop(i) \/ PopNeg(i)
        \/ PopZero \/ Reload
Spec == Init /\ [][Next]_vars

\* ---- properties
Ascending == IsAscending(iv)
Paired == Len(iv) = Len(sl) /\ Len(ic) = Len(iv)
FirstIsZero == Len(iv) >= 1 /\ iv[1] = 0
InterceptsFresh == ic = Recompute(iv, sl)
Points == Grid \cup {0} \cup {MaxInt + 1 : MaxInt \in Grid}
ZeroAtZero == EvalQ(iv, sl, ic, 0) = 0
Continuous == \A k \in 2..Len(iv) : sl[k - 1] * iv[k] + ic[k - 1] = sl[k] * iv[k] + ic[k]
Unique == \A x \in Points : EvalQ(iv, sl, ic, x) = F(iv, sl, x)
TypeOK == /\ iv \in Seq(Int) /\ sl \in Seq(Int) /\ ic \in Seq(Int)

\* serialising and reloading leaves the original unchanged - also by later edits of the reloaded copy
FrozenUntouched == [][\A i \in 1..Len(frozen) : frozen'[i] = frozen[i]]_vars
FrozenConsistent == \A i \in 1..Len(frozen) : frozen[i].ic = Recompute(frozen[i].iv, frozen[i].sl)

\* the algorithm refines the requirement (action properties)
InsertRefines == [][h'[Len(h')].act = "insert" =>
                      InsertOK(iv, sl, iv', sl', h'[Len(h')].x, h'[Len(h')].s)]_vars
PopRefines == [][h'[Len(h')].act = "pop" => PopOK(iv, sl, iv', sl', h'[Len(h')].x)]_vars

\* behaviours for replay: printed once per complete behaviour
Done == Len(h) = MaxOps + 1
EmitBehaviours == Done => PrintT(<<"BEH", h>>)
=============================================================================
