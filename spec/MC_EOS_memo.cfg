\* C20 design model, selection "isreal", get_Vm memoised with key (T, P, a, b): must pass
SPECIFICATION Spec
CONSTANTS
  RootVals <- MCRoots
  ReVals <- MCRe
  ImVals <- MCIm
  Pressures <- MCPressures
  Amounts <- MCAmounts
  IdealRTs <- MCIdealRTs
  Memo = "state_and_params"
  Variant = "isreal"
INVARIANT OnEquation
INVARIANT OracleMatches
INVARIANT ScanComplete
INVARIANT Selected
INVARIANT IdealLimit
PROPERTY RoundTrip
PROPERTY LinearInN
VIEW MCView
CHECK_DEADLOCK FALSE
