----------------------------- MODULE ChemkinEq -----------------------------
(***************************************************************************)
(* C06 - reaction equations of Chemkin mechanism files as TEXT (sequences  *)
(* of character codes): the printer the writers use and the reader the     *)
(* property needs (the specification's own, not pmutt's).                  *)
(*                                                                         *)
(* A side is a sequence of terms <<coef, name>>, coef a positive integer   *)
(* and name a non-empty sequence of character codes.  PrintEq writes       *)
(*    [coef]name (sd [coef]name)* rd [coef]name (sd [coef]name)*           *)
(* with the coefficient omitted when it is 1 (Reaction.to_string with      *)
(* stoich_format '.0f').  ParseEq is the meaning of such a line in a       *)
(* Chemkin file: one reaction delimiter (a maximal run of the characters   *)
(* < = > that contains =), sides split at +, blanks around terms ignored,  *)
(* leading decimal digits of a term are its coefficient, the rest is the   *)
(* species name (non-empty, no blanks).  A species that occurs twice in a  *)
(* side counts with the sum of its coefficients (Bag).                     *)
(*                                                                         *)
(* Narrow reading (the quantifier is silent): species names do not start   *)
(* with a digit and contain none of + < = > blank.  ReadBackOK is checked  *)
(* exhaustively by the design model over its name pool; a pool with a name *)
(* that starts with a digit is the cfg that TLC must reject.               *)
(***************************************************************************)
EXTENDS Text, FiniteSets

PlusC == 43
IsRDelimC(c) == c = 60 \/ c = 61 \/ c = 62          \* <  =  >

RECURSIVE DigitsOf(_)
DigitsOf(n) == IF n < 10 THEN <<48 + n>> ELSE DigitsOf(n \div 10) \o <<48 + (n % 10)>>

\* ---- printer
PrintTerm(t) == IF t[1] = 1 THEN t[2] ELSE DigitsOf(t[1]) \o t[2]
RECURSIVE PrintSide(_, _)
PrintSide(side, sd) ==
   IF Len(side) = 0 THEN <<>>
   ELSE IF Len(side) = 1 THEN PrintTerm(side[1])
   ELSE PrintTerm(side[1]) \o sd \o PrintSide(Tail(side), sd)
PrintEq(lhs, rhs, sd, rd) == PrintSide(lhs, sd) \o rd \o PrintSide(rhs, sd)

\* ---- reader
RECURSIVE SplitOn(_, _)
SplitOn(s, c) ==
   IF \A i \in 1..Len(s) : s[i] # c THEN <<s>>
   ELSE LET i == CHOOSE i \in 1..Len(s) : s[i] = c /\ \A j \in 1..(i - 1) : s[j] # c
        IN <<SubSeq(s, 1, i - 1)>> \o SplitOn(SubSeq(s, i + 1, Len(s)), c)

LeadDigits(s) == IF \A i \in 1..Len(s) : IsDigitC(s[i]) THEN Len(s)
                 ELSE (CHOOSE i \in 1..Len(s) : ~IsDigitC(s[i]) /\ \A j \in 1..(i - 1) : IsDigitC(s[j])) - 1

ParseTerm(p) ==
   LET t == Trim(p)
       k == LeadDigits(t)
       name == SubSeq(t, k + 1, Len(t))
   IN [ok |-> Len(name) > 0 /\ k <= 4 /\ \A i \in 1..Len(name) : ~IsBlankC(name[i]),
       term |-> <<IF k = 0 \/ k > 4 THEN 1 ELSE DigitsToInt(SubSeq(t, 1, k)), name>>]

ParseSide(s) ==
   LET ps == SplitOn(s, PlusC)
       ts == [i \in 1..Len(ps) |-> ParseTerm(ps[i])]
   IN [ok |-> \A i \in 1..Len(ts) : ts[i].ok, terms |-> [i \in 1..Len(ts) |-> ts[i].term]]

HasR(s) == \E i \in 1..Len(s) : IsRDelimC(s[i])
BadEq == [ok |-> FALSE, lhs |-> <<>>, rhs |-> <<>>]
ParseEq(s) ==
   IF ~HasR(s) THEN BadEq
   ELSE LET i == CHOOSE i \in 1..Len(s) : IsRDelimC(s[i]) /\ \A j \in 1..(i - 1) : ~IsRDelimC(s[j])
            k == CHOOSE k \in i..Len(s) : /\ \A j \in i..k : IsRDelimC(s[j])
                                          /\ (k = Len(s) \/ ~IsRDelimC(s[k + 1]))
            rest == SubSeq(s, k + 1, Len(s))
            L == ParseSide(SubSeq(s, 1, i - 1))
            R == ParseSide(rest)
        IN IF HasR(rest) \/ (\A j \in i..k : s[j] # 61) THEN BadEq
           ELSE [ok |-> L.ok /\ R.ok, lhs |-> L.terms, rhs |-> R.terms]

\* ---- a side as a bag: set of <<name, total coefficient>>
RECURSIVE SumCoef(_, _)
SumCoef(terms, n) == IF Len(terms) = 0 THEN 0
                     ELSE (IF terms[1][2] = n THEN terms[1][1] ELSE 0) + SumCoef(Tail(terms), n)
Bag(terms) == {<<n, SumCoef(terms, n)>> : n \in {terms[i][2] : i \in 1..Len(terms)}}

\* reading back what was printed gives the same bags of species
ReadBackOK(lhs, rhs, sd, rd) ==
   LET p == ParseEq(PrintEq(lhs, rhs, sd, rd))
   IN p.ok /\ Bag(p.lhs) = Bag(lhs) /\ Bag(p.rhs) = Bag(rhs)
=============================================================================
