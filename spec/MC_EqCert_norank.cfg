\* certificate rule without the rank witness: EXPECTED TO BE REJECTED
SPECIFICATION Spec
CONSTANTS
  NS <- NS23
  NE = 2
  MaxEntry = 1
  BoxR = 2
  Sorted = FALSE
  Rule = "norank"
INVARIANT CertSound
CHECK_DEADLOCK FALSE
