--------------------------- MODULE OmkmRangeText ---------------------------
(***************************************************************************)
(* C18 (ranges) - the meaning of OpenMKM/Cantera range notation, on text.  *)
(*                                                                         *)
(* Text is a sequence of character codes (Text.tla).  An identifier is any *)
(* non-empty text; two identifiers are the same iff their texts are equal, *)
(* so `r_7`, `r_0007` and `r_00007` are three different identifiers and    *)
(* `_0004` is not `0004`.                                                  *)
(*                                                                         *)
(* An output of the compressor is a list of ENTRIES.  An entry is either a *)
(* single identifier, or `X to Y` where X and Y are a common prefix        *)
(* followed by decimal digit runs a <= b.  Denote(X to Y) is the set of    *)
(* prefix + n for n in a..b, n printed zero-padded to the width of X's     *)
(* digit run (wider numbers print at their natural width: the "%0wd"       *)
(* reading).  Y must itself be printed that way, otherwise the entry is    *)
(* malformed.  This is the numeric reading of DESIGN.md C18; a consumer    *)
(* that compares identifiers lexically agrees with it whenever both        *)
(* endpoints have the same width, and ranges across a change of width      *)
(* (`r_9999 to r_10000`) are read numerically here (stated limit).         *)
(*                                                                         *)
(* The two output forms:                                                   *)
(*   "str"  : `[` `"e1"` `, ` `"e2"` ... `]`   (`[]` for no entries)       *)
(*   "list" : a list whose elements are `"e"` (the double quotes are part  *)
(*            of each element: pmutt's YAML writer relies on them).  The   *)
(*            text `[]` is also accepted as the list form of no entries    *)
(*            (lenient reading; it is what the code returns).              *)
(*                                                                         *)
(* Judge(...) is THE property: the set of names of the clauses that fail   *)
(* for one call.  It is used unchanged by the design model (on the output  *)
(* of the modelled algorithms) and by the trace specification (on the      *)
(* output of the real function).                                           *)
(*   Raises/RejectKind  the call raised although every identifier is in    *)
(*                   the form the function must accept (MustAccept), or    *)
(*                   raised something that is not ValueError/TypeError     *)
(*   WellFormed      the output does not parse as the form's layout, or an *)
(*                   entry is malformed                                    *)
(*   NoneLost        an input identifier is not denoted                    *)
(*   NoneAdded       a denoted identifier is not an input (covers renaming:*)
(*                   a renamed id is one lost and one added)               *)
(*   InputUntouched  the caller's collection changed                       *)
(*   OutputFormIsList / OutputFormIsString  the returned object has not    *)
(*                   the type of the requested form (format='list' must    *)
(*                   give a list whose elements denote the ids)            *)
(*   MustReject      an identifier without an integer-compatible suffix    *)
(*                   (empty, or with an ASCII letter) did not raise: the   *)
(*                   docstring documents ValueError                        *)
(* MustAccept(id): the suffix after the last delimiter is an integer       *)
(* printed as "%04d" (>= 4 digits, no padding beyond 4) and the delimiter, *)
(* if any, is not the first character.  Other identifiers may be rejected  *)
(* (the property lets the function choose what it can encode) but must     *)
(* never be altered.                                                       *)
(***************************************************************************)
EXTENDS Integers, Sequences, FiniteSets, Text
SX == INSTANCE SequencesExt

QUOTE == 34
LBR == 91
RBR == 93
COMMA == 44
TO == <<32, 116, 111, 32>>              \* " to "
EmptyList == <<LBR, RBR>>               \* "[]"

Positions(s, c) == SX!SetToSortSeq({i \in 1..Len(s) : s[i] = c}, LAMBDA a, b : a < b)
LastPos(s, c) == LET P == {i \in 1..Len(s) : s[i] = c}
                 IN IF P = {} THEN 0 ELSE CHOOSE i \in P : \A j \in P : j <= i
SeqToSet(s) == {s[i] : i \in 1..Len(s)}

\* number of trailing decimal digits of a text
NTrail(s) == LET K == {k \in 0..Len(s) : \A j \in (Len(s) - k + 1)..Len(s) : IsDigitC(s[j])}
             IN CHOOSE k \in K : \A m \in K : m <= k

RECURSIVE IntToDigits(_)
IntToDigits(n) == IF n < 10 THEN <<48 + n>> ELSE Append(IntToDigits(n \div 10), 48 + (n % 10))
Zeros(k) == [i \in 1..k |-> 48]
Pad(n, w) == LET d == IntToDigits(n) IN IF Len(d) >= w THEN d ELSE Zeros(w - Len(d)) \o d   \* "%0wd"

\* ---- entries
ToPositions(t) == {i \in 1..Len(t) : MatchAt(t, TO, i)}
IsRangeEntry(t) == ToPositions(t) # {}
Ends(t) == LET i == CHOOSE i \in ToPositions(t) : TRUE
           IN <<SubSeq(t, 1, i - 1), SubSeq(t, i + 4, Len(t))>>
SplitNum(x) == LET k == NTrail(x) IN [p |-> SubSeq(x, 1, Len(x) - k), d |-> SubSeq(x, Len(x) - k + 1, Len(x))]
MaxSpan == 200000
EntryWF(t) ==
   IF ~IsRangeEntry(t) THEN Len(t) > 0 /\ QUOTE \notin SeqToSet(t)
   ELSE /\ Cardinality(ToPositions(t)) = 1
        /\ QUOTE \notin SeqToSet(t)
        /\ LET ab == Ends(t)  a == SplitNum(ab[1])  b == SplitNum(ab[2]) IN
             /\ a.p = b.p
             /\ Len(a.d) \in 1..9 /\ Len(b.d) \in 1..9
             /\ DigitsToInt(a.d) <= DigitsToInt(b.d)
             /\ DigitsToInt(b.d) - DigitsToInt(a.d) <= MaxSpan
             /\ b.d = Pad(DigitsToInt(b.d), Len(a.d))
Denote(t) ==                                  \* meaningful when EntryWF(t)
   IF ~IsRangeEntry(t) THEN {t}
   ELSE LET ab == Ends(t)  a == SplitNum(ab[1])  b == SplitNum(ab[2])
        IN {a.p \o Pad(n, Len(a.d)) : n \in DigitsToInt(a.d)..DigitsToInt(b.d)}
DenoteAll(entries) == UNION {Denote(entries[k]) : k \in 1..Len(entries)}

\* ---- the "str" form:  ["e1", "e2"]
StrFormWF(s) ==
   /\ Len(s) >= 2 /\ s[1] = LBR /\ s[Len(s)] = RBR
   /\ LET q == Positions(s, QUOTE)  n == Len(q) IN
        /\ n % 2 = 0
        /\ IF n = 0 THEN Len(s) = 2
           ELSE /\ q[1] = 2 /\ q[n] = Len(s) - 1
                /\ \A k \in 1..((n \div 2) - 1) :
                      /\ q[2 * k + 1] = q[2 * k] + 3
                      /\ s[q[2 * k] + 1] = COMMA /\ s[q[2 * k] + 2] = SP
StrEntries(s) == LET q == Positions(s, QUOTE)
                 IN [k \in 1..(Len(q) \div 2) |-> SubSeq(s, q[2 * k - 1] + 1, q[2 * k] - 1)]
RECURSIVE JoinEntries(_, _)
JoinEntries(entries, k) ==      \* "e1", "e2", ... from entry k on
   IF k > Len(entries) THEN <<>>
   ELSE <<QUOTE>> \o entries[k] \o <<QUOTE>>
        \o (IF k < Len(entries) THEN <<COMMA, SP>> ELSE <<>>) \o JoinEntries(entries, k + 1)
RenderStr(entries) == <<LBR>> \o JoinEntries(entries, 1) \o <<RBR>>

\* ---- the "list" form: each element is "e" with its quotes
ElemWF(e) == Len(e) >= 2 /\ e[1] = QUOTE /\ e[Len(e)] = QUOTE
ListFormWF(elems) == \A k \in 1..Len(elems) : ElemWF(elems[k])
ListEntries(elems) == [k \in 1..Len(elems) |-> SubSeq(elems[k], 2, Len(elems[k]) - 1)]
RenderList(entries) == [k \in 1..Len(entries) |-> <<QUOTE>> \o entries[k] \o <<QUOTE>>]

\* ---- which identifiers must be accepted
Suffix(id, delim) == SubSeq(id, LastPos(id, delim) + 1, Len(id))
MustAccept(id, delim) ==
   LET i == LastPos(id, delim)  f == Suffix(id, delim) IN
   /\ i # 1
   /\ AllDigits(f) /\ Len(f) >= 4 /\ Len(f) <= 9 /\ (Len(f) = 4 \/ f[1] # 48)

(***************************************************************************)
(* The verdict for one call.                                               *)
(*   ids    : the identifiers of the collection (sequence of texts)        *)
(*   after  : the same collection read again after the call                *)
(*   delim  : delimiter character code                                     *)
(*   raised : "" if the call returned, else the exception class name       *)
(*   form   : the requested format, "str" or "list"                         *)
(*   kind   : "text" (payload is one text in the str layout) or            *)
(*            "elems" (payload is a sequence of texts, the list layout)    *)
(***************************************************************************)
\* an identifier whose suffix is empty or holds an ASCII letter has no "integer-compatible
\* section": the docstring of _get_omkm_range documents ValueError for it
NotIntCompatible(id, delim) ==
   LET f == Suffix(id, delim) IN Len(f) = 0 \/ \E i \in 1..Len(f) : IsUpperC(f[i]) \/ IsLowerC(f[i])
\* the output has the type of the requested form: a str for "str"; a list for "list" (the text
\* `[]` is tolerated as the list form of NO identifiers: it is what the code returns for an empty
\* collection - an observation, see notes/C18.md - and never for a non-empty one)
OutputFormOK(ids, form, kind, payload) ==
   IF form = "list" THEN kind = "elems" \/ (kind = "text" /\ Len(ids) = 0 /\ payload = EmptyList)
   ELSE kind = "text"
Judge(ids, after, delim, raised, form, kind, payload) ==
   (IF after = ids THEN {} ELSE {"InputUntouched"})
   \cup
   (IF raised # ""
    THEN (IF \A k \in 1..Len(ids) : MustAccept(ids[k], delim) THEN {"Raises"} ELSE {})
         \cup (IF raised \in {"ValueError", "TypeError"} THEN {} ELSE {"RejectKind"})
    ELSE (IF OutputFormOK(ids, form, kind, payload) THEN {}
          ELSE {IF form = "list" THEN "OutputFormIsList" ELSE "OutputFormIsString"})
         \cup (IF \E k \in 1..Len(ids) : NotIntCompatible(ids[k], delim) THEN {"MustReject"} ELSE {})
         \cup
         LET layoutOK == IF kind = "text" THEN StrFormWF(payload) ELSE ListFormWF(payload) IN
         IF ~layoutOK THEN {"WellFormed"}
         ELSE LET entries == IF kind = "text" THEN StrEntries(payload) ELSE ListEntries(payload) IN
              IF \E k \in 1..Len(entries) : ~EntryWF(entries[k]) THEN {"WellFormed"}
              ELSE LET D == DenoteAll(entries)  I == SeqToSet(ids) IN
                   (IF I \subseteq D THEN {} ELSE {"NoneLost"})
                   \cup (IF D \subseteq I THEN {} ELSE {"NoneAdded"}))
=============================================================================
