\* the serialised form does not carry add_gas_P_adj=False (EXPECTED TO BE REJECTED)
SPECIFICATION Spec
CONSTANTS
  Workspaces <- MCWorkspaces
  MaxObjs = 7
  MaxOps = 6
  RoundMode = "nearest"
  KeepClass = TRUE
  LoseFlag = TRUE
  ThermdatAny = FALSE
  ThermdatOrder = "kept"
  RecordWs = FALSE
INVARIANT TypeOK
INVARIANT ClassSound
INVARIANT NineDigits
INVARIANT RoundIdempotent
INVARIANT PAdjCount
INVARIANT FlagKept
INVARIANT CovKept
INVARIANT SameFamily
PROPERTY ResultOrigin
PROPERTY PrecMonotone
PROPERTY SecondTripSame
PROPERTY OthersUntouched
VIEW View
CHECK_DEADLOCK FALSE
