\* X06: thorough tier: OUTCAR alphabet, every file of <= 5 lines
SPECIFICATION Spec
CONSTANTS
  Lines <- MCLines
  Kinds <- OutcarPlus
  MaxLen = 5
  Cuts <- MCCuts
  Pat <- MCPat
  Variant = "impl"
INVARIANT InQuantifier
INVARIANT Refines
INVARIANT VibRequired
INVARIANT ScalarRequired
INVARIANT ListRequired
INVARIANT PatternRequired
INVARIANT NoiseIndependent
PROPERTY Monotone
CHECK_DEADLOCK FALSE
