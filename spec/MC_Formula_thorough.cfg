\* as MC_Formula.cfg plus all 4-item sequences over 3 symbols x 3 counts
SPECIFICATION Spec
CONSTANTS
  Variant = "sum"
  MaxItems = 4
INVARIANT WellFormed
INVARIANT Requirement
INVARIANT Functional
INVARIANT Monotone
CHECK_DEADLOCK FALSE
