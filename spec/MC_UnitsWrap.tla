--------------------------- MODULE MC_UnitsWrap ---------------------------
(* C04: model-checking harness of UnitsWrap.tla + emission of the case space *)
EXTENDS UnitsWrap, Dec, Json, IOUtils, SequencesExt

\* transcription checks of the spec's own R table (families differ by powers of ten,
\* Eh = Ha, 1 cal = 4.184 J, 1 atm = 101.325 kPa, 1 atm = 760 torr)
R(k) == RTable[k]
TableSane ==
   /\ Close(R("J/mol/K"), Mul(R("kJ/mol/K"), I(1000)), 8)
   /\ Close(R("cal/mol/K"), Mul(R("kcal/mol/K"), I(1000)), 8)
   /\ R("Eh/K") = R("Ha/K")
   /\ R("L kPa/mol/K") = R("J/mol/K") /\ R("m3 Pa/mol/K") = R("J/mol/K")
   /\ R("cm3 MPa/mol/K") = R("J/mol/K")
   /\ Close(R("cm3 kPa/mol/K"), Mul(R("J/mol/K"), I(1000)), 8)
   /\ Close(R("L bar/mol/K"), Mul(R("m3 bar/mol/K"), I(1000)), 8)
   /\ Close(R("J/mol/K"), Mul(R("L bar/mol/K"), I(100)), 8)
   /\ Close(R("cm3 atm/mol/K"), Mul(R("L atm/mol/K"), I(1000)), 8)
   /\ Close(R("J/mol/K"), Mul(R("cal/mol/K"), <<4184, -3>>), 7)
   /\ Close(R("J/mol/K"), Mul(R("L atm/mol/K"), <<101325, -3>>), 7)
   /\ Close(R("L torr/mol/K"), Mul(R("L atm/mol/K"), I(760)), 7)
ASSUME TableSane
ASSUME UnitStrInjective
ASSUME KeysCovered

UnitRec(u, energy) == [e |-> u.e, per |-> u.per, ustr |-> UnitStr(u, energy), rkey |-> RKey(u)]
\* the unit lists depend only on (per-mass allowed, energy)
UnitList(mass, energy) ==
   SetToSeq({UnitRec(u, energy) : u \in {v \in Units : PerMass(v) => mass}})
Ser(c) ==
   [cls |-> c.cls, form |-> c.form, q |-> c.q, state |-> c.state, opts |-> c.opts,
    shape |-> c.shape, tgiven |-> c.tgiven, phase |-> c.phase,
    own |-> IF c.own = NoUnit THEN "none" ELSE RKey(c.own),
    must |-> {UnitStr(u, Energy(c.q)) : u \in MustAsk(c)},
    getter |-> Getter(c.form, c.q), twin |-> Twin(c.form, c.q),
    kwD |-> KwD(c), kwT |-> KwT(c),
    dflt |-> {[name |-> d[1], sym |-> d[2]] : d \in Defaults(c)},
    ismode |-> c.cls \in ModeKinds,
    sig |-> IF c.cls \in ModeKinds THEN ModeTakes(c.cls, c.q) ELSE {},
    energy |-> Energy(c.q), mass |-> c.cls \in SpeciesCls,
    species |-> IF c.cls \in RxnCls THEN SpeciesIn(c.cls) ELSE "none",
    refs |-> NeedsRefs(c), cov |-> NeedsCov(c), rshape |-> ResultShape(c),
    relevant |-> c.opts \cap Relevant(c),
    nunits |-> Cardinality(UnitsOf(c))]
EmitCases ==
   IF "OUT_FILE" \in DOMAIN IOEnv
   THEN JsonSerialize(IOEnv.OUT_FILE,
          [cells |-> SetToSeq({Ser(c) : c \in Cells}),
           units |-> [molar_energy |-> UnitList(FALSE, TRUE), molar_perK |-> UnitList(FALSE, FALSE),
                      mass_energy |-> UnitList(TRUE, TRUE), mass_perK |-> UnitList(TRUE, FALSE)]])
   ELSE TRUE
ASSUME EmitCases
=============================================================================
