--------------------------- MODULE MC_UnitsWrap ---------------------------
(* C04: model-checking harness of UnitsWrap.tla + emission of the case space *)
EXTENDS UnitsWrap, Dec, Json, IOUtils, SequencesExt

\* transcription checks of the spec's own R table (families differ by powers of ten,
\* Eh = Ha, 1 cal = 4.184 J, 1 atm = 101.325 kPa, 1 atm = 760 torr)
R(k) == RTable[k]
TableSane ==
   /\ Close(R("J/mol/K"), Mul(R("kJ/mol/K"), I(1000)), 8)
   /\ Close(R("cal/mol/K"), Mul(R("kcal/mol/K"), I(1000)), 8)
   /\ R("Eh/K") = R("Ha/K")
   /\ R("L kPa/mol/K") = R("J/mol/K") /\ R("m3 Pa/mol/K") = R("J/mol/K")
   /\ R("cm3 MPa/mol/K") = R("J/mol/K")
   /\ Close(R("cm3 kPa/mol/K"), Mul(R("J/mol/K"), I(1000)), 8)
   /\ Close(R("L bar/mol/K"), Mul(R("m3 bar/mol/K"), I(1000)), 8)
   /\ Close(R("J/mol/K"), Mul(R("L bar/mol/K"), I(100)), 8)
   /\ Close(R("cm3 atm/mol/K"), Mul(R("L atm/mol/K"), I(1000)), 8)
   /\ Close(R("J/mol/K"), Mul(R("cal/mol/K"), <<4184, -3>>), 7)
   /\ Close(R("J/mol/K"), Mul(R("L atm/mol/K"), <<101325, -3>>), 7)
   /\ Close(R("L torr/mol/K"), Mul(R("L atm/mol/K"), I(760)), 7)
ASSUME TableSane
ASSUME UnitStrInjective
ASSUME KeysCovered

\* fitting units of the Shomate objects: all 16 keys (OWN_ROT = "all", thorough tier) or one
\* quarter of them, rotating with the seed (OWN_ROT = "0".."3")
OwnGroup(k) ==
   CASE k = "0" -> {[e |-> "J", per |-> "mol"], [e |-> "cal", per |-> "mol"],
                    [e |-> "eV", per |-> "molecule"], [e |-> "L atm", per |-> "mol"]}
     [] k = "1" -> {[e |-> "kJ", per |-> "mol"], [e |-> "kcal", per |-> "mol"],
                    [e |-> "Eh", per |-> "molecule"], [e |-> "cm3 atm", per |-> "mol"]}
     [] k = "2" -> {[e |-> "L kPa", per |-> "mol"], [e |-> "cm3 kPa", per |-> "mol"],
                    [e |-> "Ha", per |-> "molecule"], [e |-> "L torr", per |-> "mol"]}
     [] OTHER   -> {[e |-> "m3 Pa", per |-> "mol"], [e |-> "cm3 MPa", per |-> "mol"],
                    [e |-> "m3 bar", per |-> "mol"], [e |-> "L bar", per |-> "mol"]}
MCShomateOwn ==
   LET k == IF "OWN_ROT" \in DOMAIN IOEnv THEN IOEnv.OWN_ROT ELSE "0"
   IN IF k = "all" THEN {u \in Units : ~PerMass(u)} ELSE OwnGroup(k)
ASSUME UNION {OwnGroup(k) : k \in {"0", "1", "2", "3"}} = {u \in Units : ~PerMass(u)}

\* class filters of the variant configurations (a deviating wrapper concerns a few classes)
MCAllClasses == Classes
MCModes == ModeKinds
MCShomate == {"Shomate"}
MCChemkin == {"ChemkinReaction"}
MCNasas == {"Nasa", "Nasa9"}
MCCvInherited == Empirical \cup {"Reference"}

UnitRec(u, energy) == [e |-> u.e, per |-> u.per, ustr |-> UnitStr(u, energy), rkey |-> RKey(u)]
\* the unit lists depend only on (per-mass allowed, energy)
UnitList(mass, energy) ==
   SetToSeq({UnitRec(u, energy) : u \in {v \in Units : PerMass(v) => mass}})
Ser(c) ==
   [cls |-> c.cls, form |-> c.form, q |-> c.q, state |-> c.state, opts |-> c.opts,
    expl |-> c.expl, atdefault |-> AtDefault(c),
    shape |-> c.shape, tgiven |-> c.tgiven, phase |-> c.phase,
    own |-> IF c.own = NoUnit THEN "none" ELSE RKey(c.own),
    must |-> {UnitStr(u, Energy(c.q)) : u \in MustAsk(c)},
    getter |-> Getter(c.form, c.q), twin |-> Twin(c.form, c.q),
    kwD |-> KwD(c), kwT |-> KwT(c),
    dflt |-> {[name |-> d[1], sym |-> d[2]] : d \in Defaults(c)},
    ismode |-> c.cls \in ModeKinds, isaux |-> c.cls \in AuxCls,
    isrxn |-> c.cls \in RxnCls,
    sig |-> IF c.cls \in RxnCls THEN {} ELSE Takes(c.cls, c.q),
    energy |-> Energy(c.q), mass |-> c.cls \in MassCls,
    species |-> c.spk,
    refs |-> NeedsRefs(c), cov |-> NeedsCov(c), rshape |-> ResultShape(c),
    relevant |-> c.opts \cap Relevant(c),
    nunits |-> Cardinality(UnitsOf(c))]
EmitCases ==
   IF "OUT_FILE" \in DOMAIN IOEnv
   THEN JsonSerialize(IOEnv.OUT_FILE,
          [cells |-> SetToSeq({Ser(c) : c \in Cells}),
           units |-> [molar_energy |-> UnitList(FALSE, TRUE), molar_perK |-> UnitList(FALSE, FALSE),
                      mass_energy |-> UnitList(TRUE, TRUE), mass_perK |-> UnitList(TRUE, FALSE)]])
   ELSE TRUE
ASSUME EmitCases
=============================================================================
