\* C04 design model, wrapper variant "shomate_S" - EXPECTED TO BE REJECTED (Refines)
SPECIFICATION Spec
CONSTANTS
  Variant = "shomate_S"
  ShomateOwn <- MCShomateOwn
  ClassFilter <- MCShomate
INVARIANT TypeOK
INVARIANT WellFormed
INVARIANT Refines
CHECK_DEADLOCK FALSE
