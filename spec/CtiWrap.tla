------------------------------ MODULE CtiWrap ------------------------------
(***************************************************************************)
(* C18 (wrapping) - pmutt.io.cantera.obj_to_cti as a state machine.        *)
(*                                                                         *)
(* A token is <<position, length>> (the position makes tokens distinct, so *)
(* a reordering or a duplication is visible; only lengths matter to the    *)
(* algorithm).  State: the caller's token list `input`, the widths         *)
(* (ll = line_len for the first line, ml = max_line_len for the others),   *)
(* and the progress of the greedy filling: `k` tokens placed into `lines`  *)
(* (CtiLayout line records).  Actions: AddToken (the caller extends the    *)
(* value), Start (the public call: one-line form "..." when the content is *)
(* shorter than ll - 2, else open the """ form), Place (next token), Close *)
(* (the closing """ is placed like a token).                               *)
(*                                                                         *)
(* Variant "greedy" is the algorithm of the code: the first token always   *)
(* goes on line 1; a token joins the current line iff                      *)
(* len(line) + 1 + len(token) <= limit(line); a new line starts with       *)
(* max(0, ml - ll + 3) blanks.  Variant "onelimit" (the first line is      *)
(* filled to ml like the others) is a wrong algorithm kept to show that    *)
(* WidthRespected is not vacuous: EXPECTED TO BE REJECTED.                 *)
(* Invariants: at every step the placed tokens are preserved in order and  *)
(* every over-long line holds exactly one word; when done, all tokens are  *)
(* there and the value is delimited (CtiLayout!WrapVerdict = {}).          *)
(***************************************************************************)
EXTENDS CtiLayout, TLC

CONSTANTS TokLens, MaxToks, LineLens, MaxLineLens, Variant

VARIABLES input, ll, ml, phase, k, lines
vars == <<input, ll, ml, phase, k, lines>>

Tok(i) == <<i, input[i]>>
AllToks == [i \in 1..Len(input) |-> Tok(i)]
RECURSIVE SumLens(_, _)
SumLens(s, i) == IF i > Len(s) THEN 0 ELSE s[i] + SumLens(s, i + 1)
ContentLen(s) == IF Len(s) = 0 THEN 0 ELSE SumLens(s, 1) + Len(s) - 1      \* ' '.join(tokens)
Indent(l, m) == IF m - l + 3 > 0 THEN m - l + 3 ELSE 0
FillLimit(v, nline, l, m) == IF v = "onelimit" THEN m ELSE Limit(nline, l, m)

\* place one word of length wl carrying `toks` (<<>> for the closing delimiter)
PlaceWord(v, ls, first, wl, toks, l, m) ==
   LET n == Len(ls)  cur == ls[n] IN
   IF first
   THEN [ls EXCEPT ![n] = [len |-> cur.len + wl, words |-> cur.words \o toks, nw |-> 1]]
   ELSE IF cur.len + wl + 1 <= FillLimit(v, n, l, m)
        THEN [ls EXCEPT ![n] = [len |-> cur.len + wl + 1, words |-> cur.words \o toks, nw |-> cur.nw + 1]]
        ELSE Append(ls, [len |-> Indent(l, m) + wl, words |-> toks, nw |-> 1])

Init == /\ input = <<>> /\ ll \in LineLens /\ ml \in MaxLineLens
        /\ phase = "build" /\ k = 0 /\ lines = <<>>
AddToken(t) == /\ phase = "build" /\ Len(input) < MaxToks
               /\ input' = Append(input, t)
               /\ UNCHANGED <<ll, ml, phase, k, lines>>
Start == /\ phase = "build"
         /\ IF ContentLen(input) < ll - 2
            THEN /\ phase' = "done"
                 /\ lines' = <<[len |-> ContentLen(input) + 2, words |-> AllToks, nw |-> Len(input)]>>
                 /\ k' = Len(input)
            ELSE /\ phase' = "wrap"
                 /\ lines' = <<[len |-> 3, words |-> <<>>, nw |-> 0]>>
                 /\ k' = 0
         /\ UNCHANGED <<input, ll, ml>>
Place == /\ phase = "wrap" /\ k < Len(input)
         /\ lines' = PlaceWord(Variant, lines, k = 0, input[k + 1], <<Tok(k + 1)>>, ll, ml)
         /\ k' = k + 1
         /\ UNCHANGED <<input, ll, ml, phase>>
Close == /\ phase = "wrap" /\ k = Len(input)
         /\ lines' = PlaceWord(Variant, lines, k = 0, 3, <<>>, ll, ml)
         /\ phase' = "done"
         /\ UNCHANGED <<input, ll, ml, k>>
Next == (\E t \in TokLens : AddToken(t)) \/ Start \/ Place \/ Close
Spec == Init /\ [][Next]_vars

\* ---- properties -------------------------------------------------------------
PlacedPreserved == phase # "build" => Flatten(lines) = SubSeq(AllToks, 1, k)
WidthOK == phase # "build" => WidthRespected(lines, ll, ml)
DoneOK == phase = "done" => WrapVerdict(AllToks, ll, ml, TRUE, lines) = {}
TypeOK == /\ input \in Seq(TokLens) /\ phase \in {"build", "wrap", "done"} /\ k \in 0..MaxToks

\* ---- the whole filling as one operator (reference layout for the replay) ----
RECURSIVE Fill(_, _, _, _, _, _)
Fill(v, toks, i, ls, l, m) ==
   IF i > Len(toks) THEN PlaceWord(v, ls, i = 1, 3, <<>>, l, m)
   ELSE Fill(v, toks, i + 1, PlaceWord(v, ls, i = 1, toks[i][2], <<toks[i]>>, l, m), l, m)
GreedyLayout(lens, l, m) ==
   LET toks == [i \in 1..Len(lens) |-> <<i, lens[i]>>] IN
   IF ContentLen(lens) < l - 2
   THEN <<[len |-> ContentLen(lens) + 2, words |-> toks, nw |-> Len(lens)]>>
   ELSE Fill("greedy", toks, 1, <<[len |-> 3, words |-> <<>>, nw |-> 0]>>, l, m)
=============================================================================
