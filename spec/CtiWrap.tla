------------------------------ MODULE CtiWrap ------------------------------
(***************************************************************************)
(* C18 (wrapping) - pmutt.io.cantera.obj_to_cti as a state machine over    *)
(* HISTORIES of calls on one value object.                                 *)
(*                                                                         *)
(* A token is <<position, length>> (the position makes tokens distinct, so *)
(* a reordering, a duplication or a foreign token is visible; only lengths *)
(* matter to the algorithm).                                               *)
(* State:                                                                  *)
(*   input  the caller's value object (token lengths).  It PERSISTS across *)
(*          calls: AddToken / Wrap / Wrap again (other widths) / AddToken  *)
(*          / Wrap ... are all behaviours of this machine.                 *)
(*   orig   ghost: the value as the caller built it (only AddToken changes *)
(*          it).  Every call is judged against `orig`.                     *)
(*   ll, ml line_len / max_line_len of the call in progress (0 when idle)  *)
(*   phase  "idle" | "wrap" | "done";  k, lines: progress of the filling   *)
(* Actions: AddToken (caller, idle only), Start(l, m) (the public call     *)
(* begins: one-line form "..." when the content is shorter than l - 2,     *)
(* else open the """ form), Place (next token), Close (the closing """ is  *)
(* placed like a token), Return (the call ends; the transient is cleared,  *)
(* the value object stays).                                                *)
(*                                                                         *)
(* Variant "greedy" is the algorithm of the code: it works on a private    *)
(* copy of the tokens; the first token always goes on line 1; a token      *)
(* joins the current line iff len(line) + 1 + len(token) <= limit(line); a *)
(* new line starts with max(0, ml - ll + 3) blanks.                        *)
(* Wrong variants kept to show the properties are not vacuous, each        *)
(* EXPECTED TO BE REJECTED:                                                *)
(*   "onelimit" the first line is filled to ml like the others             *)
(*              (WidthOK);                                                 *)
(*   "alias"    the algorithm uses the caller's list object as its token   *)
(*              list and appends the closing marker to it: the first call  *)
(*              returns the right text but changes the caller's value      *)
(*              (InputUntouched), and the next call on the same object     *)
(*              carries the marker as a token (DoneOK: TokensPreserved).   *)
(* Properties: InputUntouched - no step of a call changes `input` (action  *)
(* property); at every step the placed tokens are the caller's, in order,  *)
(* and every over-long line holds exactly one word; when a call is done,   *)
(* CtiLayout!WrapVerdict against `orig` is empty - on EVERY call of a      *)
(* history, because `input`/`orig` survive Return.                         *)
(***************************************************************************)
EXTENDS CtiLayout, TLC

CONSTANTS TokLens, MaxToks, LineLens, MaxLineLens, Variant

VARIABLES input, orig, ll, ml, phase, k, lines
vars == <<input, orig, ll, ml, phase, k, lines>>

TokOf(s, i) == <<i, s[i]>>
ToksOf(s) == [i \in 1..Len(s) |-> TokOf(s, i)]
OrigToks == ToksOf(orig)
RECURSIVE SumLens(_, _)
SumLens(s, i) == IF i > Len(s) THEN 0 ELSE s[i] + SumLens(s, i + 1)
ContentLen(s) == IF Len(s) = 0 THEN 0 ELSE SumLens(s, 1) + Len(s) - 1      \* ' '.join(tokens)
Indent(l, m) == IF m - l + 3 > 0 THEN m - l + 3 ELSE 0
FillLimit(v, nline, l, m) == IF v = "onelimit" THEN m ELSE Limit(nline, l, m)
\* "alias": the closing marker sits at the end of the caller's list while a call runs
NPlace == IF Variant = "alias" THEN Len(input) - 1 ELSE Len(input)

\* place one word of length wl carrying `toks` (<<>> for the closing delimiter)
PlaceWord(v, ls, first, wl, toks, l, m) ==
   LET n == Len(ls)  cur == ls[n] IN
   IF first
   THEN [ls EXCEPT ![n] = [len |-> cur.len + wl, words |-> cur.words \o toks, nw |-> 1]]
   ELSE IF cur.len + wl + 1 <= FillLimit(v, n, l, m)
        THEN [ls EXCEPT ![n] = [len |-> cur.len + wl + 1, words |-> cur.words \o toks, nw |-> cur.nw + 1]]
        ELSE Append(ls, [len |-> Indent(l, m) + wl, words |-> toks, nw |-> 1])

Init == /\ input = <<>> /\ orig = <<>> /\ ll = 0 /\ ml = 0
        /\ phase = "idle" /\ k = 0 /\ lines = <<>>
AddToken(t) == /\ phase = "idle" /\ Len(orig) < MaxToks
               /\ input' = Append(input, t) /\ orig' = Append(orig, t)
               /\ UNCHANGED <<ll, ml, phase, k, lines>>
Start(l, m) ==
   /\ phase = "idle" /\ Len(input) <= MaxToks + 1        \* bound for the aliasing variant
   /\ ll' = l /\ ml' = m
   /\ IF ContentLen(input) < l - 2
      THEN /\ phase' = "done"
           /\ lines' = <<[len |-> ContentLen(input) + 2, words |-> ToksOf(input), nw |-> Len(input)]>>
           /\ k' = Len(input)
           /\ input' = input
      ELSE /\ phase' = "wrap"
           /\ lines' = <<[len |-> 3, words |-> <<>>, nw |-> 0]>>
           /\ k' = 0
           /\ input' = IF Variant = "alias" THEN Append(input, 3) ELSE input   \* cti_list.append('"""')
   /\ UNCHANGED orig
Place == /\ phase = "wrap" /\ k < NPlace
         /\ lines' = PlaceWord(Variant, lines, k = 0, input[k + 1], <<TokOf(input, k + 1)>>, ll, ml)
         /\ k' = k + 1
         /\ UNCHANGED <<input, orig, ll, ml, phase>>
Close == /\ phase = "wrap" /\ k = NPlace
         /\ lines' = PlaceWord(Variant, lines, k = 0, 3, <<>>, ll, ml)
         /\ phase' = "done"
         /\ UNCHANGED <<input, orig, ll, ml, k>>
Return == /\ phase = "done"
          /\ phase' = "idle" /\ ll' = 0 /\ ml' = 0 /\ k' = 0 /\ lines' = <<>>
          /\ UNCHANGED <<input, orig>>
Next == \/ \E t \in TokLens : AddToken(t)
        \/ \E l \in LineLens, m \in MaxLineLens : Start(l, m)
        \/ Place \/ Close \/ Return
Spec == Init /\ [][Next]_vars

\* ---- properties -------------------------------------------------------------
\* only the caller (AddToken: idle -> idle) may change the value object
InputUntouched == [][~(phase = "idle" /\ phase' = "idle") => input' = input]_vars
PlacedPreserved == phase # "idle" => /\ k <= Len(orig)
                                     /\ Flatten(lines) = SubSeq(OrigToks, 1, k)
WidthOK == phase # "idle" => WidthRespected(lines, ll, ml)
DoneOK == phase = "done" => WrapVerdict(OrigToks, ll, ml, TRUE, lines) = {}
TypeOK == /\ orig \in Seq(TokLens) /\ phase \in {"idle", "wrap", "done"} /\ k \in 0..(MaxToks + 2)

\* ---- the whole filling as one operator (reference layout for the replay) ----
RECURSIVE Fill(_, _, _, _, _, _)
Fill(v, toks, i, ls, l, m) ==
   IF i > Len(toks) THEN PlaceWord(v, ls, i = 1, 3, <<>>, l, m)
   ELSE Fill(v, toks, i + 1, PlaceWord(v, ls, i = 1, toks[i][2], <<toks[i]>>, l, m), l, m)
GreedyLayout(lens, l, m) ==
   LET toks == [i \in 1..Len(lens) |-> <<i, lens[i]>>] IN
   IF ContentLen(lens) < l - 2
   THEN <<[len |-> ContentLen(lens) + 2, words |-> toks, nw |-> Len(lens)]>>
   ELSE Fill("greedy", toks, 1, <<[len |-> 3, words |-> <<>>, nw |-> 0]>>, l, m)
=============================================================================
