\* X08 design model with an implementation-shaped deviation (QRotRule=product, DictRule=nowavenumbers): EXPECTED TO BE REJECTED
SPECIFICATION Spec
CONSTANTS
  ModeIds <- MCModeIds
  MaxModes = 1
  MaxA = 1
  MaxB = 1
  MaxC = 0
  MaxOps = 3
  Walk = FALSE
  QRotRule = "product"
  DictRule = "nowavenumbers"
PROPERTY RoundTrip
VIEW View
CHECK_DEADLOCK FALSE
