\* X09 (two fields): every behaviour of the stale-cache shape (Keyed = {1}), replayed into the classes that have this defect
SPECIFICATION Spec
CONSTANTS
  NF = 2
  Vals = {1, 2}
  Methods = {1, 2}
  Refs <- RefSet
  Args <- ArgsTiny
  InitStores <- StoresOne
  Keyed <- OnlyFirst
  Impl = "cache"
  MaxOps = 3
INVARIANT EmitBehaviours
CHECK_DEADLOCK FALSE
