\* a JSON, dict or deepcopy copy of a thermdat copy is taken to be exact again (EXPECTED TO BE REJECTED)
SPECIFICATION Spec
CONSTANTS
  Workspaces <- MCWorkspaces
  MaxObjs = 7
  MaxOps = 6
  RoundMode = "nearest"
  KeepClass = FALSE
  LoseFlag = FALSE
  ThermdatAny = FALSE
  ThermdatOrder = "kept"
  RecordWs = FALSE
INVARIANT TypeOK
INVARIANT ClassSound
INVARIANT NineDigits
INVARIANT RoundIdempotent
INVARIANT PAdjCount
INVARIANT FlagKept
INVARIANT CovKept
INVARIANT SameFamily
PROPERTY ResultOrigin
PROPERTY PrecMonotone
PROPERTY SecondTripSame
PROPERTY OthersUntouched
VIEW View
CHECK_DEADLOCK FALSE
