\* the same worlds with the block test key.endswith("_kwargs"): accepted
SPECIFICATION Spec
CONSTANTS
  Worlds <- SpecieWide
  V <- VSuffix
INVARIANT TypeOK
INVARIANT SpecieFaithful
INVARIANT BlockKeysRemoved
INVARIANT CallerUntouched
CHECK_DEADLOCK FALSE
