\* constant-level lemmas only (no behaviours explored beyond the dummy initial states)
SPECIFICATION Spec
CONSTANTS
  LN = 4
  Networks <- MCNetsTiny
  Cutoffs <- MCNone
  EVals <- MCZero
  EndAtTS = FALSE
  MaxTargets = 1
  Variant = "ok"
  Order = "asc"
CHECK_DEADLOCK FALSE
