\* X09 design model, implementation shape "pure" (Keyed <- AllFields): the property holds
SPECIFICATION Spec
CONSTANTS
  NF = 3
  Vals = {1, 2}
  Methods = {1, 2}
  Refs <- RefSet
  Args <- ArgsSmall
  InitStores <- StoresSmall
  Keyed <- AllFields
  Impl = "pure"
  MaxOps = 4
INVARIANT TypeOK
PROPERTY ArgsUntouched
PROPERTY StateUntouched
PROPERTY Repeatable
PROPERTY NoHiddenState
PROPERTY FreshAfterMutation
PROPERTY ArrayIsMapOfScalar
PROPERTY IntEqualsFloat
VIEW View
CHECK_DEADLOCK FALSE
