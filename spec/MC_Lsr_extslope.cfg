\* the source as found (variant "extslope"): EXPECTED TO BE REJECTED by NeverRaises
SPECIFICATION Spec
CONSTANTS
  Slopes <- MCSlopes2
  Icpts <- MCIcpts2
  Energies <- MCEnergies2
  Temps = {250, 500}
  MaxN = 1
  MaxOps = 2
  Variant = "extslope"
  Kinds = {"ext"}
  Stoichs = {2}
  ExtParts <- MCExtParts
INVARIANT NeverRaises
VIEW View
CHECK_DEADLOCK FALSE
