\* required relation vs the per-temperature summation loop (Nasa, Nasa9, and Shomate as it should be)
INIT DInit
NEXT DNext
CONSTANTS
  MaxLen = 3
  EvalAlg = "persum"
  Extra = TRUE
  AlgFams = {"Nasa", "Nasa9", "Shomate"}
CHECK_DEADLOCK FALSE
