\* pinned trait: from_dict leaves the attached models as dictionaries - EXPECTED TO BE REJECTED
SPECIFICATION Spec
CONSTANTS
  Phases <- MCPhases
  SibPhases <- MCSibPhases
  Givens <- MCGivens
  AttachKinds <- MCAttach
  MaxObjs = 3
  MaxSteps = 4
  Alias = FALSE
  IgnoreFlag = FALSE
  DictReload = TRUE
  LoseFlag = FALSE
INVARIANT TypeOK
INVARIANT PAdjCount
INVARIANT UserModelsKept
INVARIANT AllDecoded
PROPERTY OthersUntouched
VIEW View
CHECK_DEADLOCK FALSE
