\* thorough: every matrix of 2-3 species x 2 elements, entries 0..2, box -3..3
SPECIFICATION Spec
CONSTANTS
  NS <- NS23
  NE = 2
  MaxEntry = 2
  BoxR = 3
  Sorted = FALSE
  Rule = "full"
INVARIANT CertSound
CHECK_DEADLOCK FALSE
