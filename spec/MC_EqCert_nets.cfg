\* certificates proposed by the harness in this run (IOEnv.NETS_FILE), <= 6 species: CertOK and
\* brute-force spanning over -3..3
SPECIFICATION NSpec
CONSTANTS
  NS <- NS23
  NE = 2
  MaxEntry = 1
  BoxR = 3
  Sorted = FALSE
  Rule = "full"
INVARIANT CertSound
CHECK_DEADLOCK FALSE
