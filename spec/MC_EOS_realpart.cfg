\* C20 design model, selection variant "realpart" (expected to be REJECTED)
SPECIFICATION Spec
CONSTANTS
  RootVals <- MCRoots
  ReVals <- MCRe
  ImVals <- MCIm
  Pressures <- MCPressures
  Amounts <- MCAmounts
  IdealRTs <- MCIdealRTs
  Memo = "none"
  Variant = "realpart"
INVARIANT OnEquation
INVARIANT OracleMatches
INVARIANT ScanComplete
INVARIANT Selected
INVARIANT IdealLimit
PROPERTY RoundTrip
PROPERTY LinearInN
VIEW MCView
CHECK_DEADLOCK FALSE
