\* the algorithm of the code on every printed width and the empty prefix:
\* EXPECTED TO BE REJECTED (identifiers are re-printed as %04d, `_0004` loses its delimiter)
SPECIFICATION Spec
CONSTANTS
  Heads <- HeadsAll
  Numbers <- NumsAll
  Widths <- WidthsAll
  Extra <- ExtraAll
  MaxIds = 2
  Variant = "pad4"
INVARIANT TypeOK
INVARIANT NoSpuriousReject
INVARIANT LayoutOK
INVARIANT NoneLostInv
INVARIANT NoneAddedInv
CHECK_DEADLOCK FALSE
