\* toy instances: temperatures 1..6, Cp pieces {0,1,3}, references {0,7}, <= 3 segments
SPECIFICATION Spec
CONSTANTS
  TGrid = {1, 2, 3, 4, 5, 6}
  CpVals = {0, 1, 3}
  FRefs = {0, 7}
  MaxSeg = 3
  Algorithm = "walk"
INVARIANT Anchor
INVARIANT Continuous
INVARIANT BreaksInside
INVARIANT FirstWrongOnlyIf
CHECK_DEADLOCK FALSE
