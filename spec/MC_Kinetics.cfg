\* exhaustive design model: state functions in {-2,-1,0,1,3}, slopes {0,1/2,1}, intercepts {0,2},
\* 8 descriptors x 2 directions, with/without transition state; required behaviour
SPECIFICATION Spec
CONSTANTS
  Vals <- MCVals
  Slopes2 <- MCSlopes2
  Icpts <- MCIcpts
  Variant = "required"
  Kinds = {"plain", "bep"}
  MaxEdits = 0
INVARIANT TypeOK
INVARIANT ClampRefines
INVARIANT NotBelowMinimum
INVARIANT ClampConsistent
INVARIANT BepDifference
INVARIANT BepViaReaction
INVARIANT BepUandHSameBarrier
INVARIANT BepOffsetIsForwardBarrier
INVARIANT EditedEqualsFresh
CHECK_DEADLOCK FALSE
