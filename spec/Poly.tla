-------------------------------- MODULE Poly --------------------------------
(***************************************************************************)
(* C02 - NASA-7, NASA-9 and Shomate species as polynomials.                *)
(*                                                                         *)
(* Part A (calculus).  Every family is linear in its coefficient vector;   *)
(* coefficient k multiplies one monomial (n/d) X^p (ln X)^q in each of     *)
(* Cp/R, H/RT, S/R (X = T for NASA, X = t = T/1000 for Shomate, whose H    *)
(* table is H itself in kilo-units, not H/RT).  TLC checks for every       *)
(* (family, k):   d/dX (X * HoRT_k) = Cp_k   and   X * d/dX S_k = Cp_k      *)
(* with the formal derivative on monomials.  The same tables are evaluated *)
(* numerically by Trace_Poly.tla against the real evaluators, so a slip in *)
(* a basis term (T^3/4 -> T^3/3) is rejected by the trace spec, and a slip *)
(* in the table itself is rejected here.                                   *)
(*                                                                         *)
(* Part B (segment selection and array dispatch).  Temperatures live on an *)
(* integer grid: boundary id b sits at position 4b, 4b-1 / 4b+1 are the    *)
(* neighbouring doubles, 4b+2 is an interior point.  Required(f, segs, p)  *)
(* is the set of segments the property allows for position p; Impl(...) is *)
(* the rule the code uses; TLC checks Impl \in Required for every case     *)
(* and emits the cases (with the acceptable sets) for replay.              *)
(***************************************************************************)
EXTENDS Integers, Sequences, FiniteSets, TLC, Rat

Families == {"nasa7", "nasa9", "shomate"}
NCoef(f) == CASE f = "nasa7" -> 7 [] f = "nasa9" -> 9 [] f = "shomate" -> 8
Quantities == {"Cp", "H", "S"}

Mono(n, d, p, q) == [n |-> n, d |-> d, p |-> p, q |-> q]
Z == Mono(0, 1, 0, 0)

\* ---- basis tables: Basis[f][qty][k]
Nasa7Cp == <<Mono(1,1,0,0), Mono(1,1,1,0), Mono(1,1,2,0), Mono(1,1,3,0), Mono(1,1,4,0), Z, Z>>
Nasa7H  == <<Mono(1,1,0,0), Mono(1,2,1,0), Mono(1,3,2,0), Mono(1,4,3,0), Mono(1,5,4,0), Mono(1,1,-1,0), Z>>
Nasa7S  == <<Mono(1,1,0,1), Mono(1,1,1,0), Mono(1,2,2,0), Mono(1,3,3,0), Mono(1,4,4,0), Z, Mono(1,1,0,0)>>
Nasa9Cp == <<Mono(1,1,-2,0), Mono(1,1,-1,0), Mono(1,1,0,0), Mono(1,1,1,0), Mono(1,1,2,0), Mono(1,1,3,0), Mono(1,1,4,0), Z, Z>>
Nasa9H  == <<Mono(-1,1,-2,0), Mono(1,1,-1,1), Mono(1,1,0,0), Mono(1,2,1,0), Mono(1,3,2,0), Mono(1,4,3,0), Mono(1,5,4,0), Mono(1,1,-1,0), Z>>
Nasa9S  == <<Mono(-1,2,-2,0), Mono(-1,1,-1,0), Mono(1,1,0,1), Mono(1,1,1,0), Mono(1,2,2,0), Mono(1,3,3,0), Mono(1,4,4,0), Z, Mono(1,1,0,0)>>
\* Shomate in t = T/1000; H is the enthalpy itself (kilo-units), so d/dt H = Cp
ShomCp  == <<Mono(1,1,0,0), Mono(1,1,1,0), Mono(1,1,2,0), Mono(1,1,3,0), Mono(1,1,-2,0), Z, Z, Z>>
ShomH   == <<Mono(1,1,1,0), Mono(1,2,2,0), Mono(1,3,3,0), Mono(1,4,4,0), Mono(-1,1,-1,0), Mono(1,1,0,0), Z, Z>>
ShomS   == <<Mono(1,1,0,1), Mono(1,1,1,0), Mono(1,2,2,0), Mono(1,3,3,0), Mono(-1,2,-2,0), Z, Mono(1,1,0,0), Z>>

Basis(f, qty) ==
   CASE f = "nasa7" /\ qty = "Cp" -> Nasa7Cp [] f = "nasa7" /\ qty = "H" -> Nasa7H [] f = "nasa7" /\ qty = "S" -> Nasa7S
     [] f = "nasa9" /\ qty = "Cp" -> Nasa9Cp [] f = "nasa9" /\ qty = "H" -> Nasa9H [] f = "nasa9" /\ qty = "S" -> Nasa9S
     [] f = "shomate" /\ qty = "Cp" -> ShomCp [] f = "shomate" /\ qty = "H" -> ShomH [] f = "shomate" /\ qty = "S" -> ShomS

\* ---- formal calculus on sets of monomials, compared through their coefficient functions
PRange == -4..6
Coef(ms, p, q) == RSum([i \in 1..Len(ms) |->
                    IF ms[i].p = p /\ ms[i].q = q /\ ms[i].n # 0 THEN RFrac(ms[i].n, ms[i].d) ELSE <<0, 1>>])
SamePoly(a, b) == \A p \in PRange, q \in 0..1 : Coef(a, p, q) = Coef(b, p, q)
\* d/dX of one monomial: a sequence of one or two monomials
D(m) == IF m.n = 0 THEN <<>>
        ELSE (IF m.p # 0 THEN <<Mono(m.n * m.p, m.d, m.p - 1, m.q)>> ELSE <<>>)
             \o (IF m.q = 1 THEN <<Mono(m.n, m.d, m.p - 1, 0)>> ELSE <<>>)
TimesX(ms) == [i \in 1..Len(ms) |-> Mono(ms[i].n, ms[i].d, ms[i].p + 1, ms[i].q)]
RECURSIVE DSeq(_)
DSeq(ms) == IF Len(ms) = 0 THEN <<>> ELSE D(ms[1]) \o DSeq(Tail(ms))

\* H table holds H/RT for NASA (so H/R = X * H/RT) and H itself for Shomate
HFun(f, k) == IF f = "shomate" THEN <<Basis(f, "H")[k]>> ELSE TimesX(<<Basis(f, "H")[k]>>)
dHisCp(f, k) == SamePoly(DSeq(HFun(f, k)), <<Basis(f, "Cp")[k]>>)
TdSisCp(f, k) == SamePoly(TimesX(DSeq(<<Basis(f, "S")[k]>>)), <<Basis(f, "Cp")[k]>>)
\* integration constants: zero Cp term, nonzero in exactly one of H, S
IsConst(f, k) == Basis(f, "Cp")[k].n = 0
ConstOK(f, k) == IsConst(f, k) =>
                   (Basis(f, "H")[k].n = 0 \/ Basis(f, "S")[k].n = 0)
CalculusOK == \A f \in Families : \A k \in 1..NCoef(f) : dHisCp(f, k) /\ TdSisCp(f, k) /\ ConstOK(f, k)

\* ---- Part B: segment selection on the integer grid
\* a segment is <<lo, hi>> in boundary ids; position of boundary b is 4b.  A configuration also fixes the
\* ORDER in which a NASA-9 species stores its segments (ord: position in the stored list -> segment index):
\* the property does not ask for an ascending list, and the code scans the list as stored.
Pos(b) == 4 * b
InSeg(seg, p) == Pos(seg[1]) <= p /\ p <= Pos(seg[2])
Layouts ==
   {[f |-> "nasa7", segs |-> <<<<1, 2>>, <<2, 3>>>>],
    [f |-> "shomate", segs |-> <<<<1, 2>>>>],
    [f |-> "nasa9", segs |-> <<<<1, 2>>>>],
    [f |-> "nasa9", segs |-> <<<<1, 2>>, <<2, 3>>>>],
    [f |-> "nasa9", segs |-> <<<<1, 2>>, <<3, 4>>>>],                 \* gap
    [f |-> "nasa9", segs |-> <<<<1, 2>>, <<2, 3>>, <<3, 4>>>>],
    [f |-> "nasa9", segs |-> <<<<1, 2>>, <<3, 4>>, <<4, 5>>>>],       \* gap then contiguous
    [f |-> "nasa9", segs |-> <<<<1, 2>>, <<2, 3>>, <<4, 5>>>>],
    [f |-> "nasa9", segs |-> <<<<1, 2>>, <<2, 3>>, <<3, 4>>, <<4, 5>>>>],     \* four segments (the documented maximum)
    [f |-> "nasa9", segs |-> <<<<1, 2>>, <<2, 3>>, <<4, 5>>, <<5, 6>>>>]}     \* four segments with a gap
Identity(n) == [i \in 1..n |-> i]
Reverse(n) == [i \in 1..n |-> n + 1 - i]
\* one order that is neither ascending nor descending (n >= 3)
Mixed(n) == IF n = 3 THEN <<2, 3, 1>> ELSE <<3, 1, 4, 2>>
OrdersOf(l) == LET n == Len(l.segs) IN
               IF l.f # "nasa9" \/ n = 1 THEN {Identity(n)}
               ELSE IF n = 2 THEN {Identity(n), Reverse(n)}
               ELSE {Identity(n), Reverse(n), Mixed(n)}
Configs == UNION {{[f |-> l.f, segs |-> l.segs, ord |-> o] : o \in OrdersOf(l)} : l \in Layouts}
Ascending(c) == c.ord = Identity(Len(c.segs))
LastB(c) == c.segs[Len(c.segs)][2]
Positions(c) == 2..(Pos(LastB(c)) + 2)

\* what the property allows: 0 = refuse
Required(c, p) ==
   LET inside == {j \in 1..Len(c.segs) : InSeg(c.segs[j], p)} IN
   IF c.f = "nasa7"
   THEN (IF p < Pos(2) THEN {1} ELSE {2})          \* upper segment at T_mid; documented extrapolation outside
   ELSE IF c.f = "shomate" THEN {1}                \* single segment, documented extrapolation (warning)
   ELSE (IF inside = {} THEN {0} ELSE inside)      \* NASA-9: a containing segment, otherwise refused
\* what the code does: NASA-9 scans the segments in stored order and takes the first one that contains T
Impl(c, p) ==
   IF c.f = "nasa7" THEN (IF p < Pos(c.segs[1][2]) THEN 1 ELSE 2)
   ELSE IF c.f = "shomate" THEN 1
   ELSE LET hits == {i \in 1..Len(c.ord) : InSeg(c.segs[c.ord[i]], p)} IN
        IF hits = {} THEN 0 ELSE c.ord[CHOOSE i \in hits : \A j \in hits : i <= j]
SelectOK == \A c \in Configs : \A p \in Positions(c) : Impl(c, p) \in Required(c, p)
\* the stored order is observable only on a shared bound, and is never refused or accepted differently
OrderOnlyAtSharedBound ==
   \A c \in Configs : \A d \in Configs :
      (c.f = d.f /\ c.segs = d.segs) =>
         \A p \in Positions(c) : Impl(c, p) # Impl(d, p) => Cardinality(Required(c, p)) = 2

\* representatives used for array cases: one position per class
Reps(c) == {2} \cup {Pos(b) : b \in 1..LastB(c)} \cup {Pos(b) + 2 : b \in 1..LastB(c)}
            \cup {Pos(c.segs[1][2]) - 1, Pos(c.segs[1][2]) + 1}
\* ... and with the neighbouring doubles of EVERY bound (long arrays)
RepsAll(c) == Reps(c) \cup {Pos(b) - 1 : b \in 1..LastB(c)} \cup {Pos(b) + 1 : b \in 1..LastB(c)}
ArrLens == 2..3
Case(c, ps) == [f |-> c.f, segs |-> c.segs, ord |-> c.ord, ps |-> ps,
                acc |-> [i \in 1..Len(ps) |-> Required(c, ps[i])],
                impl |-> [i \in 1..Len(ps) |-> Impl(c, ps[i])]]
ScalarCasesOf(c) == {Case(c, <<p>>) : p \in Positions(c)}
ScalarCases == UNION {ScalarCasesOf(c) : c \in Configs}
ArrayCasesOf(c, n) == {Case(c, ps) : ps \in [1..n -> Reps(c)]}
\* all short arrays for the ascending layouts; pairs for the other stored orders
ArrayCases == UNION {ArrayCasesOf(c, n) : c \in {d \in Configs : Ascending(d)}, n \in ArrLens}
              \cup UNION {ArrayCasesOf(c, 2) : c \in {d \in Configs : ~Ascending(d)}}

\* longer arrays (lengths 4..12: e.g. a length equal to the number of coefficients makes a term matrix
\* square), built by walking the sorted representatives with a stride: ascending, shuffled and descending
RECURSIVE SortedSeq(_)
SortedSeq(S) == IF S = {} THEN <<>>
                ELSE LET m == CHOOSE x \in S : \A y \in S : x <= y IN <<m>> \o SortedSeq(S \ {m})
RepSeq(c) == SortedSeq(RepsAll(c))
Walk(c, n, stride, off) == LET r == RepSeq(c)  L == Len(r)
                           IN [i \in 1..n |-> r[((off + (i - 1) * stride) % L) + 1]]
LongCase(c, ps) == Case(c, ps)
\* the same over the representatives that are not refused (so that NASA-9 arrays are evaluated, not refused)
InRepSeq(c) == SortedSeq({p \in RepsAll(c) : Required(c, p) # {0}})
WalkIn(c, n, stride, off) == LET r == InRepSeq(c)  L == Len(r)
                             IN [i \in 1..n |-> r[((off + (i - 1) * stride) % L) + 1]]
LongInCases == {LongCase(c, WalkIn(c, n, st, off)) :
                  c \in {d \in Configs : d.f = "nasa9"}, n \in 4..12, st \in {1, 2, 3}, off \in {0, 1}}
               \cup {LongCase(c, WalkIn(c, n, Len(InRepSeq(c)) - 1, off)) :   \* descending, never refused
                  c \in {d \in Configs : d.f = "nasa9"}, n \in 4..12, off \in {0, 2}}
LongArrayCases == LongInCases \cup {LongCase(c, Walk(c, n, st, off)) :
                     c \in Configs, n \in 4..12, st \in {1, 3, 7}, off \in {0, 1}}
                  \cup {LongCase(c, Walk(c, n, Len(RepSeq(c)) - 1, off)) :        \* descending
                     c \in Configs, n \in 4..12, off \in {0, 2}}

\* ---- a (trivial) state machine so that TLC has something to explore: the pair under test
VARIABLES fam, k
Init == fam \in Families /\ k \in 1..NCoef(fam)
Next == UNCHANGED <<fam, k>>
Spec == Init /\ [][Next]_<<fam, k>>
TermOK == dHisCp(fam, k) /\ TdSisCp(fam, k) /\ ConstOK(fam, k)
=============================================================================
