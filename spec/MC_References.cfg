\* exhaustive design model: every list of <= 3 references over 2 descriptors with entries 0..2 (all
\* rank cases of matrices up to 3 x 2), d in {-1, 0, 2}, T_ref in {296, 300}; <= 3 calls after the constructor
SPECIFICATION Spec
CONSTANTS
  ND = 2
  RefKinds <- MCKinds
  InsKinds <- MCIns
  ExtSets <- MCExt
  InitSets <- MCInit
  MaxRefs = 3
  MaxOps = 3
  Variant = "explicit"
  Steps <- MCSteps
  Algo = "lstsq"
  Garbage = 1000
  Acts = {"clear"}
  GivenSets <- NoGiven
  Record = FALSE
  Temps = {200, 1000}
INVARIANT NormalEquations
INVARIANT Optimal
INVARIANT Reproduces
INVARIANT FitIsContraction
INVARIANT OffsetsBounded
INVARIANT KeysAreDescriptors
INVARIANT TrefIsMean
INVARIANT MinNorm
INVARIANT Linear
INVARIANT AbsentContributesNothing
INVARIANT TIndependent
INVARIANT ReproducesAtTref
PROPERTY StaleAfterEdit
VIEW View
CHECK_DEADLOCK FALSE
