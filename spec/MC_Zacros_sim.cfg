\* X08: long random behaviours (-simulate) for replay
SPECIFICATION Spec
CONSTANTS
  ModeIds <- MCModeIds3
  MaxModes = 4
  MaxA = 2
  MaxB = 3
  MaxC = 3
  MaxOps = 8
  Walk = TRUE
  QRotRule = "product"
  DictRule = "complete"
INVARIANT EmitBehaviours
CHECK_DEADLOCK FALSE
