\* X08: long random behaviours (-simulate) for replay
SPECIFICATION Spec
CONSTANTS
  ModeIds <- MCModeIds3
  MaxModes = 3
  MaxA = 2
  MaxB = 2
  MaxC = 2
  MaxOps = 8
  Walk = TRUE
  QRotRule = "product"
  DictRule = "complete"
INVARIANT EmitBehaviours
CHECK_DEADLOCK FALSE
