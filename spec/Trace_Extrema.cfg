SPECIFICATION TSpec
CONSTANTS
  MaxR = 1
  MaxP = 1
  MaxR2 = 1
  MaxP2 = 1
  Vals = {0}
  MaxS = 1
  SVals = {0}
  MaxSteps = 1
  StepVals = {0}
  Variant = "axis0"
POSTCONDITION Post
CHECK_DEADLOCK FALSE
