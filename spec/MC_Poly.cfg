SPECIFICATION Spec
INVARIANT TermOK
