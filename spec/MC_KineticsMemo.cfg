\* one shared BEP, 2 addresses, descriptor values {1, 2}, <= 6 operations; required behaviour
SPECIFICATION Spec
CONSTANTS
  Addr = {1, 2}
  DVals = {1, 2}
  MaxOps = 6
  Variant = "required"
INVARIANT DescriptorIsCurrent
CHECK_DEADLOCK FALSE
