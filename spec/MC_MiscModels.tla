---------------------------- MODULE MC_MiscModels ----------------------------
EXTENDS MiscModels
NoDup(s) == \A i, j \in 1..Len(s) : s[i] = s[j] => i = j
OnePAdj(s) == Cardinality({i \in 1..Len(s) : s[i] \in {"PAdj", "PAdjDict"}}) <= 1
ListsOver(K, n) == {[none |-> FALSE, l |-> s] :
                      s \in UNION {{s \in [1..m -> K] : NoDup(s) /\ OnePAdj(s)} : m \in 0..n}}
NoneGiven == [none |-> TRUE, l |-> <<>>]
\* exhaustive config: duplicate-free lists of <= 3 models over 4 kinds with <= 1 adjustment (27 lists + None)
MCGivens == ListsOver({"PAdj", "PAdjDict", "CovB", "P1"}, 3) \cup {NoneGiven}
\* the six phases of the quantifier plus two "other phases" that are substrings of / contain 'gas'
MCPhases == {"g", "gas", "G", "s", "S", "None", "as", "surface"}
MCSibPhases == {"g", "S"}
MCAttach == {"CovC"}
\* behaviour config (replayed into the real classes)
\* lists of <= 2, duplicates of a coverage model (two models with the same name_j) allowed
DupLists(K, n) == {[none |-> FALSE, l |-> s] :
                     s \in UNION {{s \in [1..m -> K] : OnePAdj(s)} : m \in 0..n}}
BehGivens == DupLists({"PAdj", "PAdjDict", "CovB", "P2C"}, 2) \cup {NoneGiven}
BehPhases == {"g", "G", "gas", "s", "S", "None", "as"}
BehSibPhases == {"gas", "S"}
BehAttach == {"P1"}
\* simulation config (longer random lifecycles)
SimGivens == ListsOver({"PAdj", "PAdjDict", "CovB", "CovC", "P1", "P2B", "P2C"}, 4) \cup {NoneGiven}
SimAttach == {"CovC", "P1", "P2B"}
View == <<heap, objs, caller, Len(h), IF h = <<>> THEN "" ELSE h[Len(h)].act>>
=============================================================================
