\* the tables of the pinned source: TLC is expected to REJECT this configuration (RegistryTotal)
SPECIFICATION Spec
CONSTANTS
  Variant = "pinned"
  MaxDepth = 2
  MaxLife = 4
  Roots <- AllRoots
INVARIANT RegistryTotal
CHECK_DEADLOCK FALSE
