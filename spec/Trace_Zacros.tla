---------------------------- MODULE Trace_Zacros ----------------------------
(***************************************************************************)
(* X08 - trace validation of pmutt.empirical.zacros.Zacros and of the      *)
(* EmpiricalBase comparison helpers.                                       *)
(*                                                                         *)
(* Lines (ev):                                                             *)
(*   construct  one Zacros(...) call: the arguments, what the object then  *)
(*              reports, libm sensors exp(-x) / 1-exp(-x) computed by the  *)
(*              harness from the logged wavenumbers, quotient witnesses    *)
(*   defaults   the inherited _ModelBase getters of a Zacros object        *)
(*   roundtrip  to_dict + from_dict, or json.dumps + json.loads            *)
(*   compare    one compare_CpoR/HoRT/SoR/GoRT call on a Nasa / Shomate    *)
(*              species that carries a StatMech model, with the scalar     *)
(*              evaluations of both models at every returned temperature   *)
(* Definitions judged here (T0 = 298.15 K; CODATA 2014, the set the        *)
(* library documents; unit table values as documented in                   *)
(* pmutt.constants.convert_unit: 0.000239006 kcal/J, 6.022e26 amu/kg):     *)
(*   eps_i = h c nu_i          theta_i = eps_i / kB                        *)
(*   zpe = Na sum(eps_i)/2 in kcal/mol                                     *)
(*   q_vib = prod 1/(1 - exp(-theta_i/T0))     (some nu_i # 0)             *)
(*   T_I = h^2/(8 pi^2 kB)                                                 *)
(*   q_rot = T0 I/(sigma T_I) linear; sqrt(pi I1 I2 I3)/sigma (T0/T_I)^1.5 *)
(*           nonlinear (RigidRotor.get_q with Theta = T_I/I); 0 surface    *)
(*   MW = M(elements) 1e-3/Na  q_trans2D = A_st 2 pi MW kB T0/h^2          *)
(* Numbers are Dec (9 digits); `k = 6` clauses have a handful of products. *)
(* Stored inputs and round trips are compared as 17-digit Dec2 values.     *)
(***************************************************************************)
EXTENDS Dec2, TLC, TLCExt, Json, IOUtils

TraceLog == ndJsonDeserialize(IOEnv.TRACE_FILE)
VARIABLES l

H == <<662607004, -42>>          \* J s
KB == <<138064852, -31>>         \* J / K
CC == <<299792458, 2>>           \* cm / s
NA == <<602214086, 15>>          \* 1 / mol
T0 == <<29815, -2>>              \* K
PI == <<314159265, -8>>
KcalPerJ == <<239006, -9>>
AmuPerKg == <<6022, 23>>
A2PerM2 == <<1, 20>>
One == <<1, 0>>
HC == Mul(H, CC)                 \* J cm

Idx(s) == 1..Len(s)
SetOf(s) == {s[i] : i \in Idx(s)}
Chk(ok, name) == IF ok THEN {} ELSE {name}
RECURSIVE MaxSeq(_)
MaxSeq(s) == IF Len(s) = 1 THEN s[1] ELSE DMax(s[1], MaxSeq(Tail(s)))
Same2(a, b) == Len(a) = Len(b) /\ \A i \in Idx(a) : Equal2(a[i], b[i])

\* ---------------------------------------------------------------- construct
\* e.in : phase geom sigma inertia[] amom[] fromAtoms hasA A wn[] E els[<<sym, count, weight>>]
\* e.st : stored copies (Dec2) of A, sigma, E, inertia; geometry
\* e.r  : eps[] theta[] zpe hasq qvib hasI3 I3[] hasTI TI qrot hasMW MW qtrans
\* e.s  : x[] ex[] om[]   (x_i = theta_i/T0 witness; ex = exp(-x), om = 1 - exp(-x) sensors)
VibClauses(e) ==
   LET wn == e.in.wn  n == Len(wn)  r == e.r  s == e.s
       allzero == \A i \in Idx(wn) : IsZero(wn[i])
   IN IF Len(r.eps) # n \/ Len(r.theta) # n THEN {"VibLengths"}
      ELSE Chk(\A i \in 1..n : Close(r.eps[i], Mul(HC, wn[i]), 7), "VibEnergy")
           \cup Chk(\A i \in 1..n : Close(Mul(r.theta[i], KB), Mul(HC, wn[i]), 7), "VibTemperature")
           \cup Chk(LET tot == SumSeq([i \in 1..n |-> Mul(HC, wn[i])])
                    IN Close(Mul(I(2), r.zpe), Mul(Mul(tot, NA), KcalPerJ), 6), "ZeroPointEnergy")
           \cup Chk(r.hasq = ~allzero, "QVibDefined")
           \cup (IF allzero \/ ~r.hasq THEN {}
                 ELSE IF Len(s.x) # n \/ Len(s.ex) # n \/ Len(s.om) # n THEN {"WITNESS"}
                 ELSE Chk(\A i \in 1..n : /\ Close(Mul(Mul(s.x[i], T0), KB), Mul(HC, wn[i]), 6)
                                          /\ Close(Add(s.om[i], s.ex[i]), One, 8), "WITNESS")
                      \cup Chk(Close(Mul(r.qvib, ProdSeq(s.om)), One, 6), "QVib"))

RotClauses(e) ==
   LET i == e.in  r == e.r IN
   IF i.phase # "G"
   THEN Chk(IsZero(r.qrot), "QRotSurface") \cup Chk(~r.hasI3, "DefinedQuantities")
   ELSE IF ~r.hasI3 \/ ~r.hasTI THEN {"DefinedQuantities"}
   ELSE
   LET mom == r.I3
       momOK == IF i.fromAtoms
                THEN Len(mom) = Len(i.amom)
                     /\ \A k \in Idx(mom) : CloseIn(Mul(Mul(mom[k], AmuPerKg), A2PerM2), i.amom[k],
                                                    {MaxSeq(i.amom)}, 6)
                ELSE Len(mom) = Len(i.inertia) /\ \A k \in Idx(mom) : Close(mom[k], i.inertia[k], 8)
       used == mom                  \* q_rot is judged against the moments the object reports (checked above)
       ti3 == Mul(r.TI, Mul(r.TI, r.TI))
       t3 == Mul(T0, Mul(T0, T0))
       qs == Mul(r.qrot, i.sigma)
   IN Chk(momOK, "MomentsOfInertia")
      \cup Chk(Close(Mul(Mul(I(8), Mul(PI, PI)), Mul(KB, r.TI)), Mul(H, H), 6), "RotConstant")
      \cup (CASE i.geom = "nonlinear" ->
                  IF Len(used) # 3 THEN {"MomentsOfInertia"}
                  ELSE IF Close(Mul(Mul(qs, qs), ti3), Mul(Mul(PI, t3), Mul(used[1], Mul(used[2], used[3]))), 6) THEN {}
                  \* known finding X08-F2: exactly sqrt(pi max(I))/sigma (T0/T_I)^1.5
                  ELSE IF Close(Mul(Mul(qs, qs), ti3), Mul(Mul(PI, t3), MaxSeq(used)), 6)
                       THEN {"QRotNonlinear_KnownMaxMoment"} ELSE {"QRotNonlinear"}
              [] i.geom = "linear" -> Chk(Close(Mul(qs, r.TI), Mul(T0, MaxSeq(used)), 6), "QRotLinear")
              [] OTHER -> Chk(IsZero(r.qrot), "QRotMonatomic"))

TransClauses(e) ==
   LET i == e.in  r == e.r IN
   IF ~i.hasA THEN Chk(~r.hasMW, "DefinedQuantities")
   ELSE IF ~r.hasMW THEN {"DefinedQuantities"}
   ELSE LET molar == SumSeq([k \in Idx(i.els) |-> Mul(I(i.els[k][2]), i.els[k][3])])     \* g / mol
        IN Chk(Close(Mul(Mul(r.MW, NA), <<1, 3>>), molar, 6), "MassPerMolecule")
           \cup Chk(Close(Mul(r.qtrans, Mul(H, H)),
                          Mul(Mul(i.A, Mul(I(2), PI)), Mul(r.MW, Mul(KB, T0))), 6), "QTrans2D")

StoredClauses(e) ==
   Chk(/\ Equal2(e.st.A, e.in2.A) /\ Equal2(e.st.sigma, e.in2.sigma) /\ Equal2(e.st.E, e.in2.E)
       /\ Same2(e.st.inertia, e.in2.inertia) /\ e.st.geom = e.in.geom /\ e.st.phase = e.in.phase
       /\ e.st.name = e.in2.name /\ e.st.els = e.in2.els /\ e.st.nones = e.in2.nones, "StoredInputs")

ConstructClauses(e) ==
   \* known finding X08-F1: numpy.product does not exist (NumPy >= 2); only a species with a real vibration reaches
   \* that call, and only without the driver's shim (e.shim: numpy.product provided for the continuation)
   IF e.raised THEN (IF e.errkind = "np.product" /\ ~e.shim /\ \E i \in Idx(e.in.wn) : ~IsZero(e.in.wn[i])
                     THEN {"Raises_KnownNumpyProduct"} ELSE {"Raises"})
   ELSE IF ~e.finite THEN {"Finite"}
   ELSE VibClauses(e) \cup RotClauses(e) \cup TransClauses(e) \cup StoredClauses(e)

\* ---------------------------------------------------------------- defaults
\* e.q, e.dimless[<<name, value>>], e.dims[<<name, unit, T, value>>]
DefaultClauses(e) ==
   IF e.raised THEN {"Raises"}
   ELSE Chk(e.q = One \/ Close(e.q, One, 8), "DefaultPartitionFunction")
        \cup Chk(\A k \in Idx(e.dimless) : IsZero(e.dimless[k][2]), "DefaultDimensionless")
        \* value = dimensionless x R x T; the dimensionless defaults are 0
        \cup Chk(\A k \in Idx(e.dims) : IsZero(e.dims[k][4]), "DefaultUnits")

\* ---------------------------------------------------------------- roundtrip
RequiredKeys == {"class", "name", "phase", "elements", "model", "misc_models", "A_st", "geometry", "symmetrynumber",
                 "inertia", "vib_wavenumbers", "potentialenergy"}
SameObj(a, b) ==
   /\ a.name = b.name /\ a.phase = b.phase /\ a.geom = b.geom /\ a.els = b.els /\ a.misc = b.misc /\ a.model = b.model
   /\ Equal2(a.A, b.A) /\ Equal2(a.sigma, b.sigma) /\ Equal2(a.E, b.E)
SameDerived(a, b) ==
   /\ Same2(a.eps, b.eps) /\ Same2(a.theta, b.theta) /\ Equal2(a.zpe, b.zpe)
   /\ a.hasq = b.hasq /\ Equal2(a.qvib, b.qvib)
   /\ a.hasI3 = b.hasI3 /\ Same2(a.I3, b.I3) /\ Equal2(a.qrot, b.qrot)
   /\ a.hasMW = b.hasMW /\ Equal2(a.MW, b.MW) /\ Equal2(a.qtrans, b.qtrans)
RoundTripClauses(e) ==
   \* known finding X08-F3: to_dict reads attributes that exist only for some species (inertia, q_vib, I3, MW) and
   \* has no return statement
   IF e.dictRaised
   THEN (IF \/ e.errkind = "TypeError:NoneIterable" /\ e.before.inertiaNone
            \/ e.errkind = "AttributeError:q_vib" /\ ~e.before.hasq
            \/ e.errkind = "AttributeError:I3" /\ ~e.before.hasI3
            \/ e.errkind = "AttributeError:MW" /\ ~e.before.hasMW
         THEN {"ToDict_KnownMissingAttribute"} ELSE {"ToDictRaises"})
   ELSE IF ~e.isdict THEN (IF e.retnone THEN {"ToDict_KnownNoReturn"} ELSE {"ToDictReturnsDict"})
   ELSE Chk(e.jsonable, "DictJsonTypes")
        \cup Chk(e.cls = "<class 'pmutt.empirical.zacros.Zacros'>", "DictClass")
        \cup Chk(RequiredKeys \subseteq SetOf(e.keys), "DictKeys")
        \cup (IF e.loadRaised THEN {"FromDictRaises"}
              ELSE IF ~e.isobj THEN {"FromDictReturnsZacros"}
              ELSE Chk(SameObj(e.before, e.after), "RoundTripInputs")
                   \cup Chk(SameDerived(e.before, e.after), "RoundTripDerived")
                   \cup Chk(e.eqdict /\ e.eq, "RoundTripEqual"))

\* ---------------------------------------------------------------- compare
\* e.given (T passed) e.Targ[] e.Tret[] e.model[] e.emp[] e.dmodel[] e.demp[] e.Tlow e.Thigh (all Dec2)
CurveScale(v) == MaxSeq(<<One>> \o [k \in Idx(v) |-> DAbs(ToDec(v[k]))])
Dle2(a, b) == Le(ToDec(a), ToDec(b)) \/ Equal2(a, b)
CompareClauses(e) ==
   IF e.raised THEN {"Raises"}
   ELSE IF ~e.finite THEN {"Finite"}
   ELSE LET n == Len(e.Tret) IN
        (IF e.given THEN Chk(Same2(e.Tret, e.Targ), "CompareEchoT")
         ELSE Chk(/\ n >= 2
                  /\ \A k \in 1..n : Dle2(e.Tlow, e.Tret[k]) /\ Dle2(e.Tret[k], e.Thigh)
                  /\ \A k \in 1..(n - 1) : Lt(ToDec(e.Tret[k]), ToDec(e.Tret[k + 1])), "CompareDefaultRange"))
        \cup (IF Len(e.model) # n \/ Len(e.emp) # n \/ Len(e.dmodel) # n \/ Len(e.demp) # n
              \* known finding X08-F4: compare_CpoR hands the array to the StatMech model; with one mode or as many
              \* temperatures as modes it broadcasts and ONE number comes back
              THEN (IF e.which = "CpoR" /\ n > 1 /\ Len(e.model) = 1 /\ Len(e.emp) = n /\ Len(e.dmodel) = n
                       /\ Len(e.demp) = n /\ (e.nmodes = 1 \/ e.nmodes = n)
                    THEN {"CompareLengths_KnownBroadcast"} ELSE {"CompareLengths"})
              \* array vs scalar evaluation: 1e-12 of the largest value of the curve (a polynomial may cross zero
              \* by cancellation of terms of that size), never less than 1e-12 absolute
              ELSE Chk(\A k \in 1..n : Close2At(e.model[k], e.dmodel[k], CurveScale(e.dmodel), 12), "CompareModel")
                   \cup Chk(\A k \in 1..n : Close2At(e.emp[k], e.demp[k], CurveScale(e.demp), 12), "CompareEmpirical"))

Clauses(e) ==
   CASE e.ev = "construct" -> ConstructClauses(e)
     [] e.ev = "defaults" -> DefaultClauses(e)
     [] e.ev = "roundtrip" -> RoundTripClauses(e)
     [] e.ev = "compare" -> CompareClauses(e)
     [] OTHER -> {"UnknownEvent"}

Init == l = 1 /\ TLCSet(1, {})
Next == /\ l <= Len(TraceLog)
        /\ LET e == TraceLog[l]  bad == Clauses(e) IN
             IF bad # {} THEN TLCSet(1, TLCGet(1) \cup {<<e.tid, l, c>> : c \in bad}) ELSE TRUE
        /\ l' = l + 1
Spec == Init /\ [][Next]_l
Post == /\ PrintT(<<"FAILS", TLCGet(1)>>)
        /\ PrintT(<<"CONSUMED", TLCGet("stats").diameter - 1>>)
=============================================================================
