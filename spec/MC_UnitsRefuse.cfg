SPECIFICATION Spec
CONSTANTS
  Variant = "check_first"
  MaxRequests = 3
INVARIANT RefusedEveryTime
VIEW View
CHECK_DEADLOCK FALSE
