\* case generation (constant level): every single, every pair, uniform all-supplied, generic dictionaries
SPECIFICATION Spec
CONSTANTS
  Variant = "repaired"
  Emitting = TRUE
CHECK_DEADLOCK FALSE
