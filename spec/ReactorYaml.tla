----------------------------- MODULE ReactorYaml -----------------------------
(***************************************************************************)
(* C07 (reactor file) - the option space of pmutt.io.omkm.write_yaml.      *)
(*                                                                         *)
(* "The reactor YAML file carries every supplied operating value with its  *)
(* unit and nothing else."                                                 *)
(*                                                                         *)
(* An ASSIGNMENT gives some options a FORM (everything else is omitted):   *)
(*   py_int py_float np_int np_float   a Python / NumPy number             *)
(*   str_with_unit                     "<value> <unit>" chosen by the user *)
(*   str  true false                   plain strings, booleans             *)
(*   list_py np_array list_str list_mixed   lists for the multi_* options  *)
(*   names_str names_obj               ids / objects for the *_SA options  *)
(*   ph_empty ph_gas ph_all            phase objects ([], gas, all kinds)  *)
(* plus how `units` is passed (absent | obj | dict) and which unit system. *)
(* Options(k) is the documented table of write_yaml's docstring: YAML path *)
(* and unit template of every option.  The value of an option in a form is *)
(* fixed by FormValue (distinct per option, exactly representable).        *)
(*                                                                         *)
(* Expected(c) = the leaves the loaded document must have:                 *)
(*   - one leaf per supplied option at its documented path (one per list   *)
(*     element, path + <<"#k">>);                                          *)
(*   - a number given for an option with a unit template, when `units` is  *)
(*     given, is the text "<number> <unit>", unit = template resolved in   *)
(*     `units`; when `units` is absent the bare number (the docstring:     *)
(*     "all values in file are assumed to be SI units");                   *)
(*   - a string with units is passed through verbatim;                     *)
(*   - entries of the generic dictionaries win over arguments.             *)
(* Allowed but not required: reactor.temperature / reactor.pressure /      *)
(* inlet_gas.flow_rate equal to the FIRST element of multi_T / multi_P /   *)
(* multi_flow_rate when T / P / flow_rate are omitted (what the writer     *)
(* does for OpenMKM's multi-input runs; not in the docstring).             *)
(*                                                                         *)
(* Verdict(c, obs) is THE property: the set of failing clause names        *)
(*   Raises  Loads  EverySupplied  NothingElse  UnitAttached  ValueEqual   *)
(* where obs is the projection of the real file: raised / loaded flags and *)
(* the leaves of yaml.safe_load(text) as [path, k, num, s, codes].         *)
(*                                                                         *)
(* Outcome(variant, ...) is the implementation-shaped algorithm            *)
(* (_assign_yaml_val): "pinned" is the source as found, "repaired" the     *)
(* proposed one; TLC checks that the variant yields "ok" for every option  *)
(* x form x units (MC_ReactorYaml*.cfg).                                   *)
(***************************************************************************)
EXTENDS Dec, Text, TLC

\* ---- unit systems (texts as character codes) --------------------------------
C_cm == <<99, 109>>     C_m == <<109>>          C_s == <<115>>       C_min == <<109, 105, 110>>
C_g == <<103>>          C_kg == <<107, 103>>    C_atm == <<97, 116, 109>>
C_Pa == <<80, 97>>      C_bar == <<98, 97, 114>>
C_mol == <<109, 111, 108>>   C_molec == <<109, 111, 108, 101, 99>>
C_kcal == <<107, 99, 97, 108>>   C_J == <<74>>   C_cal == <<99, 97, 108>>
C_kcalmol == <<107, 99, 97, 108, 47, 109, 111, 108>>   C_Jmol == <<74, 47, 109, 111, 108>>
C_calmol == <<99, 97, 108, 47, 109, 111, 108>>
UnitSystems ==
   [cgs |-> [length |-> C_cm, time |-> C_s, mass |-> C_g, pressure |-> C_atm,
             quantity |-> C_mol, energy |-> C_kcal, act_energy |-> C_kcalmol],
    si  |-> [length |-> C_m, time |-> C_s, mass |-> C_kg, pressure |-> C_Pa,
             quantity |-> C_mol, energy |-> C_J, act_energy |-> C_Jmol],
    mix |-> [length |-> C_m, time |-> C_min, mass |-> C_kg, pressure |-> C_bar,
             quantity |-> C_molec, energy |-> C_cal, act_energy |-> C_calmol]]
Resolve(tmpl, u) ==
   CASE tmpl = "length3" -> u.length \o <<51>>
     [] tmpl = "length2" -> u.length \o <<50>>
     [] tmpl = "length" -> u.length
     [] tmpl = "per_length" -> <<47>> \o u.length
     [] tmpl = "pressure" -> u.pressure
     [] tmpl = "time" -> u.time
     [] tmpl = "mass_per_time" -> u.mass \o <<47>> \o u.time
     [] tmpl = "length3_per_time" -> u.length \o <<51, 47>> \o u.time

\* ---- the documented option table --------------------------------------------
Opt(o, path, tmpl, cls, str) == [o |-> o, path |-> path, tmpl |-> tmpl, cls |-> cls, str |-> str]
Options == <<
   Opt("reactor_type",     <<"reactor", "type">>,                 "none", "lab4", "cstr"),
   Opt("temperature_mode", <<"reactor", "temperature_mode">>,     "none", "lab2", "isothermal"),
   Opt("pressure_mode",    <<"reactor", "pressure_mode">>,        "none", "lab2", "isobaric"),
   Opt("nodes",            <<"reactor", "nodes">>,                "none", "int",  ""),
   Opt("V",                <<"reactor", "volume">>,               "length3", "dim", "2.5 m3"),
   Opt("T",                <<"reactor", "temperature">>,          "none", "num",  ""),
   Opt("P",                <<"reactor", "pressure">>,             "pressure", "dim", "2 bar"),
   Opt("A",                <<"reactor", "area">>,                 "length2", "dim", "4 m2"),
   Opt("L",                <<"reactor", "length">>,               "length", "dim", "0.5 m"),
   Opt("cat_abyv",         <<"reactor", "cat_abyv">>,             "per_length", "dim", "1500 /cm"),
   Opt("flow_rate",        <<"inlet_gas", "flow_rate">>,          "length3_per_time", "dim", "1 cm3/s"),
   Opt("residence_time",   <<"inlet_gas", "residence_time">>,     "time", "dim", "10 s"),
   Opt("mass_flow_rate",   <<"inlet_gas", "mass_flow_rate">>,     "mass_per_time", "dim", "3 kg/s"),
   Opt("end_time",         <<"simulation", "end_time">>,          "time", "dim", "50 s"),
   Opt("transient",        <<"simulation", "transient">>,         "none", "bool", ""),
   Opt("stepping",         <<"simulation", "stepping">>,          "none", "lab2", "logarithmic"),
   Opt("init_step",        <<"simulation", "init_step">>,         "none", "numstr", "1e-6 s"),
   Opt("step_size",        <<"simulation", "step_size">>,         "none", "numstr", "10 s"),
   Opt("atol",             <<"simulation", "solver", "atol">>,    "none", "num",  ""),
   Opt("rtol",             <<"simulation", "solver", "rtol">>,    "none", "num",  ""),
   Opt("full_SA",          <<"simulation", "sensitivity", "full">>, "none", "bool", ""),
   Opt("reactions_SA",     <<"simulation", "sensitivity", "reactions">>, "none", "names", "r_"),
   Opt("species_SA",       <<"simulation", "sensitivity", "species">>,   "none", "names", "S"),
   Opt("multi_T",          <<"simulation", "multi_input", "temperature">>, "none", "numlist", ""),
   Opt("multi_P",          <<"simulation", "multi_input", "pressure">>,  "pressure", "dimlist", "atm"),
   Opt("multi_flow_rate",  <<"simulation", "multi_input", "flow_rate">>, "length3_per_time", "dimlist", "cm3/s"),
   Opt("output_format",    <<"simulation", "output_format">>,     "none", "lab2", "csv"),
   Opt("phases",           <<"phases">>,                          "none", "phases", "") >>
NOpt == Len(Options)
OptIdx == 1..NOpt
Index(o) == CHOOSE k \in OptIdx : Options[k].o = o

\* documented label tables of the string options (write_yaml docstring): every label is a form
Labels(o) ==
   CASE o = "reactor_type" -> <<"pfr", "pfr_0d", "cstr", "batch">>
     [] o = "temperature_mode" -> <<"Isothermal", "Adiabatic">>
     [] o = "pressure_mode" -> <<"Isobaric", "Isochoric">>
     [] o = "stepping" -> <<"logarithmic", "regular">>
     [] o = "output_format" -> <<"CSV", "DAT">>
LabIx(form) == IF form = "lab1" THEN 1 ELSE IF form = "lab2" THEN 2 ELSE IF form = "lab3" THEN 3 ELSE 4
NumForms == {"py_int", "py_float", "np_int", "np_float", "zero", "zero_float", "np_i32", "np_f32"}
FormsOf(cls) ==
   CASE cls = "str" -> {"str"}
     [] cls = "lab4" -> {"lab1", "lab2", "lab3", "lab4"}
     [] cls = "lab2" -> {"lab1", "lab2"}
     [] cls = "int" -> {"py_int", "np_int", "zero", "np_i32"}
     [] cls = "num" -> NumForms
     [] cls = "dim" -> NumForms \cup {"str_with_unit"}
     [] cls = "numstr" -> NumForms \cup {"str_with_unit"}
     [] cls = "bool" -> {"true", "false", "np_true"}
     [] cls = "names" -> {"names_str", "names_obj"}
     [] cls = "numlist" -> {"list_py", "np_array", "tuple_py", "list_int"}
     [] cls = "dimlist" -> {"list_py", "np_array", "tuple_py", "list_int", "list_str", "list_mixed"}
     [] cls = "phases" -> {"ph_empty", "ph_gas", "ph_all"}

\* ---- values (distinct per option; integers and dyadic fractions) -------------
NumOf(k, form) ==
   CASE form = "py_int" -> <<3 + k, 0>>
     [] form = "py_float" -> <<(3 + k) * 10 + 5, -1>>
     [] form = "np_int" -> <<40 + k, 0>>
     [] form = "np_float" -> <<(40 + k) * 100 + 25, -2>>
     [] form = "zero" -> <<0, 0>>                   \* falsy values are values
     [] form = "zero_float" -> <<0, 0>>
     [] form = "np_i32" -> <<80 + k, 0>>
     [] form = "np_f32" -> <<(60 + k) * 10 + 5, -1>>    \* exact in single precision
ListNums(k) == << <<k * 10 + 5, -1>>, <<(100 + k) * 10 + 5, -1>> >>       \* k.5, (100+k).5
ListInts(k) == << <<k, 0>>, <<0, 0>> >>
\* "1 atm", "2 bar" style elements of list_str / list_mixed (TLA+ strings are atomic, so the
\* two spellings per option are tabulated)
ListStrs(k) == IF Options[k].o = "multi_P" THEN <<"1 atm", "2 bar">> ELSE <<"1 cm3/s", "2 m3/s">>
Names(k, form) == IF Options[k].o = "reactions_SA" THEN <<"r_0001", "r_0002">> ELSE <<"H2", "N2(S)">>

\* ---- expected leaves -----------------------------------------------------------
Leaf(path, kind, num, unit, s, b) == [path |-> path, kind |-> kind, num |-> num, unit |-> unit, s |-> s, b |-> b]
NumLeaf(path, num, tmpl, c) ==
   IF tmpl # "none" /\ c.units # "absent"
   THEN Leaf(path, "numunit", num, Resolve(tmpl, UnitSystems[c.usys]), "", FALSE)
   ELSE Leaf(path, "num", num, <<>>, "", FALSE)
StrLeaf(path, s) == Leaf(path, "str", Zero, <<>>, s, FALSE)
Ix(j) == IF j = 1 THEN "#1" ELSE IF j = 2 THEN "#2" ELSE IF j = 3 THEN "#3" ELSE "#4"

PhaseLeaves(form) ==
   IF form = "ph_empty" THEN {}
   ELSE IF form = "ph_gas"
   THEN {StrLeaf(<<"phases", "gas", "name">>, "gas")}
   ELSE {StrLeaf(<<"phases", "gas", "name">>, "gas"),
         StrLeaf(<<"phases", "gas", "initial_state">>, "H2:0.5, N2:0.5"),
         StrLeaf(<<"phases", "bulk", "name">>, "bulk"),
         StrLeaf(<<"phases", "surfaces", "#1", "name">>, "terrace"),
         StrLeaf(<<"phases", "surfaces", "#1", "initial_state">>, "RU(T):1.0"),
         StrLeaf(<<"phases", "surfaces", "#2", "name">>, "step")}

LeavesOf(k, form, c) ==
   LET O == Options[k] IN
   CASE form \in NumForms -> {NumLeaf(O.path, NumOf(k, form), O.tmpl, c)}
     [] form \in {"str", "str_with_unit"} -> {StrLeaf(O.path, O.str)}
     [] form \in {"lab1", "lab2", "lab3", "lab4"} -> {StrLeaf(O.path, Labels(O.o)[LabIx(form)])}
     [] form \in {"true", "false", "np_true"} -> {Leaf(O.path, "bool", Zero, <<>>, "", form # "false")}
     [] form \in {"names_str", "names_obj"} -> {StrLeaf(O.path \o <<Ix(j)>>, Names(k, form)[j]) : j \in 1..2}
     [] form \in {"list_py", "np_array", "tuple_py"} -> {NumLeaf(O.path \o <<Ix(j)>>, ListNums(k)[j], O.tmpl, c) : j \in 1..2}
     [] form = "list_int" -> {NumLeaf(O.path \o <<Ix(j)>>, ListInts(k)[j], O.tmpl, c) : j \in 1..2}
     [] form = "list_str" -> {StrLeaf(O.path \o <<Ix(j)>>, ListStrs(k)[j]) : j \in 1..2}
     [] form = "list_mixed" -> {NumLeaf(O.path \o <<"#1">>, ListNums(k)[1], O.tmpl, c),
                                StrLeaf(O.path \o <<"#2">>, ListStrs(k)[2])}
     [] form \in {"ph_empty", "ph_gas", "ph_all"} -> PhaseLeaves(form)

\* generic dictionaries: entries win over arguments
GenLeaves(gen) ==
   CASE gen = "none" -> {}
     [] gen = "reactor_temperature" -> {Leaf(<<"reactor", "temperature">>, "num", <<700, 0>>, <<>>, "", FALSE)}
     [] gen = "misc_foo" -> {Leaf(<<"foo">>, "num", <<1, 0>>, <<>>, "", FALSE)}
     [] gen = "solver_atol" -> {Leaf(<<"simulation", "solver", "atol">>, "num", <<1, -9>>, <<>>, "", FALSE)}
     [] gen = "inlet_flow" -> {StrLeaf(<<"inlet_gas", "flow_rate">>, "9 cm3/s")}
     [] gen = "simulation_end" -> {StrLeaf(<<"simulation", "end_time">>, "5 s")}
     [] gen = "multi_input_T" -> {Leaf(<<"simulation", "multi_input", "temperature", "#1">>, "num", <<650, 0>>, <<>>, "", FALSE)}
Paths(S) == {x.path : x \in S}
Supplied(c) == {k \in OptIdx : c.assign[k] # "omitted"}
Expected(c) ==
   LET g == GenLeaves(c.gen)
       a == UNION {LeavesOf(k, c.assign[k], c) : k \in Supplied(c)}
       \* an entry of a generic dictionary replaces the whole option, list elements included
       roots == Paths(g) \cup {SubSeq(q, 1, Len(q) - 1) : q \in {r \in Paths(g) : r[Len(r)] = "#1"}}
   IN g \cup {x \in a : x.path \notin roots /\ SubSeq(x.path, 1, Len(x.path) - 1) \notin roots}
\* first-of-multi entries the writer may add
FirstOf(c, multi, scalar) ==
   LET km == Index(multi)  ks == Index(scalar) IN
   IF c.assign[km] # "omitted" /\ c.assign[ks] = "omitted"
   THEN LET first == CHOOSE x \in LeavesOf(km, c.assign[km], c) : x.path[Len(x.path)] = "#1"
        IN {[first EXCEPT !.path = Options[ks].path]}
   ELSE {}
Allowed(c) ==
   LET opt == FirstOf(c, "multi_T", "T") \cup FirstOf(c, "multi_P", "P") \cup FirstOf(c, "multi_flow_rate", "flow_rate")
   IN {x \in opt : x.path \notin Paths(Expected(c))}

\* ---- reading an observed leaf ----------------------------------------------------
\* decimal text: [-]digits[.digits][e[+-]digits], at most 9 significant digits
FirstPos(s, ch) == IF \E i \in 1..Len(s) : s[i] = ch THEN CHOOSE i \in 1..Len(s) : s[i] = ch /\ \A j \in 1..(i - 1) : s[j] # ch ELSE 0
ExpPos(s) == LET i == FirstPos(s, 101) IN IF i # 0 THEN i ELSE FirstPos(s, 69)
NumWF(s) ==
   LET neg == Len(s) > 0 /\ s[1] = 45
       body == IF neg THEN Tail(s) ELSE s
       ep == ExpPos(body)
       mant == IF ep = 0 THEN body ELSE SubSeq(body, 1, ep - 1)
       ex == IF ep = 0 THEN <<>> ELSE SubSeq(body, ep + 1, Len(body))
       exd == IF Len(ex) > 0 /\ (ex[1] = 45 \/ ex[1] = 43) THEN Tail(ex) ELSE ex
       dp == FirstPos(mant, 46)
       ip == IF dp = 0 THEN mant ELSE SubSeq(mant, 1, dp - 1)
       fp == IF dp = 0 THEN <<>> ELSE SubSeq(mant, dp + 1, Len(mant))
   IN /\ AllDigits(ip) /\ (fp = <<>> \/ AllDigits(fp)) /\ Len(ip) + Len(fp) <= 9
      /\ (ep = 0 \/ (AllDigits(exd) /\ Len(exd) <= 3))
NumVal(s) ==           \* meaningful when NumWF(s)
   LET neg == s[1] = 45
       body == IF neg THEN Tail(s) ELSE s
       ep == ExpPos(body)
       mant == IF ep = 0 THEN body ELSE SubSeq(body, 1, ep - 1)
       ex == IF ep = 0 THEN <<>> ELSE SubSeq(body, ep + 1, Len(body))
       exneg == Len(ex) > 0 /\ ex[1] = 45
       exd == IF Len(ex) > 0 /\ (ex[1] = 45 \/ ex[1] = 43) THEN Tail(ex) ELSE ex
       dp == FirstPos(mant, 46)
       ip == IF dp = 0 THEN mant ELSE SubSeq(mant, 1, dp - 1)
       fp == IF dp = 0 THEN <<>> ELSE SubSeq(mant, dp + 1, Len(mant))
       m == DigitsToInt(ip \o fp)
       e == (IF ep = 0 THEN 0 ELSE (IF exneg THEN -1 ELSE 1) * DigitsToInt(exd)) - Len(fp)
   IN <<IF neg THEN -m ELSE m, e>>
SameNum(a, b) == IsZero(Sub(a, b))
\* "<number> <unit>": split at the first blank
SplitOK(codes) == FirstPos(codes, 32) > 1 /\ NumWF(SubSeq(codes, 1, FirstPos(codes, 32) - 1))
NumPart(codes) == NumVal(SubSeq(codes, 1, FirstPos(codes, 32) - 1))
UnitPart(codes) == SubSeq(codes, FirstPos(codes, 32) + 1, Len(codes))

\* does observed leaf y carry expected leaf x ?  (value, unit) verdicts
ValueOK(x, y) ==
   CASE x.kind = "num" -> y.k = "num" /\ SameNum(y.num, x.num)
     [] x.kind = "numunit" -> (y.k = "str" /\ SplitOK(y.codes) /\ SameNum(NumPart(y.codes), x.num))
                              \/ (y.k = "num" /\ SameNum(y.num, x.num))       \* unit judged separately
     [] x.kind = "str" -> y.k = "str" /\ y.s = x.s
     [] x.kind = "bool" -> y.k = "bool" /\ y.b = x.b
UnitOK(x, y) == x.kind # "numunit" \/ (y.k = "str" /\ SplitOK(y.codes) /\ UnitPart(y.codes) = x.unit)

ObsAt(obs, path) == CHOOSE y \in {obs.leaves[j] : j \in 1..Len(obs.leaves)} : y.path = path
ObsPaths(obs) == {obs.leaves[j].path : j \in 1..Len(obs.leaves)}

Verdict(c, obs) ==
   IF obs.raised # "" THEN {"Raises"}
   ELSE IF ~obs.loaded THEN {"Loads"}
   ELSE LET E == Expected(c)  A == Allowed(c)  P == ObsPaths(obs) IN
        (IF \A x \in E : x.path \in P THEN {} ELSE {"EverySupplied"})
        \cup (IF P \subseteq Paths(E) \cup Paths(A) THEN {} ELSE {"NothingElse"})
        \cup (IF \A x \in E \cup A : x.path \in P => UnitOK(x, ObsAt(obs, x.path)) THEN {} ELSE {"UnitAttached"})
        \cup (IF \A x \in E \cup A : x.path \in P => ValueOK(x, ObsAt(obs, x.path)) THEN {} ELSE {"ValueEqual"})

\* ---- the implementation-shaped algorithm (_assign_yaml_val + its callers) -------
\* what happens to ONE supplied option: "ok" | "dropped" | "unloadable" | "raises" | "wrongunit"
IsNpScalar(form) == form \in {"np_int", "np_float", "np_i32", "np_f32", "np_true"}
Outcome(variant, k, form, units) ==
   LET O == Options[k]  templ == O.tmpl # "none" IN
   IF variant = "repaired" THEN "ok"
   ELSE \* "pinned"
   IF O.cls = "phases" THEN "ok"
   ELSE IF ~templ THEN (IF IsNpScalar(form) \/ (form = "np_array") THEN "unloadable" ELSE "ok")
   ELSE IF form \in {"py_int", "py_float", "np_float", "zero", "zero_float"}   \* isinstance(val, (int, float))
        THEN (IF units = "absent" THEN "raises" ELSE "ok")
   ELSE IF form \in {"list_py", "np_array", "list_int", "list_str", "list_mixed"}
        THEN (IF units = "absent" THEN "raises"
              ELSE IF form \in {"list_str", "list_mixed"} THEN "wrongunit" ELSE "ok")
   ELSE "dropped"                                                 \* str_with_unit, np_int

\* ---- case generation ---------------------------------------------------------------
Case(assign, units, usys, gen) == [assign |-> assign, units |-> units, usys |-> usys, gen |-> gen]
Nothing == [k \in OptIdx |-> "omitted"]
UnitChoices == {<<"absent", "si">>, <<"obj", "cgs">>, <<"dict", "mix">>, <<"dict", "si">>}
AllForms == {"str", "lab1", "lab2", "lab3", "lab4", "str_with_unit", "true", "false", "np_true", "names_str",
             "names_obj", "list_py", "np_array", "tuple_py", "list_int", "list_str", "list_mixed", "ph_empty",
             "ph_gas", "ph_all"} \cup NumForms
OF == {<<k, f>> : k \in OptIdx, f \in AllForms}
OFok == {kf \in OF : kf[2] \in FormsOf(Options[kf[1]].cls)}          \* (option, form) pairs that exist
SinglesOK == {Case([Nothing EXCEPT ![kf[1]] = kf[2]], uc[1], uc[2], "none") : kf \in OFok, uc \in UnitChoices}
PairUnitChoices == {<<"obj", "cgs">>, <<"absent", "si">>}
PairsOK == {Case([[Nothing EXCEPT ![x[1][1]] = x[1][2]] EXCEPT ![x[2][1]] = x[2][2]], uc[1], uc[2], "none") :
               x \in {y \in OFok \X OFok : y[1][1] < y[2][1]}, uc \in PairUnitChoices}
\* (the driver samples the pairs by seed in the quick tier and runs all of them in the thorough tier)
\* every option supplied, one "uniform" flavour per case
Uniform(flavour) ==
   [k \in OptIdx |->
      LET F == FormsOf(Options[k].cls) IN
      IF flavour \in F THEN flavour
      ELSE IF flavour = "np_float" /\ "np_int" \in F THEN "np_int"
      ELSE IF flavour \in {"np_float", "np_int"} /\ "np_array" \in F THEN "np_array"
      ELSE IF flavour \in {"zero", "np_f32"} /\ "tuple_py" \in F THEN "tuple_py"
      ELSE IF "lab1" \in F THEN (IF flavour \in {"py_float", "zero"} THEN "lab1" ELSE "lab2")
      ELSE IF flavour = "np_f32" /\ "np_i32" \in F THEN "np_i32"
      ELSE IF flavour \in {"np_f32", "np_float"} /\ "np_true" \in F THEN "np_true"
      ELSE IF flavour = "str_with_unit" /\ "list_str" \in F THEN "list_str"
      ELSE IF "py_float" \in F THEN "py_float"
      ELSE IF "py_int" \in F THEN "py_int"
      ELSE IF "list_py" \in F THEN "list_py"
      ELSE IF "true" \in F THEN "true"
      ELSE IF "names_str" \in F THEN (IF flavour = "py_float" THEN "names_str" ELSE "names_obj")
      ELSE IF "ph_all" \in F THEN "ph_all"
      ELSE "str"]
AllSupplied == {Case(Uniform(fl), uc[1], uc[2], "none") :
                  fl \in {"py_float", "py_int", "np_float", "np_int", "str_with_unit", "zero", "np_f32"},
                  uc \in UnitChoices}
Generic == {Case([Nothing EXCEPT ![Index("T")] = "py_float"], "obj", "cgs", "reactor_temperature"),
            Case([Nothing EXCEPT ![Index("T")] = "py_float"], "obj", "cgs", "misc_foo"),
            Case([Nothing EXCEPT ![Index("atol")] = "py_float"], "absent", "si", "solver_atol"),
            Case([Nothing EXCEPT ![Index("flow_rate")] = "py_float"], "obj", "cgs", "inlet_flow"),
            Case(Nothing, "obj", "cgs", "misc_foo"),
            Case([Nothing EXCEPT ![Index("end_time")] = "py_float"], "obj", "cgs", "simulation_end"),
            Case([Nothing EXCEPT ![Index("multi_T")] = "list_py"], "obj", "cgs", "multi_input_T")}
Empty == {Case(Nothing, uc[1], uc[2], "none") : uc \in UnitChoices}

\* what the driver needs to build the call: the value of every supplied option
ArgOf(k, form, c) ==
   [o |-> Options[k].o, form |-> form,
    num |-> IF form \in NumForms THEN NumOf(k, form) ELSE Zero,
    nums |-> IF form \in {"list_py", "np_array", "tuple_py", "list_mixed"} THEN ListNums(k)
             ELSE IF form = "list_int" THEN ListInts(k) ELSE <<>>,
    strs |-> IF form \in {"list_str", "list_mixed"} THEN ListStrs(k)
             ELSE IF form \in {"names_str", "names_obj"} THEN Names(k, form) ELSE <<>>,
    str |-> IF form \in {"lab1", "lab2", "lab3", "lab4"} THEN Labels(Options[k].o)[LabIx(form)] ELSE Options[k].str]
Emit(c) == [units |-> c.units, usys |-> c.usys, gen |-> c.gen,
            unit_texts |-> UnitSystems[c.usys],
            assign |-> c.assign,
            args |-> {ArgOf(k, c.assign[k], c) : k \in Supplied(c)},
            paths |-> Paths(Expected(c)),
            may |-> Paths(Allowed(c))]
=============================================================================
