------------------------------ MODULE Gen_C14 ------------------------------
(***************************************************************************)
(* C14 (S->C) - the cases replayed into the real code, each with the       *)
(* abstract result computed by TLC:                                        *)
(*   rxn     - print cases (reaction, options, Expect = the unique nearest *)
(*             printed-precision reading; decimal ties are left out) and   *)
(*             hand-written texts (text, Expect = Meaning of the tokens);  *)
(*   balance - reactions with exact verdict Balanced;                      *)
(*   formula - item sequences with text and Direct counts.                 *)
(* Written as one JSON object to IOEnv.OUT_FILE; PART = "rxn" | "balance"  *)
(* | "formula" selects the part (three TLC runs side by side), SCOPE =     *)
(* "quick" | "thorough" the hand-written layouts.                          *)
(***************************************************************************)
EXTENDS RxnCases, Balance, Formula, TLC, Json, IOUtils, SequencesExt
VARIABLE dummy

Full == IOEnv.SCOPE = "thorough"
RxnSet == {c \in FamilyA(0) \cup FamilyB(0) \cup FamilyF(0) : ~CaseHasTie(c)} \cup FamilyC(Full) \cup FamilyD(0)
          \cup FamilyG(0)
          \cup (IF Full THEN FamilyE(0) ELSE {})
RxnOut(c) == IF c.kind = "print"
             THEN [kind |-> "print", r |-> c.r, d |-> c.d, space |-> c.space, spd |-> c.spd,
                   rxd |-> c.rxd, pad |-> c.pad, expect |-> Expect(c)]
             ELSE [kind |-> "hand", text |-> TextOf(c, "round"), spd |-> c.spd, rxd |-> c.rxd,
                   expect |-> Expect(c)]
BalOut(x) == [re |-> x.re, ts |-> x.ts, pr |-> x.pr, hasTS |-> x.hasTS, balanced |-> Balanced(x)]
ForOut(x) == [items |-> x, text |-> Render(x), expect |-> Direct(x)]

Part == IOEnv.PART
ASSUME JsonSerialize(IOEnv.OUT_FILE,
          [rxn |-> IF Part = "rxn" THEN SetToSeq({RxnOut(c) : c \in RxnSet}) ELSE <<>>,
           balance |-> IF Part = "balance" THEN SetToSeq({BalOut(x) : x \in BalanceCases(Full)}) ELSE <<>>,
           formula |-> IF Part = "formula" THEN SetToSeq({ForOut(x) : x \in FormulaCases(0)}) ELSE <<>>])

DInit == dummy = 0
DNext == UNCHANGED dummy
=============================================================================
