--------------------------- MODULE OrganizePhases ---------------------------
(***************************************************************************)
(* X03 - design model of pmutt.io.omkm.organize_phases.                    *)
(*                                                                         *)
(* A behaviour first BUILDS a universe step by step (so that TLC explores  *)
(* the universes in parallel and `-simulate` draws random ones): the       *)
(* layout of <= MaxPhases phase descriptions (every sequence of kinds),    *)
(* the phase each of the species names (a described phase or none), up to  *)
(* MaxRx reactions (each a non-empty set of the species; pairwise          *)
(* different sets, in canonical order - the rule looks at one reaction at  *)
(* a time), up to MaxIa lateral interactions (pairs of species), and       *)
(* whether the species argument is passed at all.  Scope = "narrow" draws  *)
(* only universes of the property's quantifier (OrganizeRule!InQuantifier);*)
(* "wide" also draws reactions the docstrings say nothing about.           *)
(*                                                                         *)
(* Then the caller acts:                                                   *)
(*   Organize    organize_phases(phases_data, species, reactions,          *)
(*               interactions) on the SAME objects as before               *)
(*   FreshDicts  the caller builds the phase descriptions anew (re-reads   *)
(*               the spreadsheet), keeping species/reactions/interactions  *)
(*                                                                         *)
(* IMPLEMENTATION-shaped state and algorithm:                              *)
(*   attr[s]  what species.phase holds: <<"str", p>> the name given by the *)
(*            caller, <<"obj", p>> a phase OBJECT named p (Phase.species   *)
(*            rebinds species.phase to the phase that lists it), "none"    *)
(*   dicts[k] TRUE while the k-th description is as the caller wrote it    *)
(*   the algorithm groups species / reactions / interactions in            *)
(*   dictionaries keyed by KeyOf(species.phase), looks each described name *)
(*   up, and IdealGas / StoichSolid drop reactions having a species whose  *)
(*   phase differs from the phase's name.                                  *)
(* Variant "fixed"  : KeyOf reads the NAME of a phase object, descriptions *)
(*                    are copied before use, an omitted species list is an *)
(*                    empty one.                                           *)
(* Variant "pinned" : the source as found: the key is the attribute itself *)
(*                    (an object never equals a name), `phase_type` is     *)
(*                    popped from / the member lists are stored into the   *)
(*                    caller's dictionaries, species=None is handed to     *)
(*                    pmutt_list_to_dict.                                  *)
(* Variant "nodedup": "fixed" without the "skip duplicate reactions" test  *)
(*                    of get_reactions_phases (a reaction is appended once *)
(*                    per species).                                        *)
(* Variant "nofilter": "fixed" without _filter_reactions.                  *)
(*                                                                         *)
(* PROPERTIES (every one after EVERY call, whatever calls preceded it):    *)
(*   NeverRaises, PhasesAsDescribed, SpeciesInExactlyOnePhase,             *)
(*   SpeciesInThePhaseItNames, ReactionInExactlyOnePhase,                  *)
(*   ReactionInItsHomePhase, InteractionInExactlyOnePhase,                 *)
(*   InteractionInThePhaseOfItsSpecies, NothingInvented,                   *)
(*   ResultIsRequired (= the explicit rule; being a function of the        *)
(*   universe only it also says: a second call returns what the first      *)
(*   did), CallerDescriptionsUntouched.                                    *)
(***************************************************************************)
EXTENDS OrganizeRule, TLC

CONSTANTS MaxPhases, SpCounts, MaxRx, MaxIa, MaxCalls, Variant, Scope

VARIABLES stage, U, attr, dicts, res, calls, ops
vars == <<stage, U, attr, dicts, res, calls, ops>>

PNm == <<"p1", "p2", "p3", "p4">>
SNm == <<"s1", "s2", "s3", "s4", "s5">>
RNm == <<"r1", "r2", "r3", "r4">>
INm == <<"i1", "i2", "i3">>

NoRes == [st |-> "none", v |-> <<>>]
Init == /\ stage = "layout"
        /\ U = [ph |-> <<>>, sp |-> <<>>, rx |-> <<>>, ia |-> <<>>,
                spgiven |-> TRUE, rxgiven |-> TRUE, iagiven |-> TRUE]
        /\ attr = <<>> /\ dicts = <<>> /\ res = NoRes /\ calls = 0 /\ ops = <<>>

\* ---- building the universe -----------------------------------------------------
ChooseLayout ==
   /\ stage = "layout"
   /\ \E n \in 1..MaxPhases : \E L \in [1..n -> Kinds] :
        U' = [U EXCEPT !.ph = [k \in 1..n |-> [name |-> PNm[k], kind |-> L[k]]]]
   /\ stage' = "species"
   /\ UNCHANGED <<attr, dicts, res, calls, ops>>

ChooseSpecies ==
   /\ stage = "species"
   /\ \E n \in SpCounts : \E f \in [1..n -> PhaseNames(U) \cup {"none"}] :
        U' = [U EXCEPT !.sp = [k \in 1..n |-> [name |-> SNm[k], phase |-> f[k]]]]
   /\ stage' = "reactions"
   /\ UNCHANGED <<attr, dicts, res, calls, ops>>

RECURSIVE Pow2(_)
Pow2(n) == IF n = 0 THEN 1 ELSE 2 * Pow2(n - 1)
RECURSIVE Rank(_)
Rank(S) == IF S = {} THEN 0 ELSE LET x == CHOOSE y \in S : TRUE IN Pow2(x - 1) + Rank(S \ {x})
RECURSIVE Ascending(_)
Ascending(S) == IF S = {} THEN <<>>
                ELSE LET m == CHOOSE x \in S : \A y \in S : x <= y IN <<m>> \o Ascending(S \ {m})
MkRx(S) == LET sx == Ascending(S) IN
           [id |-> RNm[Len(U.rx) + 1], spx |-> sx, ph |-> [n \in Idx(sx) |-> U.sp[sx[n]].phase]]
LastRank == IF U.rx = <<>> THEN 0 ELSE Rank(Range(U.rx[Len(U.rx)].spx))
AddRx ==
   /\ stage = "reactions" /\ Len(U.rx) < MaxRx
   /\ \E S \in SUBSET Idx(U.sp) :
        /\ S # {} /\ Rank(S) > LastRank
        /\ (Scope = "narrow" => HasHome(U, MkRx(S)))
        /\ U' = [U EXCEPT !.rx = Append(@, MkRx(S))]
   /\ UNCHANGED <<stage, attr, dicts, res, calls, ops>>
DoneRx ==
   /\ stage = "reactions" /\ stage' = "inters"
   /\ UNCHANGED <<U, attr, dicts, res, calls, ops>>

LastPair == IF U.ia = <<>> THEN 0
            ELSE LET x == U.ia[Len(U.ia)] IN
                 (CHOOSE k \in Idx(U.sp) : SNm[k] = x.i) * 10 + (CHOOSE k \in Idx(U.sp) : SNm[k] = x.j)
AddIa ==
   /\ stage = "inters" /\ Len(U.ia) < MaxIa
   /\ \E i, j \in Idx(U.sp) :
        /\ i * 10 + j >= LastPair
        /\ U.sp[i].phase \in Ifaces(U) /\ U.sp[j].phase = U.sp[i].phase
        /\ U' = [U EXCEPT !.ia = Append(@, [name |-> INm[Len(U.ia) + 1], i |-> SNm[i], j |-> SNm[j]])]
   /\ UNCHANGED <<stage, attr, dicts, res, calls, ops>>
DoneIa ==
   /\ stage = "inters" /\ stage' = "given"
   /\ UNCHANGED <<U, attr, dicts, res, calls, ops>>

ChooseGiven ==
   /\ stage = "given"
   /\ \E g \in BOOLEAN :
        /\ (~g => U.ia = <<>>)
        /\ U' = [U EXCEPT !.spgiven = g]
   /\ attr' = [k \in Idx(U.sp) |-> IF U.sp[k].phase = "none" THEN <<"none", "none">> ELSE <<"str", U.sp[k].phase>>]
   /\ dicts' = [k \in Idx(U.ph) |-> TRUE]
   /\ stage' = "ready"
   /\ UNCHANGED <<res, calls, ops>>

\* ---- the implementation-shaped algorithm ------------------------------------------
ReadsName == Variant # "pinned"
KeyOf(a) == IF a[1] = "none" THEN "none"
            ELSE IF a[1] = "str" \/ ReadsName THEN a[2] ELSE "<object>"
\* the comparison `phase != phase_name` of _filter_reactions
SamePhase(a, p) == IF ReadsName THEN a[2] = p ELSE a[1] = "str" /\ a[2] = p

RECURSIVE Rep(_, _)
Rep(x, n) == IF n = 0 THEN <<>> ELSE <<x>> \o Rep(x, n - 1)
ImplSpecies(p) ==
   IF ~U.spgiven THEN <<>>
   ELSE LET ks == SelectSeq([k \in Idx(U.sp) |-> k], LAMBDA k : KeyOf(attr[k]) = p)
        IN [n \in Idx(ks) |-> U.sp[ks[n]].name]
Hits(r, p) == Cardinality({n \in Idx(r.spx) : KeyOf(attr[r.spx[n]]) = p})
Kept(r, p) ==
   IF KindOfPhase(U, p) = "iface" \/ Variant = "nofilter" THEN TRUE
   ELSE \A n \in Idx(r.spx) : attr[r.spx[n]][1] = "none" \/ SamePhase(attr[r.spx[n]], p)
RECURSIVE ImplRx(_, _)
ImplRx(k, p) ==
   IF k > Len(U.rx) THEN <<>>
   ELSE LET r == U.rx[k]
            h == Hits(r, p)
            c == IF ~Kept(r, p) THEN 0 ELSE IF Variant = "nodedup" THEN h ELSE IF h > 0 THEN 1 ELSE 0
        IN Rep(r.id, c) \o ImplRx(k + 1, p)
SpIndex(s) == CHOOSE k \in Idx(U.sp) : U.sp[k].name = s
ImplIa(p) ==
   LET ks == SelectSeq([k \in Idx(U.ia) |-> k], LAMBDA k : KeyOf(attr[SpIndex(U.ia[k].i)]) = p)
   IN [n \in Idx(ks) |-> U.ia[ks[n]].name]
ImplResult ==
   [k \in Idx(U.ph) |->
      LET p == U.ph[k].name IN
      [name |-> p, cls |-> ClassOf(U.ph[k].kind), species |-> ImplSpecies(p),
       reactions |-> ImplRx(1, p), inters |-> ImplIa(p)]]
ImplRaises ==
   Variant = "pinned" /\ (~U.spgiven \/ \E k \in Idx(dicts) : ~dicts[k])

Organize ==
   /\ stage = "ready" /\ calls < MaxCalls
   /\ calls' = calls + 1 /\ ops' = Append(ops, "call")
   /\ IF ImplRaises
      THEN /\ res' = [st |-> "raised", v |-> <<>>]
           /\ UNCHANGED <<attr, dicts>>
      ELSE /\ res' = [st |-> "ok", v |-> ImplResult]
           \* Phase.species = list rebinds species.phase of every listed species to the new object
           /\ attr' = [k \in Idx(U.sp) |->
                         IF U.spgiven /\ KeyOf(attr[k]) \in PhaseNames(U) THEN <<"obj", KeyOf(attr[k])>>
                         ELSE attr[k]]
           /\ dicts' = IF Variant = "pinned" THEN [k \in Idx(dicts) |-> FALSE] ELSE dicts
   /\ UNCHANGED <<stage, U>>

FreshDicts ==
   /\ stage = "ready" /\ calls < MaxCalls /\ ops # <<>> /\ ops[Len(ops)] = "call"
   /\ dicts' = [k \in Idx(dicts) |-> TRUE]
   /\ ops' = Append(ops, "fresh")
   /\ UNCHANGED <<stage, U, attr, res, calls>>

Next == ChooseLayout \/ ChooseSpecies \/ AddRx \/ DoneRx \/ AddIa \/ DoneIa \/ ChooseGiven
        \/ Organize \/ FreshDicts
Spec == Init /\ [][Next]_vars

\* ---- properties ----------------------------------------------------------------
Ready == stage = "ready"
Returned == res.st = "ok"
QuantifierOK == (Ready /\ Scope = "narrow") => InQuantifier(U)
NeverRaises == res.st # "raised"
PhasesOK == Returned => PhasesAsDescribed(U, res.v)
SpeciesOnce == Returned => SpeciesInExactlyOnePhase(U, res.v)
SpeciesWhereNamed == Returned => SpeciesInThePhaseItNames(U, res.v)
ReactionOnce == Returned => ReactionInExactlyOnePhase(U, res.v)
ReactionAtHome == Returned => ReactionInItsHomePhase(U, res.v)
InteractionOnce == Returned => InteractionInExactlyOnePhase(U, res.v)
InteractionWithSpecies == Returned => InteractionInThePhaseOfItsSpecies(U, res.v)
NoInvention == Returned => NothingInvented(U, res.v)
ResultIsRequired == Returned => MatchesRequired(U, res.v)
CallerDescriptionsUntouched == Ready => \A k \in Idx(dicts) : dicts[k]

\* ---- behaviours for replay: the universe, what TLC says every call must return, the calls
ReqSeq == [k \in Idx(U.ph) |-> Required(U)[k]]
Done == Ready /\ calls = MaxCalls
EmitBehaviours == Done => PrintT(<<"BEH", [u |-> U, req |-> ReqSeq, ops |-> ops]>>)
=============================================================================
