\* two objects constructed from the same argument lists share them: editing one rewrites the other (expected:
\* rejected; this is the code at 88b3c08, finding C17-F1)
\* exhaustive design model: grid {0..4}/4, slopes {-1,0,2}, <= 6 breakpoints, <= 4 edits
SPECIFICATION Spec
CONSTANTS
  Grid = {0, 1, 2, 3, 4}
  Slopes <- SlopeSet
  MaxLen = 6
  MaxOps = 4
  Variant = "bisect"
  Sharing = "ctoralias"
  InitSets <- MCInitSets
INVARIANT TypeOK
INVARIANT Ascending
INVARIANT Paired
INVARIANT FirstIsZero
INVARIANT InterceptsFresh
INVARIANT ZeroAtZero
INVARIANT Continuous
INVARIANT Unique
INVARIANT FrozenConsistent
PROPERTY FrozenUntouched
PROPERTY InsertRefines
PROPERTY PopRefines
VIEW ViewFull
CHECK_DEADLOCK FALSE
