----------------------------- MODULE MC_EqCases -----------------------------
(***************************************************************************)
(* C16 (S->C): the finite set of small networks replayed into the real     *)
(* Equilibrium constructor and solver.  A network is an ascending choice   *)
(* of 2-4 formulas from a ten-formula alphabet over (C, H, O) with a 0/1   *)
(* feed that contains every element present.  Every case carries what TLC *)
(* computed from EqLin.tla:                                                *)
(*   els  : indices of the elements present (the columns the library must  *)
(*          keep), E : the element matrix over those columns,              *)
(*   tot  : element totals of the feed, k : number of independent          *)
(*          reactions (species - rank), dep : the element balances are     *)
(*          linearly dependent, fz : species forced to zero by the feed    *)
(*          (certificate with coefficients in -2..2).                      *)
(* The driver compares the library's mol_elem / ele_feed and its own       *)
(* null-space helper with these by equality.                               *)
(***************************************************************************)
EXTENDS EqLin, TLC, Json, IOUtils, SequencesExt, FiniteSetsExt

Alphabet == << <<0, 2, 0>>,   \* H2
               <<0, 0, 2>>,   \* O2
               <<0, 2, 1>>,   \* H2O
               <<1, 0, 1>>,   \* CO
               <<1, 0, 2>>,   \* CO2
               <<1, 4, 0>>,   \* CH4
               <<2, 2, 0>>,   \* C2H2
               <<6, 6, 0>>,   \* C6H6
               <<0, 0, 3>>,   \* O3
               <<0, 1, 0>> >> \* H
NA == Len(Alphabet)

RECURSIVE Asc(_, _, _)
Asc(lo, n, r) == IF r = 0 THEN {<<>>}
                 ELSE UNION {{<<a>> \o t : t \in Asc(a + 1, n, r - 1)} : a \in lo..n}
IMin(a, b) == IF a < b THEN a ELSE b

Full(sp) == [i \in 1..Len(sp) |-> Alphabet[sp[i]]]
Present(sp) == LET F == Full(sp) IN SetToSortSeq({j \in 1..3 : \E i \in 1..Len(F) : F[i][j] > 0}, <)
Reduced(sp) == LET F == Full(sp)  p == Present(sp) IN
               [i \in 1..Len(F) |-> [b \in 1..Len(p) |-> F[i][p[b]]]]
HasMinor(E, r) == \E rows \in Asc(1, Len(E), r), cols \in Asc(1, NEl(E), r) :
                     Det(SubMatrix(E, rows, cols)) # 0
Rank(E) == Max({r \in 0..IMin(Len(E), NEl(E)) : HasMinor(E, r)})
CBox(m) == [1..m -> (-2)..2]
Forced(E, feed) ==
   LET fed == [i \in 1..Len(E) |-> feed[i] > 0]
       Cs == {c \in CBox(NEl(E)) : ForcedZero(E, c, fed)}
   IN {i \in 1..Len(E) : \E c \in Cs : Weights(E, c)[i] > 0}

Nets == UNION {Asc(1, NA, n) : n \in 2..4}
Feeds(E) == {f \in [1..Len(E) -> 0..1] : \A j \in 1..NEl(E) : IDot(f, Col(E, j)) > 0}
Case(sp, f) == LET E == Reduced(sp) IN
   [sp |-> sp, els |-> Present(sp), E |-> E, feed |-> f, tot |-> Totals(f, E),
    k |-> Len(E) - Rank(E), dep |-> Rank(E) < NEl(E),
    fz |-> SetToSortSeq(Forced(E, f), <)]
Cases == UNION {{Case(sp, f) : f \in Feeds(Reduced(sp))} : sp \in Nets}

ASSUME JsonSerialize(IOEnv.OUT_FILE, SetToSeq(Cases))
ASSUME PrintT(<<"CASES", Cardinality(Cases)>>)
VARIABLE dummy
DInit == dummy = 0
DNext == UNCHANGED dummy
=============================================================================
