\* EXPECTED TO BE REJECTED (sensitivity): the caller's block is updated in place and handed back
SPECIFICATION Spec
CONSTANTS
  Worlds <- Small
  V <- VInBlock
INVARIANT TypeOK
INVARIANT SpecieFaithful
INVARIANT BlockKeysRemoved
INVARIANT FormatFaithful
INVARIANT FormatCount
INVARIANT DictFaithful
INVARIANT IterFaithful
INVARIANT AttrFaithful
INVARIANT CallerUntouched
CHECK_DEADLOCK FALSE
