\* exhaustive design model, required-shaped selection (arg-min per grid point)
SPECIFICATION Spec
CONSTANTS
  MaxR = 3
  MaxP = 3
  MaxR2 = 2
  MaxP2 = 2
  Vals <- MCVals
  MaxS = 6
  SVals <- MCSVals
  MaxSteps = 2
  StepVals <- MCStepVals
  Variant = "axis0"
INVARIANT StableShape
INVARIANT StableInRange
INVARIANT StableIsArgMin
INVARIANT OneDEqualsTwoDSlice
INVARIANT SpanDefinition
CHECK_DEADLOCK FALSE
