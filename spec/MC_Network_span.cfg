\* energies: every assignment of 0..2 to the nodes of every network with <= 4 nodes and <= 5 edges;
\* one target, no cutoff
SPECIFICATION Spec
CONSTANTS
  Networks <- MCNetsSpan
  Cutoffs <- MCNone
  EVals <- MCEVals
  EndAtTS = FALSE
  MaxTargets = 1
  Variant = "ok"
  Order = "asc"
INVARIANT GraphIsNetwork
INVARIANT CurSimple
INVARIANT FoundSound
INVARIANT CutoffStates
INVARIANT FoundExact
INVARIANT SpanDefinition
INVARIANT MinSpan
CHECK_DEADLOCK TRUE
