\* thorough tier: 1-D tables up to 3 reactions x 4 grid points, spans up to 7 states
SPECIFICATION Spec
CONSTANTS
  MaxR = 3
  MaxP = 4
  MaxR2 = 2
  MaxP2 = 2
  Vals <- MCVals
  MaxS = 7
  SVals <- MCSVals
  MaxSteps = 3
  StepVals <- MCStepVals
  Variant = "axis0"
INVARIANT StableShape
INVARIANT StableInRange
INVARIANT StableIsArgMin
INVARIANT OneDEqualsTwoDSlice
INVARIANT SpanDefinition
CHECK_DEADLOCK FALSE
