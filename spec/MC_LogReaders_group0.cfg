\* X06: read_pattern(return_immediately=False) ignoring group (the source as found): EXPECTED TO BE REJECTED (PatternRequired)
SPECIFICATION Spec
CONSTANTS
  Lines <- MCLines
  Kinds <- GaussKinds
  MaxLen = 2
  Cuts <- MCCuts
  Pat <- MCPat
  Variant = "group0"
INVARIANT InQuantifier
INVARIANT Refines
INVARIANT VibRequired
INVARIANT ScalarRequired
INVARIANT ListRequired
INVARIANT PatternRequired
INVARIANT NoiseIndependent
PROPERTY Monotone
CHECK_DEADLOCK FALSE
