\* X06: scalar readers keeping the last line instead of the first: EXPECTED TO BE REJECTED
SPECIFICATION Spec
CONSTANTS
  Lines <- MCLines
  Kinds <- GaussKinds
  MaxLen = 2
  Cuts <- MCCuts
  Pat <- MCPat
  Variant = "last"
INVARIANT InQuantifier
INVARIANT Refines
INVARIANT VibRequired
INVARIANT ScalarRequired
INVARIANT ListRequired
INVARIANT PatternRequired
INVARIANT NoiseIndependent
PROPERTY Monotone
CHECK_DEADLOCK FALSE
