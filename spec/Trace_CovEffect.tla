-------------------------- MODULE Trace_CovEffect --------------------------
(***************************************************************************)
(* C17 - trace validation of recorded PiecewiseCovEffect histories.        *)
(* One NDJSON line per public call (construct / insert / pop / reload /    *)
(* eval / dim) carrying the arguments and the projected state AFTER the    *)
(* call (.intervals, .slopes, ._intercepts as Dec values, and the three    *)
(* names .name_i/.name_j/.name as strings, None as "<None>").  `st` is the state   *)
(* logged by the previous line of the same trace id, so every relation of  *)
(* CovEffect.tla is evaluated between consecutive observations of the real *)
(* object.  Verdicts are total: failing clause names are accumulated in    *)
(* TLC register 1 and printed by the postcondition.                        *)
(***************************************************************************)
EXTENDS Dec, TLC, TLCExt, Json, IOUtils

TraceLog == ndJsonDeserialize(IOEnv.TRACE_FILE)
VARIABLES l, st

\* ---- Dec counterparts of the CovEffect operators
InsertAt(s, p, x) == SubSeq(s, 1, p) \o <<x>> \o SubSeq(s, p + 1, Len(s))
RemoveAt(s, i) == SubSeq(s, 1, i - 1) \o SubSeq(s, i + 1, Len(s))
IsAscendingD(s) == \A i \in 1..(Len(s) - 1) : Le(s[i], s[i + 1])

InsertOK(oiv, osl, niv, nsl, x, s) ==
   /\ Len(niv) = Len(oiv) + 1 /\ Len(nsl) = Len(niv)
   /\ IsAscendingD(niv)
   /\ \E p \in 0..Len(oiv) : niv = InsertAt(oiv, p, x) /\ nsl = InsertAt(osl, p, s)
PyIndex(i, n) == IF i < 0 THEN i + n ELSE i      \* python list index, counted from the end when negative
PopOK(oiv, osl, niv, nsl, i0) ==
   LET i == PyIndex(i0, Len(oiv)) IN
   /\ i >= 1 /\ i < Len(oiv)
   /\ niv = RemoveAt(oiv, i + 1) /\ nsl = RemoveAt(osl, i + 1)

\* intercept recurrence checked link by link against the logged intercepts
\* (scale: the three terms of each link)
FreshAt(ivs, sls, ics, k) ==
   IF k = 1 THEN ics[1] = Zero \/ IsZero(ics[1])
   ELSE LET t1 == Mul(sls[k - 1], ivs[k])
            t2 == ics[k - 1]
            t3 == Mul(sls[k], ivs[k])
        IN CloseIn(ics[k], Sub(Add(t1, t2), t3), {t1, t2, t3}, 6)
Fresh(ivs, sls, ics) == Len(ics) = Len(ivs) /\ \A k \in 1..Len(ivs) : FreshAt(ivs, sls, ics, k)
ContinuousAt(ivs, sls, ics, k) ==
   LET a == Mul(sls[k - 1], ivs[k])  b == Mul(sls[k], ivs[k])
   IN CloseIn(Add(a, ics[k - 1]), Add(b, ics[k]), {a, b, ics[k - 1], ics[k]}, 6)
Continuous(ivs, sls, ics) == \A k \in 2..Len(ivs) : ContinuousAt(ivs, sls, ics, k)

\* F(x): integral of the slope from 0 to x (the unique function the property names)
Terms(ivs, sls, x) ==
   [k \in 1..Len(ivs) |->
      LET lo == ivs[k]
          hi == IF k = Len(ivs) THEN x ELSE DMin(ivs[k + 1], x)
      IN IF Lt(lo, x) /\ Lt(lo, hi) THEN Mul(sls[k], Sub(hi, lo)) ELSE Zero]
F(ivs, sls, x) == SumSeq(Terms(ivs, sls, x))
\* the operands of the differences (hi - lo) above, times their slope: they set the scale of the rounding of the
\* 9-digit projection of x and of the breakpoints (a coverage one ulp above a breakpoint projects ONTO it)
TermScale(ivs, sls, x) ==
   UNION {{Mul(sls[k], ivs[k]), Mul(sls[k], x)} : k \in {j \in 1..Len(ivs) : Le(ivs[j], x)}}

StateClauses(e) ==
   (IF Len(e.iv) = Len(e.sl) THEN {} ELSE {"Paired"})
   \cup (IF Len(e.iv) = Len(e.sl) /\ Len(e.ic) = Len(e.iv) /\ Len(e.iv) >= 1 THEN
           (IF IsAscendingD(e.iv) THEN {} ELSE {"Ascending"})
           \cup (IF IsZero(e.iv[1]) THEN {} ELSE {"FirstIsZero"})
           \cup (IF Fresh(e.iv, e.sl, e.ic) THEN {} ELSE {"InterceptsFresh"})
           \cup (IF Continuous(e.iv, e.sl, e.ic) THEN {} ELSE {"Continuous"})
         ELSE {"Paired"})

EvalClauses(e) ==
   LET terms == Terms(st.iv, st.sl, e.x)
       f == SumSeq(terms)
       urt == Mul(Mul(e.U, e.R), e.T)
       scale == {terms[k] : k \in 1..Len(terms)} \cup {urt} \cup TermScale(st.iv, st.sl, e.x)
   IN (IF CloseIn(urt, f, scale, 6) THEN {} ELSE {"Unique"})
      \cup (IF e.H = e.U THEN {} ELSE {"HEqualsU"})
      \cup (IF e.G = e.U /\ e.F = e.U THEN {} ELSE {"GFEqualU"})
      \cup (IF IsZero(e.S) /\ IsZero(e.Cp) /\ IsZero(e.Cv) THEN {} ELSE {"NoEntropyNoCp"})
      \cup (IF IsZero(e.x) /\ ~IsZero(e.U) THEN {"ZeroAtZero"} ELSE {})

\* ---- the dimensional getters inherited from _ModelBase: get_U/get_H/get_G/get_F(units, T, x) and
\* get_S/get_Cp/get_Cv(units + "/K").  J per (energy unit of the table of pmutt.constants.R); slopes are kcal/mol.
\* The factors are the SI definitions (cal = 4.184 J, atm = 101325 Pa, torr = atm/760, eV and hartree times the
\* Avogadro number), NOT values read from the library.
UnitJ == ("J/mol" :> <<1, 0>>) @@ ("kJ/mol" :> <<1, 3>>) @@ ("L kPa/mol" :> <<1, 0>>)
         @@ ("cm3 kPa/mol" :> <<1, -3>>) @@ ("m3 Pa/mol" :> <<1, 0>>) @@ ("cm3 MPa/mol" :> <<1, 0>>)
         @@ ("m3 bar/mol" :> <<1, 5>>) @@ ("L bar/mol" :> <<1, 2>>) @@ ("L torr/mol" :> <<133322368, -9>>)
         @@ ("cal/mol" :> <<4184, -3>>) @@ ("kcal/mol" :> <<4184, 0>>) @@ ("L atm/mol" :> <<101325, -3>>)
         @@ ("cm3 atm/mol" :> <<101325, -6>>) @@ ("eV" :> <<964853321, -4>>) @@ ("Eh" :> <<262549964, -2>>)
         @@ ("Ha" :> <<262549964, -2>>)
KcalJ == <<4184, 0>>
DimClauses(e) ==
   LET terms == Terms(st.iv, st.sl, e.x)
       want == Mul(SumSeq(terms), KcalJ)                              \* J/mol, whatever the temperature
       scale == {Mul(t, KcalJ) : t \in {terms[k] : k \in 1..Len(terms)} \cup TermScale(st.iv, st.sl, e.x)}
       Ok(v) == CloseIn(Mul(v, UnitJ[e.units]), want, scale, 6)
   IN IF e.units \notin DOMAIN UnitJ THEN {"UnknownUnit"}
      ELSE (IF Ok(e.U) THEN {} ELSE {"DimU"}) \cup (IF Ok(e.H) THEN {} ELSE {"DimH"})
           \cup (IF Ok(e.G) THEN {} ELSE {"DimG"}) \cup (IF Ok(e.F) THEN {} ELSE {"DimF"})
           \cup (IF IsZero(e.S) /\ IsZero(e.Cp) /\ IsZero(e.Cv) THEN {} ELSE {"NoEntropyNoCp"})

Names(e) == <<e.ni, e.nj, e.nm>>
NamesKept(e) == IF Names(e) = st.nm THEN {} ELSE {"NamesKept"}

Clauses(e) ==
   CASE e.ev = "construct" ->
          \* the object holds what it was given: e.aiv/e.asl/e.ani/e.anj/e.anm are the constructor's arguments
          StateClauses(e) \cup
          (IF e.iv = e.aiv /\ e.sl = e.asl /\ Names(e) = <<e.ani, e.anj, e.anm>> THEN {} ELSE {"ConstructKeeps"})
     [] e.ev = "insert" ->
          StateClauses(e) \cup NamesKept(e) \cup
          (IF InsertOK(st.iv, st.sl, e.iv, e.sl, e.x, e.s) THEN {} ELSE {"InsertOK"})
     [] e.ev = "pop" ->
          StateClauses(e) \cup NamesKept(e) \cup
          (IF e.i = 0
           THEN (IF e.raised /\ e.iv = st.iv /\ e.sl = st.sl THEN {} ELSE {"PopZeroRefused"})
           ELSE (IF ~e.raised /\ PopOK(st.iv, st.sl, e.iv, e.sl, e.i) THEN {} ELSE {"PopOK"}))
     [] e.ev = "reload" ->
          StateClauses(e) \cup
          (IF e.iv = st.iv /\ e.sl = st.sl /\ Names(e) = st.nm THEN {} ELSE {"ReloadSame"})
     [] e.ev = "eval" -> EvalClauses(e)
     [] e.ev = "dim" -> DimClauses(e)
     \* something left behind (e.who: "orig" the object a reload was made from, "dict" the serialised record -
     \* evaluated through a fresh load of a deep copy -, "twin" a second object loaded from the same record,
     \* "sibling" a second object constructed from the same argument lists), observed again after a later call on
     \* the live object: e.iv/sl/ic now, e.siv/ssl/sic when it was left behind, e.U / e.sU its value at one coverage
     [] e.ev = "frozen" ->
          (IF e.iv = e.siv /\ e.sl = e.ssl /\ e.ic = e.sic /\ e.U = e.sU THEN {} ELSE {"ReloadDetached"})
          \cup (IF Len(e.iv) = Len(e.sl) /\ Len(e.ic) = Len(e.iv) /\ Fresh(e.iv, e.sl, e.ic) THEN {}
                ELSE {"ReloadDetachedFresh"})
     [] OTHER -> {"UnknownEvent"}

Step(e) == IF e.ev \in {"eval", "dim", "frozen"} THEN st ELSE [iv |-> e.iv, sl |-> e.sl, nm |-> Names(e)]

Init == l = 1 /\ st = [iv |-> <<>>, sl |-> <<>>, nm |-> <<>>] /\ TLCSet(1, {})
Next == /\ l <= Len(TraceLog)
        /\ LET e == TraceLog[l]  bad == Clauses(e) IN
             /\ IF bad # {} THEN TLCSet(1, TLCGet(1) \cup {<<e.tid, l, c>> : c \in bad}) ELSE TRUE
             /\ st' = Step(e)
        /\ l' = l + 1
Spec == Init /\ [][Next]_<<l, st>>
Post == /\ PrintT(<<"FAILS", TLCGet(1)>>)
        /\ PrintT(<<"CONSUMED", TLCGet("stats").diameter - 1>>)
=============================================================================
