\* random long behaviours (tlc -simulate) over 4 phase objects of all three kinds, printed for replay
SPECIFICATION Spec
CONSTANTS
  PhaseObj <- P4
  KindOf <- Kinds4
  Species <- S3
  GivenLists <- Given3
  MaxLen = 3
  MaxOps = 12
  Variant = "fresh"
  ElemOf <- Elem3
  CacheVariant = "none"
  OwnerVariant = "keep"
INVARIANT EmitBehaviours
CHECK_DEADLOCK FALSE
