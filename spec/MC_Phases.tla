----------------------------- MODULE MC_Phases -----------------------------
EXTENDS Phases
P3 == {"p1", "p2", "p3"}
Kinds3 == [p \in P3 |-> IF p = "p1" THEN "gas" ELSE "iface"]
P2 == {"p2", "p3"}
Kinds2 == [p \in P2 |-> "iface"]
P4 == {"p1", "p2", "p3", "p4"}
Kinds4 == [p \in P4 |-> IF p = "p1" THEN "gas" ELSE IF p = "p4" THEN "solid" ELSE "iface"]
S3 == {"s1", "s2", "s3"}
S2 == {"s1", "s2"}
Given3 == {<<>>, <<"s1">>, <<"s2">>, <<"s3">>, <<"s1", "s2">>, <<"s3", "s1">>, <<"s2", "s3">>}
Given2 == {<<>>, <<"s1">>, <<"s2", "s1">>}
Elem3 == [s \in S3 |-> IF s = "s1" THEN {"H"} ELSE IF s = "s2" THEN {"H", "N"} ELSE {"O"}]
Elem2 == [s \in S2 |-> IF s = "s1" THEN {"H"} ELSE {"H", "N"}]
\* history and its length are not part of the explored state
View == <<alive, want, owner, last, cell, store, cache>>
ViewDepth == <<alive, want, owner, last, cell, store, cache, Len(h)>>
=============================================================================
