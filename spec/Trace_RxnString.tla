-------------------------- MODULE Trace_RxnString --------------------------
(***************************************************************************)
(* C14 - trace validation of recorded calls of the real library.           *)
(* One NDJSON line per public call; text, names and numerals are character *)
(* codes, a coefficient is the text of repr(float) read exactly into an Fx *)
(* (RxnString.tla).  Events:                                               *)
(*   print   Reaction.to_string: the reaction, the options, the text       *)
(*   parse   Reaction.from_string: text, delimiters, the known names,      *)
(*           raise_error, the resulting reaction or the error / warnings;  *)
(*           src = "printed" means the text is the previous print's text   *)
(*           with blanks added (st carries that print event of the same    *)
(*           trace id)                                                     *)
(*   ring    pmutt.io.ring.read_reactions on a file given as its lines     *)
(*   balance Reaction.check_element_balance: species (coefficient as exact *)
(*           decimal <<m, e>>, composition) and accepted / rejected        *)
(*   formula pmutt.parse_formula: items it was built from, text, result    *)
(* Clauses (names of the relations that fail on a line):                   *)
(*   PrintRaises PrintDenotes | ParseRaises UnknownNamed ParserAgrees      *)
(*   PadWitness RoundTrip | RingAgrees | BalanceExact BalanceRaises |      *)
(*   FormulaWitness FormulaDirect FormulaReader FormulaRaises |            *)
(*   Unsupported UnknownEvent                                              *)
(* Verdicts are total: failing clause names are accumulated in TLC         *)
(* register 1 and printed by the postcondition.  Register 2 counts, per    *)
(* situation name, the lines whose antecedent was non-trivial (vacuity).   *)
(***************************************************************************)
EXTENDS RxnString, Formula, Balance, TLC, TLCExt, Json, IOUtils

TraceLog == ndJsonDeserialize(IOEnv.TRACE_FILE)
VARIABLES l, st

SeqToSet(s) == {s[i] : i \in 1..Len(s)}

\* ---- logged species lists  <<<<name, numeral>>, ...>>  ->  sequences of [nm, co, n]
SideNumeralsOK(side) == \A i \in 1..Len(side) : IsNumeral(side[i][2])
SideItems(side) == [i \in 1..Len(side) |-> [nm |-> side[i][1], co |-> FxOfNumeral(side[i][2]), n |-> 1]]
Logged(e) == [re |-> SideItems(e.re), pr |-> SideItems(e.pr), ts |-> SideItems(e.ts), hasTS |-> e.hasTS]
LoggedOK(e) == SideNumeralsOK(e.re) /\ SideNumeralsOK(e.pr) /\ SideNumeralsOK(e.ts)

\* ---- print
PrintedRxn(e) == [re |-> SideItems(e.re), pr |-> SideItems(e.pr),
                  ts |-> IF e.hasTS /\ e.incTS THEN SideItems(e.ts) ELSE <<>>]
PrintClauses(e) ==
   IF ~LoggedOK(e) THEN {"Unsupported"}
   ELSE IF e.raised THEN {"PrintRaises"}
   ELSE IF ~RxnSupported(e.out, e.spd, e.rxd) THEN {"PrintDenotes"}
   ELSE IF RoundTripOK(PrintedRxn(e), e.d, ParseRxn(e.out, e.spd, e.rxd)) THEN {} ELSE {"PrintDenotes"}

\* ---- parse
\* the name occurs in the message outside the echoed reaction text
Named(msg, text, nm) ==
   \E i \in 1..Len(msg) :
      /\ MatchAt(msg, nm, i)
      /\ ~\E j \in 1..Len(msg) : /\ Len(text) > 0 /\ MatchAt(msg, text, j)
                                 /\ j <= i /\ i + Len(nm) <= j + Len(text)
StartsWith(s, p) == MatchAt(s, p, 1)
KeyErrorTxt == <<75, 101, 121, 69, 114, 114, 111, 114>>
ValueErrorTxt == <<86, 97, 108, 117, 101, 69, 114, 114, 111, 114>>
SideNames(items) == {items[i].nm : i \in 1..Len(items)}
DropTS(p) == [p EXCEPT !.hasTS = FALSE, !.ts = <<>>]
ParseClauses(e) ==
   IF ~RxnSupported(e.text, e.spd, e.rxd) \/ (e.ok /\ ~LoggedOK(e)) THEN {"Unsupported"} ELSE
   LET p == ParseRxn(e.text, e.spd, e.rxd)
       known == SeqToSet(e.known)
       missRP == (SideNames(p.re) \cup SideNames(p.pr)) \ known
       missTS == SideNames(p.ts) \ known
       mustRaise == missRP # {} \/ (missTS # {} /\ e.strict)
       missing == missRP \cup (IF e.strict THEN missTS ELSE {})
       got == Logged(e)
       want == IF missTS # {} THEN DropTS(p) ELSE p
   IN (IF mustRaise
       THEN (IF ~e.ok /\ StartsWith(e.err, KeyErrorTxt) /\ \E nm \in missing : Named(e.err, e.text, nm)
             THEN {} ELSE {"UnknownNamed"})
       ELSE (IF ~e.ok THEN {"ParseRaises"}
             ELSE (IF ReadingAgrees(want, got) THEN {} ELSE {"ParserAgrees"})
                  \cup (IF missTS # {} /\ ~\E w \in SeqToSet(e.warns), nm \in missTS : Named(w, e.text, nm)
                        THEN {"UnknownNamed"} ELSE {})))
      \cup (IF e.src = "printed"
            THEN (IF st.tid = e.tid /\ NoBlanks(e.text) = NoBlanks(st.out) /\ e.spd = st.spd /\ e.rxd = st.rxd
                  THEN {} ELSE {"PadWitness"})
                 \cup (IF e.ok /\ ~RoundTripOK(st.r, st.d, got) THEN {"RoundTrip"} ELSE {})
            ELSE {})

\* ---- ring
RingClauses(e) ==
   LET sel == SelectSeq(e.lines, LAMBDA ln : Contains(ln, e.rxd)) IN
   IF \E i \in 1..Len(sel) : ~RxnSupported(sel[i], e.spd, e.rxd) THEN {"Unsupported"}
   ELSE IF ~e.ok THEN {"RingAgrees"}
   ELSE IF \E i \in 1..Len(e.rxns) : ~LoggedOK(e.rxns[i]) THEN {"Unsupported"}
   ELSE IF /\ Len(e.rxns) = Len(sel)
           /\ \A i \in 1..Len(sel) : ReadingAgrees(ParseRxn(sel[i], e.spd, e.rxd), Logged(e.rxns[i]))
        THEN {} ELSE {"RingAgrees"}

\* ---- balance: coefficient <<m, e>> = m * 10^e as an integer number of 10^-4
CoefOK(c) == c[2] >= -4 /\ c[2] <= 1 /\ c[1] >= 0 /\ c[1] <= 250000 \div PowTen(4 + c[2])     \* <= 25
CoefUnits(c) == c[1] * PowTen(4 + c[2])
BalSideOK(side) == \A i \in 1..Len(side) : CoefOK(side[i][1]) /\ \A m \in 1..Len(side[i][2]) : side[i][2][m][2] \in 0..999
BalSide(side) == [i \in 1..Len(side) |-> [co |-> CoefUnits(side[i][1]), comp |-> side[i][2]]]
BalanceClauses(e) ==
   IF ~(BalSideOK(e.re) /\ BalSideOK(e.pr) /\ BalSideOK(e.ts)) THEN {"Unsupported"} ELSE
   LET r == [re |-> BalSide(e.re), pr |-> BalSide(e.pr), ts |-> IF e.hasTS THEN BalSide(e.ts) ELSE <<>>,
             hasTS |-> e.hasTS]
   IN (IF e.accepted = Balanced(r) THEN {} ELSE {"BalanceExact"})
      \cup (IF ~e.accepted /\ ~StartsWith(e.err, ValueErrorTxt) THEN {"BalanceRaises"} ELSE {})

\* ---- formula
FItemsOf(s) == [i \in 1..Len(s) |-> [sym |-> s[i][1], n |-> s[i][2]]]
FormulaClauses(e) ==
   LET items == FItemsOf(e.items)  res == FItemsOf(e.result) IN
   IF ~CountsSupported(e.text) THEN {"Unsupported"}
   ELSE IF e.raised THEN {"FormulaRaises"}
   ELSE (IF (\A i \in 1..Len(items) : ItemOK(items[i])) /\ Render(items) = e.text THEN {} ELSE {"FormulaWitness"})
        \cup (IF AsSet(res) = AsSet(Direct(items)) /\ Cardinality(AsSet(res)) = Len(res) THEN {} ELSE {"FormulaDirect"})
        \cup (IF AsSet(res) = AsSet(ReadFormula(e.text)) THEN {} ELSE {"FormulaReader"})

Clauses(e) ==
   CASE e.ev = "print" -> PrintClauses(e)
     [] e.ev = "parse" -> ParseClauses(e)
     [] e.ev = "ring" -> RingClauses(e)
     [] e.ev = "balance" -> BalanceClauses(e)
     [] e.ev = "formula" -> FormulaClauses(e)
     [] OTHER -> {"UnknownEvent"}

\* ---- vacuity accounting: which situations the recorded lines actually exercised (register 2)
Situations == {"print_ts", "print_nots", "print_nearint", "print_decimal", "print_omitted", "print_noTSopt",
               "parse_raise", "parse_ts_dropped", "parse_merged", "parse_printed", "parse_ts", "parse_decimal",
               "ring_multi", "ring_skipped",
               "balance_balanced", "balance_unbalanced", "balance_ts", "balance_ts_decides", "balance_zero_entry",
               "formula_repeat", "formula_nocount", "formula_twoletter", "formula_bigcount"}
AllItems(p) == p.re \o p.pr \o p.ts
Seen(e) ==
   CASE e.ev = "print" /\ LoggedOK(e) ->
          LET its == AllItems(Logged(e)) IN
          (IF e.hasTS /\ e.incTS THEN {"print_ts"} ELSE {"print_nots"})
          \cup (IF e.hasTS /\ ~e.incTS THEN {"print_noTSopt"} ELSE {})
          \cup (IF \E i \in 1..Len(its) : NearInt(its[i].co) /\ (its[i].co[2] # 0 \/ its[i].co[3] # 0)
                THEN {"print_nearint"} ELSE {})
          \cup (IF \E i \in 1..Len(its) : ~NearInt(its[i].co) THEN {"print_decimal"} ELSE {})
          \cup (IF \E i \in 1..Len(its) : NearOne(its[i].co) THEN {"print_omitted"} ELSE {})
     [] e.ev = "parse" /\ RxnSupported(e.text, e.spd, e.rxd) ->
          LET p == ParseRxn(e.text, e.spd, e.rxd)
              known == SeqToSet(e.known)
              missRP == (SideNames(p.re) \cup SideNames(p.pr)) \ known
              missTS == SideNames(p.ts) \ known
              its == AllItems(p) IN
          (IF missRP # {} \/ (missTS # {} /\ e.strict) THEN {"parse_raise"} ELSE {})
          \cup (IF missRP = {} /\ missTS # {} /\ ~e.strict THEN {"parse_ts_dropped"} ELSE {})
          \cup (IF \E i \in 1..Len(its) : its[i].n > 1 THEN {"parse_merged"} ELSE {})
          \cup (IF \E i \in 1..Len(its) : its[i].co[2] # 0 THEN {"parse_decimal"} ELSE {})
          \cup (IF e.src = "printed" THEN {"parse_printed"} ELSE {})
          \cup (IF p.hasTS THEN {"parse_ts"} ELSE {})
     [] e.ev = "ring" ->
          LET sel == SelectSeq(e.lines, LAMBDA ln : Contains(ln, e.rxd)) IN
          (IF Len(sel) >= 2 THEN {"ring_multi"} ELSE {})
          \cup (IF Len(sel) < Len(e.lines) THEN {"ring_skipped"} ELSE {})
     [] e.ev = "balance" /\ BalSideOK(e.re) /\ BalSideOK(e.pr) /\ BalSideOK(e.ts) ->
          LET r == [re |-> BalSide(e.re), pr |-> BalSide(e.pr), ts |-> IF e.hasTS THEN BalSide(e.ts) ELSE <<>>,
                    hasTS |-> e.hasTS] IN
          (IF Balanced(r) THEN {"balance_balanced"} ELSE {"balance_unbalanced"})
          \cup (IF e.hasTS THEN {"balance_ts"} ELSE {})
          \cup (IF e.hasTS /\ ~Balanced(r) /\ Balanced([r EXCEPT !.hasTS = FALSE]) THEN {"balance_ts_decides"} ELSE {})
          \cup (IF \E i \in 1..Len(r.re) : \E m \in 1..Len(r.re[i].comp) : r.re[i].comp[m][2] = 0
                THEN {"balance_zero_entry"} ELSE {})
     [] e.ev = "formula" ->
          LET items == FItemsOf(e.items) IN
          (IF Len(Direct(items)) < Len(items) THEN {"formula_repeat"} ELSE {})
          \cup (IF \E i \in 1..Len(items) : items[i].n = 0 THEN {"formula_nocount"} ELSE {})
          \cup (IF \E i \in 1..Len(items) : Len(items[i].sym) = 2 THEN {"formula_twoletter"} ELSE {})
          \cup (IF \E i \in 1..Len(items) : items[i].n >= 100 THEN {"formula_bigcount"} ELSE {})
     [] OTHER -> {}
Bump(f, S) == [k \in Situations |-> f[k] + (IF k \in S THEN 1 ELSE 0)]
\* accounting costs a second reading of every text: only done when VACUITY=1 (a sample run)
Accounting == "VACUITY" \in DOMAIN IOEnv /\ IOEnv.VACUITY = "1"

NoPrint == [r |-> [re |-> <<>>, pr |-> <<>>, ts |-> <<>>], d |-> 0, out |-> <<>>, spd |-> <<>>, rxd |-> <<>>,
            tid |-> -1]
Step(e) == IF e.ev = "print" /\ LoggedOK(e)
           THEN [r |-> PrintedRxn(e), d |-> e.d, out |-> e.out, spd |-> e.spd, rxd |-> e.rxd, tid |-> e.tid]
           ELSE IF e.ev = "print" THEN NoPrint ELSE st

Init == l = 1 /\ st = NoPrint /\ TLCSet(1, {}) /\ TLCSet(2, [k \in Situations |-> 0])
Next == /\ l <= Len(TraceLog)
        /\ LET e == TraceLog[l]  bad == Clauses(e) IN
             /\ IF bad # {} THEN TLCSet(1, TLCGet(1) \cup {<<e.tid, l, c>> : c \in bad}) ELSE TRUE
             /\ IF Accounting THEN TLCSet(2, Bump(TLCGet(2), Seen(e))) ELSE TRUE
             /\ st' = Step(e)
        /\ l' = l + 1
Spec == Init /\ [][Next]_<<l, st>>
Post == /\ PrintT(<<"FAILS", TLCGet(1)>>)
        /\ PrintT(<<"SEEN", TLCGet(2)>>)
        /\ PrintT(<<"CONSUMED", TLCGet("stats").diameter - 1>>)
=============================================================================
