-------------------------- MODULE Trace_RxnString --------------------------
(***************************************************************************)
(* C14 - trace validation of recorded calls of the real library.           *)
(* One NDJSON line per public call; text, names and numerals are character *)
(* codes, a coefficient is the text of repr(float) read exactly into an Fx *)
(* (RxnString.tla).  Events:                                               *)
(* (cls = Reaction | ChemkinReaction | SurfaceReaction: the same relations  *)
(* bind the subclasses, which inherit or wrap the anchored methods)        *)
(*   print   cls.to_string / str(): the reaction, the options (delimiters, *)
(*           stoich_format text, stoich_space, include_TS, key), the text  *)
(*   parse   cls.from_string: text, delimiters, the known names (species   *)
(*           given as dict or list), raise_error, raise_warning, the       *)
(*           resulting reaction or the error / warnings;                   *)
(*           src = "printed" means the text is the previous print's text   *)
(*           with blanks added (st carries that print event of the same    *)
(*           trace id)                                                     *)
(*   ring    pmutt.io.ring.read_reactions on a file given as its lines     *)
(*           (raise_error / raise_warning forwarded)                       *)
(*   balance cls.check_element_balance: species (coefficient as exact      *)
(*           rational <<p, q>>, composition with exact decimal counts,     *)
(*           "has a composition") and accepted / rejected                  *)
(*   formula pmutt.parse_formula: items it was built from, text, result    *)
(* Clauses (names of the relations that fail on a line):                   *)
(*   PrintRaises PrintDenotes | ParseRaises UnknownNamed ParserAgrees      *)
(*   PadWitness RoundTrip | RingAgrees | BalanceExact BalanceRaises |      *)
(*   FormulaWitness FormulaDirect FormulaReader FormulaRaises              *)
(*   ParseRepeatable ResultsIndependent (fhist / fbalance: repeated use of *)
(*   parse_formula results, one of them edited in place) |                 *)
(*   Unsupported UnknownEvent                                              *)
(* Verdicts are total: failing clause names are accumulated in TLC         *)
(* register 1 and printed by the postcondition.  Register 2 counts, per    *)
(* situation name, the lines whose antecedent was non-trivial (vacuity).   *)
(***************************************************************************)
EXTENDS RxnString, Formula, Balance, TLC, TLCExt, Json, IOUtils

TraceLog == ndJsonDeserialize(IOEnv.TRACE_FILE)
VARIABLES l, st

SeqToSet(s) == {s[i] : i \in 1..Len(s)}

\* ---- logged species lists  <<<<name, numeral>>, ...>>  ->  sequences of [nm, co, n]
SideNumeralsOK(side) == \A i \in 1..Len(side) : IsNumeral(side[i][2])
SideItems(side) == [i \in 1..Len(side) |-> [nm |-> side[i][1], co |-> FxOfNumeral(side[i][2]), n |-> 1]]
Logged(e) == [re |-> SideItems(e.re), pr |-> SideItems(e.pr), ts |-> SideItems(e.ts), hasTS |-> e.hasTS]
LoggedOK(e) == SideNumeralsOK(e.re) /\ SideNumeralsOK(e.pr) /\ SideNumeralsOK(e.ts)

\* ---- print
PrintedRxn(e) == [re |-> SideItems(e.re), pr |-> SideItems(e.pr),
                  ts |-> IF e.hasTS /\ e.incTS THEN SideItems(e.ts) ELSE <<>>]
PrintClauses(e) ==
   IF ~LoggedOK(e) THEN {"Unsupported"}
   ELSE IF e.raised THEN {"PrintRaises"}
   ELSE IF ~FmtSupported(e.fmt) THEN {"Unsupported"}
   ELSE IF ~RxnSupported(e.out, e.spd, e.rxd) THEN {"PrintDenotes"}
   ELSE IF RoundTripP(PrintedRxn(e), FmtPrec(e.fmt), ParseRxn(e.out, e.spd, e.rxd)) THEN {} ELSE {"PrintDenotes"}

\* ---- parse
\* the name occurs in the message outside the echoed reaction text
Named(msg, text, nm) ==
   \E i \in 1..Len(msg) :
      /\ MatchAt(msg, nm, i)
      /\ ~\E j \in 1..Len(msg) : /\ Len(text) > 0 /\ MatchAt(msg, text, j)
                                 /\ j <= i /\ i + Len(nm) <= j + Len(text)
StartsWith(s, p) == MatchAt(s, p, 1)
KeyErrorTxt == <<75, 101, 121, 69, 114, 114, 111, 114>>
ValueErrorTxt == <<86, 97, 108, 117, 101, 69, 114, 114, 111, 114>>
SideNames(items) == {items[i].nm : i \in 1..Len(items)}
DropTS(p) == [p EXCEPT !.hasTS = FALSE, !.ts = <<>>]
\* what the documentation of from_string demands for one text: a KeyError when a reactant or a
\* product is unknown, or a TS species is unknown and raise_error is set; otherwise the reading,
\* without its transition state when a TS species is unknown
Demand(text, spd, rxd, known, strict) ==
   LET p == ParseRxn(text, spd, rxd)
       missRP == (SideNames(p.re) \cup SideNames(p.pr)) \ known
       missTS == SideNames(p.ts) \ known
   IN [p |-> p, missTS |-> missTS,
       mustRaise |-> missRP # {} \/ (missTS # {} /\ strict),
       missing |-> missRP \cup (IF strict THEN missTS ELSE {}),
       want |-> IF missTS # {} THEN DropTS(p) ELSE p]
ParseClauses(e) ==
   IF ~RxnSupported(e.text, e.spd, e.rxd) \/ (e.ok /\ ~LoggedOK(e)) THEN {"Unsupported"} ELSE
   LET dm == Demand(e.text, e.spd, e.rxd, SeqToSet(e.known), e.strict)
       got == Logged(e)
   IN (IF dm.mustRaise
       THEN (IF ~e.ok /\ StartsWith(e.err, KeyErrorTxt) /\ \E nm \in dm.missing : Named(e.err, e.text, nm)
             THEN {} ELSE {"UnknownNamed"})
       ELSE (IF ~e.ok THEN {"ParseRaises"}
             ELSE (IF ReadingAgrees(dm.want, got) THEN {} ELSE {"ParserAgrees"})
                  \cup (IF dm.missTS # {} /\ e.warn
                           /\ ~\E w \in SeqToSet(e.warns), nm \in dm.missTS : Named(w, e.text, nm)
                        THEN {"UnknownNamed"} ELSE {})))
      \cup (IF e.src = "printed"
            THEN (IF st.tid = e.tid /\ NoBlanks(e.text) = NoBlanks(st.out) /\ e.spd = st.spd /\ e.rxd = st.rxd
                  THEN {} ELSE {"PadWitness"})
                 \cup (IF e.ok /\ ~RoundTripP(st.r, st.prec, got) THEN {"RoundTrip"} ELSE {})
            ELSE {})

\* ---- ring
RingClauses(e) ==
   LET sel == SelectSeq(e.lines, LAMBDA ln : Contains(ln, e.rxd)) IN
   IF \E i \in 1..Len(sel) : ~RxnSupported(sel[i], e.spd, e.rxd) THEN {"Unsupported"} ELSE
   LET dm == [i \in 1..Len(sel) |-> Demand(sel[i], e.spd, e.rxd, SeqToSet(e.known), e.strict)] IN
   IF \E i \in 1..Len(sel) : dm[i].mustRaise
   THEN (IF ~e.ok /\ StartsWith(e.err, KeyErrorTxt) THEN {} ELSE {"RingAgrees"})
   ELSE IF ~e.ok THEN {"RingAgrees"}
   ELSE IF \E i \in 1..Len(e.rxns) : ~LoggedOK(e.rxns[i]) THEN {"Unsupported"}
   ELSE IF /\ Len(e.rxns) = Len(sel)
           /\ \A i \in 1..Len(sel) : ReadingAgrees(dm[i].want, Logged(e.rxns[i]))
        THEN {} ELSE {"RingAgrees"}

\* ---- balance.  A species is <<coefficient, composition, hasComposition>>: the coefficient an exact
\* rational <<p, q>> (a decimal m * 10^-k is <<m, 10^k>>; 1/3 is <<1, 3>> - the library gets the
\* nearest double), a count an exact decimal <<m, e>> (element dictionaries may hold floats).
\* Everything is scaled to integers: coefficients by the least common multiple L of the
\* denominators, counts by 10^J (J = most decimals of any count).
RECURSIVE TGcd(_, _)
TGcd(a, b) == IF b = 0 THEN a ELSE TGcd(b, a % b)
LcmCap(a, b) == IF a > 30000 THEN a ELSE (a \div TGcd(a, b)) * b
BalAll(e) == e.re \o e.pr \o e.ts
DenLcm(sp) == LET f[i \in 0..Len(sp)] == IF i = 0 THEN 1 ELSE LcmCap(f[i - 1], sp[i][1][2]) IN f[Len(sp)]
CountDecs(sp) == LET ds == UNION {{-sp[i][2][m][2][2] : m \in 1..Len(sp[i][2])} : i \in 1..Len(sp)} \cup {0}
                 IN CHOOSE d \in ds : \A x \in ds : x <= d
CountUnits(c, J) == c[1] * PowTen(J + c[2])
CoefUnitsR(c, L) == c[1] * (L \div c[2])
BalSupported(e) ==
   LET sp == BalAll(e) IN
   /\ \A i \in 1..Len(sp) : sp[i][1][2] >= 1 /\ sp[i][1][2] <= 10000 /\ sp[i][1][1] >= 0 /\ sp[i][1][1] <= 25 * sp[i][1][2]
   /\ DenLcm(sp) <= 30000
   /\ CountDecs(sp) <= 2
   /\ \A i \in 1..Len(sp) : \A m \in 1..Len(sp[i][2]) :
         LET c == sp[i][2][m][2] IN
         /\ c[1] >= 0 /\ c[1] < 100000 /\ c[2] <= 2 /\ CountDecs(sp) + c[2] <= 4
         /\ CountUnits(c, CountDecs(sp)) <= 500000000 \div (CoefUnitsR(sp[i][1], DenLcm(sp)) + 1)
   /\ Len(e.re) <= 4 /\ Len(e.pr) <= 4 /\ Len(e.ts) <= 4
BalSide(side, L, J) == [i \in 1..Len(side) |->
                          [co |-> CoefUnitsR(side[i][1], L),
                           comp |-> [m \in 1..Len(side[i][2]) |-> <<side[i][2][m][1], CountUnits(side[i][2][m][2], J)>>]]]
BalRxn(e) == LET L == DenLcm(BalAll(e))  J == CountDecs(BalAll(e)) IN
             [re |-> BalSide(e.re, L, J), pr |-> BalSide(e.pr, L, J),
              ts |-> IF e.hasTS THEN BalSide(e.ts, L, J) ELSE <<>>, hasTS |-> e.hasTS]
BalAllComposed(e) == \A i \in 1..Len(BalAll(e)) : BalAll(e)[i][3]
BalanceClauses(e) ==
   IF ~BalSupported(e) THEN {"Unsupported"}
   ELSE IF ~BalAllComposed(e)            \* a species without a composition: totals do not exist
        THEN (IF e.accepted THEN {"BalanceExact"} ELSE {})
   ELSE (IF e.accepted = Balanced(BalRxn(e)) THEN {} ELSE {"BalanceExact"})
        \cup (IF ~e.accepted /\ ~StartsWith(e.err, ValueErrorTxt) THEN {"BalanceRaises"} ELSE {})

\* ---- formula
FItemsOf(s) == [i \in 1..Len(s) |-> [sym |-> s[i][1], n |-> s[i][2]]]
FormulaClauses(e) ==
   LET items == FItemsOf(e.items)  res == FItemsOf(e.result) IN
   IF ~CountsSupported(e.text) THEN {"Unsupported"}
   ELSE IF e.raised THEN {"FormulaRaises"}
   ELSE (IF (\A i \in 1..Len(items) : ItemOK(items[i])) /\ Render(items) = e.text THEN {} ELSE {"FormulaWitness"})
        \cup (IF AsSet(res) = AsSet(Direct(items)) /\ Cardinality(AsSet(res)) = Len(res) THEN {} ELSE {"FormulaDirect"})
        \cup (IF AsSet(res) = AsSet(ReadFormula(e.text)) THEN {} ELSE {"FormulaReader"})
        \cup (IF "rep" \in DOMAIN e /\ e.rep > 1 /\ AsSet(res) # AsSet(ReadFormula(e.text))
              THEN {"ParseRepeatable"} ELSE {})

\* ---- second-use histories of parse_formula (C14-12): the same formula parsed repeatedly, one
\* returned dict edited in place.  fhist: `before`/`after` = another result of the same formula as
\* seen before and after the edit, `distinct` = the results are different objects.
FHistClauses(e) ==
   IF ~CountsSupported(e.text) THEN {"Unsupported"}
   ELSE IF e.distinct /\ e.before = e.after
           /\ AsSet(FItemsOf(e.after)) = AsSet(ReadFormula(e.text)) THEN {} ELSE {"ResultsIndependent"}
\* fbalance: species <<coefficient <<p, q>>, formula text, edit>>: built from parse_formula(text),
\* then (edit = <<symbol, count>>) that one species' dict edited in place; the composition the
\* property speaks of is the spec's own reading of the text with the edit applied
FEdit(acc, ed) == IF ed = <<>> THEN acc ELSE
                  LET j == FIndex(acc, ed[1]) IN
                  IF j = 0 THEN Append(acc, [sym |-> ed[1], n |-> ed[2]])
                  ELSE [acc EXCEPT ![j] = [sym |-> ed[1], n |-> ed[2]]]
FComp(sp) == LET a == FEdit(ReadFormula(sp[2]), sp[3]) IN [m \in 1..Len(a) |-> <<a[m].sym, a[m].n>>]
FBalSide(side, L) == [i \in 1..Len(side) |-> [co |-> CoefUnitsR(side[i][1], L), comp |-> FComp(side[i])]]
FBalRxn(e) == LET L == DenLcm(e.re \o e.pr) IN
              [re |-> FBalSide(e.re, L), pr |-> FBalSide(e.pr, L), ts |-> <<>>, hasTS |-> FALSE]
FBalanceClauses(e) ==
   IF \E i \in 1..Len(e.re \o e.pr) : ~CountsSupported((e.re \o e.pr)[i][2]) \/ (e.re \o e.pr)[i][1][2] \notin 1..12
   THEN {"Unsupported"}
   ELSE IF e.accepted = Balanced(FBalRxn(e)) THEN {} ELSE {"BalanceExact"}

Clauses(e) ==
   CASE e.ev = "print" -> PrintClauses(e)
     [] e.ev = "parse" -> ParseClauses(e)
     [] e.ev = "ring" -> RingClauses(e)
     [] e.ev = "balance" -> BalanceClauses(e)
     [] e.ev = "formula" -> FormulaClauses(e)
     [] e.ev = "fhist" -> FHistClauses(e)
     [] e.ev = "fbalance" -> FBalanceClauses(e)
     [] OTHER -> {"UnknownEvent"}

\* ---- vacuity accounting: which situations the recorded lines actually exercised (register 2)
FmtSituations == {"fmt_f0", "fmt_f1", "fmt_f2", "fmt_f3", "fmt_f4", "fmt_f5", "fmt_f6", "fmt_f", "fmt_g",
                  "fmt_g2", "fmt_g3", "fmt_g4", "fmt_exact"}
DelimSituations == {"delim_plus", "delim_eq", "delim_arrow", "delim_dot", "delim_gg", "delim_custom",
                    "delim_blanks"}
Situations == {"print_ts", "print_nots", "print_nearint", "print_decimal", "print_omitted", "print_noTSopt",
               "print_ts_multi", "print_ts_coef", "print_str", "print_key_alias", "print_stoich_int",
               "print_stoich_numpy", "print_cls_chemkin", "print_cls_surface", "print_4species",
               "print_int10", "print_near_grey", "name_delimchar", "name_charge", "name_prefix",
               "parse_raise", "parse_ts_dropped", "parse_merged", "parse_printed", "parse_ts", "parse_decimal",
               "parse_cls_chemkin", "parse_cls_surface", "parse_list", "parse_nowarn", "parse_ts_multi",
               "parse_ts_dropped_multi", "parse_int10", "parse_one_written", "parse_tab", "parse_gap",
               "parse_4species", "parse_merged_ts",
               "ring_multi", "ring_skipped", "ring_ts_dropped", "ring_raise",
               "balance_balanced", "balance_unbalanced", "balance_ts", "balance_ts_decides", "balance_zero_entry",
               "balance_rational", "balance_float_count", "balance_nocomp", "balance_ts_multi",
               "balance_ts_coef_differs", "balance_cls_chemkin", "balance_cls_surface",
               "formula_repeat", "formula_nocount", "formula_twoletter", "formula_bigcount", "formula_count1",
               "formula_999", "formula_reparsed", "fhist_edited", "fbalance_balanced", "fbalance_unbalanced"}
              \cup FmtSituations \cup DelimSituations
AllItems(p) == p.re \o p.pr \o p.ts
Flag(c, nm) == IF c THEN {nm} ELSE {}
FmtSeen(fmt) == IF fmt = <<>> THEN {"fmt_exact"} ELSE IF fmt = <<102>> THEN {"fmt_f"} ELSE IF fmt = <<103>> THEN {"fmt_g"}
                ELSE IF fmt[3] = 102
                     THEN {CASE fmt[2] = 48 -> "fmt_f0" [] fmt[2] = 49 -> "fmt_f1" [] fmt[2] = 50 -> "fmt_f2"
                             [] fmt[2] = 51 -> "fmt_f3" [] fmt[2] = 52 -> "fmt_f4" [] fmt[2] = 53 -> "fmt_f5"
                             [] fmt[2] = 54 -> "fmt_f6" [] OTHER -> "fmt_f"}
                     ELSE {CASE fmt[2] = 50 -> "fmt_g2" [] fmt[2] = 51 -> "fmt_g3" [] fmt[2] = 52 -> "fmt_g4"
                             [] OTHER -> "fmt_g"}
Documented == {<<43>>, <<61>>, <<60, 61, 62>>, <<46>>, <<62, 62>>}
DelimSeen(spd, rxd) ==
   Flag(Trim(spd) = <<43>>, "delim_plus") \cup Flag(Trim(rxd) = <<61>>, "delim_eq")
   \cup Flag(Trim(rxd) = <<60, 61, 62>>, "delim_arrow") \cup Flag(Trim(spd) = <<46>>, "delim_dot")
   \cup Flag(Trim(rxd) = <<62, 62>>, "delim_gg")
   \cup Flag(Trim(spd) \notin Documented \/ Trim(rxd) \notin Documented, "delim_custom")
   \cup Flag(Trim(spd) # spd \/ Trim(rxd) # rxd, "delim_blanks")
NameSeen(names, spd, rxd) ==
   LET dchars == SeqToSet(Trim(spd)) \cup SeqToSet(Trim(rxd)) IN
   Flag(\E nm \in names : SeqToSet(nm) \cap dchars # {}, "name_delimchar")
   \cup Flag(\E nm \in names : SeqToSet(nm) \cap {43, 45} # {}, "name_charge")
   \cup Flag(\E a \in names, b \in names : Len(a) < Len(b) /\ SubSeq(b, 1, Len(a)) = a, "name_prefix")
IsIntFx(c) == c[2] = 0 /\ c[3] = 0
\* the species tokens of a text (trimmed pieces), for the lexical situations
TokensOf(text, spd, rxd) ==
   LET sts == SplitOn(text, rxd)
       f[k \in 0..Len(sts)] == IF k = 0 THEN <<>>
                               ELSE f[k - 1] \o [j \in 1..Len(SplitOn(sts[k], spd)) |-> Trim(SplitOn(sts[k], spd)[j])]
   IN f[Len(sts)]
Seen(e) ==
   CASE e.ev = "print" /\ LoggedOK(e) /\ FmtSupported(e.fmt) ->
          LET its == AllItems(Logged(e))
              tsi == SideItems(e.ts) IN
          (IF e.hasTS /\ e.incTS THEN {"print_ts"} ELSE {"print_nots"})
          \cup Flag(e.hasTS /\ ~e.incTS, "print_noTSopt")
          \cup Flag(\E i \in 1..Len(its) : NearInt(its[i].co) /\ ~IsIntFx(its[i].co), "print_nearint")
          \cup Flag(\E i \in 1..Len(its) : ~NearInt(its[i].co), "print_decimal")
          \cup Flag(\E i \in 1..Len(its) : ~NearInt(its[i].co) /\ its[i].co[1] + its[i].co[2] > 0
                       /\ FxLe(FxAbsDiff(its[i].co, FxInt(NearestInt(its[i].co))),
                               <<0, 100 + 100000 * NearestInt(its[i].co), 0>>), "print_near_grey")
          \cup Flag(\E i \in 1..Len(its) : NearOne(its[i].co), "print_omitted")
          \cup Flag(\E i \in 1..Len(its) : IsIntFx(its[i].co) /\ its[i].co[1] >= 10, "print_int10")
          \cup Flag(e.hasTS /\ e.incTS /\ Len(tsi) >= 2, "print_ts_multi")
          \cup Flag(e.hasTS /\ e.incTS /\ \E i \in 1..Len(tsi) : ~NearOne(tsi[i].co), "print_ts_coef")
          \cup Flag(e.via = "str", "print_str") \cup Flag(e.key # "name", "print_key_alias")
          \cup Flag(e.stype = "int", "print_stoich_int") \cup Flag(e.stype = "numpy", "print_stoich_numpy")
          \cup Flag(e.cls = "ChemkinReaction", "print_cls_chemkin") \cup Flag(e.cls = "SurfaceReaction", "print_cls_surface")
          \cup Flag(Len(e.re) = 4 \/ Len(e.pr) = 4, "print_4species")
          \cup FmtSeen(e.fmt) \cup DelimSeen(e.spd, e.rxd)
          \cup NameSeen({its[i].nm : i \in 1..Len(its)}, e.spd, e.rxd)
     [] e.ev = "parse" /\ RxnSupported(e.text, e.spd, e.rxd) ->
          LET dm == Demand(e.text, e.spd, e.rxd, SeqToSet(e.known), e.strict)
              p == dm.p
              its == AllItems(p)
              toks == TokensOf(e.text, e.spd, e.rxd)
              lex == [j \in 1..Len(toks) |-> LexRun(toks[j])] IN
          Flag(dm.mustRaise, "parse_raise")
          \cup Flag(~dm.mustRaise /\ dm.missTS # {}, "parse_ts_dropped")
          \cup Flag(~dm.mustRaise /\ dm.missTS # {} /\ Len(p.ts) >= 2, "parse_ts_dropped_multi")
          \cup Flag(~dm.mustRaise /\ dm.missTS # {} /\ ~e.warn, "parse_nowarn")
          \cup Flag(\E i \in 1..Len(its) : its[i].n > 1, "parse_merged")
          \cup Flag(\E i \in 1..Len(p.ts) : p.ts[i].n > 1, "parse_merged_ts")
          \cup Flag(\E i \in 1..Len(its) : its[i].co[2] # 0, "parse_decimal")
          \cup Flag(e.src = "printed", "parse_printed")
          \cup Flag(p.hasTS, "parse_ts") \cup Flag(Len(p.ts) >= 2, "parse_ts_multi")
          \cup Flag(e.cls = "ChemkinReaction", "parse_cls_chemkin") \cup Flag(e.cls = "SurfaceReaction", "parse_cls_surface")
          \cup Flag(e.spform = "list", "parse_list")
          \cup Flag(\E j \in 1..Len(lex) : lex[j].ip # <<>> /\ lex[j].fp = <<>> /\ LexSupported(lex[j])
                                             /\ DigitsToInt(lex[j].ip) >= 10, "parse_int10")
          \cup Flag(\E j \in 1..Len(lex) : lex[j].ip # <<>> /\ LexSupported(lex[j]) /\ LexCoef(lex[j]) = FxOne, "parse_one_written")
          \cup Flag(\E j \in 1..Len(toks) : \E x \in 1..Len(toks[j]) : IsBlankC(toks[j][x]), "parse_gap")
          \cup Flag(\E x \in 1..Len(e.text) : e.text[x] = 9, "parse_tab")
          \cup Flag(Len(p.re) = 4 \/ Len(p.pr) = 4, "parse_4species")
          \cup (IF e.src = "hand" THEN DelimSeen(e.spd, e.rxd) \cup NameSeen({its[i].nm : i \in 1..Len(its)}, e.spd, e.rxd) ELSE {})
     [] e.ev = "ring" ->
          LET sel == SelectSeq(e.lines, LAMBDA ln : Contains(ln, e.rxd))
              dm == [i \in 1..Len(sel) |-> Demand(sel[i], e.spd, e.rxd, SeqToSet(e.known), e.strict)] IN
          Flag(Len(sel) >= 2, "ring_multi") \cup Flag(Len(sel) < Len(e.lines), "ring_skipped")
          \cup Flag(\E i \in 1..Len(sel) : dm[i].mustRaise, "ring_raise")
          \cup Flag((\A i \in 1..Len(sel) : ~dm[i].mustRaise) /\ \E i \in 1..Len(sel) : dm[i].missTS # {}, "ring_ts_dropped")
     [] e.ev = "balance" /\ BalSupported(e) ->
          LET r == BalRxn(e)  sp == BalAll(e) IN
          Flag(e.cls = "ChemkinReaction", "balance_cls_chemkin") \cup Flag(e.cls = "SurfaceReaction", "balance_cls_surface")
          \cup Flag(~BalAllComposed(e), "balance_nocomp")
          \cup (IF BalAllComposed(e)
                THEN (IF Balanced(r) THEN {"balance_balanced"} ELSE {"balance_unbalanced"})
                     \cup Flag(e.hasTS /\ ~Balanced(r) /\ Balanced([r EXCEPT !.hasTS = FALSE]), "balance_ts_decides")
                ELSE {})
          \cup Flag(e.hasTS, "balance_ts") \cup Flag(e.hasTS /\ Len(e.ts) >= 2, "balance_ts_multi")
          \cup Flag(e.hasTS /\ [i \in 1..Len(e.ts) |-> e.ts[i][1]] # [i \in 1..Len(e.pr) |-> e.pr[i][1]],
                    "balance_ts_coef_differs")
          \cup Flag(\E i \in 1..Len(sp) : \E m \in 1..Len(sp[i][2]) : sp[i][2][m][2][1] = 0, "balance_zero_entry")
          \cup Flag(\E i \in 1..Len(sp) : sp[i][1][2] \notin {1, 10, 100, 1000, 10000}, "balance_rational")
          \cup Flag(\E i \in 1..Len(sp) : \E m \in 1..Len(sp[i][2]) : sp[i][2][m][3], "balance_float_count")
     [] e.ev = "formula" ->
          LET items == FItemsOf(e.items) IN
          Flag(Len(Direct(items)) < Len(items), "formula_repeat")
          \cup Flag(\E i \in 1..Len(items) : items[i].n = 0, "formula_nocount")
          \cup Flag(\E i \in 1..Len(items) : items[i].n = 1, "formula_count1")
          \cup Flag(\E i \in 1..Len(items) : items[i].n = 999, "formula_999")
          \cup Flag(\E i \in 1..Len(items) : Len(items[i].sym) = 2, "formula_twoletter")
          \cup Flag(\E i \in 1..Len(items) : items[i].n >= 100, "formula_bigcount")
          \cup Flag("rep" \in DOMAIN e /\ e.rep > 1, "formula_reparsed")
     [] e.ev = "fhist" -> Flag(e.edited, "fhist_edited")
     [] e.ev = "fbalance" -> IF Balanced(FBalRxn(e)) THEN {"fbalance_balanced"} ELSE {"fbalance_unbalanced"}
     [] OTHER -> {}
Bump(f, S) == [k \in Situations |-> f[k] + (IF k \in S THEN 1 ELSE 0)]
\* accounting costs a second reading of every text: only done when VACUITY=1 (a sample run)
Accounting == "VACUITY" \in DOMAIN IOEnv /\ IOEnv.VACUITY = "1"

NoPrint == [r |-> [re |-> <<>>, pr |-> <<>>, ts |-> <<>>], prec |-> PrecF(0), out |-> <<>>, spd |-> <<>>, rxd |-> <<>>,
            tid |-> -1]
Step(e) == IF e.ev = "print" /\ LoggedOK(e) /\ FmtSupported(e.fmt)
           THEN [r |-> PrintedRxn(e), prec |-> FmtPrec(e.fmt), out |-> e.out, spd |-> e.spd, rxd |-> e.rxd, tid |-> e.tid]
           ELSE IF e.ev = "print" THEN NoPrint ELSE st

Init == l = 1 /\ st = NoPrint /\ TLCSet(1, {}) /\ TLCSet(2, [k \in Situations |-> 0])
Next == /\ l <= Len(TraceLog)
        /\ LET e == TraceLog[l]  bad == Clauses(e) IN
             /\ IF bad # {} THEN TLCSet(1, TLCGet(1) \cup {<<e.tid, l, c>> : c \in bad}) ELSE TRUE
             /\ IF Accounting THEN TLCSet(2, Bump(TLCGet(2), Seen(e))) ELSE TRUE
             /\ st' = Step(e)
        /\ l' = l + 1
Spec == Init /\ [][Next]_<<l, st>>
Post == /\ PrintT(<<"FAILS", TLCGet(1)>>)
        /\ PrintT(<<"SEEN", TLCGet(2)>>)
        /\ PrintT(<<"CONSUMED", TLCGet("stats").diameter - 1>>)
=============================================================================
