\* thorough tier, energies: <= 3 reactions, <= 5 nodes, <= 5 edges, <= 2 targets
SPECIFICATION Spec
CONSTANTS
  Networks <- MCNetsSpanBig
  Cutoffs <- MCNone
  EVals <- MCEVals
  EndAtTS = FALSE
  MaxTargets = 2
  Variant = "ok"
  Order = "asc"
INVARIANT GraphIsNetwork
INVARIANT CurSimple
INVARIANT FoundSound
INVARIANT CutoffStates
INVARIANT FoundExact
INVARIANT SpanDefinition
INVARIANT MinSpan
CHECK_DEADLOCK TRUE
