---- MODULE MC_Lsr_TTrace_1790591660 ----
EXTENDS Sequences, TLCExt, MC_Lsr, Toolbox, Naturals, TLC

_expression ==
    LET MC_Lsr_TEExpression == INSTANCE MC_Lsr_TEExpression
    IN MC_Lsr_TEExpression!expression
----

_trace ==
    LET MC_Lsr_TETrace == INSTANCE MC_Lsr_TETrace
    IN MC_Lsr_TETrace!trace
----

_inv ==
    ~(
        TLCGet("level") = Len(_TETrace)
        /\
        res = ([UoRT |-> <<10, 1>>, HoRT |-> <<10, 1>>, FoRT |-> <<10, 1>>, GoRT |-> <<10, 1>>, SoR |-> <<0, 1>>, CvoR |-> <<0, 1>>, CpoR |-> <<0, 1>>, U |-> <<5, 1>>, G |-> <<5, 1>>])
        /\
        T = (250)
        /\
        obj = ([kind |-> "raised"])
        /\
        h = (<<[T |-> 250, kind |-> "lsr", U |-> <<5, 1>>, op |-> "construct", arg |-> [rx |-> [v |-> <<-1, 1>>, form |-> "float", r |-> <<>>, p |-> <<>>], a |-> <<-2, 1>>, kind |-> "lsr", surf |-> [v |-> <<-1, 1>>, form |-> "float"], gas |-> [v |-> <<-1, 1>>, form |-> "float"], b |-> <<5, 1>>], ok |-> TRUE], [T |-> 250, kind |-> "raised", U |-> <<0, 1>>, op |-> "roundtrip", arg |-> 0, ok |-> FALSE]>>)
    )
----

_init ==
    /\ T = _TETrace[1].T
    /\ h = _TETrace[1].h
    /\ res = _TETrace[1].res
    /\ obj = _TETrace[1].obj
----

_next ==
    /\ \E i,j \in DOMAIN _TETrace:
        /\ \/ /\ j = i + 1
              /\ i = TLCGet("level")
        /\ T  = _TETrace[i].T
        /\ T' = _TETrace[j].T
        /\ h  = _TETrace[i].h
        /\ h' = _TETrace[j].h
        /\ res  = _TETrace[i].res
        /\ res' = _TETrace[j].res
        /\ obj  = _TETrace[i].obj
        /\ obj' = _TETrace[j].obj

\* Uncomment the ASSUME below to write the states of the error trace
\* to the given file in Json format. Note that you can pass any tuple
\* to `JsonSerialize`. For example, a sub-sequence of _TETrace.
    \* ASSUME
    \*     LET J == INSTANCE Json
    \*         IN J!JsonSerialize("MC_Lsr_TTrace_1790591660.json", _TETrace)

=============================================================================

 Note that you can extract this module `MC_Lsr_TEExpression`
  to a dedicated file to reuse `expression` (the module in the 
  dedicated `MC_Lsr_TEExpression.tla` file takes precedence 
  over the module `MC_Lsr_TEExpression` below).

---- MODULE MC_Lsr_TEExpression ----
EXTENDS Sequences, TLCExt, MC_Lsr, Toolbox, Naturals, TLC

expression == 
    [
        \* To hide variables of the `MC_Lsr` spec from the error trace,
        \* remove the variables below.  The trace will be written in the order
        \* of the fields of this record.
        T |-> T
        ,h |-> h
        ,res |-> res
        ,obj |-> obj
        
        \* Put additional constant-, state-, and action-level expressions here:
        \* ,_stateNumber |-> _TEPosition
        \* ,_TUnchanged |-> T = T'
        
        \* Format the `T` variable as Json value.
        \* ,_TJson |->
        \*     LET J == INSTANCE Json
        \*     IN J!ToJson(T)
        
        \* Lastly, you may build expressions over arbitrary sets of states by
        \* leveraging the _TETrace operator.  For example, this is how to
        \* count the number of times a spec variable changed up to the current
        \* state in the trace.
        \* ,_TModCount |->
        \*     LET F[s \in DOMAIN _TETrace] ==
        \*         IF s = 1 THEN 0
        \*         ELSE IF _TETrace[s].T # _TETrace[s-1].T
        \*             THEN 1 + F[s-1] ELSE F[s-1]
        \*     IN F[_TEPosition - 1]
    ]

=============================================================================



Parsing and semantic processing can take forever if the trace below is long.
 In this case, it is advised to uncomment the module below to deserialize the
 trace from a generated binary file.

\*
\*---- MODULE MC_Lsr_TETrace ----
\*EXTENDS IOUtils, MC_Lsr, TLC
\*
\*trace == IODeserialize("MC_Lsr_TTrace_1790591660.bin", TRUE)
\*
\*=============================================================================
\*

---- MODULE MC_Lsr_TETrace ----
EXTENDS MC_Lsr, TLC

trace == 
    <<
    ([res |-> [UoRT |-> <<10, 1>>, HoRT |-> <<10, 1>>, FoRT |-> <<10, 1>>, GoRT |-> <<10, 1>>, SoR |-> <<0, 1>>, CvoR |-> <<0, 1>>, CpoR |-> <<0, 1>>, U |-> <<5, 1>>, G |-> <<5, 1>>],T |-> 250,obj |-> [rx |-> [v |-> <<-1, 1>>, form |-> "float", r |-> <<>>, p |-> <<>>], a |-> <<-2, 1>>, kind |-> "lsr", surf |-> [v |-> <<-1, 1>>, form |-> "float"], gas |-> [v |-> <<-1, 1>>, form |-> "float"], b |-> <<5, 1>>],h |-> <<[T |-> 250, kind |-> "lsr", U |-> <<5, 1>>, op |-> "construct", arg |-> [rx |-> [v |-> <<-1, 1>>, form |-> "float", r |-> <<>>, p |-> <<>>], a |-> <<-2, 1>>, kind |-> "lsr", surf |-> [v |-> <<-1, 1>>, form |-> "float"], gas |-> [v |-> <<-1, 1>>, form |-> "float"], b |-> <<5, 1>>], ok |-> TRUE]>>]),
    ([res |-> [UoRT |-> <<10, 1>>, HoRT |-> <<10, 1>>, FoRT |-> <<10, 1>>, GoRT |-> <<10, 1>>, SoR |-> <<0, 1>>, CvoR |-> <<0, 1>>, CpoR |-> <<0, 1>>, U |-> <<5, 1>>, G |-> <<5, 1>>],T |-> 250,obj |-> [kind |-> "raised"],h |-> <<[T |-> 250, kind |-> "lsr", U |-> <<5, 1>>, op |-> "construct", arg |-> [rx |-> [v |-> <<-1, 1>>, form |-> "float", r |-> <<>>, p |-> <<>>], a |-> <<-2, 1>>, kind |-> "lsr", surf |-> [v |-> <<-1, 1>>, form |-> "float"], gas |-> [v |-> <<-1, 1>>, form |-> "float"], b |-> <<5, 1>>], ok |-> TRUE], [T |-> 250, kind |-> "raised", U |-> <<0, 1>>, op |-> "roundtrip", arg |-> 0, ok |-> FALSE]>>])
    >>
----


=============================================================================

---- CONFIG MC_Lsr_TTrace_1790591660 ----
CONSTANTS
    Slopes <- MCSlopes2
    Icpts <- MCIcpts2
    Energies <- MCEnergies2
    Temps = { 250 , 500 }
    MaxN = 2
    MaxOps = 2
    Variant = "unnamed"
    Kinds = { "lsr" }
    Stoichs = { 2 }
    ExtParts <- MCExtParts

INVARIANT
    _inv

CHECK_DEADLOCK
    \* CHECK_DEADLOCK off because of PROPERTY or INVARIANT above.
    FALSE

INIT
    _init

NEXT
    _next

CONSTANT
    _TETrace <- _trace

ALIAS
    _expression
=============================================================================
\* Generated on Mon Sep 28 10:34:45 UTC 2026