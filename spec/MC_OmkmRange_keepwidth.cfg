\* the repaired algorithm (header keeps its delimiter, groups keyed by printed width)
\* on every printed width, the empty prefix and non-integer suffixes
SPECIFICATION Spec
CONSTANTS
  Heads <- HeadsAll
  Numbers <- NumsAll
  Widths <- WidthsAll
  Extra <- ExtraAll
  MaxIds = 3
  Variant = "keepwidth"
INVARIANT TypeOK
INVARIANT Faithful
INVARIANT FormsAgree
CHECK_DEADLOCK FALSE
