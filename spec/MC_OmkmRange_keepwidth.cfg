\* the repaired algorithm (header keeps its delimiter, groups keyed by printed width)
\* on natural and %04d widths (quick tier; _big adds %05d and more numbers), the empty prefix and footers that cannot be encoded
\* (letters, sign, digits of other scripts as code points, superscript)
SPECIFICATION Spec
CONSTANTS
  Heads <- HeadsAll
  Numbers <- NumsQuick
  Widths <- WidthsQuick
  Extra <- ExtraQuick
  MaxIds = 3
  Variant = "keepwidth"
INVARIANT TypeOK
INVARIANT Faithful
INVARIANT FormsAgree
PROPERTY IdsUntouched
CHECK_DEADLOCK FALSE
