-------------------------- MODULE MC_Network_lemmas --------------------------
(* X02: facts about the definitions of NetworkDefs.tla, checked by evaluation.   *)
(*  RecEqualsDecl   the path set computed by extension (PathsRec) equals the     *)
(*                  defining filter (SimplePaths) on EVERY undirected graph with *)
(*                  nodes 1..n, n <= LN, every source, every non-empty target    *)
(*                  set and every bound on the number of states;                 *)
(*  CutoffMonotone  a larger cutoff never loses a pathway, and cutoff >= |N| is  *)
(*                  the same as no cutoff;                                       *)
(*  MinNontrivial   the minimum-span statement is not vacuous on the energies    *)
(*                  model: some network has two pathways with different spans,   *)
(*                  and some has a path with more than one acceptable span;      *)
(*  NoTSIsContraction  leaving the transition states out gives the graph in      *)
(*                  which every TS node is contracted away.                      *)
EXTENDS MC_Network
CONSTANT LN
Pairs(n) == {{a, b} : a \in 1..n, b \in 1..n} \ {{a} : a \in 1..n}
RecEqualsDecl ==
   \A n \in 1..LN : \A E \in SUBSET Pairs(n) : \A s \in 1..n :
      \A T \in (SUBSET (1..n)) \ {{}} : \A m \in 1..n :
         PathsRec(1..n, E, s, T, m) = SimplePaths(1..n, E, s, T, m)
CutoffMonotone ==
   \A n \in 1..LN : \A E \in SUBSET Pairs(n) : \A s \in 1..n : \A t \in (1..n) \ {s} :
      /\ \A c \in 1..n : Pathways(1..n, E, s, {t}, c) \subseteq Pathways(1..n, E, s, {t}, c + 1)
      /\ Pathways(1..n, E, s, {t}, n) = Pathways(1..n, E, s, {t}, 0)
      /\ \A c \in 1..n : \A p \in Pathways(1..n, E, s, {t}, c) : Len(p) <= c
MinNontrivial ==
   /\ \E net \in MCNetsSpan : LET N == NodesOf(net, TRUE)  E == EdgesOf(net, TRUE) IN
         \E s \in N : \E t \in N \ {s} : \E en \in [N -> MCEVals] :
            LET P == Pathways(N, E, s, {t}, 0) IN
            /\ Cardinality(P) >= 2
            /\ \E p1 \in P : \E p2 \in P : \A v \in PathSpans(en, p1) : \A w \in PathSpans(en, p2) : v < w
   /\ \E G \in [1..4 -> MCEVals] : Cardinality(SpanSetI(G)) >= 2
NoTSIsContraction ==
   \A net \in MCNets :
      EdgesOf(net, FALSE) = {{net[i][1], net[i][2]} : i \in 1..Len(net)}
      /\ NodesOf(net, FALSE) = NodesOf(net, TRUE) \ TSOf(net, TRUE)
ASSUME RecEqualsDecl
ASSUME CutoffMonotone
ASSUME MinNontrivial
ASSUME NoTSIsContraction
=============================================================================
