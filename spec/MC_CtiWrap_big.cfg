\* thorough tier: lengths {1,5,28,29,30,35}, <= 6 tokens
\* greedy filling as in the code: token lengths {1,5,28,30}, <= 5 tokens,
\* (line_len, max_line_len) over {30,31,60,80,100}^2
SPECIFICATION Spec
CONSTANTS
  TokLens <- LenSetBig
  MaxToks = 6
  LineLens <- WidthSet
  MaxLineLens <- WidthSet
  Variant = "greedy"
INVARIANT TypeOK
INVARIANT PlacedPreserved
INVARIANT WidthOK
INVARIANT DoneOK
PROPERTY InputUntouched
CHECK_DEADLOCK FALSE
