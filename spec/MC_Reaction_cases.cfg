\* case generation only (the ASSUME in MC_Reaction.tla writes the JSON); trivial state machine
SPECIFICATION Spec
CONSTANTS
  Rxns <- TinyRxns
  KwParts <- KwSmall
  ProbeNames <- MCProbeNames
  ProbeBlocks <- MCProbeBlocks
  Variant = "asbuilt"
  MaxCalls = 1
  MaxEdits = 0
  EditCoefs <- MCEditCoefs
  EditNames <- MCEditNames
INVARIANT TypeOK
CHECK_DEADLOCK FALSE
