--------------------------- MODULE Trace_OmkmDoc ---------------------------
(***************************************************************************)
(* C07 (documents) - trace validation of written thermo YAML / CTI files.  *)
(* One NDJSON line per ENTRY of the abstract document (harness:            *)
(* lib_c07_doc.py), in this order per file:                                *)
(*   begin  fmt, raised, loaded, sections, units, motz, exp (model summary)*)
(*   reaction* interaction* bep* species* phase*   obs (document) + exp    *)
(*   end                                                                   *)
(* `st` carries, for the file being read: the ids seen on reactions /      *)
(* interactions / BEPs (in order), the species and phase names seen, the   *)
(* model summary.  Membership clauses of later entries (BEP members, phase *)
(* ranges) are judged against the ids the reactions actually got.          *)
(* Verdicts are OmkmDoc!*Verdict; failing clause names go to register 1.   *)
(***************************************************************************)
EXTENDS OmkmDoc, TLCExt, Json, IOUtils

TraceLog == ndJsonDeserialize(IOEnv.TRACE_FILE)
VARIABLES l, st

NoPrev == [ok |-> FALSE, pairs |-> {}]
\* what the YAML file said about BEPs, remembered while the CTI file of the same model is read
PrevOf(e) == IF e.fmt = "yaml" \/ st.tid # e.tid THEN NoPrev         \* only within one model (trace id)
             ELSE IF st.fmt = "yaml" THEN [ok |-> st.ok, pairs |-> {<<st.bk[i], st.bid[i]>> : i \in 1..Len(st.bk)}]
             ELSE st.prev
Fresh(e) == [tid |-> e.tid, fmt |-> e.fmt, ok |-> e.raised = "" /\ e.loaded, exp |-> e.exp, prev |-> PrevOf(e),
             rid |-> <<>>, iid |-> <<>>, bid |-> <<>>, bk |-> <<>>, sp |-> <<>>, ph |-> <<>>]
Idle == [tid |-> -1, fmt |-> "", ok |-> FALSE, exp |-> <<>>, prev |-> NoPrev, rid |-> <<>>, iid |-> <<>>, bid |-> <<>>,
         bk |-> <<>>, sp |-> <<>>, ph |-> <<>>]

Clauses(e) ==
   CASE e.ev = "begin" -> BeginVerdict(e)
     [] e.ev = "reaction" -> ReactionVerdict(st.fmt, e.obs, e.exp)
     [] e.ev = "interaction" -> InterVerdict(st.fmt, e.obs, e.exp)
     [] e.ev = "bep" -> BepVerdict(st.fmt, e.obs, e.exp, st.rid)
     [] e.ev = "species" -> SpeciesVerdict(st.fmt, e.obs, e.exp)
     [] e.ev = "phase" -> PhaseVerdict(st.fmt, e.obs, e.exp, st.rid, st.iid)
     [] e.ev = "end" -> IF st.ok THEN EndVerdict(st) ELSE {}
     [] OTHER -> {"UnknownEvent"}

Step(e) ==
   CASE e.ev = "begin" -> Fresh(e)
     [] e.ev = "reaction" -> [st EXCEPT !.rid = Append(@, e.obs.idc)]
     [] e.ev = "interaction" -> [st EXCEPT !.iid = Append(@, e.obs.idc)]
     [] e.ev = "bep" -> [st EXCEPT !.bid = Append(@, e.obs.idc), !.bk = Append(@, e.ek)]
     [] e.ev = "species" -> [st EXCEPT !.sp = Append(@, e.obs.name)]
     [] e.ev = "phase" -> [st EXCEPT !.ph = Append(@, e.obs.name)]
     [] OTHER -> st

Init == l = 1 /\ st = Idle /\ TLCSet(1, {})
Next == /\ l <= Len(TraceLog)
        /\ LET e == TraceLog[l]  bad == Clauses(e) IN
             /\ IF bad # {} THEN TLCSet(1, TLCGet(1) \cup {<<e.tid, l, c>> : c \in bad}) ELSE TRUE
             /\ st' = Step(e)
        /\ l' = l + 1
Spec == Init /\ [][Next]_<<l, st>>
Post == /\ PrintT(<<"FAILS", TLCGet(1)>>)
        /\ PrintT(<<"CONSUMED", TLCGet("stats").diameter - 1>>)
=============================================================================
