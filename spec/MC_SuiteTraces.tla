--------------------------- MODULE MC_SuiteTraces ---------------------------
EXTENDS SuiteTraces
\* one reaction "r" over the species "a" and "b"; "d" is a third species, so that with three
\* addresses the fourth object can only be constructed at an address that was freed
MCParts == [r \in {"r"} |-> <<"a", "b">>]
MCNb == [c \in {"c1", "c2"} |-> IF c = "c1" THEN "c2" ELSE "c1"]
\* the history is only replayed, never read: keep it out of the fingerprint
IdPerms == Permutations(Ids)
View == <<next, cur, mode, held, born, addr, reg, obs, pending, enabled, out, truth, Len(h)>>
=============================================================================
