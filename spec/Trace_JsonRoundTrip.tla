------------------------ MODULE Trace_JsonRoundTrip ------------------------
(***************************************************************************)
(* C11 - trace validation of recorded encode / decode lifecycles.          *)
(*                                                                         *)
(* One trace = one real object taken through a lifecycle of                *)
(* JsonRoundTrip.tla.  Lines:                                              *)
(*   begin     a new object (root class)                                   *)
(*   call      Encode | Load | DecodeDict | DecodeAgain | Reencode, with   *)
(*             `raised` and the class whose to_dict/from_dict raised       *)
(*   node      after a decode, one line per node of the ORIGINAL tree      *)
(*             (pre-order): what sits at that place in the decoded value   *)
(*             (kind obj | dict | other, its class, whether a dictionary's *)
(*             'class' tag is known to type_to_class), per child slot the  *)
(*             number of children wanted/got, per attribute of the schema  *)
(*             the projected value before and after                        *)
(*   getters   per node, every property getter evaluated with identical    *)
(*             arguments on the original and on the decoded node           *)
(*   dictnode  per dictionary of the caller's dictionary: its shallow      *)
(*             content before json_to_pmutt and afterwards                 *)
(*   renode    what a later json_to_pmutt of the same dictionary returned  *)
(* Clauses (names of the failing ones are accumulated, verdicts are total):*)
(*   Lifecycle, Raises, EncodesText, RegistryTotal, NestedDecoded,         *)
(*   SameClass, ChildrenKept:<slot>, ChildrenOrder:<slot> (children of a   *)
(*   list slot come back permuted; children are also compared position by  *)
(*   position), IdentifyingAttrsEqual:<attribute>,                         *)
(*   GettersEqual:<getter>, DictUntouched, Repeatable.                     *)
(* Numbers: JSON text round-trips doubles exactly, so attribute values     *)
(* must be EQUAL as 17-digit decimals; getter results are compared to      *)
(* 1e-13 relative (Close2, k = 13): a list that comes back where an array  *)
(* went in may change the order of a floating-point sum.                   *)
(* A getter is judged only when nothing it depends on has already failed   *)
(* below it (st.dirty): a lost child or parameter is reported once, where  *)
(* it is lost, not again through every getter of every ancestor.           *)
(***************************************************************************)
EXTENDS Dec2, TLC, TLCExt, Json, IOUtils, FiniteSets

TraceLog == ndJsonDeserialize(IOEnv.TRACE_FILE)
VARIABLES l, st

IsPrefix(p, q) == Len(p) <= Len(q) /\ SubSeq(q, 1, Len(p)) = p

\* projected attribute values: <<"none">>, <<"missing">>, <<"s", str>>, <<"b", bool>>, <<"o", type>>,
\* <<"nf", repr>>, <<"n", Dec2>>, <<"l", <<values>> >>, <<"d", << <<key, value>> ... >> >>
RECURSIVE SameVal(_, _)
SameVal(a, b) ==
   /\ a[1] = b[1]
   /\ CASE a[1] \in {"none", "missing"} -> TRUE
        [] a[1] \in {"s", "b", "o", "nf"} -> a[2] = b[2]
        [] a[1] = "n" -> Equal2(a[2], b[2])
        [] a[1] = "l" -> /\ Len(a[2]) = Len(b[2])
                         /\ \A i \in 1..Len(a[2]) : SameVal(a[2][i], b[2][i])
        [] a[1] = "d" -> /\ Len(a[2]) = Len(b[2])
                         /\ \A i \in 1..Len(a[2]) : /\ a[2][i][1] = b[2][i][1]
                                                    /\ SameVal(a[2][i][2], b[2][i][2])
        [] OTHER -> FALSE

GetterSame(a, b) ==
   IF a.raised \/ b.raised THEN a.raised = b.raised /\ a.err = b.err
   ELSE /\ a.err = b.err /\ a.nf = b.nf /\ Len(a.vals) = Len(b.vals)
        /\ \A i \in 1..Len(a.vals) : a.nf[i] # "ok" \/ Close2(a.vals[i], b.vals[i], 13)

\* ---- call
CallEnabled(e) ==
   CASE e.name = "Encode" -> ~st.text
     [] e.name = "Load" -> st.text
     [] e.name = "DecodeDict" -> st.text /\ ~st.dict
     [] e.name = "DecodeAgain" -> st.dict
     [] e.name = "Reencode" -> st.decoded
     [] OTHER -> FALSE
CallClauses(e) ==
   (IF e.skipped \/ (CallEnabled(e) /\ ~st.stopped) THEN {} ELSE {"Lifecycle"})
   \cup (IF e.raised THEN {"Raises"} ELSE {})
   \cup (IF ~e.raised /\ ~e.skipped /\ e.name \in {"Encode", "Reencode"} /\ ~e.istext THEN {"EncodesText"} ELSE {})

\* ---- node
NodeOK(e) == e.kind = "obj" /\ e.gotcls = e.cls
NodeLevel(e) ==
   IF e.kind = "dict" THEN (IF e.tagok THEN {"NestedDecoded"} ELSE {"RegistryTotal"})
   ELSE IF ~NodeOK(e) THEN {"SameClass"} ELSE {}
SlotFails(e) == {e.slots[i][1] : i \in {j \in 1..Len(e.slots) : e.slots[j][2] # e.slots[j][3]}}
\* same children, other order: the sequences of child signatures differ but hold the same elements
Elems(q) == {q[i] : i \in 1..Len(q)}
OrderFails(e) == {e.slots[i][1] : i \in {j \in 1..Len(e.slots) :
                     /\ e.slots[j][2] = e.slots[j][3]
                     /\ e.slots[j][4] # e.slots[j][5]
                     /\ Elems(e.slots[j][4]) = Elems(e.slots[j][5])}}
AttrFails(e) == {i \in 1..Len(e.attrs) : ~SameVal(e.attrs[i][3], e.attrs[i][4])}
NodeClauses(e) ==
   NodeLevel(e)
   \cup (IF NodeOK(e) THEN {"ChildrenKept:" \o s : s \in SlotFails(e)}
                           \cup {"ChildrenOrder:" \o s : s \in OrderFails(e)}
                           \cup {"IdentifyingAttrsEqual:" \o e.attrs[i][1] : i \in AttrFails(e)}
         ELSE {})
\* does this node spoil the getters of itself and of its ancestors?
NodeDirty(e) == \/ ~NodeOK(e)
                \/ SlotFails(e) # {} \/ OrderFails(e) # {}
                \/ \E i \in AttrFails(e) : e.attrs[i][2]

\* ---- getters
Masked(e) == \E d \in st.dirty : IsPrefix(e.path, d)
GetterClauses(e) ==
   IF Masked(e) THEN {}
   ELSE {"GettersEqual:" \o e.items[i][1] :
            i \in {j \in 1..Len(e.items) : ~GetterSame(e.items[j][2], e.items[j][3])}}

\* ---- later decode of the same dictionary
ReClauses(e) ==
   IF \E f \in st.first : f[1] = e.path /\ (f[2] # e.kind \/ f[3] # e.gotcls) THEN {"Repeatable"} ELSE {}

Clauses(e) ==
   CASE e.ev = "begin" -> {}
     [] e.ev = "call" -> CallClauses(e)
     [] e.ev = "node" -> NodeClauses(e)
     [] e.ev = "getters" -> GetterClauses(e)
     [] e.ev = "dictnode" -> IF e.before = e.after THEN {} ELSE {"DictUntouched"}
     [] e.ev = "renode" -> ReClauses(e)
     [] OTHER -> {"UnknownEvent"}

Fresh == [text |-> FALSE, dict |-> FALSE, decoded |-> FALSE, stopped |-> FALSE, dirty |-> {}, first |-> {}]
Step(e) ==
   CASE e.ev = "begin" -> Fresh
     [] e.ev = "call" ->
          IF e.raised \/ e.skipped THEN [st EXCEPT !.stopped = TRUE]
          ELSE CASE e.name \in {"Encode", "Reencode"} -> [st EXCEPT !.text = TRUE]
                 [] e.name = "Load" -> [st EXCEPT !.dirty = {}, !.decoded = TRUE]
                 [] e.name = "DecodeDict" -> [st EXCEPT !.dirty = {}, !.decoded = TRUE, !.dict = TRUE]
                 [] OTHER -> st
     [] e.ev = "node" ->
          [st EXCEPT !.dirty = IF NodeDirty(e) THEN @ \cup {e.path} ELSE @,
                     !.first = IF e.act = "dict" THEN @ \cup {<<e.path, e.kind, e.gotcls>>} ELSE @,
                     !.decoded = IF e.path = << >> /\ ~NodeOK(e) THEN FALSE ELSE @]
     [] OTHER -> st

\* vacuity accounting: number of getter comparisons that were actually judged (register 2); it
\* leaves through the FAILS set as one pseudo-entry whose clause starts with "~"
Judged(e) == IF e.ev = "getters" /\ ~Masked(e) THEN Len(e.items) ELSE 0
\* number of compared attributes whose ORIGINAL value is falsy but not None (0, 0.0, False, '', [],
\* {}): these must come back as themselves, not as None or as the constructor default (register 3)
FalsyVal(v) == \/ v[1] = "n" /\ IsZero2(v[2])
               \/ v[1] = "b" /\ v[2] = FALSE
               \/ v[1] = "s" /\ v[2] = ""
               \/ v[1] \in {"l", "d"} /\ Len(v[2]) = 0
FalsyCount(e) == IF e.ev = "node" /\ NodeOK(e)
                 THEN Cardinality({i \in 1..Len(e.attrs) : FalsyVal(e.attrs[i][3])}) ELSE 0

Init == l = 1 /\ st = Fresh /\ TLCSet(1, {}) /\ TLCSet(2, 0) /\ TLCSet(3, 0)
Next == /\ l <= Len(TraceLog)
        /\ LET e == TraceLog[l]  bad == Clauses(e) IN
             /\ IF bad # {} THEN TLCSet(1, TLCGet(1) \cup {<<e.tid, l, c>> : c \in bad}) ELSE TRUE
             /\ IF Judged(e) > 0 THEN TLCSet(2, TLCGet(2) + Judged(e)) ELSE TRUE
             /\ IF FalsyCount(e) > 0 THEN TLCSet(3, TLCGet(3) + FalsyCount(e)) ELSE TRUE
             /\ st' = Step(e)
        /\ l' = l + 1
Spec == Init /\ [][Next]_<<l, st>>
Post == /\ PrintT(<<"FAILS", TLCGet(1) \cup {<<0, 1, "~judged:" \o ToString(TLCGet(2))>>,
                                                   <<0, 1, "~falsy:" \o ToString(TLCGet(3))>>}>>)
        /\ PrintT(<<"CONSUMED", TLCGet("stats").diameter - 1>>)
=============================================================================
