\* EXPECTED TO BE REJECTED: pmutt_list_to_dict raises AttributeError for a missing attribute, its docstring
\* as found lists KeyError
SPECIFICATION Spec
CONSTANTS
  Worlds <- DictMissing
  V <- VAsFound
INVARIANT TypeOK
INVARIANT DictFaithful
INVARIANT RaisesDocumented
INVARIANT CallerUntouched
CHECK_DEADLOCK FALSE
