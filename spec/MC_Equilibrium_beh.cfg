\* every complete behaviour of 3 calls, printed for replay into the real object
SPECIFICATION Spec
CONSTANTS
  MaxCalls = 3
  Variant = "Required"
INVARIANT EmitBehaviours
CHECK_DEADLOCK FALSE
