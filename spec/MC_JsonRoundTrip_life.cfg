\* every lifecycle of exactly MaxLife calls (one tree), printed for replay
SPECIFICATION Spec
CONSTANTS
  Variant = "required"
  MaxDepth = 0
  MaxLife = 4
  Roots <- OneRoot
INVARIANT EmitLife
CHECK_DEADLOCK FALSE
