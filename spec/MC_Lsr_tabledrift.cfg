\* the source as found (variant "tabledrift"): EXPECTED TO BE REJECTED by RelationHolds
SPECIFICATION Spec
CONSTANTS
  Slopes <- MCSlopes2
  Icpts <- MCIcpts2
  Energies <- MCEnergies2
  Temps = {250, 500}
  MaxN = 2
  MaxOps = 2
  Variant = "tabledrift"
  Kinds = {"lsr"}
  Stoichs = {2}
  ExtParts <- MCExtParts
INVARIANT RelationHolds
VIEW View
CHECK_DEADLOCK FALSE
