SPECIFICATION Spec
CONSTANTS
  TokLens = {1}
  MaxToks = 0
  LineLens = {30}
  MaxLineLens = {30}
  Variant = "greedy"
CHECK_DEADLOCK FALSE
