\* EXPECTED TO BE REJECTED (sensitivity): a block is matched by key.startswith(name): H2O_kwargs reaches H2
SPECIFICATION Spec
CONSTANTS
  Worlds <- Small
  V <- VStartsWith
INVARIANT TypeOK
INVARIANT SpecieFaithful
INVARIANT BlockKeysRemoved
INVARIANT FormatFaithful
INVARIANT FormatCount
INVARIANT DictFaithful
INVARIANT IterFaithful
INVARIANT AttrFaithful
INVARIANT CallerUntouched
CHECK_DEADLOCK FALSE
