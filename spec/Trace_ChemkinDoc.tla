------------------------- MODULE Trace_ChemkinDoc -------------------------
(***************************************************************************)
(* C06 - trace validation of recorded Chemkin writer / reader calls.       *)
(*                                                                         *)
(* One trace = one mechanism session.  NDJSON events:                      *)
(*  mech        M = the mechanism handed to the writers, projected from    *)
(*              the pmutt objects (ChemkinDoc.tla, PART 1), site numbers   *)
(*              as Dec; exp/hasexp = the documents TLC computed for this   *)
(*              mechanism in the design run (S->C cases only)              *)
(*  write_gas   write_surf   write_ea   write_tflow   write_tube           *)
(*              lines = the REAL file text, lexed only: comment tails (!)  *)
(*              dropped, split at blanks, / and ', one record per token    *)
(*              [s text, c character codes, n numeric?, v = <<m, e>> the   *)
(*              printed decimal m*10^e, so 10^e is one unit of the last    *)
(*              printed digit]; model = the numbers the model gives for    *)
(*              every reaction (object getters called by the harness with  *)
(*              the requested conditions: sticking coefficient or get_A,   *)
(*              beta, the chosen get_*_act); same = file on disk has the   *)
(*              text of the returned string; raised = exception text       *)
(*  read        rx = what pmutt.io.chemkin.read_reactions returned for the *)
(*              gas.inp / surf.inp just written; rxo = the same with the   *)
(*              names taken from the objects returned when `species` is    *)
(*              passed                                                     *)
(*                                                                         *)
(* The sections of each file are parsed HERE (line automata below) into    *)
(* the abstract documents of ChemkinDoc.tla and judged by its required     *)
(* relation.  Clauses (names of those that fail are accumulated in TLC     *)
(* register 1; verdicts are total):                                        *)
(*  Raises, FileEqualsString, WellFormed (sections, columns, equations)    *)
(*  Partition (PartitionReactantsOnly when the file is exactly what the    *)
(*      named variant "all REACTANTS gaseous" produces), EachOnceReactions,*)
(*      NoStrangers, StickMatches                                          *)
(*  EachOnceElements, EachOnceGasSpecies, EachOnceSites,                   *)
(*  EachOnceAdsorbates, EachOnceBulk, EachOnceTube, UnitsDeclared          *)
(*  CountsMatch (declared count = entries; T_flow/columns = conditions)    *)
(*  Num_A Num_Beta Num_Ea Num_Sden Num_Density Num_EA Num_Tflow Num_Frac   *)
(*      printed = model to the printed precision:                          *)
(*      2 |printed - model| <= 1.05 units of the last printed digit        *)
(*      (0.05: the 9-digit Dec projection of the model value)              *)
(*  Num_Ea_Species Num_EA_Species  printed activation value = the value    *)
(*      this specification computes from the SPECIES' H/RT or G/RT (witness *)
(*      `wit`: barrier, reaction change, clamp at 0, times R*T)            *)
(*  Num_A_Species  printed pre-exponential factor = (kb/h) exp(dS/R) /      *)
(*      site_den^(n-1) computed here from the species list of M (surface  *)
(*      reactants counted, bulk and gas not)                              *)
(*  ReaderRaises, ReadBack (pmutt's reader returns, in file order, the     *)
(*      reactions this specification reads in the same file)               *)
(*  ReplayDoc (S->C: documents = the ones TLC expected)                     *)
(***************************************************************************)
EXTENDS ChemkinReq, Dec, TLCExt, Json, IOUtils

TraceLog == ndJsonDeserialize(IOEnv.TRACE_FILE)
VARIABLES l, st

Some(ok, name) == IF ok THEN {} ELSE {name}

\* ---- numbers
PrintedOK(v, m) == LET d == DAbs(Sub(v, m)) IN Le(Add(d, d), <<105, v[2] - 2>>)
IntOf(tok) == IF tok.n /\ tok.v[2] = 0 THEN tok.v[1] ELSE -1

\* ---- reaction lines
RECURSIVE JoinBlank(_)
JoinBlank(ws) == IF Len(ws) = 0 THEN <<>> ELSE IF Len(ws) = 1 THEN ws[1]
                 ELSE ws[1] \o <<32>> \o JoinBlank(Tail(ws))
BadEntry == [ok |-> FALSE, lhs |-> {}, rhs |-> {}, stick |-> FALSE, nums |-> <<>>]
RxLine(line, k) ==
   LET n == Len(line) IN
   IF ~(n > k /\ \A i \in (n - k + 1)..n : line[i].n) THEN BadEntry
   ELSE LET p == ParseEq(JoinBlank([i \in 1..(n - k) |-> line[i].c]))
        IN [ok |-> p.ok, lhs |-> Bag(p.lhs), rhs |-> Bag(p.rhs), stick |-> FALSE,
            nums |-> [i \in 1..k |-> line[n - k + i].v]]
Kw(line, w) == Len(line) = 1 /\ line[1].s = w
MarkStick(rx) == [rx EXCEPT ![Len(rx)].stick = TRUE]
EntriesOK(rx) == \A k \in DOMAIN rx : rx[k].ok

\* ---- gas.inp:  ELEMENTS .. END  SPECIES .. END  REACTIONS .. END
Gas0 == [mode |-> "top", seen |-> <<>>, wf |-> TRUE, els |-> <<>>, sp |-> <<>>, rx |-> <<>>]
GasStep(s, line) ==
   IF Len(line) = 0 THEN s
   ELSE IF s.mode = "top" THEN
      (IF Kw(line, "ELEMENTS") \/ Kw(line, "SPECIES") \/ Kw(line, "REACTIONS")
       THEN [s EXCEPT !.mode = line[1].s, !.seen = Append(@, line[1].s)]
       ELSE [s EXCEPT !.wf = FALSE])
   ELSE IF Kw(line, "END") THEN [s EXCEPT !.mode = "top"]
   ELSE IF s.mode = "ELEMENTS" THEN [s EXCEPT !.els = @ \o [i \in 1..Len(line) |-> line[i].c]]
   ELSE IF s.mode = "SPECIES" THEN [s EXCEPT !.sp = @ \o [i \in 1..Len(line) |-> line[i].c]]
   ELSE IF Kw(line, "STICK") THEN (IF Len(s.rx) = 0 THEN [s EXCEPT !.wf = FALSE] ELSE [s EXCEPT !.rx = MarkStick(@)])
   ELSE [s EXCEPT !.rx = Append(@, RxLine(line, 3))]
RECURSIVE GasFold(_, _, _)
GasFold(lines, i, s) == IF i > Len(lines) THEN s ELSE GasFold(lines, i + 1, GasStep(s, lines[i]))
ParseGas(lines) ==
   LET s == GasFold(lines, 1, Gas0)
   IN [wf |-> s.wf /\ s.mode = "top" /\ s.seen = <<"ELEMENTS", "SPECIES", "REACTIONS">> /\ EntriesOK(s.rx),
       els |-> s.els, sp |-> s.sp, rx |-> s.rx]

\* ---- surf.inp:  (SITE/name/ SDEN/x/  name/occ/ ...)*  (BULK name/dens/)*  END  REACTIONS MWxx [units] .. END
Surf0 == [mode |-> "sites", wf |-> TRUE, sites |-> <<>>, bulk |-> <<>>, head |-> <<>>, rx |-> <<>>, nrx |-> 0]
SurfStep(s, line) ==
   IF Len(line) = 0 THEN s
   ELSE IF s.mode = "sites" THEN
      (IF Kw(line, "END") THEN [s EXCEPT !.mode = "top"]
       ELSE IF line[1].s = "SITE" THEN
          (IF Len(line) = 4 /\ line[3].s = "SDEN" /\ line[4].n /\ ~line[2].n
           THEN [s EXCEPT !.sites = Append(@, [name |-> line[2].c, sden |-> line[4].v, ads |-> <<>>])]
           ELSE [s EXCEPT !.wf = FALSE])
       ELSE IF line[1].s = "BULK" THEN
          (IF Len(line) = 3 /\ line[3].n /\ ~line[2].n
           THEN [s EXCEPT !.bulk = Append(@, [name |-> line[2].c, dens |-> line[3].v])]
           ELSE [s EXCEPT !.wf = FALSE])
       ELSE IF Len(line) = 2 /\ ~line[1].n /\ IntOf(line[2]) >= 0 /\ Len(s.sites) > 0
          THEN [s EXCEPT !.sites[Len(s.sites)].ads = Append(@, <<line[1].c, IntOf(line[2])>>)]
          ELSE [s EXCEPT !.wf = FALSE])
   ELSE IF s.mode = "top" THEN
      (IF line[1].s = "REACTIONS" /\ s.nrx = 0
       THEN [s EXCEPT !.mode = "REACTIONS", !.nrx = 1, !.head = [i \in 1..(Len(line) - 1) |-> line[i + 1].s]]
       ELSE [s EXCEPT !.wf = FALSE])
   ELSE IF Kw(line, "END") THEN [s EXCEPT !.mode = "top"]
   ELSE IF Kw(line, "STICK") THEN (IF Len(s.rx) = 0 THEN [s EXCEPT !.wf = FALSE] ELSE [s EXCEPT !.rx = MarkStick(@)])
   ELSE [s EXCEPT !.rx = Append(@, RxLine(line, 3))]
RECURSIVE SurfFold(_, _, _)
SurfFold(lines, i, s) == IF i > Len(lines) THEN s ELSE SurfFold(lines, i + 1, SurfStep(s, lines[i]))
ParseSurf(lines) ==
   LET s == SurfFold(lines, 1, Surf0)
   IN [wf |-> s.wf /\ s.mode = "top" /\ s.nrx = 1 /\ EntriesOK(s.rx),
       sites |-> s.sites, bulk |-> s.bulk, head |-> s.head, rx |-> s.rx]

\* ---- EAs.inp / EAg.inp:  count  (equation value*ncond)*  EOF
ParseEA(lines, ncond) ==
   LET n == Len(lines)
       ok == n >= 2 /\ Len(lines[1]) = 1 /\ IntOf(lines[1][1]) >= 0 /\ Kw(lines[n], "EOF")
       rows == IF ok THEN [k \in 1..(n - 2) |-> RxLine(lines[k + 1], ncond)] ELSE <<>>
   IN [wf |-> ok /\ EntriesOK(rows), count |-> IF ok THEN IntOf(lines[1][1]) ELSE -1, rows |-> rows]

\* ---- T_flow.inp:  (T P Q abyv)*  EOF
ParseTflow(lines) ==
   LET n == Len(lines)
       ok == n >= 1 /\ Kw(lines[n], "EOF")
              /\ \A k \in 1..(n - 1) : Len(lines[k]) = 4 /\ \A i \in 1..4 : lines[k][i].n
   IN [wf |-> ok, rows |-> IF ok THEN [k \in 1..(n - 1) |-> [i \in 1..4 |-> lines[k][i].v]] ELSE <<>>]

\* ---- tube_mole.inp:  0 itube_restart ..  /  count Number of nonzero species  /  ('name/tag/' x*ncond)*  EOF
ParseTube(lines, ncond) ==
   LET n == Len(lines)
       ok == /\ n >= 3 /\ Kw(lines[n], "EOF")
             /\ Len(lines[1]) >= 2 /\ IntOf(lines[1][1]) = 0 /\ lines[1][2].s = "itube_restart"
             /\ Len(lines[2]) >= 1 /\ IntOf(lines[2][1]) >= 0
             /\ \A k \in 3..(n - 1) : /\ Len(lines[k]) = 2 + ncond /\ ~lines[k][1].n
                                      /\ \A i \in 3..(2 + ncond) : lines[k][i].n
   IN [wf |-> ok, count |-> IF ok THEN IntOf(lines[2][1]) ELSE -1,
       rows |-> IF ok THEN [k \in 1..(n - 3) |-> [name |-> lines[k + 2][1].c, tag |-> lines[k + 2][2].c,
                                                  nums |-> [i \in 1..ncond |-> lines[k + 2][i + 2].v]]]
                ELSE <<>>]

\* ---- clauses shared by the four reaction sections
InFile(M, entries) == {i \in DOMAIN M.rx : Occur(entries, RxBags(M, M.rx[i])) >= 1}
SectionClauses(M, entries, wantGas, sticks) ==
   (IF PartitionOK(M, entries, wantGas) THEN {}
    ELSE IF PartitionBy("reactants", M, entries, wantGas) THEN {"PartitionReactantsOnly"} ELSE {"Partition"})
   \cup Some(ReactionsOnce(M, entries), "EachOnceReactions")
   \cup Some(NoStrangers(M, entries), "NoStrangers")
   \cup Some(~sticks \/ StickOK(M, entries), "StickMatches")
\* entry k against the model numbers of the reaction it denotes, column c named by names[c]
ColumnClauses(M, entries, model, names) ==
   UNION {UNION {UNION {Some(PrintedOK(entries[k].nums[c], model[i].v[c]), names[c])
                        : c \in 1..Len(entries[k].nums)}
                 : i \in {x \in Denotes(M, entries[k]) : model[x].ok /\ Len(model[x].v) = Len(entries[k].nums)}}
          : k \in DOMAIN entries}
ABE == <<"Num_A", "Num_Beta", "Num_Ea">>

\* ---- activation value from the SPECIES (not from the reaction layer).  A witness w carries, for
\* one reaction and one condition: form ("E" | "H" | "G"), hasts, the dimensionless species values
\* <<coef, X_i/RT>> (X = H for the E and H forms, G for the G form, from the species objects' own
\* get_HoRT / get_GoRT at the written T, P) of the initial state `is`, the transition state `ts`
\* and the products `ps`, and rt = 1 (dimensionless forms) or R*T in the written unit.  Required:
\*    E form:        sum(ts) - sum(is)                                   (Arrhenius, del_m = 1)
\*    H and G forms: max(0, sum(ts) - sum(is) [if a TS exists], sum(ps) - sum(is))
\* times rt.  The tolerance adds 2 units of the 7th digit of the largest term (Dec sums of
\* 9-digit projections; the terms cancel).
TermVals(side, rt) == [i \in DOMAIN side |-> Mul(Mul(I(side[i][1]), side[i][2]), rt)]
SpeciesValue(w) ==
   LET is == SumSeq(TermVals(w.is, w.rt))
       barrier == Sub(SumSeq(TermVals(w.ts, w.rt)), is)
       delta == Sub(SumSeq(TermVals(w.ps, w.rt)), is)
   IN IF w.form = "E" THEN barrier
      ELSE IF w.hasts THEN DMax(Zero, DMax(barrier, delta)) ELSE DMax(Zero, delta)
WitScale(w) == MaxMagSeq(TermVals(w.is, w.rt) \o TermVals(w.ts, w.rt) \o TermVals(w.ps, w.rt))
SpeciesOK(v, w) == LET d == DAbs(Sub(v, SpeciesValue(w)))
                   IN Le(Add(d, d), Add(<<105, v[2] - 2>>, <<2, WitScale(w) - 7>>))
\* entry k, columns cols (printed column -> index into the witness list of the reaction)
SpeciesClauses(M, entries, wit, first, name) ==
   UNION {UNION {UNION {Some(SpeciesOK(entries[k].nums[first + c - 1], wit[i].w[c]), name)
                        : c \in {x \in 1..Len(wit[i].w) : first + x - 1 <= Len(entries[k].nums)}}
                 : i \in {x \in Denotes(M, entries[k]) : wit[x].ok}}
          : k \in DOMAIN entries}

\* ---- pre-exponential factor from the SPECIES LIST (not from ChemkinReaction.get_A).  Rule written
\* in the header of surf.inp:  A = (kb/h) (q_TS/q_IS) / site_den^(n - 1), n = number of surface
\* reactants (adsorbates; gas and BULK reactants are not counted and give no site density),
\* site_den = sden_operation over the site densities of those n reactant sites (taken from M).
\* Witness w = [ok, hasQ, ex = ratio of the species' own partition functions get_q() (1 without a
\* transition state, for the Gibbs methods and for empirical species), op, eff (the harness' numpy
\* value of site_den, verified here by EffOK)].
\* Checked without division:  printed A * site_den^(n-1) = (kb/h) * ex  to the printed precision
\* plus 1e-5 relative (kb/h held here to 8 digits, up to 8 Dec multiplications).
KbOverH == <<208366120, 2>>
SurfDens(M, r) ==
   LET piece(t) == IF M.sp[t[2]].ph # "G" /\ ~M.sp[t[2]].bulk /\ M.sp[t[2]].site > 0
                   THEN [k \in 1..t[1] |-> M.sites[M.sp[t[2]].site].sden] ELSE <<>>
       f[i \in 0..Len(r.lhs)] == IF i = 0 THEN <<>> ELSE f[i - 1] \o piece(r.lhs[i])
   IN f[Len(r.lhs)]
RECURSIVE PowD(_, _)
PowD(x, n) == IF n <= 0 THEN <<1, 0>> ELSE Mul(x, PowD(x, n - 1))
EffOK(op, dens, eff) ==
   LET n == Len(dens)  sum == SumSeq(dens) IN
   IF n = 0 THEN TRUE
   ELSE IF op = "min" THEN (\A k \in 1..n : Le(eff, dens[k])) /\ (\E k \in 1..n : Close(eff, dens[k], 8))
   ELSE IF op = "max" THEN (\A k \in 1..n : Le(dens[k], eff)) /\ (\E k \in 1..n : Close(eff, dens[k], 8))
   ELSE IF op = "sum" THEN Close(eff, sum, 7)
   ELSE IF op = "mean" THEN Close(Mul(I(n), eff), sum, 7)
   ELSE IF op = "median" THEN
        /\ 2 * Cardinality({k \in 1..n : Lt(dens[k], eff)}) <= n
        /\ 2 * Cardinality({k \in 1..n : Lt(eff, dens[k])}) <= n
        /\ \E a, b \in 1..n : Close(Add(eff, eff), Add(dens[a], dens[b]), 7)
   ELSE FALSE
AValueOK(v, w, dens) ==
   LET P == IF Len(dens) = 0 THEN <<1, 0>> ELSE PowD(w.eff, Len(dens) - 1)
       lhs == Mul(v, P)
       rhs == Mul(KbOverH, w.ex)
   IN Le(DAbs(Sub(lhs, rhs)), Add(Mul(<<525, v[2] - 3>>, P), <<rhs[1], rhs[2] - 5>>))
AClauses(M, entries, awit) ==
   UNION {UNION {LET dens == SurfDens(M, M.rx[i]) IN
                 IF ~EffOK(awit[i].op, dens, awit[i].eff) THEN {"WitnessBroken"}
                 ELSE Some(AValueOK(entries[k].nums[1], awit[i], dens), "Num_A_Species")
                 : i \in {x \in Denotes(M, entries[k]) : awit[x].ok /\ Len(entries[k].nums) >= 1}}
          : k \in DOMAIN entries}

GasClauses(e, d) ==
   LET M == st.M IN
   Some(d.wf, "WellFormed")
   \cup Some(ElementsOK(M, d.els), "EachOnceElements")
   \cup Some(GasSpeciesOK(M, d.sp), "EachOnceGasSpecies")
   \cup SectionClauses(M, d.rx, TRUE, TRUE)
   \cup ColumnClauses(M, d.rx, e.model, ABE)
   \cup SpeciesClauses(M, d.rx, e.wit, 3, "Num_Ea_Species")
   \cup AClauses(M, d.rx, e.awit)
   \cup (IF st.hasexp
         THEN Some(InFile(M, d.rx) = {i \in DOMAIN M.rx : st.exp.gasrx[i] = 1}
                   /\ Range(d.sp) = Range(st.exp.gassp), "ReplayDoc")
         ELSE {})

SiteDoc(d) == [k \in DOMAIN d.sites |-> [name |-> d.sites[k].name, ads |-> d.sites[k].ads]]
BulkNames(d) == [k \in DOMAIN d.bulk |-> d.bulk[k].name]
SurfClauses(e, d) ==
   LET M == st.M IN
   Some(d.wf, "WellFormed")
   \cup Some(SitesOK(M, SiteDoc(d)), "EachOnceSites")
   \cup Some(AdsorbatesOK(M, SiteDoc(d)), "EachOnceAdsorbates")
   \cup Some(BulkOK(M, BulkNames(d)), "EachOnceBulk")
   \cup SectionClauses(M, d.rx, FALSE, TRUE)
   \cup ColumnClauses(M, d.rx, e.model, ABE)
   \cup SpeciesClauses(M, d.rx, e.wit, 3, "Num_Ea_Species")
   \cup AClauses(M, d.rx, e.awit)
   \cup Some(\A k \in DOMAIN d.sites : \A j \in DOMAIN M.sites :
                M.sites[j].name = d.sites[k].name => PrintedOK(d.sites[k].sden, M.sites[j].sden), "Num_Sden")
   \cup Some(\A k \in DOMAIN d.bulk : \A j \in DOMAIN M.sites :
                M.sites[j].bulk = d.bulk[k].name => PrintedOK(d.bulk[k].dens, M.sites[j].dens), "Num_Density")
   \cup Some(d.head = <<e.mw>> \o e.unit, "UnitsDeclared")
   \cup (IF st.hasexp
         THEN Some(/\ InFile(M, d.rx) = {i \in DOMAIN M.rx : st.exp.gasrx[i] = 0}
                   /\ {<<d.sites[k].name, {a[1] : a \in Range(d.sites[k].ads)}>> : k \in DOMAIN d.sites}
                        = {<<st.exp.sites[k].name, Range(st.exp.sites[k].ads)>> : k \in DOMAIN st.exp.sites}
                   /\ Range(BulkNames(d)) = Range(st.exp.bulk), "ReplayDoc")
         ELSE {})

EAClauses(e, d) ==
   LET M == st.M IN
   Some(d.wf, "WellFormed")
   \cup Some(d.count = Len(d.rows), "CountsMatch")
   \cup SectionClauses(M, d.rows, e.gas, FALSE)
   \cup ColumnClauses(M, d.rows, e.model, [c \in 1..e.ncond |-> "Num_EA"])
   \cup SpeciesClauses(M, d.rows, e.wit, 1, "Num_EA_Species")
   \cup (IF st.hasexp
         THEN Some(d.count = IF e.gas THEN st.exp.neag ELSE st.exp.neas, "ReplayDoc")
         ELSE {})

TflowClauses(e, d) ==
   Some(d.wf, "WellFormed")
   \cup Some(Len(d.rows) = Len(e.model), "CountsMatch")
   \cup Some(\A k \in DOMAIN d.rows : k <= Len(e.model) =>
                \A i \in 1..4 : PrintedOK(d.rows[k][i], e.model[k][i]), "Num_Tflow")

TubeClauses(e, d) ==
   LET M == st.M
       doc == [count |-> d.count, rows |-> [k \in DOMAIN d.rows |-> [name |-> d.rows[k].name, tag |-> d.rows[k].tag]]]
   IN Some(d.wf, "WellFormed")
      \cup Some(CountOK(doc), "CountsMatch")
      \cup Some(TubeOK(M, Range(e.F), doc), "EachOnceTube")
      \cup Some(\A k \in DOMAIN d.rows : \A i \in DOMAIN M.sp :
                   M.sp[i].name = d.rows[k].name =>
                      \A c \in 1..e.ncond : PrintedOK(d.rows[k].nums[c], e.model[i][c]), "Num_Frac")

SameReactions(got, mine) ==
   /\ Len(got) = Len(mine)
   /\ \A k \in DOMAIN mine : k <= Len(got) => Bag(got[k].lhs) = mine[k].lhs /\ Bag(got[k].rhs) = mine[k].rhs
ReadClauses(e) ==
   LET mine == IF e.file = "gas" THEN st.gasrx ELSE st.surfrx IN
   IF e.raised # "" THEN {"ReaderRaises"}
   ELSE Some(SameReactions(e.rx, mine) /\ SameReactions(e.rxo, mine), "ReadBack")

IsWrite(e) == e.ev \in {"write_gas", "write_surf", "write_ea", "write_tflow", "write_tube"}
DocOf(e) ==
   CASE e.ev = "write_gas" -> ParseGas(e.lines)
     [] e.ev = "write_surf" -> ParseSurf(e.lines)
     [] e.ev = "write_ea" -> ParseEA(e.lines, e.ncond)
     [] e.ev = "write_tflow" -> ParseTflow(e.lines)
     [] e.ev = "write_tube" -> ParseTube(e.lines, e.ncond)
     [] OTHER -> [wf |-> TRUE]

Clauses(e, d) ==
   IF e.ev = "mech" THEN Some(DistinctRx(e.M), "MechanismDistinct")
   ELSE IF e.ev = "read" THEN ReadClauses(e)
   ELSE IF ~IsWrite(e) THEN {"UnknownEvent"}
   ELSE IF e.raised # "" THEN {"Raises"}
   ELSE Some(e.same, "FileEqualsString")
        \cup (CASE e.ev = "write_gas" -> GasClauses(e, d)
                [] e.ev = "write_surf" -> SurfClauses(e, d)
                [] e.ev = "write_ea" -> EAClauses(e, d)
                [] e.ev = "write_tflow" -> TflowClauses(e, d)
                [] e.ev = "write_tube" -> TubeClauses(e, d))

Advance(e, d) ==
   IF e.ev = "mech" THEN [M |-> e.M, hasexp |-> e.hasexp, exp |-> e.exp, gasrx |-> <<>>, surfrx |-> <<>>]
   ELSE IF e.ev = "write_gas" /\ e.raised = "" THEN [st EXCEPT !.gasrx = d.rx]
   ELSE IF e.ev = "write_surf" /\ e.raised = "" THEN [st EXCEPT !.surfrx = d.rx]
   ELSE st

St0 == [M |-> [sp |-> <<>>, sites |-> <<>>, rx |-> <<>>], hasexp |-> FALSE, exp |-> <<>>, gasrx |-> <<>>, surfrx |-> <<>>]
Init == l = 1 /\ st = St0 /\ TLCSet(1, {})
Next == /\ l <= Len(TraceLog)
        /\ LET e == TraceLog[l]
               d == IF IsWrite(e) /\ e.raised = "" THEN DocOf(e) ELSE [wf |-> TRUE]
               bad == Clauses(e, d)
           IN /\ IF bad # {} THEN TLCSet(1, TLCGet(1) \cup {<<e.tid, l, c>> : c \in bad}) ELSE TRUE
              /\ st' = Advance(e, d)
        /\ l' = l + 1
Spec == Init /\ [][Next]_<<l, st>>
Post == /\ PrintT(<<"FAILS", TLCGet(1)>>)
        /\ PrintT(<<"CONSUMED", TLCGet("stats").diameter - 1>>)
=============================================================================
