\* second-use histories: a BEP is built, evaluated, up to 2 public attributes are assigned (descriptor across
\* and within the families, slope, intercept, another reaction) and it is evaluated again; required behaviour
SPECIFICATION Spec
CONSTANTS
  Vals <- MCValsSmall
  Slopes2 <- MCSlopes2
  Icpts <- MCIcpts
  Variant = "required"
  Kinds = {"bep"}
  MaxEdits = 2
INVARIANT TypeOK
INVARIANT ClampRefines
INVARIANT NotBelowMinimum
INVARIANT ClampConsistent
INVARIANT BepDifference
INVARIANT BepViaReaction
INVARIANT BepUandHSameBarrier
INVARIANT BepOffsetIsForwardBarrier
INVARIANT EditedEqualsFresh
CHECK_DEADLOCK FALSE
