--------------------------- MODULE MC_OrganizePhases ---------------------------
(* model-checking companion of OrganizePhases.tla (constants that a cfg cannot write) *)
EXTENDS OrganizePhases
Sp2 == {2}
Sp3 == {3}
Sp4 == {4}
Sp012 == {0, 1, 2}
Sp0to4 == 0..4
\* the call counter and the list of calls are bookkeeping: every property is a function of the rest
View == <<stage, U, attr, dicts, res>>
\* simulation draws successors uniformly per action: keep "no more reactions / interactions" from ending
\* the lists early, so that random behaviours carry 2-3 reactions and 1-2 interactions where possible
DoneRxSim == DoneRx /\ (Len(U.rx) >= 2 \/ ~ENABLED AddRx)
DoneIaSim == DoneIa /\ (Len(U.ia) >= 1 \/ ~ENABLED AddIa)
NextSim == ChooseLayout \/ ChooseSpecies \/ AddRx \/ DoneRxSim \/ AddIa \/ DoneIaSim \/ ChooseGiven
           \/ Organize \/ FreshDicts
SpecSim == Init /\ [][NextSim]_vars
=============================================================================
