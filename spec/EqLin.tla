------------------------------- MODULE EqLin -------------------------------
(***************************************************************************)
(* C16 - exact integer linear algebra on element matrices, and the         *)
(* observation rule of the solver-outcome protocol.  Constant level only   *)
(* (no variables): shared by the design model Equilibrium.tla and by the   *)
(* trace specification Trace_Equilibrium.tla.                              *)
(*                                                                         *)
(* An element matrix E is a sequence (one entry per species) of sequences  *)
(* (one entry per element) of naturals: E[i][j] = atoms of element j in    *)
(* species i.  A reaction vector nu (one integer per species) conserves    *)
(* atoms iff nu^T E = 0.  All arithmetic here is exact (TLC integers).     *)
(***************************************************************************)
EXTENDS Integers, Sequences, FiniteSets

ISum(f, n) == LET s[i \in 0..n] == IF i = 0 THEN 0 ELSE s[i - 1] + f[i] IN s[n]
IDot(u, v) == ISum([i \in 1..Len(u) |-> u[i] * v[i]], Len(u))
IProd(f, n) == LET p[i \in 0..n] == IF i = 0 THEN 1 ELSE p[i - 1] * f[i] IN p[n]
IAbs(x) == IF x < 0 THEN -x ELSE x

NSp(E) == Len(E)
NEl(E) == IF Len(E) = 0 THEN 0 ELSE Len(E[1])
Col(E, j) == [i \in 1..Len(E) |-> E[i][j]]
SubRows(E, S) == [i \in 1..Len(S) |-> E[S[i]]]                \* S: sequence of species indices
IsMatrix(E) == /\ Len(E) >= 1 /\ NEl(E) >= 1
               /\ \A i \in 1..Len(E) : Len(E[i]) = NEl(E) /\ \A j \in 1..NEl(E) : E[i][j] \in Nat
Distinct(s) == \A a, b \in 1..Len(s) : a # b => s[a] # s[b]

\* nu^T E = 0 : the reaction nu conserves every element
IsReaction(nu, E) == /\ Len(nu) = Len(E)
                     /\ \A j \in 1..NEl(E) : IDot(nu, Col(E, j)) = 0
IsZeroVec(nu) == \A i \in 1..Len(nu) : nu[i] = 0

\* element totals of an integer feed
Totals(feed, E) == [j \in 1..NEl(E) |-> IDot(feed, Col(E, j))]

\* ---- determinant (Laplace expansion; used on minors of at most 4 x 4)
DropAt(s, i) == SubSeq(s, 1, i - 1) \o SubSeq(s, i + 1, Len(s))
RECURSIVE Det(_)
Det(A) == IF Len(A) = 0 THEN 1
          ELSE IF Len(A) = 1 THEN A[1][1]
          ELSE LET n == Len(A)
                   Minor(j) == [i \in 1..(n - 1) |-> DropAt(A[i + 1], j)]
                   t[j \in 0..n] == IF j = 0 THEN 0
                                    ELSE t[j - 1] + (IF j % 2 = 1 THEN 1 ELSE -1) * A[1][j] * Det(Minor(j))
               IN t[n]
SubMatrix(E, rows, cols) == [a \in 1..Len(rows) |-> [b \in 1..Len(cols) |-> E[rows[a]][cols[b]]]]

\* ---- a basis in pivot form: vector j owns coordinate piv[j] (non-zero there,
\*      every other basis vector is zero there) => the vectors are independent
PivotForm(B, piv) ==
   /\ Len(piv) = Len(B) /\ Distinct(piv)
   /\ \A j \in 1..Len(B) : piv[j] \in 1..Len(B[j]) /\ B[j][piv[j]] # 0
   /\ \A j, m \in 1..Len(B) : j # m => B[j][piv[m]] = 0

\* nu is a rational combination of a pivot-form basis: the coefficient of vector j
\* must be nu[piv[j]] / B[j][piv[j]]; cleared of denominators with D = prod of pivots
InSpan(nu, B, piv) ==
   LET k == Len(B)
       d == [j \in 1..k |-> B[j][piv[j]]]
       D == IProd(d, k)
   IN \A i \in 1..Len(nu) :
         D * nu[i] = ISum([j \in 1..k |-> nu[piv[j]] * (D \div d[j]) * B[j][i]], k)

\* ---- the certificate the harness proposes with every basis and TLC verifies:
\*   every B[j] conserves atoms, B is in pivot form (k independent null vectors),
\*   an r x r minor of E is non-singular (rank >= r), and r + k = number of
\*   species.  Rank-nullity then gives dim null(E^T) = n - rank <= n - r = k, so
\*   the k independent vectors span the whole null space.  CertSound (design
\*   model) checks exactly this implication by brute force on small matrices.
CertOK(E, B, piv, rows, cols) ==
   /\ \A j \in 1..Len(B) : IsReaction(B[j], E)
   /\ PivotForm(B, piv)
   /\ Len(rows) = Len(cols)
   /\ Distinct(rows) /\ Distinct(cols)
   /\ \A a \in 1..Len(rows) : rows[a] \in 1..Len(E) /\ cols[a] \in 1..NEl(E)
   /\ Det(SubMatrix(E, rows, cols)) # 0
   /\ Len(rows) + Len(B) = Len(E)

Box(n, R) == [1..n -> (-R)..R]
NullBox(E, R) == {nu \in Box(Len(E), R) : IsReaction(nu, E)}
Spans(E, B, piv, R) == \A nu \in NullBox(E, R) : InSpan(nu, B, piv)

\* ---- degeneracy certificates (integer combination c of the element balances)
Weights(E, c) == [i \in 1..Len(E) |-> IDot(E[i], c)]
\* the element columns are linearly dependent: the balances are redundant
DependentElements(E, c) == /\ Len(c) = NEl(E) /\ ~IsZeroVec(c) /\ IsZeroVec(Weights(E, c))
\* sum_i w_i n_i = sum_i w_i feed_i for every atom-conserving n; if w >= 0, and
\* w vanishes on every fed species, every species with w_i > 0 is forced to zero
ForcedZero(E, c, fed) ==
   LET w == Weights(E, c) IN
   /\ Len(c) = NEl(E)
   /\ \A i \in 1..Len(E) : w[i] >= 0
   /\ \A i \in 1..Len(E) : fed[i] => w[i] = 0
   /\ \E i \in 1..Len(E) : w[i] > 0

\* ---- solver-outcome protocol: what may be observed at the end of one call
\*   out  : "converged" | "failed"     (the solver's own success flag)
\*   how  : "return" | "raise"         (how control came back to the caller)
\*   sig  : a warning was emitted during the call
ObservationAllowed(out, how, sig) == out = "failed" => (sig \/ how = "raise")
=============================================================================
