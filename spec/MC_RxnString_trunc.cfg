\* the pinned printer (int() of a near-integer coefficient): EXPECTED TO BE REJECTED
SPECIFICATION Spec
CONSTANTS
  Variant = "trunc"
  Families = {"A"}
INVARIANT Requirement
CHECK_DEADLOCK FALSE
