\* the repaired algorithm (header keeps its delimiter, groups keyed by printed width)
\* (thorough tier: 7 numbers) on every printed width, the empty prefix and non-integer suffixes
SPECIFICATION Spec
CONSTANTS
  Heads <- HeadsBig
  Numbers <- NumsBig
  Widths <- WidthsAll
  Extra <- ExtraAll
  MaxIds = 3
  Variant = "keepwidth"
INVARIANT TypeOK
INVARIANT Faithful
INVARIANT FormsAgree
PROPERTY IdsUntouched
CHECK_DEADLOCK FALSE
