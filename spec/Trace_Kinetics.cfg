SPECIFICATION TSpec
CONSTANTS
  Vals = {0}
  Kinds = {}
  MaxEdits = 0
  Slopes2 = {0}
  Icpts = {0}
  Variant = "required"
POSTCONDITION Post
CHECK_DEADLOCK FALSE
