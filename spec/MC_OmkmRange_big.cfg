\* thorough tier: collections of <= 4 identifiers over 3 heads (none, a_, a1_) x 6 numbers
\* the algorithm of the code ("%04d") on identifiers already printed as %04d, all orders, duplicates
SPECIFICATION Spec
CONSTANTS
  Heads <- HeadsCanon4
  Numbers <- NumsCanon4
  Widths = {4}
  Extra = {}
  MaxIds = 4
  Variant = "pad4"
INVARIANT TypeOK
INVARIANT Faithful
INVARIANT FormsAgree
PROPERTY IdsUntouched
CHECK_DEADLOCK FALSE
