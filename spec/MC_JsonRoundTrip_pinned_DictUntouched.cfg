\* the tables of the pinned source: TLC is expected to REJECT this configuration (DictUntouched)
SPECIFICATION Spec
CONSTANTS
  Variant = "pinned"
  MaxDepth = 2
  MaxLife = 4
  Roots <- AllRoots
INVARIANT DictUntouched
CHECK_DEADLOCK FALSE
