-------------------------- MODULE MC_Extrema_cases --------------------------
(* (S->C) the finite case sets replayed into the real PhaseDiagram / Reactions / *)
(* Network objects.  Every case carries what TLC computed from Extrema.tla:      *)
(*  one : 1-D tables, <= 3 reactions x <= 3 grid points, entries 0..2;           *)
(*        acc[j] = the phases attaining the minimum at grid point j              *)
(*  two : 2-D tables of the additive form the library's species can realise      *)
(*        exactly: Tab[i][j][k] = A[i][a] + c[i] * (b - 1), a = temperature      *)
(*        index, b = pressure index, (a, b) = (j, k) for order "TP", (k, j) for  *)
(*        "PT"; acc[j][k] likewise                                               *)
(*  span: reaction sequences of 1-3 steps, each with or without a transition     *)
(*        state, state energies 0..2; spans = the acceptable energy spans        *)
(*        (contiguous chains: every step starts where the previous one ended)    *)
(*  seq : sequences whose steps have INDEPENDENT reactant-state energies (a      *)
(*        co-reactant joins / a by-product leaves between steps): every 1-2 step *)
(*        sequence over energies 0..2 and every 3-step one over 0..1, each step  *)
(*        with or without TS; states = States(steps) (every reactant state       *)
(*        listed), spans, contig, lrx = a later reactant state is the strict     *)
(*        extreme of the sequence                                                *)
EXTENDS Extrema, TLC, Json, IOUtils, SequencesExt
CVals == 0..2
ILEq(a, b) == a <= b
Acc1(T) == [j \in 1..Len(T[1]) |-> SetToSeq(ArgMins(Col1(T, j), ILEq))]
Acc2(T) == [j \in 1..Len(T[1]) |-> [k \in 1..Len(T[1][1]) |-> SetToSeq(ArgMins(Col2(T, j, k), ILEq))]]

T1 == UNION {[1..r -> [1..p -> CVals]] : r \in 1..3, p \in 1..3}
One == {[t |-> T, acc |-> Acc1(T)] : T \in T1}

\* (reactions, temperature points) for the additive 2-D tables
Dims2 == {<<2, 1>>, <<2, 2>>, <<3, 1>>}
Slopes == {-1, 0, 1}
Additive(A, c, nb, order) ==
   IF order = "TP"
   THEN [i \in 1..Len(A) |-> [j \in 1..Len(A[1]) |-> [k \in 1..nb |-> A[i][j] + c[i] * (k - 1)]]]
   ELSE [i \in 1..Len(A) |-> [j \in 1..nb |-> [k \in 1..Len(A[1]) |-> A[i][k] + c[i] * (j - 1)]]]
Two == UNION {
         {[a |-> A, c |-> c, nb |-> nb, order |-> order,
           t |-> Additive(A, c, nb, order), acc |-> Acc2(Additive(A, c, nb, order))]
            : A \in [1..d[1] -> [1..d[2] -> CVals]], c \in [1..d[1] -> Slopes],
              nb \in 1..3, order \in {"TP", "PT"}}
         : d \in Dims2}

TsPat == UNION {[1..s -> BOOLEAN] : s \in 1..3}
Spans == UNION {
           {[ts |-> ts, g |-> g,
             spans |-> SetToSeq(SpanSet(g, ILEq, IPlus, IMinus, 0)),
             walk |-> Walk(g, ts)]
              : g \in [1..NStates(ts) -> CVals]}
           : ts \in TsPat}

SRecs(V) == [r : V, t : {<<>>} \cup {<<v>> : v \in V}, p : V]
SeqInputs == UNION {[1..n -> SRecs(0..2)] : n \in 1..2} \cup [1..3 -> SRecs(0..1)]
SeqCases == {[steps |-> st, states |-> States(st),
              spans |-> SetToSeq(SpanSet(States(st), ILEq, IPlus, IMinus, 0)),
              contig |-> Contiguous(st), lrx |-> LaterReactantExtreme(st)] : st \in SeqInputs}

ASSUME JsonSerialize(IOEnv.OUT_FILE,
          [one |-> SetToSeq(One), two |-> SetToSeq(Two), span |-> SetToSeq(Spans),
           seq |-> SetToSeq(SeqCases)])
=============================================================================
