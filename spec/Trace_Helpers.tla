--------------------------- MODULE Trace_Helpers ---------------------------
(***************************************************************************)
(* X04 - trace validation of recorded calls of the real helpers of         *)
(* pmutt/__init__.py.  One NDJSON line per call; the judgement is the      *)
(* REQUIRED relation of HelpersRule.tla (the operators the design model    *)
(* Helpers.tla is checked against), evaluated by TLC on the recorded       *)
(* arguments and the recorded discrete projection of the result.           *)
(*                                                                         *)
(* ev "route"     fn  pass | force | check_obj | mode_quantity             *)
(*                sh  signature shape of the callable handed over          *)
(*                sup / after   the caller's keywords <<name, value>>      *)
(*                    before / after the call                              *)
(*                raised  "" or exception class                            *)
(*                got / extra   what the callable's body saw: named        *)
(*                    parameters that did not take their default, and the  *)
(*                    content of its **kwargs; nargs = number of positional args;         *)
(*                    calls = times the body ran; ret = the helper handed  *)
(*                    back the callable's own result (an instance of the   *)
(*                    class for classes)                                   *)
(* ev "expected"  sh, raised, names   (_get_expected_arguments)            *)
(* ev "allowed"   sh, raised, res     (_kwargs_allowed)                    *)
(* ev "passthrough"  same, calls      (_check_obj given an object)         *)
(* ev "mode_missing" raise_error, raise_warning, raised, isdefault, warned *)
(* ev "specie"    name, kw, after, raised, out   (texts as codes)          *)
(* ev "format"    names, lists, after, raised, out                         *)
(* ev "listdict"  objs, raised, documented, out, intact                    *)
(* ev "npop"      q, qafter, op, verbose, raised, same, scalar, out        *)
(* ev "iter"      f is_iterable | check_attr, kind, res                    *)
(*                                                                         *)
(* `st` carries the previous line of the same trace id: a repeated call    *)
(* (same helper, same recorded arguments) must give the same result.       *)
(* Verdicts are total: failing clause names are accumulated in TLC         *)
(* register 1 and printed by the postcondition.                            *)
(***************************************************************************)
EXTENDS HelpersRule, TLC, TLCExt, Json, IOUtils

TraceLog == ndJsonDeserialize(IOEnv.TRACE_FILE)
VARIABLES l, st

If(c, name) == IF c THEN {name} ELSE {}
NamesIn(s) == {p[1] : p \in Range(s)}
Distinct(s) == \A i, j \in 1..Len(s) : s[i] = s[j] => i = j

\* Not a clause of the property: a TAG for the known-finding matcher.  It accompanies failing clauses when what was
\* observed is exactly what the rule as found (co_varnames[:co_argcount]) does on a signature with keyword-only
\* parameters, i.e. when the failure is the known keyword-only defect and nothing else.
AsFoundTag == "AsFoundArgcountRule"
RouteAsFound(e) ==
   LET f == ImplOutcome("argcount", Mode(e.fn), e.sh, NamesIn(e.sup)) IN
   /\ e.sh.kwonly # <<>> /\ HasCode(e.sh)
   /\ e.raised = f.raised /\ e.calls = f.calls /\ e.nargs = 0 /\ e.after = e.sup /\ (e.raised = "" => e.ret)
   /\ Range(e.got) = {p \in Range(e.sup) : p[1] \in f.got}
   /\ Range(e.extra) = {p \in Range(e.sup) : p[1] \in f.extra}
RouteJudged(e) ==
   LET sup == NamesIn(e.sup)
       req == ReqOutcome(Mode(e.fn), e.sh, sup)
       pairs(S) == {p \in Range(e.sup) : p[1] \in S}
       seen == Range(e.got) \cup Range(e.extra)
   IN If(e.after # e.sup, "CallerDictUntouched")
      \cup If(e.raised # req.raised, "RouteRaises")
      \cup If(e.raised = "" /\ ~(pairs(req.got \cup req.extra) \subseteq seen), "NothingDropped")
      \cup If(~(Range(e.got) \subseteq pairs(req.got)) \/ ~(Range(e.extra) \subseteq pairs(req.extra)),
              "NothingUnexpected")
      \cup If(e.nargs # 0, "NoPositional")
      \cup If(e.calls # req.calls, "CalledOnce")
      \cup If(e.raised = "" /\ ~e.ret, "ReturnsCalleeResult")
      \cup If(~Documented(e.sh) \/ ~Distinct([i \in 1..Len(e.sup) |-> e.sup[i][1]]), "OutsideQuantifier")

RouteClauses(e) == LET bad == RouteJudged(e) IN bad \cup If(bad # {} /\ RouteAsFound(e), AsFoundTag)

ExpectedJudged(e) ==
   If(e.raised # "" \/ (Range(e.names) \ {"self"}) # ReqExpected(e.sh) \/ ~Distinct(e.names), "ExpectedNames")
   \cup If(~Documented(e.sh), "OutsideQuantifier")
ExpectedClauses(e) ==
   LET bad == ExpectedJudged(e) IN
   bad \cup If(bad # {} /\ e.sh.kwonly # <<>> /\ HasCode(e.sh) /\ e.raised = ""
                      /\ e.names = ImplExpected("argcount", e.sh), AsFoundTag)
AllowedClauses(e) == If(e.raised # "" \/ e.res # ReqAllowed(e.sh), "KwargsAllowed")
PassThroughClauses(e) == If(~e.same \/ e.calls # 0 \/ e.raised # "", "ObjectPassedThrough")
\* "raise_error: if True, raises an error if [the mode does] not have the quantity"; "raise_warning: only relevant
\* if raise_error is False. Raises a warning ..."; "default_value: default value if the object does not contain the method"
ModeMissingClauses(e) ==
   If(e.raise_error /\ e.raised # "AttributeError", "MissingMethodRaises")
   \cup If(~e.raise_error /\ (e.raised # "" \/ ~e.isdefault), "MissingMethodDefault")
   \cup If(~e.raise_error /\ e.raised = "" /\ (e.warned > 0) # e.raise_warning, "MissingMethodWarning")

SpecieClauses(e) ==
   LET req == ReqSpecie(e.kw, e.name)  got == DictPairs(e.out) IN
   If(~SpecieInQuantifier(e.kw), "OutsideQuantifier")
   \cup If(e.raised # "", "SpecieRaises")
   \cup If(e.after # e.kw, "SpecieInputUntouched")
   \cup If(e.raised = "" /\ ~(req \subseteq got), "SpecieNothingLost")
   \cup If(e.raised = "" /\ ~(got \subseteq req), "SpecieNothingAdded")
   \cup If(e.raised = "" /\ (\E k \in DictKeys(e.out) : EndsWith(k, UKWARGS)), "BlockKeysRemoved")
   \cup If(e.raised = "" /\ ~Distinct([i \in 1..Len(e.out) |-> e.out[i].k]), "SpecieNothingAdded")

FormatClauses(e) ==
   LET req == ReqFormat(e.names, e.lists) IN
   If(~FormatInQuantifier(e.names, e.lists), "OutsideQuantifier")
   \cup If(e.raised # "", "FormatRaises")
   \cup If(e.after # e.lists, "FormatInputUntouched")
   \cup If(e.raised = "" /\ Len(e.out) # Len(req), "FormatCount")
   \cup If(e.raised = "" /\ (\E i \in 1..Len(e.out) : i <= Len(req) /\
              (Range(e.out[i]) # req[i] \/ ~Distinct([m \in 1..Len(e.out[i]) |-> e.out[i][m][1]]))),
           "FormatRunExact")

ListDictClauses(e) ==
   IF ListInQuantifier(e.objs)
   THEN If(e.raised # "", "DictRaises")
        \cup If(~e.intact, "ListUntouched")
        \cup If(e.raised = "" /\ ~(DictKeysOK(e.objs, e.out) /\ DictNoRepeat(e.out)), "DictKeys")
        \cup If(e.raised = "" /\ ~DictValueOK(e.objs, e.out), "DictValueCarriesKey")
        \cup If(e.raised = "" /\ DictKeysOK(e.objs, e.out) /\ DictNoRepeat(e.out) /\ ~DictOrderOK(e.objs, e.out),
                "DictOrder")
   ELSE If(e.raised = "" \/ e.raised \notin Range(e.documented), "RaisesDocumented")

NpClauses(e) ==
   If(~NpDefined(e.op, e.q), "OutsideQuantifier")
   \cup If(e.raised # "", "NpRaises")
   \cup If(e.qafter # e.q, "NpInputUntouched")
   \cup If(e.raised = "" /\ e.verbose /\ ~e.same, "NpVerbosePassThrough")
   \cup If(e.raised = "" /\ ~e.verbose /\ NpDefined(e.op, e.q) /\ (~e.scalar \/ e.out # <<NpValue(e.op, e.q)>>),
           "NpResult")

IterClauses(e) ==
   IF e.f = "is_iterable"
   THEN If(e.res # (IF ReqIsIterable(e.kind) THEN "true" ELSE "false"), "IsIterable")
   ELSE If(~AttrInQuantifier(e.kind), "OutsideQuantifier") \cup If(e.res # ReqAttrShape(e.kind), "CheckIterableAttr")

\* a repeated call: same helper and same recorded arguments as the previous line of this trace
SameCall(p, e) ==
   /\ p.ev = e.ev
   /\ CASE e.ev = "specie" -> p.name = e.name /\ p.kw = e.kw
        [] e.ev = "format" -> p.names = e.names /\ p.lists = e.lists
        [] e.ev = "route" -> p.fn = e.fn /\ p.sh = e.sh /\ p.sup = e.sup
        [] OTHER -> FALSE
SameResult(p, e) ==
   CASE e.ev = "specie" -> DictPairs(p.out) = DictPairs(e.out) /\ p.raised = e.raised
     [] e.ev = "format" -> p.out = e.out /\ p.raised = e.raised
     [] e.ev = "route" -> p.raised = e.raised /\ Range(p.got) = Range(e.got) /\ Range(p.extra) = Range(e.extra)
     [] OTHER -> TRUE
RepeatClauses(e) == If(st.tid = e.tid /\ st.n > 0 /\ SameCall(st.prev, e) /\ ~SameResult(st.prev, e), "Repeatable")

Clauses(e) ==
   RepeatClauses(e) \cup
   CASE e.ev = "route" -> RouteClauses(e)
     [] e.ev = "expected" -> ExpectedClauses(e)
     [] e.ev = "allowed" -> AllowedClauses(e)
     [] e.ev = "passthrough" -> PassThroughClauses(e)
     [] e.ev = "mode_missing" -> ModeMissingClauses(e)
     [] e.ev = "specie" -> SpecieClauses(e)
     [] e.ev = "format" -> FormatClauses(e)
     [] e.ev = "listdict" -> ListDictClauses(e)
     [] e.ev = "npop" -> NpClauses(e)
     [] e.ev = "iter" -> IterClauses(e)
     [] OTHER -> {"UnknownEvent"}

Step(e) == [tid |-> e.tid, n |-> IF st.tid = e.tid THEN st.n + 1 ELSE 1, prev |-> e]

Init == l = 1 /\ st = [tid |-> -1, n |-> 0, prev |-> [ev |-> "none"]] /\ TLCSet(1, {})
Next == /\ l <= Len(TraceLog)
        /\ LET e == TraceLog[l]  bad == Clauses(e) IN
             /\ IF bad # {} THEN TLCSet(1, TLCGet(1) \cup {<<e.tid, l, c>> : c \in bad}) ELSE TRUE
             /\ st' = Step(e)
        /\ l' = l + 1
Spec == Init /\ [][Next]_<<l, st>>
Post == /\ PrintT(<<"FAILS", TLCGet(1)>>)
        /\ PrintT(<<"CONSUMED", TLCGet("stats").diameter - 1>>)
=============================================================================
