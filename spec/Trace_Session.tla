--------------------------- MODULE Trace_Session ---------------------------
(***************************************************************************)
(* X01 - trace validation of recorded sessions: real Nasa / Nasa9 /        *)
(* Shomate objects sent through chains of JSON, to_dict/from_dict,         *)
(* copy.deepcopy and thermdat round trips.                                 *)
(*                                                                         *)
(* Lines (NDJSON, one per event):                                          *)
(*   construct  id, fam, gas, flag, cov, c        the user built a species *)
(*   op         act, src, dst, keep, raised, nout a round trip was called  *)
(*   obs        id, c     content of a LIVE object, logged for EVERY live  *)
(*                        object after EVERY op (ObsMissing otherwise)     *)
(*   end                  closes a trace                                   *)
(* c (content) = [name, phase : character codes; el : <<<<codes, n>>..>>;  *)
(*   fam : class name; T : temperatures (Dec2); a : rows of coefficients   *)
(*   (Dec2); misc : kinds of the attached models ("dict" = an entry left   *)
(*   undecoded); flag : add_gas_P_adj; arr : every coefficient attribute   *)
(*   is a numpy.ndarray; units].                                           *)
(*                                                                         *)
(* `st` is the workspace of Session.tla as the SPECIFICATION computes it   *)
(* from the op lines: for every object id its origin content (org), its    *)
(* precision class (prec: "exact" | "nine"), family, gas, flag, cov, the   *)
(* content seen last (cur) and - for the result of a thermdat trip whose   *)
(* source already was of class "nine" - the source's content (idem).       *)
(* Every obs line is compared with the ORIGIN, never with the previous     *)
(* step, at the class the specification computed:                          *)
(*   exact : Equal2 on every temperature and coefficient (17 digits)       *)
(*   nine  : coefficient = the origin's rounded to 9 significant digits    *)
(*           (Round9 below, a tie accepted either way; Close2 k = 15, i.e. *)
(*           1e-15 relative: the double nearest to a 9-digit decimal is    *)
(*           within 9 units of the 17th digit); temperature within         *)
(*           0.05 K + 2e-5 K (half a unit of '%.1f' + the 9-digit error of *)
(*           Sub2 on temperatures below 10^4 K)                            *)
(* Clauses: Name, Phase, Elements, Family, TempCount, Temps, CoefShape,    *)
(* Coefs, PAdjCount, CovKept, AllDecoded, OnlyKnownModels, FlagKept,       *)
(* CoefArray, Units, ThermdatIdempotent (obs); Raises, ResultCount,        *)
(* OpAllowed, Ids, ObsMissing (op / construct / end).  Verdicts are total.  *)
(***************************************************************************)
EXTENDS Dec2, TLC, TLCExt, Json, IOUtils

TraceLog == ndJsonDeserialize(IOEnv.TRACE_FILE)
VARIABLES l, st

NoC == <<>>          \* `cur` / `idem` are <<>> (nothing) or <<content>>
Count(s, k) == Cardinality({i \in 1..Len(s) : s[i] = k})
ClassName(fam) == IF fam = "nasa7" THEN "Nasa" ELSE IF fam = "nasa9" THEN "Nasa9" ELSE "Shomate"

\* ---- 9-significant-digit rounding of a 17-digit decimal: the acceptable results
Away(hi) == IF hi < 0 THEN hi - 1 ELSE hi + 1
Round9(a) ==
   IF IsZero2(a) THEN {<<0, 0, 0>>}
   ELSE LET lo == Abs(a[2]) IN
        IF lo < 50000000 THEN {<<a[1], 0, a[3]>>}
        ELSE IF lo > 50000000 THEN {<<Away(a[1]), 0, a[3]>>}
        ELSE {<<a[1], 0, a[3]>>, <<Away(a[1]), 0, a[3]>>}
NineOK(orgv, v) == \E r \in Round9(orgv) : Close2(v, r, 15)
HalfTenth == <<5002, -5>>
TempNineOK(orgT, T) == Le(DAbs(Sub2(T, orgT)), HalfTenth)

SameShape(a, b) == Len(a) = Len(b) /\ \A i \in 1..Len(a) : Len(a[i]) = Len(b[i])
ElemSet(el) == {el[i] : i \in 1..Len(el)}

\* ---- clauses on one observation of object r (what the specification knows) showing content c
ObsClauses(r, c) ==
   LET g == r.org
       shape == SameShape(c.a, g.a)
       tcount == Len(c.T) = Len(g.T)
   IN (IF c.name = g.name THEN {} ELSE {"Name"})
      \cup (IF c.phase = g.phase THEN {} ELSE {"Phase"})
      \cup (IF Len(c.el) = Len(g.el) /\ ElemSet(c.el) = ElemSet(g.el) THEN {} ELSE {"Elements"})
      \cup (IF c.fam = ClassName(r.fam) THEN {} ELSE {"Family"})
      \cup (IF tcount THEN {} ELSE {"TempCount"})
      \cup (IF ~tcount THEN {}
            ELSE IF r.prec = "exact"
                 THEN (IF \A j \in 1..Len(g.T) : Equal2(c.T[j], g.T[j]) THEN {} ELSE {"Temps"})
                 ELSE (IF \A j \in 1..Len(g.T) : TempNineOK(g.T[j], c.T[j]) THEN {} ELSE {"Temps"}))
      \cup (IF shape THEN {} ELSE {"CoefShape"})
      \cup (IF ~shape THEN {}
            ELSE IF r.prec = "exact"
                 THEN (IF \A i \in 1..Len(g.a) : \A j \in 1..Len(g.a[i]) : Equal2(c.a[i][j], g.a[i][j])
                       THEN {} ELSE {"Coefs"})
                 ELSE (IF \A i \in 1..Len(g.a) : \A j \in 1..Len(g.a[i]) : NineOK(g.a[i][j], c.a[i][j])
                       THEN {} ELSE {"Coefs"}))
      \cup (IF Count(c.misc, "GasPressureAdj") = (IF r.gas /\ r.flag THEN 1 ELSE 0) THEN {} ELSE {"PAdjCount"})
      \cup (IF Count(c.misc, "PiecewiseCovEffect") = r.cov THEN {} ELSE {"CovKept"})
      \cup (IF Count(c.misc, "dict") = 0 THEN {} ELSE {"AllDecoded"})
      \cup (IF \A i \in 1..Len(c.misc) : c.misc[i] \in {"GasPressureAdj", "PiecewiseCovEffect", "dict"}
            THEN {} ELSE {"OnlyKnownModels"})
      \cup (IF c.flag = r.flag THEN {} ELSE {"FlagKept"})
      \cup (IF c.arr THEN {} ELSE {"CoefArray"})
      \cup (IF c.units = g.units THEN {} ELSE {"Units"})
      \cup (IF Len(r.idem) = 0 THEN {}
            ELSE IF /\ SameShape(c.a, r.idem[1].a) /\ Len(c.T) = Len(r.idem[1].T)
                    /\ \A i \in 1..Len(c.a) : \A j \in 1..Len(c.a[i]) : Equal2(c.a[i][j], r.idem[1].a[i][j])
                    /\ \A j \in 1..Len(c.T) : Equal2(c.T[j], r.idem[1].T[j])
                 THEN {} ELSE {"ThermdatIdempotent"})

\* ---- the workspace the specification computes (Session.tla: Img, Carries)
Carries(r) == r.fam = "nasa7" /\ r.flag /\ r.cov = 0
Known(s, i) == i \in 1..Len(s.o)
OpOK(s, e) == /\ \A k \in 1..Len(e.src) : Known(s, e.src[k]) /\ e.src[k] \in s.live
              /\ e.act \in {"json", "dict", "deepcopy", "thermdat"}
              /\ e.act # "thermdat" => Len(e.src) = 1
              /\ e.act = "thermdat" => \A k \in 1..Len(e.src) : Carries(s.o[e.src[k]])
              /\ \A j, k \in 1..Len(e.src) : e.src[j] = e.src[k] => j = k
ImgRec(r, act) ==
   IF act = "thermdat"
   THEN [r EXCEPT !.prec = "nine", !.fam = "nasa7", !.idem = IF r.prec = "nine" THEN r.cur ELSE NoC, !.cur = NoC]
   ELSE [r EXCEPT !.idem = NoC, !.cur = NoC]          \* the class is inherited: precision never improves

\* every live object has been observed since the previous call
Unobserved(s) == {i \in s.live : Len(s.o[i].cur) = 0}
OpClauses(s, e) ==
   IF Unobserved(s) # {} THEN {"ObsMissing"}
   ELSE IF ~OpOK(s, e) THEN {"OpAllowed"}
   ELSE IF e.raised THEN {"Raises"}
   ELSE IF e.nout # Len(e.src) \/ Len(e.dst) # Len(e.src) THEN {"ResultCount"}
   ELSE IF \A k \in 1..Len(e.dst) : e.dst[k] = Len(s.o) + k THEN {} ELSE {"Ids"}

AfterOp(s, e) ==
   IF OpClauses(s, e) # {} THEN s
   ELSE [o |-> [i \in 1..Len(s.o) |-> [s.o[i] EXCEPT !.cur = NoC]]
               \o [k \in 1..Len(e.src) |-> ImgRec(s.o[e.src[k]], e.act)],
         live |-> (IF e.keep THEN s.live ELSE s.live \ {e.src[k] : k \in 1..Len(e.src)})
                  \cup {e.dst[k] : k \in 1..Len(e.dst)}]

Clauses(s, e) ==
   CASE e.ev = "construct" ->
          (IF e.id = Len(s.o) + 1 THEN {} ELSE {"Ids"})
          \cup ObsClauses([org |-> e.c, prec |-> "exact", fam |-> e.fam, gas |-> e.gas, flag |-> e.flag,
                           cov |-> e.cov, cur |-> NoC, idem |-> NoC], e.c)
     [] e.ev = "op" -> OpClauses(s, e)
     [] e.ev = "obs" -> IF Known(s, e.id) /\ e.id \in s.live THEN ObsClauses(s.o[e.id], e.c) ELSE {"Ids"}
     [] e.ev = "end" -> IF Unobserved(s) # {} THEN {"ObsMissing"} ELSE {}
     [] OTHER -> {"UnknownEvent"}

Step(s, e) ==
   CASE e.ev = "construct" ->
          [o |-> Append(s.o, [org |-> e.c, prec |-> "exact", fam |-> e.fam, gas |-> e.gas, flag |-> e.flag,
                              cov |-> e.cov, cur |-> <<e.c>>, idem |-> NoC]),
           live |-> s.live \cup {Len(s.o) + 1}]
     [] e.ev = "op" -> AfterOp(s, e)
     [] e.ev = "obs" -> IF Known(s, e.id) THEN [s EXCEPT !.o[e.id].cur = <<e.c>>] ELSE s
     [] OTHER -> s

Empty == [o |-> <<>>, live |-> {}]
Init == l = 1 /\ st = Empty /\ TLCSet(1, {})
Next == /\ l <= Len(TraceLog)
        /\ LET e == TraceLog[l]
               s == IF l > 1 /\ TraceLog[l - 1].tid = e.tid THEN st ELSE Empty
               bad == Clauses(s, e) IN
             /\ IF bad # {} THEN TLCSet(1, TLCGet(1) \cup {<<e.tid, l, c>> : c \in bad}) ELSE TRUE
             /\ st' = Step(s, e)
        /\ l' = l + 1
Spec == Init /\ [][Next]_<<l, st>>
Post == /\ PrintT(<<"FAILS", TLCGet(1)>>)
        /\ PrintT(<<"CONSUMED", TLCGet("stats").diameter - 1>>)
=============================================================================
