\* one edited cell of a pairwise matrix: expected violation of PathIndependent
SPECIFICATION Spec
CONSTANTS
  Variant = "pairwise"
  MaxSteps = 3
INVARIANT PathIndependent
CHECK_DEADLOCK FALSE
