\* design model, conversions through the base unit: everything holds
SPECIFICATION Spec
CONSTANTS
  Variant = "viabase"
  MaxSteps = 3
INVARIANT TypeOK
INVARIANT PathIndependent
INVARIANT DerivedAgree
INVARIANT LawsInv
PROPERTY TypePreserved
PROPERTY RefusalChangesNothing
CHECK_DEADLOCK FALSE
