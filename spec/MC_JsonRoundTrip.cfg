\* exhaustive design model, required tables: all trees whose varied chain has length <= 2 from
\* every class, all lifecycles of <= 4 calls
SPECIFICATION Spec
CONSTANTS
  Variant = "required"
  MaxDepth = 2
  MaxLife = 4
  Roots <- AllRoots
INVARIANT TypeOK
INVARIANT NoRaise
INVARIANT RegistryTotal
INVARIANT SameClassTree
INVARIANT AttrsKept
INVARIANT DictUntouched
INVARIANT Repeatable
INVARIANT Idempotent
CHECK_DEADLOCK FALSE
