\* collection by object: every BEP object of <= 4 reactions x <= 3 BEPs (unnamed / user names, also in
\* the b_%04d namespace) is written once under a unique name
SPECIFICATION Spec
CONSTANTS
  N = 4
  NB = 3
  UserNames = {"b_0000", "b_0001", "NH-H"}
  Variant = "by_object"
INVARIANT EachBepOnce
INVARIANT BepNamesUnique
INVARIANT UserNamesKept
CHECK_DEADLOCK FALSE
