---- MODULE MC_LogReaders_TTrace_1790589525 ----
EXTENDS Sequences, TLCExt, MC_LogReaders, Toolbox, Naturals, TLC

_expression ==
    LET MC_LogReaders_TEExpression == INSTANCE MC_LogReaders_TEExpression
    IN MC_LogReaders_TEExpression!expression
----

_trace ==
    LET MC_LogReaders_TETrace == INSTANCE MC_LogReaders_TETrace
    IN MC_LogReaders_TETrace!trace
----

_inv ==
    ~(
        TLCGet("level") = Len(_TETrace)
        /\
        file = (<<5>>)
        /\
        imp = ([o |-> <<<<"imag", <<10607462, -6, 0>>>>>>, g |-> [zpe |-> <<>>, sum |-> <<>>, freq |-> <<>>, rott |-> <<>>, mass |-> <<>>, sym |-> <<>>], p |-> [first |-> <<>>, all |-> <<>>]])
        /\
        req = ([o |-> <<<<"imag", <<10607462, -6, 0>>>>>>, g |-> [zpe |-> <<>>, sum |-> <<>>, freq |-> <<>>, rott |-> <<>>, mass |-> <<>>, sym |-> <<>>], p |-> [first |-> <<>>, all |-> <<>>]])
    )
----

_init ==
    /\ req = _TETrace[1].req
    /\ imp = _TETrace[1].imp
    /\ file = _TETrace[1].file
----

_next ==
    /\ \E i,j \in DOMAIN _TETrace:
        /\ \/ /\ j = i + 1
              /\ i = TLCGet("level")
        /\ req  = _TETrace[i].req
        /\ req' = _TETrace[j].req
        /\ imp  = _TETrace[i].imp
        /\ imp' = _TETrace[j].imp
        /\ file  = _TETrace[i].file
        /\ file' = _TETrace[j].file

\* Uncomment the ASSUME below to write the states of the error trace
\* to the given file in Json format. Note that you can pass any tuple
\* to `JsonSerialize`. For example, a sub-sequence of _TETrace.
    \* ASSUME
    \*     LET J == INSTANCE Json
    \*         IN J!JsonSerialize("MC_LogReaders_TTrace_1790589525.json", _TETrace)

=============================================================================

 Note that you can extract this module `MC_LogReaders_TEExpression`
  to a dedicated file to reuse `expression` (the module in the 
  dedicated `MC_LogReaders_TEExpression.tla` file takes precedence 
  over the module `MC_LogReaders_TEExpression` below).

---- MODULE MC_LogReaders_TEExpression ----
EXTENDS Sequences, TLCExt, MC_LogReaders, Toolbox, Naturals, TLC

expression == 
    [
        \* To hide variables of the `MC_LogReaders` spec from the error trace,
        \* remove the variables below.  The trace will be written in the order
        \* of the fields of this record.
        req |-> req
        ,imp |-> imp
        ,file |-> file
        
        \* Put additional constant-, state-, and action-level expressions here:
        \* ,_stateNumber |-> _TEPosition
        \* ,_reqUnchanged |-> req = req'
        
        \* Format the `req` variable as Json value.
        \* ,_reqJson |->
        \*     LET J == INSTANCE Json
        \*     IN J!ToJson(req)
        
        \* Lastly, you may build expressions over arbitrary sets of states by
        \* leveraging the _TETrace operator.  For example, this is how to
        \* count the number of times a spec variable changed up to the current
        \* state in the trace.
        \* ,_reqModCount |->
        \*     LET F[s \in DOMAIN _TETrace] ==
        \*         IF s = 1 THEN 0
        \*         ELSE IF _TETrace[s].req # _TETrace[s-1].req
        \*             THEN 1 + F[s-1] ELSE F[s-1]
        \*     IN F[_TEPosition - 1]
    ]

=============================================================================



Parsing and semantic processing can take forever if the trace below is long.
 In this case, it is advised to uncomment the module below to deserialize the
 trace from a generated binary file.

\*
\*---- MODULE MC_LogReaders_TETrace ----
\*EXTENDS IOUtils, MC_LogReaders, TLC
\*
\*trace == IODeserialize("MC_LogReaders_TTrace_1790589525.bin", TRUE)
\*
\*=============================================================================
\*

---- MODULE MC_LogReaders_TETrace ----
EXTENDS MC_LogReaders, TLC

trace == 
    <<
    ([file |-> <<>>,imp |-> [o |-> <<>>, g |-> [zpe |-> <<>>, sum |-> <<>>, freq |-> <<>>, rott |-> <<>>, mass |-> <<>>, sym |-> <<>>], p |-> [first |-> <<>>, all |-> <<>>]],req |-> [o |-> <<>>, g |-> [zpe |-> <<>>, sum |-> <<>>, freq |-> <<>>, rott |-> <<>>, mass |-> <<>>, sym |-> <<>>], p |-> [first |-> <<>>, all |-> <<>>]]]),
    ([file |-> <<5>>,imp |-> [o |-> <<<<"imag", <<10607462, -6, 0>>>>>>, g |-> [zpe |-> <<>>, sum |-> <<>>, freq |-> <<>>, rott |-> <<>>, mass |-> <<>>, sym |-> <<>>], p |-> [first |-> <<>>, all |-> <<>>]],req |-> [o |-> <<<<"imag", <<10607462, -6, 0>>>>>>, g |-> [zpe |-> <<>>, sum |-> <<>>, freq |-> <<>>, rott |-> <<>>, mass |-> <<>>, sym |-> <<>>], p |-> [first |-> <<>>, all |-> <<>>]]])
    >>
----


=============================================================================

---- CONFIG MC_LogReaders_TTrace_1790589525 ----
CONSTANTS
    Lines <- MCLines
    Kinds <- OutcarKinds
    MaxLen = 2
    Cuts <- MCCuts
    Pat <- MCPat
    Variant = "imagcut"

INVARIANT
    _inv

CHECK_DEADLOCK
    \* CHECK_DEADLOCK off because of PROPERTY or INVARIANT above.
    FALSE

INIT
    _init

NEXT
    _next

CONSTANT
    _TETrace <- _trace

ALIAS
    _expression
=============================================================================
\* Generated on Mon Sep 28 09:58:50 UTC 2026