\* neighbours iterated in descending order; sources / targets may be transition states; <= 3 targets
SPECIFICATION Spec
CONSTANTS
  Networks <- MCNetsEnds
  Cutoffs <- MCCutoffs
  EVals <- MCZero
  EndAtTS = TRUE
  MaxTargets = 3
  Variant = "ok"
  Order = "desc"
INVARIANT GraphIsNetwork
INVARIANT CurSimple
INVARIANT FoundSound
INVARIANT CutoffStates
INVARIANT FoundExact
INVARIANT SpanDefinition
INVARIANT MinSpan
CHECK_DEADLOCK TRUE
