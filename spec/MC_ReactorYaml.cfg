\* the repaired algorithm writes every option in every form under every units choice
SPECIFICATION Spec
CONSTANTS
  Variant = "repaired"
  Emitting = FALSE
INVARIANT Refines
INVARIANT PathsDistinct
INVARIANT ExpectedNonEmpty
INVARIANT ExpectedAtPath
INVARIANT RoundTrip
CHECK_DEADLOCK FALSE
