---- MODULE MC_Observers_TTrace_1790600933 ----
EXTENDS Sequences, TLCExt, Toolbox, Naturals, TLC, MC_Observers

_expression ==
    LET MC_Observers_TEExpression == INSTANCE MC_Observers_TEExpression
    IN MC_Observers_TEExpression!expression
----

_trace ==
    LET MC_Observers_TETrace == INSTANCE MC_Observers_TETrace
    IN MC_Observers_TETrace!trace
----

_inv ==
    ~(
        TLCGet("level") = Len(_TETrace)
        /\
        dirty = (FALSE)
        /\
        cache = (<<1, 1, 1>>)
        /\
        last = ([v |-> 0, m |-> 1, res |-> <<1213, 1113>>, act |-> "eval", i |-> 0, r |-> "a", arg |-> [val |-> <<1>>, kind |-> "sint"]])
        /\
        h = (<<[content |-> <<1, 1, 1>>, store |-> [a |-> [val |-> <<1>>, kind |-> "sint"], b |-> [val |-> <<2, 1>>, kind |-> "list"]], act |-> "construct"], [v |-> 0, content |-> <<1, 1, 1>>, store |-> [a |-> [val |-> <<1>>, kind |-> "sint"], b |-> [val |-> <<2, 1>>, kind |-> "list"]], m |-> 1, act |-> "eval", i |-> 0, r |-> "a", arg |-> [val |-> <<1>>, kind |-> "sint"], same |-> TRUE, argsame |-> TRUE, statesame |-> TRUE], [v |-> 0, content |-> <<1, 1, 1>>, store |-> [a |-> [val |-> <<1>>, kind |-> "sint"], b |-> [val |-> <<2, 1>>, kind |-> "list"]], m |-> 2, act |-> "eval", i |-> 0, r |-> "a", arg |-> [val |-> <<1>>, kind |-> "sint"], same |-> TRUE, argsame |-> TRUE, statesame |-> TRUE], [v |-> 0, content |-> <<1, 1, 1>>, store |-> [a |-> [val |-> <<1>>, kind |-> "sint"], b |-> [val |-> <<2, 1>>, kind |-> "list"]], m |-> 1, act |-> "eval", i |-> 0, r |-> "b", arg |-> [val |-> <<2, 1>>, kind |-> "list"], same |-> TRUE, argsame |-> TRUE, statesame |-> TRUE], [v |-> 0, content |-> <<1, 1, 1>>, store |-> [a |-> [val |-> <<1>>, kind |-> "sint"], b |-> [val |-> <<2, 1>>, kind |-> "list"]], m |-> 1, act |-> "eval", i |-> 0, r |-> "a", arg |-> [val |-> <<1>>, kind |-> "sint"], same |-> FALSE, argsame |-> TRUE, statesame |-> TRUE]>>)
        /\
        memo = ([m |-> 1, res |-> <<1213, 1113>>])
        /\
        store = ([a |-> [val |-> <<1>>, kind |-> "sint"], b |-> [val |-> <<2, 1>>, kind |-> "list"]])
        /\
        content = (<<1, 1, 1>>)
        /\
        n = (4)
        /\
        seen = ((<<1, [val |-> <<1>>, kind |-> "sint"]>> :> <<1113>> @@ <<1, [val |-> <<2, 1>>, kind |-> "list"]>> :> <<1213, 1113>> @@ <<2, [val |-> <<1>>, kind |-> "sint"]>> :> <<2113>>))
    )
----

_init ==
    /\ content = _TETrace[1].content
    /\ dirty = _TETrace[1].dirty
    /\ h = _TETrace[1].h
    /\ n = _TETrace[1].n
    /\ store = _TETrace[1].store
    /\ last = _TETrace[1].last
    /\ memo = _TETrace[1].memo
    /\ seen = _TETrace[1].seen
    /\ cache = _TETrace[1].cache
----

_next ==
    /\ \E i,j \in DOMAIN _TETrace:
        /\ \/ /\ j = i + 1
              /\ i = TLCGet("level")
        /\ content  = _TETrace[i].content
        /\ content' = _TETrace[j].content
        /\ dirty  = _TETrace[i].dirty
        /\ dirty' = _TETrace[j].dirty
        /\ h  = _TETrace[i].h
        /\ h' = _TETrace[j].h
        /\ n  = _TETrace[i].n
        /\ n' = _TETrace[j].n
        /\ store  = _TETrace[i].store
        /\ store' = _TETrace[j].store
        /\ last  = _TETrace[i].last
        /\ last' = _TETrace[j].last
        /\ memo  = _TETrace[i].memo
        /\ memo' = _TETrace[j].memo
        /\ seen  = _TETrace[i].seen
        /\ seen' = _TETrace[j].seen
        /\ cache  = _TETrace[i].cache
        /\ cache' = _TETrace[j].cache

\* Uncomment the ASSUME below to write the states of the error trace
\* to the given file in Json format. Note that you can pass any tuple
\* to `JsonSerialize`. For example, a sub-sequence of _TETrace.
    \* ASSUME
    \*     LET J == INSTANCE Json
    \*         IN J!JsonSerialize("MC_Observers_TTrace_1790600933.json", _TETrace)

=============================================================================

 Note that you can extract this module `MC_Observers_TEExpression`
  to a dedicated file to reuse `expression` (the module in the 
  dedicated `MC_Observers_TEExpression.tla` file takes precedence 
  over the module `MC_Observers_TEExpression` below).

---- MODULE MC_Observers_TEExpression ----
EXTENDS Sequences, TLCExt, Toolbox, Naturals, TLC, MC_Observers

expression == 
    [
        \* To hide variables of the `MC_Observers` spec from the error trace,
        \* remove the variables below.  The trace will be written in the order
        \* of the fields of this record.
        content |-> content
        ,dirty |-> dirty
        ,h |-> h
        ,n |-> n
        ,store |-> store
        ,last |-> last
        ,memo |-> memo
        ,seen |-> seen
        ,cache |-> cache
        
        \* Put additional constant-, state-, and action-level expressions here:
        \* ,_stateNumber |-> _TEPosition
        \* ,_contentUnchanged |-> content = content'
        
        \* Format the `content` variable as Json value.
        \* ,_contentJson |->
        \*     LET J == INSTANCE Json
        \*     IN J!ToJson(content)
        
        \* Lastly, you may build expressions over arbitrary sets of states by
        \* leveraging the _TETrace operator.  For example, this is how to
        \* count the number of times a spec variable changed up to the current
        \* state in the trace.
        \* ,_contentModCount |->
        \*     LET F[s \in DOMAIN _TETrace] ==
        \*         IF s = 1 THEN 0
        \*         ELSE IF _TETrace[s].content # _TETrace[s-1].content
        \*             THEN 1 + F[s-1] ELSE F[s-1]
        \*     IN F[_TEPosition - 1]
    ]

=============================================================================



Parsing and semantic processing can take forever if the trace below is long.
 In this case, it is advised to uncomment the module below to deserialize the
 trace from a generated binary file.

\*
\*---- MODULE MC_Observers_TETrace ----
\*EXTENDS IOUtils, TLC, MC_Observers
\*
\*trace == IODeserialize("MC_Observers_TTrace_1790600933.bin", TRUE)
\*
\*=============================================================================
\*

---- MODULE MC_Observers_TETrace ----
EXTENDS TLC, MC_Observers

trace == 
    <<
    ([dirty |-> FALSE,cache |-> <<1, 1, 1>>,last |-> [v |-> 0, m |-> 0, res |-> <<>>, act |-> "construct", i |-> 0, r |-> "", arg |-> [val |-> <<>>, kind |-> "sflt"]],h |-> <<[content |-> <<1, 1, 1>>, store |-> [a |-> [val |-> <<1>>, kind |-> "sint"], b |-> [val |-> <<2, 1>>, kind |-> "list"]], act |-> "construct"]>>,memo |-> [m |-> 0, res |-> <<>>],store |-> [a |-> [val |-> <<1>>, kind |-> "sint"], b |-> [val |-> <<2, 1>>, kind |-> "list"]],content |-> <<1, 1, 1>>,n |-> 0,seen |-> <<>>]),
    ([dirty |-> FALSE,cache |-> <<1, 1, 1>>,last |-> [v |-> 0, m |-> 1, res |-> <<1113>>, act |-> "eval", i |-> 0, r |-> "a", arg |-> [val |-> <<1>>, kind |-> "sint"]],h |-> <<[content |-> <<1, 1, 1>>, store |-> [a |-> [val |-> <<1>>, kind |-> "sint"], b |-> [val |-> <<2, 1>>, kind |-> "list"]], act |-> "construct"], [v |-> 0, content |-> <<1, 1, 1>>, store |-> [a |-> [val |-> <<1>>, kind |-> "sint"], b |-> [val |-> <<2, 1>>, kind |-> "list"]], m |-> 1, act |-> "eval", i |-> 0, r |-> "a", arg |-> [val |-> <<1>>, kind |-> "sint"], same |-> TRUE, argsame |-> TRUE, statesame |-> TRUE]>>,memo |-> [m |-> 1, res |-> <<1113>>],store |-> [a |-> [val |-> <<1>>, kind |-> "sint"], b |-> [val |-> <<2, 1>>, kind |-> "list"]],content |-> <<1, 1, 1>>,n |-> 1,seen |-> (<<1, [val |-> <<1>>, kind |-> "sint"]>> :> <<1113>>)]),
    ([dirty |-> FALSE,cache |-> <<1, 1, 1>>,last |-> [v |-> 0, m |-> 2, res |-> <<2113>>, act |-> "eval", i |-> 0, r |-> "a", arg |-> [val |-> <<1>>, kind |-> "sint"]],h |-> <<[content |-> <<1, 1, 1>>, store |-> [a |-> [val |-> <<1>>, kind |-> "sint"], b |-> [val |-> <<2, 1>>, kind |-> "list"]], act |-> "construct"], [v |-> 0, content |-> <<1, 1, 1>>, store |-> [a |-> [val |-> <<1>>, kind |-> "sint"], b |-> [val |-> <<2, 1>>, kind |-> "list"]], m |-> 1, act |-> "eval", i |-> 0, r |-> "a", arg |-> [val |-> <<1>>, kind |-> "sint"], same |-> TRUE, argsame |-> TRUE, statesame |-> TRUE], [v |-> 0, content |-> <<1, 1, 1>>, store |-> [a |-> [val |-> <<1>>, kind |-> "sint"], b |-> [val |-> <<2, 1>>, kind |-> "list"]], m |-> 2, act |-> "eval", i |-> 0, r |-> "a", arg |-> [val |-> <<1>>, kind |-> "sint"], same |-> TRUE, argsame |-> TRUE, statesame |-> TRUE]>>,memo |-> [m |-> 2, res |-> <<2113>>],store |-> [a |-> [val |-> <<1>>, kind |-> "sint"], b |-> [val |-> <<2, 1>>, kind |-> "list"]],content |-> <<1, 1, 1>>,n |-> 2,seen |-> (<<1, [val |-> <<1>>, kind |-> "sint"]>> :> <<1113>> @@ <<2, [val |-> <<1>>, kind |-> "sint"]>> :> <<2113>>)]),
    ([dirty |-> FALSE,cache |-> <<1, 1, 1>>,last |-> [v |-> 0, m |-> 1, res |-> <<1213, 1113>>, act |-> "eval", i |-> 0, r |-> "b", arg |-> [val |-> <<2, 1>>, kind |-> "list"]],h |-> <<[content |-> <<1, 1, 1>>, store |-> [a |-> [val |-> <<1>>, kind |-> "sint"], b |-> [val |-> <<2, 1>>, kind |-> "list"]], act |-> "construct"], [v |-> 0, content |-> <<1, 1, 1>>, store |-> [a |-> [val |-> <<1>>, kind |-> "sint"], b |-> [val |-> <<2, 1>>, kind |-> "list"]], m |-> 1, act |-> "eval", i |-> 0, r |-> "a", arg |-> [val |-> <<1>>, kind |-> "sint"], same |-> TRUE, argsame |-> TRUE, statesame |-> TRUE], [v |-> 0, content |-> <<1, 1, 1>>, store |-> [a |-> [val |-> <<1>>, kind |-> "sint"], b |-> [val |-> <<2, 1>>, kind |-> "list"]], m |-> 2, act |-> "eval", i |-> 0, r |-> "a", arg |-> [val |-> <<1>>, kind |-> "sint"], same |-> TRUE, argsame |-> TRUE, statesame |-> TRUE], [v |-> 0, content |-> <<1, 1, 1>>, store |-> [a |-> [val |-> <<1>>, kind |-> "sint"], b |-> [val |-> <<2, 1>>, kind |-> "list"]], m |-> 1, act |-> "eval", i |-> 0, r |-> "b", arg |-> [val |-> <<2, 1>>, kind |-> "list"], same |-> TRUE, argsame |-> TRUE, statesame |-> TRUE]>>,memo |-> [m |-> 1, res |-> <<1213, 1113>>],store |-> [a |-> [val |-> <<1>>, kind |-> "sint"], b |-> [val |-> <<2, 1>>, kind |-> "list"]],content |-> <<1, 1, 1>>,n |-> 3,seen |-> (<<1, [val |-> <<1>>, kind |-> "sint"]>> :> <<1113>> @@ <<1, [val |-> <<2, 1>>, kind |-> "list"]>> :> <<1213, 1113>> @@ <<2, [val |-> <<1>>, kind |-> "sint"]>> :> <<2113>>)]),
    ([dirty |-> FALSE,cache |-> <<1, 1, 1>>,last |-> [v |-> 0, m |-> 1, res |-> <<1213, 1113>>, act |-> "eval", i |-> 0, r |-> "a", arg |-> [val |-> <<1>>, kind |-> "sint"]],h |-> <<[content |-> <<1, 1, 1>>, store |-> [a |-> [val |-> <<1>>, kind |-> "sint"], b |-> [val |-> <<2, 1>>, kind |-> "list"]], act |-> "construct"], [v |-> 0, content |-> <<1, 1, 1>>, store |-> [a |-> [val |-> <<1>>, kind |-> "sint"], b |-> [val |-> <<2, 1>>, kind |-> "list"]], m |-> 1, act |-> "eval", i |-> 0, r |-> "a", arg |-> [val |-> <<1>>, kind |-> "sint"], same |-> TRUE, argsame |-> TRUE, statesame |-> TRUE], [v |-> 0, content |-> <<1, 1, 1>>, store |-> [a |-> [val |-> <<1>>, kind |-> "sint"], b |-> [val |-> <<2, 1>>, kind |-> "list"]], m |-> 2, act |-> "eval", i |-> 0, r |-> "a", arg |-> [val |-> <<1>>, kind |-> "sint"], same |-> TRUE, argsame |-> TRUE, statesame |-> TRUE], [v |-> 0, content |-> <<1, 1, 1>>, store |-> [a |-> [val |-> <<1>>, kind |-> "sint"], b |-> [val |-> <<2, 1>>, kind |-> "list"]], m |-> 1, act |-> "eval", i |-> 0, r |-> "b", arg |-> [val |-> <<2, 1>>, kind |-> "list"], same |-> TRUE, argsame |-> TRUE, statesame |-> TRUE], [v |-> 0, content |-> <<1, 1, 1>>, store |-> [a |-> [val |-> <<1>>, kind |-> "sint"], b |-> [val |-> <<2, 1>>, kind |-> "list"]], m |-> 1, act |-> "eval", i |-> 0, r |-> "a", arg |-> [val |-> <<1>>, kind |-> "sint"], same |-> FALSE, argsame |-> TRUE, statesame |-> TRUE]>>,memo |-> [m |-> 1, res |-> <<1213, 1113>>],store |-> [a |-> [val |-> <<1>>, kind |-> "sint"], b |-> [val |-> <<2, 1>>, kind |-> "list"]],content |-> <<1, 1, 1>>,n |-> 4,seen |-> (<<1, [val |-> <<1>>, kind |-> "sint"]>> :> <<1113>> @@ <<1, [val |-> <<2, 1>>, kind |-> "list"]>> :> <<1213, 1113>> @@ <<2, [val |-> <<1>>, kind |-> "sint"]>> :> <<2113>>)])
    >>
----


=============================================================================

---- CONFIG MC_Observers_TTrace_1790600933 ----
CONSTANTS
    NF = 3
    Vals = { 1 , 2 }
    Methods = { 1 , 2 }
    Refs <- RefSet
    Args <- ArgsSmall
    InitStores <- StoresSmall
    Keyed <- AllFields
    Impl = "lastcall"
    MaxOps = 4

INVARIANT
    _inv

CHECK_DEADLOCK
    \* CHECK_DEADLOCK off because of PROPERTY or INVARIANT above.
    FALSE

INIT
    _init

NEXT
    _next

CONSTANT
    _TETrace <- _trace

ALIAS
    _expression
=============================================================================
\* Generated on Mon Sep 28 13:08:55 UTC 2026