--------------------------- MODULE Trace_StatMech ---------------------------
(***************************************************************************)
(* C01 - trace validation of statistical-mechanical species and modes.     *)
(* Numbers are Dec <<m, e>>.  Sensors (exp, ln) are libm values computed   *)
(* by the harness from the logged arguments; witnesses (quotients) are     *)
(* verified here by multiplication.  Physical constants used by the        *)
(* textbook formulas are held by the specification (CODATA 2014, the set   *)
(* the library documents).                                                 *)
(*                                                                         *)
(* Event kinds: thermo (identities, derivatives, pressure), verbose /      *)
(* verbose_sel (additivity: modes, references slot, extra models), opt     *)
(* (use_references x S_elements x units), missing (raise_error x           *)
(* raise_warning per getter), energy (get_EoRT / get_E x include_ZPE),     *)
(* argtype (T, P as int / numpy scalars), routed (keyword routing, presets *)
(* = instances), harmonic / qrrho / einstein / debye / rotor / trans /     *)
(* elec / lsr (closed forms), pointgroup, geometry.  Which mode kind lacks *)
(* or refuses which quantity is read from StatMechSig.tla, the table the   *)
(* design model StatMech.tla is checked against.                           *)
(***************************************************************************)
EXTENDS Dec, StatMechSig, TLC, TLCExt, Json, IOUtils

TraceLog == ndJsonDeserialize(IOEnv.TRACE_FILE)
VARIABLES l

\* ---- constants of the specification
C2 == <<143877735, -8>>          \* h c / kB in cm K      (1.43877735 cm K)
KB == <<861733030, -13>>         \* kB in eV/K            (8.6173303e-5)
PI == <<314159265, -8>>
Half == <<5, -1>>
One == <<1, 0>>
Three == <<3, 0>>
\* absolute floor for dimensionless quantities: IEEE rounding of 1 - exp(-x) leaves ~1e-16 absolute
\* errors per mode, so values below ~1e-11 cannot be compared relatively (scale operand 1e-6, k = 6)
Tiny == <<1, -6>>
NineQ == <<225, -2>>            \* 9/4
\* the gas constant in every unit of the documented table of pmutt.constants.R (CODATA 2014)
RTable == ("J/mol/K" :> <<83144598, -7>>) @@ ("kJ/mol/K" :> <<83144598, -10>>) @@ ("L kPa/mol/K" :> <<83144598, -7>>)
          @@ ("cm3 kPa/mol/K" :> <<83144598, -4>>) @@ ("m3 Pa/mol/K" :> <<83144598, -7>>)
          @@ ("cm3 MPa/mol/K" :> <<83144598, -7>>) @@ ("m3 bar/mol/K" :> <<83144598, -12>>)
          @@ ("L bar/mol/K" :> <<83144598, -9>>) @@ ("L torr/mol/K" :> <<62363577, -6>>)
          @@ ("cal/mol/K" :> <<19872036, -7>>) @@ ("kcal/mol/K" :> <<19872036, -10>>)
          @@ ("L atm/mol/K" :> <<82057338, -9>>) @@ ("cm3 atm/mol/K" :> <<82057338, -6>>)
          @@ ("eV/K" :> <<86173303, -12>>) @@ ("Eh/K" :> <<31668105, -13>>) @@ ("Ha/K" :> <<31668105, -13>>)
RKcal == RTable["kcal/mol/K"]
RECURSIVE PowD(_, _)
PowD(z, n) == IF n = 0 THEN One ELSE Mul(z, PowD(z, n - 1))

Idx(s) == 1..Len(s)
SumOver(s) == SumSeq(s)
SetOf(s) == {s[i] : i \in Idx(s)}
Chk(ok, name) == IF ok THEN {} ELSE {name}

\* ---- generic thermodynamic identities on one object at (T, P)
\* e.v = <<Cv, Cp, U, H, S, F, G>>; e.u4 / e.h4 / e.s4 at T(1-2h), T(1-h), T(1+h), T(1+2h)
Rich(f) == Sub(Mul(I(8), Sub(f[3], f[2])), Sub(f[4], f[1]))
RichScale(f) == {Mul(I(8), f[i]) : i \in 1..4}
ThermoClauses(e) ==
   LET Cv == e.v[1]  Cp == e.v[2]  U == e.v[3]  H == e.v[4]  S == e.v[5]  F == e.v[6]  G == e.v[7]
       step == Mul(I(12), e.h)
       \* d(T u)/dT = Cv  <=>  T u' = Cv - u ; Richardson on u: 8(u+ - u-) - (u++ - u--) = 12 h T u'
       rU == Mul(step, Sub(Cv, U))
       rH == Mul(step, Sub(Cp, H))
       rS == Mul(step, Cp)
       dSP == Sub(e.sP2, S)
   IN Chk(CloseIn(G, Sub(H, S), {H, S}, 7), "GHS")
      \cup Chk(CloseIn(F, Sub(U, S), {U, S}, 7), "FUS")
      \cup Chk(CloseIn(Sub(H, U), IF e.hasTrans THEN One ELSE Zero, {H, U}, 7), "HminusU")
      \cup Chk(CloseIn(Rich(e.u4), rU, RichScale(e.u4) \cup {Mul(step, Cv), Mul(step, U), Tiny}, 6), "CvIsdUdT")
      \cup Chk(CloseIn(Rich(e.h4), rH, RichScale(e.h4) \cup {Mul(step, Cp), Mul(step, H), Tiny}, 6), "CpIsdHdT")
      \cup (IF CloseIn(Rich(e.s4), rS, RichScale(e.s4) \cup {rS, Tiny}, 6) THEN {}
            \* known deviation of DebyeVib (S carries a spurious 9 theta/(4T)): T dS/dT = Cp - 9x/4
            ELSE IF e.debyeX # Zero /\ CloseIn(Rich(e.s4), Mul(step, Sub(Cp, Mul(NineQ, e.debyeX))),
                                                RichScale(e.s4) \cup {rS, Tiny}, 6)
                 THEN {"dSdT_KnownDebyeShift"} ELSE {"dSdT"})
      \cup Chk(CloseIn(dSP, IF e.hasTrans THEN Neg(e.lnP) ELSE Zero, {e.sP2, S}, 7), "EntropyPressure")

\* ---- verbose vector: e.g getter, e.tot, e.parts, e.direct (first five entries by direct mode calls),
\* e.nmisc / e.dmisc (the extra models of the species and their direct calls; a hole contributes the default),
\* e.hasRefs / e.refs (the species carries a References object; what the references slot must hold)
VerboseClauses(e) ==
   Chk(IF e.g = "q" THEN (Mag(ProdSeq(e.parts)) < -290 \/ Close(e.tot, ProdSeq(e.parts), 6))
       ELSE CloseIn(e.tot, SumSeq(e.parts), SetOf(e.parts), 7),
       IF e.g = "q" THEN "ProdOfVerbose" ELSE "SumOfVerbose")
   \cup Chk(Len(e.parts) >= 6 /\ \A k \in 1..5 : e.parts[k] = e.direct[k], "VerboseMatchesMode")
   \cup Chk(e.nmisc >= 1 => /\ Len(e.parts) = 6 + e.nmisc
                            /\ \A j \in 1..e.nmisc : (6 + j <= Len(e.parts)) => e.parts[6 + j] = e.dmisc[j],
            "VerboseMatchesMiscModel")
   \cup (IF e.hasRefs
         THEN Chk(/\ CloseIn(Sub(e.tot, e.norefs), e.refs, {e.tot, e.norefs}, 6)
                  /\ Len(e.parts) >= 6 /\ CloseIn(e.parts[6], e.refs, {e.tot, e.norefs}, 6), "ReferencesSlotIsOffset")
         ELSE Chk(e.norefs = e.tot, "ReferencesSwitchNoRefs"))

\* ---- option combinations on a species that carries a References object (enthalpy offset):
\* e.T, e.refoff (expected H/RT(with references) - H/RT(without) = -sum(offset n) T_ref / T, harness witness
\* from the offsets it chose), e.rows = one record per (use_references, S_elements) combination:
\*   [ur, se, G, H, S (dimensionless), Gd, Hd, Sd (J/mol, J/mol/K), U, F, Ud, Fd]
\* The defining relations hold under EVERY option combination, for the dimensionless getters and for the
\* dimensional ones (G = H - T S in J/mol), and use_references switches exactly the enthalpy offset.
OptClauses(e) ==
   LET R == e.rows
       ts(r) == Mul(e.T, r.Sd)
       on(se) == CHOOSE r \in SetOf(R) : r.ur /\ r.se = se
       off(se) == CHOOSE r \in SetOf(R) : ~r.ur /\ r.se = se
   IN Chk(\A i \in Idx(R) : CloseIn(R[i].G, Sub(R[i].H, R[i].S), {R[i].H, R[i].S}, 7), "OptGHS")
      \cup Chk(\A i \in Idx(R) : CloseIn(R[i].Gd, Sub(R[i].Hd, ts(R[i])), {R[i].Hd, ts(R[i])}, 7), "OptDimGHS")
      \cup Chk(\A i \in Idx(R) : CloseIn(R[i].Fd, Sub(R[i].Ud, ts(R[i])), {R[i].Ud, ts(R[i])}, 7), "OptDimFUS")
      \cup Chk(\A i \in Idx(R) : CloseIn(R[i].F, Sub(R[i].U, R[i].S), {R[i].U, R[i].S}, 7), "OptFUS")
      \cup Chk(\A se \in {TRUE, FALSE} :
                 /\ CloseIn(Sub(on(se).H, off(se).H), e.refoff, {on(se).H, off(se).H}, 6)
                 /\ CloseIn(Sub(on(se).G, off(se).G), e.refoff, {on(se).G, off(se).G}, 6)
                 /\ CloseIn(Sub(on(se).Gd, off(se).Gd), Sub(on(se).Hd, off(se).Hd), {on(se).Gd, off(se).Gd}, 6)
                 /\ on(se).S = off(se).S /\ on(se).Sd = off(se).Sd, "UseReferencesSwitchesOffset")
      \cup Chk(\A ur \in {TRUE, FALSE} :
                 LET a == CHOOSE r \in SetOf(R) : r.ur = ur /\ r.se
                     b == CHOOSE r \in SetOf(R) : r.ur = ur /\ ~r.se
                 IN /\ a.H = b.H /\ a.Hd = b.Hd /\ a.U = b.U
                    \* the element entropy leaves S and enters G and F with the opposite sign
                    /\ CloseIn(Sub(b.S, a.S), Sub(a.G, b.G), {a.S, b.S, a.G, b.G}, 6)
                    /\ CloseIn(Sub(b.S, a.S), Sub(a.F, b.F), {a.S, b.S, a.F, b.F}, 6), "SelementsActsOnSGF")
      \* the dimensional getters are the dimensionless ones times R (times T) in the requested unit (e.unit, every
      \* unit of the documented table; per-mass units are judged by the identities above only)
      \cup (IF e.perMass THEN {} ELSE
            LET Ru == RTable[e.unit]  RT == Mul(e.T, Ru) IN
            Chk(\A i \in Idx(R) : /\ Close(R[i].Hd, Mul(R[i].H, RT), 6) /\ Close(R[i].Gd, Mul(R[i].G, RT), 6)
                                   /\ Close(R[i].Ud, Mul(R[i].U, RT), 6) /\ Close(R[i].Fd, Mul(R[i].F, RT), 6)
                                   /\ Close(R[i].Sd, Mul(R[i].S, Ru), 7) /\ Close(R[i].Cvd, Mul(R[i].Cv, Ru), 7)
                                   /\ Close(R[i].Cpd, Mul(R[i].Cp, Ru), 7), "OptDimScale"))
      \cup Chk(\A i \in Idx(R) : CloseIn(R[i].Hd, SumSeq(R[i].Hvec), SetOf(R[i].Hvec), 7), "OptDimVerbose")

\* the same with S_elements = TRUE (entropy of the elements subtracted): e.tot / e.parts with the option,
\* e.tot0 / e.parts0 without it.  The total must drop by one amount S_ele and still be the sum of the
\* verbose vector.  Known deviation of the library, named exactly: S_ele is subtracted from EVERY entry of
\* the verbose vector (so the vector sums to total - (n-1) S_ele).
SelClauses(e) ==
   LET sele == Sub(e.tot0, e.tot)
       sumOK == CloseIn(e.tot, SumSeq(e.parts), SetOf(e.parts), 7)
       \* every entry shifted by the amount S_ele (e.selref, the shift the total must show once); each difference is
       \* judged at the magnitude of its own entry (an electronic entry of 1e5 carries 1e-4 of rounding)
       everyEntry == /\ Len(e.parts) = Len(e.parts0)
                     /\ \A k \in Idx(e.parts) : CloseIn(Sub(e.parts0[k], e.parts[k]), e.selref,
                                                         {e.parts0[k], e.parts[k], e.selref}, 6)
   IN Chk(CloseIn(e.tot0, SumSeq(e.parts0), SetOf(e.parts0), 7), "SumOfVerbose")
      \cup (IF sumOK THEN {}
            ELSE IF everyEntry THEN {"SumOfVerbose_KnownSelementsInEveryEntry"} ELSE {"SumOfVerboseSelements"})
      \cup Chk(CloseIn(sele, e.selref, {e.tot0, e.tot}, 6), "SelementsAmount")

\* ---- harmonic oscillator pieces shared by Harmonic / Einstein / QRRHO
\* x = theta/T (witness), ex = exp(-x) (sensor), y = ex/(1-ex) (witness), lg = ln(1-ex) (sensor)
WitX(x, theta, T) == Close(Mul(x, T), theta, 7)
\* om = 1 - exp(-x) is its own sensor (-expm1(-x)); it must complement ex, and y om = ex
WitY(y, ex, om) == Close(Add(om, ex), One, 8) /\ Close(Mul(y, om), ex, 7)
Uho(x, y) == Mul(x, Add(Half, y))
Sho(x, y, lg) == Sub(Mul(x, y), lg)
Cho(x, y) == Mul(Mul(x, x), Mul(y, Add(One, y)))

\* valid wavenumbers: positive ones kept, others replaced by the substitute or dropped
RECURSIVE ValidD(_, _, _)
ValidD(ws, hasSub, s) ==
   IF Len(ws) = 0 THEN <<>>
   ELSE (IF ws[1][1] > 0 THEN <<ws[1]>> ELSE IF hasSub THEN <<s>> ELSE <<>>) \o ValidD(Tail(ws), hasSub, s)

HarmonicClauses(e) ==
   LET nu == ValidD(e.wn, e.hasSub, e.sub)
       n == Len(nu)
   IN IF Len(e.x) # n \/ Len(e.ex) # n \/ Len(e.y) # n \/ Len(e.lg) # n \/ Len(e.eh) # n \/ Len(e.om) # n
      THEN {"ValidWavenumbers"}
      ELSE
      LET wit == \A i \in 1..n : /\ WitX(e.x[i], Mul(C2, nu[i]), e.T)
                                 /\ WitY(e.y[i], e.ex[i], e.om[i])
                                 /\ Close(Mul(e.eh[i], e.eh[i]), e.ex[i], 7)
          us == [i \in 1..n |-> Uho(e.x[i], e.y[i])]
          ss == [i \in 1..n |-> Sho(e.x[i], e.y[i], e.lg[i])]
          cs == [i \in 1..n |-> Cho(e.x[i], e.y[i])]
          den == ProdSeq(e.om)
          num == ProdSeq(e.eh)
          zpe2 == Mul(KB, Mul(C2, SumSeq(nu)))        \* 2 * ZPE = kB * sum(theta)
      IN Chk(wit, "WITNESS")
         \cup Chk(CloseIn(e.U, SumSeq(us), SetOf(us), 6), "HarmonicTextbookU")
         \cup Chk(CloseIn(e.S, SumSeq(ss), SetOf(ss) \cup SetOf(e.lg) \cup {Tiny}, 6), "HarmonicTextbookS")
         \cup Chk(CloseIn(e.Cv, SumSeq(cs), SetOf(cs) \cup {Tiny}, 6), "HarmonicTextbookCv")
         \* q below ~1e-290 cannot be held by a double (many stiff modes at low T): the property is about the
         \* value, not its representability, so q is judged only where a double can hold it
         \cup Chk(Mag(num) - Mag(den) < -290 \/ Close(Mul(e.q, den), num, 5), "HarmonicTextbookQ")
         \cup Chk(Close(Mul(e.qnz, den), One, 5), "HarmonicTextbookQnoZPE")
         \cup Chk(Close(Mul(I(2), e.ZPE), zpe2, 6), "HarmonicZPE")
         \cup Chk(e.qdef = e.q, "HarmonicQDefaultIncludesZPE")

EinsteinClauses(e) ==
   LET uth == Mul(Three, Uho(e.x, e.y))
   IN Chk(WitX(e.x, e.theta, e.T) /\ WitY(e.y, e.ex, e.om), "WITNESS")
      \cup Chk(CloseIn(Mul(Sub(e.U, uth), Mul(KB, e.T)), e.u, {Mul(e.U, Mul(KB, e.T)), Mul(uth, Mul(KB, e.T)), e.u}, 6),
               "EinsteinTextbookU")
      \cup Chk(CloseIn(e.S, Mul(Three, Sho(e.x, e.y, e.lg)), {Tiny}, 6), "EinsteinTextbookS")
      \cup Chk(CloseIn(e.Cv, Mul(Three, Cho(e.x, e.y)), {Tiny}, 6), "EinsteinTextbookCv")
      \* u0 = u + 3/2 kB theta
      \cup Chk(CloseIn(e.ZPE, Add(e.u, Mul(<<15, -1>>, Mul(KB, e.theta))), {e.u, Mul(KB, e.theta)}, 6), "EinsteinZPE")

\* Debye: D3 = (3/x^3) int_0^x t^3/(e^t - 1) dt is a quadrature witness of the TEXTBOOK integrand
DebyeClauses(e) ==
   LET kt == Mul(KB, e.T)
       uth == Add(Mul(<<1125, -3>>, e.x), Mul(Three, e.D3))          \* 9x/8 + 3 D3
       sth == Sub(Mul(I(4), e.D3), Mul(Three, e.lg))                 \* 4 D3 - 3 ln(1 - e^-x)
       cth == Sub(Mul(I(12), e.D3), Mul(I(9), Mul(e.x, e.y)))        \* 12 D3 - 9x/(e^x - 1)
       shift == Mul(NineQ, e.x)
   IN Chk(WitX(e.x, e.theta, e.T) /\ WitY(e.y, e.ex, e.om), "WITNESS")
      \* known deviation of the library: U/RT and S/R both carry an extra 9x/4
      \cup (IF CloseIn(Mul(Sub(e.U, uth), kt), e.u, {Mul(e.U, kt), Mul(uth, kt), e.u}, 6) THEN {}
            ELSE IF CloseIn(Mul(Sub(e.U, Add(uth, shift)), kt), e.u, {Mul(e.U, kt), Mul(uth, kt), e.u}, 6)
                 THEN {"DebyeTextbookU_KnownShift"} ELSE {"DebyeTextbookU"})
      \cup (IF CloseIn(e.S, sth, {Mul(I(4), e.D3), Mul(Three, e.lg), Tiny}, 6) THEN {}
            ELSE IF CloseIn(e.S, Add(sth, shift), {Mul(I(4), e.D3), Mul(Three, e.lg), shift, Tiny}, 6)
                 THEN {"DebyeTextbookS_KnownShift"} ELSE {"DebyeTextbookS"})
      \cup Chk(CloseIn(e.Cv, cth, {Mul(I(12), e.D3), Mul(I(9), Mul(e.x, e.y)), Tiny}, 6), "DebyeTextbookCv")
      \* u0 = u + 9/8 kB theta
      \cup Chk(CloseIn(e.ZPE, Add(e.u, Mul(<<1125, -3>>, Mul(KB, e.theta))), {e.u, Mul(KB, e.theta)}, 6), "DebyeZPE")

\* quasi-RRHO: w = 1 / (1 + (v0/nu)^4) (witness), ls = 1/2 ln(8 pi^3 mu' kB T / h^2) (sensor)
QrrhoClauses(e) ==
   LET nu == ValidD(e.wn, e.hasSub, e.sub)
       n == Len(nu)
   IN IF Len(e.x) # n \/ Len(e.w) # n \/ Len(e.omw) # n \/ Len(e.ls) # n \/ Len(e.om) # n THEN {"ValidWavenumbers"}
      ELSE
      LET p4(z) == PowD(z, e.alpha)                   \* (v0/nu)^alpha, alpha logged (documented default 4)
          wit == \A i \in 1..n : /\ WitX(e.x[i], Mul(C2, nu[i]), e.T)
                                 /\ WitY(e.y[i], e.ex[i], e.om[i])
                                 /\ CloseIn(Mul(e.w[i], Add(p4(nu[i]), p4(e.v0))), p4(nu[i]), {p4(nu[i]), p4(e.v0)}, 6)
                                 \* omw = 1 - w logged separately (1 - w cancels in 9 digits when nu >> v0)
                                 /\ CloseIn(Mul(e.omw[i], Add(p4(nu[i]), p4(e.v0))), p4(e.v0), {p4(nu[i]), p4(e.v0)}, 6)
          us == [i \in 1..n |-> Add(Mul(e.w[i], Uho(e.x[i], e.y[i])), Mul(Half, e.omw[i]))]
          ss == [i \in 1..n |-> Add(Mul(e.w[i], Sho(e.x[i], e.y[i], e.lg[i])),
                                    Mul(e.omw[i], Add(Half, e.ls[i])))]
          cs == [i \in 1..n |-> Add(Mul(e.w[i], Cho(e.x[i], e.y[i])), Mul(Half, e.omw[i]))]
      IN Chk(wit, "WITNESS")
         \cup Chk(CloseIn(e.U, SumSeq(us), SetOf(us), 6), "QRRHOTextbookU")
         \cup Chk(CloseIn(e.S, SumSeq(ss), SetOf(ss) \cup SetOf(e.ls) \cup SetOf(e.lg) \cup {Tiny}, 6), "QRRHOTextbookS")
         \* absolute floor as for the harmonic Cv: with alpha = 6 and nu >> v0 the library's 1 - w cancels to ~1e-12
         \cup Chk(CloseIn(e.Cv, SumSeq(cs), SetOf(cs) \cup {Tiny}, 6), "QRRHOTextbookCv")
         \* 2 ZPE = kB sum_i w_i theta_i
         \cup Chk(Close(Mul(I(2), e.ZPE), Mul(KB, Mul(C2, Dot(e.w, nu))), 6), "QRRHOZPE")

\* rigid rotor: lq = ln(q_textbook) sensor from the logged arguments
RotorClauses(e) ==
   IF e.geom = "monatomic"
   THEN Chk(IsZero(e.U) /\ IsZero(e.S) /\ IsZero(e.Cv), "RigidRotorTextbook")
   ELSE IF e.geom = "linear"
   THEN Chk(Close(Mul(e.q, Mul(e.sigma, e.thetas[1])), e.T, 6), "RigidRotorTextbookQ")
        \cup Chk(e.U = One \/ Close(e.U, One, 8), "RigidRotorTextbook")
        \cup Chk(Close(e.Cv, One, 8), "RigidRotorTextbook")
        \cup Chk(CloseIn(e.S, Add(e.lq, One), {e.lq, One}, 6), "RigidRotorTextbookS")
   ELSE LET q2 == Mul(Mul(e.q, e.q), Mul(Mul(e.sigma, e.sigma), ProdSeq(e.thetas)))
            t3 == Mul(PI, Mul(e.T, Mul(e.T, e.T)))
        IN Chk(Close(q2, t3, 6), "RigidRotorTextbookQ")
           \cup Chk(Close(e.U, <<15, -1>>, 8) /\ Close(e.Cv, <<15, -1>>, 8), "RigidRotorTextbook")
           \cup Chk(CloseIn(e.S, Add(e.lq, <<15, -1>>), {e.lq, One}, 6), "RigidRotorTextbookS")

\* symmetry numbers given as a documented point-group label (the table of RigidRotor's docstring, held here):
\* e.label, e.st ("ok" | "raise"), e.sigma (the number the object holds), e.q / e.qnum (partition function of
\* the labelled rotor and of its twin built with the number).  An undocumented label (e.label not in the
\* table) is refused.
PointGroups == [C1 |-> 1, Cs |-> 1, C2 |-> 2, C2v |-> 2, C3v |-> 3, Cinfv |-> 1, D2h |-> 4, D3h |-> 6, D5h |-> 10,
                Dinfh |-> 2, D3d |-> 6, Td |-> 12, Oh |-> 24]
PointGroupClauses(e) ==
   IF e.label \in DOMAIN PointGroups
   THEN Chk(e.st = "ok", "PointGroupLabelAccepted")
        \cup (IF e.st = "ok"
              THEN Chk(Close(e.sigma, I(PointGroups[e.label]), 8), "PointGroupSymmetryNumber")
                   \cup Chk(e.q = e.qnum, "PointGroupLabelEqualsNumber")
              ELSE {})
   ELSE Chk(e.st = "raise", "UnknownPointGroupRefused")

\* ideal-gas translation: st = Sackur-Tetrode entropy (sensor from M, T, P, n)
TransClauses(e) ==
   LET n2 == Mul(Half, I(e.n))
   IN Chk(Close(e.U, n2, 8) /\ Close(e.Cv, n2, 8) /\ Close(e.H, Add(n2, One), 8) /\ Close(e.Cp, Add(n2, One), 8),
          "TranslationEquipartition")
      \cup Chk(CloseIn(e.S, e.st, {e.st, One}, 6), "SackurTetrode")

\* electronic ground state: U kB T = E, S = ln(2 spin + 1) (sensor)
ElecClauses(e) ==
   Chk(CloseIn(Mul(e.U, Mul(KB, e.T)), e.E, {e.E}, 6) /\ e.H = e.U, "GroundStateEnergy")
   \cup Chk(CloseIn(e.S, e.lg, {e.lg, One}, 7), "GroundStateDegeneracy")
   \cup Chk(IsZero(e.Cv) /\ IsZero(e.Cp), "GroundStateNoCp")

\* ---- raise_error / raise_warning: one getter of a species (e.g \in Getters, or "ZPE" through get_quantity),
\* e.kinds / e.have (mode kind per slot, the getters a user-written partial mode defines), e.op ("sum" | "prod"),
\* e.direct (direct mode calls, the default where the mode lacks the method), e.dim (dimensional wrapper),
\* e.rows = one record per (raise_error, raise_warning): [re, rw, out, nwarn, vec].  Documented: raise_error
\* raises AttributeError when a mode lacks the quantity; otherwise the mode contributes the default (0, 1 for a
\* product) and a RuntimeWarning is issued iff raise_warning.  Which slot lacks what: StatMechSig.tla.
MissingClauses(e) ==
   LET haves == [k \in 1..5 |-> SetOf(e.have[k])]
       lack == LackSet(e.kinds, haves, e.g)
       dflt == I(DefaultOf(e.op))
       R == e.rows
       exp(r) == Outcome(e.kinds, haves, e.g, r.re)
   IN Chk(\A i \in Idx(R) : exp(R[i]) = "AttributeError" => R[i].out = "AttributeError", "MissingQuantityRaises")
      \cup Chk(\A i \in Idx(R) : exp(R[i]) = "value" => R[i].out = "value", "MissingQuantityDefaulted")
      \cup Chk(\A i \in Idx(R) : exp(R[i]) = "NotImplementedError" => R[i].out = "NotImplementedError",
               "RefusedQuantityRaises")
      \cup Chk(\A i \in Idx(R) : R[i].out = "value" =>
                 /\ Len(R[i].vec) >= 5
                 /\ \A k \in 1..5 : (k <= Len(R[i].vec)) =>
                       IF k \in lack THEN (IF e.dim THEN IsZero(R[i].vec[k]) ELSE Close(R[i].vec[k], dflt, 8))
                       ELSE (e.dim \/ R[i].vec[k] = e.direct[k]), "MissingUsesDefault")
      \cup Chk(\A i \in Idx(R) : R[i].out = "value" =>
                 ((R[i].nwarn > 0) <=> (WarnsExpected(lack, R[i].re, R[i].rw) \/
                                        (~R[i].re /\ R[i].rw /\ e.nmiscLack > 0))), "WarningIffRequested")
      \* the same call without verbose: same outcome, same warnings, the sum (product) of the vector
      \cup Chk(\A i \in Idx(R) :
                 (R[i].out0 = R[i].out)
                 /\ ((R[i].nwarn0 > 0) <=> (R[i].nwarn > 0))
                 /\ ((R[i].out = "value") =>
                        (IF e.op = "prod" THEN Close(R[i].tot, ProdSeq(R[i].vec), 6)
                         ELSE CloseIn(R[i].tot, SumSeq(R[i].vec), SetOf(R[i].vec), 7))),
               "MissingTotalIsSumOfVector")

\* ---- electronic energy of a species, include_ZPE: e.T, e.unit, e.elecKind / e.elecHave / e.vibKind,
\* e.elecU (direct U/RT of the electronic mode), e.zpe (direct zero-point energy of the vibrational mode, eV;
\* its textbook value is judged on the mode events), e.rows = one record per (include_ZPE, raise_error,
\* raise_warning): [izpe ("default" | "on" | "off"), re, rw, out, nwarn, val, outd, nwarnd, vald]
EnergyClauses(e) ==
   LET lackE == Lacks(e.elecKind, SetOf(e.elecHave), "U")
       lackZ(r) == r.izpe = "on" /\ ~HasZPE(e.vibKind)
       expOut(r) == IF r.re /\ (lackE \/ lackZ(r)) THEN "AttributeError" ELSE "value"
       kT == Mul(KB, e.T)
       base == IF lackE THEN Zero ELSE e.elecU
       R == e.rows
       twin(r) == CHOOSE x \in SetOf(R) : x.izpe = "off" /\ x.re = r.re /\ x.rw = r.rw
   IN Chk(\A i \in Idx(R) : R[i].out = expOut(R[i]) /\ R[i].outd = expOut(R[i]), "EnergyOutcome")
      \cup Chk(\A i \in Idx(R) : R[i].out = "value" =>
                 /\ ((R[i].nwarn > 0) <=> (~R[i].re /\ R[i].rw /\ (lackE \/ lackZ(R[i]))))
                 /\ ((R[i].nwarnd > 0) <=> (R[i].nwarn > 0)), "EnergyWarningIffRequested")
      \* E = electronic U (+ ZPE / kB T when requested and the vibrational mode has one)
      \cup Chk(\A i \in Idx(R) : R[i].out = "value" =>
                 IF R[i].izpe = "on" /\ HasZPE(e.vibKind)
                 THEN CloseIn(Mul(Sub(R[i].val, base), kT), e.zpe, {Mul(R[i].val, kT), Mul(base, kT), e.zpe}, 6)
                 ELSE R[i].val = base, "EnergyIncludesZPE")
      \cup Chk(\A i \in Idx(R) : (R[i].out = "value" /\ R[i].outd = "value") =>
                 Close(R[i].vald, Mul(R[i].val, Mul(e.T, RTable[e.unit])), 6), "EnergyDimensional")
      \cup Chk(\A i \in Idx(R) : R[i].izpe = "default" =>
                 /\ R[i].out = twin(R[i]).out /\ R[i].val = twin(R[i]).val /\ R[i].vald = twin(R[i]).vald,
               "IncludeZPEDefaultOff")

\* ---- the same state with T and P given as Python int / numpy scalars (e.alts) instead of Python floats (e.v)
ArgTypeClauses(e) ==
   LET ok(a) == a.finite /\ \A j \in Idx(e.v) : Close(a.v[j], e.v[j], 8)
       bad == {i \in Idx(e.alts) : ~ok(e.alts[i])}
       \* known deviation, named exactly (proposed fix C01_rotor_int32_temperature): RigidRotor forms T**3 in the
       \* type of T, which wraps for a numpy int32 temperature from 1291 K on; S (hence F, G) of a nonlinear rotor
       \* is then wrong or not a number while Cv, Cp, U, H are untouched
       int32wrap(a) == /\ a.t = "np.int32" /\ e.rotNonlinear /\ ~Lt(e.T, I(1291))
                       /\ \A j \in 1..4 : Close(a.v[j], e.v[j], 8)
   IN IF bad = {} THEN {}
      ELSE IF \A i \in bad : int32wrap(e.alts[i]) THEN {"ArgumentTypeInvariant_KnownInt32RotorOverflow"}
      ELSE {"ArgumentTypeInvariant"}

\* ---- a species built through the constructor's keyword routing (classes + flat keywords, presets) and from
\* mode objects: the verbose vectors (e.rows[i].a / .b) of every getter are the same numbers
RoutedClauses(e) ==
   Chk(\A i \in Idx(e.rows) : e.rows[i].a = e.rows[i].b, "RoutedEqualsInstances")

\* ---- linear scaling relation used as the electronic model (LSR: one reference term; ExtendedLSR: several):
\*    U R T = sum_t (slope_t dE_ref,t + E_surf,t + E_gas,t) + intercept      (kcal/mol)
\* t.sub = what the reference reaction, the surface and the gas object held by the relation report.  A
\* component given as an object is tied to the logged ground-state energies (eV): E_kcal kB = E_eV R_kcal.
\* A component given as a float (kcal/mol, t.fR / t.fS / t.fG) goes through the library's unit tables
\* (kcal/mol -> eV/molecule -> R), whose tabulated roundings (C12) differ by 8e-5: only the composition is judged
\* for those, plus "a zero stays zero".
LsrClauses(e) ==
   LET kT == Mul(RKcal, e.T)
       T_ == e.terms
       contrib == [i \in Idx(T_) |-> Add(Mul(T_[i].slope, T_[i].sub[1]), Add(T_[i].sub[2], T_[i].sub[3]))]
       scl == UNION {{Mul(T_[i].slope, T_[i].sub[1]), T_[i].sub[2], T_[i].sub[3]} : i \in Idx(T_)} \cup {e.intercept}
       comp == Add(SumSeq(contrib), e.intercept)
       refOK(t) ==
          LET pr == [i \in Idx(t.eP) |-> Mul(t.nP[i], t.eP[i])]
              rr == [i \in Idx(t.eR) |-> Mul(t.nR[i], t.eR[i])]
              dE == Sub(SumSeq(pr), SumSeq(rr))
              s1 == {Mul(x, RKcal) : x \in SetOf(pr) \cup SetOf(rr)}
          IN /\ t.rxnObj => CloseIn(Mul(t.sub[1], KB), Mul(dE, RKcal), s1, 6)
             /\ t.surfObj => Close(Mul(t.sub[2], KB), Mul(t.eS, RKcal), 6)
             /\ t.gasObj => Close(Mul(t.sub[3], KB), Mul(t.eG, RKcal), 6)
             /\ (~t.rxnObj /\ IsZero(t.fR)) => IsZero(t.sub[1])
             /\ (~t.surfObj /\ IsZero(t.fS)) => IsZero(t.sub[2])
             /\ (~t.gasObj /\ IsZero(t.fG)) => IsZero(t.sub[3])
   IN Chk(Len(T_) = e.nterms /\ CloseIn(Mul(e.U, kT), comp, scl, 6), "LSRLinearScaling")
      \cup Chk(IsZero(e.S) /\ IsZero(e.Cv) /\ IsZero(e.Cp) /\ e.H = e.U /\ e.F = e.U /\ e.G = e.U, "LSRNoEntropy")
      \cup Chk(\A i \in Idx(T_) : refOK(T_[i]), "LSRReferenceEnergies")

\* geometry: derived parameters before (a) and after (b) a rigid motion / permutation
GeomClauses(e) ==
   Chk(e.a.geom = e.b.geom, "GeometryInvariant")
   \cup Chk(e.a.comp = e.b.comp, "CompositionInvariant")
   \cup Chk(Close(e.a.mass, e.b.mass, 7), "MassInvariant")
   \cup Chk(Len(e.a.thetas) = Len(e.b.thetas)
            /\ \A i \in Idx(e.a.thetas) : (i <= Len(e.b.thetas)) => Close(e.a.thetas[i], e.b.thetas[i], 6),
            "RotTemperaturesInvariant")

Clauses(e) ==
   CASE e.ev = "thermo" -> ThermoClauses(e)
     [] e.ev = "verbose" -> VerboseClauses(e)
     [] e.ev = "verbose_sel" -> SelClauses(e)
     [] e.ev = "opt" -> OptClauses(e)
     [] e.ev = "harmonic" -> HarmonicClauses(e)
     [] e.ev = "einstein" -> EinsteinClauses(e)
     [] e.ev = "debye" -> DebyeClauses(e)
     [] e.ev = "qrrho" -> QrrhoClauses(e)
     [] e.ev = "rotor" -> RotorClauses(e)
     [] e.ev = "pointgroup" -> PointGroupClauses(e)
     [] e.ev = "trans" -> TransClauses(e)
     [] e.ev = "elec" -> ElecClauses(e)
     [] e.ev = "geometry" -> GeomClauses(e)
     [] e.ev = "missing" -> MissingClauses(e)
     [] e.ev = "energy" -> EnergyClauses(e)
     [] e.ev = "argtype" -> ArgTypeClauses(e)
     [] e.ev = "routed" -> RoutedClauses(e)
     [] e.ev = "lsr" -> LsrClauses(e)
     [] OTHER -> {"UnknownEvent"}

Init == l = 1 /\ TLCSet(1, {})
Next == /\ l <= Len(TraceLog)
        /\ LET e == TraceLog[l]  bad == Clauses(e) IN
             IF bad # {} THEN TLCSet(1, TLCGet(1) \cup {<<e.tid, l, c>> : c \in bad}) ELSE TRUE
        /\ l' = l + 1
Spec == Init /\ [][Next]_l
Post == /\ PrintT(<<"FAILS", TLCGet(1)>>)
        /\ PrintT(<<"CONSUMED", TLCGet("stats").diameter - 1>>)
=============================================================================
