\* variant "hoistflag": vib_set_by_outcar is initialised once, before the row loop - EXPECTED TO BE REJECTED (CarriedEmpty / RowOrder)
SPECIFICATION Spec
CONSTANTS
  Groups <- MCGroups
  GroupSheets <- MCGroupSheets
  Variant = "hoistflag"
  SetName = "small"
INVARIANT KeysFunctional
INVARIANT OneRecordPerRow
INVARIANT RowOrder
INVARIANT Refines
INVARIANT CarriedEmpty
INVARIANT NoLeak
INVARIANT NoEmptyCells
INVARIANT NoRaise
INVARIANT DispatchDisjoint
INVARIANT ChainAgrees
INVARIANT InQuantifier
CHECK_DEADLOCK FALSE
