\* C20 case emission (constant level); the behaviour spec is a dummy
INIT NoInit
NEXT NoNext
CONSTANTS
  RootVals <- MCCaseRoots
  ReVals <- MCCaseRe
  ImVals <- MCCaseIm
  Pressures <- MCPressures
  Amounts <- MCAmounts
  IdealRTs <- MCIdealRTs
  Memo = "none"
  Variant = "isreal"
CHECK_DEADLOCK FALSE
