--------------------------- MODULE Trace_Thermdat ---------------------------
(***************************************************************************)
(* C05 - trace validation of recorded write_thermdat / read_thermdat runs. *)
(*                                                                         *)
(* One trace = one file.  NDJSON events, in this order:                    *)
(*   write : L = the species list the real writer was given (supplementary *)
(*           entries first), projected independently of the writer's       *)
(*           format string (coefficients as <<sign, 9-digit mantissa,      *)
(*           exponent>> by exact decimal rounding, temperatures as Dec);   *)
(*           raised = "" or the exception the real writer raised;          *)
(*   line  : c = character codes of one line of the REAL file text;        *)
(*   eof   : end of the text;                                              *)
(*   read  : what the REAL read_thermdat returned for one output format    *)
(*           (fmt, kind = container type, keys for dict, sp = projected    *)
(*           species) or raised = the exception it raised.                 *)
(*                                                                         *)
(* `st` carries the SPECIFICATION's reader automaton (ThermdatFormat!Step, *)
(* required variant) through the line events, the line number b of the     *)
(* write event and the number k of species the spec reader has completed.  *)
(* Each completed species is compared at once with L[k].                   *)
(*                                                                         *)
(* Clauses (names of the clauses that FAIL on a line are accumulated in    *)
(* TLC register 1; verdicts are total):                                    *)
(*  layout, every line : Classified, Col80, RecordOrder, NameCols,         *)
(*     CompositionCols, PhaseCol, TempCols, FieldWidth15                   *)
(*  spec reader = L    : WrittenName, WrittenElements, WrittenPhase,       *)
(*     WrittenTemps (0.1 K), WrittenCoefs (9 digits), WrittenExtra,        *)
(*     WrittenAll (at eof: every species of L came out, none pending)      *)
(*  real reader = L    : ReaderRaises, ReadContainer, ReadKeys,            *)
(*     SameNamesInOrder (nothing dropped, duplicated, merged, reordered),  *)
(*     ReadElements, ReadPhase, ReadTemps (0.1 K), ReadCoefs (9 digits)    *)
(*  WriterRaises                                                           *)
(***************************************************************************)
EXTENDS ThermdatFormat, Dec, TLC, TLCExt, Json, IOUtils

TraceLog == ndJsonDeserialize(IOEnv.TRACE_FILE)
VARIABLES l, st

Given(b) == TraceLog[b].L
Tenth == <<1, -1>>
\* |a - b| <= 0.1 K  (a, b are <<m, e>> decimals; a[1] < 0 marks an unparsable field)
TClose(a, b) == a[1] >= 0 /\ b[1] >= 0 /\ Le(DAbs(Sub(a, b)), Tenth)
TempsClose(ts, us) == Len(ts) = 3 /\ Len(us) = 3 /\ \A k \in 1..3 : TClose(ts[k], us[k])
SomeClause(ok, name) == IF ok THEN {} ELSE {name}

\* ---- layout clauses of one record line.  Col80: a line that ends in a lone digit 1-4
\* like a record but does not carry it in column 80.
LooksLikeRecord(line) == LET t == Tokens(line) IN
   Len(t) > 1 /\ Len(t[Len(t)]) = 1 /\ t[Len(t)][1] >= 49 /\ t[Len(t)][1] <= 52
RecordClauses(line, n) ==
   (IF n = 1
         THEN SomeClause(Len(NameOf(line)) \in 1..15, "NameCols")
              \cup SomeClause(CompositionOK(line), "CompositionCols")
              \cup SomeClause(line[45] # SP, "PhaseCol")
              \cup SomeClause(TempsOK(line), "TempCols")
         ELSE SomeClause(FieldsOK(line, NFields(n)), "FieldWidth15"))

\* ---- a species completed by the spec reader against the list given to the writer
WrittenClauses(sp, k, L) ==
   IF k > Len(L) THEN {"WrittenExtra"}
   ELSE LET g == L[k] IN
        SomeClause(sp.name = g.name, "WrittenName")
        \cup SomeClause(SameElems(sp.elems, g.elems), "WrittenElements")
        \cup SomeClause(sp.phase = g.phase, "WrittenPhase")
        \cup SomeClause(TempsClose(sp.T, g.T), "WrittenTemps")
        \cup SomeClause(sp.ah = g.ah /\ sp.al = g.al, "WrittenCoefs")

LineClauses(e) ==
   LET line == e.c
       cls == LayoutClass(line)
       r == Step(VLayout, st.rs, line)
   IN (IF cls = "other" THEN (IF LooksLikeRecord(line) THEN {"Col80"} ELSE {"Classified"}) ELSE {})
      \cup (IF cls = "record"
            THEN RecordClauses(line, RecordNo(line))
                 \cup SomeClause(RecordNo(line) = st.rs.ph + 1, "RecordOrder")
                 \cup (IF Len(r.emit) = 1 THEN WrittenClauses(r.emit[1], st.k + 1, Given(st.b)) ELSE {})
            ELSE {})

EofClauses(e) == SomeClause(st.k = Len(Given(st.b)) /\ st.rs.ph = 0, "WrittenAll")

\* ---- the real reader's result
NamesOf(sps) == [k \in 1..Len(sps) |-> sps[k].name]
MinLen(a, b) == IF Len(a) < Len(b) THEN Len(a) ELSE Len(b)
ReadClauses(e) ==
   LET L == Given(st.b) IN
   IF e.raised # "" THEN {"ReaderRaises"}
   ELSE SomeClause(e.kind = e.fmt, "ReadContainer")
        \cup SomeClause(e.fmt # "dict" \/ e.keys = NamesOf(e.sp), "ReadKeys")
        \cup SomeClause(NamesOf(e.sp) = NamesOf(L), "SameNamesInOrder")
        \cup UNION {
               SomeClause(SameElems(e.sp[k].elems, L[k].elems), "ReadElements")
               \cup SomeClause(e.sp[k].phase = L[k].phase, "ReadPhase")
               \cup SomeClause(TempsClose(e.sp[k].T, L[k].T), "ReadTemps")
               \cup SomeClause(e.sp[k].ah = L[k].ah /\ e.sp[k].al = L[k].al, "ReadCoefs")
               : k \in 1..MinLen(e.sp, L) }

Clauses(e) ==
   CASE e.ev = "write" -> SomeClause(e.raised = "", "WriterRaises")
     [] e.ev = "line" -> LineClauses(e)
     [] e.ev = "eof" -> EofClauses(e)
     [] e.ev = "read" -> ReadClauses(e)
     [] OTHER -> {"UnknownEvent"}

Step1(e) ==
   CASE e.ev = "write" -> [b |-> l, k |-> 0, rs |-> RS0]
     [] e.ev = "line" -> LET r == Step(VLayout, st.rs, e.c)
                         IN [b |-> st.b, k |-> st.k + Len(r.emit), rs |-> [r EXCEPT !.err = "", !.emit = <<>>]]
     [] OTHER -> st

Init == l = 1 /\ st = [b |-> 0, k |-> 0, rs |-> RS0] /\ TLCSet(1, {})
Next == /\ l <= Len(TraceLog)
        /\ LET e == TraceLog[l]  bad == Clauses(e) IN
             /\ IF bad # {} THEN TLCSet(1, TLCGet(1) \cup {<<e.tid, l, c>> : c \in bad}) ELSE TRUE
             /\ st' = Step1(e)
        /\ l' = l + 1
Spec == Init /\ [][Next]_<<l, st>>
Post == /\ PrintT(<<"FAILS", TLCGet(1)>>)
        /\ PrintT(<<"CONSUMED", TLCGet("stats").diameter - 1>>)
=============================================================================
