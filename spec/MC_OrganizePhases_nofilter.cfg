\* EXPECTED TO BE REJECTED: without _filter_reactions an adsorption is listed by the gas phase and by the interface
SPECIFICATION Spec
CONSTANTS
  MaxPhases = 2
  SpCounts <- Sp2
  MaxRx = 1
  MaxIa = 0
  MaxCalls = 3
  Variant = "nofilter"
  Scope = "narrow"
INVARIANT ReactionOnce
VIEW View
CHECK_DEADLOCK FALSE
