\* EXPECTED TO BE REJECTED: without _filter_reactions an adsorption is listed by the gas phase and by the interface
SPECIFICATION Spec
CONSTANTS
  MaxPhases = 3
  SpCounts <- Sp3
  MaxRx = 2
  MaxIa = 1
  MaxCalls = 3
  Variant = "nofilter"
  Scope = "narrow"
INVARIANT ReactionOnce
VIEW View
CHECK_DEADLOCK FALSE
