\* X08 design model, required rules: every species shape, every pair of consecutive constructions, dict round trips
SPECIFICATION Spec
CONSTANTS
  ModeIds <- MCModeIds
  MaxModes = 1
  MaxA = 1
  MaxB = 1
  MaxC = 1
  MaxOps = 3
  Walk = FALSE
  QRotRule = "product"
  DictRule = "complete"
INVARIANT TypeOK
INVARIANT QRotDimensionless
INVARIANT QRotLaw
INVARIANT SurfaceHasNoRotation
INVARIANT DefinedQuantities
INVARIANT DictComplete
INVARIANT NeverError
PROPERTY ToDictReturnsDict
PROPERTY RoundTrip
PROPERTY MomentLaw
PROPERTY SigmaLaw
PROPERTY AreaLaw
PROPERTY VibOnlyLaw
VIEW View
CHECK_DEADLOCK FALSE
