--------------------------- MODULE MC_ReactorYaml ---------------------------
(* (D) the option x form x units space as a (trivially shaped) state machine: one state per   *)
(* single-option assignment; the invariant says the algorithm variant writes the option.      *)
(* (S->C) Cases: the assignments the driver replays into write_yaml, with the expected paths. *)
EXTENDS ReactorYaml, Json, IOUtils
CONSTANT Variant, Emitting
VARIABLE c
Init == c \in SinglesOK
Next == UNCHANGED c
Spec == Init /\ [][Next]_c
TheOpt == CHOOSE k \in OptIdx : c.assign[k] # "omitted"
Refines == Outcome(Variant, TheOpt, c.assign[TheOpt], c.units) = "ok"
\* sanity of the table itself
PathsDistinct == \A i, j \in OptIdx : i # j => Options[i].path # Options[j].path
ExpectedNonEmpty == c.assign[TheOpt] = "ph_empty" \/ Expected(c) # {}
ExpectedAtPath == \A x \in Expected(c) :
                    SubSeq(x.path, 1, Len(Options[TheOpt].path)) = Options[TheOpt].path
\* self-consistency of the reader: the text Python prints for a value parses back to it
RoundTrip == /\ NumVal(<<49, 46, 53>>) = <<15, -1>> /\ NumWF(<<49, 46, 53>>)
             /\ NumVal(<<49, 101, 45, 54>>) = <<1, -6>> /\ NumWF(<<49, 101, 45, 54>>)
             /\ NumVal(<<45, 52, 55>>) = <<-47, 0>>
             /\ ~NumWF(<<49, 46, 53, 32>>) /\ ~NumWF(<<>>)
             /\ SplitOK(<<50, 32, 98, 97, 114>>) /\ UnitPart(<<50, 32, 98, 97, 114>>) = C_bar
             /\ ~SplitOK(<<50, 98, 97, 114>>)
Cases == SinglesOK \cup PairsOK \cup AllSupplied \cup Generic \cup Empty
ASSUME Emitting => JsonSerialize(IOEnv.OUT_FILE, [k \in 1..1 |-> {Emit(x) : x \in Cases}])
=============================================================================
