INIT DInit
NEXT DNext
CHECK_DEADLOCK FALSE
