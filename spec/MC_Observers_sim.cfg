\* X09: random long behaviours (tlc -simulate) of the required machine
SPECIFICATION Spec
CONSTANTS
  NF = 3
  Vals = {1, 2}
  Methods = {1, 2}
  Refs <- RefSet
  Args <- ArgsBig
  InitStores <- StoresBig
  Keyed <- AllFields
  Impl = "pure"
  MaxOps = 9
INVARIANT EmitBehaviours
CHECK_DEADLOCK FALSE
