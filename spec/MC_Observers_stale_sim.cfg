\* X09: random long behaviours (tlc -simulate) of the stale-cache shape
SPECIFICATION Spec
CONSTANTS
  NF = 3
  Vals = {1, 2}
  Methods = {1, 2}
  Refs <- RefSet
  Args <- ArgsBig
  InitStores <- StoresBig
  Keyed <- OnlyFirst
  Impl = "cache"
  MaxOps = 9
INVARIANT EmitBehaviours
CHECK_DEADLOCK FALSE
