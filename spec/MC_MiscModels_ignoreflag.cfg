\* pinned trait: add_gas_P_adj is never read - EXPECTED TO BE REJECTED
SPECIFICATION Spec
CONSTANTS
  Phases <- MCPhases
  SibPhases <- MCSibPhases
  Givens <- MCGivens
  AttachKinds <- MCAttach
  MaxObjs = 3
  MaxSteps = 4
  Alias = FALSE
  IgnoreFlag = TRUE
  DictReload = FALSE
  LoseFlag = FALSE
INVARIANT TypeOK
INVARIANT PAdjCount
INVARIANT UserModelsKept
INVARIANT AllDecoded
PROPERTY OthersUntouched
VIEW View
CHECK_DEADLOCK FALSE
