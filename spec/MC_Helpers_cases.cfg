INIT Init
NEXT Next
CONSTANT Big = FALSE
CHECK_DEADLOCK FALSE
