\* every behaviour of a small instance, printed for replay into the real object
SPECIFICATION Spec
CONSTANTS
  Grid = {0, 1, 2, 4}
  Slopes <- SlopeSmall
  MaxLen = 5
  MaxOps = 3
  Variant = "bisect"
  Sharing = "copy"
  InitSets <- MCInitSmall
INVARIANT EmitBehaviours
CHECK_DEADLOCK FALSE
