--------------------------- MODULE ThermdatSetSeq ---------------------------
(* SetToSeq of the CommunityModules without exporting SequencesExt (whose   *)
(* Contains would clash with Text!Contains).                                *)
LOCAL INSTANCE SequencesExt
SetAsSeq(S) == SetToSeq(S)
=============================================================================
