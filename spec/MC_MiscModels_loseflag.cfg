\* trait of a to_dict that does not record add_gas_P_adj - EXPECTED TO BE REJECTED
SPECIFICATION Spec
CONSTANTS
  Phases <- MCPhases
  SibPhases <- MCSibPhases
  Givens <- MCGivens
  AttachKinds <- MCAttach
  MaxObjs = 3
  MaxSteps = 4
  Alias = FALSE
  IgnoreFlag = FALSE
  DictReload = FALSE
  LoseFlag = TRUE
INVARIANT TypeOK
INVARIANT PAdjCount
INVARIANT UserModelsKept
INVARIANT AllDecoded
PROPERTY OthersUntouched
VIEW View
CHECK_DEADLOCK FALSE
