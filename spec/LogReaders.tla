----------------------------- MODULE LogReaders -----------------------------
(***************************************************************************)
(* X06 - design model: the line-oriented readers of pmutt.io.vasp and      *)
(* pmutt.io.gaussian as automata that consume a text file line by line     *)
(* (LogFormat.tla holds the classifiers, the number syntax and the folds). *)
(*                                                                         *)
(* State: the file read so far (`file`, a sequence of indices into the     *)
(* alphabet `Lines` of adversarial line texts: frequency lines, imaginary  *)
(* modes, values at / below / above the cutoffs, look-alike lines,         *)
(* blanks, table rows, repeated blocks arise from repetition) and, for     *)
(* every reader, two accumulators: `req` driven by the REQUIRED line       *)
(* classification (layout of the line) and `imp` driven by the             *)
(* implementation-shaped one (the regular expressions of the source),      *)
(* under the variant named by the constant Variant.                        *)
(* One action: ReadLine(k) - the environment supplies the next line, every *)
(* reader takes its step.  Every state is a complete file (the readers     *)
(* have no end-of-file action), so every invariant is stated for every     *)
(* file of at most MaxLen lines over Kinds.                                *)
(*                                                                         *)
(* Required (invariants):                                                  *)
(*  Refines        the implementation-shaped automaton is in the same      *)
(*                 state as the required one after every line;             *)
(*  VibRequired    for every cutoff and both values of include_imaginary,  *)
(*                 what the implementation-shaped selection returns is the *)
(*                 DECLARED result: the values of the real frequency lines *)
(*                 above the cutoff and the negated values of the          *)
(*                 imaginary lines when asked for, in file order;          *)
(*  ScalarRequired zpe / sum / mass / sym = the value on the first line of *)
(*                 the reader, <<>> when there is none;                    *)
(*  ListRequired   freq / rott = the numbers of all lines of the reader in *)
(*                 file order;                                             *)
(*  PatternRequired read_pattern for both groups, immediate and complete;  *)
(*  NoiseIndependent every result equals the result on the file with the   *)
(*                 unrelated lines (look-alikes, blanks, other readers'    *)
(*                 lines) removed;                                         *)
(*  FoldAgrees     the functional folds of LogFormat.tla (used by the case *)
(*                 generator and the trace spec) equal the action form;    *)
(*  InQuantifier   every line of the alphabet is inside the quantifier;    *)
(* and the action property Monotone: list results only grow at the end,    *)
(* a scalar result never changes once it is set.                           *)
(***************************************************************************)
EXTENDS LogFormat, TLC

CONSTANTS Lines,      \* the alphabet: sequence of line texts
          Kinds,      \* subset of 1..Len(Lines) used by this configuration
          MaxLen,     \* longest file
          Cuts,       \* sequence of cutoffs <<m, e>>
          Pat,        \* the read_pattern pattern [key, mode]
          Variant     \* "impl" | "group0" | "firstnum" | "ge" | "imagcut" | "last"

VARIABLES file, req, imp
vars == <<file, req, imp>>

\* per-line information, evaluated once per alphabet entry
AllKinds == 1..Len(Lines)
OReq == [k \in AllKinds |-> ReqOutcar(Lines[k])]
OImp == [k \in AllKinds |-> ImplOutcar(Variant, Lines[k])]
GReq == [k \in AllKinds |-> [r \in Readers |-> ReqG(r, Lines[k])]]
GImp == [k \in AllKinds |-> [r \in Readers |-> ImplG(r, Lines[k])]]
PGrp == [k \in AllKinds |-> PatGroups(Pat, Lines[k])]
InQ == [k \in AllKinds |-> PrintableLine(Lines[k]) /\ OutcarInQ(Lines[k]) /\ GaussInQ(Lines[k])]

Acc0 == [o |-> <<>>, g |-> [r \in Readers |-> <<>>], p |-> Pat0]
OStep(acc, c) == IF c.kind = "other" THEN acc ELSE Append(acc, <<c.kind, c.v>>)
GStepOf(var, r, acc, c) ==
   IF ~c.hit THEN acc
   ELSE IF r \in ScalarReaders THEN (IF acc = <<>> \/ var = "last" THEN <<c.vals[1]>> ELSE acc)
   ELSE acc \o c.vals
PStep(acc, g) == IF g = <<>> THEN acc
                 ELSE [first |-> IF acc.first = <<>> THEN <<g>> ELSE acc.first, all |-> Append(acc.all, g)]

Init == file = <<>> /\ req = Acc0 /\ imp = Acc0
ReadLine(k) ==
   /\ Len(file) < MaxLen
   /\ file' = Append(file, k)
   /\ req' = [o |-> OStep(req.o, OReq[k]),
              g |-> [r \in Readers |-> GStepOf("required", r, req.g[r], GReq[k][r])],
              p |-> PStep(req.p, PGrp[k])]
   /\ imp' = [o |-> OStep(imp.o, OImp[k]),
              g |-> [r \in Readers |-> GStepOf(Variant, r, imp.g[r], GImp[k][r])],
              p |-> PStep(imp.p, PGrp[k])]
Next == \E k \in Kinds : ReadLine(k)
Spec == Init /\ [][Next]_vars

\* ---------------------------------------------------------------- results
Imags == {FALSE, TRUE}
VibResult(var, acc, c, im) == SelectVib(var, acc, Cuts[c], im)
ImplVib == [c \in 1..Len(Cuts) |-> [im \in Imags |-> VibResult(Variant, imp.o, c, im)]]
ImplFirst == [g \in 0..(NGroups(Pat) - 1) |-> PatFirst(imp.p, g)]
ImplAll == [g \in 0..(NGroups(Pat) - 1) |-> PatAll(Variant, imp.p, g)]

\* ---- the declared results, written over the whole file without an automaton
Idx(f, Test(_)) == SelectSeq([j \in 1..Len(f) |-> j], Test)
DeclVib(f, cut, im) ==
   LET keep(j) == \/ OReq[f[j]].kind = "real" /\ Lt(cut, DecOf(OReq[f[j]].v))
                  \/ OReq[f[j]].kind = "imag" /\ im
       ix == Idx(f, keep)
   IN [n \in 1..Len(ix) |-> IF OReq[f[ix[n]]].kind = "imag" THEN NegNum(OReq[f[ix[n]]].v)
                            ELSE OReq[f[ix[n]]].v]
DeclScalar(f, r) ==
   LET hits == {j \in 1..Len(f) : GReq[f[j]][r].hit} IN
   IF hits = {} THEN <<>>
   ELSE <<GReq[f[CHOOSE j \in hits : \A h \in hits : j <= h]][r].vals[1]>>
DeclList(f, r) ==
   LET hit(j) == GReq[f[j]][r].hit
       ix == Idx(f, hit)
   IN Flat([n \in 1..Len(ix) |-> GReq[f[ix[n]]][r].vals])
DeclFirst(f, g) ==
   LET hits == {j \in 1..Len(f) : PGrp[f[j]] # <<>>} IN
   IF hits = {} THEN [found |-> FALSE, text |-> <<>>]
   ELSE [found |-> TRUE, text |-> PGrp[f[CHOOSE j \in hits : \A h \in hits : j <= h]][g + 1]]
DeclAll(f, g) ==
   LET hit(j) == PGrp[f[j]] # <<>>
       ix == Idx(f, hit)
   IN Flat([n \in 1..Len(ix) |-> Tokens(PGrp[f[ix[n]]][g + 1])])
DeclVibs(f) == [c \in 1..Len(Cuts) |-> [im \in Imags |-> DeclVib(f, Cuts[c], im)]]
DeclFirsts(f) == [g \in 0..(NGroups(Pat) - 1) |-> DeclFirst(f, g)]
DeclAlls(f) == [g \in 0..(NGroups(Pat) - 1) |-> DeclAll(f, g)]
DeclG(f, r) == IF r \in ScalarReaders THEN DeclScalar(f, r) ELSE DeclList(f, r)
Declared(f) == [vib |-> DeclVibs(f), g |-> [r \in Readers |-> DeclG(f, r)],
                first |-> DeclFirsts(f), all |-> DeclAlls(f)]

\* -------------------------------------------------------------- invariants
InQuantifier == \A k \in Kinds : InQ[k]
Refines == imp = req
VibRequired == ImplVib = DeclVibs(file)
ScalarRequired == \A r \in ScalarReaders : imp.g[r] = DeclScalar(file, r)
ListRequired == \A r \in Readers \ ScalarReaders : imp.g[r] = DeclList(file, r)
PatternRequired == ImplFirst = DeclFirsts(file) /\ ImplAll = DeclAlls(file)
Relevant(k) == OReq[k].kind # "other" \/ (\E r \in Readers : GReq[k][r].hit) \/ PGrp[k] # <<>>
NoiseIndependent == \/ \A j \in 1..Len(file) : Relevant(file[j])
                    \/ Declared(file) = Declared(SelectSeq(file, Relevant))
TextOf(f) == [j \in 1..Len(f) |-> Lines[f[j]]]
FoldAgrees == /\ OutcarFold("required", TextOf(file)) = req.o
              /\ \A r \in Readers : GFold("required", r, TextOf(file)) = req.g[r]
              /\ PatFold(Pat, TextOf(file)) = req.p

IsPrefix(a, b) == Len(a) <= Len(b) /\ SubSeq(b, 1, Len(a)) = a
Monotone == [][/\ IsPrefix(imp.o, imp.o')
               /\ \A r \in Readers \ ScalarReaders : IsPrefix(imp.g[r], imp.g'[r])
               /\ \A r \in ScalarReaders : imp.g[r] # <<>> => imp.g'[r] = imp.g[r]
               /\ IsPrefix(imp.p.all, imp.p'.all)
               /\ (imp.p.first # <<>> => imp.p'.first = imp.p.first)]_vars
=============================================================================
