----------------------------- MODULE MC_Extrema -----------------------------
(* (D) exhaustive design model of C19: every integer table with entries 0..2,   *)
(* <= 3 reactions x <= 3 grid points (1-D and 1-D-vs-singleton-2-D), <= 2 x 2 x *)
(* 2 (2-D), every state-energy list of <= 6 states over 0..3 (span), every      *)
(* sequence of <= 2 (big: 3) steps with INDEPENDENT reactant / TS / product     *)
(* energies over 0..2 (span over all states of all steps).                      *)
EXTENDS Extrema, TLC
MCVals == 0..2
MCSVals == 0..3
TsPatterns == UNION {[1..s -> BOOLEAN] : s \in 1..2}
ASSUME BothBranches
ASSUME SpanOfOne
ASSUME WalkInvariant(TsPatterns)
MCStepVals == 0..2
ASSUME ContiguousSkipHarmless
ASSUME SkipWrongSomewhere
=============================================================================
