\* implementation-shaped variant of the pinned code: the documented "maximum number of states"
\* is handed to networkx as its bound on the number of edges.  EXPECTED TO BE REJECTED by CutoffStates.
SPECIFICATION Spec
CONSTANTS
  Networks <- MCNetsTiny
  Cutoffs <- MCCutoffs
  EVals <- MCZero
  EndAtTS = FALSE
  MaxTargets = 2
  Variant = "edgecutoff"
  Order = "asc"
INVARIANT GraphIsNetwork
INVARIANT CurSimple
INVARIANT FoundSound
INVARIANT CutoffStates
INVARIANT FoundExact
INVARIANT SpanDefinition
INVARIANT MinSpan
CHECK_DEADLOCK TRUE
