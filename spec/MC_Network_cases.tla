-------------------------- MODULE MC_Network_cases --------------------------
(* X02 (S->C): the finite case sets replayed into the real Network objects.      *)
(* Every case carries what TLC computed from NetworkDefs.tla.                    *)
(*  path : one record per (network, include_TS): the reactions <<r, p, t>>, the  *)
(*         required graph (nodes, edges, ts) and, for every source and every     *)
(*         target (cutoff none / 2 / 3 / 4) or pair of targets (cutoff none / 3) *)
(*         with at least one pathway, the required pathways (cutoff 0 = none).   *)
(*  span : (network, include_TS, energies, source, targets, cutoff) with, per    *)
(*         required pathway, its acceptable spans, and the acceptable minimum    *)
(*         spans; only queries with at least two pathways.  Energies: three      *)
(*         fixed patterns over 0..3 for every network;                           *)
(*         every assignment over 0..2 for the diamond 1-2-4 / 1-3-4 and for the  *)
(*         two-route network 1 = 2 (direct) / 1 = [TS] = 2 / 2 = 3.              *)
EXTENDS MC_Network, Json, IOUtils

CaseNets == Nets(4, 3, 6, 6)
SeqOfSet(S) == SetToSortSeq(S, LAMBDA a, b : a < b)
EdgeSeq(E) == SetToSeq({SeqOfSet(e) : e \in E})
\* (source, target set): one target, or two targets; the source is never a target
Ends1(N) == {z \in N \X {{t} : t \in N} : z[1] \notin z[2]}
Ends2(N) == {z \in N \X {T \in SUBSET N : Cardinality(T) = 2} : z[1] \notin z[2]}
\* one target: cutoff none, 2, 3, 4; two targets: none, 3
QueryKeys(N) == (Ends1(N) \X {0, 2, 3, 4}) \cup (Ends2(N) \X {0, 3})

\* paths_e: the KNOWN DEVIATION of the pinned code (finding X02-F5): the simple paths with at
\* most c EDGES, i.e. c + 1 states (empty when no cutoff is given)
EdgeCount(N, E, s, T, c) == IF c = 0 THEN {} ELSE Pathways(N, E, s, T, c + 1)
Queries(N, E) ==
   {[s |-> z[1][1], t |-> SeqOfSet(z[1][2]), c |-> z[2],
     paths |-> SetToSeq(Pathways(N, E, z[1][1], z[1][2], z[2])),
     paths_e |-> SetToSeq(EdgeCount(N, E, z[1][1], z[1][2], z[2]))] : z \in QueryKeys(N)}
\* nodes_ts / edges_ts: the KNOWN DEVIATION of the pinned code (finding X02-F4): the graph with
\* the transition states kept whatever include_TS says
PathCases ==
   {LET N == NodesOf(x[1], x[2])  E == EdgesOf(x[1], x[2]) IN
    [rx |-> x[1], inc |-> x[2], nodes |-> SeqOfSet(N), edges |-> EdgeSeq(E),
     nodes_ts |-> SeqOfSet(NodesOf(x[1], TRUE)), edges_ts |-> EdgeSeq(EdgesOf(x[1], TRUE)),
     ts |-> SeqOfSet(TSOf(x[1], x[2])),
     qs |-> SetToSeq({qq \in Queries(N, E) : qq.paths # <<>>})]
      : x \in CaseNets \X BOOLEAN}

\* energies of the states 1..8 (5..8 are the transition states of reactions 1..4)
MaxId == 8
Pat1 == <<0, 1, 2, 0, 3, 2, 3, 1>>
Pat2 == <<2, 0, 1, 3, 1, 3, 0, 2>>
Pat3 == <<1, 1, 0, 2, 2, 2, 1, 3>>
Diamond == <<<<1, 2, 0>>, <<4, 2, 0>>, <<1, 3, 0>>, <<3, 4, 0>>>>
TwoRoute == <<<<1, 2, 0>>, <<2, 1, 5>>, <<2, 3, 0>>>>
Pad(f) == [n \in 1..MaxId |-> IF n \in DOMAIN f THEN f[n] ELSE 0]
AllEn(N) == {Pad(f) : f \in [N -> 0..2]}
SpanCase(net, ic, en, s, T, c, P) ==
   [rx |-> net, inc |-> ic, en |-> en, s |-> s, t |-> SeqOfSet(T), c |-> c,
    nodes |-> SeqOfSet(NodesOf(net, ic)), edges |-> EdgeSeq(EdgesOf(net, ic)),
    nodes_ts |-> SeqOfSet(NodesOf(net, TRUE)), edges_ts |-> EdgeSeq(EdgesOf(net, TRUE)),
    paths_e |-> SetToSeq(EdgeCount(NodesOf(net, ic), EdgesOf(net, ic), s, T, c)),
    paths |-> SetToSeq({[p |-> p, spans |-> SeqOfSet(PathSpans(en, p))] : p \in P}),
    mins |-> SeqOfSet(MinSpanSet(P, en))]
\* every query with at least two pathways (one target: every energy set in ens; two targets:
\* the first only), no cutoff and cutoff 3
SpanQueries(net, ic, ens, ens2, cs) ==
   LET N == NodesOf(net, ic)  E == EdgesOf(net, ic) IN
   UNION {LET P == Pathways(N, E, zc[1][1], zc[1][2], zc[2]) IN
          IF Cardinality(P) < 2 THEN {}
          ELSE {SpanCase(net, ic, en, zc[1][1], zc[1][2], zc[2], P)
                  : en \in IF Cardinality(zc[1][2]) = 1 THEN ens ELSE ens2}
          : zc \in (Ends1(N) \cup Ends2(N)) \X cs}
SpanCases ==
   UNION {SpanQueries(x[1], x[2], {Pat1, Pat2, Pat3}, {Pat1}, {0, 3}) : x \in CaseNets \X BOOLEAN}
   \cup SpanQueries(Diamond, TRUE, AllEn(1..4), {}, {0})
   \cup SpanQueries(TwoRoute, TRUE, AllEn({1, 2, 3, 5}), {}, {0})

ASSUME WellFormed(Diamond) /\ WellFormed(TwoRoute)
ASSUME JsonSerialize(IOEnv.OUT_FILE,
          [path |-> SetToSeq(PathCases), span |-> SetToSeq(SpanCases)])
=============================================================================
