\* (S->C) random behaviours (tlc -simulate) of the large instance, printed for replay:
\* <= 3 phases, 0-4 species, <= 3 reactions, <= 2 interactions, three calls
SPECIFICATION SpecSim
CONSTANTS
  MaxPhases = 3
  SpCounts <- Sp0to4
  MaxRx = 3
  MaxIa = 2
  MaxCalls = 3
  Variant = "fixed"
  Scope = "narrow"
INVARIANT EmitBehaviours
CHECK_DEADLOCK FALSE
