-------------------------------- MODULE Rat --------------------------------
(* Exact rationals <<num, den>> (den > 0, lowest terms) for small design    *)
(* models (32-bit integers: keep numerators and denominators small).        *)
EXTENDS Integers, Sequences
RAbs(x) == IF x < 0 THEN -x ELSE x
RECURSIVE Gcd(_, _)
Gcd(a, b) == IF b = 0 THEN RAbs(a) ELSE Gcd(b, a % b)
RNorm(n, d) == LET g == Gcd(RAbs(n), RAbs(d))  s == IF d < 0 THEN -1 ELSE 1
               IN IF n = 0 THEN <<0, 1>> ELSE <<(s * n) \div g, (s * d) \div g>>
R(n) == <<n, 1>>
RFrac(n, d) == RNorm(n, d)
RAdd(a, b) == RNorm(a[1] * b[2] + b[1] * a[2], a[2] * b[2])
RNeg(a) == <<-a[1], a[2]>>
RSub(a, b) == RAdd(a, RNeg(b))
RMul(a, b) == RNorm(a[1] * b[1], a[2] * b[2])
RDiv(a, b) == RNorm(a[1] * b[2], a[2] * b[1])          \* b # 0
RLt(a, b) == a[1] * b[2] < b[1] * a[2]
RLe(a, b) == a[1] * b[2] <= b[1] * a[2]
RIsInt(a) == a[2] = 1
RECURSIVE RSum(_)
RSum(s) == IF Len(s) = 0 THEN <<0, 1>> ELSE RAdd(s[1], RSum(Tail(s)))
=============================================================================
