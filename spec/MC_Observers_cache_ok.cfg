\* X09 design model, implementation shape "cache" (Keyed <- AllFields): derived data refreshed by every assignment - legitimate caching, accepted
SPECIFICATION Spec
CONSTANTS
  NF = 3
  Vals = {1, 2}
  Methods = {1, 2}
  Refs <- RefSet
  Args <- ArgsSmall
  InitStores <- StoresSmall
  Keyed <- AllFields
  Impl = "cache"
  MaxOps = 4
INVARIANT TypeOK
PROPERTY ArgsUntouched
PROPERTY StateUntouched
PROPERTY Repeatable
PROPERTY NoHiddenState
PROPERTY FreshAfterMutation
PROPERTY ArrayIsMapOfScalar
PROPERTY IntEqualsFloat
INVARIANT CacheFresh
VIEW View
CHECK_DEADLOCK FALSE
