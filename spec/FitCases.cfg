INIT Init
NEXT Next
