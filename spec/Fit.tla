-------------------------------- MODULE Fit --------------------------------
(***************************************************************************)
(* C03 - integration constants of fitted NASA-7 / NASA-9 / Shomate species.*)
(*                                                                         *)
(* Exact toy model of the anchoring / continuity algorithms.  A fitted     *)
(* species has n segments with breaks b_1 < ... < b_{n-1}; the Cp fit      *)
(* (opaque here) fixes one piece per segment, and an antiderivative        *)
(*     F_i(T) = cp[i] * T + k[i]                                           *)
(* stands for T*H/RT (and, with the same structure, for S/R): the fit must *)
(* choose the integration constants k[i] so that                           *)
(*   Anchor     : evaluating the fitted object at T_ref - with the         *)
(*                evaluator's own segment selection - gives F_ref;         *)
(*   Continuous : F_i(b_i) = F_{i+1}(b_i) at every interior break.         *)
(* Algorithms (transcribed from the code, same update formulas):           *)
(*   "containing"  NASA-7 _fit_HoRT/_fit_SoR: anchor the segment on whose  *)
(*                 side of T_mid the reference lies, match the other one;  *)
(*   "first"       NASA-9 _fit_HoRT9/_fit_SoR9 as pinned: anchor segment 1 *)
(*                 (extrapolated to T_ref), then walk upwards;             *)
(*   "walk"        anchor the segment containing T_ref, then walk both     *)
(*                 ways (what the property requires for any n).            *)
(* `aliased` models _fit_CpoR9 returning [zeros]*n: every segment record   *)
(* is the same object, so a write to one k is a write to all.              *)
(***************************************************************************)
EXTENDS Integers, Sequences, FiniteSets, TLC

CONSTANTS TGrid,      \* temperatures (integers)
          CpVals,     \* per-segment Cp pieces
          FRefs,      \* reference values
          MaxSeg,
          Algorithm   \* "containing" | "first" | "walk"

VARIABLES n, brk, cp, tref, fref, aliased, k, done
vars == <<n, brk, cp, tref, fref, aliased, k, done>>

TLow == CHOOSE t \in TGrid : \A u \in TGrid : t <= u
THigh == CHOOSE t \in TGrid : \A u \in TGrid : u <= t

F(i, T, kk) == cp[i] * T + kk[i]
SegLo(i) == IF i = 1 THEN TLow ELSE brk[i - 1]
SegHi(i) == IF i = n THEN THigh ELSE brk[i]
\* evaluator's selection: NASA-7 (n = 2): low iff T < T_mid; otherwise the first containing segment
Select(T) == IF n = 2 /\ Algorithm = "containing"
             THEN (IF T < brk[1] THEN 1 ELSE 2)
             ELSE CHOOSE i \in 1..n : SegLo(i) <= T /\ T <= SegHi(i)
                                      /\ \A j \in 1..(i - 1) : ~(SegLo(j) <= T /\ T <= SegHi(j))
Set(kk, i, v) == IF aliased THEN [j \in 1..n |-> v] ELSE [kk EXCEPT ![i] = v]

\* ---- "containing": two segments, branch on T_ref <= T_mid (NASA-7)
AlgContaining ==
   LET z == [j \in 1..n |-> 0] IN
   IF n = 1 THEN Set(z, 1, fref - F(1, tref, z))
   ELSE IF tref <= brk[1]
        THEN LET k1 == Set(z, 1, fref - F(1, tref, z))
             IN Set(k1, 2, F(1, brk[1], k1) - cp[2] * brk[1])
        ELSE LET k2 == Set(z, 2, fref - F(2, tref, z))
             IN Set(k2, 1, F(2, brk[1], k2) - cp[1] * brk[1])

\* ---- "first": NASA-9 as pinned
RECURSIVE FirstLoop(_, _, _, _)
FirstLoop(i, kk, rT, rF) ==
   IF i > n THEN kk
   ELSE LET tm == brk[i - 1]
            a8low == rF - F(i - 1, rT, kk)
            a8high == rF - F(i, rT, kk)
            low == F(i - 1, tm, kk) + a8low
            high == F(i, tm, kk) + a8high
            kn == Set(kk, i, a8high + (low - high))
        IN FirstLoop(i + 1, kn, tm, low)
AlgFirst == LET z == [j \in 1..n |-> 0]
                k1 == Set(z, 1, fref - F(1, tref, z))
            IN FirstLoop(2, k1, tref, fref)

\* ---- "walk": anchor the containing segment, propagate both ways
RECURSIVE Up(_, _)
Up(i, kk) == IF i > n THEN kk ELSE Up(i + 1, Set(kk, i, F(i - 1, brk[i - 1], kk) - cp[i] * brk[i - 1]))
RECURSIVE Down(_, _)
Down(i, kk) == IF i < 1 THEN kk ELSE Down(i - 1, Set(kk, i, F(i + 1, brk[i], kk) - cp[i] * brk[i]))
AlgWalk == LET z == [j \in 1..n |-> 0]
               j == Select(tref)
               kj == Set(z, j, fref - F(j, tref, z))
           IN Down(j - 1, Up(j + 1, kj))

Result == CASE Algorithm = "containing" -> AlgContaining
            [] Algorithm = "first" -> AlgFirst
            [] Algorithm = "walk" -> AlgWalk

BreakSets(m) == {s \in [1..(m - 1) -> TGrid] :
                   /\ \A i \in 1..(m - 1) : TLow < s[i] /\ s[i] < THigh
                   /\ \A i \in 1..(m - 2) : s[i] < s[i + 1]}
Init == /\ n \in (IF Algorithm = "containing" THEN 1..2 ELSE 1..MaxSeg)
        /\ brk \in BreakSets(n)
        /\ cp \in [1..n -> CpVals]
        /\ tref \in TGrid /\ fref \in FRefs
        /\ aliased \in BOOLEAN
        /\ (aliased => \A i \in 1..n : cp[i] = 0)      \* aliasing only arises on the zero-Cp path
        /\ (Algorithm = "containing" => ~aliased)      \* NASA-7 builds separate arrays
        /\ k = [j \in 1..n |-> 0] /\ done = FALSE
FitAct == /\ ~done /\ k' = Result /\ done' = TRUE
          /\ UNCHANGED <<n, brk, cp, tref, fref, aliased>>
Next == FitAct
Spec == Init /\ [][Next]_vars

Anchor == done => F(Select(tref), tref, k) = fref
Continuous == done => \A i \in 1..(n - 1) : F(i, brk[i], k) = F(i + 1, brk[i], k)
BreaksInside == \A i \in 1..(n - 1) : TLow < brk[i] /\ brk[i] < THigh
\* characterisation of where "first" goes wrong (used by the known-finding predicate / the fix)
FirstWrongOnlyIf == (done /\ Algorithm = "first" /\ F(Select(tref), tref, k) # fref)
                       => (Select(tref) # 1 \/ aliased)
=============================================================================
