-------------------------------- MODULE Lsr --------------------------------
(***************************************************************************)
(* X07 - pmutt.statmech.lsr.LSR and ExtendedLSR (linear scaling relations). *)
(*                                                                         *)
(* Exact toy model on rationals (Rat.tla).  Energies are in kcal/mol, the   *)
(* unit the docstrings give for every number of the model.                  *)
(*                                                                         *)
(* An object is                                                             *)
(*   [kind |-> "lsr", a, b, rx, surf, gas]        (slope, intercept, ...)   *)
(*   [kind |-> "ext", as, b, rxs, surfs, gass]    (sequences of equal len)  *)
(* with the documented forms of the parts                                   *)
(*   rx   = [form |-> "float", v]  | [form |-> "reaction", r, p]            *)
(*          (r, p: sequences of <<stoichiometric number, energy>>)          *)
(*   part = [form |-> "default" | "float" | "species", v]   ("numspecies":   *)
(*          the species a number became after a JSON round trip)           *)
(*                                                                         *)
(* Required relation (docstring of LSR):                                    *)
(*   E = a * dE(rx) + b + E(surf) + E(gas),  dE(float v) = v,               *)
(*   dE(reaction) = sum nu_p E_p - sum nu_r E_r, E(default) = 0,            *)
(*   E(float v) = v;  ExtendedLSR: E = sum_i (a_i dE_i + Es_i + Eg_i) + b;  *)
(*   U/RT = H/RT = F/RT = G/RT = E / (R T), S/R = Cv/R = Cp/R = 0, the      *)
(*   getters with units return (X/RT) * R * T.                              *)
(*                                                                         *)
(* Implementation-shaped evaluation: a float becomes a constant species     *)
(* holding v * Kf (eV) that reports v * Kf * Kb (kcal/mol); U/RT is the     *)
(* sum divided by R and T (ExtendedLSR: term by term), the value with       *)
(* units multiplies back.  TLC checks that it refines the relation.         *)
(* Variants that reproduce the source as found (each is a cfg that is       *)
(* expected to be rejected):                                                *)
(*   "tabledrift" Kf * Kb # 1  (convert_unit's eV/molecule literal against  *)
(*                the R table that ConstantMode uses on the way back)       *)
(*   "unnamed"    the helper reaction of the float form cannot be encoded   *)
(*   "extslope"   ExtendedLSR.to_dict reads self.slope / self.notes         *)
(* Every public call is an action; every action leaves `res`, the           *)
(* evaluation of the current object at the current temperature, so that     *)
(* linearity, T-independence and the round trip are action properties.      *)
(***************************************************************************)
EXTENDS Integers, Sequences, FiniteSets, TLC, Rat

CONSTANTS Slopes,     \* rationals
          Icpts,      \* rationals
          Energies,   \* rationals (floats given, species energies)
          Temps,      \* positive integers
          MaxN,       \* terms of an ExtendedLSR
          MaxOps,     \* calls after construction in one behaviour
          Variant,    \* "required" | "tabledrift" | "unnamed" | "extslope"
          Kinds,      \* subset of {"lsr", "ext"}
          Stoichs,    \* stoichiometric numbers of the adsorption reactions (subset of {1, 2})
          ExtParts    \* the given parts drawn for the surf / gas sequences of an ExtendedLSR

VARIABLES obj, T, res, h
vars == <<obj, T, res, h>>

Zr == <<0, 1>>
\* ---- parts
FloatRx(v) == [form |-> "float", v |-> v, r |-> <<>>, p |-> <<>>]
Reaction(r, p) == [form |-> "reaction", v |-> Zr, r |-> r, p |-> p]
Part(f, v) == [form |-> f, v |-> v]
DefaultPart == Part("default", Zr)

RECURSIVE SideSum(_)
SideSum(s) == IF Len(s) = 0 THEN Zr ELSE RAdd(RMul(s[1][1], s[1][2]), SideSum(Tail(s)))

\* ---- the documented meaning
DeltaE(rx) == IF rx.form = "float" THEN rx.v ELSE RSub(SideSum(rx.p), SideSum(rx.r))
PartE(s) == IF s.form = "default" THEN Zr ELSE s.v
Term(a, rx, s, g) == RAdd(RMul(a, DeltaE(rx)), RAdd(PartE(s), PartE(g)))
N(o) == Len(o.as)
Required(o) ==
   IF o.kind = "lsr" THEN RAdd(Term(o.a, o.rx, o.surf, o.gas), o.b)
   ELSE RAdd(RSum([i \in 1..N(o) |-> Term(o.as[i], o.rxs[i], o.surfs[i], o.gass[i])]), o.b)

\* the share of Required(o) that comes from parts given as numbers (what the as-found table route scales)
\* (a reaction given as a Reaction has v = 0; a reloaded number keeps its value in v / in the form "numspecies")
IsNum(s) == s.form \in {"float", "numspecies"}
NumTerm(a, rx, s, g) == RAdd(RMul(a, rx.v), RAdd(IF IsNum(s) THEN s.v ELSE Zr, IF IsNum(g) THEN g.v ELSE Zr))
NumPart(o) == IF o.kind = "lsr" THEN NumTerm(o.a, o.rx, o.surf, o.gas)
              ELSE RSum([i \in 1..N(o) |-> NumTerm(o.as[i], o.rxs[i], o.surfs[i], o.gass[i])])

\* ---- the implementation-shaped evaluation
Kb == <<23, 1>>                                               \* eV -> kcal/mol on the way back (R table)
Kf == IF Variant = "tabledrift" THEN RFrac(10001, 230000) ELSE RFrac(1, 23)
Rk == RFrac(1, 500)                                           \* toy R in kcal/mol/K
ThroughSpecies(v) == RMul(RMul(v, Kf), Kb)                    \* what the helper species reports
ImplDeltaE(rx) == IF rx.form = "float" THEN RSub(ThroughSpecies(rx.v), Zr)
                  ELSE RSub(SideSum(rx.p), SideSum(rx.r))
ImplPartE(s) == IF s.form \in {"species", "numspecies"} THEN s.v ELSE ThroughSpecies(PartE(s))
ImplTerm(a, rx, s, g) == RAdd(RMul(a, ImplDeltaE(rx)), RAdd(ImplPartE(s), ImplPartE(g)))
OverRT(x, t) == RDiv(RDiv(x, Rk), R(t))
ImplUoRT(o, t) ==
   IF o.kind = "lsr" THEN OverRT(RAdd(RAdd(RMul(o.a, ImplDeltaE(o.rx)), o.b),
                                      RAdd(ImplPartE(o.surf), ImplPartE(o.gas))), t)
   ELSE RAdd(RSum([i \in 1..N(o) |-> OverRT(ImplTerm(o.as[i], o.rxs[i], o.surfs[i], o.gass[i]), t)]),
             OverRT(o.b, t))
Evaluate(o, t) ==
   LET u == ImplUoRT(o, t)  s == Zr  hh == u  f == RSub(u, s)  g == RSub(hh, s) IN
   [UoRT |-> u, HoRT |-> hh, FoRT |-> f, GoRT |-> g, SoR |-> s, CvoR |-> Zr, CpoR |-> Zr,
    U |-> RMul(RMul(u, R(t)), Rk), G |-> RMul(RMul(g, R(t)), Rk)]

\* ---- JSON round trip: floats come back as the species / reaction they were turned into
ReloadPart(s) == IF s.form \in {"species", "numspecies"} THEN s
                 ELSE IF s.form = "default" THEN Part("species", ThroughSpecies(Zr))
                 ELSE Part("numspecies", ThroughSpecies(s.v))
ReloadRx(rx) == IF rx.form = "float"
                THEN [Reaction(<<<<R(1), Zr>>>>, <<<<R(1), ThroughSpecies(rx.v)>>>>) EXCEPT !.v = ThroughSpecies(rx.v)]
                ELSE rx
Raised == [kind |-> "raised"]
EncodeRaises(o) ==
   \/ Variant = "unnamed" /\ (IF o.kind = "lsr" THEN o.rx.form = "float"
                              ELSE \E i \in 1..N(o) : o.rxs[i].form = "float")
   \/ Variant = "extslope" /\ o.kind = "ext"
Reloaded(o) ==
   IF EncodeRaises(o) THEN Raised
   ELSE IF o.kind = "lsr"
        THEN [o EXCEPT !.rx = ReloadRx(@), !.surf = ReloadPart(@), !.gas = ReloadPart(@)]
        ELSE [o EXCEPT !.rxs = [i \in 1..N(o) |-> ReloadRx(@[i])],
                       !.surfs = [i \in 1..N(o) |-> ReloadPart(@[i])],
                       !.gass = [i \in 1..N(o) |-> ReloadPart(@[i])]]

\* ---- the universe of parts and objects
RxSet == {FloatRx(v) : v \in Energies}
         \* A(g) + * = A*   and   A2(g) + 2* = 2A*
         \cup {Reaction(<<<<R(1), g>>, <<R(n), Zr>>>>, <<<<R(n), a>>>>) : g \in Energies, a \in Energies, n \in Stoichs}
GivenParts == {Part(f, v) : f \in {"float", "species"}, v \in Energies}
PartSet == {DefaultPart} \cup GivenParts
LsrObjs == {[kind |-> "lsr", a |-> a, b |-> b, rx |-> rx, surf |-> s, gas |-> g]
              : a \in Slopes, b \in Icpts, rx \in RxSet, s \in PartSet, g \in PartSet}
\* ExtendedLSR: surf_species / gas_species are each given for every term or omitted altogether
PartSeqs(n) == {[i \in 1..n |-> DefaultPart]} \cup [1..n -> ExtParts]
ExtObjsN(n) == {[kind |-> "ext", as |-> as, b |-> b, rxs |-> rxs, surfs |-> ss, gass |-> gs]
                  : as \in [1..n -> Slopes], b \in Icpts, rxs \in [1..n -> RxSet],
                    ss \in PartSeqs(n), gs \in PartSeqs(n)}
ExtObjs == IF "ext" \in Kinds THEN UNION {ExtObjsN(n) : n \in 1..MaxN} ELSE {}
Objs == (IF "lsr" \in Kinds THEN LsrObjs ELSE {}) \cup ExtObjs

\* ---- behaviours
Rec(op, arg) == [op |-> op, arg |-> arg, kind |-> obj'.kind, T |-> T',
                 U |-> IF obj'.kind = "raised" THEN Zr ELSE res'.U,
                 Unum |-> IF obj'.kind = "raised" THEN Zr ELSE NumPart(obj'),
                 ok |-> obj'.kind # "raised"]
Live == obj.kind # "raised" /\ Len(h) <= MaxOps
Settle == res' = IF obj'.kind = "raised" THEN res ELSE Evaluate(obj', T')

Init == /\ obj \in Objs /\ T \in Temps
        /\ res = Evaluate(obj, T)
        /\ h = <<[op |-> "construct", arg |-> obj, kind |-> obj.kind, T |-> T, U |-> res.U,
               Unum |-> NumPart(obj), ok |-> TRUE]>>
Eval(t) == /\ Live /\ t # T /\ T' = t /\ UNCHANGED obj /\ Settle /\ h' = Append(h, Rec("eval", t))
SetSlope(a) == /\ Live /\ obj.kind = "lsr" /\ a # obj.a
               /\ obj' = [obj EXCEPT !.a = a] /\ UNCHANGED T /\ Settle /\ h' = Append(h, Rec("slope", a))
SetIcpt(b) == /\ Live /\ b # obj.b
              /\ obj' = [obj EXCEPT !.b = b] /\ UNCHANGED T /\ Settle /\ h' = Append(h, Rec("intercept", b))
SetRx(rx) == /\ Live /\ obj.kind = "lsr" /\ rx # obj.rx
             /\ obj' = [obj EXCEPT !.rx = rx] /\ UNCHANGED T /\ Settle /\ h' = Append(h, Rec("reaction", rx))
SetSurf(s) == /\ Live /\ obj.kind = "lsr" /\ s.form # "default" /\ s # obj.surf
              /\ obj' = [obj EXCEPT !.surf = s] /\ UNCHANGED T /\ Settle /\ h' = Append(h, Rec("surf", s))
SetGas(s) == /\ Live /\ obj.kind = "lsr" /\ s.form # "default" /\ s # obj.gas
             /\ obj' = [obj EXCEPT !.gas = s] /\ UNCHANGED T /\ Settle /\ h' = Append(h, Rec("gas", s))
SetSlopeAt(i, a) == /\ Live /\ obj.kind = "ext" /\ i \in 1..N(obj) /\ a # obj.as[i]
                    /\ obj' = [obj EXCEPT !.as[i] = a] /\ UNCHANGED T /\ Settle
                    /\ h' = Append(h, Rec("slope_at", <<i, a>>))
RoundTrip == /\ Live /\ h[Len(h)].op # "roundtrip"
             /\ obj' = Reloaded(obj) /\ UNCHANGED T /\ Settle /\ h' = Append(h, Rec("roundtrip", 0))

Next == \/ \E t \in Temps : Eval(t)
        \/ \E a \in Slopes : SetSlope(a)
        \/ \E b \in Icpts : SetIcpt(b)
        \/ \E rx \in RxSet : SetRx(rx)
        \/ \E s \in GivenParts : SetSurf(s) \/ SetGas(s)
        \/ \E i \in 1..MaxN, a \in Slopes : SetSlopeAt(i, a)
        \/ RoundTrip
Spec == Init /\ [][Next]_vars

\* ---- properties
Alive == obj.kind # "raised"
NeverRaises == Alive
RelationHolds == Alive => res.U = Required(obj)
FourEqual == Alive => res.HoRT = res.UoRT /\ res.FoRT = res.UoRT /\ res.GoRT = res.UoRT /\ res.G = res.U
NoEntropy == Alive => res.SoR = Zr /\ res.CvoR = Zr /\ res.CpoR = Zr
UnitsHold == Alive => res.U = RMul(RMul(res.UoRT, R(T)), Rk)
\* a float part means the energy it states
FloatMeansEnergy == \A v \in Energies : ThroughSpecies(v) = v

Last == h'[Len(h')]
TIndependent == [][(obj' = obj /\ obj.kind # "raised") => res'.U = res.U]_vars
LinearSlope == [][Last.op = "slope" =>
                    RSub(res'.U, res.U) = RMul(RSub(obj'.a, obj.a), DeltaE(obj.rx))]_vars
LinearSlopeAt == [][Last.op = "slope_at" =>
                    RSub(res'.U, res.U) = RMul(RSub(obj'.as[Last.arg[1]], obj.as[Last.arg[1]]),
                                               DeltaE(obj.rxs[Last.arg[1]]))]_vars
LinearIcpt == [][Last.op = "intercept" => RSub(res'.U, res.U) = RSub(obj'.b, obj.b)]_vars
Public(o) == IF o.kind = "lsr" THEN <<o.kind, o.a, o.b>> ELSE <<o.kind, o.as, o.b>>
RoundTripKeeps == [][(Last.op = "roundtrip" /\ obj'.kind # "raised") =>
                       (Public(obj') = Public(obj) /\ res' = res /\ Required(obj') = Required(obj))]_vars

\* ---- statements about the relation itself (operators with a parameter: TLC evaluates zero-arity
\*      constant definitions eagerly at start-up; MC_LsrCases.tla states them as ASSUMEs)
\* an ExtendedLSR of one term is the LSR of that term
AsExt(o) == [kind |-> "ext", as |-> <<o.a>>, b |-> o.b, rxs |-> <<o.rx>>, surfs |-> <<o.surf>>, gass |-> <<o.gas>>]
ExtOfOneIsLsr(S) == \A o \in S : Required(AsExt(o)) = Required(o) /\ Evaluate(AsExt(o), 250) = Evaluate(o, 250)
\* an ExtendedLSR is the sum of the LSRs of its terms (zero intercept) plus its intercept
TermLsr(o, i) == [kind |-> "lsr", a |-> o.as[i], b |-> Zr, rx |-> o.rxs[i], surf |-> o.surfs[i], gas |-> o.gass[i]]
ExtIsSumOfLsr(S) == \A o \in S : Required(o) = RAdd(RSum([i \in 1..N(o) |-> Required(TermLsr(o, i))]), o.b)
\* concatenating two ExtendedLSRs adds their energies
Concat(o1, o2) == [kind |-> "ext", as |-> o1.as \o o2.as, b |-> RAdd(o1.b, o2.b), rxs |-> o1.rxs \o o2.rxs,
                   surfs |-> o1.surfs \o o2.surfs, gass |-> o1.gass \o o2.gass]
ExtAdditive(S) == \A o1 \in S, o2 \in S : Required(Concat(o1, o2)) = RAdd(Required(o1), Required(o2))

\* ---- behaviours for replay: printed once per complete behaviour
Done == Len(h) = MaxOps + 1 \/ obj.kind = "raised"
EmitBehaviours == Done => PrintT(<<"BEH", h>>)
View == <<obj, T, res, h[Len(h)].op>>
=============================================================================
