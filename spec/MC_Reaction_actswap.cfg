\* defective variant "actswap": EXPECTED TO BE REJECTED (shows that the invariants bite)
SPECIFICATION Spec
CONSTANTS
  Rxns <- RxnSmall
  KwParts <- KwSmall
  ProbeNames <- MCProbeNames
  ProbeBlocks <- MCProbeBlocks
  Variant = "actswap"
  MaxCalls = 2
  MaxEdits = 0
  EditCoefs <- MCEditCoefs
  EditNames <- MCEditNames
INVARIANT TypeOK
INVARIANT RouteRefines
INVARIANT StateRefines
INVARIANT ResultOK
INVARIANT Hess
INVARIANT Antisymmetry
INVARIANT ActDifference
INVARIANT DetailedBalance
INVARIANT KeqActRatio
INVARIANT ActWithoutTSRefused
INVARIANT RouteIsolation
PROPERTY CallerUntouched
CHECK_DEADLOCK FALSE
