\* X09 design model, implementation shape "inplace" (Keyed <- AllFields): in-place scaling of the caller's array - expected: REJECTED
SPECIFICATION Spec
CONSTANTS
  NF = 3
  Vals = {1, 2}
  Methods = {1, 2}
  Refs <- RefSet
  Args <- ArgsSmall
  InitStores <- StoresSmall
  Keyed <- AllFields
  Impl = "inplace"
  MaxOps = 4
INVARIANT TypeOK
PROPERTY ArgsUntouched
VIEW View
CHECK_DEADLOCK FALSE
