\* every behaviour of a small instance, printed for replay into the real classes
SPECIFICATION Spec
CONSTANTS
  Phases <- BehPhases
  SibPhases <- BehSibPhases
  Givens <- BehGivens
  AttachKinds <- BehAttach
  MaxObjs = 3
  MaxSteps = 3
  Alias = FALSE
  IgnoreFlag = FALSE
  DictReload = FALSE
  LoseFlag = FALSE
INVARIANT EmitBehaviours
CHECK_DEADLOCK FALSE
