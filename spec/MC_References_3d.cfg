\* thorough: three descriptors with entries 0..1, <= 3 references, <= 4 calls
SPECIFICATION Spec
CONSTANTS
  ND = 3
  RefKinds <- MCKinds3
  InsKinds <- MCIns3
  ExtSets <- MCExt3
  InitSets <- MCInit3
  MaxRefs = 3
  MaxOps = 4
  Variant = "explicit"
  Steps <- MCSteps
  Algo = "lstsq"
  Garbage = 1000
  Acts = {"clear"}
  GivenSets <- NoGiven
  Record = FALSE
  Temps = {200, 1000}
INVARIANT NormalEquations
INVARIANT Optimal
INVARIANT Reproduces
INVARIANT FitIsContraction
INVARIANT OffsetsBounded
INVARIANT KeysAreDescriptors
INVARIANT TrefIsMean
INVARIANT MinNorm
INVARIANT Linear
INVARIANT AbsentContributesNothing
INVARIANT TIndependent
INVARIANT ReproducesAtTref
PROPERTY StaleAfterEdit
VIEW View
CHECK_DEADLOCK FALSE
