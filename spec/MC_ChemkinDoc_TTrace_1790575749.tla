---- MODULE MC_ChemkinDoc_TTrace_1790575749 ----
EXTENDS Sequences, TLCExt, MC_ChemkinDoc, Toolbox, Naturals, TLC

_expression ==
    LET MC_ChemkinDoc_TEExpression == INSTANCE MC_ChemkinDoc_TEExpression
    IN MC_ChemkinDoc_TEExpression!expression
----

_trace ==
    LET MC_ChemkinDoc_TETrace == INSTANCE MC_ChemkinDoc_TETrace
    IN MC_ChemkinDoc_TETrace!trace
----

_inv ==
    ~(
        TLCGet("level") = Len(_TETrace)
        /\
        rxset = ({[lhs |-> <<<<1, 1>>>>, rhs |-> <<<<2, 1>>>>, ads |-> FALSE]})
        /\
        docs = ([gas |-> [els |-> <<<<80, 116>>>>, sp |-> <<>>, rx |-> <<>>], surf |-> [bulk |-> <<>>, rx |-> <<[lhs |-> {<<<<77, 40, 66, 41>>, 1>>}, rhs |-> {<<<<77, 40, 66, 41>>, 2>>}, stick |-> FALSE, text |-> <<77, 40, 66, 41, 61, 50, 77, 40, 66, 41>>]>>, sites |-> <<>>], eag |-> [count |-> 0, rows |-> <<>>], eas |-> [count |-> 1, rows |-> <<[lhs |-> {<<<<77, 40, 66, 41>>, 1>>}, rhs |-> {<<<<77, 40, 66, 41>>, 2>>}, stick |-> FALSE, text |-> <<77, 40, 66, 41, 61, 50, 77, 40, 66, 41>>]>>]])
        /\
        sel = ({5})
        /\
        written = (TRUE)
    )
----

_init ==
    /\ sel = _TETrace[1].sel
    /\ docs = _TETrace[1].docs
    /\ rxset = _TETrace[1].rxset
    /\ written = _TETrace[1].written
----

_next ==
    /\ \E i,j \in DOMAIN _TETrace:
        /\ \/ /\ j = i + 1
              /\ i = TLCGet("level")
        /\ sel  = _TETrace[i].sel
        /\ sel' = _TETrace[j].sel
        /\ docs  = _TETrace[i].docs
        /\ docs' = _TETrace[j].docs
        /\ rxset  = _TETrace[i].rxset
        /\ rxset' = _TETrace[j].rxset
        /\ written  = _TETrace[i].written
        /\ written' = _TETrace[j].written

\* Uncomment the ASSUME below to write the states of the error trace
\* to the given file in Json format. Note that you can pass any tuple
\* to `JsonSerialize`. For example, a sub-sequence of _TETrace.
    \* ASSUME
    \*     LET J == INSTANCE Json
    \*         IN J!JsonSerialize("MC_ChemkinDoc_TTrace_1790575749.json", _TETrace)

=============================================================================

 Note that you can extract this module `MC_ChemkinDoc_TEExpression`
  to a dedicated file to reuse `expression` (the module in the 
  dedicated `MC_ChemkinDoc_TEExpression.tla` file takes precedence 
  over the module `MC_ChemkinDoc_TEExpression` below).

---- MODULE MC_ChemkinDoc_TEExpression ----
EXTENDS Sequences, TLCExt, MC_ChemkinDoc, Toolbox, Naturals, TLC

expression == 
    [
        \* To hide variables of the `MC_ChemkinDoc` spec from the error trace,
        \* remove the variables below.  The trace will be written in the order
        \* of the fields of this record.
        sel |-> sel
        ,docs |-> docs
        ,rxset |-> rxset
        ,written |-> written
        
        \* Put additional constant-, state-, and action-level expressions here:
        \* ,_stateNumber |-> _TEPosition
        \* ,_selUnchanged |-> sel = sel'
        
        \* Format the `sel` variable as Json value.
        \* ,_selJson |->
        \*     LET J == INSTANCE Json
        \*     IN J!ToJson(sel)
        
        \* Lastly, you may build expressions over arbitrary sets of states by
        \* leveraging the _TETrace operator.  For example, this is how to
        \* count the number of times a spec variable changed up to the current
        \* state in the trace.
        \* ,_selModCount |->
        \*     LET F[s \in DOMAIN _TETrace] ==
        \*         IF s = 1 THEN 0
        \*         ELSE IF _TETrace[s].sel # _TETrace[s-1].sel
        \*             THEN 1 + F[s-1] ELSE F[s-1]
        \*     IN F[_TEPosition - 1]
    ]

=============================================================================



Parsing and semantic processing can take forever if the trace below is long.
 In this case, it is advised to uncomment the module below to deserialize the
 trace from a generated binary file.

\*
\*---- MODULE MC_ChemkinDoc_TETrace ----
\*EXTENDS IOUtils, MC_ChemkinDoc, TLC
\*
\*trace == IODeserialize("MC_ChemkinDoc_TTrace_1790575749.bin", TRUE)
\*
\*=============================================================================
\*

---- MODULE MC_ChemkinDoc_TETrace ----
EXTENDS MC_ChemkinDoc, TLC

trace == 
    <<
    ([rxset |-> {},docs |-> [gas |-> [els |-> <<>>, sp |-> <<>>, rx |-> <<>>], surf |-> [bulk |-> <<>>, rx |-> <<>>, sites |-> <<>>], eag |-> [count |-> 0, rows |-> <<>>], eas |-> [count |-> 0, rows |-> <<>>]],sel |-> {5},written |-> FALSE]),
    ([rxset |-> {[lhs |-> <<<<1, 1>>>>, rhs |-> <<<<2, 1>>>>, ads |-> FALSE]},docs |-> [gas |-> [els |-> <<>>, sp |-> <<>>, rx |-> <<>>], surf |-> [bulk |-> <<>>, rx |-> <<>>, sites |-> <<>>], eag |-> [count |-> 0, rows |-> <<>>], eas |-> [count |-> 0, rows |-> <<>>]],sel |-> {5},written |-> FALSE]),
    ([rxset |-> {[lhs |-> <<<<1, 1>>>>, rhs |-> <<<<2, 1>>>>, ads |-> FALSE]},docs |-> [gas |-> [els |-> <<<<80, 116>>>>, sp |-> <<>>, rx |-> <<>>], surf |-> [bulk |-> <<>>, rx |-> <<[lhs |-> {<<<<77, 40, 66, 41>>, 1>>}, rhs |-> {<<<<77, 40, 66, 41>>, 2>>}, stick |-> FALSE, text |-> <<77, 40, 66, 41, 61, 50, 77, 40, 66, 41>>]>>, sites |-> <<>>], eag |-> [count |-> 0, rows |-> <<>>], eas |-> [count |-> 1, rows |-> <<[lhs |-> {<<<<77, 40, 66, 41>>, 1>>}, rhs |-> {<<<<77, 40, 66, 41>>, 2>>}, stick |-> FALSE, text |-> <<77, 40, 66, 41, 61, 50, 77, 40, 66, 41>>]>>]],sel |-> {5},written |-> TRUE])
    >>
----


=============================================================================

---- CONFIG MC_ChemkinDoc_TTrace_1790575749 ----
CONSTANTS
    Pool <- MCPool
    Sites <- MCSites
    MaxSp = 3
    MaxRx = 2
    MaxMol = 2
    MaxCoef = 2
    GasTest = "all"
    LoneBulk = TRUE
    SDelims <- MCSDelims
    RDelims <- MCRDelims

INVARIANT
    _inv

CHECK_DEADLOCK
    \* CHECK_DEADLOCK off because of PROPERTY or INVARIANT above.
    FALSE

INIT
    _init

NEXT
    _next

CONSTANT
    _TETrace <- _trace

ALIAS
    _expression
=============================================================================
\* Generated on Mon Sep 28 06:09:13 UTC 2026