\* the PINNED element scan (symbol runs to the first blank): expected to be REJECTED (NoError: two-letter symbol + three-digit count)
SPECIFICATION Spec
CONSTANTS
  Lists <- MCSmall
  Classifier = "layout"
  ElemScan = "firstblank"
  Order = "strict"
INVARIANT FileLayout
INVARIANT NoError
INVARIANT PrefixOK
INVARIANT NoDrop
INVARIANT RoundTrip
INVARIANT FoldAgrees
CHECK_DEADLOCK FALSE
