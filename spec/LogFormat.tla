------------------------------ MODULE LogFormat ------------------------------
(***************************************************************************)
(* X06 - the line-oriented readers of pMuTT (pmutt/io/vasp.py,             *)
(* pmutt/io/gaussian.py) as line classifiers + folds over a text file.     *)
(* Constant-level operators only, shared by the design model               *)
(* LogReaders.tla, the case generator and the trace spec                   *)
(* Trace_LogReaders.tla.  Text is Seq(0..255) (Text.tla); a file is a      *)
(* sequence of lines without their newline.                                *)
(*                                                                         *)
(* NUMBERS.  A fixed-point token ("3821.717493", "-12.5000", "2.") is the  *)
(* triple <<m, e, long>> = m * 10^e, m without trailing zeros; long = 1    *)
(* when the token carries more than nine significant digits (m is then the *)
(* half-up rounding to nine and may differ from the correctly rounded      *)
(* double by one unit in the ninth digit: SameNum allows exactly that).    *)
(* BadNum marks a token that is not a fixed-point number.                  *)
(*                                                                         *)
(* REQUIRED CLASSIFICATION, OUTCAR (ReqOutcar).  A frequency line is what  *)
(* VASP writes:  <n> f  = <x> THz <x> 2PiTHz <x> cm-1 <x> meV  (eleven     *)
(* blank-separated tokens) and, for an imaginary mode,                     *)
(* <n> f/i= <x> THz <x> 2PiTHz <x> cm-1 <x> meV  (ten tokens); its value   *)
(* is the token before "cm-1".  Every other line is "other".               *)
(* set_vib_wavenumbers_from_outcar(file, d, cutoff, imag) must assign, in  *)
(* file order, v for every real line with v > cutoff and -v for every      *)
(* imaginary line when imag (the cutoff is a minimum for real frequencies: *)
(* parameter name, unit tests and the reader of pmutt.io.excel; the        *)
(* docstring's "less than" is taken as a slip).                            *)
(* get_vib_wavenumber_from_line(line) must return the value of a frequency *)
(* line (real or imaginary) and raise TypeError for a line without " cm-1".*)
(*                                                                         *)
(* REQUIRED CLASSIFICATION, GAUSSIAN (ReqG).  A reader's line is the line  *)
(* that, after its leading blanks, starts with the reader's key; its       *)
(* payload is the rest of the line (for the zero-point correction: up to   *)
(* the first "(").  Scalar readers (zpe, sum, mass, sym) return the value  *)
(* of the FIRST such line (read_pattern: "returns after the first          *)
(* instance"), list readers (freq, rott) the numbers of ALL such lines in  *)
(* file order.  read_pattern itself is specified for the pattern family    *)
(*   rest  : key(.+)        paren : key(.+?)\(        two : key(\S+) (.+)  *)
(* (written here with + for the star of the source, which would close this *)
(* comment)                                                                *)
(* (PatGroups is Python's re.search on one line for these): with           *)
(* return_immediately the group `group` of the first matching line, or the *)
(* empty list; without, the blank-separated words of the group `group` of  *)
(* every matching line, in file order.                                     *)
(*                                                                         *)
(* QUANTIFIER (narrow readings).  Lines hold printable ASCII and blanks    *)
(* only.  A line that contains both "f<blanks>=" and "<number> cm-1" but   *)
(* is not a frequency line, a line that contains a Gaussian key elsewhere  *)
(* than at its start, and a key line whose payload is not made of          *)
(* fixed-point numbers are outside the quantifier (OutcarInQ, GaussInQ);   *)
(* scalar Gaussian readers are called only on files that have their line.  *)
(*                                                                         *)
(* IMPLEMENTATION-SHAPED VARIANTS (named, never used for verdicts on the   *)
(* code): ImplOutcar = the two regular expressions of vasp.py              *)
(* (r'f[ ]*=' / r'f/i[ ]*=' searched anywhere, r'(\d+\.?\d+) cm-1'         *)
(* leftmost match); ImplG = the key searched anywhere in the line.         *)
(* Defect variants, expected to be rejected by the design model:           *)
(*   "group0"   read_pattern(return_immediately=False) ignores `group`     *)
(*              (the source as found),                                     *)
(*   "firstnum" the first number of the line instead of the cm-1 one,      *)
(*   "ge"       v >= cutoff,     "imagcut"  the cutoff applied to -v,      *)
(*   "last"     scalar readers keep the last line instead of the first.    *)
(***************************************************************************)
EXTENDS Text, Dec

PLUS == 43
MINUS == 45
DOT == 46
LPAREN == 40

\* ------------------------------------------------------------------ numbers
BadNum == <<0, 0, -1>>
IsFixedTok(t) ==
   LET b == IF Len(t) > 0 /\ (t[1] = PLUS \/ t[1] = MINUS) THEN Tail(t) ELSE t IN
   /\ Len(b) > 0
   /\ \A i \in 1..Len(b) : IsDigitC(b[i]) \/ b[i] = DOT
   /\ Cardinality({i \in 1..Len(b) : b[i] = DOT}) <= 1
   /\ \E i \in 1..Len(b) : IsDigitC(b[i])
IsUnsignedTok(t) == IsFixedTok(t) /\ IsDigitC(t[1])
RECURSIVE DropZeros(_)
DropZeros(ds) == IF Len(ds) > 0 /\ ds[1] = 48 THEN DropZeros(Tail(ds)) ELSE ds
RECURSIVE StripM(_, _)
StripM(m, e) == IF m = 0 THEN <<0, 0>> ELSE IF m % 10 = 0 THEN StripM(m \div 10, e + 1) ELSE <<m, e>>
NumOf(t) ==
   IF ~IsFixedTok(t) THEN BadNum
   ELSE LET sg == IF t[1] = MINUS THEN -1 ELSE 1
            b == IF t[1] = PLUS \/ t[1] = MINUS THEN Tail(t) ELSE t
            hasDot == \E i \in 1..Len(b) : b[i] = DOT
            dp == IF hasDot THEN CHOOSE i \in 1..Len(b) : b[i] = DOT ELSE Len(b) + 1
            frac == IF hasDot THEN Len(b) - dp ELSE 0
            sig == DropZeros(SubSeq(b, 1, dp - 1) \o SubSeq(b, dp + 1, Len(b)))
            n == Len(sig)
        IN IF n <= 9
           THEN LET v == StripM(DigitsToInt(sig), -frac) IN <<sg * v[1], v[2], 0>>
           ELSE LET m0 == DigitsToInt(SubSeq(sig, 1, 9)) + (IF sig[10] >= 53 THEN 1 ELSE 0)
                    v == StripM(m0, n - 9 - frac)
                IN <<sg * v[1], v[2], 1>>
IsNum(v) == v[3] >= 0
DecOf(v) == <<v[1], v[2]>>
NegNum(v) == <<-v[1], v[2], v[3]>>
\* v (from the text) against r = <<m, e>> (a double projected to nine digits)
SameNum(v, r) == /\ IsNum(v)
                 /\ IF v[3] = 0 THEN StripM(r[1], r[2]) = DecOf(v) ELSE Close(DecOf(v), r, 8)
SameNums(vs, rs) == Len(vs) = Len(rs) /\ \A k \in 1..Len(vs) : SameNum(vs[k], rs[k])
IsIntNum(v) == IsNum(v) /\ v[2] >= 0
RECURSIVE Flat(_)
Flat(ss) == IF Len(ss) = 0 THEN <<>> ELSE ss[1] \o Flat(Tail(ss))
RECURSIVE FindFrom(_, _, _)
FindFrom(s, pat, i) == IF i + Len(pat) - 1 > Len(s) THEN 0
                       ELSE IF s[i] = pat[1] /\ MatchAt(s, pat, i) THEN i ELSE FindFrom(s, pat, i + 1)
PrintableLine(line) == \A i \in 1..Len(line) : line[i] >= 32 /\ line[i] <= 126

\* ------------------------------------------------------------------- OUTCAR
TF == <<102>>
TEq == <<61>>
TFI == <<102, 47, 105, 61>>                  \* "f/i="
KFI == <<102, 47, 105>>                      \* "f/i"
TTHz == <<84, 72, 122>>
T2Pi == <<50, 80, 105, 84, 72, 122>>
TCm == <<99, 109, 45, 49>>
KCm == <<32, 99, 109, 45, 49>>               \* " cm-1"
TmeV == <<109, 101, 86>>

Other == [kind |-> "other", v |-> BadNum]
\* (a line without the text "cm-1" is no frequency line: decided before the line is split into tokens)
ReqOutcar(line) ==
   IF FindFrom(line, TCm, 1) = 0 THEN Other ELSE
   LET t == Tokens(line) IN
   IF /\ Len(t) = 11 /\ AllDigits(t[1]) /\ t[2] = TF /\ t[3] = TEq
      /\ IsUnsignedTok(t[4]) /\ t[5] = TTHz /\ IsUnsignedTok(t[6]) /\ t[7] = T2Pi
      /\ IsUnsignedTok(t[8]) /\ t[9] = TCm /\ IsUnsignedTok(t[10]) /\ t[11] = TmeV
   THEN [kind |-> "real", v |-> NumOf(t[8])]
   ELSE IF /\ Len(t) = 10 /\ AllDigits(t[1]) /\ t[2] = TFI
           /\ IsUnsignedTok(t[3]) /\ t[4] = TTHz /\ IsUnsignedTok(t[5]) /\ t[6] = T2Pi
           /\ IsUnsignedTok(t[7]) /\ t[8] = TCm /\ IsUnsignedTok(t[9]) /\ t[10] = TmeV
   THEN [kind |-> "imag", v |-> NumOf(t[7])]
   ELSE Other

\* ---- the regular expressions of vasp.py, on one line
\* r'<head>[ ]*=' searched anywhere
HeadBlanksEq(line, head) ==
   \E i \in 1..Len(line) :
      /\ MatchAt(line, head, i)
      /\ \E j \in (i + Len(head))..Len(line) :
            line[j] = 61 /\ \A k \in (i + Len(head))..(j - 1) : line[k] = SP
RECURSIVE RunEnd(_, _)                      \* last index of the digit run starting at i (i - 1: none)
RunEnd(s, i) == IF i <= Len(s) /\ IsDigitC(s[i]) THEN RunEnd(s, i + 1) ELSE i - 1
\* r'(\d+\.?\d+) cm-1' matched at i : index of the last character of group 1 (0: no match)
CmEndAt(s, i) ==
   IF ~IsDigitC(s[i]) THEN 0
   ELSE LET r1 == RunEnd(s, i)
            r2 == IF r1 + 1 <= Len(s) /\ s[r1 + 1] = DOT THEN RunEnd(s, r1 + 2) ELSE 0
        IN IF r2 >= r1 + 2 /\ MatchAt(s, KCm, r2 + 1) THEN r2
           ELSE IF r1 >= i + 1 /\ MatchAt(s, KCm, r1 + 1) THEN r1
           ELSE 0
RECURSIVE CmSearch(_, _)                    \* leftmost match: the text of group 1, <<>> when none
CmSearch(s, i) == IF i > Len(s) THEN <<>>
                  ELSE IF CmEndAt(s, i) > 0 THEN SubSeq(s, i, CmEndAt(s, i))
                  ELSE CmSearch(s, i + 1)
\* "firstnum" defect variant: the first  digits.digits  of the line
RECURSIVE FirstNumSearch(_, _)
FirstNumSearch(s, i) ==
   IF i > Len(s) THEN <<>>
   ELSE IF IsDigitC(s[i]) /\ RunEnd(s, i) + 1 <= Len(s) /\ s[RunEnd(s, i) + 1] = DOT
           /\ RunEnd(s, RunEnd(s, i) + 2) >= RunEnd(s, i) + 2
        THEN SubSeq(s, i, RunEnd(s, RunEnd(s, i) + 2))
        ELSE FirstNumSearch(s, i + 1)
ImplOutcar(var, line) ==
   IF var # "firstnum" /\ FindFrom(line, KCm, 1) = 0 THEN Other ELSE
   LET g == IF var = "firstnum" THEN FirstNumSearch(line, 1) ELSE CmSearch(line, 1)
       v == IF g = <<>> THEN BadNum ELSE NumOf(g)
   IN IF HeadBlanksEq(line, TF) THEN [kind |-> IF IsNum(v) THEN "real" ELSE "other", v |-> v]
      ELSE IF HeadBlanksEq(line, KFI) THEN [kind |-> IF IsNum(v) THEN "imag" ELSE "other", v |-> v]
      ELSE Other
OutcarClass(var, line) == IF var = "required" THEN ReqOutcar(line) ELSE ImplOutcar(var, line)
\* the line is inside the quantifier: the regular expressions see a frequency line only where
\* the layout has one
OutcarInQ(line) == LET q == ReqOutcar(line) IN
                   /\ ImplOutcar("impl", line).kind = q.kind
                   /\ (q.kind # "other" => IsNum(q.v))

\* ---- the fold.  acc = sequence of classified lines <<kind, v>>; selection at the call
OutcarStep(var, acc, line) ==
   LET c == OutcarClass(var, line) IN IF c.kind = "other" THEN acc ELSE Append(acc, <<c.kind, c.v>>)
RECURSIVE OutcarFoldFrom(_, _, _, _)
OutcarFoldFrom(var, lines, k, acc) ==
   IF k > Len(lines) THEN acc ELSE OutcarFoldFrom(var, lines, k + 1, OutcarStep(var, acc, lines[k]))
OutcarFold(var, lines) == OutcarFoldFrom(var, lines, 1, <<>>)
\* what set_vib_wavenumbers_from_outcar assigns; cut = <<m, e>>
Keeps(var, cv, cut, imag) ==
   IF cv[1] = "real" THEN (IF var = "ge" THEN Le(cut, DecOf(cv[2])) ELSE Lt(cut, DecOf(cv[2])))
   ELSE imag /\ (var = "imagcut" => Lt(cut, DecOf(NegNum(cv[2]))))
RECURSIVE SelectVib(_, _, _, _)
SelectVib(var, acc, cut, imag) ==
   IF Len(acc) = 0 THEN <<>>
   ELSE (IF Keeps(var, acc[1], cut, imag)
         THEN <<IF acc[1][1] = "imag" THEN NegNum(acc[1][2]) ELSE acc[1][2]>> ELSE <<>>)
        \o SelectVib(var, Tail(acc), cut, imag)
\* get_vib_wavenumber_from_line: "value", the number | "none" (TypeError) | "outside"
LineValue(line) ==
   LET c == ReqOutcar(line) IN
   IF c.kind # "other" THEN [what |-> "value", v |-> c.v]
   ELSE IF FindFrom(line, KCm, 1) = 0 THEN [what |-> "none", v |-> BadNum]
   ELSE [what |-> "outside", v |-> BadNum]

\* ----------------------------------------------------------------- Gaussian
KZpe == <<90, 101, 114, 111, 45, 112, 111, 105, 110, 116, 32, 99, 111, 114, 114, 101, 99, 116, 105, 111, 110, 61>>
KSum == <<83, 117, 109, 32, 111, 102, 32, 101, 108, 101, 99, 116, 114, 111, 110, 105, 99, 32, 97, 110, 100, 32,
          122, 101, 114, 111, 45, 112, 111, 105, 110, 116, 32, 69, 110, 101, 114, 103, 105, 101, 115, 61>>
KFreq == <<70, 114, 101, 113, 117, 101, 110, 99, 105, 101, 115, 32, 45, 45, 32>>
KRotT == <<82, 111, 116, 97, 116, 105, 111, 110, 97, 108, 32, 116, 101, 109, 112, 101, 114, 97, 116, 117, 114,
           101, 115, 32, 40, 75, 101, 108, 118, 105, 110, 41>>
KMass == <<77, 111, 108, 101, 99, 117, 108, 97, 114, 32, 109, 97, 115, 115, 58>>
KSym == <<82, 111, 116, 97, 116, 105, 111, 110, 97, 108, 32, 115, 121, 109, 109, 101, 116, 114, 121, 32,
          110, 117, 109, 98, 101, 114>>
Readers == {"zpe", "sum", "freq", "rott", "mass", "sym"}
ScalarReaders == {"zpe", "sum", "mass", "sym"}
KeyOf(r) == CASE r = "zpe" -> KZpe [] r = "sum" -> KSum [] r = "freq" -> KFreq
              [] r = "rott" -> KRotT [] r = "mass" -> KMass [] r = "sym" -> KSym

NoHit == [hit |-> FALSE, vals |-> <<>>]
\* the numbers a reader takes from its payload
PayloadVals(r, p) ==
   CASE r \in {"zpe", "sum", "sym"} -> <<NumOf(Trim(p))>>
     [] r = "mass" -> (LET t == Tokens(p) IN IF Len(t) = 0 THEN <<BadNum>> ELSE <<NumOf(t[1])>>)
     [] OTHER -> (LET t == Tokens(p) IN [k \in 1..Len(t) |-> NumOf(t[k])])
\* payload after a key that ends at position q of s ("paren": up to the first "(")
PayloadHit(r, s, q) ==
   LET rest == SubSeq(s, q + 1, Len(s)) IN
   IF r = "zpe" THEN (LET p == FindFrom(rest, <<LPAREN>>, 1) IN
                      IF p = 0 THEN NoHit ELSE [hit |-> TRUE, vals |-> PayloadVals(r, SubSeq(rest, 1, p - 1))])
   ELSE [hit |-> TRUE, vals |-> PayloadVals(r, rest)]
ReqG(r, line) == LET t == LTrim(line) IN
                 IF MatchAt(t, KeyOf(r), 1) THEN PayloadHit(r, t, Len(KeyOf(r))) ELSE NoHit
ImplG(r, line) == LET p == FindFrom(line, KeyOf(r), 1) IN
                  IF p = 0 THEN NoHit ELSE PayloadHit(r, line, p + Len(KeyOf(r)) - 1)
GClass(var, r, line) == IF var = "required" THEN ReqG(r, line) ELSE ImplG(r, line)
GaussInQ(line) == \A r \in Readers :
                     LET q == ReqG(r, line) IN
                     /\ ImplG(r, line).hit = q.hit
                     /\ q.hit => /\ Len(q.vals) > 0
                                 /\ \A k \in 1..Len(q.vals) : IsNum(q.vals[k])
                                 /\ (r = "sym" => IsIntNum(q.vals[1]))
\* fold of one reader: scalar readers keep the first line's value, list readers append
GStep(var, r, acc, line) ==
   LET c == GClass(var, r, line) IN
   IF ~c.hit THEN acc
   ELSE IF r \in ScalarReaders THEN (IF acc = <<>> \/ var = "last" THEN <<c.vals[1]>> ELSE acc)
   ELSE acc \o c.vals
RECURSIVE GFoldFrom(_, _, _, _, _)
GFoldFrom(var, r, lines, k, acc) ==
   IF k > Len(lines) THEN acc ELSE GFoldFrom(var, r, lines, k + 1, GStep(var, r, acc, lines[k]))
GFold(var, r, lines) == GFoldFrom(var, r, lines, 1, <<>>)

\* ---- read_pattern on the pattern family; p = [key |-> text, mode |-> "rest" | "paren" | "two"]
\* groups of re.search(pattern, line): <<>> no match, else the tuple of groups
RECURSIVE TakeNonBlank(_)
TakeNonBlank(s) == IF Len(s) = 0 \/ s[1] = SP THEN <<>> ELSE <<s[1]>> \o TakeNonBlank(Tail(s))
RECURSIVE TwoFrom(_, _, _)
TwoFrom(line, key, from) ==
   LET p == FindFrom(line, key, from) IN
   IF p = 0 THEN <<>>
   ELSE LET rest == SubSeq(line, p + Len(key), Len(line))
            w == TakeNonBlank(rest)
        IN IF Len(w) >= 1 /\ Len(w) < Len(rest)            \* the word is followed by a blank
           THEN <<w, SubSeq(rest, Len(w) + 2, Len(rest))>>
           ELSE TwoFrom(line, key, p + 1)
PatGroups(p, line) ==
   IF p.mode = "two" THEN TwoFrom(line, p.key, 1)
   ELSE LET q == FindFrom(line, p.key, 1) IN
        IF q = 0 THEN <<>>
        ELSE LET rest == SubSeq(line, q + Len(p.key), Len(line)) IN
             IF p.mode = "rest" THEN <<rest>>
             ELSE LET b == FindFrom(rest, <<LPAREN>>, 1) IN
                  IF b = 0 THEN <<>> ELSE <<SubSeq(rest, 1, b - 1)>>
NGroups(p) == IF p.mode = "two" THEN 2 ELSE 1
\* acc = [first |-> <<>> | <<groups of the first matching line>>, all |-> Seq(groups)]
Pat0 == [first |-> <<>>, all |-> <<>>]
PatStep(acc, p, line) ==
   LET g == PatGroups(p, line) IN
   IF g = <<>> THEN acc
   ELSE [first |-> IF acc.first = <<>> THEN <<g>> ELSE acc.first, all |-> Append(acc.all, g)]
RECURSIVE PatFoldFrom(_, _, _, _)
PatFoldFrom(p, lines, k, acc) ==
   IF k > Len(lines) THEN acc ELSE PatFoldFrom(p, lines, k + 1, PatStep(acc, p, lines[k]))
PatFold(p, lines) == PatFoldFrom(p, lines, 1, Pat0)
\* results: return_immediately -> [found, text]; otherwise the words (group index g is 0-based)
PatFirst(acc, g) == IF acc.first = <<>> THEN [found |-> FALSE, text |-> <<>>]
                    ELSE [found |-> TRUE, text |-> acc.first[1][g + 1]]
PatAll(var, acc, g) ==
   Flat([k \in 1..Len(acc.all) |-> Tokens(acc.all[k][IF var = "group0" THEN 1 ELSE g + 1])])
=============================================================================
