---------------------------- MODULE OrganizeRule ----------------------------
(***************************************************************************)
(* X03 - what pmutt.io.omkm.organize_phases (and its helpers               *)
(* get_species_phases / get_reactions_phases / get_interactions_phases)    *)
(* must return, as operators of a "universe" U (no variables here: the     *)
(* design model OrganizePhases.tla and the trace specification             *)
(* Trace_OrganizePhases.tla both use these definitions).                   *)
(*                                                                         *)
(* U.ph : Seq([name, kind])   the phase descriptions (phases_data) in the  *)
(*        order given; kind "gas" | "bulk" | "iface" stands for phase_type *)
(*        IdealGas | StoichSolid | InteractingInterface                    *)
(* U.sp : Seq([name, phase])  the species objects; phase = the phase name  *)
(*        the species carries, "none" when species.phase is None           *)
(* U.rx : Seq([id, ph])       the reactions; ph = the phases named by the  *)
(*        species of the reaction (reactants, products, transition-state   *)
(*        species), "none" for a species without a phase                   *)
(* U.ia : Seq([name, i, j])   the lateral interactions; i, j = name_i,     *)
(*        name_j (names of species of U.sp)                                *)
(* U.spgiven / U.rxgiven / U.iagiven : FALSE when the argument is omitted  *)
(*        (None, the documented default)                                   *)
(*                                                                         *)
(* THE RULE (from the docstrings; narrow reading where they are silent):   *)
(*  - a species belongs to the phase it names; a species without a phase   *)
(*    belongs to none ("Species with phases to include");                  *)
(*  - a lateral interaction belongs to the phase of its species;           *)
(*  - a reaction belongs to the phase of its species.  IdealGas and        *)
(*    StoichSolid "only have" reactions whose species are all in that      *)
(*    phase (cantera.phase._filter_reactions: "remove reactions that occur *)
(*    in multiple phases. Required for IdealGas and StoichSolid"), so a    *)
(*    reaction whose species name several phases belongs to the interface  *)
(*    among them.                                                          *)
(* QUANTIFIER (InQuantifier): names distinct; every named phase is         *)
(* described; a reaction names no phase, one phase, or several phases of   *)
(* which EXACTLY ONE is an interface (the text does not say where a        *)
(* gas+bulk reaction or a reaction across two interfaces belongs: not      *)
(* drawn); an interaction is between two species of the same interface;    *)
(* interactions need the species argument.                                 *)
(***************************************************************************)
EXTENDS Integers, Sequences, FiniteSets

Kinds == {"gas", "bulk", "iface"}
ClassOf(kind) == CASE kind = "gas" -> "IdealGas"
                   [] kind = "bulk" -> "StoichSolid"
                   [] OTHER -> "InteractingInterface"
Idx(s) == 1..Len(s)
Range(s) == {s[k] : k \in Idx(s)}
NoDup(s) == \A a, b \in Idx(s) : s[a] = s[b] => a = b

PhaseNames(U) == {U.ph[k].name : k \in Idx(U.ph)}
KindOfPhase(U, p) == U.ph[CHOOSE k \in Idx(U.ph) : U.ph[k].name = p].kind
Ifaces(U) == {p \in PhaseNames(U) : KindOfPhase(U, p) = "iface"}
SpeciesNames(U) == {U.sp[k].name : k \in Idx(U.sp)}
PhaseOfSpecies(U, s) == U.sp[CHOOSE k \in Idx(U.sp) : U.sp[k].name = s].phase

\* the phases a reaction's species name
Touch(r) == Range(r.ph) \ {"none"}
HasHome(U, r) == LET t == Touch(r) IN
   /\ t \subseteq PhaseNames(U)
   /\ (Cardinality(t) <= 1 \/ Cardinality(t \cap Ifaces(U)) = 1)
\* {} (no species names a phase) or the one phase the reaction belongs to
HomeSet(U, r) == LET t == Touch(r) IN IF Cardinality(t) <= 1 THEN t ELSE t \cap Ifaces(U)

InQuantifier(U) ==
   /\ NoDup([k \in Idx(U.ph) |-> U.ph[k].name])
   /\ \A k \in Idx(U.ph) : U.ph[k].kind \in Kinds
   /\ NoDup([k \in Idx(U.sp) |-> U.sp[k].name])
   /\ \A k \in Idx(U.sp) : U.sp[k].phase \in PhaseNames(U) \cup {"none"}
   /\ NoDup([k \in Idx(U.rx) |-> U.rx[k].id])
   /\ \A k \in Idx(U.rx) : HasHome(U, U.rx[k])
   /\ NoDup([k \in Idx(U.ia) |-> U.ia[k].name])
   /\ \A k \in Idx(U.ia) :
         /\ U.ia[k].i \in SpeciesNames(U) /\ U.ia[k].j \in SpeciesNames(U)
         /\ PhaseOfSpecies(U, U.ia[k].i) \in Ifaces(U)
         /\ PhaseOfSpecies(U, U.ia[k].j) = PhaseOfSpecies(U, U.ia[k].i)
   /\ (U.iagiven /\ U.ia # <<>> => U.spgiven)

\* ---- the required result: for every described phase, in order, the sets it lists
ReqSpecies(U, p) == IF U.spgiven THEN {U.sp[k].name : k \in {n \in Idx(U.sp) : U.sp[n].phase = p}} ELSE {}
ReqReactions(U, p) == IF U.rxgiven THEN {U.rx[k].id : k \in {n \in Idx(U.rx) : HomeSet(U, U.rx[n]) = {p}}} ELSE {}
ReqInters(U, p) ==
   IF U.iagiven THEN {U.ia[k].name : k \in {n \in Idx(U.ia) : PhaseOfSpecies(U, U.ia[n].i) = p}} ELSE {}
Required(U) ==
   [k \in Idx(U.ph) |->
      [name |-> U.ph[k].name, cls |-> ClassOf(U.ph[k].kind),
       species |-> ReqSpecies(U, U.ph[k].name),
       reactions |-> ReqReactions(U, U.ph[k].name),
       inters |-> ReqInters(U, U.ph[k].name)]]

(***************************************************************************)
(* Judging a result.  res : Seq([name, cls, species, reactions, inters])   *)
(* with the three member lists as SEQUENCES of names / ids (what the       *)
(* returned phase objects list, in their order), so that a member listed   *)
(* twice is visible.                                                       *)
(***************************************************************************)
Occ(res, field, x) == Cardinality({<<k, n>> \in UNION {{<<k, n>> : n \in Idx(res[k][field])} : k \in Idx(res)} :
                                      res[k][field][n] = x})
ListedIn(res, field, x) == {res[k].name : k \in {n \in Idx(res) : x \in Range(res[n][field])}}

\* the phase objects are those described, in the order described, of the class named
PhasesAsDescribed(U, res) ==
   /\ Len(res) = Len(U.ph)
   /\ \A k \in Idx(U.ph) : res[k].name = U.ph[k].name /\ res[k].cls = ClassOf(U.ph[k].kind)

\* partition statements (they do not mention Required)
SpeciesInExactlyOnePhase(U, res) ==
   \A k \in Idx(U.sp) : LET s == U.sp[k] IN
      IF U.spgiven /\ s.phase # "none" THEN Occ(res, "species", s.name) = 1
      ELSE Occ(res, "species", s.name) = 0
SpeciesInThePhaseItNames(U, res) ==
   \A k \in Idx(U.sp) : ListedIn(res, "species", U.sp[k].name) \subseteq {U.sp[k].phase}
ReactionInExactlyOnePhase(U, res) ==
   \A k \in Idx(U.rx) : LET r == U.rx[k] IN
      IF U.rxgiven /\ Touch(r) # {} THEN Occ(res, "reactions", r.id) = 1
      ELSE Occ(res, "reactions", r.id) = 0
\* "determined by its species' phases": only a phase one of its species names, and the home among them
ReactionInItsHomePhase(U, res) ==
   \A k \in Idx(U.rx) : ListedIn(res, "reactions", U.rx[k].id) \subseteq HomeSet(U, U.rx[k])
InteractionInExactlyOnePhase(U, res) ==
   \A k \in Idx(U.ia) : Occ(res, "inters", U.ia[k].name) = (IF U.iagiven THEN 1 ELSE 0)
InteractionInThePhaseOfItsSpecies(U, res) ==
   \A k \in Idx(U.ia) : ListedIn(res, "inters", U.ia[k].name) \subseteq {PhaseOfSpecies(U, U.ia[k].i)}
NothingInvented(U, res) ==
   \A k \in Idx(res) :
      /\ Range(res[k].species) \subseteq SpeciesNames(U)
      /\ Range(res[k].reactions) \subseteq {U.rx[n].id : n \in Idx(U.rx)}
      /\ Range(res[k].inters) \subseteq {U.ia[n].name : n \in Idx(U.ia)}

\* the explicit rule: the projection phase -> member sets equals Required(U), nothing listed twice
MatchesRequired(U, res) ==
   /\ Len(res) = Len(U.ph)
   /\ \A k \in Idx(U.ph) : LET q == Required(U)[k] IN
        /\ res[k].name = q.name /\ res[k].cls = q.cls
        /\ Range(res[k].species) = q.species /\ NoDup(res[k].species)
        /\ Range(res[k].reactions) = q.reactions /\ NoDup(res[k].reactions)
        /\ Range(res[k].inters) = q.inters /\ NoDup(res[k].inters)

(***************************************************************************)
(* The helpers.  A helper result is a sequence of <<key, members>> where   *)
(* key = <<"str", name>> for a string key, <<"none">> for the key None and *)
(* <<"obj", name>> for any other object (name = its .name).  Docstrings:   *)
(* "Dictionary where the keys are strings of phase names and the values    *)
(* are lists of the species / reactions".                                  *)
(***************************************************************************)
KeysArePhaseNames(hres) == \A k \in Idx(hres) : hres[k][1][1] \in {"str", "none"}
Under(hres, p) == LET ks == {k \in Idx(hres) : hres[k][1] = <<"str", p>>} IN
                  IF ks = {} THEN <<>> ELSE hres[CHOOSE k \in ks : TRUE][2]
NamedPhases(U) == ({U.sp[k].phase : k \in Idx(U.sp)} \cup UNION {Touch(U.rx[k]) : k \in Idx(U.rx)}
                   \cup PhaseNames(U)) \ {"none"}
\* every species under the phase it names, once; nothing under a phase nobody names
HelperSpeciesExact(U, hres) ==
   /\ NoDup([k \in Idx(hres) |-> hres[k][1]])
   /\ \A p \in NamedPhases(U) :
        /\ Range(Under(hres, p)) = {U.sp[k].name : k \in {n \in Idx(U.sp) : U.sp[n].phase = p}}
        /\ NoDup(Under(hres, p))
\* "organize reaction into its phases": a reaction under EVERY phase one of its species names, once
HelperReactionsExact(U, hres) ==
   /\ NoDup([k \in Idx(hres) |-> hres[k][1]])
   /\ \A p \in NamedPhases(U) :
        /\ Range(Under(hres, p)) = {U.rx[k].id : k \in {n \in Idx(U.rx) : p \in Touch(U.rx[n])}}
        /\ NoDup(Under(hres, p))
HelperInteractionsExact(U, hres) ==
   /\ NoDup([k \in Idx(hres) |-> hres[k][1]])
   /\ \A p \in NamedPhases(U) :
        /\ Range(Under(hres, p)) = {U.ia[k].name : k \in {n \in Idx(U.ia) : PhaseOfSpecies(U, U.ia[n].i) = p}}
        /\ NoDup(Under(hres, p))
=============================================================================
