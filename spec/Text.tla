------------------------------- MODULE Text -------------------------------
(* Text as sequences of character codes (0..255).  Column access is        *)
(* sequence indexing (1-based), which is what fixed-column formats need.   *)
EXTENDS Integers, Sequences
SP == 32
IsDigitC(c) == c >= 48 /\ c <= 57
IsUpperC(c) == c >= 65 /\ c <= 90
IsLowerC(c) == c >= 97 /\ c <= 122
IsBlankC(c) == c = 32 \/ c = 9
Cols(s, a, b) == SubSeq(s, a, IF b > Len(s) THEN Len(s) ELSE b)      \* columns a..b
RECURSIVE LTrim(_)
LTrim(s) == IF Len(s) > 0 /\ IsBlankC(s[1]) THEN LTrim(Tail(s)) ELSE s
RECURSIVE RTrim(_)
RTrim(s) == IF Len(s) > 0 /\ IsBlankC(s[Len(s)]) THEN RTrim(SubSeq(s, 1, Len(s) - 1)) ELSE s
Trim(s) == LTrim(RTrim(s))
AllBlank(s) == \A i \in 1..Len(s) : IsBlankC(s[i])
AllDigits(s) == Len(s) > 0 /\ \A i \in 1..Len(s) : IsDigitC(s[i])
DigitsToInt(s) == LET f[i \in 0..Len(s)] == IF i = 0 THEN 0 ELSE f[i - 1] * 10 + (s[i] - 48) IN f[Len(s)]
\* first token (maximal run of non-blank characters) of a line
RECURSIVE TakeWord(_)
TakeWord(s) == IF Len(s) = 0 \/ IsBlankC(s[1]) THEN <<>> ELSE <<s[1]>> \o TakeWord(Tail(s))
FirstToken(s) == TakeWord(LTrim(s))
\* split into blank-separated tokens
RECURSIVE Tokens(_)
Tokens(s) == LET t == LTrim(s) IN
             IF Len(t) = 0 THEN <<>>
             ELSE LET w == TakeWord(t) IN <<w>> \o Tokens(SubSeq(t, Len(w) + 1, Len(t)))
\* does `pat` occur in `s` starting at position i
MatchAt(s, pat, i) == i + Len(pat) - 1 <= Len(s) /\ SubSeq(s, i, i + Len(pat) - 1) = pat
Contains(s, pat) == \E i \in 1..Len(s) : MatchAt(s, pat, i)
\* "s1.23456789E+05" style 15-character field -> <<sign, 9-digit mantissa, exponent>>
\* layout: [sign or blank] d . dddddddd E sign dd
EField(s) == <<IF s[1] = 45 THEN -1 ELSE 1,
               DigitsToInt(<<s[2]>> \o SubSeq(s, 4, 11)),
               (IF s[13] = 45 THEN -1 ELSE 1) * DigitsToInt(SubSeq(s, 14, 15))>>
EFieldWellFormed(s) == /\ Len(s) = 15 /\ (s[1] = 32 \/ s[1] = 45) /\ IsDigitC(s[2]) /\ s[3] = 46
                       /\ AllDigits(SubSeq(s, 4, 11)) /\ (s[12] = 69 \/ s[12] = 101)
                       /\ (s[13] = 43 \/ s[13] = 45) /\ AllDigits(SubSeq(s, 14, 15))
=============================================================================
