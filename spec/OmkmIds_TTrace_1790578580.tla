---- MODULE OmkmIds_TTrace_1790578580 ----
EXTENDS Sequences, TLCExt, Toolbox, Naturals, TLC, OmkmIds

_expression ==
    LET OmkmIds_TEExpression == INSTANCE OmkmIds_TEExpression
    IN OmkmIds_TEExpression!expression
----

_trace ==
    LET OmkmIds_TETrace == INSTANCE OmkmIds_TETrace
    IN OmkmIds_TETrace!trace
----

_inv ==
    ~(
        TLCGet("level") = Len(_TETrace)
        /\
        given = (<<"r_0000", "r_0001", "none">>)
        /\
        cur = (<<"r_0000", "r_0001", "r_0000">>)
        /\
        doc = (<<"r_0000", "r_0001", "r_0000">>)
        /\
        writes = (1)
    )
----

_init ==
    /\ given = _TETrace[1].given
    /\ doc = _TETrace[1].doc
    /\ cur = _TETrace[1].cur
    /\ writes = _TETrace[1].writes
----

_next ==
    /\ \E i,j \in DOMAIN _TETrace:
        /\ \/ /\ j = i + 1
              /\ i = TLCGet("level")
        /\ given  = _TETrace[i].given
        /\ given' = _TETrace[j].given
        /\ doc  = _TETrace[i].doc
        /\ doc' = _TETrace[j].doc
        /\ cur  = _TETrace[i].cur
        /\ cur' = _TETrace[j].cur
        /\ writes  = _TETrace[i].writes
        /\ writes' = _TETrace[j].writes

\* Uncomment the ASSUME below to write the states of the error trace
\* to the given file in Json format. Note that you can pass any tuple
\* to `JsonSerialize`. For example, a sub-sequence of _TETrace.
    \* ASSUME
    \*     LET J == INSTANCE Json
    \*         IN J!JsonSerialize("OmkmIds_TTrace_1790578580.json", _TETrace)

=============================================================================

 Note that you can extract this module `OmkmIds_TEExpression`
  to a dedicated file to reuse `expression` (the module in the 
  dedicated `OmkmIds_TEExpression.tla` file takes precedence 
  over the module `OmkmIds_TEExpression` below).

---- MODULE OmkmIds_TEExpression ----
EXTENDS Sequences, TLCExt, Toolbox, Naturals, TLC, OmkmIds

expression == 
    [
        \* To hide variables of the `OmkmIds` spec from the error trace,
        \* remove the variables below.  The trace will be written in the order
        \* of the fields of this record.
        given |-> given
        ,doc |-> doc
        ,cur |-> cur
        ,writes |-> writes
        
        \* Put additional constant-, state-, and action-level expressions here:
        \* ,_stateNumber |-> _TEPosition
        \* ,_givenUnchanged |-> given = given'
        
        \* Format the `given` variable as Json value.
        \* ,_givenJson |->
        \*     LET J == INSTANCE Json
        \*     IN J!ToJson(given)
        
        \* Lastly, you may build expressions over arbitrary sets of states by
        \* leveraging the _TETrace operator.  For example, this is how to
        \* count the number of times a spec variable changed up to the current
        \* state in the trace.
        \* ,_givenModCount |->
        \*     LET F[s \in DOMAIN _TETrace] ==
        \*         IF s = 1 THEN 0
        \*         ELSE IF _TETrace[s].given # _TETrace[s-1].given
        \*             THEN 1 + F[s-1] ELSE F[s-1]
        \*     IN F[_TEPosition - 1]
    ]

=============================================================================



Parsing and semantic processing can take forever if the trace below is long.
 In this case, it is advised to uncomment the module below to deserialize the
 trace from a generated binary file.

\*
\*---- MODULE OmkmIds_TETrace ----
\*EXTENDS IOUtils, TLC, OmkmIds
\*
\*trace == IODeserialize("OmkmIds_TTrace_1790578580.bin", TRUE)
\*
\*=============================================================================
\*

---- MODULE OmkmIds_TETrace ----
EXTENDS TLC, OmkmIds

trace == 
    <<
    ([given |-> <<"r_0000", "r_0001", "none">>,cur |-> <<"r_0000", "r_0001", "none">>,doc |-> <<>>,writes |-> 0]),
    ([given |-> <<"r_0000", "r_0001", "none">>,cur |-> <<"r_0000", "r_0001", "r_0000">>,doc |-> <<"r_0000", "r_0001", "r_0000">>,writes |-> 1])
    >>
----


=============================================================================

---- CONFIG OmkmIds_TTrace_1790578580 ----
CONSTANTS
    N = 3
    UserIds = { "r_0000" , "r_0001" , "x_0007" }
    Variant = "counter"

INVARIANT
    _inv

CHECK_DEADLOCK
    \* CHECK_DEADLOCK off because of PROPERTY or INVARIANT above.
    FALSE

INIT
    _init

NEXT
    _next

CONSTANT
    _TETrace <- _trace

ALIAS
    _expression
=============================================================================
\* Generated on Mon Sep 28 06:56:21 UTC 2026