\* VibCache exhaustive: lists of <= 3 wavenumbers from {-200, 0, 100, 3000}, substitute in {None, 50}, <= 4 mutations
SPECIFICATION CSpec
CONSTANTS
  WN <- MCWN
  SUBS <- MCSUBS
  MaxLenW = 3
  MaxOps = 4
INVARIANT CacheFresh
INVARIANT OnlyPositiveOrSub
INVARIANT NoLoss
VIEW View
CHECK_DEADLOCK FALSE
