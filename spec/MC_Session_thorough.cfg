\* required behaviour (thorough): larger workspaces (4-5 NASA-7 species: every subset and order through thermdat)
SPECIFICATION Spec
CONSTANTS
  Workspaces <- MCBigWorkspaces
  MaxObjs = 7
  MaxOps = 6
  RoundMode = "nearest"
  KeepClass = TRUE
  LoseFlag = FALSE
  ThermdatAny = FALSE
  ThermdatOrder = "kept"
  RecordWs = FALSE
INVARIANT TypeOK
INVARIANT ClassSound
INVARIANT NineDigits
INVARIANT RoundIdempotent
INVARIANT PAdjCount
INVARIANT FlagKept
INVARIANT CovKept
INVARIANT SameFamily
PROPERTY ResultOrigin
PROPERTY PrecMonotone
PROPERTY SecondTripSame
PROPERTY OthersUntouched
VIEW View
CHECK_DEADLOCK FALSE
