---------------------------- MODULE MC_MiscEval ----------------------------
(***************************************************************************)
(* Constant-level check and case generator for MiscEval.tla (C13).         *)
(*  - EvalRefines: the implementation-shaped algorithm EvalAlg equals the  *)
(*    required relation on every case ("persum" accepted; the pinned       *)
(*    Shomate algorithm "lastbroadcast" is expected to be rejected);       *)
(*  - OrderFree: the required total does not depend on the order of misc;  *)
(*  - the cases, each with the totals computed here, are written as JSON   *)
(*    for replay into the real classes when OUT_FILE is set.               *)
(***************************************************************************)
EXTENDS MiscEval, Json, IOUtils, SequencesExt

CONSTANTS MaxLen,      \* longest list of attached models
          EvalAlg,     \* "persum" | "lastbroadcast"
          AlgFams,     \* families whose algorithm is EvalAlg
          Extra        \* also generate the lists of MaxLen + 1 models (one shape pair, one condition set)
VARIABLE dummy

Fams == {"Nasa", "Nasa9", "Shomate"}
Lists == UNION {{s \in [1..n -> Kinds] : \A i, j \in 1..n : s[i] = s[j] => i = j} : n \in 0..MaxLen}
LongLists == IF Extra THEN {s \in [1..(MaxLen + 1) -> Kinds] : \A i, j \in 1..(MaxLen + 1) : s[i] = s[j] => i = j}
             ELSE {}
Long == [i \in 1..50 |-> <<1, 2, 4>>[(i % 3) + 1]]
Shapes == {[ts |-> <<2>>, scalar |-> TRUE], [ts |-> <<1>>, scalar |-> FALSE],
           [ts |-> <<1, 4>>, scalar |-> FALSE], [ts |-> <<4, 2, 1>>, scalar |-> FALSE],
           [ts |-> Long, scalar |-> FALSE]}
Conds == {[P4 |-> 4, xB |-> 0, xC |-> 0], [P4 |-> 16, xB |-> 1, xC |-> 2], [P4 |-> 2, xB |-> 2, xC |-> 0]}

Inputs == {[fam |-> f, misc |-> m, none |-> FALSE, sh |-> s, c |-> c] :
              f \in Fams, m \in Lists, s \in {x \in Shapes : Len(x.ts) <= 3}, c \in Conds}
          \cup {[fam |-> f, misc |-> m, none |-> FALSE, sh |-> s, c |-> c] :
              f \in Fams, m \in {l \in Lists : Len(l) <= 2}, s \in {x \in Shapes : Len(x.ts) > 3}, c \in Conds}
          \cup {[fam |-> f, misc |-> <<>>, none |-> TRUE, sh |-> s, c |-> c] :
              f \in Fams, s \in Shapes, c \in Conds}
          \* "any number": lists one longer than MaxLen on one array shape and one scalar, one condition set
          \cup {[fam |-> f, misc |-> m, none |-> FALSE, sh |-> s, c |-> [P4 |-> 16, xB |-> 1, xC |-> 2]] :
              f \in Fams, m \in LongLists,
              s \in {[ts |-> <<2>>, scalar |-> TRUE], [ts |-> <<4, 2, 1>>, scalar |-> FALSE]}}

Case(i) == [fam |-> i.fam, misc |-> i.misc, none |-> i.none, ts |-> i.sh.ts, scalar |-> i.sh.scalar,
            P4 |-> i.c.P4, xB |-> i.c.xB, xC |-> i.c.xC,
            Cp |-> Expect(Required(i.fam, i.misc, "Cp", i.sh.ts, i.c)),
            H |-> Expect(Required(i.fam, i.misc, "H", i.sh.ts, i.c)),
            S |-> Expect(Required(i.fam, i.misc, "S", i.sh.ts, i.c)),
            G |-> Expect(RequiredG(i.fam, i.misc, i.sh.ts, i.c))]
Cases == {Case(i) : i \in Inputs}

EvalRefines == \A i \in Inputs : i.fam \in AlgFams => Refines(EvalAlg, i.fam, i.misc, i.none, i.sh.ts, i.c)
OrderFreeAll == \A i \in Inputs : (Len(i.misc) <= 3 /\ Len(i.sh.ts) <= 3) => OrderFree(i.fam, i.misc, i.sh.ts, i.c)

ASSUME PrintT(<<"CASES", Cardinality(Inputs)>>)
ASSUME OrderFreeAll
Witness == CHOOSE i \in Inputs : i.fam \in AlgFams /\ ~Refines(EvalAlg, i.fam, i.misc, i.none, i.sh.ts, i.c)
ASSUME EvalRefines \/ (PrintT(<<"WITNESS", Witness>>) /\ FALSE)      \* name a counterexample when rejected
ASSUME "OUT_FILE" \in DOMAIN IOEnv => JsonSerialize(IOEnv.OUT_FILE, SetToSeq(Cases))

DInit == dummy = 0
DNext == dummy' = dummy
=============================================================================
