---- MODULE MC_SuiteTraces_TTrace_1790589560 ----
EXTENDS MC_SuiteTraces, Sequences, TLCExt, Toolbox, MC_SuiteTraces_TEConstants, Naturals, TLC

_expression ==
    LET MC_SuiteTraces_TEExpression == INSTANCE MC_SuiteTraces_TEExpression
    IN MC_SuiteTraces_TEExpression!expression
----

_trace ==
    LET MC_SuiteTraces_TETrace == INSTANCE MC_SuiteTraces_TETrace
    IN MC_SuiteTraces_TETrace!trace
----

_inv ==
    ~(
        TLCGet("level") = Len(_TETrace)
        /\
        next = (1)
        /\
        cur = (1)
        /\
        obs = (<<<<i1, "c1">>, <<i1, "c2">>>>)
        /\
        held = ({"d"})
        /\
        pending = (<<>>)
        /\
        born = ({"d"})
        /\
        h = (<<[o |-> "d", act |-> "construct", cs |-> <<>>, ok |-> TRUE], [o |-> "none", act |-> "start", cs |-> <<>>, ok |-> TRUE], [o |-> "d", act |-> "call", cs |-> <<"c1">>, ok |-> TRUE], [o |-> "none", act |-> "end", cs |-> <<>>, ok |-> TRUE]>>)
        /\
        enabled = (TRUE)
        /\
        out = (<<[test |-> 1, obj |-> "d", cond |-> "c1"]>>)
        /\
        mode = ("reeval")
        /\
        truth = (<<<<<<"d", "c1">>>>, <<>>>>)
        /\
        reg = ((i1 :> "d" @@ i2 :> "none" @@ i3 :> "none"))
        /\
        addr = ([a |-> "none", b |-> "none", d |-> i1, r |-> "none"])
    )
----

_init ==
    /\ cur = _TETrace[1].cur
    /\ truth = _TETrace[1].truth
    /\ mode = _TETrace[1].mode
    /\ h = _TETrace[1].h
    /\ addr = _TETrace[1].addr
    /\ out = _TETrace[1].out
    /\ pending = _TETrace[1].pending
    /\ reg = _TETrace[1].reg
    /\ enabled = _TETrace[1].enabled
    /\ next = _TETrace[1].next
    /\ obs = _TETrace[1].obs
    /\ born = _TETrace[1].born
    /\ held = _TETrace[1].held
----

_next ==
    /\ \E i,j \in DOMAIN _TETrace:
        /\ \/ /\ j = i + 1
              /\ i = TLCGet("level")
        /\ cur  = _TETrace[i].cur
        /\ cur' = _TETrace[j].cur
        /\ truth  = _TETrace[i].truth
        /\ truth' = _TETrace[j].truth
        /\ mode  = _TETrace[i].mode
        /\ mode' = _TETrace[j].mode
        /\ h  = _TETrace[i].h
        /\ h' = _TETrace[j].h
        /\ addr  = _TETrace[i].addr
        /\ addr' = _TETrace[j].addr
        /\ out  = _TETrace[i].out
        /\ out' = _TETrace[j].out
        /\ pending  = _TETrace[i].pending
        /\ pending' = _TETrace[j].pending
        /\ reg  = _TETrace[i].reg
        /\ reg' = _TETrace[j].reg
        /\ enabled  = _TETrace[i].enabled
        /\ enabled' = _TETrace[j].enabled
        /\ next  = _TETrace[i].next
        /\ next' = _TETrace[j].next
        /\ obs  = _TETrace[i].obs
        /\ obs' = _TETrace[j].obs
        /\ born  = _TETrace[i].born
        /\ born' = _TETrace[j].born
        /\ held  = _TETrace[i].held
        /\ held' = _TETrace[j].held

\* Uncomment the ASSUME below to write the states of the error trace
\* to the given file in Json format. Note that you can pass any tuple
\* to `JsonSerialize`. For example, a sub-sequence of _TETrace.
    \* ASSUME
    \*     LET J == INSTANCE Json
    \*         IN J!JsonSerialize("MC_SuiteTraces_TTrace_1790589560.json", _TETrace)

=============================================================================

 Note that you can extract this module `MC_SuiteTraces_TEExpression`
  to a dedicated file to reuse `expression` (the module in the 
  dedicated `MC_SuiteTraces_TEExpression.tla` file takes precedence 
  over the module `MC_SuiteTraces_TEExpression` below).

---- MODULE MC_SuiteTraces_TEExpression ----
EXTENDS MC_SuiteTraces, Sequences, TLCExt, Toolbox, MC_SuiteTraces_TEConstants, Naturals, TLC

expression == 
    [
        \* To hide variables of the `MC_SuiteTraces` spec from the error trace,
        \* remove the variables below.  The trace will be written in the order
        \* of the fields of this record.
        cur |-> cur
        ,truth |-> truth
        ,mode |-> mode
        ,h |-> h
        ,addr |-> addr
        ,out |-> out
        ,pending |-> pending
        ,reg |-> reg
        ,enabled |-> enabled
        ,next |-> next
        ,obs |-> obs
        ,born |-> born
        ,held |-> held
        
        \* Put additional constant-, state-, and action-level expressions here:
        \* ,_stateNumber |-> _TEPosition
        \* ,_curUnchanged |-> cur = cur'
        
        \* Format the `cur` variable as Json value.
        \* ,_curJson |->
        \*     LET J == INSTANCE Json
        \*     IN J!ToJson(cur)
        
        \* Lastly, you may build expressions over arbitrary sets of states by
        \* leveraging the _TETrace operator.  For example, this is how to
        \* count the number of times a spec variable changed up to the current
        \* state in the trace.
        \* ,_curModCount |->
        \*     LET F[s \in DOMAIN _TETrace] ==
        \*         IF s = 1 THEN 0
        \*         ELSE IF _TETrace[s].cur # _TETrace[s-1].cur
        \*             THEN 1 + F[s-1] ELSE F[s-1]
        \*     IN F[_TEPosition - 1]
    ]

=============================================================================



Parsing and semantic processing can take forever if the trace below is long.
 In this case, it is advised to uncomment the module below to deserialize the
 trace from a generated binary file.

\*
\*---- MODULE MC_SuiteTraces_TETrace ----
\*EXTENDS MC_SuiteTraces, IOUtils, MC_SuiteTraces_TEConstants, TLC
\*
\*trace == IODeserialize("MC_SuiteTraces_TTrace_1790589560.bin", TRUE)
\*
\*=============================================================================
\*

---- MODULE MC_SuiteTraces_TETrace ----
EXTENDS MC_SuiteTraces, MC_SuiteTraces_TEConstants, TLC

trace == 
    <<
    ([next |-> 1,cur |-> 0,obs |-> <<>>,held |-> {},pending |-> <<>>,born |-> {},h |-> <<>>,enabled |-> TRUE,out |-> <<>>,mode |-> "idle",truth |-> <<<<>>, <<>>>>,reg |-> (i1 :> "none" @@ i2 :> "none" @@ i3 :> "none"),addr |-> [a |-> "none", b |-> "none", d |-> "none", r |-> "none"]]),
    ([next |-> 1,cur |-> 0,obs |-> <<>>,held |-> {"d"},pending |-> <<>>,born |-> {"d"},h |-> <<[o |-> "d", act |-> "construct", cs |-> <<>>, ok |-> TRUE]>>,enabled |-> TRUE,out |-> <<>>,mode |-> "idle",truth |-> <<<<>>, <<>>>>,reg |-> (i1 :> "none" @@ i2 :> "none" @@ i3 :> "none"),addr |-> [a |-> "none", b |-> "none", d |-> i1, r |-> "none"]]),
    ([next |-> 1,cur |-> 1,obs |-> <<>>,held |-> {"d"},pending |-> <<>>,born |-> {"d"},h |-> <<[o |-> "d", act |-> "construct", cs |-> <<>>, ok |-> TRUE], [o |-> "none", act |-> "start", cs |-> <<>>, ok |-> TRUE]>>,enabled |-> TRUE,out |-> <<>>,mode |-> "run",truth |-> <<<<>>, <<>>>>,reg |-> (i1 :> "none" @@ i2 :> "none" @@ i3 :> "none"),addr |-> [a |-> "none", b |-> "none", d |-> i1, r |-> "none"]]),
    ([next |-> 1,cur |-> 1,obs |-> <<<<i1, "c1">>>>,held |-> {"d"},pending |-> <<>>,born |-> {"d"},h |-> <<[o |-> "d", act |-> "construct", cs |-> <<>>, ok |-> TRUE], [o |-> "none", act |-> "start", cs |-> <<>>, ok |-> TRUE], [o |-> "d", act |-> "call", cs |-> <<"c1">>, ok |-> TRUE]>>,enabled |-> TRUE,out |-> <<>>,mode |-> "run",truth |-> <<<<<<"d", "c1">>>>, <<>>>>,reg |-> (i1 :> "d" @@ i2 :> "none" @@ i3 :> "none"),addr |-> [a |-> "none", b |-> "none", d |-> i1, r |-> "none"]]),
    ([next |-> 1,cur |-> 1,obs |-> <<<<i1, "c1">>>>,held |-> {"d"},pending |-> <<<<i1, "c1">>>>,born |-> {"d"},h |-> <<[o |-> "d", act |-> "construct", cs |-> <<>>, ok |-> TRUE], [o |-> "none", act |-> "start", cs |-> <<>>, ok |-> TRUE], [o |-> "d", act |-> "call", cs |-> <<"c1">>, ok |-> TRUE], [o |-> "none", act |-> "end", cs |-> <<>>, ok |-> TRUE]>>,enabled |-> TRUE,out |-> <<>>,mode |-> "reeval",truth |-> <<<<<<"d", "c1">>>>, <<>>>>,reg |-> (i1 :> "d" @@ i2 :> "none" @@ i3 :> "none"),addr |-> [a |-> "none", b |-> "none", d |-> i1, r |-> "none"]]),
    ([next |-> 1,cur |-> 1,obs |-> <<<<i1, "c1">>, <<i1, "c2">>>>,held |-> {"d"},pending |-> <<>>,born |-> {"d"},h |-> <<[o |-> "d", act |-> "construct", cs |-> <<>>, ok |-> TRUE], [o |-> "none", act |-> "start", cs |-> <<>>, ok |-> TRUE], [o |-> "d", act |-> "call", cs |-> <<"c1">>, ok |-> TRUE], [o |-> "none", act |-> "end", cs |-> <<>>, ok |-> TRUE]>>,enabled |-> TRUE,out |-> <<[test |-> 1, obj |-> "d", cond |-> "c1"]>>,mode |-> "reeval",truth |-> <<<<<<"d", "c1">>>>, <<>>>>,reg |-> (i1 :> "d" @@ i2 :> "none" @@ i3 :> "none"),addr |-> [a |-> "none", b |-> "none", d |-> i1, r |-> "none"]])
    >>
----


=============================================================================

---- MODULE MC_SuiteTraces_TEConstants ----
EXTENDS MC_SuiteTraces

CONSTANTS i1, i2, i3

=============================================================================

---- CONFIG MC_SuiteTraces_TTrace_1790589560 ----
CONSTANTS
    NT = 2
    Plain = { "a" , "b" , "d" }
    Comp = { "r" }
    Parts <- MCParts
    Conds = { "c1" , "c2" }
    Nb <- MCNb
    Ids = { i1 , i2 , i3 }
    MaxSteps = 5
    HoldRefs = TRUE
    ClearAtEnd = TRUE
    GuardReeval = FALSE
    KeyByCond = TRUE
    SkipNested = TRUE
    SkipRaised = TRUE
    i2 = i2
    i1 = i1
    i3 = i3

INVARIANT
    _inv

CHECK_DEADLOCK
    \* CHECK_DEADLOCK off because of PROPERTY or INVARIANT above.
    FALSE

INIT
    _init

NEXT
    _next

CONSTANT
    _TETrace <- _trace

ALIAS
    _expression
=============================================================================
\* Generated on Mon Sep 28 09:59:24 UTC 2026