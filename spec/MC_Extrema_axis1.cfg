\* exhaustive design model, numpy.nanargmin(GoRT, axis=1) as in get_GoRT_1D at the pinned commit: EXPECTED TO BE REJECTED
SPECIFICATION Spec
CONSTANTS
  MaxR = 3
  MaxP = 3
  MaxR2 = 2
  MaxP2 = 2
  Vals <- MCVals
  MaxS = 6
  SVals <- MCSVals
  MaxSteps = 2
  StepVals <- MCStepVals
  Variant = "axis1"
INVARIANT StableShape
INVARIANT StableInRange
INVARIANT StableIsArgMin
INVARIANT OneDEqualsTwoDSlice
INVARIANT SpanDefinition
CHECK_DEADLOCK FALSE
