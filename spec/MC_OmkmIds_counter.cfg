\* the counter of the source: EXPECTED TO BE REJECTED (an auto id equals a user id)
SPECIFICATION ASpec
CONSTANTS
  N = 3
  UserIds = {"r_0000", "r_0001", "x_0007"}
  Variant = "counter"
INVARIANT IdsUnique
INVARIANT UserIdsKept
INVARIANT AllHaveIds
PROPERTY StableOnRewrite
CHECK_DEADLOCK FALSE
