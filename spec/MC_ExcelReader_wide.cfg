\* header texts outside the documented forms (an ordinary-looking header that contains a special
\* token, a bare list.name repeated with an index, ...): the substring chain and the documented
\* forms disagree - EXPECTED TO BE REJECTED (ChainAgrees); ChainReport prints every such header.
\* These headers are outside the quantifier of C15 and are never fed to the conformance checks.
SPECIFICATION Spec
CONSTANTS
  Groups <- MCGroups
  GroupSheets <- MCGroupSheets
  Variant = "code"
  SetName = "wide"
INVARIANT ChainReport
INVARIANT ChainAgrees
CHECK_DEADLOCK FALSE
