----------------------------- MODULE MiscModels -----------------------------
(***************************************************************************)
(* C13, lifecycle half - "a gas-phase species carries exactly one pressure *)
(* adjustment however it was constructed, copied or reloaded, unless the   *)
(* user disables it; species of other phases carry none" - as a state      *)
(* machine over the misc_models lists of empirical species (Nasa, Nasa9,   *)
(* Shomate share EmpiricalBase.__init__, so the family is not part of the  *)
(* state).                                                                 *)
(*                                                                         *)
(* Abstract state                                                          *)
(*   heap   : the Python lists that exist; a list is a sequence of entries *)
(*            [k |-> kind, dec |-> is it a model object (TRUE) or still a  *)
(*            to_dict() dictionary (FALSE)].  List identity matters:       *)
(*            copy.copy shares the list, and the pinned constructor keeps  *)
(*            (and edits) the list object of its caller.                   *)
(*   objs   : the species that exist: phase, flag = add_gas_P_adj as the   *)
(*            user asked, lst = index into heap (0 = None), intent = the   *)
(*            kinds of the models the USER attached, in order.             *)
(*   caller : the list object the user passed to the first constructor     *)
(*            (lid, 0 = None) and what the user put into it (intent).      *)
(*   h      : history, for replay into the real classes.                   *)
(*                                                                         *)
(* Actions: Construct, Sibling (a second species constructed from the SAME *)
(* caller list, the way one coverage model list is handed to several       *)
(* species), Copy, DeepCopy, ReloadDict (cls.from_dict(o.to_dict())),      *)
(* ReloadJson (json.dumps/loads with the pmutt encoder and hook), Attach   *)
(* (the user appends a model to o.misc_models).                            *)
(*                                                                         *)
(* Narrow readings (where the property text is silent):                    *)
(*  - "carry none" for other phases and for disabled species means none is *)
(*    ADDED: a pressure adjustment the user put into the list is kept;     *)
(*  - the position of the automatic adjustment in the list is free;        *)
(*  - the user supplies at most one pressure adjustment, as an object or   *)
(*    (gas species with the flag on) in its to_dict() form.                *)
(*                                                                         *)
(* The required behaviour is the one with all four switches FALSE.  Each   *)
(* switch turns on one trait of the pinned implementation; TLC is expected *)
(* to reject every configuration that has a switch on:                     *)
(*   Alias      - __init__ keeps and edits the caller's list in place      *)
(*   IgnoreFlag - add_gas_P_adj is never read                              *)
(*   DictReload - Nasa/Shomate.from_dict pass the list of dictionaries     *)
(*                through json_to_pmutt as a whole: nothing is decoded     *)
(*                (only __init__ turns the GasPressureAdj dictionary back) *)
(*   LoseFlag   - to_dict does not record add_gas_P_adj: a reloaded        *)
(*                species is constructed with the default TRUE             *)
(***************************************************************************)
EXTENDS Integers, Sequences, FiniteSets, TLC

CONSTANTS Phases,       \* phases of the first species; "None" stands for None
          SibPhases,    \* phases of sibling species
          Givens,       \* what the user may pass: [none |-> TRUE, l |-> <<>>] or a list of kind names
          AttachKinds,  \* kinds the user may append later (never a pressure adjustment)
          MaxObjs, MaxSteps,
          Alias, IgnoreFlag, DictReload, LoseFlag

VARIABLES heap, objs, caller, h
vars == <<heap, objs, caller, h>>

IsGas(p) == p \in {"g", "gas", "G"}                 \* phase.lower() in {'g', 'gas'}
Ent(s) == IF s = "PAdjDict" THEN [k |-> "PAdj", dec |-> FALSE] ELSE [k |-> s, dec |-> TRUE]
KindOf(s) == IF s = "PAdjDict" THEN "PAdj" ELSE s
PAdjE == [k |-> "PAdj", dec |-> TRUE]

HasP(lst) == \E i \in 1..Len(lst) : lst[i].k = "PAdj"
FirstP(lst) == CHOOSE i \in 1..Len(lst) : lst[i].k = "PAdj" /\ \A j \in 1..(i - 1) : lst[j].k # "PAdj"
\* the loop of EmpiricalBase.__init__: first adjustment found is kept (its dictionary form
\* replaced by an object), otherwise one is appended
WithP(lst) == IF HasP(lst) THEN [lst EXCEPT ![FirstP(lst)] = PAdjE] ELSE Append(lst, PAdjE)
Adds(phase, flag) == IsGas(phase) /\ (flag \/ IgnoreFlag)

\* construct a species from list object lid (0 = None): new heap and the list the species holds
Build(hp, phase, flag, lid) ==
   IF lid = 0
   THEN IF Adds(phase, flag) THEN [heap |-> Append(hp, <<PAdjE>>), lst |-> Len(hp) + 1]
                             ELSE [heap |-> hp, lst |-> 0]
   ELSE LET res == IF Adds(phase, flag) THEN WithP(hp[lid]) ELSE hp[lid]
        IN IF Alias THEN [heap |-> [hp EXCEPT ![lid] = res], lst |-> lid]
                    ELSE [heap |-> Append(hp, res), lst |-> Len(hp) + 1]

Models(o) == IF o.lst = 0 THEN <<>> ELSE heap[o.lst]
Proj1(hp, o) == IF o.lst = 0 THEN <<>>
                ELSE [j \in 1..Len(hp[o.lst]) |-> IF hp[o.lst][j].dec THEN hp[o.lst][j].k ELSE "dict"]
ProjAll(hp, os) == [i \in 1..Len(os) |-> Proj1(hp, os[i])]
Rec(a, args) == [act |-> a, args |-> args, objs |-> ProjAll(heap', objs')]

Init == /\ heap = <<>> /\ objs = <<>> /\ caller = [lid |-> 0, intent |-> <<>>] /\ h = <<>>

Construct(phase, flag, given) ==          \* given = [none |-> BOOLEAN, l |-> sequence of kind names]
   /\ objs = <<>>
   /\ (\E i \in 1..Len(given.l) : given.l[i] = "PAdjDict") => (IsGas(phase) /\ flag)
   /\ LET hp0 == IF given.none THEN <<>> ELSE <<[i \in 1..Len(given.l) |-> Ent(given.l[i])]>>
          lid == IF given.none THEN 0 ELSE 1
          int == [i \in 1..Len(given.l) |-> KindOf(given.l[i])]
          b == Build(hp0, phase, flag, lid)
      IN /\ heap' = b.heap
         /\ objs' = <<[phase |-> phase, flag |-> flag, lst |-> b.lst, intent |-> int]>>
         /\ caller' = [lid |-> lid, intent |-> int]
   /\ h' = <<Rec("construct", [phase |-> phase, flag |-> flag, none |-> given.none, given |-> given.l])>>

Live == objs # <<>> /\ Len(h) < MaxSteps
Room == Len(objs) < MaxObjs

Sibling(phase, flag) ==
   /\ Live /\ Room /\ caller.lid # 0
   /\ (\E i \in 1..Len(caller.intent) : ~heap[caller.lid][i].dec) => (IsGas(phase) /\ flag)
   /\ LET b == Build(heap, phase, flag, caller.lid)
      IN /\ heap' = b.heap
         /\ objs' = Append(objs, [phase |-> phase, flag |-> flag, lst |-> b.lst, intent |-> caller.intent])
   /\ UNCHANGED caller
   /\ h' = Append(h, Rec("sibling", [phase |-> phase, flag |-> flag]))

Copy(i) ==
   /\ Live /\ Room
   /\ objs' = Append(objs, objs[i]) /\ UNCHANGED <<heap, caller>>
   /\ h' = Append(h, Rec("copy", [src |-> i]))

DeepCopy(i) ==
   /\ Live /\ Room
   /\ IF objs[i].lst = 0
      THEN objs' = Append(objs, objs[i]) /\ UNCHANGED heap
      ELSE /\ heap' = Append(heap, heap[objs[i].lst])
           /\ objs' = Append(objs, [objs[i] EXCEPT !.lst = Len(heap) + 1])
   /\ UNCHANGED caller
   /\ h' = Append(h, Rec("deepcopy", [src |-> i]))

\* to_dict() turns every model into its dictionary; what comes back depends on the path
Reload(i, via) ==
   /\ Live /\ Room
   /\ via = "dict" => \A j \in 1..Len(Models(objs[i])) : Models(objs[i])[j].dec  \* to_dict needs objects
   /\ LET o == objs[i]
          flag == IF LoseFlag THEN TRUE ELSE o.flag
          none == o.lst = 0
          ser == [j \in 1..Len(Models(o)) |->
                    [k |-> Models(o)[j].k, dec |-> ~(via = "dict" /\ DictReload)]]
          res == IF Adds(o.phase, flag) THEN WithP(ser) ELSE ser
      IN IF none /\ ~Adds(o.phase, flag)
         THEN objs' = Append(objs, o) /\ UNCHANGED heap
         ELSE /\ heap' = Append(heap, res)
              /\ objs' = Append(objs, [o EXCEPT !.lst = Len(heap) + 1])
   /\ UNCHANGED caller
   /\ h' = Append(h, Rec("reload", [src |-> i, via |-> via]))

Attach(i, kind) ==
   /\ Live /\ objs[i].lst # 0
   /\ heap' = [heap EXCEPT ![objs[i].lst] = Append(@, Ent(kind))]
   /\ objs' = [j \in 1..Len(objs) |->
                 IF objs[j].lst = objs[i].lst THEN [objs[j] EXCEPT !.intent = Append(@, kind)] ELSE objs[j]]
   /\ caller' = IF caller.lid = objs[i].lst THEN [caller EXCEPT !.intent = Append(@, kind)] ELSE caller
   /\ h' = Append(h, Rec("attach", [src |-> i, kind |-> kind]))

Next == \/ \E p \in Phases, f \in BOOLEAN, g \in Givens : Construct(p, f, g)
        \/ \E p \in SibPhases, f \in BOOLEAN : Sibling(p, f)
        \/ \E i \in 1..Len(objs) : Copy(i) \/ DeepCopy(i) \/ Reload(i, "dict") \/ Reload(i, "json")
        \/ \E i \in 1..Len(objs), k \in AttachKinds : Attach(i, k)
Spec == Init /\ [][Next]_vars

\* ---- the property
Count(s, k) == Cardinality({i \in 1..Len(s) : s[i] = k})
RECURSIVE Without(_, _)
Without(s, k) == IF s = <<>> THEN <<>>
                 ELSE IF Head(s) = k THEN Without(Tail(s), k) ELSE <<Head(s)>> \o Without(Tail(s), k)
KindsOf(o) == [j \in 1..Len(Models(o)) |-> Models(o)[j].k]

\* exactly one for enabled gas species; otherwise exactly what the user supplied (0 or 1)
PAdjCount == \A i \in 1..Len(objs) :
   Count(KindsOf(objs[i]), "PAdj") =
      IF IsGas(objs[i].phase) /\ objs[i].flag THEN 1 ELSE Count(objs[i].intent, "PAdj")
\* every model the user attached is there, once, in the user's order; nothing else is
UserModelsKept == \A i \in 1..Len(objs) :
   Without(KindsOf(objs[i]), "PAdj") = Without(objs[i].intent, "PAdj")
\* every entry is a model object (a dictionary left in the list contributes nothing and raises)
AllDecoded == \A i \in 1..Len(objs) : \A j \in 1..Len(Models(objs[i])) : Models(objs[i])[j].dec
TypeOK == /\ \A i \in 1..Len(objs) : objs[i].lst \in 0..Len(heap)
          /\ Len(objs) <= MaxObjs /\ Len(h) <= MaxSteps

\* lifecycle steps do not change what the existing species carry (except Attach through a shared list)
OthersUntouched == [][(objs # <<>> /\ h'[Len(h')].act # "attach") =>
                        \A i \in 1..Len(objs) : Proj1(heap', objs'[i]) = Proj1(heap, objs[i])]_vars

\* behaviours for replay
Done == Len(h) = MaxSteps
EmitBehaviours == Done => PrintT(<<"BEH", h>>)
=============================================================================
