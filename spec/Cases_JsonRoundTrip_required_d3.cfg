\* case generation (required tables), varied chain <= 3
INIT CInit
NEXT CNext
CONSTANTS
  Variant = "required"
  MaxDepth = 3
  MaxLife = 0
  Roots <- AllRoots
CHECK_DEADLOCK FALSE
