\* EXPECTED TO BE REJECTED (ReadBack): a species name that starts with a digit (2A) cannot be told
\* from a coefficient when the equation is read back - the reason for the narrow reading of names
SPECIFICATION Spec
CONSTANTS
  Pool <- MCPoolDigit
  Sites <- MCSites
  MaxSp = 3
  MaxRx = 2
  MaxMol = 2
  MaxCoef = 2
  GasTest = "all"
  LoneBulk = FALSE
  SDelims <- MCSDelims
  RDelims <- MCRDelims
  RunLists <- MCRunLists
  EvalMode = "each"
INVARIANT DistinctInv
INVARIANT Partition
INVARIANT EachOnceReactions
INVARIANT EachOnceElements
INVARIANT EachOnceGasSpecies
INVARIANT EachOnceSites
INVARIANT EachOnceAdsorbates
INVARIANT EachOnceBulk
INVARIANT CountsMatch
INVARIANT ReadBack
INVARIANT TubeInv
INVARIANT RunsInv
CHECK_DEADLOCK FALSE
