------------------------ MODULE MC_ExcelReader_cases ------------------------
(* (S->C) every sheet of the chosen configuration (SetName) written as JSON   *)
(* with the records the specification requires (Expected, computed by TLC).   *)
(* The driver writes each sheet into a real workbook, calls the real          *)
(* read_excel and compares the projected records with `expected` by equality. *)
EXTENDS MC_ExcelReader
Cases == UNION {{[headers |-> s.headers, rows |-> s.rows, opt |-> s.opt, expected |-> Expected(s),
                  lay |-> g.lay, how |-> g.how] : s \in MCGroupSheets(g)} : g \in MCGroups}
ASSUME JsonSerialize(IOEnv.OUT_FILE, SX!SetToSeq(Cases))
CInit == /\ grp = 0 /\ sheet = 0 /\ cl = 0 /\ im = 0 /\ pc = 0 /\ ri = 0 /\ ci = 0
         /\ rec = 0 /\ vflag = 0 /\ out = 0 /\ err = 0
CNext == UNCHANGED vars
=============================================================================
