\* X06: cutoff applied to the negated imaginary values: EXPECTED TO BE REJECTED (VibRequired)
SPECIFICATION Spec
CONSTANTS
  Lines <- MCLines
  Kinds <- OutcarKinds
  MaxLen = 2
  Cuts <- MCCuts
  Pat <- MCPat
  Variant = "imagcut"
INVARIANT InQuantifier
INVARIANT Refines
INVARIANT VibRequired
INVARIANT ScalarRequired
INVARIANT ListRequired
INVARIANT PatternRequired
INVARIANT NoiseIndependent
PROPERTY Monotone
CHECK_DEADLOCK FALSE
