\* EXPECTED TO BE REJECTED: the source as found consumes the caller's phase descriptions (phase_type popped, member lists stored)
SPECIFICATION Spec
CONSTANTS
  MaxPhases = 2
  SpCounts <- Sp2
  MaxRx = 1
  MaxIa = 0
  MaxCalls = 3
  Variant = "pinned"
  Scope = "narrow"
INVARIANT CallerDescriptionsUntouched
VIEW View
CHECK_DEADLOCK FALSE
