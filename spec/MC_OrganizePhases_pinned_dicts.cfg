\* EXPECTED TO BE REJECTED: the source as found consumes the caller's phase descriptions (phase_type popped, member lists stored)
SPECIFICATION Spec
CONSTANTS
  MaxPhases = 3
  SpCounts <- Sp3
  MaxRx = 2
  MaxIa = 1
  MaxCalls = 3
  Variant = "pinned"
  Scope = "narrow"
INVARIANT CallerDescriptionsUntouched
VIEW View
CHECK_DEADLOCK FALSE
