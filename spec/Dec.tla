------------------------------- MODULE Dec -------------------------------
(***************************************************************************)
(* Decimal floating point for TLC (32-bit integers, no reals).             *)
(*                                                                         *)
(* A number is <<m, e>> meaning m * 10^e with |m| < 10^9.  The harness     *)
(* converts an IEEE double to its correctly rounded 9-significant-digit    *)
(* decimal (harness/core.py: to_dec).  Every operation first scales its    *)
(* operands up to 9 digits (exact), so                                     *)
(*   Add/Sub : error <= 1 unit in the 9th digit of the LARGER operand      *)
(*   Mul     : exact 18-digit product truncated to 9 digits                *)
(* There is no division: quotients are cross-multiplied or come as         *)
(* witnesses from the harness that the specification verifies by Mul.      *)
(* Tolerances are stated against the magnitude of the largest operand of   *)
(* a clause (CloseAt), never against the (possibly cancelled) result.      *)
(***************************************************************************)
EXTENDS Integers, Sequences, FiniteSets

Abs(x) == IF x < 0 THEN -x ELSE x
Sgn(x) == IF x < 0 THEN -1 ELSE IF x > 0 THEN 1 ELSE 0
TDiv(a, b) == IF a >= 0 THEN a \div b ELSE -((-a) \div b)   \* toward zero

P10 == <<1, 10, 100, 1000, 10000, 100000, 1000000, 10000000, 100000000, 1000000000>>
Pow10(d) == P10[d + 1]                                       \* 0 <= d <= 9

Digits(m) == LET x == Abs(m) IN
   IF x < 10 THEN 1 ELSE IF x < 100 THEN 2 ELSE IF x < 1000 THEN 3
   ELSE IF x < 10000 THEN 4 ELSE IF x < 100000 THEN 5 ELSE IF x < 1000000 THEN 6
   ELSE IF x < 10000000 THEN 7 ELSE IF x < 100000000 THEN 8
   ELSE IF x < 1000000000 THEN 9 ELSE 10

Zero == <<0, 0>>
IsZero(a) == a[1] = 0

\* scale a mantissa up to exactly 9 digits (exact); zero stays zero
Up(a) == IF a[1] = 0 THEN Zero
         ELSE LET d == 9 - Digits(a[1]) IN
              IF d <= 0 THEN a ELSE <<a[1] * Pow10(d), a[2] - d>>

Shift(m, d) == IF d >= 10 THEN 0 ELSE IF d <= 0 THEN m ELSE TDiv(m, Pow10(d))
Norm(m, e) == IF Abs(m) >= 1000000000 THEN <<TDiv(m, 10), e + 1>> ELSE <<m, e>>

Neg(a) == <<-a[1], a[2]>>

Add(a0, b0) ==
   LET a == Up(a0)  b == Up(b0) IN
   IF a[1] = 0 THEN b ELSE IF b[1] = 0 THEN a ELSE
   LET e == IF a[2] > b[2] THEN a[2] ELSE b[2]
   IN Norm(Shift(a[1], e - a[2]) + Shift(b[1], e - b[2]), e)

Sub(a, b) == Add(a, Neg(b))

\* |a| < 10^Mag(a); Mag(0) = -1000
Mag(a) == IF a[1] = 0 THEN -1000 ELSE a[2] + Digits(a[1])

MaxInt(S) == CHOOSE x \in S : \A y \in S : y <= x
MinInt(S) == CHOOSE x \in S : \A y \in S : x <= y
MaxMag(S) == MaxInt({Mag(a) : a \in S} \cup {-1000})
MaxMagSeq(s) == MaxInt({Mag(s[i]) : i \in 1..Len(s)} \cup {-1000})

\* exact product of two 9-digit mantissas by 3-digit limbs, truncated to 9 digits
Mul(a0, b0) ==
   LET a == Up(a0)  b == Up(b0) IN
   IF a[1] = 0 \/ b[1] = 0 THEN Zero ELSE
   LET x == Abs(a[1])  y == Abs(b[1])
       a2 == x \div 1000000  a1 == (x \div 1000) % 1000  a0_ == x % 1000
       b2 == y \div 1000000  b1 == (y \div 1000) % 1000  b0_ == y % 1000
       c0 == a0_ * b0_
       c1 == a1 * b0_ + a0_ * b1
       c2 == a2 * b0_ + a1 * b1 + a0_ * b2
       c3 == a2 * b1 + a1 * b2
       c4 == a2 * b2
       \* carry propagation, base 1000
       k1 == c1 + c0 \div 1000
       k2 == c2 + k1 \div 1000
       k3 == c3 + k2 \div 1000
       k4 == c4 + k3 \div 1000            \* < 10^6 : top 6 digits (5 or 6 significant)
       l3 == k3 % 1000
       l2 == k2 % 1000
       \* value = k4*10^12 + l3*10^9 + l2*10^6 + ...  ; product in [10^16, 10^18)
       hi == IF k4 >= 100000
             THEN k4 * 1000 + l3                                  \* 9 digits, dropped 10^9
             ELSE k4 * 10000 + l3 * 10 + l2 \div 100              \* 9 digits, dropped 10^8
       sh == IF k4 >= 100000 THEN 9 ELSE 8
   IN <<Sgn(a[1]) * Sgn(b[1]) * hi, a[2] + b[2] + sh>>

Sq(a) == Mul(a, a)

\* comparisons (exact up to alignment truncation)
Lt(a, b) == Sub(a, b)[1] < 0
Le(a, b) == Sub(a, b)[1] <= 0
DAbs(a) == <<Abs(a[1]), a[2]>>
DMax(a, b) == IF Lt(a, b) THEN b ELSE a
DMin(a, b) == IF Lt(a, b) THEN a ELSE b

\* |a - b| < 10^(scaleMag - k)
CloseAt(a, b, scaleMag, k) == LET d == Sub(a, b) IN d[1] = 0 \/ Mag(d) <= scaleMag - k
\* relative to the larger of the two operands themselves
Close(a, b, k) == CloseAt(a, b, MaxMag({a, b}), k)
\* scale = largest of the given operand set (use when lhs/rhs were formed by cancellation)
CloseIn(a, b, S, k) == CloseAt(a, b, MaxMag(S \cup {a, b}), k)

\* sums and dot products over sequences of Dec
RECURSIVE SumSeq(_)
SumSeq(s) == IF Len(s) = 0 THEN Zero ELSE Add(s[1], SumSeq(Tail(s)))
RECURSIVE ProdSeq(_)
ProdSeq(s) == IF Len(s) = 0 THEN <<1, 0>> ELSE Mul(s[1], ProdSeq(Tail(s)))
Dot(u, v) == SumSeq([i \in 1..Len(u) |-> Mul(u[i], v[i])])
Scale(c, v) == [i \in 1..Len(v) |-> Mul(c, v[i])]

\* small integers and simple fractions as Dec
I(n) == <<n, 0>>
IsDec(a) == /\ a \in Seq(Int) /\ Len(a) = 2 /\ Abs(a[1]) < 1000000000
=============================================================================
