\* exhaustive design model: 3 phase objects (gas, interface, interface) x 3 species,
\* lists <= 3, every history of <= 6 calls
SPECIFICATION Spec
CONSTANTS
  PhaseObj <- P3
  KindOf <- Kinds3
  Species <- S3
  GivenLists <- Given3
  MaxLen = 3
  MaxOps = 6
  Variant = "fresh"
  ElemOf <- Elem3
  CacheVariant = "none"
  OwnerVariant = "keep"
INVARIANT TypeOK
INVARIANT ListsExactlyItsSpecies
INVARIANT OwnerAlive
INVARIANT PhaseElementsAreUnionOfSpecies
INVARIANT MovedSpeciesRefersToItsPhase
PROPERTY Frame
PROPERTY NewIsWhatWasGiven
PROPERTY OwnerAfterInsert
PROPERTY RemovalKeepsForeignReference
VIEW ViewDepth
CHECK_DEADLOCK FALSE
