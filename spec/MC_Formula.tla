----------------------------- MODULE MC_Formula -----------------------------
(***************************************************************************)
(* C14 (D) - design model of the formula reader.  One behaviour = one item *)
(* sequence; the rendering is read one character per step (action Eat)     *)
(* and at the end the counts must be the Direct meaning of the items.      *)
(* Symbols {C, H, O, Cl, Pt}, counts {none, 1, 2, 12, 999}, up to MaxItems *)
(* items (every order, every repeat pattern).                              *)
(***************************************************************************)
EXTENDS Formula, TLC
CONSTANTS Variant, MaxItems
VARIABLES items, pos, f
vars == <<items, pos, f>>

InItemSeqs(x) == \/ \E a \in FItems : x = <<a>>
                 \/ \E a \in FItems, b \in FItems : x = <<a, b>>
                 \/ MaxItems >= 3 /\ \E a \in FItems, b \in FItems, c \in FItems : x = <<a, b, c>>
                 \/ MaxItems >= 4 /\ \E a \in FSmallItems, b \in FSmallItems, c \in FSmallItems,
                                         d \in FSmallItems : x = <<a, b, c, d>>
Text == Render(items)
Init == InItemSeqs(items) /\ pos = 1 /\ f = FInit
Done == pos > Len(Text)
Eat == /\ ~Done /\ f' = FStep(Variant, f, Text[pos]) /\ pos' = pos + 1 /\ UNCHANGED items
Next == Eat
Spec == Init /\ [][Next]_vars

WellFormed == \A j \in 1..Len(items) : ItemOK(items[j])
Requirement == Done => AsSet(Flush(Variant, f)) = AsSet(Direct(items))
Functional == Done /\ Variant = "sum" => Flush(Variant, f) = ReadFormula(Text)
\* while reading, what has been flushed never exceeds the meaning (counts only grow)
Monotone == Variant = "sum" =>
              \A j \in 1..Len(f.acc) : \E m \in 1..Len(Direct(items)) :
                   Direct(items)[m].sym = f.acc[j].sym /\ f.acc[j].n <= Direct(items)[m].n
=============================================================================
