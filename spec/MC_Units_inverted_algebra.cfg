\* the inverted "L atm" entry is NOT visible to the algebra laws: expected to pass
SPECIFICATION Spec
CONSTANTS
  Variant = "inverted"
  MaxSteps = 3
INVARIANT TypeOK
INVARIANT PathIndependent
INVARIANT LawsInv
PROPERTY TypePreserved
CHECK_DEADLOCK FALSE
