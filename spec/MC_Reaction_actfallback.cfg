\* defective variant "actfallback" (act = True without a transition state returns the plain reaction
\* change): EXPECTED TO BE REJECTED by the detailed-balance invariants (ActDifference / KeqActRatio)
SPECIFICATION Spec
CONSTANTS
  Rxns <- RxnSmall
  KwParts <- KwSmall
  ProbeNames <- MCProbeNames
  ProbeBlocks <- MCProbeBlocks
  Variant = "actfallback"
  MaxCalls = 1
  MaxEdits = 0
  EditCoefs <- MCEditCoefs
  EditNames <- MCEditNames
INVARIANT TypeOK
INVARIANT ActDifference
INVARIANT KeqActRatio
INVARIANT DetailedBalance
INVARIANT ActWithoutTSRefused
INVARIANT ResultOK
PROPERTY CallerUntouched
CHECK_DEADLOCK FALSE
