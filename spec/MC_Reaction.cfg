\* (D) algebra, quick tier: 3 888 reactions with 1-2 species per side (single species with 1/4, 1, 3/2, 2; coefficient pairs (1/4,1) (1,2) (2,1/4) (1,1)), TS none/1/2,
\* three caller dictionaries, every public call once
SPECIFICATION Spec
CONSTANTS
  Rxns <- QuickRxns
  KwParts <- KwSmall
  ProbeNames <- MCProbeNames
  ProbeBlocks <- MCProbeBlocks
  Variant = "asbuilt"
  MaxCalls = 1
  MaxEdits = 0
  EditCoefs <- MCEditCoefs
  EditNames <- MCEditNames
INVARIANT TypeOK
INVARIANT RouteRefines
INVARIANT StateRefines
INVARIANT ResultOK
INVARIANT Hess
INVARIANT Antisymmetry
INVARIANT ActDifference
INVARIANT DetailedBalance
INVARIANT KeqActRatio
INVARIANT ActWithoutTSRefused
PROPERTY CallerUntouched
CHECK_DEADLOCK FALSE
