--------------------------- MODULE MC_ExcelReader ---------------------------
(* Bounded configurations of ExcelReader.tla.                                 *)
(* Pool: 30 header instances covering every documented class (two padded      *)
(* headers, element./elements., repeatable vib_wavenumber / rot_temperature / *)
(* list.sites, indexed list.w.0/.1 out of index order, dict fields, NASA      *)
(* indices 0, 6 and 3, statmech_model and the five <mode>_model columns, and  *)
(* the ordinary header n_degrees that is also a preset key, and an ordinary   *)
(* numeric column A whose values lie between 2^63 and 2^64).                  *)
(* A layout is a sequence of pool entries; a sheet is a layout, 1-3 rows and  *)
(* an emptiness pattern; the value of cell (r, c) is a function of (kind of   *)
(* the column, r, c): all numeric/string values of a sheet are distinct, so a *)
(* value found in the wrong row is recognisable.                              *)
EXTENDS ExcelReader, Json, IOUtils
SX == INSTANCE SequencesExt
CONSTANT SetName

E(h, kind, rep) == [h |-> h, kind |-> kind, rep |-> rep]
Pool == << E(H_name, "str", FALSE),                  \*  1
           E(H_potentialenergy_pad, "num", FALSE),   \*  2
           E(T_n_degrees, "num", FALSE),             \*  3
           E(H_element_O, "num", FALSE),             \*  4
           E(H_elements_H, "num", FALSE),            \*  5
           E(H_element_Pt_pad, "num", FALSE),        \*  6
           E(T_formula, "formula", FALSE),           \*  7
           E(T_vib_wavenumber, "wav", TRUE),         \*  8: positive, negative (imaginary) and zero
           E(T_rot_temperature, "num", TRUE),        \*  9
           E(H_list_sites, "mix", TRUE),             \* 10
           E(H_list_w_0, "num", FALSE),              \* 11
           E(H_list_w_1, "mix", FALSE),              \* 12
           E(H_dict_misc_a, "num", FALSE),           \* 13
           E(H_dict_misc_b, "str", FALSE),           \* 14
           E(H_nasa_a_low_0, "num", FALSE),          \* 15
           E(H_nasa_a_low_6, "num", FALSE),          \* 16
           E(H_nasa_a_high_3, "num", FALSE),         \* 17
           E(T_statmech_model, "statmech", FALSE),   \* 18
           E(T_trans_model, "trans", FALSE),         \* 19
           E(T_vib_model, "vib", FALSE),             \* 20
           E(T_rot_model, "rot", FALSE),             \* 21
           E(T_elec_model, "elec", FALSE),           \* 22
           E(T_nucl_model, "nucl", FALSE),           \* 23
           E(H_A, "big", FALSE),                     \* 24: values between 2^63 and 2^64
           \* position indices and keys of one, two digits (0 and 1 are entries 11, 12)
           E(H_list_w_9, "num", FALSE),              \* 25
           E(H_list_w_10, "mix", FALSE),             \* 26
           E(H_list_w_11, "num", FALSE),             \* 27
           E(H_list_w_29, "mix", FALSE),             \* 28
           E(H_dict_misc_10, "num", FALSE),          \* 29: key "10"
           E(H_dict_misc_a11, "mix", FALSE),         \* 30: key "a11"
           \* audit round: every documented header, parameters, cell types
           E(T_atoms, "atoms", FALSE),               \* 31
           E(T_vib_outcar, "outcar", FALSE),         \* 32
           E(<<>>, "mix", TRUE),                     \* 33: a column without header ("Unnamed: k")
           E(H_flag, "bool", FALSE),                 \* 34
           E(H_when, "date", FALSE),                 \* 35
           E(H_uni, "num", FALSE),                   \* 36: non-ASCII header padded with NBSP / tab
           E(H_x_1, "num", FALSE),                   \* 37: an ordinary header that is meant to be dotted
           E(H_element_dash_O, "num", FALSE),        \* 38: only with delimiter "-"
           E(H_elements_dash_Pt, "num", FALSE),      \* 39: only with delimiter "-"
           E(H_nasa_a_low_1, "num", FALSE), E(H_nasa_a_low_2, "num", FALSE), E(H_nasa_a_low_3, "num", FALSE),
           E(H_nasa_a_low_4, "num", FALSE), E(H_nasa_a_low_5, "num", FALSE),                    \* 40-44
           E(H_nasa_a_high_0, "num", FALSE), E(H_nasa_a_high_1, "num", FALSE), E(H_nasa_a_high_2, "num", FALSE),
           E(H_nasa_a_high_4, "num", FALSE), E(H_nasa_a_high_5, "num", FALSE), E(H_nasa_a_high_6, "num", FALSE), \* 45-50
           E(H_list_flags, "bd", TRUE),              \* 51: booleans / date-times / text in a list
           E(H_dict_misc_flag, "bd", FALSE),         \* 52
           \* differently padded repeats of the accumulating headers (pandas does not rename them)
           E(H_vib_pad, "wav", FALSE), E(H_vib_pad2, "wav", FALSE),            \* 53, 54
           E(H_rot_pad, "num", FALSE),                                          \* 55
           E(H_list_sites_pad, "mix", FALSE), E(H_list_sites_pad2, "mix", FALSE) >>   \* 56, 57

Pick(s, k) == s[(k % Len(s)) + 1]
NumVal(r, c) == LET n == 100 * r + c IN
                IF (r + c) % 3 = 0 THEN Num(DecOfInt(n))
                ELSE IF (r + c) % 3 = 1 THEN Num(DecNorm(10 * n + 5, -1))      \* n + 0.5
                ELSE Num(DecNorm(-25 * n, -2))                                 \* -n / 4
StrVal(r, c) == Str((IF c % 2 = 0 THEN <<32>> ELSE <<>>) \o <<115>> \o NatDigits(100 * r + c)
                    \o (IF r % 2 = 0 THEN <<32, 32>> ELSE <<>>))
CellVal(kind, r, c) ==
   CASE kind = "num" -> NumVal(r, c)
     [] kind = "big" -> Num(DecNorm(100 + 10 * r + c, 17))                       \* 1.11e19 .. 1.35e19
     [] kind = "str" -> StrVal(r, c)
     [] kind = "wav" -> LET n == 100 * r + c  q == (r + c) % 4 IN
                        IF q = 0 THEN ZeroN ELSE IF q = 1 THEN Num(DecNorm(10 * n + 5, -1))
                        ELSE IF q = 2 THEN Num(DecNorm(-25 * n, -2)) ELSE Num(DecOfInt(n))
     [] kind = "bool" -> [t |-> "b", v |-> << ((r + c) % 2) >>]
     [] kind = "date" -> [t |-> "t", v |-> << 2000 + r, c, 10 + r, ((r + c) % 24), 5 * r, c >>]
     [] kind = "bd" -> LET q == (r + c) % 3 IN
                       IF q = 0 THEN [t |-> "b", v |-> << (r % 2) >>]
                       ELSE IF q = 1 THEN [t |-> "t", v |-> << 1990 + r, c, 1 + r, 0, 0, 0 >>]
                       ELSE StrVal(r, c)
     [] kind = "atoms" -> Str(Pick(<<V_CO2, V_at_rel, V_at_abs, V_at_pad>>, r + c))
     [] kind = "outcar" -> Str(Pick(<<V_oc_a, V_oc_b>>, r + c))
     [] kind = "mix" -> IF (r + c) % 2 = 0 THEN NumVal(r, c) ELSE StrVal(r, c)
     \* formulas repeat down a column: the same text and the same text padded differently
     [] kind = "formula" -> Str(IF c % 2 = 1 THEN <<F_CO, F_CO_pad, F_CO>>[r]
                                ELSE <<F_H2O, F_H2O, F_CH3OH_pad>>[r])
     [] kind = "statmech" -> Str(Pick(<<T_electronic, T_constant, V_IdealGas, V_placeholder_pad, V_Harmonic>>, r + c))
     [] kind = "trans" -> Str(Pick(<<T_FreeTrans, T_EmptyMode>>, r + c))
     [] kind = "vib" -> Str(Pick(<<T_HarmonicVib, T_QRRHOVib, T_EinsteinVib, T_DebyeVib, T_emptymode>>, r + c))
     [] kind = "rot" -> Str(Pick(<<T_RigidRotor, V_EmptyModeUpper>>, r + c))
     [] kind = "elec" -> Str(Pick(<<T_GroundStateElec, T_LSR, T_EmptyMode, T_ExtendedLSR>>, r + c))
     [] kind = "nucl" -> Str(Pick(<<T_EmptyNucl, T_EmptyMode>>, r + c))

LayoutOK(s) == \A i \in 1..Len(s), j \in 1..Len(s) : i < j /\ s[i] = s[j] => Pool[s[i]].rep
Layouts(idx, lo, hi) == {s \in UNION {[1..k -> idx] : k \in lo..hi} : LayoutOK(s)}
Patterns(nr, nc) == {p \in [1..nr -> [1..nc -> BOOLEAN]] : \E k \in 1..nc : p[nr][k]}
\* the OUTCAR files the sheets can name: modes around both cut-offs used (0 and 100), an imaginary
\* mode, a mode of exactly 0 and of exactly 100 cm-1
Mode(k, w) == [k |-> k, w |-> w]
MCFiles == {<<V_oc_a, <<Mode("f", DecNorm(30431, -1)), Mode("i", DecNorm(4005, -1)), Mode("f", DecOfInt(55)),
                        Mode("f", <<0, 0>>), Mode("f", DecOfInt(100)), Mode("f", DecNorm(10001, -2))>>>>,
            <<V_oc_b_key, <<Mode("i", DecOfInt(12)), Mode("f", DecNorm(9999, -2)), Mode("i", DecNorm(5, -1))>>>>}
MCOpt == [DefaultOpt EXCEPT !.files = MCFiles]
SheetO(lay, nr, pat, opt) ==
   [opt |-> opt,
    headers |-> [k \in 1..Len(lay) |-> Pool[lay[k]].h],
    rows |-> [rr \in 1..nr |-> [k \in 1..Len(lay) |->
                 IF pat[rr][k] THEN CellVal(Pool[lay[k]].kind, rr, k) ELSE EmptyCell]]]
Sheet(lay, nr, pat) == SheetO(lay, nr, pat, MCOpt)
\* structured emptiness masks for the wide layouts
Mask(k, nc) == [j \in 1..nc |-> CASE k = 1 -> TRUE [] k = 2 -> j % 2 = 1 [] k = 3 -> j % 2 = 0
                                  [] k = 4 -> j = 1 [] k = 5 -> j = nc [] OTHER -> j # 3]
\* a group: a layout, a row count and how the emptiness patterns are drawn
GO(lay, nr, how, opt) == [lay |-> lay, nr |-> nr, how |-> how, opt |-> opt]
G(lay, nr, how) == GO(lay, nr, how, MCOpt)
MCGroupSheets(g) ==
   IF g.how = "all" THEN {SheetO(g.lay, g.nr, p, g.opt) : p \in Patterns(g.nr, Len(g.lay))}
   ELSE IF g.how = "masks" THEN {SheetO(g.lay, g.nr, [rr \in 1..g.nr |-> Mask(m[rr], Len(g.lay))], g.opt) :
                                   m \in [1..g.nr -> 1..6]}
   ELSE IF g.how = "norows" THEN {SheetO(g.lay, 0, <<>>, g.opt)}                \* header (and comment) only
   ELSE {[opt |-> g.opt, headers |-> [k \in 1..Len(g.lay) |-> g.lay[k]],        \* "texts": given headers
          rows |-> <<[k \in 1..Len(g.lay) |-> NumVal(1, k)]>>]}
GroupsOfO(lays, rowCounts, opt) == {GO(l, nr, "all", opt) : l \in lays, nr \in rowCounts}
GroupsOf(lays, rowCounts) == {G(l, nr, "all") : l \in lays, nr \in rowCounts}

Wide == { <<1, 18, 20, 8, 8>>, <<8, 4, 8, 5, 8>>, <<15, 17, 16, 2, 3>>, <<10, 13, 10, 14, 10>>,
          <<19, 21, 22, 23, 18>>, <<7, 12, 11, 9, 9>>, <<3, 18, 1, 6, 23>>, <<18, 19, 20, 3, 22>>,
          <<7, 4, 6, 1, 8>>, <<4, 7, 6, 5, 1>> }       \* formula with element.X right / left of it
IndexMix == {11, 25, 26, 27, 28}       \* list.w.0 / .9 / .10 / .11 / .29
DictMix == {13, 29, 30}                \* dict.misc.a / .10 / .a11
Rep(k, n) == [j \in 1..n |-> k]        \* n repetitions of one header: pandas appends .1 ... .(n-1)
FormulaMix == {7, 4, 6}                \* formula, element.O (overrides O), element.Pt (adds Pt)
Core == {18, 20, 3, 8, 10, 4}          \* the columns that interact most
Core2 == Core \cup {5, 7, 13, 14, 19, 23}

\* audit round: atoms, vib_outcar (+ min_frequency_cutoff / include_imaginary), a column without
\* header, booleans and date-times, non-ASCII / dotted ordinary headers, delimiter "-", every NASA
\* index, sheets without data rows
OptCut == [MCOpt EXCEPT !.cutoff = DecOfInt(100), !.imag = TRUE]
OptImag == [MCOpt EXCEPT !.imag = TRUE]
OptDash == [MCOpt EXCEPT !.delim = 45]
OutcarLays == {<<32>>, <<8, 32>>, <<32, 8>>, <<8, 32, 8>>, <<1, 32, 8>>}
AuditGroups(x) ==
   GroupsOf(Layouts({31, 1}, 1, 2), {1, 2})
   \cup UNION {GroupsOfO(OutcarLays, {2}, o) : o \in {MCOpt, OptCut, OptImag}}
   \cup GroupsOfO({<<8, 8>>, <<8, 1>>}, {2}, OptCut)              \* the options without a vib_outcar column
   \cup GroupsOf(Layouts({33, 1, 8}, 2, 2), {2})
   \cup GroupsOf(Layouts({34, 35, 2, 51, 52}, 1, 2), {2}) \cup GroupsOf({<<34, 35>>, <<51, 51>>}, {3})
   \cup GroupsOf(Layouts({36, 37, 1}, 2, 2), {2})
   \cup GroupsOfO(Layouts({38, 39, 1, 13}, 2, 2), {2}, OptDash)
   \cup {G(<<15, 40, 41, 42, 43, 44, 16>>, 2, "masks"), G(<<50, 49, 48, 17, 47, 46, 45>>, 2, "masks"),
         G(<<45, 15, 46, 40, 47, 41, 17, 42, 48, 43, 49, 44, 50, 16>>, 1, "masks")}
   \cup {G(l, 0, "norows") : l \in {<<1>>, <<1, 8, 18>>, <<32, 31>>}}
   \* padded repeats, alone and mixed with identical repeats that pandas suffixes
   \cup UNION {GroupsOf(Layouts(m, 2, 2), {2}) \cup GroupsOf(Layouts(m, 3, 3), {1}) :
                m \in {{8, 53, 54}, {9, 55}, {10, 56, 57}}}
   \cup {G(<<8, 53, 8, 54, 8>>, 2, "masks"), G(<<56, 10, 10, 57, 1>>, 2, "masks")}

\* TLC evaluates every parameterless constant definition at start-up, so the group sets take a
\* dummy argument and the configuration chooses one with the constant SetName.
QuickGroups(x) == GroupsOf(Layouts(1..24, 1, 2), {1, 2})
                  \cup GroupsOf(Layouts(Core, 3, 3), {2})
                  \cup GroupsOf(Layouts(Core, 2, 2), {3})
                  \cup {G(l, 3, "masks") : l \in Wide}
                  \cup GroupsOf(Layouts(FormulaMix, 2, 3), {2}) \cup GroupsOf(Layouts(FormulaMix, 2, 2), {3})
                  \cup GroupsOf(Layouts(IndexMix, 2, 2), {2}) \cup GroupsOf(Layouts(IndexMix, 3, 3), {1})
                  \cup GroupsOf(Layouts(DictMix, 2, 3), {1}) \cup GroupsOf(Layouts(DictMix, 2, 2), {2})
                  \cup {G(Rep(k, 12), 2, "masks") : k \in {8, 9, 10}}
                  \cup {G(Rep(k, 30), 1, "masks") : k \in {8, 10}}
                  \cup {G(<<1>> \o Rep(10, 11) \o <<8>> \o Rep(10, 2) \o Rep(8, 11), 2, "masks")}
                  \cup AuditGroups(x)
ThoroughGroups(x) == QuickGroups(x) \cup GroupsOf(Layouts(Core2, 3, 3), {2})
                     \cup GroupsOf(Layouts(Core, 4, 4), {2})
\* the sheets the thorough tier replays into the code (a subset of ThoroughGroups)
ThoroughCaseGroups(x) == QuickGroups(x) \cup GroupsOf(Layouts(Core \cup {5, 13, 23}, 3, 3), {2})
SmallGroups(x) == GroupsOf(Layouts({1, 8, 18, 20, 23}, 1, 2), {1, 2}) \cup GroupsOf(OutcarLays, {2})   \* for the rejected variants

\* ---- headers outside the documented forms (MC_ExcelReader_wide.cfg: expected to be rejected)
WideHeaders == {W_n_elements_extra, W_reformulated, W_natoms, W_nasa_note, W_playlist_x,
                W_list_vib_wavenumber_x, W_dict_a, W_vib_wavenumber_2, W_list_a_b_c,
                W_dict_list_a_b, W_list_dict_a, W_element_list_O}
WideGroups(x) == {G(<<h>>, 1, "texts") : h \in WideHeaders} \cup {G(<<H_list_w_0, H_list_w_0>>, 1, "texts")}
MCGroups == CASE SetName = "quick" -> QuickGroups(0) [] SetName = "thorough" -> ThoroughGroups(0)
              [] SetName = "thoroughcases" -> ThoroughCaseGroups(0)
              [] SetName = "small" -> SmallGroups(0) [] SetName = "wide" -> WideGroups(0)
\* printed by the wide configuration: the header names on which the substring chain and the
\* documented forms disagree (as pandas names them)
ChainReport == First /\ im # cl => PrintT(<<"CHAIN", sheet.headers, cl, im>>)
=============================================================================
