----------------------------- MODULE ExcelReader -----------------------------
(***************************************************************************)
(* C15 - the design model: pmutt.io.excel.read_excel as a row loop.        *)
(* Open (pandas delivers the frame) / BeginRow / Cell(col) / EndRow with   *)
(* the loop-carried state made explicit: `rec` is the record under         *)
(* construction (thermo_data).  Cell dispatches on the class the           *)
(* implementation's substring chain gives the pandas column name           *)
(* (ExcelRecords!ImplClass) and updates `rec` the way the setters do       *)
(* (create-or-append, create-or-set, presets fill unassigned keys).        *)
(* TLC checks on every sheet of the configuration that the loop refines    *)
(* the declarative requirement ExcelRecords!Expected:                      *)
(*   OneRecordPerRow, RowOrder, Refines, CarriedEmpty + NoLeak,            *)
(*   NoEmptyCells, NoRaise, DispatchDisjoint, ChainAgrees.                 *)
(* Variants that are expected to be rejected: "hoist" (record created once *)
(* outside the loop), "nuclelec" (nucl_model looked up among the           *)
(* electronic models - what pmutt/io/excel.py:set_nucl_model does),        *)
(* "presetover" (a preset overwrites assigned keys), "hoistflag" (the      *)
(* flag vib_set_by_outcar is not reset per row).                           *)
(***************************************************************************)
EXTENDS ExcelRecords

\* ------------------------------------------------------------------ the reader as a row loop
CONSTANTS Groups,          \* the sheets of a configuration come in groups (a layout, a row count)
          GroupSheets(_),  \* the set of sheets of a group
          Variant          \* "code" | "hoist" (record created once, outside the loop)
                           \* | "nuclelec" (nucl_model looked up among the electronic models)
                           \* | "presetover" (a preset overwrites assigned keys)
                           \* | "hoistflag" (vib_set_by_outcar initialised once, outside the loop)
\* grp: the group the sheet is taken from; sheet: the worksheet being read (fixed by Open);
\* cl / im: the documented class and the class the substring chain gives to each column (fixed
\* by Open); ri, ci: loop counters; rec: the loop-carried record under construction
\* (thermo_data); out: the list returned; err: an exception escaped
\* vflag: the loop-carried flag vib_set_by_outcar (the row's vib_wavenumbers came from an OUTCAR)
VARIABLES grp, sheet, cl, im, pc, ri, ci, rec, vflag, out, err
vars == <<grp, sheet, cl, im, pc, ri, ci, rec, vflag, out, err>>

NRows == Len(sheet.rows)
NCols == Len(sheet.headers)

AppendTo(rc, k, v) == IF Has(rc, k) THEN Put(rc, k, ListV(Append(Get(rc, k).v, v)))
                      ELSE Put(rc, k, ListV(<<v>>))
DictSet(rc, k, sub, v) == IF Has(rc, k) THEN Put(rc, k, DictV(Put(Get(rc, k).v, sub, v)))
                          ELSE Put(rc, k, DictV({<<sub, v>>}))
VecSet(rc, k, i, v) == LET old == IF Has(rc, k) THEN Get(rc, k).v ELSE [j \in 1..7 |-> ZeroN]
                       IN Put(rc, k, VecV([old EXCEPT ![i + 1] = v]))
LookupTable(key) == IF Variant = "nuclelec" /\ key = T_nucl_model THEN ModelTable(T_elec_model)
                    ELSE ModelTable(key)
\* does the dispatch of this cell raise?
Raises(rc, cls, v) ==
   \/ cls.cls \in {"raise", "outside"}
   \/ cls.cls = "outcar" /\ (v.t # "s" \/ ~Has(sheet.opt.files, v.v))            \* FileNotFoundError
   \/ cls.cls = "atoms" /\ (v.t # "s" \/ AtomsStem(v.v) \notin MoleculeNames)
   \/ cls.cls = "statmech" /\ (v.t # "s" \/ Lower(v.v) \notin PresetNames)
   \/ cls.cls = "mode" /\ (v.t # "s" \/ ~(Has(LookupTable(cls.a), v.v) \/ Lower(v.v) = T_emptymode))
   \/ cls.cls \in {"alow", "ahigh"} /\ (cls.b[1] > 6 \/ v.t # "n")
   \/ cls.cls = "formula" /\ v.t # "s"
   \/ cls.cls = "list" /\ Has(rc, cls.a) /\ Get(rc, cls.a).t # "l"
   \/ cls.cls = "dict" /\ Has(rc, cls.a) /\ Get(rc, cls.a).t # "d"
   \/ cls.cls = "element" /\ Has(rc, T_elements) /\ Get(rc, T_elements).t # "d"
Dispatch(rc, cls, v) ==
   CASE cls.cls = "unnamed" -> rc
     [] cls.cls = "ordinary" -> Put(rc, cls.a, v)
     [] cls.cls = "element" -> DictSet(rc, T_elements, cls.a, v)
     [] cls.cls = "formula" -> Put(rc, T_elements, DictV(FormulaPairs(v.v)))
     [] cls.cls = "vib" -> IF vflag THEN rc ELSE AppendTo(rc, T_vib_wavenumbers, v)
     [] cls.cls = "outcar" -> Put(rc, T_vib_wavenumbers, ListV(OutcarList(sheet.opt, v.v)))
     [] cls.cls = "atoms" -> Put(rc, T_atoms, AtomsV(AtomsStem(v.v)))
     [] cls.cls = "rot" -> AppendTo(rc, T_rot_temperatures, v)
     [] cls.cls = "list" -> AppendTo(rc, cls.a, v)
     [] cls.cls = "dict" -> DictSet(rc, cls.a, cls.b, v)
     [] cls.cls = "alow" -> VecSet(rc, T_a_low, cls.b[1], v)
     [] cls.cls = "ahigh" -> VecSet(rc, T_a_high, cls.b[1], v)
     [] cls.cls = "mode" ->
          LET tb == LookupTable(cls.a)
              k == IF Has(tb, v.v) THEN ClsV(Get(tb, v.v)) ELSE EmptyModeCls
          IN Put(Put(rc, cls.a, k), T_model, StatMechCls)
     [] cls.cls = "statmech" ->
          LET base == Put(rc, T_model, StatMechCls)
              ps == Preset(Lower(v.v))
          IN IF Variant = "presetover" THEN {p \in base : ~Has(ps, p[1])} \cup ps
             ELSE base \cup {p \in ps : ~Has(base, p[1])}
     [] OTHER -> rc

NoSheet == [headers |-> <<>>, rows |-> <<>>, opt |-> DefaultOpt]
Init == /\ grp \in Groups
        /\ sheet = NoSheet /\ cl = <<>> /\ im = <<>>
        /\ pc = "open" /\ ri = 1 /\ ci = 0 /\ rec = {} /\ vflag = FALSE /\ out = <<>> /\ err = FALSE
Open == /\ pc = "open"                                   \* pandas.read_excel: the data frame
        /\ \E s \in GroupSheets(grp) :
              /\ sheet' = s
              /\ cl' = DocClassesD(s.headers, s.opt.delim)
              /\ im' = ImplClassesD(s.headers, s.opt.delim)
              /\ pc' = IF Len(s.rows) = 0 THEN "done" ELSE "begin"
        /\ UNCHANGED <<grp, ri, ci, rec, vflag, out, err>>
BeginRow == /\ pc = "begin"
            /\ rec' = IF Variant = "hoist" THEN rec ELSE {}
            /\ vflag' = IF Variant = "hoistflag" THEN vflag ELSE FALSE
            /\ ci' = 1 /\ pc' = "cell"
            /\ UNCHANGED <<grp, sheet, cl, im, ri, out, err>>
Cell == /\ pc = "cell" /\ ci <= NCols
        /\ LET cell == sheet.rows[ri][ci]
               v == Scalar(cell)
           IN IF IsEmpty(cell) THEN rec' = rec /\ err' = err /\ pc' = pc
              ELSE IF Raises(rec, im[ci], v) THEN rec' = rec /\ err' = TRUE /\ pc' = "done"
              ELSE rec' = Dispatch(rec, im[ci], v) /\ err' = err /\ pc' = pc
        /\ vflag' = (vflag \/ (~IsEmpty(sheet.rows[ri][ci]) /\ im[ci].cls = "outcar"
                                /\ ~Raises(rec, im[ci], Scalar(sheet.rows[ri][ci]))))
        /\ ci' = ci + 1
        /\ UNCHANGED <<grp, sheet, cl, im, ri, out>>
EndRow == /\ pc = "cell" /\ ci > NCols
          /\ out' = Append(out, rec)
          /\ ri' = ri + 1
          /\ pc' = IF ri = NRows THEN "done" ELSE "begin"
          /\ UNCHANGED <<grp, sheet, cl, im, ci, rec, vflag, err>>
Next == Open \/ BeginRow \/ Cell \/ EndRow
Spec == Init /\ [][Next]_vars

\* ------------------------------------------------------------------ properties (D)
Done == pc = "done"
First == (pc = "begin" /\ ri = 1) \/ (pc = "done" /\ NRows = 0 /\ NCols > 0)   \* sheet-level properties: once
AfterRow == pc \in {"begin", "done"}            \* `out` only changes in EndRow
NoRaise == ~err
OneRecordPerRow == Done /\ ~err => Len(out) = NRows
\* the k-th record is the record of row k (order), and of row k alone (ExpectedRow sees one row)
RowOrder == AfterRow => \A k \in 1..Len(out) : out[k] = ExpectedRowO(cl, sheet.rows[k], sheet.opt)
Refines == Done /\ ~err => out = Expected(sheet)
\* the loop-carried state is empty whenever a row begins ...
CarriedEmpty == pc = "cell" /\ ci = 1 => rec = {} /\ ~vflag
\* ... so nothing of another row can be in a record
NoLeak == AfterRow => \A k \in 1..Len(out) :
                         RecAtoms(out[k]) \subseteq RowAtoms(sheet.rows[k]) \cup DerivedO(cl, sheet.rows[k], sheet.opt)
NoEmptyCells == AfterRow => \A k \in 1..Len(out) : \A a \in RecAtoms(out[k]) : a.t # "e"
KeysFunctional == Functional(rec)
HeaderTexts == {Strip(sheet.headers[k]) : k \in 1..Len(sheet.headers)}
DispatchDisjoint == First => \A t \in HeaderTexts : Cardinality(RulesD(t, sheet.opt.delim)) = 1
ChainAgrees == First => im = cl
InQuantifier == First => SheetInQuantifier(sheet)
=============================================================================
