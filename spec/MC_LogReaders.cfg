\* X06 design model, OUTCAR alphabet (13 line kinds + 3 unrelated Gaussian lines), every file of <= 3 lines;
\* the implementation-shaped automaton with read_pattern repaired (group honoured)
SPECIFICATION Spec
CONSTANTS
  Lines <- MCLines
  Kinds <- OutcarPlus
  MaxLen = 3
  Cuts <- MCCuts
  Pat <- MCPat
  Variant = "impl"
INVARIANT InQuantifier
INVARIANT Refines
INVARIANT VibRequired
INVARIANT ScalarRequired
INVARIANT ListRequired
INVARIANT PatternRequired
INVARIANT NoiseIndependent
PROPERTY Monotone
CHECK_DEADLOCK FALSE
