----------------------------- MODULE CtiLayout -----------------------------
(***************************************************************************)
(* C18 (wrapping) - what "the wrapped value preserves its tokens and       *)
(* respects the width" means.                                              *)
(*                                                                         *)
(* A LAYOUT is a sequence of lines; a line is a record                     *)
(*   len    number of characters of the line (indentation included)        *)
(*   words  the tokens of the value on that line, in order                 *)
(*   nw     number of blank-separated words on the line, where the opening *)
(*          delimiter is glued to the first token and a closing `"""`      *)
(*          standing alone counts as a word                                *)
(* Line 1 may use `line_len` characters (it starts after `field=`), every  *)
(* later line `max_line_len`.                                              *)
(*   TokensPreserved  the words of all lines, concatenated, are the input  *)
(*                    tokens in order                                      *)
(*   WidthRespected   a line longer than its limit holds exactly one word  *)
(*                    (the reading of DESIGN.md C18: an over-long line is  *)
(*                    excused only when nothing could have been moved off  *)
(*                    it)                                                  *)
(*   Delimited        the text is "..." on one line or """ ... """         *)
(* WrapVerdict is used unchanged by the design model CtiWrap.tla (on the   *)
(* layouts of the modelled algorithm) and by Trace_CtiWrap.tla (on layouts *)
(* parsed, in TLA+, from the text the real obj_to_cti returned).           *)
(* Tokens are non-empty texts without blanks or double quotes (narrow      *)
(* reading of "token"; stated in notes/C18.md).                            *)
(***************************************************************************)
EXTENDS Integers, Sequences, FiniteSets, Text
SXL == INSTANCE SequencesExt

Limit(k, ll, ml) == IF k = 1 THEN ll ELSE ml
Flatten(layout) == SXL!FlattenSeq([k \in 1..Len(layout) |-> layout[k].words])
TokensPreserved(layout, toks) == Flatten(layout) = toks
WidthRespected(layout, ll, ml) ==
   \A k \in 1..Len(layout) : layout[k].len <= Limit(k, ll, ml) \/ layout[k].nw = 1
WrapVerdict(toks, ll, ml, delimited, layout) ==
   IF ~delimited THEN {"Delimited"}
   ELSE (IF TokensPreserved(layout, toks) THEN {} ELSE {"TokensPreserved"})
        \cup (IF WidthRespected(layout, ll, ml) THEN {} ELSE {"WidthRespected"})

\* ---- parsing the text of a CTI string value into a layout ------------------
QT == 34
NL == 10
Q3 == <<QT, QT, QT>>
PositionsOf(s, c) == SXL!SetToSortSeq({i \in 1..Len(s) : s[i] = c}, LAMBDA a, b : a < b)
SplitLines(s) == LET p == PositionsOf(s, NL)  n == Len(p) IN
   [k \in 1..(n + 1) |->
      SubSeq(s, (IF k = 1 THEN 1 ELSE p[k - 1] + 1), (IF k = n + 1 THEN Len(s) ELSE p[k] - 1))]
NQuotes(s) == Cardinality({i \in 1..Len(s) : s[i] = QT})
IsMulti(s) == Len(s) >= 6 /\ SubSeq(s, 1, 3) = Q3 /\ SubSeq(s, Len(s) - 2, Len(s)) = Q3
IsSingle(s) == Len(s) >= 2 /\ s[1] = QT /\ s[Len(s)] = QT /\ ~IsMulti(s) /\ NL \notin {s[i] : i \in 1..Len(s)}
CtiFramed(s) == IsMulti(s) \/ IsSingle(s)          \* opens and closes; enough to read lines and words
CtiDelimited(s) == (IsMulti(s) /\ NQuotes(s) = 6) \/ (IsSingle(s) /\ NQuotes(s) = 2)
\* drop the delimiters from the words of a line
StripOpen(ws) == IF Len(ws) = 0 THEN ws
                 ELSE IF ws[1] = Q3 THEN Tail(ws)
                 ELSE IF Len(ws[1]) > 3 /\ SubSeq(ws[1], 1, 3) = Q3
                      THEN <<SubSeq(ws[1], 4, Len(ws[1]))>> \o Tail(ws) ELSE ws
StripClose(ws) == IF Len(ws) = 0 THEN ws
                  ELSE LET w == ws[Len(ws)]  front == SubSeq(ws, 1, Len(ws) - 1) IN
                       IF w = Q3 THEN front
                       ELSE IF Len(w) > 3 /\ SubSeq(w, Len(w) - 2, Len(w)) = Q3
                            THEN Append(front, SubSeq(w, 1, Len(w) - 3)) ELSE ws
CtiLayoutOf(s) ==        \* meaningful when CtiFramed(s)
   IF IsMulti(s)
   THEN LET raw == SplitLines(s)  n == Len(raw) IN
        [k \in 1..n |->
           LET ws == Tokens(raw[k])
               w1 == IF k = 1 THEN StripOpen(ws) ELSE ws
               w2 == IF k = n THEN StripClose(w1) ELSE w1
           IN [len |-> Len(raw[k]), words |-> w2, nw |-> Len(ws)]]
   ELSE LET ws == Tokens(SubSeq(s, 2, Len(s) - 1))
        IN <<[len |-> Len(s), words |-> ws, nw |-> Len(ws)]>>
=============================================================================
