\* implementation-shaped variant of the pinned code: update_network ignores include_TS.
\* EXPECTED TO BE REJECTED by GraphIsNetwork.
SPECIFICATION Spec
CONSTANTS
  Networks <- MCNetsTiny
  Cutoffs <- MCCutoffs
  EVals <- MCZero
  EndAtTS = FALSE
  MaxTargets = 2
  Variant = "ignoreflag"
  Order = "asc"
INVARIANT GraphIsNetwork
INVARIANT CurSimple
INVARIANT FoundSound
INVARIANT CutoffStates
INVARIANT FoundExact
INVARIANT SpanDefinition
INVARIANT MinSpan
CHECK_DEADLOCK TRUE
