-------------------------- MODULE MC_CtiWrap_cases --------------------------
(* (S->C) the finite case set replayed into the real obj_to_cti: every token  *)
(* length sequence of <= 3 tokens over {1,5,28,29,30,35} and of 4 tokens over *)
(* {1,28,30,35} (35 = longer than the widths 30, 31), with every              *)
(* (line_len, max_line_len) in {30,31,60,80,100}^2.  Each case carries what   *)
(* TLC computed with the modelled greedy algorithm: `ref`, the <<length,     *)
(* words>> of every line.  The replay reports how many real layouts equal it  *)
(* (evidence that CtiWrap.tla describes the code); the verdict on the real    *)
(* output is Trace_CtiWrap's, not layout equality.  The quick tier replays a  *)
(* rotating third of the set (by seed), the thorough tier all.                *)
EXTENDS CtiWrap, Json, IOUtils
CW == {30, 31, 60, 80, 100}
CL == {1, 5, 28, 29, 30, 35}
LenSeqs == UNION {[1..n -> CL] : n \in 0..3} \cup [1..4 -> {1, 28, 30, 35}]
Ref(lens, l, m) == LET g == GreedyLayout(lens, l, m) IN [i \in 1..Len(g) |-> <<g[i].len, g[i].nw>>]
Cases == {[lens |-> s, ll |-> l, ml |-> m, ref |-> Ref(s, l, m)] : s \in LenSeqs, l \in CW, m \in CW}
ASSUME JsonSerialize(IOEnv.OUT_FILE, SXL!SetToSeq(Cases))
=============================================================================
