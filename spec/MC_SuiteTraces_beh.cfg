\* X05 (S->C): EVERY behaviour of a small instance (one test after the import phase, 3 steps of
\* test code), printed for replay
SPECIFICATION Spec
CONSTANTS
  NT = 1
  Plain = {"a", "b"}
  Comp = {"r"}
  Parts <- MCParts
  Conds = {"c1", "c2"}
  Nb <- MCNb
  Ids = {i1, i2, i3}
  MaxSteps = 3
  HoldRefs = TRUE
  ClearAtEnd = TRUE
  GuardReeval = TRUE
  KeyByCond = TRUE
  SkipNested = TRUE
  SkipRaised = TRUE
INVARIANTS EmitBehaviours
CHECK_DEADLOCK FALSE
