\* X09 design model, implementation shape "memoid" (Keyed <- AllFields): memo keyed by id(argument) - expected: REJECTED
SPECIFICATION Spec
CONSTANTS
  NF = 3
  Vals = {1, 2}
  Methods = {1, 2}
  Refs <- RefSet
  Args <- ArgsSmall
  InitStores <- StoresSmall
  Keyed <- AllFields
  Impl = "memoid"
  MaxOps = 4
INVARIANT TypeOK
PROPERTY Repeatable
VIEW View
CHECK_DEADLOCK FALSE
