-------------------------- MODULE MC_Helpers_cases --------------------------
(* (S->C) the finite case sets replayed into the real helpers of pmutt/__init__.py.  Every case carries    *)
(* the result REQUIRED by HelpersRule, computed by TLC; the driver compares the discrete projection of     *)
(* what the real function did by equality.  `doc` = the input is inside the documented quantifier (only    *)
(* those are judged; the others are replayed as evidence).  Big = TRUE selects the thorough-tier spaces.   *)
EXTENDS HelpersWorlds, TLC, Json, IOUtils
CONSTANT Big
SX == INSTANCE SequencesExt

\* `asfound`: what the rule as found (co_varnames[:co_argcount]) does on this row - a tag for the known-finding
\* matcher (an observation equal to it and different from the requirement is the keyword-only defect), no verdict
Outcome(mode, sh, sup) == LET r == ReqOutcome(mode, sh, sup)  f == ImplOutcome("argcount", mode, sh, sup) IN
   [sup |-> sup, mode |-> mode, raised |-> r.raised, got |-> r.got, extra |-> r.extra, calls |-> r.calls,
    asfound |-> [raised |-> f.raised, got |-> f.got, extra |-> f.extra, calls |-> f.calls]]
RouteCase(sh, pool) ==
   [sh |-> sh, doc |-> Documented(sh), names |-> ReqExpected(sh), allowed |-> ReqAllowed(sh),
    asfoundnames |-> IF HasCode(sh) THEN Range(ImplExpected("argcount", sh)) \ {"self"} ELSE {},
    rows |-> {Outcome(m, sh, sup) : m \in {"pass", "force"}, sup \in SUBSET pool}]
RouteCases ==
   IF Big THEN {RouteCase(sh, {"a", "b", "c", "d", "x"}) : sh \in ShapesOf(DocKinds, PosChoices, Kw2)}
   ELSE {RouteCase(sh, {"a", "b", "c", "x"}) : sh \in ShapesOf(DocKinds, PosChoices, Kw1)}
RouteWideCases == {RouteCase(w.sh, {"a", "b", "x"}) : w \in {x \in RouteWide : x.kw = {}}}

SpecieCasesOf(worlds) ==
   UNION {{[kw |-> w.kw, name |-> n, doc |-> SpecieInQuantifier(w.kw), exp |-> ReqSpecie(w.kw, n)] : n \in w.names}
          : w \in worlds}
SpecieCases == SpecieCasesOf(IF Big THEN SpecieBig ELSE SpecieQuick) \cup SpecieCasesOf(SpecieWide)

FormatCasesOf(worlds) ==
   {[names |-> w.names, lists |-> w.lists, doc |-> FormatInQuantifier(w.names, w.lists),
     exp |-> ReqFormat(w.names, w.lists)] : w \in worlds}
FormatCases == FormatCasesOf(FormatQuick \cup (IF Big THEN FormatRaggedBig ELSE FormatRaggedQuick))

DictCases ==
   {[objs |-> w.objs, doc |-> TRUE, raises |-> ~ListInQuantifier(w.objs),
     order |-> IF ListInQuantifier(w.objs)
               THEN LET fo == SX!SetToSortSeq(FirstOccurrences(w.objs), LAMBDA a, b : a < b)
                    IN [m \in 1..Len(fo) |-> w.objs[fo[m]].key]
               ELSE <<>>,
     last |-> IF ListInQuantifier(w.objs) THEN ImplListToDict("last", w.objs) ELSE <<>>]
    : w \in DictQuick \cup DictMissing}

NpCasesDefined == {c \in [q : {w.q : w \in NpWorlds}, op : {"sum", "prod", "max", "min"}] : NpDefined(c.op, c.q)}
NpCasesOut == {[q |-> c.q, op |-> c.op, exp |-> NpValue(c.op, c.q)] : c \in NpCasesDefined}

IterCases == {[kind |-> w.kind, iterable |-> ReqIsIterable(w.kind), doc |-> w \in IterDoc,
               attrdoc |-> AttrInQuantifier(w.kind), attr |-> ReqAttrShape(w.kind)] : w \in IterWorlds}

All == [route |-> SX!SetToSeq(RouteCases), routewide |-> SX!SetToSeq(RouteWideCases),
        specie |-> SX!SetToSeq(SpecieCases), format |-> SX!SetToSeq(FormatCases),
        listdict |-> SX!SetToSeq(DictCases), npop |-> SX!SetToSeq(NpCasesOut), iter |-> SX!SetToSeq(IterCases)]
ASSUME JsonSerialize(IOEnv.OUT_FILE, All)
VARIABLE dummy
Init == dummy = 0
Next == UNCHANGED dummy
=============================================================================
