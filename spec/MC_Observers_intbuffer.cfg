\* X09 design model, implementation shape "intbuffer" (Keyed <- AllFields): result buffer with the argument's integer dtype - expected: REJECTED
SPECIFICATION Spec
CONSTANTS
  NF = 3
  Vals = {1, 2}
  Methods = {1, 2}
  Refs <- RefSet
  Args <- ArgsSmall
  InitStores <- StoresSmall
  Keyed <- AllFields
  Impl = "intbuffer"
  MaxOps = 4
INVARIANT TypeOK
PROPERTY IntEqualsFloat
VIEW View
CHECK_DEADLOCK FALSE
