\* random longer lifecycles (tlc -simulate), printed for replay
SPECIFICATION Spec
CONSTANTS
  Phases <- MCPhases
  SibPhases <- MCPhases
  Givens <- SimGivens
  AttachKinds <- SimAttach
  MaxObjs = 6
  MaxSteps = 7
  Alias = FALSE
  IgnoreFlag = FALSE
  DictReload = FALSE
  LoseFlag = FALSE
INVARIANT EmitBehaviours
CHECK_DEADLOCK FALSE
