\* X08: every behaviour of a small instance, printed for replay into the real class
SPECIFICATION Spec
CONSTANTS
  ModeIds <- MCModeIds1
  MaxModes = 1
  MaxA = 1
  MaxB = 1
  MaxC = 1
  MaxOps = 3
  Walk = TRUE
  QRotRule = "product"
  DictRule = "complete"
INVARIANT EmitBehaviours
CHECK_DEADLOCK FALSE
