---------------------------- MODULE KineticsMemo ----------------------------
(***************************************************************************)
(* C09 - one BEP object shared by a sequence of reactions.                 *)
(* Reactions live at abstract addresses; an address is free or holds a     *)
(* reaction, represented by its descriptor value (an integer).  A dropped  *)
(* reaction frees its address and a later reaction may be created at the   *)
(* same address; a live reaction's descriptor changes when the energy of   *)
(* one of its species is edited.                                           *)
(* Required: BEP._get_descriptor_val(reaction) is the descriptor of THAT   *)
(* reaction as it is NOW (DescriptorIsCurrent).                            *)
(* Variant "idmemo" (seeded change C09-11): values are remembered in a     *)
(* memo keyed by the address; rejected (address reuse, energy edit).       *)
(***************************************************************************)
EXTENDS Integers, FiniteSets, TLC
CONSTANTS Addr, DVals, MaxOps, Variant
VARIABLES live, memo, obs, ops
vars == <<live, memo, obs, ops>>
Free == 0            \* DVals are non-zero integers
NoObs == [a |-> 0, val |-> 0]

Init == /\ live = [a \in Addr |-> Free] /\ memo = [a \in Addr |-> 0]
        /\ obs = NoObs /\ ops = 0
Create(a, d) == /\ live[a] = Free /\ ops < MaxOps
                /\ live' = [live EXCEPT ![a] = d] /\ ops' = ops + 1 /\ UNCHANGED <<memo, obs>>
Drop(a) == /\ live[a] # Free /\ ops < MaxOps
           /\ live' = [live EXCEPT ![a] = Free] /\ ops' = ops + 1 /\ obs' = NoObs /\ UNCHANGED memo
EditEnergy(a, d) == /\ live[a] # Free /\ live[a] # d /\ ops < MaxOps
                    /\ live' = [live EXCEPT ![a] = d] /\ ops' = ops + 1 /\ obs' = NoObs /\ UNCHANGED memo
Eval(a) == /\ live[a] # Free /\ ops < MaxOps
           /\ LET v == IF Variant = "idmemo" /\ memo[a] # 0 THEN memo[a] ELSE live[a]
              IN /\ obs' = [a |-> a, val |-> v]
                 /\ memo' = IF Variant = "idmemo" THEN [memo EXCEPT ![a] = v] ELSE memo
           /\ ops' = ops + 1 /\ UNCHANGED live
Next == \E a \in Addr : \/ \E d \in DVals : Create(a, d) \/ EditEnergy(a, d)
                        \/ Drop(a) \/ Eval(a)
Spec == Init /\ [][Next]_vars
DescriptorIsCurrent == obs.a # 0 => obs.val = live[obs.a]
=============================================================================
