\* exhaustive design model, paths: every network of <= 3 reactions over <= 4 intermediates
\* (<= 6 nodes, <= 6 edges), both include_TS values, every source / <= 2 targets among the
\* intermediates, cutoff absent / 2 / 3 / 4
SPECIFICATION Spec
CONSTANTS
  Networks <- MCNets
  Cutoffs <- MCCutoffs
  EVals <- MCZero
  EndAtTS = FALSE
  MaxTargets = 2
  Variant = "ok"
  Order = "asc"
INVARIANT GraphIsNetwork
INVARIANT CurSimple
INVARIANT FoundSound
INVARIANT CutoffStates
INVARIANT FoundExact
INVARIANT SpanDefinition
INVARIANT MinSpan
CHECK_DEADLOCK TRUE
