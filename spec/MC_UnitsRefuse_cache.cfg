SPECIFICATION Spec
CONSTANTS
  Variant = "cache_first"
  MaxRequests = 3
INVARIANT RefusedEveryTime
VIEW View
CHECK_DEADLOCK FALSE
