------------------------------ MODULE Kinetics ------------------------------
(***************************************************************************)
(* C09 - kinetic parameters respect the reaction's thermodynamics.         *)
(*                                                                         *)
(* The abstract state is ONE reaction `rx` and the last observation `obs`  *)
(* made on it through a public getter.  State functions are small          *)
(* integers (they stand for H/RT, G/RT, ... of the reactants `r`, products *)
(* `p` and transition state `ts`), BEP slopes are stored doubled (a2 = 2a) *)
(* so that a in {0, 1/2, 1} needs no fractions; every BEP energy below is  *)
(* therefore "times two".                                                  *)
(*                                                                         *)
(* kind "plain": a reaction with or without a transition-state species;    *)
(*   the activation getters of ChemkinReaction / SurfaceReaction.          *)
(*     Required:  Clamp(dir) = Max(0, Barrier(dir), Delta(dir)),           *)
(*                Barrier = Delta when there is no transition state.       *)
(*     Implementation shape: numpy.max([0, delta(rev, act = hasTS),        *)
(*                delta(rev, act = False)]) for the dimensionless getter;  *)
(*                the getter with units calls the dimensionless one and    *)
(*                multiplies by R T > 0 (omitted: monotone).  Variant      *)
(*                "droprev" does not forward `rev` in that call, which is  *)
(*                what ChemkinReaction.get_H_act did in the pinned tree.   *)
(* kind "bep": a reaction whose transition state is a BEP relation.        *)
(*     Eact(dir) = AdjSlope(descriptor, dir) * Desc + intercept            *)
(*     BEP.H = Eact(fwd) + H_reactants,  BEP.U = Eact(ub) + U_reactants    *)
(*     where ub = fwd is required; variant "urev" uses ub = rev (the       *)
(*     pinned BEP.get_UoRT).                                               *)
(*                                                                         *)
(* Reading of the property where its text is silent (narrower reading):    *)
(*  - "the same barrier whether taken from the relation directly or from   *)
(*    the reaction's transition-state enthalpy" is demanded in the forward *)
(*    direction for every descriptor and in the reverse direction for the  *)
(*    enthalpy delta descriptors only.  RevViaHolds below is computed by   *)
(*    TLC: it is exactly {delta_H, rev_delta_H}; for the other six the     *)
(*    identity is not a consequence of the BEP definition (H_TS is         *)
(*    anchored on the reactants' enthalpy).                                *)
(*  - the adjusted slope of the non-native direction is demanded only for  *)
(*    the delta descriptors (it follows from "difference = reaction        *)
(*    change"); for reactants_/products_ descriptors only the documented   *)
(*    E_a = slope * descriptor + intercept in the forward direction.       *)
(*  - surface reactants: species adsorbed on a catalyst site (not gas, not *)
(*    the bulk species); each counts with its (integer) stoichiometry.     *)
(***************************************************************************)
EXTENDS Integers, Sequences, FiniteSets, TLC

CONSTANTS Vals,      \* integers used for state functions
          Slopes2,   \* doubled BEP slopes
          Icpts,     \* BEP intercepts
          Variant,   \* "required" | "droprev" | "urev"
          Kinds,     \* subset of {"plain", "bep"}: which reactions Init enumerates
          MaxEdits   \* how many attribute edits a behaviour may contain (second-use histories)

Dirs == {"fwd", "rev"}
Max2(a, b) == IF a < b THEN b ELSE a
Max3(a, b, c) == Max2(a, Max2(b, c))

\* ------------------------------------------------------------------ clamps
InitOf(s, dir) == IF dir = "fwd" THEN s.r ELSE s.p
FinalOf(s, dir) == IF dir = "fwd" THEN s.p ELSE s.r
Delta(s, dir) == FinalOf(s, dir) - InitOf(s, dir)
Barrier(s, dir) == IF s.hasTS THEN s.ts - InitOf(s, dir) ELSE Delta(s, dir)
Clamp(s, dir) == Max3(0, Barrier(s, dir), Delta(s, dir))

\* implementation shape (rev, act booleans as in _get_states)
DeltaAct(s, rev, act) ==
   LET init == IF rev THEN s.p ELSE s.r
       fin  == IF act THEN s.ts ELSE IF rev THEN s.r ELSE s.p
   IN fin - init
ImplDimless(s, rev) == Max3(0, DeltaAct(s, rev, s.hasTS), DeltaAct(s, rev, FALSE))
ImplWithUnits(s, rev) == IF Variant = "droprev" THEN ImplDimless(s, FALSE) ELSE ImplDimless(s, rev)

PlainRx == {[kind |-> "plain", hasTS |-> b, r |-> r, p |-> p, ts |-> t]
              : b \in BOOLEAN, r \in Vals, p \in Vals, t \in Vals}
PlainCfg == {s \in PlainRx : s.hasTS \/ s.ts = 0}      \* ts is meaningless without a TS

\* ------------------------------------------------------------------ BEP
Descriptors == {"delta_H", "rev_delta_H", "reactants_H", "products_H",
                "delta_E", "rev_delta_E", "reactants_E", "products_E"}
IsRevDelta(d) == d \in {"rev_delta_H", "rev_delta_E"}
IsDelta(d) == d \in {"delta_H", "delta_E"} \/ IsRevDelta(d)
UsesH(d) == d \in {"delta_H", "rev_delta_H", "reactants_H", "products_H"}
Native(d) == IF IsRevDelta(d) THEN "rev" ELSE "fwd"      \* direction the relation is written for

\* doubled adjusted slope: the slope itself in the native direction, slope - 1 in the other
AdjSlope2(d, dir, a2) == IF dir = Native(d) THEN a2 ELSE a2 - 2
\* is the adjusted slope of (d, dir) fixed by the property (see header)?
SlopeSpecified(d, dir) == dir = Native(d) \/ IsDelta(d)

Desc(b) ==
   LET R == IF UsesH(b.desc) THEN b.Hr ELSE b.Er
       P == IF UsesH(b.desc) THEN b.Hp ELSE b.Ep
   IN CASE b.desc \in {"delta_H", "delta_E"} -> P - R
        [] IsRevDelta(b.desc) -> R - P
        [] b.desc \in {"reactants_H", "reactants_E"} -> R
        [] OTHER -> P
Eact2(b, dir) == AdjSlope2(b.desc, dir, b.a2) * Desc(b) + 2 * b.icpt
DeltaQ(b, dir) ==                       \* reaction change of the descriptor's state function
   LET d == IF UsesH(b.desc) THEN b.Hp - b.Hr ELSE b.Ep - b.Er
   IN IF dir = "fwd" THEN d ELSE -d
\* BEP as a species of the reaction: enthalpy / internal energy of the "transition state"
HTS2(b) == Eact2(b, "fwd") + 2 * b.Hr
UBarrierDir == IF Variant = "urev" THEN "rev" ELSE "fwd"
\* internal energies: U = H - w with one work term w per state (only differences matter)
UTS2(b) == Eact2(b, UBarrierDir) + 2 * (b.Hr - b.w)
\* barrier through the reaction's transition-state enthalpy (Reaction.get_H_act)
Via2(b, dir) == HTS2(b) - 2 * (IF dir = "fwd" THEN b.Hr ELSE b.Hp)

BepCfg == {[kind |-> "bep", desc |-> d, a2 |-> a, icpt |-> c, Hr |-> hr, Hp |-> hp,
            Er |-> er, Ep |-> ep, w |-> w]
             : d \in Descriptors, a \in Slopes2, c \in Icpts,
               hr \in Vals, hp \in Vals, er \in {0, 1}, ep \in {-1, 2}, w \in {1}}

\* descriptors for which "barrier via the reaction = barrier of the relation" holds in the
\* reverse direction for every reaction (computed, then compared with the reading above)
RevViaHolds == {d \in Descriptors : \A b \in BepCfg : b.desc = d => Via2(b, "rev") = Eact2(b, "rev")}
ViaDemanded(d, dir) == dir = "fwd" \/ d \in {"delta_H", "rev_delta_H"}

\* ------------------------------------------------------------------ site density
\* a reactant is <<kind, stoich>>; kinds: gas, surface species on site A or B, bulk species
RKinds == {"gas", "surfA", "surfB", "bulk"}
IsSurf(k) == k \in {"surfA", "surfB"}
RECURSIVE NSurf(_)
NSurf(rs) == IF Len(rs) = 0 THEN 0
             ELSE (IF IsSurf(rs[1][1]) THEN rs[1][2] ELSE 0) + NSurf(Tail(rs))
RECURSIVE SiteList(_)
SiteList(rs) == IF Len(rs) = 0 THEN <<>>
                ELSE (IF IsSurf(rs[1][1]) THEN [i \in 1..rs[1][2] |-> rs[1][1]] ELSE <<>>)
                     \o SiteList(Tail(rs))
AllGas(rs) == \A i \in 1..Len(rs) : rs[i][1] = "gas"
\* A is proportional to sigma^(1 - n): exponent of the site density (0 for gas-phase reactions)
SigmaPower(rs) == IF AllGas(rs) THEN 0 ELSE 1 - NSurf(rs)
Reactant == RKinds \X {1, 2}
ReactantLists == UNION {[1..n -> Reactant] : n \in 1..3}
SiteCases == {[rs |-> rs, n |-> NSurf(rs), sites |-> SiteList(rs), gas |-> AllGas(rs),
               pw |-> SigmaPower(rs)] : rs \in {x \in ReactantLists : NSurf(x) <= 3}}
SiteOK == \A cs \in SiteCases : /\ Len(cs.sites) = cs.n
                                 /\ (cs.gas => cs.n = 0)
                                 /\ cs.pw <= 1

\* ------------------------------------------------------------------ what the writers hand out
\* SurfaceReaction.to_cti / to_omkm_yaml.  An option is "none" (not given), "zero" (given as 0.0)
\* or "val" (given, non-zero).  A value that was given is written as given (zero included);
\* otherwise: Ea of an adsorption = the requested ads_act_method, Ea of any other reaction =
\* get_G_act, A = get_A without the activation entropy (sticking coefficient for adsorption,
\* default 1/2), b = 0 for adsorption and 1 otherwise.
Opt == {"none", "zero", "val"}
AdsMethods == {"get_H_act", "get_G_act"}
HandedCfg == {[ads |-> ads, method |-> m, ea |-> ea, a |-> a, stick |-> st, beta |-> b, mw |-> mw]
                : ads \in BOOLEAN, m \in AdsMethods, ea \in Opt, a \in Opt, st \in Opt, b \in Opt,
                  mw \in BOOLEAN}
EaSource(c) == IF c.ea # "none" THEN "given" ELSE IF c.ads THEN c.method ELSE "get_G_act"
ASource(c) == IF c.ads THEN (IF c.stick = "none" THEN "half" ELSE "given_stick")
              ELSE (IF c.a = "none" THEN "get_A_no_entropy" ELSE "given_A")
BetaSource(c) == IF c.beta # "none" THEN "given" ELSE IF c.ads THEN "zero" ELSE "one"
\* a computed activation energy is a clamp, hence never negative; a given one is the user's
HandedOK == \A c \in HandedCfg :
               /\ (EaSource(c) = "given") = (c.ea # "none")
               /\ (c.ads => ASource(c) \in {"half", "given_stick"})
               /\ (~c.ads => EaSource(c) \in {"given", "get_G_act"})

\* ------------------------------------------------------------------ state machine
\* `flag` is what an implementation could cache at construction ("is the descriptor of the
\* rev_delta family"); `edits` counts the attribute assignments made after construction.
\* Required: every getter is a function of the CURRENT public attributes, i.e. an edited object
\* equals a fresh object built from its current attribute values (EditedEqualsFresh).
\* Variant "cachedflag" (seeded change C09-9) reads `flag` in _get_adjusted_slope.
VARIABLES rx, obs, flag, edits
vars == <<rx, obs, flag, edits>>

\* implementation shape of _get_adjusted_slope: which family the descriptor belongs to is read
\* from the descriptor itself (required) or from the flag cached at construction (variant)
ImplIsRev(b) == IF Variant = "cachedflag" THEN flag ELSE IsRevDelta(b.desc)
ImplEact2(b, dir) == (IF dir = (IF ImplIsRev(b) THEN "rev" ELSE "fwd") THEN b.a2 ELSE b.a2 - 2) * Desc(b)
                     + 2 * b.icpt
None == [fn |-> "none"]

Init == /\ rx \in ((IF "plain" \in Kinds THEN PlainCfg ELSE {}) \cup (IF "bep" \in Kinds THEN BepCfg ELSE {}))
        /\ obs = None
        /\ flag = (rx.kind = "bep" /\ IsRevDelta(rx.desc))
        /\ edits = 0

\* ChemkinReaction / SurfaceReaction .get_HoRT_act, .get_GoRT_act
GetActDimless(dir) ==
   /\ rx.kind = "plain"
   /\ obs' = [fn |-> "act", dir |-> dir, val |-> ImplDimless(rx, dir = "rev")]
   /\ UNCHANGED <<rx, flag, edits>>
\* .get_H_act, .get_G_act (units, T)
GetActWithUnits(dir) ==
   /\ rx.kind = "plain"
   /\ obs' = [fn |-> "act", dir |-> dir, val |-> ImplWithUnits(rx, dir = "rev")]
   /\ UNCHANGED <<rx, flag, edits>>
\* BEP.get_E_act(reaction, rev) and Reaction.get_H_act(rev) on the reaction that owns the BEP
GetBepEact(dir) ==
   /\ rx.kind = "bep"
   /\ obs' = [fn |-> "eact", dir |-> dir, val |-> ImplEact2(rx, dir),
              via |-> ImplEact2(rx, "fwd") + 2 * rx.Hr - 2 * (IF dir = "fwd" THEN rx.Hr ELSE rx.Hp)]
   /\ UNCHANGED <<rx, flag, edits>>
\* BEP.get_HoRT / BEP.get_UoRT minus the reactants' value
GetBepOffsets ==
   /\ rx.kind = "bep"
   /\ obs' = [fn |-> "offsets", h |-> HTS2(rx) - 2 * rx.Hr, u |-> UTS2(rx) - 2 * (rx.Hr - rx.w)]
   /\ UNCHANGED <<rx, flag, edits>>

\* assignment to a public attribute of the BEP (descriptor, slope, intercept) or use of the same
\* BEP with another reaction (its end-state values change); the cached flag is NOT refreshed
Edit(attr, v) ==
   /\ rx.kind = "bep" /\ edits < MaxEdits
   /\ rx' = [rx EXCEPT ![attr] = v] /\ rx' # rx
   /\ edits' = edits + 1 /\ obs' = None /\ UNCHANGED flag
EditAny == \/ \E d \in Descriptors : Edit("desc", d)
           \/ \E a \in Slopes2 : Edit("a2", a)
           \/ \E c \in Icpts : Edit("icpt", c)
           \/ \E h \in Vals : Edit("Hp", h)          \* another reaction

Next == \/ EditAny
        \/ \E dir \in Dirs : GetActDimless(dir) \/ GetActWithUnits(dir) \/ GetBepEact(dir)
        \/ GetBepOffsets
Spec == Init /\ [][Next]_vars

\* ------------------------------------------------------------------ properties
TypeOK == rx \in (PlainCfg \cup BepCfg) /\ obs.fn \in {"none", "act", "eact", "offsets"}
\* the activation value handed out is the clamp of the requested direction
ClampRefines == obs.fn = "act" => obs.val = Clamp(rx, obs.dir)
NotBelowMinimum == obs.fn = "act" => obs.val >= 0 /\ obs.val >= Delta(rx, obs.dir)
                                       /\ obs.val >= Barrier(rx, obs.dir)
\* consequence: clamped forward and reverse values still differ by the reaction change
ClampConsistent == rx.kind = "plain" => Clamp(rx, "fwd") - Clamp(rx, "rev") = Delta(rx, "fwd")
\* BEP
BepDifference == (rx.kind = "bep" /\ IsDelta(rx.desc)) =>
                    Eact2(rx, "fwd") - Eact2(rx, "rev") = 2 * DeltaQ(rx, "fwd")
BepViaReaction == (obs.fn = "eact" /\ ViaDemanded(rx.desc, obs.dir)) => obs.via = obs.val
BepUandHSameBarrier == obs.fn = "offsets" => obs.u = obs.h
EditedEqualsFresh == obs.fn = "eact" => obs.val = Eact2(rx, obs.dir)
BepOffsetIsForwardBarrier == obs.fn = "offsets" => obs.h = Eact2(rx, "fwd")
=============================================================================
