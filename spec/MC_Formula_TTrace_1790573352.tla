---- MODULE MC_Formula_TTrace_1790573352 ----
EXTENDS Sequences, TLCExt, Toolbox, Naturals, TLC, MC_Formula

_expression ==
    LET MC_Formula_TEExpression == INSTANCE MC_Formula_TEExpression
    IN MC_Formula_TEExpression!expression
----

_trace ==
    LET MC_Formula_TETrace == INSTANCE MC_Formula_TETrace
    IN MC_Formula_TETrace!trace
----

_inv ==
    ~(
        TLCGet("level") = Len(_TETrace)
        /\
        pos = (3)
        /\
        f = ([sym |-> <<67>>, acc |-> <<[sym |-> <<67>>, n |-> 1]>>, cnt |-> <<>>])
        /\
        items = (<<[sym |-> <<67>>, n |-> 0], [sym |-> <<67>>, n |-> 0]>>)
    )
----

_init ==
    /\ items = _TETrace[1].items
    /\ f = _TETrace[1].f
    /\ pos = _TETrace[1].pos
----

_next ==
    /\ \E i,j \in DOMAIN _TETrace:
        /\ \/ /\ j = i + 1
              /\ i = TLCGet("level")
        /\ items  = _TETrace[i].items
        /\ items' = _TETrace[j].items
        /\ f  = _TETrace[i].f
        /\ f' = _TETrace[j].f
        /\ pos  = _TETrace[i].pos
        /\ pos' = _TETrace[j].pos

\* Uncomment the ASSUME below to write the states of the error trace
\* to the given file in Json format. Note that you can pass any tuple
\* to `JsonSerialize`. For example, a sub-sequence of _TETrace.
    \* ASSUME
    \*     LET J == INSTANCE Json
    \*         IN J!JsonSerialize("MC_Formula_TTrace_1790573352.json", _TETrace)

=============================================================================

 Note that you can extract this module `MC_Formula_TEExpression`
  to a dedicated file to reuse `expression` (the module in the 
  dedicated `MC_Formula_TEExpression.tla` file takes precedence 
  over the module `MC_Formula_TEExpression` below).

---- MODULE MC_Formula_TEExpression ----
EXTENDS Sequences, TLCExt, Toolbox, Naturals, TLC, MC_Formula

expression == 
    [
        \* To hide variables of the `MC_Formula` spec from the error trace,
        \* remove the variables below.  The trace will be written in the order
        \* of the fields of this record.
        items |-> items
        ,f |-> f
        ,pos |-> pos
        
        \* Put additional constant-, state-, and action-level expressions here:
        \* ,_stateNumber |-> _TEPosition
        \* ,_itemsUnchanged |-> items = items'
        
        \* Format the `items` variable as Json value.
        \* ,_itemsJson |->
        \*     LET J == INSTANCE Json
        \*     IN J!ToJson(items)
        
        \* Lastly, you may build expressions over arbitrary sets of states by
        \* leveraging the _TETrace operator.  For example, this is how to
        \* count the number of times a spec variable changed up to the current
        \* state in the trace.
        \* ,_itemsModCount |->
        \*     LET F[s \in DOMAIN _TETrace] ==
        \*         IF s = 1 THEN 0
        \*         ELSE IF _TETrace[s].items # _TETrace[s-1].items
        \*             THEN 1 + F[s-1] ELSE F[s-1]
        \*     IN F[_TEPosition - 1]
    ]

=============================================================================



Parsing and semantic processing can take forever if the trace below is long.
 In this case, it is advised to uncomment the module below to deserialize the
 trace from a generated binary file.

\*
\*---- MODULE MC_Formula_TETrace ----
\*EXTENDS IOUtils, TLC, MC_Formula
\*
\*trace == IODeserialize("MC_Formula_TTrace_1790573352.bin", TRUE)
\*
\*=============================================================================
\*

---- MODULE MC_Formula_TETrace ----
EXTENDS TLC, MC_Formula

trace == 
    <<
    ([pos |-> 1,f |-> [sym |-> <<>>, acc |-> <<>>, cnt |-> <<>>],items |-> <<[sym |-> <<67>>, n |-> 0], [sym |-> <<67>>, n |-> 0]>>]),
    ([pos |-> 2,f |-> [sym |-> <<67>>, acc |-> <<>>, cnt |-> <<>>],items |-> <<[sym |-> <<67>>, n |-> 0], [sym |-> <<67>>, n |-> 0]>>]),
    ([pos |-> 3,f |-> [sym |-> <<67>>, acc |-> <<[sym |-> <<67>>, n |-> 1]>>, cnt |-> <<>>],items |-> <<[sym |-> <<67>>, n |-> 0], [sym |-> <<67>>, n |-> 0]>>])
    >>
----


=============================================================================

---- CONFIG MC_Formula_TTrace_1790573352 ----
CONSTANTS
    Variant = "overwrite"
    MaxItems = 2

INVARIANT
    _inv

CHECK_DEADLOCK
    \* CHECK_DEADLOCK off because of PROPERTY or INVARIANT above.
    FALSE

INIT
    _init

NEXT
    _next

CONSTANT
    _TETrace <- _trace

ALIAS
    _expression
=============================================================================
\* Generated on Mon Sep 28 05:29:13 UTC 2026