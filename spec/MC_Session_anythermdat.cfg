\* thermdat applied to species whose disabled adjustment or coverage model the format cannot carry (EXPECTED TO BE REJECTED)
SPECIFICATION Spec
CONSTANTS
  Workspaces <- MCWorkspaces
  MaxObjs = 7
  MaxOps = 6
  RoundMode = "nearest"
  KeepClass = TRUE
  LoseFlag = FALSE
  ThermdatAny = TRUE
  ThermdatOrder = "kept"
  RecordWs = FALSE
INVARIANT TypeOK
INVARIANT ClassSound
INVARIANT NineDigits
INVARIANT RoundIdempotent
INVARIANT PAdjCount
INVARIANT FlagKept
INVARIANT CovKept
INVARIANT SameFamily
PROPERTY ResultOrigin
PROPERTY PrecMonotone
PROPERTY SecondTripSame
PROPERTY OthersUntouched
VIEW View
CHECK_DEADLOCK FALSE
