\* EXPECTED TO BE REJECTED: the source as found, called again on the same species with rebuilt descriptions, returns phases without members (species.phase is a phase object by then)
SPECIFICATION Spec
CONSTANTS
  MaxPhases = 2
  SpCounts <- Sp2
  MaxRx = 1
  MaxIa = 0
  MaxCalls = 3
  Variant = "pinned"
  Scope = "narrow"
INVARIANT ResultIsRequired
VIEW View
CHECK_DEADLOCK FALSE
