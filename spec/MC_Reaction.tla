----------------------------- MODULE MC_Reaction -----------------------------
(***************************************************************************)
(* Constants of the C08 design model and the case generator.               *)
(* Names: A, AB, B on the reactant and product sides (A is a prefix of AB  *)
(* as H2 / H2O, B a suffix of AB as O / H2O), D in the transition state, Z *)
(* never in a reaction.  Coefficients in quarters: 1/4, 1, 3/2, 2.         *)
(***************************************************************************)
EXTENDS Reaction, Json, IOUtils, SequencesExt

A == <<"A">>
AB == <<"A", "B">>
B == <<"B">>
D == <<"D">>
Z == <<"Z">>
NameOrder == <<A, AB, B>>
BlockOrder == <<A, AB, D, Z>>
Coefs == {1, 4, 6, 8}
PairCoefs == {1, 4, 8}
Sp(n, c) == [n |-> n, c |-> c]

Sides1 == {<<Sp(NameOrder[i], a)>> : i \in 1..3, a \in Coefs}
Sides2(CoefPairs) == {<<Sp(NameOrder[ij[1]], ab[1]), Sp(NameOrder[ij[2]], ab[2])>> :
                         ij \in {x \in (1..3) \X (1..3) : x[1] <= x[2]}, ab \in CoefPairs}
TSForms == {<<>>, <<Sp(D, 4)>>, <<Sp(D, 1), Sp(A, 8)>>}

\* (D) algebra configuration: every reaction with 1-2 species per side (a species may repeat, may sit
\* on both sides and in the TS), all coefficient assignments, TS absent / 1 / 2 species
AllSides == Sides1 \cup Sides2(PairCoefs \X PairCoefs)
MCRxns == [r : AllSides, p : AllSides, t : TSForms]
\* quick tier: the coefficient pairs of two-species sides are restricted (3 888 reactions)
QuickSides == Sides1 \cup Sides2({<<1, 4>>, <<4, 8>>, <<8, 1>>, <<4, 4>>})
QuickRxns == [r : QuickSides, p : QuickSides, t : TSForms]

TVal == (A :> 2) @@ (AB :> 3) @@ (B :> 4) @@ (D :> 5) @@ (Z :> 6)
Content(n, f) == CASE f = "e" -> EmptyFn
                   [] f = "T" -> (GT :> TVal[n])
                   [] f = "P" -> (GP :> TVal[n])
                   [] f = "TP" -> (GT :> TVal[n]) @@ (GP :> TVal[n])
GlobForms == {(GT :> 1), (GT :> 1) @@ (GP :> 1)}
BlockFns(Forms) == UNION {[S -> Forms] : S \in SUBSET {A, AB, D, Z}}
Parts(g, bf) == [glob |-> g, blocks |-> [n \in DOMAIN bf |-> Content(n, bf[n])]]
AllKwParts == {Parts(g, bf) : g \in GlobForms, bf \in BlockFns({"e", "T", "P", "TP"})}
KwSmall == {Parts((GT :> 1) @@ (GP :> 1), (A :> "T") @@ (D :> "P")),
            Parts((GT :> 1), (AB :> "TP")),
            Parts((GT :> 1) @@ (GP :> 1), EmptyFn)}

\* (D) routing configuration: a few reactions, every caller dictionary
RxnSmall == {[r |-> <<Sp(A, 4)>>, p |-> <<Sp(AB, 8)>>, t |-> <<>>],
             [r |-> <<Sp(A, 4), Sp(AB, 1)>>, p |-> <<Sp(B, 4)>>, t |-> <<Sp(D, 4)>>],
             [r |-> <<Sp(AB, 8)>>, p |-> <<Sp(A, 1), Sp(B, 4)>>, t |-> <<Sp(D, 1), Sp(A, 8)>>],
             [r |-> <<Sp(A, 1), Sp(A, 4)>>, p |-> <<Sp(A, 8), Sp(B, 1)>>, t |-> <<Sp(D, 4)>>],
             [r |-> <<Sp(B, 4), Sp(AB, 4)>>, p |-> <<Sp(AB, 1)>>, t |-> <<>>],
             [r |-> <<Sp(A, 8), Sp(B, 8)>>, p |-> <<Sp(AB, 4), Sp(B, 1)>>, t |-> <<Sp(D, 8), Sp(A, 1)>>]}
MCProbeNames == {Z}
MCProbeBlocks == {EmptyFn, (GT :> 7), (GT :> 7) @@ (GP :> 8)}
MCEditCoefs == {1, 6}
MCEditNames == {AB, B}
TinyRxns == {[r |-> <<Sp(A, 4)>>, p |-> <<Sp(AB, 8)>>, t |-> <<Sp(D, 4)>>]}

\* ---- generated cases (S->C): abstract results computed here -----------------
Base == (A :> 1) @@ (AB :> 2) @@ (B :> 3) @@ (D :> 4) @@ (Z :> 5)
AtomVal(x) == 100 * Base[x[1]] + 10 * CondT(x[2]) + CondP(x[2])
RECURSIVE EvalOver(_, _)
EvalOver(l, S) == IF S = {} THEN 0 ELSE LET x == CHOOSE y \in S : TRUE IN l[x] * AtomVal(x) + EvalOver(l, S \ {x})
SpyEval(l) == EvalOver(l, DOMAIN l)          \* value in quarters

CaseSides == Sides1 \cup Sides2({<<1, 4>>, <<4, 8>>, <<8, 1>>})
CaseRxns == [r : CaseSides, p : CaseSides, t : TSForms]
CaseKwParts == {Parts(g, bf) : g \in GlobForms, bf \in BlockFns({"e", "T", "TP"})}
CaseSet == (CaseRxns \X {p \in KwSmall : p.blocks # EmptyFn}) \cup (RxnSmall \X CaseKwParts)

BlocksJ(parts) ==
   LET present == SelectSeq(BlockOrder, LAMBDA n : n \in DOMAIN parts.blocks)
   IN [i \in 1..Len(present) |-> [n |-> present[i], T |-> CondT(parts.blocks[present[i]]),
                                  P |-> CondP(parts.blocks[present[i]])]]
RouteJ(rx, kw) ==
   LET names == SelectSeq(<<A, AB, B, D, Z>>, LAMBDA n : n \in NamesOf(rx) \cup {Z})
   IN [i \in 1..Len(names) |-> [n |-> names[i], T |-> CondT(ReqRoute(kw, names[i])),
                                P |-> CondP(ReqRoute(kw, names[i]))]]
CaseJ(c) ==
   LET rx == c[1]  parts == c[2]  kw == Kw(parts)
       S(s) == SpyEval(ReqState(SideOf(rx, s), kw))
       Dl(rv, a) == IF a /\ ~HasTS(rx) THEN 0 ELSE SpyEval(ReqDelta(rx, kw, rv, a))
       ActCall(rv) == [fn |-> "delta", side |-> "-", rev |-> rv, act |-> TRUE]
   IN [r |-> rx.r, p |-> rx.p, t |-> rx.t, hasTS |-> HasTS(rx),
       actRefused |-> \A rv \in BOOLEAN : ReqResult(rx, kw, ActCall(rv)) = Refused,
       globT |-> CondT(parts.glob), globP |-> CondP(parts.glob),
       blocks |-> BlocksJ(parts), route |-> RouteJ(rx, kw),
       st |-> <<S("r"), S("p"), S("t")>>,
       dl |-> <<Dl(FALSE, FALSE), Dl(FALSE, TRUE), Dl(TRUE, FALSE), Dl(TRUE, TRUE)>>]

EmitCases == IF "OUT_FILE" \in DOMAIN IOEnv
             THEN LET cs == SetToSeq(CaseSet)
                  IN JsonSerialize(IOEnv.OUT_FILE, [i \in 1..Len(cs) |-> CaseJ(cs[i])])
             ELSE TRUE
ASSUME EmitCases
=============================================================================
