\* thorough tier: 6 phases x flag x lists of <= 3 models (or None), then every lifecycle of <= 4 steps over <= 4 species (657k states)
SPECIFICATION Spec
CONSTANTS
  Phases <- MCPhases
  SibPhases <- MCSibPhases
  Givens <- MCGivens
  AttachKinds <- MCAttach
  MaxObjs = 4
  MaxSteps = 5
  Alias = FALSE
  IgnoreFlag = FALSE
  DictReload = FALSE
  LoseFlag = FALSE
INVARIANT TypeOK
INVARIANT PAdjCount
INVARIANT UserModelsKept
INVARIANT AllDecoded
PROPERTY OthersUntouched
VIEW View
CHECK_DEADLOCK FALSE
