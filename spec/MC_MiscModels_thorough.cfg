\* thorough tier: 6 phases x flag x lists of <= 3 models (or None), then every lifecycle of <= 5 steps over <= 4 species
SPECIFICATION Spec
CONSTANTS
  Phases <- MCPhases
  SibPhases <- MCSibPhases
  Givens <- MCGivens
  AttachKinds <- MCAttach
  MaxObjs = 4
  MaxSteps = 6
  Alias = FALSE
  IgnoreFlag = FALSE
  DictReload = FALSE
  LoseFlag = FALSE
INVARIANT TypeOK
INVARIANT PAdjCount
INVARIANT UserModelsKept
INVARIANT AllDecoded
PROPERTY OthersUntouched
VIEW View
CHECK_DEADLOCK FALSE
