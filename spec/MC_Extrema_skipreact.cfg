\* exhaustive design model, states of a sequence without the reactant states of later steps (seeded change C19-2): EXPECTED TO BE REJECTED by SpanDefinition
SPECIFICATION Spec
CONSTANTS
  MaxR = 3
  MaxP = 3
  MaxR2 = 2
  MaxP2 = 2
  Vals <- MCVals
  MaxS = 6
  SVals <- MCSVals
  MaxSteps = 2
  StepVals <- MCStepVals
  Variant = "skipreact"
INVARIANT StableShape
INVARIANT StableInRange
INVARIANT StableIsArgMin
INVARIANT OneDEqualsTwoDSlice
INVARIANT SpanDefinition
CHECK_DEADLOCK FALSE
