\* case generation (required tables), varied chain <= 4
INIT CInit
NEXT CNext
CONSTANTS
  Variant = "required"
  MaxDepth = 4
  MaxLife = 0
  Roots <- AllRoots
CHECK_DEADLOCK FALSE
