\* exhaustive protocol model: one object, up to 4 calls, required behaviour
SPECIFICATION Spec
CONSTANTS
  MaxCalls = 4
  Variant = "Required"
INVARIANT TypeOK
INVARIANT NoSilentFailure
INVARIANT ConvergedReturns
INVARIANT CanComplete
PROPERTY SignalBeforeReturn
CHECK_DEADLOCK FALSE
