------------------------- MODULE MC_Thermdat_cases -------------------------
(* C05 (S->C): the finite case set of the design model as JSON.  Each case  *)
(* carries the species list, the file text written by the SPECIFICATION's   *)
(* writer and the list the specification's reader gives back (computed by   *)
(* TLC).  IOEnv.SHARD / IOEnv.NSHARD split the set over parallel TLC runs;  *)
(* IOEnv.CASESET selects "small" (quick tier) or "full".                    *)
EXTENDS MC_Thermdat, Json, IOUtils, ThermdatSetSeq

Shard == atoi(IOEnv.SHARD)
NShard == atoi(IOEnv.NSHARD)
Pool == IF IOEnv.CASESET = "full" THEN MCLists ELSE MCSmall \cup {<<SpOf(a), SpOf(b), SpOf(c)>> : a \in {3, 5, 9}, b \in {1, 4, 10}, c \in {2, 8}}
\* a deterministic key of a list, to split the pool
SpKey(s, k) == s.name[1] + 3 * Len(s.name) + 7 * k + Len(s.elems) + s.phase + Len(s.notes) + s.T[1][1] + (s.ah[1][2] % 11)
KeyOf(L) == LET f[k \in 0..Len(L)] == IF k = 0 THEN 0 ELSE f[k - 1] + SpKey(L[k], k) IN f[Len(L)]
Mine == {L \in Pool : KeyOf(L) % NShard = Shard}
CaseOf(L) == LET text == WriteFile(L)  r == ReadFile(VLayout, text)
             IN [src |-> L, text |-> text, out |-> r.out, err |-> r.err]
Cases == {CaseOf(L) : L \in Mine}
ASSUME JsonSerialize(IOEnv.OUT_FILE, SetAsSeq(Cases))
\* dummy behaviour (the case set is written by the ASSUME above)
DInit == src = <<>> /\ file = <<>> /\ i = 1 /\ rs = RS0 /\ out = <<>> /\ pc = "closed"
DNext == UNCHANGED vars
=============================================================================
