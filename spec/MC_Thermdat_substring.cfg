\* the PINNED keyword test ('THERMO' in line / 'END' in line) with the pinned reader loop: expected to be REJECTED (NoError: a record 2 arrives with no record 1 = UnboundLocalError)
SPECIFICATION Spec
CONSTANTS
  Lists <- MCSmall
  Classifier = "substring"
  ElemScan = "columns"
  Order = "reuse"
INVARIANT FileLayout
INVARIANT NoError
INVARIANT PrefixOK
INVARIANT NoDrop
INVARIANT RoundTrip
INVARIANT FoldAgrees
CHECK_DEADLOCK FALSE
