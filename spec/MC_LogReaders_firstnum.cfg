\* X06: the first number of a frequency line instead of the cm-1 one: EXPECTED TO BE REJECTED (Refines)
SPECIFICATION Spec
CONSTANTS
  Lines <- MCLines
  Kinds <- OutcarKinds
  MaxLen = 2
  Cuts <- MCCuts
  Pat <- MCPat
  Variant = "firstnum"
INVARIANT InQuantifier
INVARIANT Refines
INVARIANT VibRequired
INVARIANT ScalarRequired
INVARIANT ListRequired
INVARIANT PatternRequired
INVARIANT NoiseIndependent
PROPERTY Monotone
CHECK_DEADLOCK FALSE
