\* exhaustive design model (quick): every layout of <= 3 phases x 3 species x <= 2 reactions
\* x <= 1 interaction x species given/omitted, two calls (second on the same objects, with the
\* same or with rebuilt descriptions)
SPECIFICATION Spec
CONSTANTS
  MaxPhases = 3
  SpCounts <- Sp3
  MaxRx = 2
  MaxIa = 1
  MaxCalls = 3
  Variant = "fixed"
  Scope = "narrow"
INVARIANT QuantifierOK
INVARIANT NeverRaises
INVARIANT PhasesOK
INVARIANT SpeciesOnce
INVARIANT SpeciesWhereNamed
INVARIANT ReactionOnce
INVARIANT ReactionAtHome
INVARIANT InteractionOnce
INVARIANT InteractionWithSpecies
INVARIANT NoInvention
INVARIANT ResultIsRequired
INVARIANT CallerDescriptionsUntouched
VIEW View
CHECK_DEADLOCK FALSE
