-------------------------- MODULE MC_JsonRoundTrip --------------------------
EXTENDS JsonRoundTrip
AllRoots == Class
TopRoots == {"Reactions", "PhaseDiagram", "LSR", "StatMech", "Nasa", "References"}
OneRoot == {"FreeTrans"}
\* complete lifecycles, printed for replay into the real code
EmitLife == Len(h) = MaxLife => PrintT(<<"LIFE", h>>)
=============================================================================
