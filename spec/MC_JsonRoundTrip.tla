-------------------------- MODULE MC_JsonRoundTrip --------------------------
EXTENDS JsonRoundTrip
AllRoots == Class
OneRoot == {"FreeTrans"}
\* complete lifecycles, printed for replay into the real code
EmitLife == Len(h) = MaxLife => PrintT(<<"LIFE", h>>)

\* one pass over the state space of the pinned tables that records EVERY invariant that fails
\* somewhere (TLC register 2, -workers 1) instead of stopping at the first one
Named == << <<"NoRaise", NoRaise>>, <<"RegistryTotal", RegistryTotal>>, <<"SameClassTree", SameClassTree>>,
            <<"AttrsKept", AttrsKept>>, <<"DictUntouched", DictUntouched>>, <<"Repeatable", Repeatable>>,
            <<"Idempotent", Idempotent>> >>
RecordRejected == TLCSet(2, TLCGet(2) \cup {Named[i][1] : i \in {j \in 1..Len(Named) : ~Named[j][2]}})
RInit == Init /\ TLCSet(2, {})
RSpec == RInit /\ [][Next]_vars
PostRejected == PrintT(<<"REJECTED", TLCGet(2)>>)
=============================================================================
