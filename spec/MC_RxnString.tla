---------------------------- MODULE MC_RxnString ----------------------------
(***************************************************************************)
(* C14 (D) - design model of printing and reading reaction strings.        *)
(*                                                                         *)
(* One behaviour = one case of RxnCases.tla.  The text of the case (the    *)
(* printer's output with blanks added, or a hand-written string) is split  *)
(* on the delimiters and every species token is read character by          *)
(* character by the lexer automaton LexStep (action Char); EndTok merges   *)
(* the species into the state it belongs to.  When the text is consumed:   *)
(*   Requirement  - print cases: RoundTripOK (same names, TS, coefficients *)
(*                  within half a unit of the last printed place);         *)
(*                  hand cases: the reading is the Meaning of the tokens   *)
(*                  (omitted = 1, integer/decimal numerals, repeats        *)
(*                  summed at the first position);                         *)
(*   Functional   - the automaton run equals the functional ParseRxn the   *)
(*                  trace specification uses.                              *)
(* Variant "round" is the intended printer; "trunc" (int() of a near-      *)
(* integer, the pinned source) is kept in MC_RxnString_trunc.cfg and is    *)
(* expected to be rejected.                                                *)
(***************************************************************************)
EXTENDS RxnCases, TLC

CONSTANTS Variant, Families
VARIABLES cs, pcs, k, i, q, out
vars == <<cs, pcs, k, i, q, out>>

\* the case set as a predicate (TLC enumerates the components; no big set of records is built)
InCaseSet(x) ==
   \/ "A" \in Families /\ \E s \in SidesA, d \in FormatsA, sp \in BOOLEAN : x = CaseA(s, d, sp)
   \/ "B" \in Families /\ \E ns \in SeqsB, ts \in TSesB, p \in DelimPairs, sp \in BOOLEAN, pad \in Pads :
                               x = CaseB(ns, ts, p, sp, pad)
   \/ "C" \in Families /\ \E s \in SidesC, ts \in TSesC, lay \in LayoutsC(FALSE) : x = CaseC(s, ts, lay[1], lay[2])
   \/ "Cfull" \in Families /\ \E s \in SidesC, ts \in TSesC, lay \in LayoutsC(TRUE) : x = CaseC(s, ts, lay[1], lay[2])
   \/ "E" \in Families /\ \E ns \in SeqsE, ts \in TSesB, p \in PairsE, sp \in BOOLEAN : x = CaseE(ns, ts, p, sp)
   \/ "F" \in Families /\ \E ts \in TSesF, sp \in BOOLEAN, pad \in Pads : \E p \in PairsF(ts) : x = CaseF(ts, p, sp, pad)
   \/ "G" \in Families /\ \E ts \in TSesG, lay \in LayoutsC(TRUE) : x = CaseG(ts, lay)
   \/ "D" \in Families /\ \E s \in SidesD, ts \in TSesC, pad \in PadsD : x = CaseD(s, ts, pad)

Pieces(text, spd, rxd) ==
   LET st == SplitOn(text, rxd)
       side(n) == IF n = 1 THEN "re" ELSE IF n = Len(st) THEN "pr" ELSE IF n = 2 THEN "ts" ELSE "skip"
       toks(n) == LET ps == SplitOn(st[n], spd)
                  IN [j \in 1..Len(ps) |-> [side |-> side(n), txt |-> Trim(ps[j])]]
       f[n \in 0..Len(st)] == IF n = 0 THEN <<>> ELSE f[n - 1] \o toks(n)
   IN f[Len(st)]

Text == TextOf(cs, Variant)

NoOut == [re |-> <<>>, ts |-> <<>>, pr |-> <<>>, hasTS |-> FALSE]
Init == /\ InCaseSet(cs)
        /\ pcs = <<>> /\ k = 0 /\ i = 1 /\ q = LexInit /\ out = NoOut

\* split the text of the case on the delimiters (k = 0: not split yet)
Split == /\ k = 0
         /\ pcs' = Pieces(Text, cs.spd, cs.rxd)
         /\ out' = [NoOut EXCEPT !.hasTS = Len(SplitOn(Text, cs.rxd)) > 2]
         /\ k' = 1
         /\ UNCHANGED <<cs, i, q>>
Done == k >= 1 /\ k > Len(pcs)
Char == /\ k >= 1 /\ ~Done /\ i <= Len(pcs[k].txt)
        /\ q' = LexStep(q, pcs[k].txt[i])
        /\ i' = i + 1
        /\ UNCHANGED <<cs, pcs, k, out>>
EndTok == /\ k >= 1 /\ ~Done /\ i = Len(pcs[k].txt) + 1
          /\ out' = CASE pcs[k].side = "re" -> [out EXCEPT !.re = MergeItem(@, Item(q))]
                      [] pcs[k].side = "ts" -> [out EXCEPT !.ts = MergeItem(@, Item(q))]
                      [] pcs[k].side = "pr" -> [out EXCEPT !.pr = MergeItem(@, Item(q))]
                      [] OTHER -> out
          /\ k' = k + 1 /\ i' = 1 /\ q' = LexInit
          /\ UNCHANGED <<cs, pcs>>
Next == Split \/ Char \/ EndTok
Spec == Init /\ [][Next]_vars

\* ---- properties
ModeOK == q.mode \in {"Start", "Int", "Frac", "Gap", "Name"}
LexerShape == /\ (q.mode = "Start" => q.ip = <<>> /\ q.fp = <<>> /\ q.nm = <<>>)
              /\ (q.mode \in {"Int", "Frac", "Gap"} => q.ip # <<>> /\ q.nm = <<>>)
              /\ (q.mode = "Int" => q.fp = <<>>)
              /\ (q.mode = "Name" => q.nm # <<>>)
              /\ LexSupported(q)
HandOK == /\ SideExact(Meaning(cs.toks.re), out.re)
          /\ SideExact(Meaning(cs.toks.pr), out.pr)
          /\ SideExact(Meaning(cs.toks.ts), out.ts)
          /\ out.hasTS = (Len(cs.toks.ts) > 0)
Requirement == Done => IF cs.kind = "print" THEN RoundTripOK(cs.r, cs.d, out) ELSE HandOK
Functional == Done => out = ParseRxn(Text, cs.spd, cs.rxd)
\* the expectation handed to the replay is itself a reading that satisfies the requirement
ExpectSound == Done /\ cs.kind = "print" /\ ~CaseHasTie(cs) =>
                  \A i2 \in 1..Len(out.re) : Millionths(out.re[i2].co) = Expect(cs).re[i2].u
                                              /\ out.re[i2].co[2] % 1000 = 0 /\ out.re[i2].co[3] = 0
View == <<cs, k, i, q, out>>
=============================================================================
