\* pinned trait: __init__ edits the caller's list in place - EXPECTED TO BE REJECTED
SPECIFICATION Spec
CONSTANTS
  Phases <- MCPhases
  SibPhases <- MCSibPhases
  Givens <- MCGivens
  AttachKinds <- MCAttach
  MaxObjs = 3
  MaxSteps = 4
  Alias = TRUE
  IgnoreFlag = FALSE
  DictReload = FALSE
  LoseFlag = FALSE
INVARIANT TypeOK
INVARIANT PAdjCount
INVARIANT UserModelsKept
INVARIANT AllDecoded
PROPERTY OthersUntouched
VIEW View
CHECK_DEADLOCK FALSE
