----------------------------- MODULE UnitsWrap -----------------------------
(***************************************************************************)
(* C04 - values with units equal the dimensionless values times R (times T *)
(* for energies, divided by the molar mass for per-mass units).            *)
(*                                                                         *)
(* The design model is the *case space* of the property and the wrapper    *)
(* relation on it:                                                         *)
(*   Cells    = class x form x quantity x state x option set x T-shape     *)
(*              filtered by an applicability predicate transcribed from    *)
(*              the public API (which class documents which getter, which  *)
(*              keyword each getter accepts);                              *)
(*   UnitsOf  = the unit strings a cell can be asked in: every key of the  *)
(*              documented R table (13 molar + 3 per-molecule), and for    *)
(*              species classes the per-mass forms mol -> g, kg;           *)
(*   Required = what a dimensional getter has to do, as a symbolic value:  *)
(*              call the dimensionless twin with the SAME keywords (minus  *)
(*              `units`, plus the documented defaults), multiply by T iff  *)
(*              the quantity is an energy, by R looked up under the        *)
(*              mol-form key, divide by the molar mass in the mass unit;   *)
(*   Impl     = the wrapper as written, selected by Variant.  "required"   *)
(*              forwards everything.  The other variants transcribe the    *)
(*              wrappers of the pinned tree that do something else; each   *)
(*              has its own cfg which TLC is EXPECTED TO REJECT, and the   *)
(*              counterexample is the characterisation of the defect.      *)
(* A call is a two-step behaviour (call -> ret); the invariant Refines     *)
(* compares Impl with Required on the keywords the twin can depend on      *)
(* (Relevant), so a wrapper that drops a keyword without observable        *)
(* effect (variant nasa_Cp) is accepted by TLC - as it is by the property. *)
(*                                                                         *)
(* Narrow readings (the property text is silent; written down here):       *)
(*  - empirical classes: only the getters they define (Cp, H, S, G);       *)
(*    inherited _ModelBase defaults (Cv, U, F of a polynomial) are not in  *)
(*    the quantifier.  BEP and SingleNasa9 are not model classes of the    *)
(*    property.                                                            *)
(*  - per-mass forms: g and kg (the two named by the property); they exist *)
(*    only for classes that carry `elements` (StatMech, Nasa, Nasa9,       *)
(*    Shomate).  Reactions and bare modes are asked in molar and           *)
(*    per-molecule units only (a mode has no composition: the library      *)
(*    documents an AttributeError there).                                  *)
(*  - an option is either omitted from BOTH calls or given to BOTH with    *)
(*    the same value.  A documented default of the dimensional getter      *)
(*    (T = 298.15 K; P = 1 bar in SurfaceReaction.get_G_act) is what the   *)
(*    twin must receive when the caller omits it.                          *)
(*  - raise_error / raise_warning and species-specific `<name>_kwargs`     *)
(*    are not enumerated.                                                  *)
(* Quantifier audit (round 5): every class that inherits the generic       *)
(* getters is a class of the space (auxiliary models GasPressureAdj,       *)
(* PiecewiseCovEffect, Reference, References, SingleNasa9; the inherited   *)
(* Cv, U, F of the polynomials); reactions are built from StatMech or      *)
(* NASA species (spk); an accepted option is omitted, set, or (expl)       *)
(* passed explicitly at its documented default value.                      *)
(***************************************************************************)
EXTENDS Integers, Sequences, FiniteSets, TLC

CONSTANT Variant,    \* "required" | "modes_elements" | "shomate_S" | "chemkin_Hact" | "nasa_Cp" | "shomate_native" | "cv_permass"
         ShomateOwn, \* the units (records of Units) a Shomate polynomial is stored in
         ClassFilter \* the classes enumerated (all of them, except in the cfgs of the deviating variants)

\* ---------------------------------------------------------------- classes
ModeKinds == {"FreeTrans", "HarmonicVib", "QRRHOVib", "EinsteinVib", "DebyeVib",
              "RigidRotor", "GroundStateElec", "EmptyNucl", "EmptyMode", "ConstantMode"}
\* other classes that inherit the generic dimensional getters of _ModelBase
AuxCls == {"GasPressureAdj", "PiecewiseCovEffect", "Reference", "References", "SingleNasa9"}
Empirical == {"Nasa", "Nasa9", "Shomate"}
SpeciesCls == {"StatMech"} \cup Empirical
RxnCls == {"Reaction", "ChemkinReaction", "SurfaceReaction"}
Classes == ModeKinds \cup AuxCls \cup SpeciesCls \cup RxnCls
\* classes that carry `elements`: the per-mass unit forms exist for them
MassCls == SpeciesCls \cup {"Reference"}

Quantities == {"Cv", "Cp", "U", "H", "S", "F", "G", "E"}
Energy(q) == q \in {"U", "H", "F", "G", "E"}
Forms == {"plain", "state", "delta", "act"}
States == {"reactants", "products", "transition state"}

\* species a reaction is built from (ChemkinReaction needs .phase: NASA species only)
SpeciesKinds(cls) == CASE cls \in {"Reaction", "SurfaceReaction"} -> {"StatMech", "Nasa"}
                       [] cls = "ChemkinReaction" -> {"Nasa"}
                       [] OTHER -> {"none"}

QOf(kind) == CASE kind = "StatMech"  -> Quantities
               [] kind = "SingleNasa9" -> {"Cp", "H", "S", "G"}
               [] OTHER -> Quantities \ {"E"}     \* modes, auxiliary models, polynomials (Cv, U, F inherited)
\* what a reaction of NASA species is asked (the inherited zeros of a polynomial are asked on the species)
QRx(spk) == IF spk = "StatMech" THEN Quantities ELSE {"Cp", "H", "S", "G"}

HasGetter(cls, form, q, spk) ==
   IF cls \in RxnCls
   THEN form # "plain" /\ (q \in QRx(spk) \/ (form = "act" /\ q = "E"))
   ELSE form = "plain" /\ q \in QOf(cls)

\* ------------------------------------------------------------ method names
Suffix(q) == IF Energy(q) THEN "oRT" ELSE "oR"
Getter(form, q) == CASE form = "plain" -> "get_" \o q
                     [] form = "state" -> "get_" \o q \o "_state"
                     [] form = "delta" -> "get_delta_" \o q
                     [] OTHER          -> "get_" \o q \o "_act"
Twin(form, q) == Getter(form, q \o Suffix(q))

\* ------------------------------------------------------------------- units
MolEnergies == {"J", "kJ", "L kPa", "cm3 kPa", "m3 Pa", "cm3 MPa", "m3 bar", "L bar",
                "L torr", "cal", "kcal", "L atm", "cm3 atm"}
MolecEnergies == {"eV", "Eh", "Ha"}
Units == [e : MolEnergies, per : {"mol", "g", "kg"}] \cup [e : MolecEnergies, per : {"molecule"}]
PerMass(u) == u.per \in {"g", "kg"}
\* the string the caller passes (energies omit "/K"), and the key of the R table
UnitStr(u, energy) == u.e \o (IF u.per = "molecule" THEN "" ELSE "/" \o u.per)
                          \o (IF energy THEN "" ELSE "/K")
RKey(u) == u.e \o (IF u.per = "molecule" THEN "" ELSE "/mol") \o "/K"

\* The gas constant as documented by pmutt.constants.R (CODATA 2014), Dec <<m, e>>
RTable ==
   ("J/mol/K"       :> <<83144598, -7>>)  @@ ("kJ/mol/K"      :> <<83144598, -10>>) @@
   ("L kPa/mol/K"   :> <<83144598, -7>>)  @@ ("cm3 kPa/mol/K" :> <<83144598, -4>>)  @@
   ("m3 Pa/mol/K"   :> <<83144598, -7>>)  @@ ("cm3 MPa/mol/K" :> <<83144598, -7>>)  @@
   ("m3 bar/mol/K"  :> <<83144598, -12>>) @@ ("L bar/mol/K"   :> <<83144598, -9>>)  @@
   ("L torr/mol/K"  :> <<62363577, -6>>)  @@ ("cal/mol/K"     :> <<19872036, -7>>)  @@
   ("kcal/mol/K"    :> <<19872036, -10>>) @@ ("L atm/mol/K"   :> <<82057338, -9>>)  @@
   ("cm3 atm/mol/K" :> <<82057338, -6>>)  @@ ("eV/K"          :> <<86173303, -12>>) @@
   ("Eh/K"          :> <<31668105, -13>>) @@ ("Ha/K"          :> <<31668105, -13>>)

\* abridged standard atomic weights of the elements the harness builds species from
AtomicWeight == [H |-> <<1008, -3>>, N |-> <<14007, -3>>, O |-> <<15999, -3>>]

\* ----------------------------------------------------------------- options
OptNames == {"P", "x", "S_elements", "use_references", "verbose", "include_ZPE",
             "rev", "act", "del_m"}

SpeciesOpts(kind, q) ==
   CASE kind = "StatMech" ->
          IF q = "E" THEN {"include_ZPE"}
          ELSE {"P", "x", "use_references", "verbose"}
               \cup (IF q \in {"S", "F", "G"} THEN {"S_elements"} ELSE {})
     [] kind \in Empirical ->
          IF q \in {"Cv", "U"} THEN {}                     \* inherited, closed twins
          ELSE {"P", "x"} \cup (IF q \in {"S", "F", "G"} THEN {"S_elements"} ELSE {})
     [] kind \in {"FreeTrans", "GasPressureAdj"} -> IF q \in {"S", "F", "G"} THEN {"P"} ELSE {}
     [] kind = "PiecewiseCovEffect" -> IF q \in {"U", "H", "F", "G"} THEN {"x"} ELSE {}
     [] OTHER -> {}

\* keywords (besides units / T / state / descriptors) that the dimensional getter may be given
Accepted(cls, form, q, spk) ==
   IF cls \notin RxnCls THEN SpeciesOpts(cls, q)
   ELSE LET base == IF q = "E"
                    THEN (IF form = "act" THEN {"x"} ELSE {"include_ZPE"})
                    ELSE IF spk = "StatMech"
                         THEN {"P", "use_references"}
                              \cup (IF q \in {"S", "F", "G"} THEN {"S_elements"} ELSE {})
                              \* np.max over the per-mode vectors is not defined in either form
                              \cup (IF cls = "SurfaceReaction" /\ form = "act" /\ q \in {"H", "G"}
                                    THEN {} ELSE {"verbose"})
                         ELSE {"P", "x"} \cup (IF q \in {"S", "G"} THEN {"S_elements"} ELSE {})
        IN base \cup (IF form = "delta" THEN {"rev", "act"} ELSE {})
                \cup (IF form = "act" THEN {"rev"} ELSE {})
                \cup (IF form = "act" /\ q = "E" THEN {"del_m"} ELSE {})

\* T has a documented default in these getters (298.15 K)
HasDefaultT(cls, form, q) ==
   \/ cls \in ModeKinds \cup AuxCls \cup {"StatMech"} /\ Energy(q)
   \/ cls \in Empirical /\ q \in {"U", "F"}
   \/ cls \in RxnCls /\ form = "state" /\ q = "E"

\* arrays of temperatures: the polynomials (not through the closed inherited twins, which
\* return the scalar 0), and reactions of NASA species except where the clamp max(0, ., .)
\* of the MKM classes is taken over arrays (not defined in either form)
Shapes(cls, form, q, spk) ==
   IF \/ cls \in Empirical /\ q \notin {"Cv", "U"}
      \/ cls \in RxnCls /\ spk = "Nasa"
            /\ ~(cls \in {"ChemkinReaction", "SurfaceReaction"} /\ form = "act" /\ q \in {"H", "G"})
   THEN {"scalar", "array"} ELSE {"scalar"}
\* Shomate adds the misc-model vector unsummed (C13): with two misc models an
\* array of temperatures does not evaluate in either form, so no coverage model there
ArrayOK(cls, o) == cls = "Shomate" => "x" \notin o

\* An empirical species is built gas phase (the library attaches its pressure model) or
\* condensed (no pressure model; then no misc model at all unless a coverage is asked for).
Phases(cls) == IF cls \in Empirical THEN {"gas", "condensed"} ELSE {"none"}
\* A Shomate polynomial stores its coefficients in a unit of its own (`units` attribute, any
\* key of the R table).  The relation must hold whatever that unit is, in particular when the
\* caller asks for the very same unit: the object is built in the fitting units ShomateOwn
\* (all 16 keys in the thorough tier, a quarter of them rotating with the seed in quick) and
\* asked in every unit string, its own included.
NoUnit == [e |-> "none", per |-> "none"]
OwnUnits(cls) == IF cls = "Shomate" THEN ShomateOwn ELSE {NoUnit}
PhaseOpts(ph, acc) == IF ph = "condensed" THEN acc \ {"P"} ELSE acc

CellsOf(cls, form, q) ==
   UNION {
   IF ~HasGetter(cls, form, q, spk) THEN {}
   ELSE {c \in {[cls |-> cls, form |-> form, q |-> q, state |-> s, opts |-> o, expl |-> ex,
                 shape |-> sh, tgiven |-> tg, phase |-> ph, own |-> ow, spk |-> spk] :
                   s \in (IF form = "state" THEN States ELSE {"none"}),
                   o \in SUBSET Accepted(cls, form, q, spk), ex \in BOOLEAN,
                   sh \in Shapes(cls, form, q, spk), tg \in BOOLEAN,
                   ph \in Phases(cls), ow \in OwnUnits(cls)} :
           LET acc == PhaseOpts(c.phase, Accepted(cls, form, q, spk)) IN
           /\ c.opts \subseteq acc
           \* explicit documented defaults: with no or one option set, and only if something is left
           /\ c.expl => (Cardinality(c.opts) <= 1 /\ acc \ c.opts # {})
           /\ c.shape = "array" => ArrayOK(cls, c.opts)
           /\ ~c.tgiven => (HasDefaultT(cls, form, q) /\ c.opts = {} /\ ~c.expl /\ c.shape = "scalar")}
   : spk \in SpeciesKinds(cls)}

Cells == UNION {CellsOf(cls, form, q) : cls \in Classes \cap ClassFilter, form \in Forms, q \in Quantities}

UnitsOf(c) == {u \in Units : PerMass(u) => c.cls \in MassCls}

Acc(c) == PhaseOpts(c.phase, Accepted(c.cls, c.form, c.q, c.spk))
\* options passed explicitly at their documented default value
AtDefault(c) == IF c.expl THEN Acc(c) \ c.opts ELSE {}
Passed(c) == c.opts \cup AtDefault(c)

\* object features the harness has to attach so that the options matter
\* (References has no get_FoRT: a referenced species has no F unless references are off)
NeedsRefs(c) == /\ c.cls = "StatMech" \/ c.spk = "StatMech"
                /\ ~(c.q = "F" /\ "use_references" \notin c.opts)
NeedsCov(c) == /\ c.cls \in SpeciesCls \cup RxnCls
               /\ ~(c.cls = "Shomate" /\ c.shape = "array")
               /\ c.phase = "condensed" => "x" \in c.opts      \* else: a species with NO misc model
MustAsk(c) == IF c.own = NoUnit THEN {} ELSE {c.own}
ResultShape(c) == IF "verbose" \in c.opts THEN "verbose" ELSE c.shape

\* ------------------------------------------------- the wrapper, symbolically
\* documented defaults the wrapper fills in when the caller omits the keyword
Defaults(c) ==
   (IF ~c.tgiven THEN {<<"T", "T0">>} ELSE {})
   \cup (IF c.cls = "SurfaceReaction" /\ c.form = "act" /\ c.q = "G" /\ "P" \notin Passed(c)
         THEN {<<"P", "one_bar">>} ELSE {})
NeedsDescriptors(c) == c.cls = "References" /\ c.q \in {"H", "G"}
KwD(c) == {"units"} \cup (IF c.tgiven THEN {"T"} ELSE {}) \cup Passed(c)
          \cup (IF c.form = "state" THEN {"state"} ELSE {})
          \cup (IF NeedsDescriptors(c) THEN {"descriptors"} ELSE {})
\* The parameter list of the dimensionless getter of a non-reaction class; "**" stands for
\* **kwargs.  A closed signature receives, through _force_pass_arguments, the keywords it
\* names and nothing else.
Takes(cls, q) ==
   CASE cls \in {"HarmonicVib", "QRRHOVib", "EinsteinVib", "DebyeVib"} -> {"T"}
     [] cls = "FreeTrans"  -> IF q \in {"S", "F", "G"} THEN {"T", "P"} ELSE {}
     [] cls = "RigidRotor" -> IF q \in {"S", "F", "G"} THEN {"T"} ELSE {}
     [] cls \in {"GroundStateElec", "ConstantMode"} -> IF q \in {"U", "H", "F", "G"} THEN {"T"} ELSE {}
     [] cls \in {"EmptyNucl", "EmptyMode"} -> {}
     [] cls = "GasPressureAdj" -> IF q = "S" THEN {"P"} ELSE IF q \in {"F", "G"} THEN {"**"} ELSE {}
     [] cls = "PiecewiseCovEffect" -> IF q \in {"U", "H", "F", "G"} THEN {"x", "T"} ELSE {}
     [] cls = "References" -> IF q \in {"H", "G"} THEN {"descriptors", "T"}
                              ELSE IF q = "F" THEN {"**"} ELSE {}
     [] cls = "Reference" -> IF q \in {"F", "G"} THEN {"**"} ELSE {}
     [] cls = "SingleNasa9" -> IF q = "G" THEN {"**"} ELSE {"T"}
     [] cls \in Empirical -> IF q \in {"Cv", "U"} THEN {} ELSE {"**"}
     [] OTHER -> {"**"}
Closed(c) == c.cls \notin RxnCls /\ "**" \notin Takes(c.cls, c.q)
KwT(c) == LET all == (KwD(c) \ {"units"}) \cup {d[1] : d \in Defaults(c)}
          IN IF Closed(c) THEN all \cap Takes(c.cls, c.q) ELSE all

Required(c, u) ==
   [raises |-> FALSE, twin |-> Twin(c.form, c.q), kw |-> KwT(c), dflt |-> Defaults(c),
    timesT |-> Energy(c.q), rkey |-> RKey(u),
    mass |-> IF PerMass(u) THEN u.per ELSE "none",
    \* every term of the twin is scaled, the entropy of the elements included
    allTerms |-> TRUE]

\* keywords the twin's value can depend on
Relevant(c) ==
   {"T", "state", "descriptors", "rev", "act", "del_m", "include_ZPE", "verbose"}
   \cup (IF c.q \in {"S", "F", "G"} THEN {"P", "S_elements"} ELSE {})
   \cup (IF c.q \in {"U", "H", "F", "G"} \/ (c.q = "E" /\ c.form = "act") THEN {"x"} ELSE {})
   \cup (IF c.q \in {"H", "G"} THEN {"use_references"} ELSE {})

\* the wrappers of the pinned tree that are not the generic one
Dropped(c) ==
   CASE Variant = "shomate_S" /\ c.cls = "Shomate" /\ c.q = "S" -> Passed(c) \ {"S_elements"}
     [] Variant = "chemkin_Hact" /\ c.cls = "ChemkinReaction" /\ c.form = "act" /\ c.q = "H"
          -> Passed(c) \cap {"rev"}
     [] Variant = "nasa_Cp" /\ c.cls \in {"Nasa", "Nasa9"} /\ c.q = "Cp" -> Passed(c)
     [] OTHER -> {}
\* seeded change C04-5: a "native units" shortcut of Shomate.get_S (requested unit = own unit,
\* no misc model) subtracts the dimensionless entropy of the elements from a dimensional value
NativeShortcut(c, u) == /\ Variant = "shomate_native" /\ c.cls = "Shomate" /\ c.q = "S"
                        /\ u = c.own /\ ~NeedsCov(c) /\ c.phase = "condensed"
                        /\ "S_elements" \in c.opts
\* _ModelBase.get_Cp/U/S/F/G read self.elements before anything else (modes have none);
\* _ModelBase.get_Cv looks R up under the caller's string, so a per-mass unit is refused
ImplRaises(c, u) ==
   \/ Variant = "modes_elements" /\ c.cls \in ModeKinds /\ c.q \in {"Cp", "U", "S", "F", "G"}
   \/ Variant = "cv_permass" /\ c.cls \in Empirical \cup {"Reference"} /\ c.q = "Cv" /\ PerMass(u)
Impl(c, u) == IF ImplRaises(c, u) THEN [Required(c, u) EXCEPT !.raises = TRUE]
              ELSE [Required(c, u) EXCEPT !.kw = @ \ Dropped(c), !.allTerms = ~NativeShortcut(c, u)]

Same(i, r, c) ==
   /\ ~i.raises
   /\ i.twin = r.twin /\ i.dflt = r.dflt
   /\ i.kw \cap Relevant(c) = r.kw \cap Relevant(c)
   /\ i.timesT = r.timesT /\ i.rkey = r.rkey /\ i.mass = r.mass /\ i.allTerms = r.allTerms

\* ------------------------------------------------------------ state machine
VARIABLES pc, cell, unit, res
vars == <<pc, cell, unit, res>>
NoRes == [raises |-> FALSE, twin |-> "", kw |-> {}, dflt |-> {}, timesT |-> FALSE,
          rkey |-> "", mass |-> "none", allTerms |-> TRUE]

Init == /\ cell \in Cells /\ unit \in UnitsOf(cell) /\ pc = "call" /\ res = NoRes
Call == /\ pc = "call" /\ pc' = "ret" /\ res' = Impl(cell, unit)
        /\ UNCHANGED <<cell, unit>>
Next == Call
Spec == Init /\ [][Next]_vars

TypeOK == /\ pc \in {"call", "ret"} /\ cell \in Cells /\ unit \in Units
\* the property on the model: the wrapper is the required one
Refines == pc = "ret" => Same(res, Required(cell, unit), cell)
\* structure of the case space
WellFormed ==
   /\ "units" \notin KwT(cell) /\ "units" \in KwD(cell)
   /\ ~Closed(cell) => "T" \in KwT(cell)        \* species and reactions always get a temperature
   /\ KwT(cell) \subseteq (KwD(cell) \ {"units"}) \cup {d[1] : d \in Defaults(cell)}
   /\ Getter(cell.form, cell.q) # Twin(cell.form, cell.q)
   /\ RKey(unit) \in DOMAIN RTable
   /\ cell.opts \subseteq Acc(cell) /\ AtDefault(cell) \cap cell.opts = {}
   /\ MustAsk(cell) \subseteq UnitsOf(cell)
   /\ (cell.phase = "none") = (cell.cls \notin Empirical)
   /\ (cell.spk = "none") = (cell.cls \notin RxnCls)
   /\ PerMass(unit) => cell.cls \in MassCls
   /\ (cell.form = "state") = (cell.state \in States)

\* constant-level facts about the unit table
UnitStrInjective == \A en \in BOOLEAN : \A u1, u2 \in Units :
                       UnitStr(u1, en) = UnitStr(u2, en) => u1 = u2
KeysCovered == {RKey(u) : u \in Units} = DOMAIN RTable
=============================================================================
