---------------------------- MODULE HelpersRule ----------------------------
(***************************************************************************)
(* X04 - the generic helper layer of pmutt/__init__.py.  Pure operators:   *)
(* for every helper the REQUIRED relation (read off the docstring, narrow  *)
(* reading) and, next to it, the IMPLEMENTATION-SHAPED rule as a named     *)
(* variant.  Used by the design model Helpers.tla, by the case generator   *)
(* MC_Helpers_cases.tla and by the trace specification Trace_Helpers.tla,  *)
(* so the three faces judge with the same text.                            *)
(*                                                                         *)
(* 1. KEYWORD ROUTING  (_get_expected_arguments, _pass_expected_arguments, *)
(*    _kwargs_allowed, _force_pass_arguments, _check_obj,                  *)
(*    _get_mode_quantity).                                                 *)
(*    A signature shape is                                                 *)
(*      [kind, pos, kwonly, varargs, varkw]                                *)
(*    kind    "function" | "method" (bound) | "class" (Python __init__)    *)
(*            - the documented "function or class" plus the bound methods  *)
(*            _get_mode_quantity hands over -; outside the documentation:  *)
(*            "partial" (functools.partial), "object" (instance with       *)
(*            __call__), "bareclass" (class without a Python __init__)     *)
(*    pos     positional-or-keyword parameters, Seq([n: name, d: default?])*)
(*    kwonly  keyword-only parameters, same form                           *)
(*    varargs / varkw   has *args / **kwargs                               *)
(*    REQUIRED: the callable receives exactly the supplied keywords its    *)
(*    signature names (pos and kwonly); a **kwargs callable receives every *)
(*    supplied keyword under _force_pass_arguments; nothing positional;    *)
(*    never a keyword it does not accept; it is called once and its result *)
(*    handed back; when a parameter without default is not among the       *)
(*    keywords it receives Python raises TypeError and the body never      *)
(*    runs.  IMPLEMENTATION-SHAPED: names = co_varnames[:co_argcount]      *)
(*    ("argcount", as found: keyword-only parameters are not seen) or      *)
(*    co_varnames[:co_argcount + co_kwonlyargcount] ("kwonly", repaired),  *)
(*    'self' skipped, fn called with the collected keywords.               *)
(* 2. _get_specie_kwargs: keys are texts (character codes).                *)
(* 3. format_conditions.   4. pmutt_list_to_dict.                          *)
(* 5. _apply_numpy_operation, _is_iterable, _check_iterable_attr.          *)
(***************************************************************************)
EXTENDS Text, FiniteSets

Range(s) == {s[i] : i \in 1..Len(s)}
Max2(a, b) == IF a > b THEN a ELSE b

\* ======================================================================
\* 1. keyword routing
\* ======================================================================
ParNames(ps) == {ps[i].n : i \in 1..Len(ps)}
NoDefault(ps) == {ps[i].n : i \in {j \in 1..Len(ps) : ~ps[j].d}}
Named(sh) == ParNames(sh.pos) \cup ParNames(sh.kwonly)
Mandatory(sh) == NoDefault(sh.pos) \cup NoDefault(sh.kwonly)
Documented(sh) == sh.kind \in {"function", "method", "class"}
HasCode(sh) == sh.kind \in {"function", "method", "class"}      \* fn.__code__ / fn.__init__.__code__ exists
HasSelf(sh) == sh.kind \in {"method", "class"}
Mode(fn) == IF fn \in {"force", "check_obj"} THEN "force" ELSE "pass"

NotCalled(exc) == [raised |-> exc, got |-> {}, extra |-> {}, calls |-> 0]

\* ---- REQUIRED
ReqPassed(mode, sh, sup) == IF mode = "force" /\ sh.varkw THEN sup ELSE sup \cap Named(sh)
ReqOutcome(mode, sh, sup) ==
   LET p == ReqPassed(mode, sh, sup) IN
   IF Mandatory(sh) \subseteq p
   THEN [raised |-> "", got |-> p \cap Named(sh), extra |-> p \ Named(sh), calls |-> 1]
   ELSE NotCalled("TypeError")
ReqExpected(sh) == Named(sh)                      \* _get_expected_arguments, 'self' aside
ReqAllowed(sh) == sh.varkw                        \* _kwargs_allowed

\* ---- IMPLEMENTATION-SHAPED
SeqOfNames(ps) == [i \in 1..Len(ps) |-> ps[i].n]
\* code.co_varnames: self, positional, keyword-only, *args name, **kwargs name (then locals)
CoVarnames(sh) == (IF HasSelf(sh) THEN <<"self">> ELSE <<>>) \o SeqOfNames(sh.pos) \o SeqOfNames(sh.kwonly)
                  \o (IF sh.varargs THEN <<"args">> ELSE <<>>) \o (IF sh.varkw THEN <<"kw">> ELSE <<>>)
CoArgcount(sh) == Len(sh.pos) + (IF HasSelf(sh) THEN 1 ELSE 0)
ImplExpected(v, sh) ==
   SubSeq(CoVarnames(sh), 1,
          CASE v = "argcount" -> CoArgcount(sh)
            [] v = "kwonly" -> CoArgcount(sh) + Len(sh.kwonly)
            [] v = "allvars" -> Len(CoVarnames(sh)))          \* a wrong repair: takes the *args/**kw names too
\* Python's fn called with keywords `passed`
CallWith(sh, passed) ==
   IF ~(passed \subseteq Named(sh)) /\ ~sh.varkw THEN NotCalled("TypeError")       \* unexpected keyword
   ELSE IF ~(Mandatory(sh) \subseteq passed) THEN NotCalled("TypeError")           \* missing argument
   ELSE [raised |-> "", got |-> passed \cap Named(sh), extra |-> passed \ Named(sh), calls |-> 1]
ImplCollected(v, sh, sup) == {n \in Range(ImplExpected(v, sh)) : n # "self" /\ n \in sup}
ImplOutcome(v, mode, sh, sup) ==
   IF mode = "force" /\ sh.varkw THEN CallWith(sh, sup)       \* inspect.signature works for every kind
   ELSE IF ~HasCode(sh) THEN NotCalled("AttributeError")
   ELSE CallWith(sh, ImplCollected(v, sh, sup))

\* ======================================================================
\* 2. _get_specie_kwargs.  A dictionary is a sequence of entries
\*    [k: key text, b: is a block?, v: integer value, blk: Seq(<<key text, integer>>)]
\* ======================================================================
KWARGS == <<107, 119, 97, 114, 103, 115>>             \* kwargs
UKWARGS == <<95>> \o KWARGS                           \* _kwargs
EndsWith(s, suf) == Len(s) >= Len(suf) /\ SubSeq(s, Len(s) - Len(suf) + 1, Len(s)) = suf
StartsWith(s, pre) == Len(s) >= Len(pre) /\ SubSeq(s, 1, Len(pre)) = pre
BlockKeyOf(name) == name \o UKWARGS
IsBlockKey(variant, key) == IF variant = "suffix" THEN EndsWith(key, UKWARGS) ELSE Contains(key, KWARGS)
\* value projections: an integer value v is <<"i", v, {}>>, a block is <<"b", 0, set of pairs>>
EntryVal(e) == IF e.b THEN <<"b", 0, Range(e.blk)>> ELSE <<"i", e.v, {}>>
DictPairs(d) == {<<d[i].k, EntryVal(d[i])>> : i \in 1..Len(d)}
DictKeys(d) == {d[i].k : i \in 1..Len(d)}
Lookup(d, key) == d[CHOOSE i \in 1..Len(d) : d[i].k = key]
\* REQUIRED: the keywords that are not blocks, overridden by the block addressed to exactly this name
ReqSpecie(d, name) ==
   LET own == BlockKeyOf(name)
       globals == {i \in 1..Len(d) : ~EndsWith(d[i].k, UKWARGS)}
       blk == IF own \in DictKeys(d) /\ Lookup(d, own).b THEN Range(Lookup(d, own).blk) ELSE {}
       bkeys == {p[1] : p \in blk}
   IN {<<d[i].k, EntryVal(d[i])>> : i \in {j \in globals : d[j].k \notin bkeys}}
      \cup {<<p[1], <<"i", p[2], {}>>>> : p \in blk}
\* the quantifier of the property as read: block keys are "<name>_kwargs", the other keys do not contain
\* "kwargs", blocks are dictionaries of ordinary keywords, keys are distinct
SpecieInQuantifier(d) ==
   /\ \A i, j \in 1..Len(d) : d[i].k = d[j].k => i = j
   /\ \A i \in 1..Len(d) : d[i].b <=> EndsWith(d[i].k, UKWARGS)
   /\ \A i \in 1..Len(d) : ~d[i].b => ~Contains(d[i].k, KWARGS)
   /\ \A i \in 1..Len(d) : \A p \in Range(d[i].blk) : ~Contains(p[1], KWARGS)
   /\ \A i \in 1..Len(d) : \A p, q \in Range(d[i].blk) : p[1] = q[1] => p = q
\* IMPLEMENTATION-SHAPED: copy; every key that IsBlockKey is popped from the copy, the one that matches the
\* name is remembered; the remembered block is merged over the rest
SpecieMatches(variant, key, name) ==
   CASE variant = "startswith" -> StartsWith(key, name)          \* H2O_kwargs reaching H2
     [] variant = "contains" -> Contains(key, name)              \* CO2_kwargs reaching O2
     [] OTHER -> key = BlockKeyOf(name)
ImplSpecie(dropv, matchv, d, name) ==
   LET kept == {i \in 1..Len(d) : ~IsBlockKey(dropv, d[i].k)}
       hits == {i \in 1..Len(d) : IsBlockKey(dropv, d[i].k) /\ SpecieMatches(matchv, d[i].k, name)}
       last == IF hits = {} THEN 0 ELSE CHOOSE i \in hits : \A j \in hits : j <= i
       blk == IF last # 0 /\ d[last].b THEN Range(d[last].blk) ELSE {}
       bkeys == {p[1] : p \in blk}
   IN {<<d[i].k, EntryVal(d[i])>> : i \in {j \in kept : d[j].k \notin bkeys}}
      \cup {<<p[1], <<"i", p[2], {}>>>> : p \in blk}

\* ======================================================================
\* 3. format_conditions - keyword lists: names = Seq(name), lists = Seq(Seq(value))
\*    "Lists of the conditions where each index corresponds to a run" -> run i holds, for every name, the
\*    i-th element of its list.  Documented for lists of one length (FormatInQuantifier); for ragged input the
\*    only reading that keeps "index = run" is kept as ReqFormat too (run i holds the names that have an i-th
\*    element) but is judged on the design model only.
\* ======================================================================
MaxLen(lists) == LET f[j \in 0..Len(lists)] == IF j = 0 THEN 0 ELSE Max2(f[j - 1], Len(lists[j])) IN f[Len(lists)]
FormatInQuantifier(names, lists) ==
   /\ Len(names) = Len(lists)
   /\ \A i, j \in 1..Len(names) : names[i] = names[j] => i = j
   /\ \A i, j \in 1..Len(lists) : Len(lists[i]) = Len(lists[j])
ReqFormat(names, lists) ==
   [i \in 1..MaxLen(lists) |-> {<<names[j], lists[j][i]>> : j \in {m \in 1..Len(names) : Len(lists[m]) >= i}}]
\* IMPLEMENTATION-SHAPED: for each name, for each (i, value): conditions[i][name] = value, or append when
\* there is no conditions[i] yet.  One step of the inner loop on `conds` (Seq of sets of pairs):
FormatStep(conds, name, i, value) ==
   IF i <= Len(conds) THEN [conds EXCEPT ![i] = {p \in @ : p[1] # name} \cup {<<name, value>>}]
   ELSE Append(conds, {<<name, value>>})
\* other algorithms (defective; kept to show the model is sensitive)
MinLen(lists) == LET f[j \in 0..Len(lists)] == IF j = 0 THEN MaxLen(lists)
                                                ELSE IF Len(lists[j]) < f[j - 1] THEN Len(lists[j]) ELSE f[j - 1]
                 IN f[Len(lists)]
FormatTruncate(names, lists) ==      \* zip() to the shortest list
   [i \in 1..MinLen(lists) |-> {<<names[j], lists[j][i]>> : j \in 1..Len(names)}]

\* ======================================================================
\* 4. pmutt_list_to_dict(objs, key): objs[i] = [has: attribute present?, key: its value]; the result is a
\*    sequence of <<key, index of the object>> in dictionary order
\* ======================================================================
ListInQuantifier(objs) == \A i \in 1..Len(objs) : objs[i].has
FirstOccurrences(objs) == {i \in 1..Len(objs) : \A j \in 1..(i - 1) : objs[j].key # objs[i].key}
DictKeysOK(objs, out) == {out[m][1] : m \in 1..Len(out)} = {objs[i].key : i \in 1..Len(objs)}
DictNoRepeat(out) == \A m, n \in 1..Len(out) : out[m][1] = out[n][1] => m = n
DictValueOK(objs, out) == \A m \in 1..Len(out) : out[m][2] \in 1..Len(objs) /\ objs[out[m][2]].key = out[m][1]
DictOrderOK(objs, out) ==       \* keys in the order of their first occurrence in the list
   LET fo == FirstOccurrences(objs) IN
   /\ Len(out) = Cardinality(fo)
   /\ \A m, n \in 1..Len(out) : m < n =>
         \E i, j \in fo : i < j /\ objs[i].key = out[m][1] /\ objs[j].key = out[n][1]
\* IMPLEMENTATION-SHAPED: {getattr(o, key): o for o in objs} - position of the first, value of the last
ListToDictStep(variant, out, k, i) ==
   LET pos == {m \in 1..Len(out) : out[m][1] = k} IN
   IF pos = {} THEN Append(out, <<k, i>>)
   ELSE IF variant = "first" THEN out
   ELSE LET m == CHOOSE x \in pos : TRUE IN [out EXCEPT ![m] = <<k, i>>]
ImplListToDict(variant, objs) ==
   LET f[i \in 0..Len(objs)] == IF i = 0 THEN <<>> ELSE ListToDictStep(variant, f[i - 1], objs[i].key, i)
   IN f[Len(objs)]

\* ======================================================================
\* 5. _apply_numpy_operation / _is_iterable / _check_iterable_attr
\* ======================================================================
SumOf(q) == LET f[i \in 0..Len(q)] == IF i = 0 THEN 0 ELSE f[i - 1] + q[i] IN f[Len(q)]
ProdOf(q) == LET f[i \in 0..Len(q)] == IF i = 0 THEN 1 ELSE f[i - 1] * q[i] IN f[Len(q)]
MaxOf(q) == CHOOSE x \in Range(q) : \A y \in Range(q) : y <= x
MinOf(q) == CHOOSE x \in Range(q) : \A y \in Range(q) : x <= y
NpDefined(op, q) == op \in {"sum", "prod"} \/ (op \in {"max", "min"} /\ Len(q) > 0)
NpValue(op, q) == CASE op = "sum" -> SumOf(q) [] op = "prod" -> ProdOf(q)
                    [] op = "max" -> MaxOf(q) [] op = "min" -> MinOf(q)
\* "True if iterable. False if not iterable or string."
IterableKinds == {"list", "emptylist", "tuple", "set", "dict", "ndarray", "range", "generator", "iterobj", "getitemobj"}
ScalarKinds == {"int", "float", "none", "object", "ndarray0", "npfloat", "bool"}
StringKinds == {"str", "emptystr", "npstr"}
ReqIsIterable(kind) == kind \in IterableKinds
\* _check_iterable_attr: documented input "list or non-iterable object"
AttrInQuantifier(kind) == kind \in {"list", "emptylist"} \cup ScalarKinds \cup StringKinds
ReqAttrShape(kind) == IF kind = "none" THEN "none" ELSE IF kind \in {"list", "emptylist"} THEN "same" ELSE "wrapped"
=============================================================================
