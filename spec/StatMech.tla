------------------------------ MODULE StatMech ------------------------------
(***************************************************************************)
(* C01 - statistical-mechanical species.                                   *)
(*                                                                         *)
(* Part 1 (VibCache): HarmonicVib / QRRHOVib keep a cached list of the     *)
(* wavenumbers actually used (`valid`), which must track the assigned      *)
(* wavenumbers and the imaginary-frequency substitute.  One action per     *)
(* public mutation: Construct, SetWavenumbers (the property setter), and   *)
(* SetSubstitute - which in the code does NOT refresh the cache; it is     *)
(* modelled as it is (a named deviation: `stale` becomes TRUE until the    *)
(* next SetWavenumbers).  Invariant: ~stale => valid = Valid(wn, sub).     *)
(*                                                                         *)
(* Part 2 (Aggregator): a species is five mode kinds (+ options).  Each    *)
(* mode getter consumes a subset of the keywords (signature table,         *)
(* transcribed from the getters).  Total(getter) is the sum (product for   *)
(* q) of the verbose vector [trans, vib, rot, elec, nucl, refs, misc...].  *)
(* TLC checks on formal linear combinations that, given the per-mode       *)
(* definitions G_m = H_m - S_m, F_m = U_m - S_m, H_m - U_m = [FreeTrans],  *)
(* the totals obey G = H - S, F = U - S, H - U = [trans present], and it   *)
(* emits every configuration as a replay case.                             *)
(***************************************************************************)
EXTENDS Integers, Sequences, FiniteSets, TLC

\* ------------------------------------------------------------ Part 1
CONSTANTS WN,        \* wavenumber alphabet (integers; <= 0 means imaginary)
          SUBS,      \* substitute values; 0 stands for None
          MaxLenW,   \* longest wavenumber list
          MaxOps

VARIABLES wn, sub, valid, stale, h
cvars == <<wn, sub, valid, stale, h>>

RECURSIVE Valid(_, _)
Valid(ws, s) == IF Len(ws) = 0 THEN <<>>
                ELSE (IF ws[1] > 0 THEN <<ws[1]>> ELSE IF s # 0 THEN <<s>> ELSE <<>>) \o Valid(Tail(ws), s)

Lists == UNION {[1..n -> WN] : n \in 0..MaxLenW}
Rec(a, ws, s) == [act |-> a, wn |-> ws, sub |-> s, valid |-> valid', stale |-> stale']

CInit == /\ wn \in Lists /\ sub \in SUBS
         /\ valid = Valid(wn, sub) /\ stale = FALSE
         /\ h = <<[act |-> "construct", wn |-> wn, sub |-> sub, valid |-> valid, stale |-> FALSE]>>
SetWavenumbers(ws) == /\ Len(h) <= MaxOps
                      /\ wn' = ws /\ UNCHANGED sub
                      /\ valid' = Valid(ws, sub) /\ stale' = FALSE
                      /\ h' = Append(h, Rec("set_wn", ws, sub))
SetSubstitute(s) == /\ Len(h) <= MaxOps /\ s # sub
                    /\ sub' = s /\ UNCHANGED <<wn, valid>>              \* cache NOT refreshed (as in the code)
                    /\ stale' = (Valid(wn, s) # valid)
                    /\ h' = Append(h, Rec("set_sub", wn, s))
CNext == (\E ws \in Lists : SetWavenumbers(ws)) \/ (\E s \in SUBS : SetSubstitute(s))
CSpec == CInit /\ [][CNext]_cvars

CacheFresh == ~stale => valid = Valid(wn, sub)
OnlyPositiveOrSub == \A i \in 1..Len(valid) : valid[i] > 0
NoLoss == ~stale => Len(valid) = Cardinality({i \in 1..Len(wn) : wn[i] > 0 \/ sub # 0})
CDone == Len(h) = MaxOps + 1
EmitBehaviours == CDone => PrintT(<<"BEH", h>>)

\* ------------------------------------------------------------ Part 2
Getters == {"q", "Cv", "Cp", "U", "H", "S", "F", "G"}
TransKinds == {"FreeTrans", "Empty"}
VibKinds == {"Harmonic", "QRRHO", "Einstein", "Debye", "Empty"}
RotKinds == {"RotMono", "RotLinear", "RotNonlinear", "Empty"}
ElecKinds == {"GroundState", "Empty"}
NuclKinds == {"EmptyNucl", "Empty"}

\* keywords consumed by each getter of each mode kind (from the method signatures)
Sig(kind, g) ==
   CASE kind = "FreeTrans" -> IF g \in {"q", "S", "F", "G"} THEN {"T", "P"} ELSE {}
     [] kind = "Harmonic" -> IF g = "q" THEN {"T", "include_ZPE"} ELSE {"T"}
     [] kind = "QRRHO" -> IF g = "q" THEN {} ELSE {"T"}
     [] kind \in {"Einstein", "Debye"} -> {"T"}
     [] kind \in {"RotMono", "RotLinear", "RotNonlinear"} -> IF g \in {"q", "S", "F", "G"} THEN {"T"} ELSE {}
     [] kind = "GroundState" -> IF g = "q" THEN {"T", "ignore_q_elec"}
                                ELSE IF g \in {"U", "H", "F", "G"} THEN {"T"} ELSE {}
     [] OTHER -> {}
\* getters a mode kind does not provide (raise)
Missing(kind, g) == kind = "QRRHO" /\ g = "q"

Configs == [trans : TransKinds, vib : VibKinds, rot : RotKinds, elec : ElecKinds, nucl : NuclKinds]
Modes(c) == <<c.trans, c.vib, c.rot, c.elec, c.nucl>>

\* formal linear combinations: bags of atoms <<slot, quantity>> with integer weights,
\* after expanding the derived getters by the per-mode definitions
Atoms == (1..5) \X {"Cv", "Cp", "U", "S", "one"}
Expand(slot, kind, g) ==            \* function Atoms -> Int for one mode's getter
   [a \in Atoms |->
      CASE g = "U" -> IF a = <<slot, "U">> THEN 1 ELSE 0
        [] g = "S" -> IF a = <<slot, "S">> THEN 1 ELSE 0
        [] g = "Cv" -> IF a = <<slot, "Cv">> THEN 1 ELSE 0
        [] g = "Cp" -> IF a = <<slot, "Cp">> THEN 1 ELSE 0
        \* H_m = U_m + [FreeTrans]
        [] g = "H" -> IF a = <<slot, "U">> THEN 1 ELSE IF a = <<slot, "one">> /\ kind = "FreeTrans" THEN 1 ELSE 0
        [] g = "F" -> IF a = <<slot, "U">> THEN 1 ELSE IF a = <<slot, "S">> THEN -1 ELSE 0
        [] g = "G" -> IF a = <<slot, "U">> THEN 1 ELSE IF a = <<slot, "S">> THEN -1
                      ELSE IF a = <<slot, "one">> /\ kind = "FreeTrans" THEN 1 ELSE 0
        [] OTHER -> 0]
ZeroComb == [a \in Atoms |-> 0]
RECURSIVE SumComb(_, _, _)
SumComb(c, g, k) == IF k = 0 THEN ZeroComb
                    ELSE [a \in Atoms |-> SumComb(c, g, k - 1)[a] + Expand(k, Modes(c)[k], g)[a]]
Total(c, g) == SumComb(c, g, 5)
Minus(x, y) == [a \in Atoms |-> x[a] - y[a]]
HasTrans(c) == c.trans = "FreeTrans"
OneComb(c) == [a \in Atoms |-> IF a = <<1, "one">> /\ HasTrans(c) THEN 1 ELSE 0]
AggregatorOK == \A c \in Configs :
                  /\ Total(c, "G") = Minus(Total(c, "H"), Total(c, "S"))
                  /\ Total(c, "F") = Minus(Total(c, "U"), Total(c, "S"))
                  /\ Minus(Total(c, "H"), Total(c, "U")) = OneComb(c)
\* a keyword reaches exactly the modes whose signature lists it
Reaches(c, g, kw) == {k \in 1..5 : kw \in Sig(Modes(c)[k], g)}
PressureOnlyTrans == \A c \in Configs, g \in Getters : Reaches(c, g, "P") \subseteq {1}

Case(c) == [trans |-> c.trans, vib |-> c.vib, rot |-> c.rot, elec |-> c.elec, nucl |-> c.nucl,
            hasTrans |-> HasTrans(c),
            qMissing |-> \E k \in 1..5 : Missing(Modes(c)[k], "q"),
            usesT |-> [g \in Getters |-> Reaches(c, g, "T") # {}],
            usesP |-> [g \in Getters |-> Reaches(c, g, "P") # {}]]
=============================================================================
