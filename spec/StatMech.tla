------------------------------ MODULE StatMech ------------------------------
(***************************************************************************)
(* C01 - statistical-mechanical species.                                   *)
(*                                                                         *)
(* Part 1 (VibCache): HarmonicVib / QRRHOVib keep a cached list of the     *)
(* wavenumbers actually used (`valid`), which must track the assigned      *)
(* wavenumbers and the imaginary-frequency substitute.  One action per     *)
(* public mutation: Construct, SetWavenumbers (the property setter), and   *)
(* SetSubstitute - which in the code does NOT refresh the cache; it is     *)
(* modelled as it is (a named deviation: `stale` becomes TRUE until the    *)
(* next SetWavenumbers).  Invariant: ~stale => valid = Valid(wn, sub).     *)
(*                                                                         *)
(* Part 2 (Aggregator): a species is five mode kinds (+ options).  Each    *)
(* mode getter consumes a subset of the keywords (signature table,         *)
(* transcribed from the getters).  Total(getter) is the sum (product for   *)
(* q) of the verbose vector [trans, vib, rot, elec, nucl, refs, misc...].  *)
(* TLC checks on formal linear combinations that, given the per-mode       *)
(* definitions G_m = H_m - S_m, F_m = U_m - S_m, H_m - U_m = [FreeTrans],  *)
(* the totals obey G = H - S, F = U - S, H - U = [trans present] for every  *)
(* configuration of physical kinds - and for no configuration that holds a *)
(* user-set mode (ConstantMode, a user-written partial mode), where every  *)
(* getter is a free atom: for those only additivity is asserted.  It emits *)
(* every configuration as a replay case (kinds and the signature table     *)
(* live in StatMechSig.tla, shared with the trace specification).          *)
(***************************************************************************)
EXTENDS StatMechSig, TLC

\* ------------------------------------------------------------ Part 1
CONSTANTS WN,        \* wavenumber alphabet (integers; <= 0 means imaginary)
          SUBS,      \* substitute values; 0 stands for None
          MaxLenW,   \* longest wavenumber list
          MaxOps

VARIABLES wn, sub, valid, stale, h
cvars == <<wn, sub, valid, stale, h>>

RECURSIVE Valid(_, _)
Valid(ws, s) == IF Len(ws) = 0 THEN <<>>
                ELSE (IF ws[1] > 0 THEN <<ws[1]>> ELSE IF s # 0 THEN <<s>> ELSE <<>>) \o Valid(Tail(ws), s)

Lists == UNION {[1..n -> WN] : n \in 0..MaxLenW}
Rec(a, ws, s) == [act |-> a, wn |-> ws, sub |-> s, valid |-> valid', stale |-> stale']

CInit == /\ wn \in Lists /\ sub \in SUBS
         /\ valid = Valid(wn, sub) /\ stale = FALSE
         /\ h = <<[act |-> "construct", wn |-> wn, sub |-> sub, valid |-> valid, stale |-> FALSE]>>
SetWavenumbers(ws) == /\ Len(h) <= MaxOps
                      /\ wn' = ws /\ UNCHANGED sub
                      /\ valid' = Valid(ws, sub) /\ stale' = FALSE
                      /\ h' = Append(h, Rec("set_wn", ws, sub))
SetSubstitute(s) == /\ Len(h) <= MaxOps /\ s # sub
                    /\ sub' = s /\ UNCHANGED <<wn, valid>>              \* cache NOT refreshed (as in the code)
                    /\ stale' = (Valid(wn, s) # valid)
                    /\ h' = Append(h, Rec("set_sub", wn, s))
CNext == (\E ws \in Lists : SetWavenumbers(ws)) \/ (\E s \in SUBS : SetSubstitute(s))
CSpec == CInit /\ [][CNext]_cvars

CacheFresh == ~stale => valid = Valid(wn, sub)
OnlyPositiveOrSub == \A i \in 1..Len(valid) : valid[i] > 0
NoLoss == ~stale => Len(valid) = Cardinality({i \in 1..Len(wn) : wn[i] > 0 \/ sub # 0})
CDone == Len(h) = MaxOps + 1
EmitBehaviours == CDone => PrintT(<<"BEH", h>>)

\* ------------------------------------------------------------ Part 2
Configs == [trans : TransKinds, vib : VibKinds, rot : RotKinds, elec : ElecKinds, nucl : NuclKinds]
Modes(c) == <<c.trans, c.vib, c.rot, c.elec, c.nucl>>
Physical(c) == \A k \in 1..5 : ~UserSet(Modes(c)[k])

\* formal linear combinations: bags of atoms <<slot, quantity>> with integer weights,
\* after expanding the derived getters by the per-mode definitions.  For a user-set kind every getter
\* is its own free atom (nothing relates the values the user typed in).
Atoms == (1..5) \X {"Cv", "Cp", "U", "S", "one", "H", "F", "G"}
Expand(slot, kind, g) ==            \* function Atoms -> Int for one mode's getter
   IF UserSet(kind) THEN [a \in Atoms |-> IF a = <<slot, g>> THEN 1 ELSE 0] ELSE
   [a \in Atoms |->
      CASE g = "U" -> IF a = <<slot, "U">> THEN 1 ELSE 0
        [] g = "S" -> IF a = <<slot, "S">> THEN 1 ELSE 0
        [] g = "Cv" -> IF a = <<slot, "Cv">> THEN 1 ELSE 0
        [] g = "Cp" -> IF a = <<slot, "Cp">> THEN 1 ELSE 0
        \* H_m = U_m + [FreeTrans]
        [] g = "H" -> IF a = <<slot, "U">> THEN 1 ELSE IF a = <<slot, "one">> /\ kind = "FreeTrans" THEN 1 ELSE 0
        [] g = "F" -> IF a = <<slot, "U">> THEN 1 ELSE IF a = <<slot, "S">> THEN -1 ELSE 0
        [] g = "G" -> IF a = <<slot, "U">> THEN 1 ELSE IF a = <<slot, "S">> THEN -1
                      ELSE IF a = <<slot, "one">> /\ kind = "FreeTrans" THEN 1 ELSE 0
        [] OTHER -> 0]
ZeroComb == [a \in Atoms |-> 0]
RECURSIVE SumComb(_, _, _)
SumComb(c, g, k) == IF k = 0 THEN ZeroComb
                    ELSE [a \in Atoms |-> SumComb(c, g, k - 1)[a] + Expand(k, Modes(c)[k], g)[a]]
Total(c, g) == SumComb(c, g, 5)
Minus(x, y) == [a \in Atoms |-> x[a] - y[a]]
HasTrans(c) == c.trans = "FreeTrans"
OneComb(c) == [a \in Atoms |-> IF a = <<1, "one">> /\ HasTrans(c) THEN 1 ELSE 0]
Identities(c) == /\ Total(c, "G") = Minus(Total(c, "H"), Total(c, "S"))
                 /\ Total(c, "F") = Minus(Total(c, "U"), Total(c, "S"))
                 /\ Minus(Total(c, "H"), Total(c, "U")) = OneComb(c)
\* the identities follow from the per-mode definitions exactly for the physical configurations
AggregatorOK == \A c \in Configs : Physical(c) <=> Identities(c)
\* a keyword reaches exactly the modes whose signature lists it
Reaches(c, g, kw) == {k \in 1..5 : kw \in Sig(Modes(c)[k], g)}
PressureOnlyTrans == \A c \in Configs, g \in Getters : Reaches(c, g, "P") \subseteq {1}
\* option semantics on the design level: with every mode providing every getter (no Partial mode) the eight
\* getters never depend on raise_error; the zero-point energy is lacked by every slot but a vibrational one
NoPartial(c) == \A k \in 1..5 : Modes(c)[k] # "Partial"
NoHave == [k \in 1..5 |-> {}]
OptionsOK == \A c \in Configs :
               /\ NoPartial(c) => \A g \in Getters :
                                     Outcome(Modes(c), NoHave, g, TRUE) = Outcome(Modes(c), NoHave, g, FALSE)
               /\ {1, 3, 4, 5} \subseteq LackSet(Modes(c), NoHave, "ZPE")
               /\ Outcome(Modes(c), NoHave, "ZPE", TRUE) = "AttributeError"
               /\ Outcome(Modes(c), NoHave, "ZPE", FALSE) = "value"

Case(c) == [trans |-> c.trans, vib |-> c.vib, rot |-> c.rot, elec |-> c.elec, nucl |-> c.nucl,
            hasTrans |-> HasTrans(c),
            qMissing |-> \E k \in 1..5 : Missing(Modes(c)[k], "q"),
            physical |-> Identities(c),
            nLackZPE |-> Cardinality(LackSet(Modes(c), NoHave, "ZPE"))]
=============================================================================
