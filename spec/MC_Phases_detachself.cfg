\* the other admissible behaviour (forget the reference only when it still is the phase removed from)
SPECIFICATION Spec
CONSTANTS
  PhaseObj <- P3
  KindOf <- Kinds3
  Species <- S3
  GivenLists <- Given3
  MaxLen = 3
  MaxOps = 6
  Variant = "fresh"
  ElemOf <- Elem3
  CacheVariant = "none"
  OwnerVariant = "detach_if_self"
INVARIANT TypeOK
INVARIANT ListsExactlyItsSpecies
INVARIANT OwnerAlive
INVARIANT PhaseElementsAreUnionOfSpecies
INVARIANT MovedSpeciesRefersToItsPhase
PROPERTY Frame
PROPERTY NewIsWhatWasGiven
PROPERTY OwnerAfterInsert
PROPERTY RemovalKeepsForeignReference
VIEW ViewDepth
CHECK_DEADLOCK FALSE
