\* case generation for the thorough tier (quick sheets + 3 columns from 9 x 2 rows)
INIT CInit
NEXT CNext
CONSTANTS
  Groups <- MCGroups
  GroupSheets <- MCGroupSheets
  Variant = "code"
  SetName = "thoroughcases"
CHECK_DEADLOCK FALSE
