--------------------------- MODULE Trace_Reaction ---------------------------
(***************************************************************************)
(* C08 - trace validation of recorded Reaction / ChemkinReaction /         *)
(* SurfaceReaction evaluations.  Numbers are Dec <<m, e>>, names, keys and  *)
(* dictionary snapshots are strings.                                       *)
(*                                                                         *)
(* Event "quant": one quantity X of one reaction under one caller          *)
(* dictionary.                                                             *)
(*   kind   "sum" (Cv Cp U H S F G E, with or without units) | "prod" (q)  *)
(*   hasTS, hasSp, hasAct, hasK   which groups of fields are meaningful    *)
(*   bk     the caller's block keys ("<name>_kwargs"), in dictionary order *)
(*   sp     [r, p, t]: per side a sequence of [n, nu, n4, v]: name,        *)
(*          stoichiometric coefficient, 4*nu as an integer (prod only) and *)
(*          v = the species' own getter value under <<the ordinary         *)
(*          conditions, those merged with block 1, ..., with block m>>     *)
(*          (every candidate is logged; WHICH one applies is decided here) *)
(*   st     [r, p, t] library get_X_state values                           *)
(*   dl     <<ff, ft, tf, tt>> library get_delta_X(rev, act), index by     *)
(*          Idx(rev, act)                                                  *)
(*   act    <<f, t>> library get_X_act(rev)                                *)
(*   keq, ex, kfin   library get_Keq(rev, act), sensor exp(-dl) computed   *)
(*          by libm from the logged dl, and finiteness of both             *)
(*   kb, ka canonical text of the caller's dictionary before the first and *)
(*          after the last call of the event                               *)
(* Event "iso": one side evaluated with the caller dictionary (s1) and     *)
(* with the block `drop` removed (s0).                                     *)
(* Event "cycle": 2-5 reactions held in a Reactions container whose        *)
(* scaled / reversed combination is a net reaction or nothing: the same    *)
(* combination of their changes equals the net change (HessCycle).         *)
(* Event "edit": second use of one reaction object after an in-place edit  *)
(* of a public attribute (EditedEqualsFresh); the edited object is also    *)
(* judged by an ordinary "quant" event against its CURRENT coefficients.   *)
(* Event "refuse": a reaction WITHOUT a transition state; g = the getters  *)
(* called with act = True (or asked for the transition state), out = what  *)
(* each did ("raised" | "value").  A reaction without a transition state   *)
(* has no "transition state minus reactants": every such call must refuse  *)
(* (ActWithoutTSRefused).  Whatever IS returned is still judged: when the  *)
(* forward and reverse "activation" changes both come back (both, af, ar)  *)
(* they must differ by the reaction change d (ActDifference / QActRatio),  *)
(* likewise the "activation" equilibrium constants (kboth, kf, kr, k).     *)
(*                                                                         *)
(* Tolerances (BUILD_GUIDE): k = 7 for one or two operations on logged     *)
(* values, k = 6 for dot products over <= 10 species, k = 5 for the        *)
(* partition-function power clause (<= 40 Mul, exponents <= 16 amplify the *)
(* 9-digit rounding of the inputs).  Scale = largest term of the clause.   *)
(***************************************************************************)
EXTENDS Dec, TLC, TLCExt, Json, IOUtils

TraceLog == ndJsonDeserialize(IOEnv.TRACE_FILE)
VARIABLES l

One == <<1, 0>>
KWARGS == "_kwargs"

\* ---- routing: which logged candidate value a species contributes ----------
\* the block addressed to the species is the one whose key is exactly <name>_kwargs
PickFrom(s, bk, masked) ==
   LET hits == {j \in 1..Len(bk) : bk[j] = s.n \o KWARGS /\ bk[j] # masked}
   IN IF hits = {} THEN s.v[1] ELSE s.v[1 + (CHOOSE j \in hits : TRUE)]
Pick(s, bk) == PickFrom(s, bk, "")

Terms(side, bk) == [i \in 1..Len(side) |-> Mul(side[i].nu, Pick(side[i], bk))]
SideSum(side, bk) == SumSeq(Terms(side, bk))
TermSet(side, bk) == {Terms(side, bk)[i] : i \in 1..Len(side)}

RECURSIVE PowN(_, _)
PowN(x, n) == IF n = 0 THEN One
              ELSE IF n % 2 = 0 THEN Sq(PowN(x, n \div 2)) ELSE Mul(x, PowN(x, n - 1))
SideProd4(side, bk) == ProdSeq([i \in 1..Len(side) |-> PowN(Pick(side[i], bk), side[i].n4)])

\* ---- initial / final state of a change (Reaction.tla: States) ----------------
Idx(rev, act) == IF rev THEN (IF act THEN 4 ELSE 3) ELSE (IF act THEN 2 ELSE 1)
InitOf(rev) == IF rev THEN "p" ELSE "r"
FinalOf(rev, act) == IF act THEN "t" ELSE IF rev THEN "r" ELSE "p"
F(rec, s) == CASE s = "r" -> rec.r [] s = "p" -> rec.p [] s = "t" -> rec.t
Combos(e) == {<<rv, a>> : rv \in BOOLEAN, a \in (IF e.hasTS THEN BOOLEAN ELSE {FALSE})}
Sides(e) == IF e.hasTS THEN {"r", "p", "t"} ELSE {"r", "p"}
StateScale(e) == {F(e.st, s) : s \in Sides(e)}

Fail(ok, name) == IF ok THEN {} ELSE {name}

\* ---- additive quantities ------------------------------------------------------
SumSpClauses(e) ==
   Fail(\A s \in Sides(e) :
           CloseIn(F(e.st, s), SideSum(F(e.sp, s), e.bk), TermSet(F(e.sp, s), e.bk), 6),
        "StateIsWeightedSum")
   \cup Fail(\A c \in Combos(e) :
           LET fin == F(e.sp, FinalOf(c[1], c[2]))  ini == F(e.sp, InitOf(c[1]))
           IN CloseIn(e.dl[Idx(c[1], c[2])], Sub(SideSum(fin, e.bk), SideSum(ini, e.bk)),
                      TermSet(fin, e.bk) \cup TermSet(ini, e.bk), 6),
        "Hess")

SumClauses(e) ==
   Fail(\A c \in Combos(e) :
           LET fin == F(e.st, FinalOf(c[1], c[2]))  ini == F(e.st, InitOf(c[1]))
           IN CloseIn(e.dl[Idx(c[1], c[2])], Sub(fin, ini), {fin, ini}, 7),
        "DeltaOfStates")
   \cup Fail(CloseIn(e.dl[3], Neg(e.dl[1]), {e.st.r, e.st.p}, 7), "Antisymmetry")
   \cup (IF e.hasTS
         THEN Fail(CloseIn(Sub(e.dl[2], e.dl[4]), e.dl[1], StateScale(e), 7), "ActDifference")
         ELSE {})
   \cup (IF e.hasTS /\ e.hasAct
         THEN Fail(CloseIn(Sub(e.act[1], e.act[2]), e.dl[1], StateScale(e), 7), "ActDifference")
              \cup Fail(/\ CloseIn(e.act[1], e.dl[2], StateScale(e), 7)
                        /\ CloseIn(e.act[2], e.dl[4], StateScale(e), 7), "ActIsDeltaToTS")
         ELSE {})

KeqClauses(e) ==
   Fail(\A c \in Combos(e) : LET i == Idx(c[1], c[2]) IN e.kfin[i] => Close(e.keq[i], e.ex[i], 7),
        "KeqIsExpMinusDG")
   \cup Fail((e.kfin[1] /\ e.kfin[3]) => Close(Mul(e.keq[1], e.keq[3]), One, 6), "KfKrIsOne")
   \cup Fail((e.hasTS /\ e.kfin[1] /\ e.kfin[2] /\ e.kfin[4]) =>
                Close(e.keq[2], Mul(e.keq[4], e.keq[1]), 6), "KeqActRatio")

\* ---- partition functions ----------------------------------------------------
ProdSpClauses(e) ==
   Fail(\A s \in Sides(e) : \A i \in 1..Len(F(e.sp, s)) :
           LET x == F(e.sp, s)[i] IN Close(Mul(I(4), x.nu), I(x.n4), 8),
        "WITNESS")
   \cup Fail(\A s \in Sides(e) : Close(PowN(F(e.st, s), 4), SideProd4(F(e.sp, s), e.bk), 5),
             "QStateIsProduct")

ProdClauses(e) ==
   Fail(\A c \in Combos(e) :
           Close(Mul(e.dl[Idx(c[1], c[2])], F(e.st, InitOf(c[1]))), F(e.st, FinalOf(c[1], c[2])), 7),
        "QRatio")
   \cup Fail(Close(Mul(e.dl[1], e.dl[3]), One, 7), "QReversal")
   \cup (IF e.hasTS THEN Fail(Close(e.dl[2], Mul(e.dl[4], e.dl[1]), 7), "QActRatio") ELSE {})
   \cup (IF e.hasTS /\ e.hasAct
         THEN Fail(Close(e.act[1], Mul(e.act[2], e.dl[1]), 7), "QActRatio")
              \cup Fail(Close(e.act[1], e.dl[2], 7) /\ Close(e.act[2], e.dl[4], 7), "ActIsDeltaToTS")
         ELSE {})

QuantClauses(e) ==
   (IF e.kind = "sum"
    THEN SumClauses(e) \cup (IF e.hasSp THEN SumSpClauses(e) ELSE {})
         \cup (IF e.hasK THEN KeqClauses(e) ELSE {})
    ELSE ProdClauses(e) \cup (IF e.hasSp THEN ProdSpClauses(e) ELSE {}))
   \cup Fail(e.kb = e.ka, "CallerKwargsUntouched")

\* ---- a block addressed to one species changes only that species' term ------
IsoClauses(e) ==
   (IF e.kind = "sum"
    THEN LET d == [i \in 1..Len(e.side) |->
                     Mul(e.side[i].nu, Sub(Pick(e.side[i], e.bk), PickFrom(e.side[i], e.bk, e.drop)))]
             scale == {e.s1, e.s0} \cup TermSet(e.side, e.bk)
         IN Fail(CloseIn(Sub(e.s1, e.s0), SumSeq(d), scale, 6), "RouteIsolation")
    ELSE LET with == SideProd4(e.side, e.bk)
             without == ProdSeq([i \in 1..Len(e.side) |->
                                   PowN(PickFrom(e.side[i], e.bk, e.drop), e.side[i].n4)])
         IN Fail(Close(Mul(PowN(e.s1, 4), without), Mul(PowN(e.s0, 4), with), 5), "RouteIsolation"))
   \cup Fail(e.kb = e.ka, "CallerKwargsUntouched")

RefuseClauses(e) ==
   Fail(~e.hasTS => \A i \in 1..Len(e.out) : e.out[i] = "raised", "ActWithoutTSRefused")
   \cup (IF e.both
         THEN (IF e.kind = "sum"
               THEN Fail(CloseIn(Sub(e.af, e.ar), e.d, {e.sr, e.sp}, 7), "ActDifference")
               ELSE Fail(Close(e.af, Mul(e.ar, e.d), 7), "QActRatio"))
         ELSE {})
   \cup (IF e.kboth THEN Fail(Close(e.kf, Mul(e.kr, e.k), 6), "KeqActRatio") ELSE {})
   \cup Fail(e.kb = e.ka, "CallerKwargsUntouched")

\* ---- Hess cycles: members i with multipliers m[i] (scaled / reversed), combined into a net reaction
\* (or into nothing for a closed cycle).  vec[i] / netvec: stoichiometric vectors over the species of the
\* cycle as read back from the reaction objects (products positive); the combination is verified here
CycleClauses(e) ==
   LET n == Len(e.m)
       terms == [i \in 1..n |-> Mul(e.m[i], e.d[i])]
       scale == {terms[i] : i \in 1..n} \cup {Mul(e.m[i], e.sr[i]) : i \in 1..n}
                \cup {Mul(e.m[i], e.sp[i]) : i \in 1..n} \cup {e.nr, e.np}
       Wit(j) == LET w == [i \in 1..n |-> Mul(e.m[i], e.vec[i][j])]
                 IN CloseIn(SumSeq(w), e.netvec[j], {w[i] : i \in 1..n} \cup {One}, 7)
   IN Fail(\A j \in 1..Len(e.netvec) : Wit(j), "WITNESS")
      \cup Fail(CloseIn(SumSeq(terms), e.net, scale, 6), "HessCycle")
      \cup Fail(e.kb = e.ka, "CallerKwargsUntouched")

\* ---- second use: a reaction evaluated, edited in place (e.what), evaluated again (a) must answer like a
\* fresh reaction built from its current public attributes (b); a, b = <<states r, p, (t), changes>>
EditClauses(e) ==
   LET all == {e.a[i] : i \in 1..Len(e.a)} \cup {e.b[i] : i \in 1..Len(e.b)}
   IN Fail(/\ Len(e.a) = Len(e.b)
           /\ \A i \in 1..Len(e.a) : IF e.kind = "sum" THEN CloseIn(e.a[i], e.b[i], all, 7)
                                                        ELSE Close(e.a[i], e.b[i], 7),
           "EditedEqualsFresh")
      \cup Fail(e.kb = e.ka, "CallerKwargsUntouched")

Clauses(e) ==
   CASE e.ev = "quant" -> QuantClauses(e)
     [] e.ev = "edit" -> EditClauses(e)
     [] e.ev = "cycle" -> CycleClauses(e)
     [] e.ev = "refuse" -> RefuseClauses(e)
     [] e.ev = "iso" -> IsoClauses(e)
     [] OTHER -> {"UnknownEvent"}

Init == l = 1 /\ TLCSet(1, {})
Next == /\ l <= Len(TraceLog)
        /\ LET e == TraceLog[l]  bad == Clauses(e) IN
             IF bad # {} THEN TLCSet(1, TLCGet(1) \cup {<<e.tid, l, c>> : c \in bad}) ELSE TRUE
        /\ l' = l + 1
Spec == Init /\ [][Next]_l
Post == /\ PrintT(<<"FAILS", TLCGet(1)>>)
        /\ PrintT(<<"CONSUMED", TLCGet("stats").diameter - 1>>)
=============================================================================
