\* C04 design model, wrapper variant "modes_elements" - EXPECTED TO BE REJECTED (Refines)
SPECIFICATION Spec
CONSTANTS
  Variant = "modes_elements"
  ShomateOwn <- MCShomateOwn
  ClassFilter <- MCModes
INVARIANT TypeOK
INVARIANT WellFormed
INVARIANT Refines
CHECK_DEADLOCK FALSE
