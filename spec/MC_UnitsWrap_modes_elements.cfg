\* C04 design model, wrapper variant "modes_elements" - EXPECTED TO BE REJECTED (Refines)
SPECIFICATION Spec
CONSTANTS
  Variant = "modes_elements"
INVARIANT TypeOK
INVARIANT WellFormed
INVARIANT Refines
CHECK_DEADLOCK FALSE
