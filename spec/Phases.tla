------------------------------- MODULE Phases -------------------------------
(***************************************************************************)
(* C07 (phase histories) - the species lists of coexisting phase objects   *)
(* (pmutt.cantera.phase.Phase and its subclasses IdealGas, StoichSolid,    *)
(* pmutt.omkm.phase.InteractingInterface) edited over a history.           *)
(*                                                                         *)
(* REQUIRED state (what the property talks about)                          *)
(*   alive  : the phase objects constructed so far                         *)
(*   want   : [PhaseObj -> Seq(Species)]  the list each phase must hold:   *)
(*            the species it was constructed with, plus those added to IT, *)
(*            minus those removed from IT, in order                        *)
(*   owner  : [Species -> PhaseObj \cup {"none"}]  species.phase           *)
(* One action per public mutator / observer:                               *)
(*   New(p, arg)     construct p with species=list | omitted ("default")   *)
(*   Append(p, s)    p.append_species(s)                                   *)
(*   Extend(p, L)    p.extend_species(L)                                   *)
(*   Remove(p, s)    p.remove_species(name of s)  (first occurrence)       *)
(*   Pop(p, i)       p.pop_species(i)             (0-based, valid index)   *)
(*   Clear(p)        p.clear_species()                                     *)
(*   Copy(p)         p.copy_species()             (observer)               *)
(*   Observe(p)      read what a written phase says: p.elements, the       *)
(*                   elements / species of p.to_cti(), p.to_omkm_yaml()    *)
(*   Assign(p, L)    p.species = L                (property setter)        *)
(*                                                                         *)
(* IMPLEMENTATION-shaped state: a phase object does not hold a value, it   *)
(* holds a reference to a Python list (`cell[p]`), and lists live in a     *)
(* `store`.  Each phase has a private cell; in addition the function       *)
(* object of InteractingInterface.__init__ owns ONE list, the default      *)
(* value of its `species` parameter ("dflt").  Variant "shared_default"    *)
(* is the pinned source: a default-constructed interface keeps a reference *)
(* to that list.  Variant "fresh" gives every construction its own list.   *)
(* members(p) == store[cell[p]] is what species_names observes.            *)
(*                                                                         *)
(* DERIVED OBSERVABLES: everything a written phase says about its species  *)
(* is derived from the list: the species names and                         *)
(* Elements(p) = UNION of the elements of its species (ElemOf).  The       *)
(* implementation may remember a derived value (`cache`): variant          *)
(* CacheVariant = "none" recomputes on every read (the source),            *)
(* "stale_on_removal" remembers the elements at the first read and forgets *)
(* them on assignment/append/extend/clear but NOT on pop/remove.           *)
(*                                                                         *)
(* PROPERTIES                                                              *)
(*   PhaseElementsAreUnionOfSpecies  what p reports as its elements, at    *)
(*             any time, = UNION {ElemOf[s] : s in want[p]}                *)
(*   ListsExactlyItsSpecies  members(p) = want[p] for every live p         *)
(*   Frame     an action on p changes members(q) of no other live q        *)
(*   OwnerAfterInsert  after s was put into p, owner[s] = p                *)
(*   MovedSpeciesRefersToItsPhase / RemovalKeepsForeignReference  a        *)
(*             species moved between coexisting phases (either order)      *)
(*             refers to the phase that lists it; removing it from q never *)
(*             wipes a reference to another phase                          *)
(*   NewIsWhatWasGiven a new object lists exactly the species given (none  *)
(*                     when the argument was omitted)                      *)
(* Narrow readings (quantifier silent): lists handed to New/Extend/Assign  *)
(* are fresh lists owned by nobody else (aliasing created by the caller is *)
(* the caller's business); Remove/Pop are only called with a present name  *)
(* / valid index; a species is not added to a list that already holds it   *)
(* in the exhaustive model (the trace specification has no such limit);    *)
(* nothing is demanded of species.phase after a removal.                   *)
(***************************************************************************)
EXTENDS Integers, Sequences, FiniteSets, TLC

CONSTANTS PhaseObj,    \* identities of phase objects
          KindOf,      \* [PhaseObj -> {"gas", "solid", "iface"}]
          Species,
          GivenLists,  \* lists a caller may hand to New / Extend / Assign
          MaxLen,      \* bound on the length of a list
          MaxOps,      \* bound on the number of calls in a behaviour
          Variant,     \* "fresh" | "shared_default"
          ElemOf,      \* [Species -> SUBSET element names]
          CacheVariant,\* "none" | "stale_on_removal"
          OwnerVariant \* what a removal from q does to species.phase: "keep" (the source) |
                       \* "detach_if_self" (forget it only when it still is q) | "detach_always"

VARIABLES alive, want, owner, last, cell, store, cache, h
vars == <<alive, want, owner, last, cell, store, cache, h>>
\* `last[s]`: the phase s was most recently put into (ghost).  A species may be MOVED between two
\* coexisting phases in either order (add to the new one then remove / pop / clear from the old one, or
\* remove first); a removal from q must never touch the reference of a species that refers elsewhere.
NoCache == {"-"}

Cells == {<<"own", p>> : p \in PhaseObj} \cup {<<"dflt">>}
Own(p) == <<"own", p>>
members(p) == store[cell[p]]
membersNext(p) == store'[cell'[p]]

SeqToSet(s) == {s[i] : i \in 1..Len(s)}
ElemsOfList(L) == UNION {ElemOf[L[i]] : i \in 1..Len(L)}
\* what the object reports when asked now / after the step
Reported(p) == IF cache[p] # NoCache THEN cache[p] ELSE ElemsOfList(members(p))
ReportedNext(p) == IF cache'[p] # NoCache THEN cache'[p] ELSE ElemsOfList(membersNext(p))
Forget(p) == cache' = [cache EXCEPT ![p] = NoCache]
RemoveAt(s, i) == SubSeq(s, 1, i - 1) \o SubSeq(s, i + 1, Len(s))          \* 1-based
FirstIndex(s, x) == CHOOSE i \in 1..Len(s) : s[i] = x /\ \A j \in 1..(i - 1) : s[j] # x

\* ---- history record (for replay): the call and what every live phase lists afterwards
Rec(a, p, s, L, i, ret) ==
   [act |-> a, p |-> p, kind |-> KindOf[p], s |-> s, L |-> L, i |-> i, ret |-> ret,
    alive |-> alive',
    mem |-> [q \in PhaseObj |-> IF q \in alive' THEN want'[q] ELSE <<>>],
    el |-> [q \in PhaseObj |-> IF q \in alive' THEN ElemsOfList(want'[q]) ELSE {}],
    own |-> owner']
CanStep == Len(h) < MaxOps

Init == /\ alive = {}
        /\ want = [p \in PhaseObj |-> <<>>]
        /\ owner = [s \in Species |-> "none"]
        /\ last = [s \in Species |-> "none"]
        /\ cell = [p \in PhaseObj |-> Own(p)]
        /\ store = [c \in Cells |-> <<>>]
        /\ cache = [p \in PhaseObj |-> NoCache]
        /\ h = <<>>

SetOwner(S, p) == /\ owner' = [s \in Species |-> IF s \in S THEN p ELSE owner[s]]
                  /\ last' = [s \in Species |-> IF s \in S THEN p ELSE last[s]]
\* species.phase of the species in S after they were removed from q
Detach(S, q) ==
   /\ owner' = [s \in Species |->
                  IF s \notin S THEN owner[s]
                  ELSE IF OwnerVariant = "detach_always" THEN "none"
                  ELSE IF OwnerVariant = "detach_if_self" /\ owner[s] = q THEN "none"
                  ELSE owner[s]]
   /\ UNCHANGED last

\* construction: arg = Default (argument omitted) or a list from GivenLists
Default == <<"default">>
New(p, arg) ==
   /\ CanStep /\ p \notin alive
   /\ alive' = alive \cup {p}
   /\ IF arg = Default
      THEN /\ want' = [want EXCEPT ![p] = <<>>]
           /\ UNCHANGED <<owner, last>>
           /\ IF Variant = "shared_default" /\ KindOf[p] = "iface"
              THEN cell' = [cell EXCEPT ![p] = <<"dflt">>] /\ UNCHANGED store
              ELSE cell' = [cell EXCEPT ![p] = Own(p)] /\ store' = [store EXCEPT ![Own(p)] = <<>>]
      ELSE /\ want' = [want EXCEPT ![p] = arg]
           /\ SetOwner(SeqToSet(arg), p)
           /\ cell' = [cell EXCEPT ![p] = Own(p)]
           /\ store' = [store EXCEPT ![Own(p)] = arg]
   /\ Forget(p)
   /\ h' = Append(h, Rec("new", p, "-", arg, 0, <<>>))

Append_(p, s) ==
   /\ CanStep /\ p \in alive /\ Len(want[p]) < MaxLen /\ s \notin SeqToSet(want[p])
   /\ want' = [want EXCEPT ![p] = Append(@, s)]
   /\ store' = [store EXCEPT ![cell[p]] = Append(@, s)]
   /\ SetOwner({s}, p)
   /\ UNCHANGED <<alive, cell>> /\ Forget(p)
   /\ h' = Append(h, Rec("append", p, s, <<>>, 0, <<>>))

Extend(p, L) ==
   /\ CanStep /\ p \in alive /\ Len(want[p]) + Len(L) <= MaxLen
   /\ SeqToSet(L) \cap SeqToSet(want[p]) = {}
   /\ want' = [want EXCEPT ![p] = @ \o L]
   /\ store' = [store EXCEPT ![cell[p]] = @ \o L]
   /\ SetOwner(SeqToSet(L), p)
   /\ UNCHANGED <<alive, cell>> /\ Forget(p)
   /\ h' = Append(h, Rec("extend", p, "-", L, 0, <<>>))

Remove(p, s) ==
   /\ CanStep /\ p \in alive /\ s \in SeqToSet(want[p])
   /\ want' = [want EXCEPT ![p] = RemoveAt(@, FirstIndex(@, s))]
   \* the code looks the name up in what IT lists, then pops that index
   /\ IF s \in SeqToSet(members(p))
      THEN store' = [store EXCEPT ![cell[p]] = RemoveAt(@, FirstIndex(@, s))]
      ELSE UNCHANGED store
   /\ UNCHANGED <<alive, cell>> /\ Detach({s}, p)
   /\ (IF CacheVariant = "stale_on_removal" THEN UNCHANGED cache ELSE Forget(p))
   /\ h' = Append(h, Rec("remove", p, s, <<>>, 0, <<>>))

Pop(p, i) ==      \* i is the 0-based python index
   /\ CanStep /\ p \in alive /\ i >= 0 /\ i < Len(want[p])
   /\ want' = [want EXCEPT ![p] = RemoveAt(@, i + 1)]
   /\ IF i < Len(members(p))
      THEN store' = [store EXCEPT ![cell[p]] = RemoveAt(@, i + 1)]
      ELSE UNCHANGED store
   /\ UNCHANGED <<alive, cell>> /\ Detach({want[p][i + 1]}, p)
   /\ (IF CacheVariant = "stale_on_removal" THEN UNCHANGED cache ELSE Forget(p))
   /\ h' = Append(h, Rec("pop", p, "-", <<>>, i, <<>>))

Clear(p) ==
   /\ CanStep /\ p \in alive /\ want[p] # <<>>
   /\ want' = [want EXCEPT ![p] = <<>>]
   /\ store' = [store EXCEPT ![cell[p]] = <<>>]
   /\ UNCHANGED <<alive, cell>> /\ Detach(SeqToSet(want[p]), p) /\ Forget(p)
   /\ h' = Append(h, Rec("clear", p, "-", <<>>, 0, <<>>))

Copy(p) ==        \* observer: returns a new list with the same species
   /\ CanStep /\ p \in alive /\ (h = <<>> \/ h[Len(h)].act # "copy")
   /\ UNCHANGED <<alive, want, owner, last, cell, store, cache>>
   /\ h' = Append(h, Rec("copy", p, "-", <<>>, 0, want[p]))

Observe(p) ==     \* observer: the elements / species a written phase states (a "write")
   /\ CanStep /\ p \in alive /\ (h = <<>> \/ h[Len(h)].act # "observe" \/ h[Len(h)].p # p)
   /\ UNCHANGED <<alive, want, owner, last, cell, store>>
   /\ cache' = IF CacheVariant = "stale_on_removal" THEN [cache EXCEPT ![p] = Reported(p)] ELSE cache
   /\ h' = Append(h, Rec("observe", p, "-", <<>>, 0, want[p]))

Assign(p, L) ==   \* p.species = L rebinds p to the caller's (fresh) list
   /\ CanStep /\ p \in alive /\ L # want[p]
   /\ want' = [want EXCEPT ![p] = L]
   /\ cell' = [cell EXCEPT ![p] = Own(p)]
   /\ store' = [store EXCEPT ![Own(p)] = L]
   /\ SetOwner(SeqToSet(L), p)
   /\ UNCHANGED alive /\ Forget(p)
   /\ h' = Append(h, Rec("assign", p, "-", L, 0, <<>>))

Next == \/ \E p \in PhaseObj : \E arg \in GivenLists \cup {Default} : New(p, arg)
        \/ \E p \in PhaseObj, s \in Species : Append_(p, s) \/ Remove(p, s)
        \/ \E p \in PhaseObj, L \in GivenLists : (L # <<>> /\ Extend(p, L)) \/ Assign(p, L)
        \/ \E p \in PhaseObj, i \in 0..(MaxLen - 1) : Pop(p, i)
        \/ \E p \in PhaseObj : Clear(p) \/ Copy(p) \/ Observe(p)
Spec == Init /\ [][Next]_vars

\* ---- properties ------------------------------------------------------------
TypeOK == /\ alive \subseteq PhaseObj
          /\ \A p \in PhaseObj : want[p] \in Seq(Species) /\ Len(want[p]) <= MaxLen
          /\ \A s \in Species : owner[s] \in PhaseObj \cup {"none"}
          /\ \A p \in PhaseObj : cell[p] \in Cells
ListsExactlyItsSpecies == \A p \in alive : members(p) = want[p]
PhaseElementsAreUnionOfSpecies == \A p \in alive : Reported(p) = ElemsOfList(want[p])
\* a species that exactly one live phase lists, and that was last put into that phase, refers to it
Listers(s) == {p \in alive : s \in SeqToSet(want[p])}
MovedSpeciesRefersToItsPhase ==
   \A s \in Species : \A p \in alive : (Listers(s) = {p} /\ last[s] = p) => owner[s] = p
OwnerAlive == \A s \in Species : owner[s] # "none" => owner[s] \in alive
Last == h'[Len(h')]
Acted == h' # h
Frame == [][Acted => \A q \in alive \ {Last.p} : membersNext(q) = members(q)]_vars
NewIsWhatWasGiven ==
   [][(Acted /\ Last.act = "new") =>
        membersNext(Last.p) = (IF Last.L = Default THEN <<>> ELSE Last.L)]_vars
\* a removal from q leaves the reference of every species that refers to another phase alone
RemovalKeepsForeignReference ==
   [][(Acted /\ Last.act \in {"remove", "pop", "clear"}) =>
        \A s \in Species : owner[s] # Last.p => owner'[s] = owner[s]]_vars
OwnerAfterInsert ==
   [][Acted =>
        /\ (Last.act = "append" => owner'[Last.s] = Last.p)
        /\ (Last.act \in {"extend", "assign"} \/ (Last.act = "new" /\ Last.L # Default)
              => \A s \in SeqToSet(Last.L) : owner'[s] = Last.p)]_vars

\* ---- behaviours for replay ---------------------------------------------------
Done == Len(h) = MaxOps
EmitBehaviours == Done => PrintT(<<"BEH", h>>)
\* one behaviour per transition of the reachable graph (used with a VIEW without h):
\* every state is expanded once, every outgoing edge is printed with the path that led there
NextEmit == Next /\ PrintT(<<"BEH", h'>>)
SpecEmit == Init /\ [][NextEmit]_vars
=============================================================================
