\* S->C: every written session over the small pool (A, B2, C(S), M(B), E(T)), <= 3 species,
\* <= 2 reactions, printed with the documents the REQUIRED classification expects
SPECIFICATION Spec
CONSTANTS
  Pool <- MCPoolSmall
  Sites <- MCSites
  MaxSp = 3
  MaxRx = 2
  MaxMol = 2
  MaxCoef = 2
  GasTest = "all"
  LoneBulk = FALSE
  SDelims <- MCSDelims
  RDelims <- MCRDelims
  RunLists <- MCRunLists
  EvalMode = "each"
INVARIANT EmitCases
CHECK_DEADLOCK FALSE
