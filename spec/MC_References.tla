---------------------------- MODULE MC_References ----------------------------
EXTENDS References
MinusOne == -1
MinusTwo == -2
\* all non-zero compositions over two descriptors with entries 0..2
Comps2 == {<<a, b>> : a \in 0..2, b \in 0..2} \ {<<0, 0>>}
\* (d, t): offsets -1, 2 at 300 K and 0 at 296 K, so every d-vector over {-1, 0, 2} and both equal and
\* different reference temperatures occur
DT == {<<MinusOne, 300>>, <<2, 300>>, <<0, 296>>}
MCKinds == {[x |-> c, d |-> p[1], t |-> p[2], nm |-> 0] : c \in Comps2, p \in DT}
MCInit == {<<r>> : r \in MCKinds}
MCExt == {<<[x |-> <<2, 0>>, d |-> MinusOne, t |-> 300, nm |-> 0], [x |-> <<0, 2>>, d |-> 2, t |-> 300, nm |-> 0]>>,
          <<[x |-> <<1, 1>>, d |-> 2, t |-> 300, nm |-> 0], [x |-> <<1, 1>>, d |-> MinusOne, t |-> 300, nm |-> 0]>>}
MCIns == {[x |-> <<1, 2>>, d |-> 2, t |-> 300, nm |-> 0], [x |-> <<0, 1>>, d |-> 0, t |-> 296, nm |-> 0]}
MCIns3 == {[x |-> <<1, 0, 1>>, d |-> 2, t |-> 300, nm |-> 0], [x |-> <<0, 1, 0>>, d |-> 0, t |-> 296, nm |-> 0]}
MCSteps == {MinusOne, 1}

\* three descriptors, entries 0..1 (thorough)
Comps3 == {<<a, b, c>> : a \in 0..1, b \in 0..1, c \in 0..1} \ {<<0, 0, 0>>}
MCKinds3 == {[x |-> c, d |-> p[1], t |-> p[2], nm |-> 0] : c \in Comps3, p \in DT}
MCInit3 == {<<r>> : r \in MCKinds3}
MCExt3 == {<<[x |-> <<1, 0, 0>>, d |-> MinusOne, t |-> 300, nm |-> 0], [x |-> <<0, 1, 1>>, d |-> 2, t |-> 300, nm |-> 0]>>}

\* small instance whose complete behaviours are replayed into the real object
K1 == [x |-> <<2, 0>>, d |-> MinusOne, t |-> 300, nm |-> 0]
K2 == [x |-> <<2, 1>>, d |-> 2, t |-> 300, nm |-> 0]
K3 == [x |-> <<0, 2>>, d |-> 0, t |-> 296, nm |-> 1]
K4 == [x |-> <<1, 1>>, d |-> 2, t |-> 300, nm |-> 1]
K5 == [x |-> <<2, 2>>, d |-> MinusOne, t |-> 300, nm |-> 2]
K6 == [x |-> <<0, 1>>, d |-> 2, t |-> 300, nm |-> 0]
BehKinds == {K1, K2, K3, K5}
BehInit == {<<K1>>, <<K4>>, <<K1, K2>>, <<K2, K5>>, <<K3, K6>>, <<K1, K2, K3>>}
BehIns == {K4}
BehExt == {<<K3, K4>>, <<K6, K6>>}
Beh2Kinds == {K2, K5}
Beh2Ins == {K3, K4}
Beh2Init == {<<K4>>, <<K1, K2>>, <<K3, K6>>, <<K1, K2, K3>>}



\* square and square rank-deficient 3 x 3 cases with entries up to 8 (C2H6, H2CO, C3H8O = C2H6 + H2CO,
\* CH4, H2O, C2H4O2 = 2 H2CO over C, H, O): exhaustive and replayed
S1 == [x |-> <<2, 6, 0>>, d |-> MinusOne, t |-> 300, nm |-> 1]
S2 == [x |-> <<1, 2, 1>>, d |-> 2, t |-> 300, nm |-> 1]
S3 == [x |-> <<3, 8, 1>>, d |-> 0, t |-> 300, nm |-> 0]
S4 == [x |-> <<1, 4, 0>>, d |-> 2, t |-> 296, nm |-> 0]
S5 == [x |-> <<0, 2, 1>>, d |-> MinusOne, t |-> 300, nm |-> 2]
S6 == [x |-> <<2, 4, 2>>, d |-> MinusOne, t |-> 300, nm |-> 3]
SqKinds == {S1, S2, S3, S4, S5, S6}
SqInit == {<<S1, S2>>, <<S2, S3>>, <<S4, S5>>, <<S1, S2, S3>>, <<S2, S5, S6>>}
SqIns == {S3}
SqExt == {<<S2, S3>>}
NoGiven == {}
\* offsets passed to the constructor: exactly representable values over descriptor 1, and over 1 and 2
BehGiven == {[keys |-> <<1>>, off |-> <<RFrac(MinusOne, 2)>>, tref |-> R(400)],
             [keys |-> <<1, 2>>, off |-> <<R(3), RFrac(MinusOne, 4)>>, tref |-> R(250)]}
View == <<refs, keys, off, tref, fitted, cache, Len(h), h[Len(h)].act>>
=============================================================================
