\* exhaustive design model, required reader: every single-species file over
\* 10 names x 10 compositions x 2 phases x 2 notes x 3 coefficient sets x 2 temperature sets
\* (2400) and every list of 2-3 species over the 10 names (1100)
SPECIFICATION Spec
CONSTANTS
  Lists <- MCLists
  Classifier = "layout"
  ElemScan = "columns"
  Order = "strict"
INVARIANT FileLayout
INVARIANT NoError
INVARIANT PrefixOK
INVARIANT NoDrop
INVARIANT RoundTrip
INVARIANT FoldAgrees
CHECK_DEADLOCK FALSE
