\* _assign_yaml_val as found in the source: EXPECTED TO BE REJECTED (a supplied option is dropped,
\* unloadable, wrongly united or the call raises)
SPECIFICATION Spec
CONSTANTS
  Variant = "pinned"
  Emitting = FALSE
INVARIANT Refines
CHECK_DEADLOCK FALSE
