\* C04 design model, wrapper variant "shomate_native" - EXPECTED TO BE REJECTED (Refines)
SPECIFICATION Spec
CONSTANTS
  Variant = "shomate_native"
  ShomateOwn <- MCShomateOwn
  ClassFilter <- MCShomate
INVARIANT TypeOK
INVARIANT WellFormed
INVARIANT Refines
CHECK_DEADLOCK FALSE
