---------------------------- MODULE SuiteTraces ----------------------------
(***************************************************************************)
(* X05 - the protocol of the suite recorder (harness/suite_recorder.py).   *)
(*                                                                         *)
(* The recorder turns the repository's own test suite into recorded        *)
(* executions for the trace specifications Trace_StatMech, Trace_Poly and  *)
(* Trace_Reaction: while a test runs it OBSERVES every call the test code  *)
(* makes on a dimensionless getter of a thermodynamic object, and AFTER    *)
(* the test has finished it RE-EVALUATES every observed object at every    *)
(* condition set the test used.  This module is the recorder as a state    *)
(* machine, in an environment of test code that constructs, calls and      *)
(* drops objects whose addresses (Python id()) may be reused.              *)
(*                                                                         *)
(* Required (invariants below): every (object, condition set) a test's own *)
(* code evaluated successfully is re-evaluated exactly once, in the order  *)
(* of first observation, while that test is still the current one; nothing *)
(* else is re-evaluated; nothing is attributed to another test or object.  *)
(*                                                                         *)
(* The switches are the design decisions of the recorder; the as-built     *)
(* recorder has all of them TRUE.  Each FALSE is a plausible shortcut that *)
(* TLC must reject (MC_SuiteTraces_*.cfg).                                 *)
(*   HoldRefs    the registry keeps the observed objects alive until the   *)
(*               test ends (FALSE: id -> weak reference)                   *)
(*   ClearAtEnd  registry and observations are dropped when a test ends    *)
(*   GuardReeval the recorder does not observe its own re-evaluation calls *)
(*   KeyByCond   observations are keyed by (object, condition set)         *)
(*               (FALSE: one entry per object, first condition wins)       *)
(*   SkipNested  calls made by library code (a reaction calling its        *)
(*               species) are not observations                             *)
(*   SkipRaised  a call that raised is not an observation                  *)
(***************************************************************************)
EXTENDS Naturals, Sequences, FiniteSets, TLC

CONSTANTS NT,          \* tests run in the order 1..NT
          Plain,       \* plain objects (species, modes)
          Comp,        \* composite objects (reactions) ...
          Parts,       \* ... and the plain objects each of them calls internally
          Conds,       \* condition sets (kwargs of a getter call)
          Nb,          \* Conds -> Conds: the neighbouring condition a re-evaluation also visits
          Ids,         \* addresses; fewer than objects, so an address can be reused
          MaxSteps,    \* bound on construct / call / release steps of the test code
          HoldRefs, ClearAtEnd, GuardReeval, KeyByCond, SkipNested, SkipRaised

Objs == Plain \cup Comp
None == "none"

VARIABLES next,      \* index of the next test to start (NT + 1: all done)
          cur,       \* the recorder's current test (0: none)
          mode,      \* "idle" | "run" (test code executes) | "reeval" (recorder re-evaluates)
          held,      \* objects the test code / module globals still reference
          born,      \* objects constructed so far (each name is constructed once)
          addr,      \* Objs -> Ids \cup {None}: address given at construction
          reg,       \* recorder: Ids -> Objs \cup {None}, the object registered at an address
          obs,       \* recorder: sequence of <<address, cond>> in order of first observation
          pending,   \* recorder: what is left to re-evaluate (a suffix of obs at End)
          enabled,   \* recorder: observation switched on
          out,       \* emitted re-evaluations: sequence of [test, obj, cond]
          truth,     \* ghost: test -> sequence of <<obj, cond>> its own code evaluated successfully
          h          \* history of test-code steps (replayed into the real recorder)
vars == <<next, cur, mode, held, born, addr, reg, obs, pending, enabled, out, truth, h>>

Range(s) == {s[i] : i \in 1..Len(s)}
RECURSIVE AddAll(_, _)
AddAll(s, items) ==            \* append the items not yet present, keeping order
   IF Len(items) = 0 THEN s
   ELSE AddAll(IF Head(items) \in Range(s) THEN s ELSE Append(s, Head(items)), Tail(items))

RECURSIVE Flat(_)
Flat(ss) == IF Len(ss) = 0 THEN <<>> ELSE Head(ss) \o Flat(Tail(ss))
PartSet(r) == Range(Parts[r])      \* Parts[r] is a sequence: the order of the internal calls

\* ---- environment: which objects are alive, which addresses are in use ------
AliveTop(o) == o \in held \/ (HoldRefs /\ \E a \in Ids : reg[a] = o)
Alive(o) == o \in born /\ (AliveTop(o) \/ \E r \in Comp : r \in born /\ AliveTop(r) /\ o \in PartSet(r))
UsedAddrs == {addr[o] : o \in {x \in born : Alive(x)}}
\* what the recorder gets when it dereferences a registered address
Deref(a) == IF reg[a] # None /\ Alive(reg[a]) THEN reg[a] ELSE None

Done == next = NT + 1 /\ mode = "idle"
Recording == cur # 0 /\ mode = "run" /\ enabled
\* test code runs inside a test, or at import time before the first test
UserSteps == Len(SelectSeq(h, LAMBDA s : s.act \notin {"start", "end"}))
UserCan == ~Done /\ UserSteps < MaxSteps /\ (mode = "run" \/ (mode = "idle" /\ next = 1))

Step(act, o, cs, ok) == [act |-> act, o |-> o, cs |-> cs, ok |-> ok]

\* ---- recorder primitives ----------------------------------------------------
Register(seen) ==
   [a \in Ids |-> IF \E x \in seen : addr[x] = a THEN CHOOSE x \in seen : addr[x] = a ELSE reg[a]]
ObsItems(x, cs) ==             \* the observations one object contributes for the conditions cs
   IF KeyByCond THEN [i \in 1..Len(cs) |-> <<addr[x], cs[i]>>]
   ELSE IF \E p \in Range(obs) : p[1] = addr[x] THEN <<>> ELSE << <<addr[x], cs[1]>> >>

\* ---- test code ---------------------------------------------------------------
Construct(o) ==
   /\ UserCan /\ o \notin born
   /\ (o \in Comp => PartSet(o) \subseteq held)
   /\ \E a \in Ids \ UsedAddrs :
        /\ addr' = [addr EXCEPT ![o] = a]
        /\ reg' = IF Recording THEN [reg EXCEPT ![a] = o] ELSE reg
   /\ born' = born \cup {o} /\ held' = held \cup {o}
   /\ h' = Append(h, Step("construct", o, <<>>, TRUE))
   /\ UNCHANGED <<next, cur, mode, obs, pending, enabled, out, truth>>

\* the test code calls a getter of o with an array of conditions cs; ok: it returned normally
Call(o, cs, ok) ==
   /\ UserCan /\ o \in held
   /\ LET direct == IF Recording /\ (ok \/ ~SkipRaised) THEN <<o>> ELSE <<>>
          inner == IF Recording /\ ~SkipNested /\ o \in Comp THEN Parts[o] ELSE <<>>
          seen == inner \o direct                      \* inner calls return first
          items == [i \in 1..Len(seen) |-> ObsItems(seen[i], cs)]
      IN /\ reg' = Register(Range(seen))
         /\ obs' = AddAll(obs, Flat(items))
   /\ truth' = IF cur # 0 /\ mode = "run" /\ ok
               THEN [truth EXCEPT ![cur] = AddAll(@, [i \in 1..Len(cs) |-> <<o, cs[i]>>])]
               ELSE truth
   /\ h' = Append(h, Step("call", o, cs, ok))
   /\ UNCHANGED <<next, cur, mode, held, born, addr, pending, enabled, out>>

Release(o) ==
   /\ UserCan /\ o \in held
   /\ held' = held \ {o}
   /\ h' = Append(h, Step("release", o, <<>>, TRUE))
   /\ UNCHANGED <<next, cur, mode, born, addr, reg, obs, pending, enabled, out, truth>>

\* ---- pytest hooks ---------------------------------------------------------------
Start ==
   /\ mode = "idle" /\ next <= NT
   /\ cur' = next /\ mode' = "run"
   /\ h' = Append(h, Step("start", None, <<>>, TRUE))
   /\ UNCHANGED <<next, held, born, addr, reg, obs, pending, enabled, out, truth>>

End ==                          \* the test (with its teardown) has finished
   /\ mode = "run"
   /\ mode' = "reeval" /\ pending' = obs /\ enabled' = ~GuardReeval
   /\ h' = Append(h, Step("end", None, <<>>, TRUE))
   /\ UNCHANGED <<next, cur, held, born, addr, reg, obs, out, truth>>

Reeval ==                       \* one (object, condition set), in order of observation
   /\ mode = "reeval" /\ Len(pending) > 0
   /\ LET p == Head(pending)  o == Deref(p[1]) IN
        /\ out' = IF o = None THEN out ELSE Append(out, [test |-> cur, obj |-> o, cond |-> p[2]])
        \* the re-evaluation calls the getters of o at the condition and at its neighbour
        /\ obs' = IF o # None /\ enabled THEN AddAll(obs, <<p, <<p[1], Nb[p[2]]>> >>) ELSE obs
   /\ pending' = Tail(pending)
   /\ UNCHANGED <<next, cur, mode, held, born, addr, reg, enabled, truth, h>>

Finish ==
   /\ mode = "reeval" /\ Len(pending) = 0
   /\ cur' = 0 /\ next' = next + 1 /\ mode' = "idle" /\ enabled' = TRUE
   /\ obs' = IF ClearAtEnd THEN <<>> ELSE obs
   /\ reg' = IF ClearAtEnd THEN [a \in Ids |-> None] ELSE reg
   /\ UNCHANGED <<held, born, addr, pending, out, truth, h>>

CondSeqs == {<<c>> : c \in Conds} \cup {<<p[1], p[2]>> : p \in {q \in Conds \X Conds : q[1] # q[2]}}

Init ==
   /\ next = 1 /\ cur = 0 /\ mode = "idle"
   /\ held = {} /\ born = {} /\ addr = [o \in Objs |-> None]
   /\ reg = [a \in Ids |-> None] /\ obs = <<>> /\ pending = <<>> /\ enabled = TRUE
   /\ out = <<>> /\ truth = [t \in 1..NT |-> <<>>] /\ h = <<>>

Next ==
   \/ \E o \in Objs : Construct(o) \/ Release(o)
   \/ \E o \in Objs, cs \in CondSeqs, ok \in BOOLEAN : Call(o, cs, ok)
   \/ Start \/ End \/ Reeval \/ Finish

Spec == Init /\ [][Next]_vars

\* ---- the requirement ----------------------------------------------------------------
Ev(t, p) == [test |-> t, obj |-> p[1], cond |-> p[2]]
OutOf(t) == SelectSeq(out, LAMBDA e : e.test = t)

TypeOK ==
   /\ next \in 1..(NT + 1) /\ cur \in 0..NT /\ mode \in {"idle", "run", "reeval"}
   /\ held \subseteq born /\ born \subseteq Objs
   /\ \A i \in 1..Len(out) : out[i].test \in 1..NT /\ out[i].obj \in Objs /\ out[i].cond \in Conds

\* the environment is sane: two live objects never share an address
AddrDistinct == \A x, y \in born : (Alive(x) /\ Alive(y) /\ x # y) => addr[x] # addr[y]

\* while a test is current the recorder's observations ARE what the test code evaluated, in order
ObservedIsTruth ==
   IF cur # 0
   THEN [i \in 1..Len(obs) |-> <<Deref(obs[i][1]), obs[i][2]>>] = truth[cur]
   ELSE obs = <<>>

\* nothing is attributed to a test (or object) that did not evaluate it
OutSound == \A i \in 1..Len(out) : <<out[i].obj, out[i].cond>> \in Range(truth[out[i].test])

\* a finished test has every evaluation re-evaluated exactly once, in the order of observation
ExactlyOnce == \A t \in 1..NT : t < next => OutOf(t) = [i \in 1..Len(truth[t]) |-> Ev(t, truth[t][i])]

\* while a test is re-evaluated, what is out so far is a prefix of what it will be
Prefix == cur # 0 => /\ Len(OutOf(cur)) <= Len(truth[cur])
                     /\ \A i \in 1..Len(OutOf(cur)) : OutOf(cur)[i] = Ev(cur, truth[cur][i])

\* re-evaluations are emitted only while their test is the current one
OwnTest == [][Len(out') > Len(out) => (mode = "reeval" /\ cur # 0 /\ out'[Len(out')].test = cur)]_vars

EmitBehaviours == Done => PrintT(<<"BEH", h, out>>)
=============================================================================
