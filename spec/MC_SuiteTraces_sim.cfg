\* X05 (S->C): random behaviours of the recorder as built (tlc -simulate), printed for replay:
\* three tests, up to 14 steps of test code
SPECIFICATION Spec
CONSTANTS
  NT = 3
  Plain = {"a", "b", "d"}
  Comp = {"r"}
  Parts <- MCParts
  Conds = {"c1", "c2"}
  Nb <- MCNb
  Ids = {i1, i2, i3}
  MaxSteps = 14
  HoldRefs = TRUE
  ClearAtEnd = TRUE
  GuardReeval = TRUE
  KeyByCond = TRUE
  SkipNested = TRUE
  SkipRaised = TRUE
INVARIANTS ObservedIsTruth OutSound ExactlyOnce EmitBehaviours
CHECK_DEADLOCK FALSE
