------------------------------- MODULE OmkmIds -------------------------------
(***************************************************************************)
(* C07 - id allocation of write_cti / write_thermo_yaml as a state machine *)
(* (reactions r_%04d; interactions i_%04d and BEPs b_%04d are allocated by *)
(* the same loop).                                                         *)
(*   given : [1..N -> UserIds \cup {"none"}]   ids chosen by the user      *)
(*   cur   : ids on the objects now (the writers assign to the objects)    *)
(*   doc   : ids written by the last Write                                 *)
(* Variant "counter" is the source: a counter i that counts only the auto  *)
(* assigned ids, formatted r_%04d.  Variant "skip_used" never hands out an *)
(* id that a user chose.  Required: IdsUnique, UserIdsKept, AllHaveIds,    *)
(* StableOnRewrite (writing twice gives the same ids).                     *)
(***************************************************************************)
EXTENDS Integers, Sequences, FiniteSets, TLC
CONSTANTS N, UserIds, Variant
VARIABLES given, cur, doc, writes
avars == <<given, cur, doc, writes>>
Auto(i) == <<"r_0000", "r_0001", "r_0002", "r_0003", "r_0004", "r_0005">>[i + 1]
RECURSIVE Assign(_, _, _, _)
\* walk the list like the writer's loop; i = counter of auto ids handed out so far
Assign(ids, k, i, used) ==
   IF k > Len(ids) THEN ids
   ELSE IF ids[k] # "none" THEN Assign(ids, k + 1, i, used)
   ELSE LET RECURSIVE Free(_)
            Free(j) == IF Variant = "skip_used" /\ Auto(j) \in used THEN Free(j + 1) ELSE j
            j == Free(i)
        IN Assign([ids EXCEPT ![k] = Auto(j)], k + 1, j + 1, used)
AInit == /\ given \in {g \in [1..N -> UserIds \cup {"none"}] :
                         \A a, b \in 1..N : (a # b /\ g[a] # "none") => g[a] # g[b]}
         /\ cur = given /\ doc = <<>> /\ writes = 0
Write == /\ writes < 2
         /\ cur' = Assign(cur, 1, 0, {cur[k] : k \in 1..N} \ {"none"})
         /\ doc' = cur' /\ writes' = writes + 1 /\ UNCHANGED given
ANext == Write
ASpec == AInit /\ [][ANext]_avars
IdsUnique == doc # <<>> => \A a, b \in 1..N : a # b => doc[a] # doc[b]
UserIdsKept == doc # <<>> => \A a \in 1..N : given[a] # "none" => doc[a] = given[a]
AllHaveIds == doc # <<>> => \A a \in 1..N : doc[a] # "none"
StableOnRewrite == [][writes = 1 => doc' = doc]_avars
=============================================================================
