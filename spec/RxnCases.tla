------------------------------ MODULE RxnCases ------------------------------
(***************************************************************************)
(* C14 - the bounded case families of the reaction-string design model.    *)
(* Used by MC_RxnString.tla (initial states) and Gen_C14.tla (cases with   *)
(* TLC-computed expectations replayed into the real code).                 *)
(*                                                                         *)
(* A case is                                                               *)
(*   [kind |-> "print", r, d, space, spd, rxd, pad]   print, pad, read     *)
(*   [kind |-> "hand",  toks, spd, rxd, pad]          hand-written text    *)
(* r = [re, ts, pr], each a sequence of [nm, co] (co an Fx); toks likewise *)
(* of tokens [num, gap, nm]; ts = <<>> means no transition state.          *)
(***************************************************************************)
EXTENDS RxnString

\* ---- names (character codes)
nA == <<65>>                               \* A
nH2O == <<72, 50, 79>>                     \* H2O
nCH3S == <<67, 72, 51, 40, 83, 41>>        \* CH3(S)
nCstar == <<67, 42>>                       \* C*
nATS == <<65, 95, 84, 83>>                 \* A_TS
nB2 == <<66, 50>>                          \* B2
Names6 == {nA, nH2O, nCH3S, nCstar, nATS, nB2}
Names3 == {nA, nH2O, nCH3S}

\* ---- coefficients
cOne == FxInt(1)
cHalf == <<0, 500000000, 0>>
cQuarter == <<0, 250000000, 0>>
cEighth == <<0, 125000000, 0>>
cThreeHalves == <<1, 500000000, 0>>
cTenth == <<0, 100000000, 0>>
cNear3 == <<2, 999999999, 999999600>>      \* the double 2.9999999999999996
cNear2 == <<1, 999999999, 999999800>>      \* the double 1.9999999999999998
cNear1 == <<0, 999999999, 999999900>>      \* the double 0.9999999999999999
c2675 == <<2, 675000000, 0>>               \* repr 2.675 (a decimal tie; the double is below it)
Coefs == {cOne, FxInt(2), FxInt(3), cHalf, cQuarter, cEighth, cThreeHalves, cTenth,
          cNear3, cNear2, cNear1, c2675}

\* ---- delimiters  <<species delimiter, reaction delimiter>>
dPlus == <<43>>            dEq == <<61>>              dArrow == <<60, 61, 62>>       \* + = <=>
dDot == <<46>>             dGG == <<62, 62>>          dSemi == <<32, 59, 32>>        \* . >> " ; "
dBar == <<124>>            dTo == <<45, 62>>          dEqSp == <<32, 61, 32>>        \* | -> " = "
DelimPairs == {<<dPlus, dEq>>, <<dPlus, dArrow>>, <<dDot, dGG>>, <<dSemi, dArrow>>,
               <<dBar, dTo>>, <<dPlus, dEqSp>>}
HasDot(p) == Contains(p[1], <<46>>) \/ Contains(p[2], <<46>>)
Pads == {<<0, 0, 0>>, <<1, 1, 1>>, <<2, 0, 1>>}

It(nm, co) == [nm |-> nm, co |-> co]

\* ---- family A: every coefficient x every format, one or two reactants
SidesA == {<<It(n, c)>> : n \in Names3, c \in Coefs}
          \cup {<<It(n1, c1), It(n2, c2)>> : n1 \in {nA}, n2 \in {nH2O, nCH3S}, c1 \in Coefs, c2 \in Coefs}
CaseA(s, d, sp) == [kind |-> "print", r |-> [re |-> s, ts |-> <<>>, pr |-> <<It(nB2, cOne)>>],
                    d |-> d, space |-> sp, spd |-> dPlus, rxd |-> dEq, pad |-> <<0, 0, 0>>]
FormatsA == 0..6
FamilyA(u) == {CaseA(s, d, sp) : s \in SidesA, d \in FormatsA, sp \in BOOLEAN}

\* ---- family B: structure (1-3 distinct species, TS, delimiters, blanks), format .2f
Pattern(p) == IF HasDot(p) THEN <<FxInt(2), cOne, FxInt(3)>> ELSE <<FxInt(2), cOne, cHalf>>
SeqsB == {<<a>> : a \in Names6}
         \cup {s \in {<<a, b>> : a \in Names6, b \in Names6} : s[1] # s[2]}
         \cup {s \in {<<a, b, c>> : a \in {nA, nCstar}, b \in Names6, c \in Names6}
                : s[1] # s[2] /\ s[1] # s[3] /\ s[2] # s[3]}
SideB(ns, p) == [i \in 1..Len(ns) |-> It(ns[i], Pattern(p)[i])]
TSesB == {<<>>, <<It(nATS, cOne)>>}
CaseB(ns, ts, p, sp, pad) ==
   [kind |-> "print",
    r |-> [re |-> SideB(ns, p), ts |-> ts,
           pr |-> <<It(nH2O, IF HasDot(p) THEN FxInt(3) ELSE cThreeHalves), It(nB2, cOne)>>],
    d |-> 2, space |-> sp, spd |-> p[1], rxd |-> p[2], pad |-> pad]
FamilyB(u) == {CaseB(ns, ts, p, sp, pad) : ns \in SeqsB, ts \in TSesB, p \in DelimPairs, sp \in BOOLEAN,
                                        pad \in Pads}

\* ---- family E (thorough): four species on both sides, every order of 4 of the 6 names
SeqsE == {s \in {<<a, b, c, d>> : a \in Names6, b \in Names6, c \in Names6, d \in Names6}
          : Cardinality({s[1], s[2], s[3], s[4]}) = 4}
PatternE == <<FxInt(2), cOne, cHalf, cThreeHalves>>
CaseE(ns, ts, p, sp) ==
   [kind |-> "print",
    r |-> [re |-> [i \in 1..4 |-> It(ns[i], PatternE[i])], ts |-> ts,
           pr |-> [i \in 1..4 |-> It(ns[5 - i], PatternE[i])]],
    d |-> 2, space |-> sp, spd |-> p[1], rxd |-> p[2], pad |-> <<1, 0, 1>>]
PairsE == {p \in DelimPairs : ~HasDot(p)}
FamilyE(u) == {CaseE(ns, ts, p, sp) : ns \in SeqsE, ts \in TSesB, p \in PairsE, sp \in BOOLEAN}

\* ---- family F: the transition state: one or two species, coefficients other than 1 and other
\* than the products', printed (all delimiter pairs) and hand-written
TSesF == {<<It(nATS, c)>> : c \in {cOne, FxInt(2), FxInt(3), cHalf, cThreeHalves, cNear3}}
         \cup {<<It(nATS, c1), It(nCstar, c2)>> : c1 \in {cOne, FxInt(2), cHalf}, c2 \in {cOne, FxInt(3), cThreeHalves}}
IntOnly(side) == \A i \in 1..Len(side) : side[i].co[2] = 0 /\ side[i].co[3] = 0
CaseF(ts, p, sp, pad) ==
   [kind |-> "print", r |-> [re |-> <<It(nA, FxInt(2))>>, ts |-> ts, pr |-> <<It(nB2, cOne), It(nH2O, FxInt(2))>>],
    d |-> 2, space |-> sp, spd |-> p[1], rxd |-> p[2], pad |-> pad]
PairsF(ts) == IF IntOnly(ts) THEN DelimPairs ELSE {p \in DelimPairs : ~HasDot(p)}
FamilyF(u) == UNION {{CaseF(ts, p, sp, pad) : p \in PairsF(ts), sp \in BOOLEAN, pad \in Pads} : ts \in TSesF}

\* ---- family C: hand-written text (integer / decimal / omitted coefficients, repeats)
Tok(num, gap, nm) == [num |-> num, gap |-> gap, nm |-> nm]
num2 == <<50>>  num1 == <<49>>  num05 == <<48, 46, 53>>  num250 == <<50, 46, 53, 48>>
num3dot == <<51, 46>>  num0125 == <<48, 46, 49, 50, 53>>  num10 == <<49, 48>>  num02 == <<48, 50>>
NumsC == {<<>>, num1, num2, num05, num250, num3dot, num0125, num10, num02}
NumsInt == {<<>>, num2, num10}
ToksC == {Tok(n, g, nm) : n \in NumsC, g \in 0..1, nm \in {nA, nH2O}}
ToksC3 == {Tok(n, 0, nm) : n \in {<<>>, num2, num05}, nm \in {nA, nH2O}}
SidesC == {<<t>> : t \in ToksC} \cup {<<t, u>> : t \in ToksC, u \in ToksC}
          \cup {<<t, u, v>> : t \in ToksC3, u \in ToksC3, v \in ToksC3}
TSesC == {<<>>, <<Tok(<<>>, 0, nATS)>>}
CaseC(s, ts, p, pad) == [kind |-> "hand", toks |-> [re |-> s, ts |-> ts, pr |-> <<Tok(<<>>, 0, nB2)>>],
                         spd |-> p[1], rxd |-> p[2], pad |-> pad]
\* quick: each delimiter pair with one blank pattern; full: both patterns with both pairs
LayoutsC(full) == IF full THEN {<<dPlus, dEq>>, <<dSemi, dArrow>>} \X {<<0, 0, 0>>, <<2, 1, 1>>}
                  ELSE {<<<<dPlus, dEq>>, <<0, 0, 0>>>>, <<<<dSemi, dArrow>>, <<2, 1, 1>>>>}
FamilyC(full) == {CaseC(s, ts, lay[1], lay[2]) : s \in SidesC, ts \in TSesC, lay \in LayoutsC(full)}
\* RING style '.' / '>>' with integer coefficients only
SidesD == {<<t>> : t \in {Tok(n, g, nm) : n \in NumsInt, g \in 0..1, nm \in {nA, nH2O}}}
          \cup {<<Tok(n1, 0, nm1), Tok(n2, 0, nm2)>> : n1 \in NumsInt, n2 \in NumsInt,
                                                      nm1 \in {nA, nH2O}, nm2 \in {nA, nH2O}}
CaseD(s, ts, pad) == [kind |-> "hand",
                      toks |-> [re |-> s, ts |-> ts, pr |-> <<Tok(num2, 0, nB2), Tok(<<>>, 0, nCstar)>>],
                      spd |-> dDot, rxd |-> dGG, pad |-> pad]
PadsD == {<<0, 0, 0>>, <<1, 1, 0>>}
FamilyD(u) == {CaseD(s, ts, pad) : s \in SidesD, ts \in TSesC, pad \in PadsD}

\* ---- family G: hand-written transition states (1-2 tokens, every numeral, repeats)
TSesG == {<<t>> : t \in ToksC} \cup {<<t, u>> : t \in ToksC3, u \in ToksC3}
CaseG(ts, lay) == [kind |-> "hand", toks |-> [re |-> <<Tok(num2, 0, nCstar)>>, ts |-> ts, pr |-> <<Tok(<<>>, 0, nB2)>>],
                   spd |-> lay[1][1], rxd |-> lay[1][2], pad |-> lay[2]]
FamilyG(u) == {CaseG(ts, lay) : ts \in TSesG, lay \in LayoutsC(TRUE)}

\* ---- text of a case
HandStates(t) == LET side(s) == [i \in 1..Len(s) |-> TokenText(s[i])]
                 IN IF Len(t.ts) = 0 THEN <<side(t.re), side(t.pr)>>
                    ELSE <<side(t.re), side(t.ts), side(t.pr)>>
TextOf(cs, variant) ==
   IF cs.kind = "print"
   THEN Compose(PrintStates(variant, cs.r, cs.d, cs.space), cs.spd, cs.rxd, cs.pad)
   ELSE Compose(HandStates(cs.toks), cs.spd, cs.rxd, cs.pad)

\* ---- expectations for replay (millionths; unique because ties are left out)
SideHasTie(items, d) == \E i \in 1..Len(items) : IsTie(items[i].co, d)
CaseHasTie(cs) == cs.kind = "print" /\ (SideHasTie(cs.r.re, cs.d) \/ SideHasTie(cs.r.ts, cs.d)
                                       \/ SideHasTie(cs.r.pr, cs.d))
Millionths(c) == c[1] * 1000000 + c[2] \div 1000            \* exact for <= 6 decimals
ExpectPrintSide(items, d) == [i \in 1..Len(items) |->
                                [nm |-> items[i].nm, u |-> RoundTo(items[i].co, d) * PowTen(6 - d)]]
ExpectHandSide(toks) == LET m == Meaning(toks)
                        IN [i \in 1..Len(m) |-> [nm |-> m[i].nm, u |-> Millionths(m[i].co)]]
Expect(cs) == IF cs.kind = "print"
              THEN [re |-> ExpectPrintSide(cs.r.re, cs.d), ts |-> ExpectPrintSide(cs.r.ts, cs.d),
                    pr |-> ExpectPrintSide(cs.r.pr, cs.d), hasTS |-> Len(cs.r.ts) > 0]
              ELSE [re |-> ExpectHandSide(cs.toks.re), ts |-> ExpectHandSide(cs.toks.ts),
                    pr |-> ExpectHandSide(cs.toks.pr), hasTS |-> Len(cs.toks.ts) > 0]
=============================================================================
