------------------------------ MODULE MC_EOS ------------------------------
(* C20 design model instance.  Roots {1,2,3,5,24}, complex pairs c +/- d i  *)
(* with c in {1,2,4,7}, d in {1,3}; pressures {1/2, 1, 3}; amounts           *)
(* {1/2, 1, 3}; ideal RT in {1/3, 2, 7}.  The big root 24 makes the          *)
(* low-density antecedent of IdealLimit true for some states.  Critical     *)
(* constants: a in {1/2,1,3,27,8/5} x b in {1/3,1/2,1,2,3/7} (small, so     *)
(* that cubes stay inside 32-bit integers; TLC reports any overflow).        *)
EXTENDS EOS, Json, IOUtils, SequencesExt
MCRoots == {1, 2, 3, 5, 24}
MCRe == {1, 2, 4, 7}
MCIm == {1, 3}
\* larger root sets for the constant-level case emission (MC_EOS_cases.cfg)
MCCaseRoots == {1, 2, 3, 4, 5, 6, 8, 12, 24}
MCCaseRe == {1, 2, 3, 4, 7, 10}
MCCaseIm == {1, 2, 3}
MCPressures == {<<1, 2>>, <<1, 1>>, <<3, 1>>}
MCAmounts == {<<1, 2>>, <<1, 1>>, <<3, 1>>}
MCIdealRTs == {<<1, 3>>, <<2, 1>>, <<7, 1>>}

\* constant-level: critical constants on every modelled van der Waals object and a grid of (RTc, Pc)
MCCritA == {<<1, 2>>, <<1, 1>>, <<3, 1>>, <<27, 1>>, <<8, 5>>}
MCCritB == {<<1, 3>>, <<1, 2>>, <<1, 1>>, <<2, 1>>, <<3, 7>>}
ASSUME \A a \in MCCritA, b \in MCCritB : CriticalOK([kind |-> "vdw", a |-> a, b |-> b])
ASSUME \A rtc \in MCIdealRTs \cup {<<5, 2>>, <<40, 3>>}, pc \in MCPressures \cup {<<7, 5>>} : FromCriticalOK(rtc, pc)
\* the low-density antecedent is reachable, and so are three-root and one-root cubics with c > r
ASSUME \E c \in Cubics3, P \in MCPressures :
          LET e == VdwOf(c, P)  RT == RTOf(c, P)
          IN QLe(RMul(R(8), RMul(RAdd(e.b, RDiv(e.a, RT)), P)), RT)
ASSUME \E c \in Cubics1 : c.roots[2].re > c.roots[1].re
ASSUME \E c \in Cubics1 : c.roots[2].re < c.roots[1].re
\* every modelled van der Waals object is physical: a, b, RT > 0 and every real root exceeds b
ASSUME \A c \in Cubics, P \in MCPressures :
          LET e == VdwOf(c, P) IN
          /\ RLt(Zero, e.a) /\ RLt(Zero, e.b) /\ RLt(Zero, RTOf(c, P))
          /\ \A r \in RealRoots(c) : RLt(e.b, R(r))

EmitCases == IF "OUT_FILE" \in DOMAIN IOEnv
             THEN JsonSerialize(IOEnv.OUT_FILE, SetToSeq(Cases))
             ELSE TRUE
\* SetParam is enabled somewhere: two modelled cubics share RT/P
ASSUME \E c1 \in EditCubics, c2 \in EditCubics : c1 # c2 /\ RTOf(c1, <<1, 1>>) = RTOf(c2, <<1, 1>>)
ASSUME EmitCases

\* the last action name is history only: collapse it in the exhaustive run
MCView == <<eos, cub, st, memo>>

NoInit == eos = 0 /\ cub = 0 /\ st = 0 /\ act = "" /\ memo = 0
NoNext == UNCHANGED vars
=============================================================================
