------------------------- MODULE Trace_Equilibrium -------------------------
(***************************************************************************)
(* C16 - trace validation of recorded Equilibrium constructions and        *)
(* get_net_comp calls.  One trace = one network with one feed; lines:      *)
(*                                                                         *)
(*  init  : a constructor call.  E (atoms per species and element, from    *)
(*          the formulas the harness gave), feed, and what the object      *)
(*          holds afterwards (mol_elem, ele_feed) or that it raised.       *)
(*  solve : one get_net_comp(T, P) call: the solver's own success flag     *)
(*          (out, observed through the recording wrapper around scipy's    *)
(*          minimize), how control came back, whether a warning was        *)
(*          emitted, and - when a composition came back - the amounts,     *)
(*          mole fractions, the species' own G/RT, sensors and proposals.  *)
(*                                                                         *)
(* READING OF THE PROPERTY (narrow where the text is silent).              *)
(*  - Composition clauses are asserted on compositions that came back from *)
(*    a solve the solver itself called converged.  A failed solve must be  *)
(*    signalled (NoSilentFailure, EqLin!ObservationAllowed, the rule the   *)
(*    design model Equilibrium.tla checks); nothing is asserted about the  *)
(*    numbers that accompany a signalled failure.                          *)
(*  - Pressure enters as P[bar] = 1.01325 P[atm] (standard state 1 bar, the*)
(*    convention of the NASA tables and of the implementation).            *)
(*  - mu_i = g_i + ln(n_i P / n_tot), g_i from the species' own get_GoRT.  *)
(*    The ideal-gas objective sum n_i mu_i is convex on the atom-conserving*)
(*    polytope, so a feasible point is a global minimiser iff nu^T mu = 0  *)
(*    for a spanning set of reaction vectors (this argument is not checked *)
(*    by TLC; that the proposed vectors conserve atoms and span the null   *)
(*    space IS: EqLin!CertOK, proved sound on small matrices by EqCert).   *)
(*                                                                         *)
(* TOLERANCES.                                                             *)
(*  Stationary ("within solver tolerance").  SLSQP (ftol = 1e-14) stops    *)
(*    when the decrease predicted by its quadratic model, g_p^T B^-1 g_p,  *)
(*    is below ftol (g_p = projected gradient, B = its BFGS matrix, which  *)
(*    approximates the Hessian diag(1/n_i) - 1/n_tot).  Hence              *)
(*    |g_p|^2 <= ftol * lambda_max(B) ~ ftol / n_min and for any reaction  *)
(*       (nu^T mu)^2 <= K * ftol * |nu|^2 * max_i(1/n_i),                  *)
(*    K = 100 covering the mismatch between B and the Hessian.  The bound  *)
(*    is asserted when EVERY species is present in a non-trace amount      *)
(*    (n_i >= Tau * n_tot, Tau = 1e-6): below that the BFGS metric is too  *)
(*    far from the Hessian for the derivation to hold (measured on the     *)
(*    unchanged tree: largest (nu^T mu)^2 n_min / (ftol |nu|^2) is 0.6     *)
(*    over 446 converged regular runs with n_min >= 1e-6 n_tot, 1e11 and   *)
(*    more for the degenerate networks below; with smaller n_min it grows  *)
(*    to 1e2..1e5).  The Dec noise of the sum (1e-6 of its largest term)   *)
(*    is added:  r^2 <= 2 (K ftol |nu|^2 / n_min + floor^2).               *)
(*  NearMinimum ("not higher than any other atom-conserving composition"), *)
(*    asserted on every converged composition and every vector of the      *)
(*    basis, trace species included.  phi(x) = G(n + x nu) is convex in x. *)
(*    The harness displaces the composition by x0 = -sgn(r) Eps n_tot /    *)
(*    max|nu_i| (downhill); if the slope phi'(x0) still has the sign of    *)
(*    phi'(0) = r, the minimum along nu is further than x0: relaxing this  *)
(*    one reaction to its own equilibrium would move an amount by more     *)
(*    than Eps n_tot.  Eps = 1e-2.  The clause holds when |r| is within    *)
(*    the Dec noise, when x0 leaves the polytope (a consumed species would *)
(*    drop below 1e-3 of its amount), or when the slope changed sign.      *)
(*    (SLSQP's flag gives no a-priori bound here; measured: worst          *)
(*    displacement 3.7e-4 n_tot over 2 289 converged regular runs, median  *)
(*    1e-10; the failures this clause exists for sit at 0.45-1.5 n_tot.)   *)
(*  OrderIndependent: two converged compositions of the same network and   *)
(*    (T, P) under different species orders agree to 2 Eps n_tot per       *)
(*    amount (each is within Eps n_tot of the unique minimiser along every *)
(*    basis reaction).                                                     *)
(*  AtomsConserved, PER ELEMENT and relative to that element's own feed    *)
(*    total in_e (feed as the user stated it):                             *)
(*       |out_e - in_e| <= 1e-6 in_e + 1e-13 + 64 ulp(largest term summed) *)
(*    The middle term is the solver's documented tolerance: SLSQP accepts  *)
(*    an iterate when the summed violation of the equality constraints is  *)
(*    below acc = ftol = 1e-14, an ABSOLUTE number of moles (one decade of *)
(*    head-room for the final step: measured on the unmodified library,    *)
(*    81 trace-element feeds, amounts 1e-3..1e6 mol: residual of the trace *)
(*    element <= 1.9e-14 whatever its own total, e.g. 1.85e-14 of 2.3e-13  *)
(*    mol = 8 % of that element, and <= 1e-6 in_e above 1e-7 mol).  The    *)
(*    library therefore conserves every element to the solver's absolute   *)
(*    tolerance, not to a relative one; an element below ~1e-13 mol is     *)
(*    beyond what this clause can see.  A fourth term, 4 ulp of the        *)
(*    LARGEST AMOUNT of the composition, covers the solver's arithmetic:   *)
(*    SLSQP updates the whole vector x <- x + alpha d with d from an LSQ   *)
(*    factorisation, so every amount carries an absolute rounding error of *)
(*    the order of one ulp of the largest one (measured: a 1e-12 mol       *)
(*    element beside 2e6 mol is off by 1e-12 = 0.002 ulp(2e6); 6e-13       *)
(*    beside 8.5e3 mol = 0.3 ulp).  At amounts of order 1 this term is     *)
(*    1e-15 and does not matter.  (The former floor "1e-9 of the           *)
(*    largest element total" is gone: it would have accepted the complete  *)
(*    loss of a 4e-9 mol element beside 1 mol of carrier.)                 *)
(*    FractionsSumToOne 1e-7.                                              *)
(*                                                                         *)
(* DEGENERATE NETWORKS.  When a proposed integer combination c of the      *)
(* element balances verifies EqLin!DependentElements (redundant balances)  *)
(* or ForcedSmall (a species the feed cannot form, or can form only below  *)
(* 1e-9 of the largest element total: EqLin!ForcedZero and its near case), *)
(* a failing                                                               *)
(* Stationary / NearMinimum is named with the suffix _DependentElements /  *)
(* _ForcedZero (OrderIndependent likewise), so that this class can be      *)
(* listed as a known finding without hiding any failure on a regular       *)
(* network.                                                                *)
(*                                                                         *)
(* ln x and 1/x are sensors/witnesses computed by the harness from the     *)
(* logged numbers; every algebraic witness is verified here (WITNESS).     *)
(***************************************************************************)
EXTENDS Dec, EqLin, TLC, TLCExt, Json, IOUtils

TraceLog == ndJsonDeserialize(IOEnv.TRACE_FILE)
VARIABLES l, st

One == <<1, 0>>
BarPerAtm == <<101325, -5>>
Tau == <<1, -6>>          \* trace threshold (mole fraction)
Eps == <<1, -2>>          \* NearMinimum displacement (fraction of n_tot)
KFtol == <<1, -12>>       \* K * ftol = 100 * 1e-14
AbsFloor == <<1, -9>>     \* ForcedSmall: "cannot be formed" = below this fraction of the largest element total
RelAtoms == <<1, -6>>     \* AtomsConserved: relative to the element's own feed total
SolverAbs == <<1, -13>>   \* AtomsConserved: 10 * ftol, SLSQP's absolute constraint tolerance (acc = ftol = 1e-14)
Ulp64 == <<142, -16>>     \* 64 * 2^-52: rounding floor of a double-precision sum, per unit of its largest term
Ulp4 == <<89, -17>>       \* 4 * 2^-52: rounding of the solver's vector updates, per unit of the largest amount
Keep == <<1, -3>>         \* a consumed species must keep this fraction of its amount

Range(s) == {s[i] : i \in 1..Len(s)}
ColD(E, j) == [i \in 1..Len(E) |-> I(E[i][j])]
SgnD(a) == Sgn(a[1])
P10D(k) == <<1, k>>                                   \* 10^k
MaxSeq(s) == LET f[i \in 0..Len(s)] == IF i = 0 THEN Zero ELSE DMax(f[i - 1], s[i]) IN f[Len(s)]
Supp(nu) == {i \in 1..Len(nu) : nu[i] # 0}
Norm2(nu) == ISum([i \in 1..Len(nu) |-> nu[i] * nu[i]], Len(nu))
MaxAbs(nu) == MaxInt({IAbs(nu[i]) : i \in 1..Len(nu)})
SumNu(nu) == ISum(nu, Len(nu))

\* ---- init
ElemSumOK(x, E, j, want) ==
   LET terms == [i \in 1..Len(x) |-> Mul(x[i], I(E[i][j]))]
   IN CloseIn(SumSeq(terms), want, Range(terms), 6)
\* AtomsConserved, judged per element against that element's OWN feed total:
\*   |out_e - in_e| <= RelAtoms * in_e + SolverAbs + 64 ulp of the largest term of the sum
\*                     + 4 ulp of the largest amount of the composition
ElemConserved(x, E, j, want) ==
   LET terms == [i \in 1..Len(x) |-> Mul(x[i], I(E[i][j]))]
       big == DMax(MaxSeq([i \in 1..Len(x) |-> DAbs(terms[i])]), DAbs(want))
       xmax == MaxSeq([i \in 1..Len(x) |-> DAbs(x[i])])
       bound == Add(Add(Mul(RelAtoms, DAbs(want)), SolverAbs), Add(Mul(Ulp64, big), Mul(Ulp4, xmax)))
   IN Le(DAbs(Sub(SumSeq(terms), want)), bound)
InitClauses(e) ==
   IF e.raised THEN {"Raises"}
   ELSE (IF IsMatrix(e.E) /\ e.libEint /\ e.libE = e.E THEN {} ELSE {"ElementMatrix"})
        \cup (IF Len(e.libtot) = NEl(e.E)
                 /\ \A j \in 1..NEl(e.E) : ElemSumOK(e.feed, e.E, j, e.libtot[j])
              THEN {} ELSE {"FeedTotals"})

\* ---- solve: chemical potentials and reaction residuals
MuAt(i, e, lnn, lntot) == Add(Add(e.g[i], lnn[i]), Sub(e.lnP, lntot))
ResTerms(nu, e, lnn, lntot) ==
   {Mul(I(nu[i]), e.g[i]) : i \in Supp(nu)} \cup {Mul(I(nu[i]), lnn[i]) : i \in Supp(nu)}
   \cup {Mul(I(SumNu(nu)), e.lnP), Mul(I(SumNu(nu)), lntot)}
Residual(nu, e, lnn, lntot) ==
   SumSeq([i \in 1..Len(nu) |-> IF nu[i] = 0 THEN Zero ELSE Mul(I(nu[i]), MuAt(i, e, lnn, lntot))])
Floor(nu, e, lnn, lntot) == P10D(MaxMag(ResTerms(nu, e, lnn, lntot)) - 6)

WitnessOK(e) ==
   /\ Close(e.Pbar, Mul(e.P, BarPerAtm), 7)
   /\ CloseIn(e.ntot, SumSeq(e.n), Range(e.n), 7)
   /\ Close(Mul(e.ntot, e.invtot), One, 7)
   /\ \A i \in 1..Len(e.n) : Close(Mul(e.n[i], e.inv[i]), One, 7)
   /\ Len(e.n) = Len(st.E) /\ Len(e.frac) = Len(e.n) /\ Len(e.g) = Len(e.n)
   /\ Len(e.lnn) = Len(e.n) /\ Len(e.inv) = Len(e.n) /\ Len(e.nm) = Len(e.B)
   /\ CertOK(st.E, e.B, e.piv, e.rows, e.cols)

Positive(e) == \A i \in 1..Len(e.n) : e.n[i][1] > 0
WellCond(e) == \A i \in 1..Len(e.n) : Le(Mul(Tau, e.ntot), e.n[i])

\* sum_i w_i n_i = sum_i w_i feed_i for every atom-conserving n; with w >= 0 every species with
\* w_i >= 1 is forced below sum_i w_i feed_i, here at most AbsFloor of the largest element total
\* (EqLin!ForcedZero is the case where that sum is exactly 0)
ForcedSmall(E, c, feed, tot) ==
   LET w == Weights(E, c) IN
   /\ Len(c) = NEl(E)
   /\ \A i \in 1..Len(E) : w[i] >= 0
   /\ \E i \in 1..Len(E) : w[i] > 0
   /\ Le(Dot(feed, [i \in 1..Len(E) |-> I(w[i])]), Mul(AbsFloor, MaxSeq(tot)))
Class(e) ==
   IF e.depc # <<>> /\ DependentElements(st.E, e.depc) THEN "_DependentElements"
   ELSE IF e.fzc # <<>> /\ ForcedSmall(st.E, e.fzc, st.feed, st.tot) THEN "_ForcedZero"
   ELSE ""

StationaryAt(nu, e, invmin) ==
   LET r == Residual(nu, e, e.lnn, e.lnntot)
       fl == Floor(nu, e, e.lnn, e.lnntot)
       bound == Mul(I(2), Add(Mul(Mul(KFtol, I(Norm2(nu))), invmin), Sq(fl)))
   IN Le(Sq(r), bound)

\* displaced composition proposed for basis vector number j
NearWitnessOK(nu, e, d) ==
   /\ d.dir \in {-1, 1}
   /\ Close(Mul(d.step, I(MaxAbs(nu))), Mul(Eps, e.ntot), 6)
   /\ d.feas =>
        /\ Len(d.nd) = Len(e.n) /\ Len(d.lnd) = Len(e.n)
        /\ \A i \in 1..Len(e.n) :
              LET mv == Mul(I(d.dir * nu[i]), d.step)
              IN CloseIn(d.nd[i], Add(e.n[i], mv), {e.n[i], mv}, 6)
        /\ LET mv == Mul(I(d.dir * SumNu(nu)), d.step)
           IN CloseIn(d.ndtot, Add(e.ntot, mv), {e.ntot, mv}, 6)
Leaves(nu, e, d) ==          \* the displacement leaves the polytope (or nearly)
   \E i \in Supp(nu) : d.dir * nu[i] < 0 /\
      Le(Add(e.n[i], Mul(I(d.dir * nu[i]), d.step)), Mul(Keep, e.n[i]))
\* result: "ok" | "fail" | "witness"
NearAt(nu, e, d) ==
   LET r0 == Residual(nu, e, e.lnn, e.lnntot)
       f0 == Floor(nu, e, e.lnn, e.lnntot)
   IN IF ~NearWitnessOK(nu, e, d) THEN "witness"
      ELSE IF Le(DAbs(r0), f0) THEN "ok"
      ELSE IF d.dir # -SgnD(r0) THEN "witness"
      ELSE IF Leaves(nu, e, d) THEN "ok"
      ELSE IF ~d.feas THEN "witness"
      ELSE LET r1 == Residual(nu, e, d.lnd, d.lndtot)
               f1 == Floor(nu, e, d.lnd, d.lndtot)
           IN IF Le(DAbs(r1), f1) \/ SgnD(r1) # SgnD(r0) THEN "ok" ELSE "fail"

OrderClause(e, cls) ==
   IF e.key \in DOMAIN st.base
   THEN LET b == st.base[e.key]
            tol == Mul(I(2), Mul(Eps, DMax(e.ntot, b.ntot)))
        IN IF \A i \in 1..Len(e.n) : Le(DAbs(Sub(e.n[i], b.n[i])), tol) THEN {} ELSE {(IF e.again THEN "HistoryIndependent" ELSE "OrderIndependent") \o cls}
   ELSE {}

BasicClauses(e) ==
   (IF \A i \in 1..Len(e.n) : e.n[i][1] >= 0 /\ e.frac[i][1] >= 0 THEN {} ELSE {"NonNegative"})
   \cup (IF Close(SumSeq(e.frac), One, 7) THEN {} ELSE {"FractionsSumToOne"})
   \cup (IF Len(e.n) = Len(st.E) /\ \A j \in 1..NEl(st.E) : ElemConserved(e.n, st.E, j, st.tot[j])
         THEN {} ELSE {"AtomsConserved"})
EchoClauses(e) ==
   (IF e.echoT = e.T /\ e.echoP = e.P THEN {} ELSE {"ConditionsEchoed"})
   \cup (IF e.listed THEN {} ELSE {"SpeciesListed"})
CompositionClauses(e) ==
   IF ~e.finite THEN {"Finite"}
   ELSE IF ~e.pos THEN      \* an amount <= 0: no logarithms, only the basic clauses
      (IF \E i \in 1..Len(e.n) : e.n[i][1] <= 0 THEN {} ELSE {"WITNESS"}) \cup BasicClauses(e)
      \cup EchoClauses(e)
   ELSE IF ~(Positive(e) /\ WitnessOK(e)) THEN {"WITNESS"}
   ELSE LET cls == Class(e)
            near == [j \in 1..Len(e.B) |-> NearAt(e.B[j], e, e.nm[j])]
        IN BasicClauses(e) \cup EchoClauses(e)
           \cup (IF \A i \in 1..Len(e.n) : Close(Mul(e.frac[i], e.ntot), e.n[i], 6)
                 THEN {} ELSE {"FractionsAreRatios"})
           \cup (IF WellCond(e) /\ LET invmin == MaxSeq(e.inv) IN
                                       \E j \in 1..Len(e.B) : ~StationaryAt(e.B[j], e, invmin)
                 THEN {"Stationary" \o cls} ELSE {})
           \cup (IF \E j \in 1..Len(e.B) : near[j] = "witness" THEN {"WITNESS"} ELSE {})
           \cup (IF \E j \in 1..Len(e.B) : near[j] = "fail" THEN {"NearMinimum" \o cls} ELSE {})
           \cup OrderClause(e, cls)

SolveClauses(e) ==
   (IF e.out \in {"converged", "failed"}
    THEN (IF ObservationAllowed(e.out, e.how, e.sig) THEN {} ELSE {"NoSilentFailure"})
    ELSE {})
   \cup (IF e.how = "raise" /\ e.out # "failed" THEN {"Raises"} ELSE {})
   \cup (IF e.how = "return" /\ e.out = "nosolve" THEN {"NoSolve"} ELSE {})
   \cup (IF e.how = "return" /\ e.out = "converged" /\ st.ok THEN CompositionClauses(e) ELSE {})

Clauses(e) ==
   CASE e.ev = "init" -> InitClauses(e)
     [] e.ev = "solve" -> SolveClauses(e)
     [] OTHER -> {"UnknownEvent"}

\* state: the network of this trace (from its first init line) and, per (T, P) key, the
\* first converged composition (reference of OrderIndependent)
Empty == [ok |-> FALSE, E |-> <<>>, feed |-> <<>>, tot |-> <<>>, base |-> <<>>]
Step(e) ==
   IF e.ev = "init" THEN
      (IF e.first
       THEN [ok |-> ~e.raised /\ IsMatrix(e.E) /\ Len(e.feed) = Len(e.E), E |-> e.E, feed |-> e.feed,
             tot |-> IF IsMatrix(e.E) /\ Len(e.feed) = Len(e.E)
                     THEN [j \in 1..NEl(e.E) |-> Dot(e.feed, ColD(e.E, j))] ELSE <<>>,
             base |-> <<>>]
       ELSE st)
   ELSE IF e.ev = "solve" /\ e.how = "return" /\ e.out = "converged" /\ st.ok /\ e.finite /\ e.pos
           /\ e.key \notin DOMAIN st.base
        THEN [st EXCEPT !.base = (e.key :> [n |-> e.n, ntot |-> e.ntot]) @@ st.base]
   ELSE st

Init == l = 1 /\ st = Empty /\ TLCSet(1, {})
Next == /\ l <= Len(TraceLog)
        /\ LET e == TraceLog[l]  bad == Clauses(e) IN
             /\ IF bad # {} THEN TLCSet(1, TLCGet(1) \cup {<<e.tid, l, c>> : c \in bad}) ELSE TRUE
             /\ st' = Step(e)
        /\ l' = l + 1
Spec == Init /\ [][Next]_<<l, st>>
Post == /\ PrintT(<<"FAILS", TLCGet(1)>>)
        /\ PrintT(<<"CONSUMED", TLCGet("stats").diameter - 1>>)
=============================================================================
