\* the REPAIRED implementation shape (keyword test guarded by the record number, a slot without a blank read as symbol(2)+count(3), pinned reader loop): expected to PASS (quick tier: every name x composition single file and every pair; the full list set runs in the thorough tier)
SPECIFICATION Spec
CONSTANTS
  Lists <- MCSmall
  Classifier = "guarded"
  ElemScan = "cap2"
  Order = "reuse"
INVARIANT FileLayout
INVARIANT NoError
INVARIANT PrefixOK
INVARIANT NoDrop
INVARIANT RoundTrip
INVARIANT FoldAgrees
CHECK_DEADLOCK FALSE
