----------------------------- MODULE MC_LsrCases -----------------------------
(* constant-level statements of Lsr.tla and the case set of the replay (S->C): every constructible   *)
(* object of the small universe at every temperature, with the energy required by the relation.      *)
EXTENDS MC_Lsr, Json, IOUtils, SequencesExt
ASSUME FloatMeansEnergy
ASSUME ExtOfOneIsLsr(LsrObjs)
\* the ExtendedLSR objects of the case set: every one-term object, and the two-term objects with the first
\* slope and the intercept fixed (a quarter of them; the design models explore all)
CaseExt == ExtObjsN(1) \cup {o \in ExtObjsN(2) : o.b = <<5, 1>> /\ o.as[1] = <<1, 2>>}
CaseObjs == LsrObjs \cup CaseExt
ASSUME ExtIsSumOfLsr(CaseExt)
ASSUME ExtAdditive(ExtObjsN(1))
\* the implementation-shaped evaluation agrees with the relation on every case (all temperatures)
ASSUME \A o \in CaseObjs, t \in Temps : Evaluate(o, t).U = Required(o)
Case(o, t) == [obj |-> o, T |-> t, U |-> Required(o), Unum |-> NumPart(o)]
Cases == {Case(o, t) : o \in CaseObjs, t \in Temps}
EmitCases == IF "OUT_FILE" \in DOMAIN IOEnv THEN JsonSerialize(IOEnv.OUT_FILE, SetToSeq(Cases)) ELSE TRUE
ASSUME EmitCases
\* nothing to explore in this run
DummyInit == obj = 0 /\ T = 0 /\ res = 0 /\ h = <<>>
DummyNext == UNCHANGED vars
=============================================================================
