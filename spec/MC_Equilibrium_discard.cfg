\* implementation-shaped variant (success flag discarded): EXPECTED TO BE REJECTED
SPECIFICATION Spec
CONSTANTS
  MaxCalls = 2
  Variant = "Discard"
INVARIANT TypeOK
INVARIANT NoSilentFailure
CHECK_DEADLOCK FALSE
