------------------------- MODULE Trace_SuiteTraces -------------------------
(***************************************************************************)
(* X05 - trace validation of the suite recorder's own protocol log.        *)
(* One trace per test item (tid).  Lines, in file order:                   *)
(*   start    [test]                 the item starts                       *)
(*   register [test, oid]            an object is registered               *)
(*   observe  [test, oid, cid]       a NEW (object, condition set)         *)
(*   end      [test]                 the item (teardown included) is over  *)
(*   reeval   [test, oid, cid, n, raised, finite]                          *)
(*                                   one re-evaluation, n events follow    *)
(*   emit     [test, oid, cid]       one thermodynamic event line          *)
(*   finish   [test]                 registry dropped                      *)
(* Required (SuiteTraces.tla: ObservedIsTruth / OutSound / ExactlyOnce /   *)
(* OwnTest, read on one log): observations only while the test code runs,  *)
(* every observed pair re-evaluated exactly once and in the order of       *)
(* observation before the item finishes, every thermodynamic event line    *)
(* attributed to the pair being re-evaluated and to the current test, and  *)
(* the library neither raises nor returns a non-finite value when it is    *)
(* asked again for what the test itself just evaluated.                    *)
(***************************************************************************)
EXTENDS Naturals, Sequences, FiniteSets, TLC, TLCExt, Json, IOUtils

TraceLog == ndJsonDeserialize(IOEnv.TRACE_FILE)
VARIABLES l, st

Idle == [test |-> "", phase |-> "idle", reg |-> {}, obs |-> <<>>, done |-> 0, emitted |-> 0, expect |-> 0,
         last |-> <<0, 0>>]
Range(s) == {s[i] : i \in 1..Len(s)}
Chk(ok, name) == IF ok THEN {} ELSE {name}
Mine(e) == Chk(e.test = st.test, "WrongTest")

Clauses(e) ==
   CASE e.ev = "start" -> Chk(st.phase = "idle", "PreviousTestNotFinished")
     [] e.ev = "register" ->
          Chk(st.phase = "run", "RegisterOutsideRun") \cup Mine(e) \cup Chk(e.oid \notin st.reg, "RegisterTwice")
     [] e.ev = "observe" ->
          Chk(st.phase = "run", "ObserveOutsideRun") \cup Mine(e)
          \cup Chk(e.oid \in st.reg, "ObserveUnregistered")
          \cup Chk(<<e.oid, e.cid>> \notin Range(st.obs), "ObserveDuplicate")
     [] e.ev = "unsupported" -> Mine(e)
     [] e.ev = "end" -> Chk(st.phase = "run", "EndOutsideRun") \cup Mine(e)
     [] e.ev = "reeval" ->
          Chk(st.phase = "reeval", "ReevalOutsideReeval") \cup Mine(e)
          \cup Chk(st.emitted = st.expect, "EmitCount")
          \cup Chk(st.done < Len(st.obs) /\ st.obs[st.done + 1] = <<e.oid, e.cid>>, "ReevalOrder")
          \cup Chk(~e.raised, "Raises") \cup Chk(e.finite, "Finite")
     [] e.ev = "emit" ->
          Chk(st.phase = "reeval" /\ st.last = <<e.oid, e.cid>>, "EmitAttribution") \cup Mine(e)
     [] e.ev = "finish" ->
          Chk(st.phase = "reeval", "FinishOutsideReeval") \cup Mine(e)
          \cup Chk(st.done = Len(st.obs), "MissingReeval")
          \cup Chk(st.emitted = st.expect, "EmitCount")
     [] OTHER -> {"UnknownEvent"}

Step(e) ==
   CASE e.ev = "start" -> [Idle EXCEPT !.test = e.test, !.phase = "run"]
     [] e.ev = "register" -> [st EXCEPT !.reg = @ \cup {e.oid}]
     [] e.ev = "observe" -> [st EXCEPT !.obs = IF <<e.oid, e.cid>> \in Range(@) THEN @ ELSE Append(@, <<e.oid, e.cid>>)]
     [] e.ev = "end" -> [st EXCEPT !.phase = "reeval"]
     [] e.ev = "reeval" -> [st EXCEPT !.done = @ + 1, !.emitted = 0, !.expect = e.n, !.last = <<e.oid, e.cid>>]
     [] e.ev = "emit" -> [st EXCEPT !.emitted = @ + 1]
     [] e.ev = "finish" -> Idle
     [] OTHER -> st

Init == l = 1 /\ st = Idle /\ TLCSet(1, {})
Next == /\ l <= Len(TraceLog)
        /\ LET e == TraceLog[l]  bad == Clauses(e) IN
             /\ IF bad # {} THEN TLCSet(1, TLCGet(1) \cup {<<e.tid, l, c>> : c \in bad}) ELSE TRUE
             /\ st' = Step(e)
        /\ l' = l + 1
Spec == Init /\ [][Next]_<<l, st>>
Post == /\ PrintT(<<"FAILS", TLCGet(1)>>)
        /\ PrintT(<<"CONSUMED", TLCGet("stats").diameter - 1>>)
=============================================================================
