---- MODULE MC_Balance_TTrace_1790573494 ----
EXTENDS Sequences, TLCExt, MC_Balance, Toolbox, Naturals, TLC

_expression ==
    LET MC_Balance_TEExpression == INSTANCE MC_Balance_TEExpression
    IN MC_Balance_TEExpression!expression
----

_trace ==
    LET MC_Balance_TETrace == INSTANCE MC_Balance_TETrace
    IN MC_Balance_TETrace!trace
----

_inv ==
    ~(
        TLCGet("level") = Len(_TETrace)
        /\
        acc = ([re |-> {<<"C", 1>>, <<"H", 2>>, <<"O", 0>>}, ts |-> {}, pr |-> {<<"C", 1>>, <<"H", 2>>}])
        /\
        r = ([re |-> <<[co |-> 1, comp |-> <<<<"C", 1>>, <<"O", 0>>, <<"H", 2>>>>]>>, ts |-> <<>>, pr |-> <<[co |-> 1, comp |-> <<<<"C", 1>>, <<"H", 2>>>>]>>, hasTS |-> FALSE])
        /\
        side = ("end")
        /\
        j = (1)
        /\
        m = (1)
    )
----

_init ==
    /\ j = _TETrace[1].j
    /\ m = _TETrace[1].m
    /\ r = _TETrace[1].r
    /\ acc = _TETrace[1].acc
    /\ side = _TETrace[1].side
----

_next ==
    /\ \E i,j \in DOMAIN _TETrace:
        /\ \/ /\ j = i + 1
              /\ i = TLCGet("level")
        /\ j  = _TETrace[i].j
        /\ j' = _TETrace[j].j
        /\ m  = _TETrace[i].m
        /\ m' = _TETrace[j].m
        /\ r  = _TETrace[i].r
        /\ r' = _TETrace[j].r
        /\ acc  = _TETrace[i].acc
        /\ acc' = _TETrace[j].acc
        /\ side  = _TETrace[i].side
        /\ side' = _TETrace[j].side

\* Uncomment the ASSUME below to write the states of the error trace
\* to the given file in Json format. Note that you can pass any tuple
\* to `JsonSerialize`. For example, a sub-sequence of _TETrace.
    \* ASSUME
    \*     LET J == INSTANCE Json
    \*         IN J!JsonSerialize("MC_Balance_TTrace_1790573494.json", _TETrace)

=============================================================================

 Note that you can extract this module `MC_Balance_TEExpression`
  to a dedicated file to reuse `expression` (the module in the 
  dedicated `MC_Balance_TEExpression.tla` file takes precedence 
  over the module `MC_Balance_TEExpression` below).

---- MODULE MC_Balance_TEExpression ----
EXTENDS Sequences, TLCExt, MC_Balance, Toolbox, Naturals, TLC

expression == 
    [
        \* To hide variables of the `MC_Balance` spec from the error trace,
        \* remove the variables below.  The trace will be written in the order
        \* of the fields of this record.
        j |-> j
        ,m |-> m
        ,r |-> r
        ,acc |-> acc
        ,side |-> side
        
        \* Put additional constant-, state-, and action-level expressions here:
        \* ,_stateNumber |-> _TEPosition
        \* ,_jUnchanged |-> j = j'
        
        \* Format the `j` variable as Json value.
        \* ,_jJson |->
        \*     LET J == INSTANCE Json
        \*     IN J!ToJson(j)
        
        \* Lastly, you may build expressions over arbitrary sets of states by
        \* leveraging the _TETrace operator.  For example, this is how to
        \* count the number of times a spec variable changed up to the current
        \* state in the trace.
        \* ,_jModCount |->
        \*     LET F[s \in DOMAIN _TETrace] ==
        \*         IF s = 1 THEN 0
        \*         ELSE IF _TETrace[s].j # _TETrace[s-1].j
        \*             THEN 1 + F[s-1] ELSE F[s-1]
        \*     IN F[_TEPosition - 1]
    ]

=============================================================================



Parsing and semantic processing can take forever if the trace below is long.
 In this case, it is advised to uncomment the module below to deserialize the
 trace from a generated binary file.

\*
\*---- MODULE MC_Balance_TETrace ----
\*EXTENDS IOUtils, MC_Balance, TLC
\*
\*trace == IODeserialize("MC_Balance_TTrace_1790573494.bin", TRUE)
\*
\*=============================================================================
\*

---- MODULE MC_Balance_TETrace ----
EXTENDS MC_Balance, TLC

trace == 
    <<
    ([acc |-> [re |-> {}, ts |-> {}, pr |-> {}],r |-> [re |-> <<[co |-> 1, comp |-> <<<<"C", 1>>, <<"O", 0>>, <<"H", 2>>>>]>>, ts |-> <<>>, pr |-> <<[co |-> 1, comp |-> <<<<"C", 1>>, <<"H", 2>>>>]>>, hasTS |-> FALSE],side |-> "re",j |-> 1,m |-> 1]),
    ([acc |-> [re |-> {<<"C", 1>>}, ts |-> {}, pr |-> {}],r |-> [re |-> <<[co |-> 1, comp |-> <<<<"C", 1>>, <<"O", 0>>, <<"H", 2>>>>]>>, ts |-> <<>>, pr |-> <<[co |-> 1, comp |-> <<<<"C", 1>>, <<"H", 2>>>>]>>, hasTS |-> FALSE],side |-> "re",j |-> 1,m |-> 2]),
    ([acc |-> [re |-> {<<"C", 1>>, <<"O", 0>>}, ts |-> {}, pr |-> {}],r |-> [re |-> <<[co |-> 1, comp |-> <<<<"C", 1>>, <<"O", 0>>, <<"H", 2>>>>]>>, ts |-> <<>>, pr |-> <<[co |-> 1, comp |-> <<<<"C", 1>>, <<"H", 2>>>>]>>, hasTS |-> FALSE],side |-> "re",j |-> 1,m |-> 3]),
    ([acc |-> [re |-> {<<"C", 1>>, <<"H", 2>>, <<"O", 0>>}, ts |-> {}, pr |-> {}],r |-> [re |-> <<[co |-> 1, comp |-> <<<<"C", 1>>, <<"O", 0>>, <<"H", 2>>>>]>>, ts |-> <<>>, pr |-> <<[co |-> 1, comp |-> <<<<"C", 1>>, <<"H", 2>>>>]>>, hasTS |-> FALSE],side |-> "re",j |-> 1,m |-> 4]),
    ([acc |-> [re |-> {<<"C", 1>>, <<"H", 2>>, <<"O", 0>>}, ts |-> {}, pr |-> {}],r |-> [re |-> <<[co |-> 1, comp |-> <<<<"C", 1>>, <<"O", 0>>, <<"H", 2>>>>]>>, ts |-> <<>>, pr |-> <<[co |-> 1, comp |-> <<<<"C", 1>>, <<"H", 2>>>>]>>, hasTS |-> FALSE],side |-> "re",j |-> 2,m |-> 1]),
    ([acc |-> [re |-> {<<"C", 1>>, <<"H", 2>>, <<"O", 0>>}, ts |-> {}, pr |-> {}],r |-> [re |-> <<[co |-> 1, comp |-> <<<<"C", 1>>, <<"O", 0>>, <<"H", 2>>>>]>>, ts |-> <<>>, pr |-> <<[co |-> 1, comp |-> <<<<"C", 1>>, <<"H", 2>>>>]>>, hasTS |-> FALSE],side |-> "pr",j |-> 1,m |-> 1]),
    ([acc |-> [re |-> {<<"C", 1>>, <<"H", 2>>, <<"O", 0>>}, ts |-> {}, pr |-> {<<"C", 1>>}],r |-> [re |-> <<[co |-> 1, comp |-> <<<<"C", 1>>, <<"O", 0>>, <<"H", 2>>>>]>>, ts |-> <<>>, pr |-> <<[co |-> 1, comp |-> <<<<"C", 1>>, <<"H", 2>>>>]>>, hasTS |-> FALSE],side |-> "pr",j |-> 1,m |-> 2]),
    ([acc |-> [re |-> {<<"C", 1>>, <<"H", 2>>, <<"O", 0>>}, ts |-> {}, pr |-> {<<"C", 1>>, <<"H", 2>>}],r |-> [re |-> <<[co |-> 1, comp |-> <<<<"C", 1>>, <<"O", 0>>, <<"H", 2>>>>]>>, ts |-> <<>>, pr |-> <<[co |-> 1, comp |-> <<<<"C", 1>>, <<"H", 2>>>>]>>, hasTS |-> FALSE],side |-> "pr",j |-> 1,m |-> 3]),
    ([acc |-> [re |-> {<<"C", 1>>, <<"H", 2>>, <<"O", 0>>}, ts |-> {}, pr |-> {<<"C", 1>>, <<"H", 2>>}],r |-> [re |-> <<[co |-> 1, comp |-> <<<<"C", 1>>, <<"O", 0>>, <<"H", 2>>>>]>>, ts |-> <<>>, pr |-> <<[co |-> 1, comp |-> <<<<"C", 1>>, <<"H", 2>>>>]>>, hasTS |-> FALSE],side |-> "pr",j |-> 2,m |-> 1]),
    ([acc |-> [re |-> {<<"C", 1>>, <<"H", 2>>, <<"O", 0>>}, ts |-> {}, pr |-> {<<"C", 1>>, <<"H", 2>>}],r |-> [re |-> <<[co |-> 1, comp |-> <<<<"C", 1>>, <<"O", 0>>, <<"H", 2>>>>]>>, ts |-> <<>>, pr |-> <<[co |-> 1, comp |-> <<<<"C", 1>>, <<"H", 2>>>>]>>, hasTS |-> FALSE],side |-> "end",j |-> 1,m |-> 1])
    >>
----


=============================================================================

---- CONFIG MC_Balance_TTrace_1790573494 ----
CONSTANTS
    Variant = "dict"
    Scope = "quick"

INVARIANT
    _inv

CHECK_DEADLOCK
    \* CHECK_DEADLOCK off because of PROPERTY or INVARIANT above.
    FALSE

INIT
    _init

NEXT
    _next

CONSTANT
    _TETrace <- _trace

ALIAS
    _expression
=============================================================================
\* Generated on Mon Sep 28 05:31:40 UTC 2026