----------------------------- MODULE RxnString -----------------------------
(***************************************************************************)
(* C14 - reaction strings: the grammar, its parser and its printer.        *)
(*                                                                         *)
(* Constant-free operators shared by the design model (MC_RxnString.tla),  *)
(* the case generator and the trace specification (Trace_RxnString.tla).   *)
(*                                                                         *)
(* Text is Seq(0..255) (Text.tla).  A coefficient is a fixed-point decimal *)
(*     Fx = <<I, F1, F2>>  =  I + F1/10^9 + F2/10^18    (0 <= F1,F2 < 10^9) *)
(* which holds repr() of every IEEE double in [0.01, 10^9) exactly (<= 18  *)
(* fractional digits), so the double 2.9999999999999996 is the number it   *)
(* is and not 3.  All comparisons on Fx are exact.                         *)
(*                                                                         *)
(* Grammar (the reading of the property taken here, the narrower one):     *)
(*   reaction := state rxd [state rxd] state          (1 or 0 TS states)   *)
(*   state    := species (spd species)*                                    *)
(*   species  := blanks [digits ['.' digits*]] blanks name blanks          *)
(*   name     := non-empty, no blank, not starting with a digit or '.',    *)
(*               not containing either delimiter                           *)
(* rxd and spd are arbitrary texts that are not substrings of each other   *)
(* and share no character with names/numerals; a delimiter containing '.'  *)
(* is used with integer coefficients only (ambiguous otherwise).           *)
(* An omitted coefficient is 1; repeated names within a state are merged   *)
(* by summing, keeping the position of the first occurrence.               *)
(*                                                                         *)
(* Requirement on printing (RoundTripOK): reading the printed text with    *)
(* this grammar gives the same names in the same order, the same TS        *)
(* presence, and every coefficient within half a unit of the last printed  *)
(* place (10^-d / 2 for format '.<d>f'; for '.<p>g' the place the p-th      *)
(* significant digit of the original reaches; '' = exact) of the original  *)
(* - no rounding mode is imposed.  The printer below is the                *)
(* implementation-shaped algorithm (omit ~1, integers without point, else  *)
(* '.<d>f'); variant "trunc" is int() as in the pinned source, "round" is  *)
(* int(round()).  Coefficients in the grey zone of numpy.isclose (neither  *)
(* within 10^-9 of an integer nor further than 10^-8 + 10^-5 n from it)    *)
(* are outside the reading taken here: the printer drops their decimals.   *)
(***************************************************************************)
EXTENDS Text, FiniteSets

G9 == 1000000000
PowTen(d) == CASE d = 0 -> 1 [] d = 1 -> 10 [] d = 2 -> 100 [] d = 3 -> 1000 [] d = 4 -> 10000
               [] d = 5 -> 100000 [] d = 6 -> 1000000 [] d = 7 -> 10000000
               [] d = 8 -> 100000000 [] d = 9 -> 1000000000

\* ---------------------------------------------------------------- Fx
FxInt(n) == <<n, 0, 0>>
FxOne == FxInt(1)
Zeros(n) == [i \in 1..n |-> 48]
NumeralSupported(ip, fp) == Len(ip) >= 1 /\ Len(ip) <= 9 /\ Len(fp) <= 18 /\ AllDigits(ip)
                            /\ \A i \in 1..Len(fp) : IsDigitC(fp[i])
FxOf(ip, fp) == LET pad == fp \o Zeros(18 - Len(fp))
                IN <<DigitsToInt(ip), DigitsToInt(SubSeq(pad, 1, 9)), DigitsToInt(SubSeq(pad, 10, 18))>>
FxLe(a, b) == \/ a[1] < b[1]
              \/ a[1] = b[1] /\ a[2] < b[2]
              \/ a[1] = b[1] /\ a[2] = b[2] /\ a[3] <= b[3]
FxSubGE(a, b) ==                                   \* a - b for a >= b
   LET l3 == a[3] - b[3]        b3 == IF l3 < 0 THEN 1 ELSE 0
       l2 == a[2] - b[2] - b3   b2 == IF l2 < 0 THEN 1 ELSE 0
   IN <<a[1] - b[1] - b2, l2 + b2 * G9, l3 + b3 * G9>>
FxAbsDiff(a, b) == IF FxLe(b, a) THEN FxSubGE(a, b) ELSE FxSubGE(b, a)
FxAdd(a, b) == LET s3 == a[3] + b[3]                c3 == s3 \div G9
                   s2 == a[2] + b[2] + c3           c2 == s2 \div G9
               IN <<a[1] + b[1] + c2, s2 % G9, s3 % G9>>
HalfUnit(d) == <<0, 5 * PowTen(8 - d), 0>>          \* 10^-d / 2, 0 <= d <= 8
WithinHalfUnit(p, c, d) == FxLe(FxAbsDiff(p, c), HalfUnit(d))
FxClose12(a, b) == FxLe(FxAbsDiff(a, b), <<0, 0, 1000000>>)      \* |a - b| <= 10^-12

\* a numeral text  digits ['.' digits*]  ->  <<ip, fp>>  (repr() of a double, printed coefficients)
DotPos(s) == IF \E i \in 1..Len(s) : s[i] = 46 THEN CHOOSE i \in 1..Len(s) : s[i] = 46 /\ \A j \in 1..(i - 1) : s[j] # 46
             ELSE 0
NumIP(s) == IF DotPos(s) = 0 THEN s ELSE SubSeq(s, 1, DotPos(s) - 1)
NumFP(s) == IF DotPos(s) = 0 THEN <<>> ELSE SubSeq(s, DotPos(s) + 1, Len(s))
IsNumeral(s) == NumeralSupported(NumIP(s), NumFP(s))
FxOfNumeral(s) == FxOf(NumIP(s), NumFP(s))

\* ---------------------------------------------------------------- lexer (one species token)
\* character-level automaton for  ^\d+\.?\d*  then blanks, then the name
LexInit == [mode |-> "Start", ip |-> <<>>, fp |-> <<>>, nm |-> <<>>]
LexStep(q, c) ==
   CASE q.mode = "Start" ->
          IF IsDigitC(c) THEN [q EXCEPT !.mode = "Int", !.ip = <<c>>]
          ELSE [q EXCEPT !.mode = "Name", !.nm = <<c>>]
     [] q.mode = "Int" ->
          IF IsDigitC(c) THEN [q EXCEPT !.ip = Append(@, c)]
          ELSE IF c = 46 THEN [q EXCEPT !.mode = "Frac"]
          ELSE IF IsBlankC(c) THEN [q EXCEPT !.mode = "Gap"]
          ELSE [q EXCEPT !.mode = "Name", !.nm = <<c>>]
     [] q.mode = "Frac" ->
          IF IsDigitC(c) THEN [q EXCEPT !.fp = Append(@, c)]
          ELSE IF IsBlankC(c) THEN [q EXCEPT !.mode = "Gap"]
          ELSE [q EXCEPT !.mode = "Name", !.nm = <<c>>]
     [] q.mode = "Gap" ->
          IF IsBlankC(c) THEN q ELSE [q EXCEPT !.mode = "Name", !.nm = <<c>>]
     [] q.mode = "Name" -> [q EXCEPT !.nm = Append(@, c)]
LexRun(s) == LET f[i \in 0..Len(s)] == IF i = 0 THEN LexInit ELSE LexStep(f[i - 1], s[i]) IN f[Len(s)]
LexSupported(q) == q.ip = <<>> \/ NumeralSupported(q.ip, q.fp)
LexCoef(q) == IF q.ip = <<>> THEN FxOne ELSE FxOf(q.ip, q.fp)
\* one parsed species: name, coefficient, number of tokens merged into it
Item(q) == [nm |-> q.nm, co |-> LexCoef(q), n |-> 1]

\* ---------------------------------------------------------------- splitting and merging
\* Python str.split(d): leftmost, non-overlapping occurrences
RECURSIVE FindFrom(_, _, _)
FindFrom(s, d, i) == IF i + Len(d) - 1 > Len(s) THEN 0
                     ELSE IF MatchAt(s, d, i) THEN i ELSE FindFrom(s, d, i + 1)
RECURSIVE SplitOn(_, _)
SplitOn(s, d) == LET i == FindFrom(s, d, 1) IN
                 IF i = 0 THEN <<s>>
                 ELSE <<SubSeq(s, 1, i - 1)>> \o SplitOn(SubSeq(s, i + Len(d), Len(s)), d)

IndexOfName(items, nm) == IF \E j \in 1..Len(items) : items[j].nm = nm
                          THEN CHOOSE j \in 1..Len(items) : items[j].nm = nm ELSE 0
MergeItem(items, it) == LET j == IndexOfName(items, it.nm) IN
                        IF j = 0 THEN Append(items, it)
                        ELSE [items EXCEPT ![j] = [nm |-> it.nm, co |-> FxAdd(@.co, it.co), n |-> @.n + it.n]]
MergeAll(its) == LET f[i \in 0..Len(its)] == IF i = 0 THEN <<>> ELSE MergeItem(f[i - 1], its[i]) IN f[Len(its)]

ParseState(s, spd) == LET ps == SplitOn(s, spd)
                      IN MergeAll([i \in 1..Len(ps) |-> Item(LexRun(Trim(ps[i])))])
StateSupported(s, spd) == LET ps == SplitOn(s, spd)
                          IN \A i \in 1..Len(ps) : LexSupported(LexRun(Trim(ps[i])))
\* reactants = first state, products = last state, TS = second state when there are more than two
ParseRxn(s, spd, rxd) ==
   LET st == SplitOn(s, rxd) IN
   [re |-> ParseState(st[1], spd), pr |-> ParseState(st[Len(st)], spd),
    hasTS |-> Len(st) > 2, ts |-> IF Len(st) > 2 THEN ParseState(st[2], spd) ELSE <<>>]
RxnSupported(s, spd, rxd) == \A k \in 1..Len(SplitOn(s, rxd)) : StateSupported(SplitOn(s, rxd)[k], spd)
NamesOf(items) == [i \in 1..Len(items) |-> items[i].nm]
AllNames(p) == {p.re[i].nm : i \in 1..Len(p.re)} \cup {p.pr[i].nm : i \in 1..Len(p.pr)}
               \cup {p.ts[i].nm : i \in 1..Len(p.ts)}

\* ---------------------------------------------------------------- composing text
Spaces(n) == [i \in 1..n |-> 32]
RECURSIVE Join(_, _)
Join(parts, sep) == IF Len(parts) = 0 THEN <<>>
                    ELSE IF Len(parts) = 1 THEN parts[1]
                    ELSE parts[1] \o sep \o Join(Tail(parts), sep)
\* states: sequence (2 or 3) of sequences of species texts; pad = <<before, after, ends>> blanks
Compose(states, spd, rxd, pad) ==
   LET sp == Spaces(pad[1]) \o spd \o Spaces(pad[2])
       rx == Spaces(pad[1]) \o rxd \o Spaces(pad[2])
   IN Spaces(pad[3]) \o Join([k \in 1..Len(states) |-> Join(states[k], sp)], rx) \o Spaces(pad[3])
NoBlanks(s) == LET f[i \in 0..Len(s)] == IF i = 0 THEN <<>>
                                         ELSE IF IsBlankC(s[i]) THEN f[i - 1] ELSE Append(f[i - 1], s[i])
               IN f[Len(s)]

\* ---------------------------------------------------------------- printer (implementation-shaped)
RECURSIVE IntToDigits(_)
IntToDigits(n) == IF n < 10 THEN <<48 + n>> ELSE Append(IntToDigits(n \div 10), 48 + (n % 10))
ZeroPadInt(n, w) == LET ds == IntToDigits(n) IN Zeros(w - Len(ds)) \o ds
\* nearest multiple of 10^-d (as an integer count of 10^-d), ties to even; 0 <= d <= 3
RoundBase(c, d) == c[1] * PowTen(d) + c[2] \div PowTen(9 - d)
RoundRem(c, d) == c[2] % PowTen(9 - d)
IsTie(c, d) == RoundRem(c, d) = 5 * PowTen(8 - d) /\ c[3] = 0
RoundTo(c, d) == LET h == 5 * PowTen(8 - d)  r == RoundRem(c, d)  b == RoundBase(c, d)
                     up == r > h \/ (r = h /\ c[3] > 0) \/ (r = h /\ c[3] = 0 /\ b % 2 = 1)
                 IN b + (IF up THEN 1 ELSE 0)
Numeral(scaled, d) == IntToDigits(scaled \div PowTen(d))
                      \o (IF d = 0 THEN <<>> ELSE <<46>> \o ZeroPadInt(scaled % PowTen(d), d))
NearestInt(c) == RoundTo(c, 0)
\* numpy.isclose(c, n): |c - n| <= 1e-8 + 1e-5 * n      (units of 10^-9 in limb 2; n < 10^4)
NearInt(c) == LET n == NearestInt(c) IN FxLe(FxAbsDiff(c, FxInt(n)), <<0, 10 + 10000 * n, 0>>)
NearOne(c) == FxLe(FxAbsDiff(c, FxOne), <<0, 10010, 0>>)
PrintCoef(variant, c, d) ==
   IF NearOne(c) THEN <<>>
   ELSE IF NearInt(c) THEN IntToDigits(IF variant = "trunc" THEN c[1] ELSE NearestInt(c))
   ELSE Numeral(RoundTo(c, d), d)
PrintSpecies(variant, it, d, space) ==
   LET co == PrintCoef(variant, it.co, d)
   IN IF co = <<>> THEN it.nm ELSE co \o (IF space THEN <<32>> ELSE <<>>) \o it.nm
PrintSide(variant, items, d, space) == [i \in 1..Len(items) |-> PrintSpecies(variant, items[i], d, space)]
\* r = [re, ts, pr] sequences of [nm, co]; ts = <<>> means no transition state
PrintStates(variant, r, d, space) ==
   IF Len(r.ts) = 0 THEN <<PrintSide(variant, r.re, d, space), PrintSide(variant, r.pr, d, space)>>
   ELSE <<PrintSide(variant, r.re, d, space), PrintSide(variant, r.ts, d, space),
          PrintSide(variant, r.pr, d, space)>>

\* ---------------------------------------------------------------- requirements
\* A printing precision is  [k |-> "f", n |-> d]      d decimals            ('.<d>f', 'f' = '.6f')
\*                          [k |-> "g", n |-> p]      p significant digits  ('.<p>g', 'g' = '.6g')
\*                          [k |-> "exact", n |-> 0]  shortest round-tripping text ('' = repr)
NDigits(n) == IF n < 10 THEN 1 ELSE IF n < 100 THEN 2 ELSE IF n < 1000 THEN 3 ELSE IF n < 10000 THEN 4
              ELSE IF n < 100000 THEN 5 ELSE IF n < 1000000 THEN 6 ELSE IF n < 10000000 THEN 7
              ELSE IF n < 100000000 THEN 8 ELSE 9
Cap8(d) == IF d > 8 THEN 8 ELSE d
\* decimals that p significant digits of c reach (c >= 10^-8)
DecimalsG(c, p) == IF c[1] >= 1 THEN (IF p > NDigits(c[1]) THEN p - NDigits(c[1]) ELSE 0)
                   ELSE IF c[2] > 0 THEN Cap8(p + (9 - NDigits(c[2]))) ELSE 8
DecimalsFor(prec, c) == IF prec.k = "f" THEN prec.n ELSE DecimalsG(c, prec.n)
WithinPrec(got, c, prec) == IF prec.k = "exact" THEN got = c ELSE WithinHalfUnit(got, c, DecimalsFor(prec, c))
PrecF(d) == [k |-> "f", n |-> d]
\* the format strings of the quantifier:  ''  'f'  'g'  '.<n>f'  '.<n>g'   (n one digit)
FmtSupported(fmt) == \/ fmt = <<>> \/ fmt = <<102>> \/ fmt = <<103>>
                     \/ Len(fmt) = 3 /\ fmt[1] = 46 /\ IsDigitC(fmt[2]) /\ fmt[3] \in {102, 103}
                        /\ (fmt[3] = 102 => fmt[2] - 48 <= 8) /\ (fmt[3] = 103 => fmt[2] - 48 >= 1)
FmtPrec(fmt) == IF fmt = <<>> THEN [k |-> "exact", n |-> 0]
                ELSE IF fmt = <<102>> THEN [k |-> "f", n |-> 6]
                ELSE IF fmt = <<103>> THEN [k |-> "g", n |-> 6]
                ELSE [k |-> IF fmt[3] = 102 THEN "f" ELSE "g", n |-> fmt[2] - 48]
SameSideP(orig, got, prec) == /\ Len(got) = Len(orig)
                              /\ \A i \in 1..Len(orig) : /\ got[i].nm = orig[i].nm
                                                         /\ WithinPrec(got[i].co, orig[i].co, prec)
\* p is what a reader of the printed text obtained
RoundTripP(r, prec, p) == /\ p.hasTS = (Len(r.ts) > 0)
                          /\ SameSideP(r.re, p.re, prec) /\ SameSideP(r.pr, p.pr, prec)
                          /\ (p.hasTS => SameSideP(r.ts, p.ts, prec))
SameSide(orig, got, d) == SameSideP(orig, got, PrecF(d))
RoundTripOK(r, d, p) == RoundTripP(r, PrecF(d), p)
\* two readings of the same text agree: names, order, coefficients (exactly when nothing was
\* merged, to 10^-12 when a float sum is compared with the exact decimal sum)
SideAgrees(spec, got) == /\ Len(got) = Len(spec)
                         /\ \A i \in 1..Len(spec) : /\ got[i].nm = spec[i].nm
                                                    /\ IF spec[i].n = 1 THEN got[i].co = spec[i].co
                                                       ELSE FxClose12(got[i].co, spec[i].co)
ReadingAgrees(spec, got) == /\ SideAgrees(spec.re, got.re) /\ SideAgrees(spec.pr, got.pr)
                            /\ got.hasTS = spec.hasTS
                            /\ (spec.hasTS => SideAgrees(spec.ts, got.ts))
\* hand-written tokens [num (numeral text, <<>> = omitted), gap, nm] and their required meaning
TokenText(t) == IF t.num = <<>> THEN t.nm ELSE t.num \o Spaces(t.gap) \o t.nm
TokenItem(t) == [nm |-> t.nm, co |-> IF t.num = <<>> THEN FxOne ELSE FxOfNumeral(t.num), n |-> 1]
Meaning(toks) == MergeAll([i \in 1..Len(toks) |-> TokenItem(toks[i])])
SideExact(want, got) == /\ Len(got) = Len(want)
                        /\ \A i \in 1..Len(want) : got[i].nm = want[i].nm /\ got[i].co = want[i].co
                                                   /\ got[i].n = want[i].n
=============================================================================
