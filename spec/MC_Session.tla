----------------------------- MODULE MC_Session -----------------------------
EXTENDS Session

\* origin records.  Model coefficients (see harness/drivers/x01.py VALUE for the doubles they
\* stand for): 0, 7, -12 and 34 are "short" (unchanged by a thermdat file); 125 / 135 are exact
\* ties (half-even: down / up), 1249 / 1251 round down / up, 995 carries into the next decade.
\* Model temperatures are 0.01 K; a last digit 5 only on multiples of 25 (exact binary ties).
O(fam, gas, flag, cov, cs, ts) == [fam |-> fam, gas |-> gas, flag |-> flag, cov |-> cov, cs |-> cs, ts |-> ts]
N7a == O("nasa7", TRUE, TRUE, 0, <<1249, -125, 0, 7>>, <<20004, 100006, 350000>>)
N7b == O("nasa7", FALSE, TRUE, 0, <<995, 135, -12>>, <<29825, 99975, 600000>>)
N7c == O("nasa7", TRUE, TRUE, 0, <<-1251, 34, 125>>, <<10000, 50049, 999990>>)
N7d == O("nasa7", FALSE, TRUE, 0, <<7, -995, 1249>>, <<30001, 80050, 200000>>)
N7off == O("nasa7", TRUE, FALSE, 0, <<1251, 7>>, <<20000, 100000, 300000>>)      \* add_gas_P_adj=False
N7cov == O("nasa7", FALSE, TRUE, 1, <<135, -1249>>, <<25000, 75025, 150000>>)    \* user-attached coverage model
N9a == O("nasa9", TRUE, TRUE, 0, <<1249, 125, -7>>, <<20000, 100000, 100000, 600000>>)
N9cov == O("nasa9", TRUE, FALSE, 1, <<995, 0>>, <<20004, 100006, 100006, 600000, 600000, 2000000>>)
Sha == O("shomate", TRUE, TRUE, 0, <<135, 1251>>, <<29815, 120000>>)
Shs == O("shomate", FALSE, TRUE, 1, <<-125, 34>>, <<29800, 60000>>)

\* exhaustive design model
MCWorkspaces == {<<N7a>>, <<N7a, N7b, Sha>>, <<N7off, N7cov, N9a, N7c>>, <<N9cov, Shs, N7d>>}
MCBigWorkspaces == MCWorkspaces \cup {<<N7a, N7b, N7c, N7d>>, <<N7c, N7off, N7a, N7cov, N7b>>}
\* every behaviour of a small instance (replayed into the library)
BehWorkspaces == {<<N7a, Sha>>, <<N7off, N7b, N9a>>, <<N7c, N7cov, N7d>>, <<N9cov, Shs>>}
\* random long behaviours
SimWorkspaces == MCWorkspaces \cup BehWorkspaces \cup
                 {<<N7b, N7a, N9cov, N7d, Shs>>, <<N7c, N7off, N7a, N7cov, N7b>>, <<Sha, N7d, N9a, N7c>>}

View == <<orig, ws, Len(h)>>

\* the rounding of the model is a projection onto the 2-digit numbers, everywhere (not only on
\* the values that occur in the workspaces), and it is the nearest such number
ASSUME \A x \in -10999..10999 :
          /\ RoundC("nearest", RoundC("nearest", x)) = RoundC("nearest", x)
          /\ NearC(x, RoundC("nearest", x))
          /\ RoundT("nearest", RoundT("nearest", x)) = RoundT("nearest", x)
          /\ NearT(x, RoundT("nearest", x))
=============================================================================
