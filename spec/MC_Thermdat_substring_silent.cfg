\* the PINNED keyword test, looking only for SILENT damage: expected to be REJECTED (PrefixOK: a species is returned twice / merged with its predecessor)
SPECIFICATION Spec
CONSTANTS
  Lists <- MCSmall
  Classifier = "substring"
  ElemScan = "columns"
  Order = "reuse"
INVARIANT PrefixOK
INVARIANT NoDrop
INVARIANT RoundTrip
CHECK_DEADLOCK FALSE
