\* implementation-shaped variant: the getter with units drops `rev` (pinned ChemkinReaction.get_H_act). EXPECTED TO BE REJECTED: ClampRefines
SPECIFICATION Spec
CONSTANTS
  Vals <- MCVals
  Slopes2 <- MCSlopes2
  Icpts <- MCIcpts
  Variant = "droprev"
  Kinds = {"plain"}
INVARIANT TypeOK
INVARIANT ClampRefines
INVARIANT NotBelowMinimum
INVARIANT ClampConsistent
INVARIANT BepDifference
INVARIANT BepViaReaction
INVARIANT BepUandHSameBarrier
INVARIANT BepOffsetIsForwardBarrier
CHECK_DEADLOCK FALSE
