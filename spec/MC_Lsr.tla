------------------------------- MODULE MC_Lsr -------------------------------
(* constants of the design model of X07 (negative literals cannot be written in a cfg) *)
EXTENDS Lsr
MCSlopes == {<<-1, 1>>, <<1, 2>>, <<2, 1>>}
MCIcpts == {<<0, 1>>, <<-3, 1>>, <<5, 2>>}
MCEnergies == {<<-5, 2>>, <<3, 4>>, <<4, 1>>}
MCSlopes2 == {<<1, 2>>, <<-2, 1>>}
MCIcpts2 == {<<0, 1>>, <<5, 1>>}
MCEnergies2 == {<<-1, 1>>, <<3, 2>>}
MCEnergies1 == {<<-1, 1>>}
MCExtParts == {Part("float", <<-1, 1>>), Part("species", <<3, 2>>)}
MCExtPartsBig == {Part("float", <<-1, 1>>), Part("species", <<3, 2>>), Part("float", <<3, 2>>), Part("species", <<-1, 1>>)}
=============================================================================
