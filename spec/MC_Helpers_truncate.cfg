\* EXPECTED TO BE REJECTED (sensitivity): zip() to the shortest list on ragged input
SPECIFICATION Spec
CONSTANTS
  Worlds <- Small
  V <- VTruncate
INVARIANT TypeOK
INVARIANT SpecieFaithful
INVARIANT BlockKeysRemoved
INVARIANT FormatFaithful
INVARIANT FormatCount
INVARIANT DictFaithful
INVARIANT IterFaithful
INVARIANT AttrFaithful
INVARIANT CallerUntouched
CHECK_DEADLOCK FALSE
