----------------------------- MODULE DecTest -----------------------------
(* Self-test of Dec against a corpus computed exactly by the harness       *)
(* (tools/dec_selftest.py).  Part of MANIFEST.setup_cmd: Dec is in the      *)
(* trusted base of every numeric verdict.                                   *)
EXTENDS Dec, TLC, Json, IOUtils
Corpus == ndJsonDeserialize(IOEnv.TRACE_FILE)
VARIABLE l
Bad(r) == {c \in {"add", "mul", "sub"} :
             CASE c = "add" -> ~CloseAt(Add(r.a, r.b), r.sum, MaxMag({r.a, r.b}), 8)
               [] c = "sub" -> ~CloseAt(Sub(r.a, r.b), r.dif, MaxMag({r.a, r.b}), 8)
               [] c = "mul" -> ~Close(Mul(r.a, r.b), r.prod, 8)}
Init == l = 1 /\ TLCSet(1, {})
Next == /\ l <= Len(Corpus)
        /\ LET bad == Bad(Corpus[l]) IN
             IF bad # {} THEN TLCSet(1, TLCGet(1) \cup {<<l, c>> : c \in bad}) ELSE TRUE
        /\ l' = l + 1
Spec == Init /\ [][Next]_l
Post == /\ PrintT(<<"FAILS", TLCGet(1)>>)
        /\ PrintT(<<"CONSUMED", TLCGet("stats").diameter - 1>>)
        /\ TLCGet(1) = {}
=============================================================================
