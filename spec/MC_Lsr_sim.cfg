\* random behaviours (tlc -simulate) of LSR objects, printed for replay into the real objects
SPECIFICATION Spec
CONSTANTS
  Slopes <- MCSlopes
  Icpts <- MCIcpts
  Energies <- MCEnergies
  Temps = {250, 500, 1000}
  MaxN = 1
  MaxOps = 4
  Variant = "required"
  Kinds = {"lsr"}
  Stoichs = {1, 2}
  ExtParts <- MCExtParts
INVARIANT EmitBehaviours
CHECK_DEADLOCK FALSE
