\* random behaviours (tlc -simulate) of both classes, printed for replay into the real objects
SPECIFICATION Spec
CONSTANTS
  Slopes <- MCSlopes2
  Icpts <- MCIcpts2
  Energies <- MCEnergies2
  Temps = {250, 500}
  MaxN = 2
  MaxOps = 4
  Variant = "required"
  Kinds = {"lsr", "ext"}
  Stoichs = {2}
  ExtParts <- MCExtParts
INVARIANT EmitBehaviours
CHECK_DEADLOCK FALSE
