----------------------------- MODULE ExcelRecords ----------------------------
(***************************************************************************)
(* C15 - pmutt.io.excel.read_excel: "one record per data row, in row       *)
(* order, containing exactly the non-empty cells of that row; ordinary     *)
(* columns pass through under their trimmed header, the documented special *)
(* headers build the composition dictionary, the ordered vib_wavenumbers / *)
(* rot_temperatures lists, list and dictionary fields, the NASA arrays and *)
(* the model presets; no value leaks between rows; empty cells never       *)
(* appear".                                                                *)
(*                                                                         *)
(* Texts (headers, string cells, keys, class names) are sequences of       *)
(* character codes (Text.tla); literals live in the generated module       *)
(* ExcelTokens.  Numbers are normalised Dec pairs <<m, e>> and are only    *)
(* ever compared for equality (the reader passes cells through).           *)
(*                                                                         *)
(* A sheet is [headers |-> Seq(text), rows |-> Seq(Seq(Cell))]; a Cell is  *)
(* [t |-> "e" | "n" | "s", v |-> <<>> | <<m, e>> | text].  A record is a   *)
(* set of <<key, value>> pairs; values are  "n"/"s" scalars (strings       *)
(* trimmed), "l" lists, "d" dictionaries (sets of <<key, scalar>>), "v"    *)
(* 7-vectors and "c" classes (qualified name).                             *)
(*                                                                         *)
(* REQUIRED RESULT  Expected(sheet)[r] = ExpectedRow(DocClasses, row r):   *)
(* defined declaratively from row r alone - the documented header forms    *)
(* (Rules / DocClass) decide what each non-empty cell contributes.         *)
(* ImplClass is the implementation's chain of substring tests applied to   *)
(* the column names as pandas delivers them (repeated headers get ".k");   *)
(* ExcelReader.tla holds the implementation-shaped row loop and TLC checks *)
(* there that the loop refines this requirement.  Trace_ExcelReader.tla    *)
(* judges recorded calls of the real reader with the same operators.       *)
(*                                                                         *)
(* Readings taken where the property text is silent (narrower one):        *)
(*  - documented header forms are exactly the ones of Rules below;         *)
(*    "elements.X" is accepted next to "element.X" (the repository's own   *)
(*    workbooks use it); names inside headers (ordinary headers, element   *)
(*    symbols, list/dict names and keys) contain no special token of the   *)
(*    reader and are not keys that special columns produce;                *)
(*  - a sheet may have a formula column AND element.X columns, in either   *)
(*    order.  The composition of a row is then what the documented setters *)
(*    give when the columns are taken left to right: the formula cell      *)
(*    assigns the parsed composition (replacing element cells to its       *)
(*    left), element.X cells to its right are set on top of it.  Rows      *)
(*    repeating a formula (same text, or same text padded differently) are *)
(*    in the quantifier.  At most one formula / statmech_model /           *)
(*    <mode>_model column;                                                 *)
(*  - model cells hold names of classes of pmutt.statmech.<mode> (the      *)
(*    module each setter's message points to) or "emptymode" in any case;  *)
(*    statmech_model cells hold a preset name in any case;                 *)
(*  - the preset's informational entries 'required' / 'optional' are not   *)
(*    part of the record (the driver's projection drops them);             *)
(*  - an entirely empty row is a data row (record {}), but the last row    *)
(*    of a sheet is not entirely empty (xlsx cannot represent that);       *)
(*  - atoms cells name a molecule of ase.build.molecule or a structure     *)
(*    file <formula>.xyz (the Atoms object is judged by its formula);      *)
(*    vib_outcar cells name an OUTCAR file whose modes the driver wrote    *)
(*    (opt.files); a cell without header is dropped (the code warns);      *)
(*    booleans are judged up to Python equality (True == 1).               *)
(***************************************************************************)
EXTENDS Text, ExcelTokens, FiniteSets, TLC
D == INSTANCE Dec

\* ------------------------------------------------------------------ text helpers
RECURSIVE SplitOn(_, _)
SplitOn(s, d) ==                                   \* python  s.split(d)
   IF \E i \in 1..Len(s) : s[i] = d
   THEN LET i == CHOOSE i \in 1..Len(s) : s[i] = d /\ \A j \in 1..(i - 1) : s[j] # d
        IN <<SubSeq(s, 1, i - 1)>> \o SplitOn(SubSeq(s, i + 1, Len(s)), d)
   ELSE <<s>>
Pieces(t) == SplitOn(t, T_dot)
\* python str.strip(): the characters for which str.isspace() holds
IsSpaceC(ch) == \/ ch \in 9..13 \/ ch \in 28..32 \/ ch \in {133, 160, 5760, 8232, 8233, 8239, 8287, 12288}
                \/ ch \in 8192..8202
RECURSIVE LStrip(_)
LStrip(s) == IF Len(s) > 0 /\ IsSpaceC(s[1]) THEN LStrip(Tail(s)) ELSE s
RECURSIVE RStrip(_)
RStrip(s) == IF Len(s) > 0 /\ IsSpaceC(s[Len(s)]) THEN RStrip(SubSeq(s, 1, Len(s) - 1)) ELSE s
Strip(s) == LStrip(RStrip(s))
LowerC(ch) == IF IsUpperC(ch) THEN ch + 32 ELSE ch
Lower(s) == [i \in 1..Len(s) |-> LowerC(s[i])]
RECURSIVE NatDigits(_)
NatDigits(n) == IF n < 10 THEN <<48 + n>> ELSE Append(NatDigits(n \div 10), 48 + (n % 10))
RECURSIVE RemoveAll(_, _)
RemoveAll(s, pat) ==                               \* python  s.replace(pat, '')
   IF Len(s) = 0 THEN <<>>
   ELSE IF MatchAt(s, pat, 1) THEN RemoveAll(SubSeq(s, Len(pat) + 1, Len(s)), pat)
   ELSE <<s[1]>> \o RemoveAll(Tail(s), pat)
LastIndexOf(s, ch) == IF \E i \in 1..Len(s) : s[i] = ch
                      THEN CHOOSE i \in 1..Len(s) : s[i] = ch /\ \A j \in (i + 1)..Len(s) : s[j] # ch
                      ELSE 0
SortedSeq(S) == [i \in 1..Cardinality(S) |-> CHOOSE x \in S : Cardinality({y \in S : y < x}) = i - 1]

\* ------------------------------------------------------------------ numbers
RECURSIVE DecNorm(_, _)
DecNorm(m, e) == IF m = 0 THEN <<0, 0>>                     \* what core.to_dec prints: 9 digits
                 ELSE IF m < 100000000 /\ m > -100000000 THEN DecNorm(m * 10, e - 1)
                 ELSE <<m, e>>
DecOfInt(n) == DecNorm(n, 0)

\* ------------------------------------------------------------------ values
EmptyCell == [t |-> "e", v |-> <<>>]
Num(d) == [t |-> "n", v |-> d]
Str(s) == [t |-> "s", v |-> s]
ListV(s) == [t |-> "l", v |-> s]
DictV(ps) == [t |-> "d", v |-> ps]
VecV(s) == [t |-> "v", v |-> s]
ClsV(q) == [t |-> "c", v |-> q]
AtomsV(f) == [t |-> "a", v |-> f]                 \* an ase.Atoms object, by chemical formula
ZeroN == Num(<<0, 0>>)
\* cells: "e" empty, "n" number, "s" text, "b" boolean <<0>> / <<1>>, "t" date-time <<Y,M,D,h,m,s>>.
\* A boolean is judged up to Python equality (True == 1): pandas delivers a boolean column that
\* has empty cells as 1.0 / 0.0.
Scalar(cell) == IF cell.t = "s" THEN Str(Strip(cell.v))
                ELSE IF cell.t = "b" THEN Num(DecOfInt(cell.v[1]))
                ELSE cell
IsEmpty(cell) == cell.t = "e"

\* records and dictionaries: sets of <<key, value>>
Has(rec, k) == \E p \in rec : p[1] = k
Get(rec, k) == (CHOOSE p \in rec : p[1] = k)[2]
Put(rec, k, v) == {p \in rec : p[1] # k} \cup {<<k, v>>}
Keys(rec) == {p[1] : p \in rec}
Functional(rec) == \A p \in rec, q \in rec : p[1] = q[1] => p = q

\* ------------------------------------------------------------------ formulas
\* items  [A-Z][a-z]*  followed by an optional count; repeated symbols are summed
\* (the regular expression of pmutt.parse_formula; set_formula documents H2O).
RECURSIVE TakeLower(_, _)
TakeLower(s, i) == IF i <= Len(s) /\ IsLowerC(s[i]) THEN <<s[i]>> \o TakeLower(s, i + 1) ELSE <<>>
RECURSIVE TakeDigits(_, _)
TakeDigits(s, i) == IF i <= Len(s) /\ IsDigitC(s[i]) THEN <<s[i]>> \o TakeDigits(s, i + 1) ELSE <<>>
RECURSIVE FormulaItems(_, _)
FormulaItems(s, i) ==
   IF i > Len(s) THEN <<>>
   ELSE IF IsUpperC(s[i]) THEN
          LET low == TakeLower(s, i + 1)
              dig == TakeDigits(s, i + 1 + Len(low))
          IN <<[sym |-> <<s[i]>> \o low, n |-> IF dig = <<>> THEN 1 ELSE DigitsToInt(dig)]>>
             \o FormulaItems(s, i + 1 + Len(low) + Len(dig))
   ELSE FormulaItems(s, i + 1)
FormulaPairs(s) ==
   LET items == FormulaItems(s, 1)
       syms == {items[j].sym : j \in 1..Len(items)}
       RECURSIVE Sum(_, _)
       Sum(sym, j) == IF j = 0 THEN 0 ELSE Sum(sym, j - 1) + (IF items[j].sym = sym THEN items[j].n ELSE 0)
   IN {<<sym, Num(DecOfInt(Sum(sym, Len(items))))>> : sym \in syms}
FormulaWF(s) ==            \* every character belongs to an item, counts 1..999 without leading zero
   /\ Len(s) > 0 /\ IsUpperC(s[1])
   /\ \A i \in 1..Len(s) : IsUpperC(s[i]) \/ IsLowerC(s[i]) \/ IsDigitC(s[i])
   /\ \A i \in 1..Len(s) : IsDigitC(s[i]) /\ ~IsDigitC(s[i - 1]) => s[i] # 48
   /\ \A i \in 1..Len(s) : ~(\A j \in i..(i + 3) : j <= Len(s) /\ IsDigitC(s[j]))

\* ------------------------------------------------------------------ header classes
HC(cls, a, b) == [cls |-> cls, a |-> a, b |-> b]
ListDot == T_list \o <<T_dot>>
DictDot == T_dict \o <<T_dot>>
ModeKeys == {T_trans_model, T_vib_model, T_rot_model, T_elec_model, T_nucl_model}
SpecialTokens == {T_Unnamed, T_element, T_formula, T_atoms, T_statmech_model, T_vib_wavenumber,
                  T_vib_outcar, T_rot_temperature, T_nasa, ListDot, DictDot} \cup ModeKeys
\* substring test (Text!Contains builds a subsequence per position; this one does not)
Occurs(s, pat) == \E i \in 1..(Len(s) - Len(pat) + 1) :
                     s[i] = pat[1] /\ \A j \in 2..Len(pat) : s[i + j - 1] = pat[j]
HasToken(t) == \E k \in SpecialTokens : Occurs(t, k)
\* keys that special columns write into the record
ReservedKeys == {T_elements, T_vib_wavenumbers, T_rot_temperatures, T_a_low, T_a_high, T_model}
                \cup ModeKeys
NamePart(x) == Len(x) > 0 /\ ~HasToken(x) /\ x = Strip(x)

\* the documented forms: which rules apply to a trimmed header text
\* (dl: the `delimiter` argument of read_excel; the code honours it for element headers only -
\* set_element documents it - every other special header is dotted whatever the delimiter)
RulesD(t, dl) ==
   LET p == Pieces(t)  pe == SplitOn(t, dl) IN
      (IF Len(pe) = 2 /\ pe[1] \in {T_element, T_elements} /\ NamePart(pe[2]) THEN {"element"} ELSE {})
 \cup (IF t = <<>> THEN {"unnamed"} ELSE {})           \* data under an empty header: warned about, dropped
 \cup (IF t = T_atoms THEN {"atoms"} ELSE {})
 \cup (IF t = T_vib_outcar THEN {"outcar"} ELSE {})
 \cup (IF t = T_formula THEN {"formula"} ELSE {})
 \cup (IF t = T_statmech_model THEN {"statmech"} ELSE {})
 \cup (IF t \in ModeKeys THEN {"mode"} ELSE {})
 \cup (IF t = T_vib_wavenumber THEN {"vib"} ELSE {})
 \cup (IF t = T_rot_temperature THEN {"rot"} ELSE {})
 \cup (IF Len(p) = 3 /\ p[1] = T_nasa /\ p[2] = T_a_low /\ Len(p[3]) = 1 /\ p[3][1] \in 48..54
       THEN {"alow"} ELSE {})
 \cup (IF Len(p) = 3 /\ p[1] = T_nasa /\ p[2] = T_a_high /\ Len(p[3]) = 1 /\ p[3][1] \in 48..54
       THEN {"ahigh"} ELSE {})
 \cup (IF Len(p) \in {2, 3} /\ p[1] = T_list /\ NamePart(p[2])
          /\ (Len(p) = 3 => AllDigits(p[3]) /\ Len(p[3]) <= 3) THEN {"list"} ELSE {})
 \cup (IF Len(p) = 3 /\ p[1] = T_dict /\ NamePart(p[2]) /\ NamePart(p[3]) THEN {"dict"} ELSE {})
 \cup (IF Len(t) > 0 /\ ~HasToken(t) THEN {"ordinary"} ELSE {})

Rules(t) == RulesD(t, T_dot)
DocClassD(t, dl) ==
   LET p == Pieces(t)  r == RulesD(t, dl) IN
   IF r = {"element"} THEN HC("element", SplitOn(t, dl)[2], <<>>)
   ELSE IF r = {"unnamed"} THEN HC("unnamed", <<>>, <<>>)
   ELSE IF r = {"atoms"} THEN HC("atoms", <<>>, <<>>)
   ELSE IF r = {"outcar"} THEN HC("outcar", <<>>, <<>>)
   ELSE IF r = {"formula"} THEN HC("formula", <<>>, <<>>)
   ELSE IF r = {"statmech"} THEN HC("statmech", <<>>, <<>>)
   ELSE IF r = {"mode"} THEN HC("mode", t, <<>>)
   ELSE IF r = {"vib"} THEN HC("vib", <<>>, <<>>)
   ELSE IF r = {"rot"} THEN HC("rot", <<>>, <<>>)
   ELSE IF r = {"alow"} THEN HC("alow", <<>>, <<p[3][1] - 48>>)
   ELSE IF r = {"ahigh"} THEN HC("ahigh", <<>>, <<p[3][1] - 48>>)
   ELSE IF r = {"list"} THEN HC("list", p[2], <<>>)
   ELSE IF r = {"dict"} THEN HC("dict", p[2], p[3])
   ELSE IF r = {"ordinary"} THEN HC("ordinary", t, <<>>)
   ELSE HC("outside", t, <<>>)            \* no documented form, or more than one
DocClass(t) == DocClassD(t, T_dot)

\* the implementation's chain of substring tests (pmutt/io/excel.py l.107-186), applied to
\* the stripped column name pandas delivers
ImplClassD(t, dl) ==
   LET p == Pieces(t)  last == p[Len(p)]  pe == SplitOn(t, dl) IN
   IF Occurs(t, T_Unnamed) THEN HC("unnamed", <<>>, <<>>)
   ELSE IF Occurs(t, T_element) THEN HC("element", pe[Len(pe)], <<>>)
   ELSE IF Occurs(t, T_formula) THEN HC("formula", <<>>, <<>>)
   ELSE IF Occurs(t, T_atoms) THEN HC("atoms", <<>>, <<>>)
   ELSE IF Occurs(t, T_statmech_model) THEN HC("statmech", <<>>, <<>>)
   ELSE IF Occurs(t, T_trans_model) THEN HC("mode", T_trans_model, <<>>)
   ELSE IF Occurs(t, T_vib_model) THEN HC("mode", T_vib_model, <<>>)
   ELSE IF Occurs(t, T_rot_model) THEN HC("mode", T_rot_model, <<>>)
   ELSE IF Occurs(t, T_elec_model) THEN HC("mode", T_elec_model, <<>>)
   ELSE IF Occurs(t, T_nucl_model) THEN HC("mode", T_nucl_model, <<>>)
   ELSE IF Occurs(t, T_vib_wavenumber) THEN HC("vib", <<>>, <<>>)
   ELSE IF Occurs(t, T_vib_outcar) THEN HC("outcar", <<>>, <<>>)
   ELSE IF Occurs(t, T_rot_temperature) THEN HC("rot", <<>>, <<>>)
   ELSE IF Occurs(t, T_nasa) THEN
        (IF ~(AllDigits(last) /\ Len(last) <= 3) THEN HC("raise", t, <<>>)        \* int() fails
         ELSE IF Occurs(t, T_a_low) THEN HC("alow", <<>>, <<DigitsToInt(last)>>)
         ELSE IF Occurs(t, T_a_high) THEN HC("ahigh", <<>>, <<DigitsToInt(last)>>)
         ELSE HC("raise", t, <<>>))
   ELSE IF Occurs(t, ListDot) THEN
        LET h == RemoveAll(t, ListDot)  i == LastIndexOf(h, T_dot)
        IN HC("list", IF i > 0 THEN SubSeq(h, 1, i - 1) ELSE h, <<>>)
   ELSE IF Occurs(t, DictDot) THEN
        LET q == Pieces(RemoveAll(t, DictDot))
        IN IF Len(q) = 2 THEN HC("dict", q[1], q[2]) ELSE HC("raise", t, <<>>)
   ELSE HC("ordinary", t, <<>>)
ImplClass(t) == ImplClassD(t, T_dot)

\* pandas renames the k-th repetition (k >= 1) of a header text to  text.k
\* and names a column without header  "Unnamed: <0-based position>"
PandasName(hs, c) == LET k == Cardinality({d \in 1..(c - 1) : hs[d] = hs[c]})
                     IN IF hs[c] = <<>> THEN T_Unnamed \o <<58, 32>> \o NatDigits(c - 1)
                        ELSE IF k = 0 THEN hs[c] ELSE hs[c] \o <<T_dot>> \o NatDigits(k)
DocClassesD(hs, dl) == [c \in 1..Len(hs) |-> DocClassD(Strip(hs[c]), dl)]
ImplClassesD(hs, dl) == [c \in 1..Len(hs) |-> ImplClassD(Strip(PandasName(hs, c)), dl)]
DocClasses(hs) == DocClassesD(hs, T_dot)
ImplClasses(hs) == ImplClassesD(hs, T_dot)

\* ------------------------------------------------------------------ options and files
\* opt.delim: read_excel(delimiter=); opt.cutoff / opt.imag: min_frequency_cutoff / include_imaginary
\* (documented to apply to vib_outcar only); opt.files: the OUTCAR files the sheet names, as a set of
\* <<stripped cell text, modes>>, a mode being [k |-> "f" (real) | "i" (imaginary), w |-> Dec >= 0]
DefaultOpt == [delim |-> T_dot, cutoff |-> <<0, 0>>, imag |-> FALSE, files |-> {}]
OutcarList(opt, name) ==
   LET ms == Get(opt.files, name)
       keep == {j \in 1..Len(ms) : IF ms[j].k = "f" THEN D!Lt(opt.cutoff, ms[j].w) ELSE opt.imag}
       ss == SortedSeq(keep)
   IN [i \in 1..Len(ss) |-> IF ms[ss[i]].k = "f" THEN Num(ms[ss[i]].w)
                                                  ELSE Num(IF ms[ss[i]].w[1] = 0 THEN <<0, 0>> ELSE D!Neg(ms[ss[i]].w))]
\* atoms cell: a molecule name of ase.build.molecule, or the path of a structure file
\* <dir>/<formula>.xyz (absolute, or relative to the spreadsheet); the record holds the Atoms object
AtomsStem(s) == LET i == LastIndexOf(s, 47)  b == SubSeq(s, i + 1, Len(s))  n == Len(b)
                IN IF n > 4 /\ SubSeq(b, n - 3, n) = <<46, 120, 121, 122>> THEN SubSeq(b, 1, n - 4) ELSE b

\* ------------------------------------------------------------------ models and presets
StatMechCls == ClsV(Q_StatMech)
EmptyModeCls == ClsV(Q_EmptyMode)
\* classes of pmutt.statmech.<mode> by the name written in the cell
ModelTable(key) ==
   IF key = T_trans_model THEN {<<T_FreeTrans, Q_FreeTrans>>}
   ELSE IF key = T_vib_model THEN {<<T_HarmonicVib, Q_HarmonicVib>>, <<T_QRRHOVib, Q_QRRHOVib>>,
                                   <<T_EinsteinVib, Q_EinsteinVib>>, <<T_DebyeVib, Q_DebyeVib>>}
   ELSE IF key = T_rot_model THEN {<<T_RigidRotor, Q_RigidRotor>>}
   ELSE IF key = T_elec_model THEN {<<T_GroundStateElec, Q_GroundStateElec>>, <<T_LSR, Q_LSR>>,
                                    <<T_ExtendedLSR, Q_ExtendedLSR>>}
   ELSE IF key = T_nucl_model THEN {<<T_EmptyNucl, Q_EmptyNucl>>}
   ELSE {}
ModelKnown(key, name) == Has(ModelTable(key), name) \/ Lower(name) = T_emptymode
ModelClass(key, name) == IF Has(ModelTable(key), name) THEN ClsV(Get(ModelTable(key), name))
                         ELSE EmptyModeCls
PresetNames == {T_idealgas, T_harmonic, T_electronic, T_placeholder, T_constant}
\* pmutt.statmech.presets without the informational 'required' / 'optional' entries
Preset(name) ==
   IF name = T_idealgas THEN
        {<<T_model, StatMechCls>>, <<T_trans_model, ClsV(Q_FreeTrans)>>,
         <<T_n_degrees, Num(DecOfInt(3))>>, <<T_vib_model, ClsV(Q_HarmonicVib)>>,
         <<T_elec_model, ClsV(Q_GroundStateElec)>>, <<T_rot_model, ClsV(Q_RigidRotor)>>}
   ELSE IF name = T_harmonic THEN
        {<<T_model, StatMechCls>>, <<T_vib_model, ClsV(Q_HarmonicVib)>>,
         <<T_elec_model, ClsV(Q_GroundStateElec)>>}
   ELSE IF name = T_electronic THEN
        {<<T_model, StatMechCls>>, <<T_elec_model, ClsV(Q_GroundStateElec)>>}
   ELSE IF name = T_placeholder THEN
        {<<T_model, StatMechCls>>} \cup {<<k, EmptyModeCls>> : k \in ModeKeys}
   ELSE IF name = T_constant THEN
        {<<T_model, StatMechCls>>, <<T_elec_model, ClsV(Q_ConstantMode)>>}
   ELSE {}

\* ------------------------------------------------------------------ the required result
ExpectedRowO(cl, row, opt) ==
   LET n == Len(cl)
       ne == {c \in 1..n : ~IsEmpty(row[c])}
       Of(k) == {c \in ne : cl[c].cls = k}
       Vals(S) == LET ss == SortedSeq(S) IN [i \in 1..Len(ss) |-> Scalar(row[ss[i]])]
       ord == {<<cl[c].a, Scalar(row[c])>> : c \in Of("ordinary")}
       \* composition: the columns are taken left to right; a formula cell ASSIGNS the parsed
       \* composition (set_formula: "will assign to output_structure['elements']", so element
       \* cells to its left are replaced), an element.X cell to its right is set on top of it
       fcol == IF Of("formula") = {} THEN 0 ELSE CHOOSE c \in Of("formula") : TRUE
       base == IF fcol = 0 THEN {} ELSE FormulaPairs(Strip(row[fcol].v))
       ecols == {c \in Of("element") : c > fcol}
       elem == IF Of("element") \cup Of("formula") = {} THEN {}
               ELSE {<<T_elements,
                       DictV({p \in base : ~\E c \in ecols : cl[c].a = p[1]}
                             \cup {<<cl[c].a, Scalar(row[c])>> : c \in ecols})>>}
       \* a vib_outcar cell sets the whole list from the file (modes in file order: real ones above
       \* the cutoff, imaginary ones negated and only when asked for); vib_wavenumber cells of
       \* that row are then not used, on whichever side of the vib_outcar column they stand
       vib == IF Of("outcar") # {}
              THEN {<<T_vib_wavenumbers,
                      ListV(OutcarList(opt, Strip(row[CHOOSE c \in Of("outcar") : TRUE].v)))>>}
              ELSE IF Of("vib") = {} THEN {} ELSE {<<T_vib_wavenumbers, ListV(Vals(Of("vib")))>>}
       atoms == {<<T_atoms, AtomsV(AtomsStem(Strip(row[c].v)))>> : c \in Of("atoms")}
       rot == IF Of("rot") = {} THEN {} ELSE {<<T_rot_temperatures, ListV(Vals(Of("rot")))>>}
       lists == {<<nm, ListV(Vals({c \in Of("list") : cl[c].a = nm}))>> :
                    nm \in {cl[c].a : c \in Of("list")}}
       dicts == {<<nm, DictV({<<cl[c].b, Scalar(row[c])>> : c \in {d \in Of("dict") : cl[d].a = nm}})>> :
                    nm \in {cl[c].a : c \in Of("dict")}}
       Vec(k) == VecV([i \in 1..7 |->
                         IF \E c \in Of(k) : cl[c].b[1] = i - 1
                         THEN Scalar(row[CHOOSE c \in Of(k) : cl[c].b[1] = i - 1]) ELSE ZeroN])
       alow == IF Of("alow") = {} THEN {} ELSE {<<T_a_low, Vec("alow")>>}
       ahigh == IF Of("ahigh") = {} THEN {} ELSE {<<T_a_high, Vec("ahigh")>>}
       modes == {<<cl[c].a, ModelClass(cl[c].a, Strip(row[c].v))>> : c \in Of("mode")}
       model == IF Of("mode") \cup Of("statmech") = {} THEN {} ELSE {<<T_model, StatMechCls>>}
       explicit == ord \cup elem \cup atoms \cup vib \cup rot \cup lists \cup dicts \cup alow \cup ahigh
                   \cup modes \cup model
       preset == UNION {{p \in Preset(Lower(Strip(row[c].v))) : ~Has(explicit, p[1])} : c \in Of("statmech")}
   IN explicit \cup preset
ExpectedRow(cl, row) == ExpectedRowO(cl, row, DefaultOpt)
Expected(sheet) == LET cl == DocClassesD(sheet.headers, sheet.opt.delim)
                   IN [r \in 1..Len(sheet.rows) |-> ExpectedRowO(cl, sheet.rows[r], sheet.opt)]

\* ------------------------------------------------------------------ the quantifier
MoleculeNames == {F_H2O, F_CO, V_CO2, V_C2H2, V_CH4, V_H2, V_N2, V_O2, V_C2H6}    \* Hill formula = name
CellSuits(cls, cell, opt) ==
   \/ IsEmpty(cell)
   \/ cls.cls = "unnamed"
   \/ /\ cls.cls = "atoms" /\ cell.t = "s" /\ AtomsStem(Strip(cell.v)) \in MoleculeNames
   \/ /\ cls.cls = "outcar" /\ cell.t = "s" /\ Has(opt.files, Strip(cell.v))
   \/ /\ cls.cls \in {"ordinary", "list", "dict"} /\ cell.t \in {"b", "t"}
   \/ /\ cls.cls \in {"element", "vib", "rot", "alow", "ahigh"} /\ cell.t = "n"
   \/ /\ cls.cls \in {"ordinary", "list", "dict"}
      /\ cell.t \in {"n", "s"} /\ (cell.t = "s" => Len(Strip(cell.v)) > 0)
   \/ /\ cls.cls = "formula" /\ cell.t = "s" /\ FormulaWF(Strip(cell.v))
   \/ /\ cls.cls = "statmech" /\ cell.t = "s" /\ Lower(Strip(cell.v)) \in PresetNames
   \/ /\ cls.cls = "mode" /\ cell.t = "s" /\ ModelKnown(cls.a, Strip(cell.v))
SheetInQuantifier(sheet) ==
   LET hs == sheet.headers  cl == DocClassesD(hs, sheet.opt.delim)  n == Len(hs)
       Cnt(k) == Cardinality({c \in 1..n : cl[c].cls = k})
       ordK == {cl[c].a : c \in {d \in 1..n : cl[d].cls = "ordinary"}}
       listK == {cl[c].a : c \in {d \in 1..n : cl[d].cls = "list"}}
       dictK == {cl[c].a : c \in {d \in 1..n : cl[d].cls = "dict"}}
       \* headers that may repeat with identical text: vib_wavenumber, rot_temperature, list.name
       Repeatable(c) == cl[c].cls \in {"vib", "rot", "unnamed"} \/ (cl[c].cls = "list" /\ Len(Pieces(Strip(hs[c]))) = 2)
   IN /\ n >= 1                                \* (a sheet may have no data row at all: [] is required)
      /\ \A c \in 1..n : cl[c].cls # "outside"
      /\ \A c \in 1..n, d \in 1..n :
            c < d =>
              /\ hs[c] = hs[d] => Repeatable(c) /\ hs[c] = Strip(hs[c])
              /\ hs[c] # hs[d] /\ cl[c] = cl[d] => cl[c].cls \in {"list", "vib", "rot", "unnamed"}
              /\ cl[c].cls = "list" /\ cl[c] = cl[d] =>
                    Len(Pieces(Strip(hs[c]))) = Len(Pieces(Strip(hs[d])))
      /\ ordK \cap (listK \cup dictK \cup ReservedKeys) = {}
      /\ listK \cap dictK = {} /\ (listK \cup dictK) \cap (ReservedKeys \cup {T_n_degrees}) = {}
      /\ Cnt("formula") <= 1 /\ Cnt("statmech") <= 1 /\ Cnt("atoms") <= 1 /\ Cnt("outcar") <= 1
      /\ ordK \cap {T_atoms} = {} /\ Functional(sheet.opt.files)
      /\ \A r \in 1..Len(sheet.rows) :
            /\ Len(sheet.rows[r]) = n
            /\ \A c \in 1..n : CellSuits(cl[c], sheet.rows[r][c], sheet.opt)
      /\ Len(sheet.rows) > 0 => \E c \in 1..n : ~IsEmpty(sheet.rows[Len(sheet.rows)][c])

\* ------------------------------------------------------------------ atoms (for leak detection)
RowAtoms(row) == {Scalar(row[k]) : k \in {j \in 1..Len(row) : ~IsEmpty(row[j])}}
ValueAtoms(v) == IF v.t \in {"n", "s", "t", "a"} THEN {v}
                 ELSE IF v.t \in {"l", "v"} THEN {v.v[k] : k \in 1..Len(v.v)}
                 ELSE IF v.t = "d" THEN {p[2] : p \in v.v}
                 ELSE {}
RecAtoms(rc) == UNION {ValueAtoms(p[2]) : p \in rc}
\* atoms that no cell of the row holds but the documented folding creates
DerivedO(cls, row, opt) ==
   {ZeroN, Num(DecOfInt(3))}
   \cup UNION {{p[2] : p \in FormulaPairs(Strip(row[k].v))} :
                 k \in {j \in 1..Len(row) : cls[j].cls = "formula" /\ ~IsEmpty(row[j])}}
   \cup UNION {{AtomsV(AtomsStem(Strip(row[k].v)))} :
                 k \in {j \in 1..Len(row) : cls[j].cls = "atoms" /\ ~IsEmpty(row[j])}}
   \cup UNION {LET l == OutcarList(opt, Strip(row[k].v)) IN {l[i] : i \in 1..Len(l)} :
                 k \in {j \in 1..Len(row) : cls[j].cls = "outcar" /\ ~IsEmpty(row[j])}}
Derived(cls, row) == {ZeroN, Num(DecOfInt(3))}
                    \cup UNION {{p[2] : p \in FormulaPairs(Strip(row[k].v))} :
                                  k \in {j \in 1..Len(row) : cls[j].cls = "formula" /\ ~IsEmpty(row[j])}}
=============================================================================
