\* constant-level case generation (the ASSUME writes the JSON); dummy behaviour spec
INIT DInit
NEXT DNext
CONSTANTS
  Lists <- MCSmall
  Classifier = "layout"
  ElemScan = "columns"
  Order = "strict"
