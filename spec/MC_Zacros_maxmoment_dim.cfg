\* X08 design model with an implementation-shaped deviation (QRotRule=maxmoment, DictRule=complete): EXPECTED TO BE REJECTED
SPECIFICATION Spec
CONSTANTS
  ModeIds <- MCModeIds
  MaxModes = 1
  MaxA = 1
  MaxB = 1
  MaxC = 0
  MaxOps = 3
  Walk = FALSE
  QRotRule = "maxmoment"
  DictRule = "complete"
INVARIANT QRotDimensionless
VIEW View
CHECK_DEADLOCK FALSE
