\* the width-preserving algorithm with a shortcut for a collection of ONE identifier that returns
\* the str layout for both formats and never raises: EXPECTED TO BE REJECTED
SPECIFICATION Spec
CONSTANTS
  Heads <- HeadsUni
  Numbers <- NumsQuick
  Widths <- WidthsQuick
  Extra <- ExtraQuick
  MaxIds = 2
  Variant = "fastpath"
INVARIANT TypeOK
INVARIANT OutputFormInv
INVARIANT MustRejectInv
CHECK_DEADLOCK FALSE
