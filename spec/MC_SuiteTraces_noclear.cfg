\* X05 (D): defective recorder (ClearAtEnd = FALSE) - must be REJECTED
SPECIFICATION Spec
CONSTANTS
  NT = 2
  Plain = {"a", "b", "d"}
  Comp = {"r"}
  Parts <- MCParts
  Conds = {"c1", "c2"}
  Nb <- MCNb
  Ids = {i1, i2, i3}
  MaxSteps = 5
  HoldRefs = TRUE
  ClearAtEnd = FALSE
  GuardReeval = TRUE
  KeyByCond = TRUE
  SkipNested = TRUE
  SkipRaised = TRUE
VIEW View
SYMMETRY IdPerms
INVARIANTS TypeOK AddrDistinct OutSound ExactlyOnce Prefix
PROPERTY OwnTest
CHECK_DEADLOCK FALSE
