\* C04 design model, wrapper variant "nasa_Cp"
SPECIFICATION Spec
CONSTANTS
  Variant = "nasa_Cp"
  ShomateOwn <- MCShomateOwn
  ClassFilter <- MCNasas
INVARIANT TypeOK
INVARIANT WellFormed
INVARIANT Refines
CHECK_DEADLOCK FALSE
