\* C04 design model, wrapper variant "nasa_Cp"
SPECIFICATION Spec
CONSTANTS
  Variant = "nasa_Cp"
INVARIANT TypeOK
INVARIANT WellFormed
INVARIANT Refines
CHECK_DEADLOCK FALSE
