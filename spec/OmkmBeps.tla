------------------------------ MODULE OmkmBeps ------------------------------
(***************************************************************************)
(* C07 - how the writers collect the BEP relationships of a model.         *)
(*   bname : [1..NB -> UserNames \cup {"none"}]  name given to each BEP    *)
(*           OBJECT (distinct objects; user names distinct)                *)
(*   use   : [1..N -> 0..NB]   the BEP object reaction k uses (0 = none)   *)
(*   doc   : sequence of <<object, written name>> of the last Write        *)
(* Write walks the reactions like the writers' loop and keeps a BEP when   *)
(* it was not seen before; only afterwards unnamed BEPs get b_%04d (ids in *)
(* use are skipped).  Variant "by_object" decides "seen" on the object,    *)
(* "by_name" on the name the object has AT COLLECTION TIME - all unnamed   *)
(* objects then look like the first one.  Required: every used object is   *)
(* written exactly once (EachBepOnce) under a unique name (BepNamesUnique),*)
(* user names kept.                                                        *)
(***************************************************************************)
EXTENDS Integers, Sequences, FiniteSets, TLC
CONSTANTS N, NB, UserNames, Variant
VARIABLES bname, use, doc
vars == <<bname, use, doc>>
Auto(i) == <<"b_0000", "b_0001", "b_0002", "b_0003", "b_0004">>[i + 1]
Used == {use[k] : k \in 1..N} \ {0}
RECURSIVE Collect(_, _)
Collect(k, acc) ==               \* acc: sequence of objects kept so far
   IF k > N THEN acc
   ELSE LET b == use[k]
            seen == IF Variant = "by_object" THEN \E i \in 1..Len(acc) : acc[i] = b
                    ELSE \E i \in 1..Len(acc) : bname[acc[i]] = bname[b]
        IN Collect(k + 1, IF b = 0 \/ seen THEN acc ELSE Append(acc, b))
RECURSIVE Name(_, _, _, _)
Name(objs, j, i, used) ==        \* names for objs[j..], i = auto counter
   IF j > Len(objs) THEN <<>>
   ELSE IF bname[objs[j]] # "none" THEN <<<<objs[j], bname[objs[j]]>>>> \o Name(objs, j + 1, i, used)
   ELSE LET RECURSIVE Free(_)
            Free(m) == IF Auto(m) \in used THEN Free(m + 1) ELSE m
            m == Free(i)
        IN <<<<objs[j], Auto(m)>>>> \o Name(objs, j + 1, m + 1, used \cup {Auto(m)})
Init == /\ bname \in {g \in [1..NB -> UserNames \cup {"none"}] :
                        \A a, b \in 1..NB : (a # b /\ g[a] # "none") => g[a] # g[b]}
        /\ use \in [1..N -> 0..NB]
        /\ doc = <<>>
Write == /\ doc = <<>>
         /\ doc' = Name(Collect(1, <<>>), 1, 0, {bname[b] : b \in Used} \ {"none"}) \o <<<<0, "end">>>>
         /\ UNCHANGED <<bname, use>>
Spec == Init /\ [][Write]_vars
Entries == IF doc = <<>> THEN <<>> ELSE SubSeq(doc, 1, Len(doc) - 1)
EachBepOnce == doc # <<>> =>
   /\ {Entries[i][1] : i \in 1..Len(Entries)} = Used
   /\ \A i, j \in 1..Len(Entries) : i # j => Entries[i][1] # Entries[j][1]
BepNamesUnique == \A i, j \in 1..Len(Entries) : i # j => Entries[i][2] # Entries[j][2]
UserNamesKept == \A i \in 1..Len(Entries) : bname[Entries[i][1]] # "none" => Entries[i][2] = bname[Entries[i][1]]
=============================================================================
