\* exhaustive: all reactions of the case set, Counter-shaped accumulation
SPECIFICATION Spec
CONSTANTS
  Variant = "counter"
  Scope = "quick"
INVARIANT WellFormed
INVARIANT Requirement
INVARIANT Partial
CHECK_DEADLOCK FALSE
