----------------------------- MODULE Trace_EOS -----------------------------
(***************************************************************************)
(* C20 - trace validation of recorded IdealGasEOS / vanDerWaalsEOS calls.  *)
(* One NDJSON line per probed state; numbers are Dec <<m, e>>.  Units as   *)
(* the library documents them: T in K, P in bar, V in m3, n in mol,        *)
(* a in Pa m6/mol2, b in m3/mol.  The specification fixes                  *)
(*    R = 8.3144598 J/mol/K (the value documented in pmutt.constants.R)    *)
(*    1 bar = 1e5 Pa,  R('m3 bar/mol/K') = R * 1e-5                        *)
(* so a drift of the library's constants beyond 1e-6 is itself rejected.   *)
(*                                                                         *)
(* All relations are polynomial identities (no division):                  *)
(*   ideal gas     P V = n R T                                             *)
(*   van der Waals P v^3 - (P b + R T) v^2 + a v - a b = 0,  v = V/n       *)
(*   critical      27 b^2 Pc = a,  27 b R Tc = 8 a,  Vc = 3 n b            *)
(* The cubic is a sum of four terms that cancel, so its residual is        *)
(* compared with the LARGEST of the four terms (CloseIn, k = 6; about 12   *)
(* Dec operations).  This is the backward-stable reading of "substituting  *)
(* the answer back returns the original state": on the liquid root at low  *)
(* pressure P v^3 is up to 1e7 times smaller than a v, and the pressure    *)
(* recomputed from a volume stored in a double differs from the original   *)
(* by up to ~1e-4 relative (measured 4e-5 at 1e-3 bar) although every      *)
(* operation is correctly rounded - the liquid is almost incompressible.   *)
(* Temperature and amount round trips are well conditioned on the whole    *)
(* quantifier domain (amplification <= (P b + a/b)/(R T) < 1e3) and are    *)
(* compared directly.                                                      *)
(*                                                                         *)
(* Events                                                                  *)
(*  ideal    : T P n -> V = get_V;  Pb = get_P(T,V,n)  Tb = get_T(V,P,n)   *)
(*             nb = get_n(V,P,T)  V1 = get_V(T,P,1)                        *)
(*  vdw      : a b T P n gas -> Vm = get_Vm  V = get_V  Pb Tb nb as above  *)
(*             on V;  Vmw = V/n (witness);  roots = ALL positive real      *)
(*             roots of the cubic bracketed by the harness (sign changes + *)
(*             bisection, independent of numpy.roots), each verified here  *)
(*             by its residual before it is used;  Vig = ideal get_V       *)
(*  crit     : a b n -> Pc Tc Vc and, if state, get_Vm(Tc, Pc) both phases  *)
(*  fromcrit : Tc Pc -> object (a, b) -> Tcb = get_Tc  Pcb = get_Pc        *)
(*  arr      : the getters that evaluate element-wise on the unmodified     *)
(*             library (all of IdealGasEOS; vdW get_P, get_T, get_V(n),     *)
(*             get_n(V), get_Vc(n)) called with float ndarrays, the SAME    *)
(*             array objects reused from call to call: T0 V0 = the state    *)
(*             before any call, Tb = get_T(V, get_P(T, V, n), n) and Vb =   *)
(*             volume solved again from the returned pressure, both read    *)
(*             from / computed with the arrays the caller still holds;      *)
(*             pairs = <<array element, scalar call on the original         *)
(*             state>> as Dec2; touched = names of arguments whose contents *)
(*             changed during a call.  The docstrings list every parameter  *)
(*             as `float`: this is a deliberate widening, see notes/C20.md. *)
(*  forms    : one object, one state A (both phases), a second state B,     *)
(*             then A again.  Each list holds pairs <<variant, reference>>  *)
(*             of Dec2 results that must agree: types (arguments given as   *)
(*             int / numpy.float64 / numpy.int64 vs float), posn            *)
(*             (positional vs keyword call), dflt (argument omitted vs the  *)
(*             documented default T0 = 298.15 K, P0 = 1 bar, V0 = V0('m3'), *)
(*             n = 1, gas_phase = True passed explicitly), ctor (object     *)
(*             rebuilt through from_dict(to_dict()), the JSON encoder, the  *)
(*             positional constructor vs the original), again (A after B vs *)
(*             A before B; B on the used object vs B on a fresh object);    *)
(*             untouched: the object's a, b are what the constructor got;   *)
(*             std (ideal gas only): get_V() get_P() get_T() get_n() with   *)
(*             every argument omitted - the standard state must be on       *)
(*             P V = n R T with P = 1 bar, T = 298.15 K, n = 1 mol.         *)
(*  raise / nonfinite : a getter raised or returned nan/inf                *)
(***************************************************************************)
EXTENDS Dec2, TLC, TLCExt, Json, IOUtils

TraceLog == ndJsonDeserialize(IOEnv.TRACE_FILE)
VARIABLES l

Rgas == <<83144598, -7>>        \* J/mol/K
RgasBar == <<83144598, -12>>    \* m3 bar/mol/K
Bar == <<1, 5>>                 \* Pa per bar
SI(p) == Mul(p, Bar)
Fails(ok, name) == IF ok THEN {} ELSE {name}
SeqSet(s) == {s[i] : i \in 1..Len(s)}

\* ---- the van der Waals cubic: its four terms at (P [Pa], T, a, b, v)
Terms(p, t, a, b, v) ==
   LET v2 == Mul(v, v) IN
   <<Mul(p, Mul(v2, v)), Mul(Add(Mul(p, b), Mul(Rgas, t)), v2), Mul(a, v), Mul(a, b)>>
Residual(tm) == Sub(Add(tm[1], tm[3]), Add(tm[2], tm[4]))
IsRoot(p, t, a, b, v) == LET tm == Terms(p, t, a, b, v) IN CloseIn(Residual(tm), Zero, SeqSet(tm), 6)

\* ---- ideal gas
IdealClauses(e) ==
   LET nRT == Mul(Mul(e.n, RgasBar), e.T) IN
   Fails(Close(Mul(e.P, e.V), nRT, 6), "IdealEquation")
   \cup Fails(Close(Mul(e.Pb, e.V), nRT, 6) /\ Close(e.Pb, e.P, 7), "IdealRoundTripP")
   \cup Fails(Close(Mul(e.P, e.V), Mul(Mul(e.n, RgasBar), e.Tb), 6) /\ Close(e.Tb, e.T, 7), "IdealRoundTripT")
   \cup Fails(Close(Mul(e.P, e.V), Mul(Mul(e.nb, RgasBar), e.T), 6) /\ Close(e.nb, e.n, 7), "IdealRoundTripN")
   \cup Fails(Close(e.V, Mul(e.n, e.V1), 7), "IdealLinearInN")

\* ---- van der Waals
RootsVerified(e) == \A i \in 1..Len(e.roots) : IsRoot(SI(e.P), e.T, e.a, e.b, e.roots[i])
Extremal(e) ==
   \A i \in 1..Len(e.roots) :
      \/ Close(e.roots[i], e.Vm, 6)
      \/ IF e.gas THEN Lt(e.roots[i], e.Vm) ELSE Lt(e.Vm, e.roots[i])
\* low density: eps = (b + a/RT) P/RT <= 1/8, written  8 (b RT + a) P <= (RT)^2
RT(e) == Mul(Rgas, e.T)
ExcessRT(e) == Add(Mul(e.b, RT(e)), e.a)
LowDensity(e) == Le(Mul(I(8), Mul(ExcessRT(e), SI(e.P))), Mul(RT(e), RT(e)))
\* |V - Vig| <= 2 n (b + a/RT) (+ the resolution of a 9-digit difference), times RT
IdealLimitOK(e) ==
   LET slack == <<1, Mag(e.Vig) - 7>>
   IN Le(Mul(DAbs(Sub(e.V, e.Vig)), RT(e)),
         Add(Mul(Mul(I(2), e.n), ExcessRT(e)), Mul(slack, RT(e))))

VdwClauses(e) ==
   LET p == SI(e.P)
       tw == Terms(p, e.T, e.a, e.b, e.Vmw)
       v3 == Mul(Mul(e.Vmw, e.Vmw), e.Vmw)
   IN Fails(RootsVerified(e) /\ Close(Mul(e.Vmw, e.n), e.V, 7), "WITNESS")
      \cup Fails(IsRoot(p, e.T, e.a, e.b, e.Vm) /\ Lt(e.b, e.Vm), "VdwResidual")
      \cup Fails(Extremal(e), "RootSelected")
      \cup Fails(Close(e.V, Mul(e.n, e.Vm), 7), "VLinearInN")
      \cup Fails(/\ IsRoot(SI(e.Pb), e.T, e.a, e.b, e.Vmw)
                 /\ CloseIn(Mul(SI(e.Pb), v3), Mul(p, v3), SeqSet(tw), 6), "VdwRoundTripP")
      \cup Fails(IsRoot(p, e.Tb, e.a, e.b, e.Vmw) /\ Close(e.Tb, e.T, 6), "VdwRoundTripT")
      \cup Fails(Close(Mul(e.nb, e.Vm), e.V, 7) /\ Close(e.nb, e.n, 7), "VdwRoundTripN")
      \cup Fails((e.gas /\ LowDensity(e)) => IdealLimitOK(e), "IdealLimit")

\* ---- critical constants
CritClauses(e) ==
   Fails(Close(Mul(I(27), Mul(Mul(e.b, e.b), SI(e.Pc))), e.a, 6), "CriticalPressure")
   \cup Fails(Close(Mul(I(27), Mul(e.b, Mul(Rgas, e.Tc))), Mul(I(8), e.a), 6), "CriticalTemperature")
   \cup Fails(Close(e.Vc, Mul(I(3), Mul(e.n, e.b)), 7), "CriticalVolume")
   \* at (Tc, Pc) the cubic has the triple root 3b; a triple root moves by (few ulp)^(1/3) ~ 1e-5
   \* (probed only when (Tc, Pc) is a state of the quantifier: e.state)
   \cup Fails(e.state => (Close(e.VmG, Mul(I(3), e.b), 4) /\ Close(e.VmL, Mul(I(3), e.b), 4)), "CriticalState")

FromCritClauses(e) ==
   Fails(Close(e.Tcb, e.Tc, 7) /\ Close(e.Pcb, e.Pc, 7), "FromCriticalRoundTrip")
   \cup Fails(/\ Close(Mul(I(27), Mul(Mul(e.b, e.b), SI(e.Pc))), e.a, 6)
              /\ Close(Mul(I(27), Mul(e.b, Mul(Rgas, e.Tc))), Mul(I(8), e.a), 6), "FromCriticalRelations")

\* ---- array-valued states (same array objects reused)
ArrClauses(e) ==
   Fails(e.touched = <<>>, "InputUntouched")
   \cup Fails(e.shapes, "ArrayShape")
   \cup (IF e.shapes
         THEN Fails(\A i \in 1..Len(e.T0) : Close(e.Tb[i], e.T0[i], 6), "ArrayRoundTripT")
              \cup Fails(\A i \in 1..Len(e.V0) : Close(e.Vb[i], e.V0[i], 6), "ArrayRoundTripV")
              \cup Fails(\A i \in 1..Len(e.pairs) : Close2(e.pairs[i][1], e.pairs[i][2], 13), "ArrayIsMapOfScalar")
         ELSE {})

\* ---- argument forms, constructors, repeated use
AllSame(ps) == \A i \in 1..Len(ps) : Close2(ps[i][1], ps[i][2], 13)
StdOK(e) == e.std = <<>> \/
   (/\ Close(e.std[2], <<1, 0>>, 7) /\ Close(e.std[3], <<29815, -2>>, 7) /\ Close(e.std[4], <<1, 0>>, 7)
    /\ Close(Mul(e.std[2], e.std[1]), Mul(Mul(e.std[4], RgasBar), e.std[3]), 6))
FormsClauses(e) ==
   Fails(AllSame(e.types), "ArgumentTypeIrrelevant")
   \cup Fails(AllSame(e.posn), "PositionalIsKeyword")
   \cup Fails(AllSame(e.dflt) /\ StdOK(e), "DefaultIsStandardState")
   \cup Fails(AllSame(e.ctor), "RebuiltObjectSameAnswers")
   \cup Fails(AllSame(e.again), "RepeatableCall")
   \cup Fails(e.untouched, "ObjectUntouched")

Clauses(e) ==
   CASE e.ev = "ideal" -> IdealClauses(e)
     [] e.ev = "forms" -> FormsClauses(e)
     \* edit history on one live object (a and/or b assigned between calls): each step is a `vdw`
     \* line judged on the CURRENT parameters, followed by this line comparing it with a fresh object
     [] e.ev = "edit" -> Fails(AllSame(e.pairs), "EditedEqualsFresh")
     [] e.ev = "arr" -> ArrClauses(e)
     [] e.ev = "vdw" -> VdwClauses(e)
     [] e.ev = "crit" -> CritClauses(e)
     [] e.ev = "fromcrit" -> FromCritClauses(e)
     [] e.ev = "arr_refused" -> {}   \* parameters are documented as float: refusing an array is allowed
     [] e.ev = "raise" -> {"Raises"}
     [] e.ev = "nonfinite" -> {"Finite"}
     [] OTHER -> {"UnknownEvent"}

Init == l = 1 /\ TLCSet(1, {})
Next == /\ l <= Len(TraceLog)
        /\ LET e == TraceLog[l]  bad == Clauses(e) IN
             IF bad # {} THEN TLCSet(1, TLCGet(1) \cup {<<e.tid, l, x>> : x \in bad}) ELSE TRUE
        /\ l' = l + 1
Spec == Init /\ [][Next]_l
Post == /\ PrintT(<<"FAILS", TLCGet(1)>>)
        /\ PrintT(<<"CONSUMED", TLCGet("stats").diameter - 1>>)
=============================================================================
