\* X09 design model, implementation shape "cache" (Keyed <- OnlyFirst): derived data refreshed by field 1 only (HarmonicVib/QRRHOVib/PiecewiseCovEffect) - expected: REJECTED
SPECIFICATION Spec
CONSTANTS
  NF = 3
  Vals = {1, 2}
  Methods = {1, 2}
  Refs <- RefSet
  Args <- ArgsSmall
  InitStores <- StoresSmall
  Keyed <- OnlyFirst
  Impl = "cache"
  MaxOps = 4
INVARIANT TypeOK
PROPERTY FreshAfterMutation
VIEW View
CHECK_DEADLOCK FALSE
