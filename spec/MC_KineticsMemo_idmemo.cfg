\* variant "memo keyed by id(reaction)" (seeded change C09-11). EXPECTED TO BE REJECTED: DescriptorIsCurrent
SPECIFICATION Spec
CONSTANTS
  Addr = {1, 2}
  DVals = {1, 2}
  MaxOps = 6
  Variant = "idmemo"
INVARIANT DescriptorIsCurrent
CHECK_DEADLOCK FALSE
