-------------------------------- MODULE EOS --------------------------------
(***************************************************************************)
(* C20 - equations of state invert consistently (pmutt.eos).               *)
(*                                                                         *)
(* Design model in EXACT rational arithmetic (Rat.tla).  A session holds   *)
(* one equation-of-state object `eos` (ideal gas, or van der Waals with    *)
(* parameters a, b) and one thermodynamic state `st` = (P, RT, n, V,       *)
(* phase).  Every public getter is one action that recomputes one          *)
(* component of the state from the other three:                            *)
(*    SolveV(ph) = get_V(T, P, n, gas_phase)    SolveP = get_P(T, V, n)    *)
(*    SolveT     = get_T(V, P, n)               SolveN = get_n(V, P, T, ph)*)
(*    ChangeN    = get_V with another amount                               *)
(*                                                                         *)
(* Required relation (the property):                                       *)
(*   OnEquation  - the state satisfies  P Vm^3 - (P b + RT) Vm^2 + a Vm    *)
(*                 - a b = 0  with Vm = V/n (ideal gas: a = b = 0);        *)
(*   Selected    - Vm is a real root, the largest one for the gas phase    *)
(*                 and the smallest one for the liquid phase;              *)
(*   RoundTrip   - solving for P, T, n, or V (same phase) in such a state  *)
(*                 changes nothing;                                        *)
(*   LinearInN   - V/n does not depend on n;                               *)
(*   IdealLimit  - gas root, eps = (b + a/RT) P/RT <= 1/8  implies         *)
(*                 |Vm - RT/P| <= 2 (b + a/RT)   (hence Vm P/RT -> 1);     *)
(*   Critical    - Pc, Tc, Vc from (a, b) satisfy 27 b^2 Pc = a,           *)
(*                 27 b RTc = 8 a, Vc = 3 n b, 3b is a triple root of the  *)
(*                 critical isotherm, and from_critical inverts them.      *)
(*                                                                         *)
(* TLC has no real root finder, so the model uses cubics whose roots are   *)
(* known by construction: monic cubics (V-r1)(V-r2)(V-r3) with small       *)
(* positive integer roots, and (V-r)((V-c)^2+d^2) with one real root and a *)
(* complex pair c +/- d i.  `cub.roots` plays the part of numpy.roots'     *)
(* answer (a list of complex numbers); invariants OracleMatches and        *)
(* ScanComplete tie that list to the polynomial held in `eos`/`st` by      *)
(* evaluating the polynomial, so the oracle cannot drift from the state.   *)
(* The van der Waals parameters follow from the roots and the pressure:    *)
(*    a = P s2,  b = s3/s2,  RT = P (s1 - b)   (s_i elementary symmetric). *)
(*                                                                         *)
(* Sel(Variant, ...) is the implementation-shaped selection rule:          *)
(*   "isreal"   keep roots with zero imaginary part, max / min  (the code) *)
(*   "realpart" max / min of the real parts of ALL roots (filter dropped)  *)
(*   "swapped"  gas takes the smallest, liquid the largest                 *)
(* The last two are kept as configurations that TLC must reject.           *)
(* Memo models a get_Vm that remembers the roots of its last solve; a and  *)
(* b are public attributes that a caller may assign (action SetParam), so  *)
(* a memo keyed by (T, P) only ("state_only") serves stale roots after an  *)
(* edit and must be rejected; "state_and_params" must pass.                *)
(*                                                                         *)
(* What this establishes: the selection rule + closed forms of the code    *)
(* satisfy the required relations exactly on every modelled cubic; what    *)
(* it does not: anything about floating point, numpy.roots, or cubics with *)
(* irrational roots - that is the job of Trace_EOS.tla on recorded runs.   *)
(***************************************************************************)
EXTENDS Integers, Sequences, FiniteSets, TLC, Rat

CONSTANTS RootVals,    \* positive integers used as real roots
          ReVals,      \* real parts c of complex pairs
          ImVals,      \* imaginary parts d > 0 of complex pairs
          Pressures,   \* rationals <<num, den>>
          Amounts,     \* rationals
          IdealRTs,    \* rationals: RT values of ideal-gas states
          Variant,     \* "isreal" | "realpart" | "swapped"
          Memo         \* "none" | "state_and_params" | "state_only": get_Vm remembers the roots of its last call

VARIABLES eos,   \* [kind, a, b]
          cub,   \* root oracle for the current (eos, P, RT)
          st,    \* [P, RT, n, V, ph]
          act,   \* name of the last action
          memo   \* [key, cub]: what a memoising get_Vm remembers of its last solve (NoMemo: nothing)
vars == <<eos, cub, st, act, memo>>

Phases == {"gas", "liquid"}
Zero == R(0)
RAbsQ(x) == IF x[1] < 0 THEN RNeg(x) ELSE x
\* a <= b with the common factor of the denominators removed first (32-bit products)
QLe(x, y) == LET g == Gcd(x[2], y[2]) IN x[1] * (y[2] \div g) <= y[1] * (x[2] \div g)
MaxOf(S) == CHOOSE x \in S : \A y \in S : y <= x
MinOf(S) == CHOOSE x \in S : \A y \in S : x <= y

\* ---- cubics with known roots
Cub3(r1, r2, r3) ==
   [s1 |-> r1 + r2 + r3, s2 |-> r1 * r2 + r1 * r3 + r2 * r3, s3 |-> r1 * r2 * r3,
    roots |-> <<[re |-> r1, im |-> 0], [re |-> r2, im |-> 0], [re |-> r3, im |-> 0]>>]
Cub1(r, c, d) ==
   [s1 |-> r + 2 * c, s2 |-> 2 * r * c + c * c + d * d, s3 |-> r * (c * c + d * d),
    roots |-> <<[re |-> r, im |-> 0], [re |-> c, im |-> d], [re |-> c, im |-> -d]>>]
Cubics3 == {Cub3(r1, r2, r3) : <<r1, r2, r3>> \in
              {t \in RootVals \X RootVals \X RootVals : t[1] <= t[2] /\ t[2] <= t[3]}}
Cubics1 == {Cub1(t[1], t[2], t[3]) : t \in RootVals \X ReVals \X ImVals}
Cubics == Cubics3 \cup Cubics1
\* cubics with known roots that share RT/P = s1 - s3/s2 pairwise (10; 50/3; 18; 25/4; 9/2): the
\* same (T, P) seen by objects with different (a, b)
EditCubics == {Cub3(2, 3, 6), Cub1(6, 3, 3), Cub1(10, 1, 2), Cub3(2, 8, 8), Cub3(3, 3, 12),
               Cub3(4, 8, 8), Cub3(5, 5, 10), Cub3(2, 2, 3), Cub1(1, 3, 3), Cub3(1, 2, 2), Cub1(5, 1, 3)}
NoCub == [s1 |-> 0, s2 |-> 0, s3 |-> 0, roots |-> <<>>]

RealRoots(c) == {c.roots[i].re : i \in {j \in 1..Len(c.roots) : c.roots[j].im = 0}}
ReParts(c) == {c.roots[i].re : i \in 1..Len(c.roots)}
DistinctReal(c) == Cardinality(RealRoots(c)) = Cardinality({j \in 1..Len(c.roots) : c.roots[j].im = 0})

\* ---- the implementation-shaped selection (an integer)
Sel(variant, c, ph) ==
   CASE variant = "isreal"   -> IF ph = "gas" THEN MaxOf(RealRoots(c)) ELSE MinOf(RealRoots(c))
     [] variant = "realpart" -> IF ph = "gas" THEN MaxOf(ReParts(c)) ELSE MinOf(ReParts(c))
     [] variant = "swapped"  -> IF ph = "gas" THEN MinOf(RealRoots(c)) ELSE MaxOf(RealRoots(c))

\* ---- closed forms of the code (exact)
VdwOf(c, P) == [kind |-> "vdw", a |-> RMul(P, R(c.s2)), b |-> RFrac(c.s3, c.s2)]
RTOf(c, P) == RMul(P, RSub(R(c.s1), RFrac(c.s3, c.s2)))
Ideal == [kind |-> "ideal", a |-> Zero, b |-> Zero]

Sq(x) == RMul(x, x)
Cube(x) == RMul(x, RMul(x, x))
\* get_P:  RT/(Vm - b) - a/Vm^2        get_T (as RT): (P + a/Vm^2)(Vm - b)
EqP(e, RT, vm) == RSub(RDiv(RT, RSub(vm, e.b)), RDiv(e.a, Sq(vm)))
EqRT(e, P, vm) == RMul(RAdd(P, RDiv(e.a, Sq(vm))), RSub(vm, e.b))
\* get_Vm
\* a memoising get_Vm: the roots of the last solve are reused when the key matches.  The public
\* attributes a, b can be assigned at any time (SetParam), so a correct key contains them;
\* "state_only" (key = (T, P)) is the variant that must be rejected.
NoMemo == [key |-> <<>>, cub |-> NoCub]
MemoKey(e, P, RT) == IF Memo = "state_only" THEN <<P, RT>> ELSE <<P, RT, e.a, e.b>>
CubUsed(e, c, P, RT) == IF Memo # "none" /\ memo.key = MemoKey(e, P, RT) THEN memo.cub ELSE c
Remember(e, c, P, RT) == IF Memo = "none" \/ e.kind = "ideal" THEN NoMemo
                         ELSE [key |-> MemoKey(e, P, RT), cub |-> CubUsed(e, c, P, RT)]
MolarVFresh(e, c, P, RT, ph) == IF e.kind = "ideal" THEN RDiv(RT, P) ELSE R(Sel(Variant, c, ph))
MolarV(e, c, P, RT, ph) == MolarVFresh(e, CubUsed(e, c, P, RT), P, RT, ph)

\* the polynomial P v^3 - (P b + RT) v^2 + a v - a b
PolyAt(e, P, RT, v) ==
   RAdd(RSub(RMul(P, Cube(v)), RMul(RAdd(RMul(P, e.b), RT), Sq(v))),
        RSub(RMul(e.a, v), RMul(e.a, e.b)))

Vm == RDiv(st.V, st.n)

\* ---- initial states: every modelled object in every modelled state (construction + get_V)
Built(e, c, P, RT, n, ph) ==
   /\ eos = e /\ cub = c /\ act = "Construct"
   /\ st = [P |-> P, RT |-> RT, n |-> n, V |-> RMul(n, MolarVFresh(e, c, P, RT, ph)), ph |-> ph]
   /\ memo = (IF Memo = "none" \/ e.kind = "ideal" THEN NoMemo ELSE [key |-> MemoKey(e, P, RT), cub |-> c])
InitVdw == \E c \in Cubics \cup EditCubics, P \in Pressures, n \in Amounts, ph \in Phases :
              Built(VdwOf(c, P), c, P, RTOf(c, P), n, ph)
InitIdeal == \E P \in Pressures, RT \in IdealRTs, n \in Amounts :
              Built(Ideal, NoCub, P, RT, n, "gas")

\* ---- actions (the getters)
SolveV(ph) == /\ st' = [st EXCEPT !.V = RMul(st.n, MolarV(eos, cub, st.P, st.RT, ph)), !.ph = ph]
              /\ act' = (IF ph = st.ph THEN "SolveVsame" ELSE "SolveVother")
              /\ memo' = Remember(eos, cub, st.P, st.RT) /\ UNCHANGED <<eos, cub>>
SolveP == /\ st' = [st EXCEPT !.P = EqP(eos, st.RT, Vm)]
          /\ act' = "SolveP" /\ UNCHANGED <<eos, cub, memo>>
SolveT == /\ st' = [st EXCEPT !.RT = EqRT(eos, st.P, Vm)]
          /\ act' = "SolveT" /\ UNCHANGED <<eos, cub, memo>>
SolveN == /\ st' = [st EXCEPT !.n = RDiv(st.V, MolarV(eos, cub, st.P, st.RT, st.ph))]
          /\ act' = "SolveN" /\ memo' = Remember(eos, cub, st.P, st.RT) /\ UNCHANGED <<eos, cub>>
ChangeN(n2) == /\ st' = [st EXCEPT !.n = n2, !.V = RMul(n2, MolarV(eos, cub, st.P, st.RT, st.ph))]
               /\ act' = "ChangeN" /\ memo' = Remember(eos, cub, st.P, st.RT) /\ UNCHANGED <<eos, cub>>
\* eos.a = ..., eos.b = ... assigned on the live object (a parameter scan at fixed T, P), followed by
\* get_V at the SAME (T, P): the new parameters are those of another cubic with known roots and the
\* same RT/P = s1 - s3/s2
SetParam(c2, ph) ==
   /\ eos.kind = "vdw" /\ c2 # cub /\ RTOf(c2, st.P) = st.RT
   /\ eos' = VdwOf(c2, st.P) /\ cub' = c2
   /\ st' = [st EXCEPT !.V = RMul(st.n, MolarV(eos', c2, st.P, st.RT, ph)), !.ph = ph]
   /\ memo' = Remember(eos', c2, st.P, st.RT)
   /\ act' = "SetParam"

Init == InitVdw \/ InitIdeal
Next == \/ \E ph \in (IF eos.kind = "ideal" THEN {"gas"} ELSE Phases) : SolveV(ph)
        \/ SolveP \/ SolveT \/ SolveN
        \/ \E n2 \in Amounts : ChangeN(n2)
        \/ \E c2 \in EditCubics, ph \in Phases : SetParam(c2, ph)
Spec == Init /\ [][Next]_vars

\* ---- the required relations
OnEquation == /\ PolyAt(eos, st.P, st.RT, Vm) = Zero
              /\ RLt(eos.b, Vm) /\ RLt(Zero, st.P) /\ RLt(Zero, st.RT)

\* the oracle belongs to the polynomial held in the state:  P b + RT = P s1,  a = P s2,  a b = P s3
OracleMatches ==
   eos.kind = "vdw" =>
      /\ RAdd(RMul(st.P, eos.b), st.RT) = RMul(st.P, R(cub.s1))
      /\ eos.a = RMul(st.P, R(cub.s2))
      /\ RMul(eos.a, eos.b) = RMul(st.P, R(cub.s3))
\* real roots found by evaluating the polynomial at every candidate = the oracle's real roots
ScanMax == MaxOf(RootVals \cup ReVals \cup {12})
ScanRoots == {v \in 1..ScanMax : PolyAt(eos, st.P, st.RT, R(v)) = Zero}
ScanComplete == eos.kind = "vdw" => ScanRoots = RealRoots(cub)

Selected ==
   IF eos.kind = "ideal" THEN RMul(st.P, Vm) = st.RT
   ELSE /\ RIsInt(Vm) /\ Vm[1] \in ScanRoots
        /\ \A w \in ScanRoots : IF st.ph = "gas" THEN w <= Vm[1] ELSE Vm[1] <= w

\* eps = (b + a/RT) P / RT
Excess == RAdd(eos.b, RDiv(eos.a, st.RT))
LowDensity == QLe(RMul(R(8), RMul(Excess, st.P)), st.RT)
IdealLimit == (eos.kind = "vdw" /\ st.ph = "gas" /\ LowDensity) =>
                 QLe(RAbsQ(RSub(Vm, RDiv(st.RT, st.P))), RMul(R(2), Excess))

RoundTrip == [][act' \in {"SolveP", "SolveT", "SolveN", "SolveVsame"} => st' = st]_vars
LinearInN == [][act' = "ChangeN" => RDiv(st'.V, st'.n) = RDiv(st.V, st.n)]_vars

\* ---- critical constants (constant-level: closed forms of get_Pc/get_Tc/get_Vc/from_critical)
Pc(e) == RDiv(e.a, RMul(R(27), Sq(e.b)))
RTc(e) == RDiv(RMul(R(8), e.a), RMul(R(27), e.b))
Vc(e, n) == RMul(R(3), RMul(n, e.b))
FromCritical(rtc, pc) == [kind |-> "vdw", a |-> RDiv(RMul(R(27), Sq(rtc)), RMul(R(64), pc)),
                          b |-> RDiv(rtc, RMul(R(8), pc))]
CriticalOK(e) ==
   /\ RMul(RMul(R(27), Sq(e.b)), Pc(e)) = e.a
   /\ RMul(RMul(R(27), e.b), RTc(e)) = RMul(R(8), e.a)
   \* 3b is a triple root of the critical isotherm at Pc: P (v - 3b)^3 = polynomial, checked at 4 points
   /\ \A k \in 0..3 : PolyAt(e, Pc(e), RTc(e), R(k)) = RMul(Pc(e), Cube(RSub(R(k), RMul(R(3), e.b))))
   /\ FromCritical(RTc(e), Pc(e)) = e
FromCriticalOK(rtc, pc) ==
   LET e == FromCritical(rtc, pc) IN RTc(e) = rtc /\ Pc(e) = pc

\* ---- cases for replay into the real code: cubics whose real roots are distinct
\* (a repeated root sits on the spinodal / critical point, where the root structure of
\*  the floating-point cubic is not determined by the exact one)
CaseOf(c) == [s1 |-> c.s1, s2 |-> c.s2, s3 |-> c.s3, nreal |-> Cardinality(RealRoots(c)),
              re |-> [i \in 1..3 |-> c.roots[i].re], im |-> [i \in 1..3 |-> c.roots[i].im],
              gas |-> Sel("isreal", c, "gas"), liquid |-> Sel("isreal", c, "liquid")]
Cases == {CaseOf(c) : c \in {x \in Cubics : DistinctReal(x)}}
=============================================================================
