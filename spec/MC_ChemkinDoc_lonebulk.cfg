\* EXPECTED TO BE REJECTED (EachOnceBulk): a bulk species reacting without an adsorbate of its site
\* is not declared by a writer that emits BULK lines only for the sites it discovered from adsorbates
SPECIFICATION Spec
CONSTANTS
  Pool <- MCPool
  Sites <- MCSites
  MaxSp = 3
  MaxRx = 2
  MaxMol = 2
  MaxCoef = 2
  GasTest = "all"
  LoneBulk = TRUE
  SDelims <- MCSDelims
  RDelims <- MCRDelims
  RunLists <- MCRunLists
  EvalMode = "each"
INVARIANT DistinctInv
INVARIANT Partition
INVARIANT EachOnceReactions
INVARIANT EachOnceElements
INVARIANT EachOnceGasSpecies
INVARIANT EachOnceSites
INVARIANT EachOnceAdsorbates
INVARIANT EachOnceBulk
INVARIANT CountsMatch
INVARIANT ReadBack
INVARIANT TubeInv
INVARIANT RunsInv
CHECK_DEADLOCK FALSE
