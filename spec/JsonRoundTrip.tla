--------------------------- MODULE JsonRoundTrip ---------------------------
(***************************************************************************)
(* C11 - JSON serialisation round-trips every pMuTT object.                *)
(*                                                                         *)
(* Abstract state.  A pMuTT object is a finite tree.  A node is            *)
(*   [kind |-> "obj", c |-> class, a |-> set of attribute names that carry *)
(*    information, k |-> [slot name |-> sequence of child nodes]]          *)
(* and the JSON form of a node is the same record with kind = "dict" and   *)
(* c = the 'class' tag ("none" once the tag has been popped).  Attribute   *)
(* VALUES are not modelled (they are judged on recorded executions by      *)
(* Trace_JsonRoundTrip.tla); the model follows which attributes and which  *)
(* children survive, which dictionaries become objects, and what happens   *)
(* to the dictionary the caller handed in.                                 *)
(*                                                                         *)
(* Schema / Attrs below are the single description of the serialisable     *)
(* classes (the driver reads them from TLC, it has no table of its own).   *)
(* Every class of pmutt with to_dict/from_dict is here except Zacros (its  *)
(* constructor fails under NumPy 2: numpy.product); "OmkmBEP" stands for   *)
(* pmutt.omkm.reaction.BEP.  ChemkinReaction species are empirical objects *)
(* (the constructor needs `.phase`).                                       *)
(*                                                                         *)
(* Public calls = actions:                                                 *)
(*   Encode      json.dumps(obj, cls=pmuttEncoder)                         *)
(*   Load        json.loads(text, object_hook=json_to_pmutt)  (bottom-up)  *)
(*   DecodeDict  json_to_pmutt(d) on a dictionary the caller keeps         *)
(*               (top-down: each from_dict decodes its own children)       *)
(*   DecodeAgain json_to_pmutt(d) on the very same dictionary              *)
(*   Reencode    json.dumps(decoded, cls=pmuttEncoder)                     *)
(*                                                                         *)
(* Required behaviour (Variant = "required"): every class is registered,   *)
(* to_dict writes and from_dict restores every attribute and child,        *)
(* from_dict decodes every child slot, remove_class works on a copy.       *)
(* Variant = "pinned" transcribes the tables of the source as pinned       *)
(* (commit 5a929d9, i.e. before the fix commits 332f355 c2f0ab2 0e733a0    *)
(* 531eeb9 c52f10b d1f32e6: registry of io/json.py, keys of each           *)
(* to_dict/from_dict, remove_class popping from the caller's dictionary);  *)
(* TLC is expected to REJECT it (MC_JsonRoundTrip_pinned.cfg) and          *)
(* MC_JsonRoundTrip_pinned_all.cfg records that all seven invariants fail. *)
(* On that source the real class trees agreed with this variant's          *)
(* prediction on 4193/4193 Load and 4973/5099 DecodeDict cases.            *)
(***************************************************************************)
EXTENDS Integers, Sequences, FiniteSets, TLC

CONSTANTS Variant,    \* "required" | "pinned"
          MaxDepth,   \* length of the varied chain of the enumerated trees (0..4)
          MaxLife,    \* number of calls in a lifecycle
          Roots       \* classes used as roots of the enumerated trees

Null == [kind |-> "null"]
Error == [kind |-> "error"]

ModeCls == {"EmptyMode", "ConstantMode", "FreeTrans", "HarmonicVib", "QRRHOVib", "EinsteinVib",
            "DebyeVib", "RigidRotor", "GroundStateElec", "EmptyNucl"}
LeafCls == ModeCls \cup {"GasPressureAdj", "PiecewiseCovEffect", "CatSite", "BEP", "OmkmBEP", "SingleNasa9",
                         "IdealGasEOS", "vanDerWaalsEOS"}
RxnCls == {"Reaction", "ChemkinReaction", "SurfaceReaction"}
Class == LeafCls \cup RxnCls \cup {"StatMech", "Nasa", "Nasa9", "Shomate", "Reference", "References",
                                  "Reactions", "PhaseDiagram", "LSR",
                                  "EmpiricalBase", "Network", "ExtendedLSR"}

Slot(n, kd, fill, mn) == [s |-> n, kind |-> kd, of |-> fill, min |-> mn]
Misc == <<"PiecewiseCovEffect", "GasPressureAdj">>
Species == <<"StatMech", "Nasa", "Shomate", "Nasa9">>
Empirical == <<"Nasa", "Shomate">>
RxnSlots(sp, ts) == << Slot("reactants", "list", sp, 1), Slot("products", "list", sp, 1),
                       Slot("transition_state", "list", ts, 0) >>

\* child slots of every class: name, kind (one | opt | list), classes that may fill it (the
\* first one fills the minimal tree), minimal length of a list
Schema == [c \in Class |->
   CASE c = "StatMech" ->
          << Slot("trans_model", "one", <<"FreeTrans", "EmptyMode", "ConstantMode">>, 1),
             Slot("vib_model", "one", <<"HarmonicVib", "QRRHOVib", "EinsteinVib", "DebyeVib", "EmptyMode">>, 1),
             Slot("rot_model", "one", <<"RigidRotor", "EmptyMode">>, 1),
             Slot("elec_model", "one", <<"GroundStateElec", "EmptyMode">>, 1),
             Slot("nucl_model", "one", <<"EmptyNucl", "EmptyMode">>, 1),
             Slot("references", "opt", <<"References">>, 0),
             Slot("misc_models", "list", Misc, 0) >>
     [] c = "Nasa" -> << Slot("model", "opt", <<"StatMech">>, 0), Slot("cat_site", "opt", <<"CatSite">>, 0),
                         Slot("misc_models", "list", Misc, 0) >>
     [] c = "Shomate" -> << Slot("model", "opt", <<"StatMech">>, 0), Slot("misc_models", "list", Misc, 0) >>
     [] c = "Nasa9" -> << Slot("nasas", "list", <<"SingleNasa9">>, 2), Slot("model", "opt", <<"StatMech">>, 0),
                          Slot("misc_models", "list", Misc, 0) >>
     [] c = "Reference" -> << Slot("model", "one", <<"StatMech">>, 1), Slot("misc_models", "list", Misc, 0) >>
     [] c = "References" -> << Slot("references", "list", <<"Reference">>, 0) >>
     [] c = "Reaction" -> RxnSlots(Species, Species \o <<"BEP">>)
     [] c = "ChemkinReaction" -> RxnSlots(Empirical, Empirical)
     [] c = "SurfaceReaction" -> RxnSlots(Species, Species \o <<"BEP", "OmkmBEP">>)
     [] c = "EmpiricalBase" -> << Slot("model", "opt", <<"StatMech">>, 0), Slot("misc_models", "list", Misc, 0) >>
     [] c = "Network" -> << Slot("reactions", "list", <<"Reaction", "ChemkinReaction", "SurfaceReaction">>, 1) >>
     [] c = "ExtendedLSR" -> << Slot("reactions", "list", <<"Reaction">>, 1),
                                Slot("surf_species", "list", <<"StatMech", "Nasa">>, 1),
                                Slot("gas_species", "list", <<"StatMech", "Nasa">>, 1) >>
     [] c = "Reactions" -> << Slot("reactions", "list", <<"Reaction", "ChemkinReaction", "SurfaceReaction">>, 1) >>
     [] c = "PhaseDiagram" -> << Slot("reactions", "list", <<"Reaction">>, 1) >>
     [] c = "LSR" -> << Slot("reaction", "one", <<"Reaction">>, 1),
                        Slot("surf_species", "one", <<"StatMech", "Nasa">>, 1),
                        Slot("gas_species", "one", <<"StatMech", "Nasa">>, 1) >>
     [] OTHER -> << >> ]

EmpAttrs == {"name", "phase", "elements", "smiles", "notes", "add_gas_P_adj"}
RxnAttrs == {"reactants_stoich", "products_stoich", "transition_state_stoich", "notes"}
\* attributes the property speaks about: identifying ones and the parameters behind the getters
Attrs == [c \in Class |->
   CASE c = "ConstantMode" -> {"q", "Cv", "Cp", "U", "H", "S", "F", "G", "notes"}
     [] c = "FreeTrans" -> {"n_degrees", "molecular_weight"}
     [] c = "HarmonicVib" -> {"vib_wavenumbers", "imaginary_substitute"}
     [] c = "QRRHOVib" -> {"vib_wavenumbers", "Bav", "v0", "alpha", "imaginary_substitute"}
     [] c = "EinsteinVib" -> {"einstein_temperature", "interaction_energy"}
     [] c = "DebyeVib" -> {"debye_temperature", "interaction_energy"}
     [] c = "RigidRotor" -> {"symmetrynumber", "rot_temperatures", "geometry"}
     [] c = "GroundStateElec" -> {"potentialenergy", "spin", "D0"}
     [] c = "StatMech" -> {"name", "elements", "smiles", "notes"}
     [] c = "Nasa" -> EmpAttrs \cup {"T_low", "T_mid", "T_high", "a_low", "a_high", "n_sites"}
     [] c = "Shomate" -> EmpAttrs \cup {"T_low", "T_high", "a", "units", "n_sites"}
     [] c = "Nasa9" -> EmpAttrs \cup {"n_sites"}
     [] c = "SingleNasa9" -> {"T_low", "T_high", "a"}
     [] c = "Reference" -> EmpAttrs \cup {"T_ref", "HoRT_ref"}
     [] c = "References" -> {"offset", "descriptor", "T_ref"}
     [] c = "PiecewiseCovEffect" -> {"name_i", "name_j", "intervals", "slopes", "name"}
     [] c = "CatSite" -> {"name", "site_density", "density", "bulk_specie"}
     [] c = "BEP" -> {"name", "slope", "intercept", "descriptor", "elements", "notes"}
     [] c = "LSR" -> {"slope", "intercept", "notes"}
     [] c = "ExtendedLSR" -> {"slopes", "intercept", "notes"}
     [] c = "EmpiricalBase" -> EmpAttrs
     [] c = "OmkmBEP" -> {"name", "slope", "intercept", "descriptor", "elements", "notes", "direction"}
     [] c = "Reaction" -> RxnAttrs
     [] c = "ChemkinReaction" -> RxnAttrs \cup {"beta", "is_adsorption", "sticking_coeff"}
     [] c = "SurfaceReaction" -> RxnAttrs \cup {"id", "is_adsorption", "A", "beta", "Ea", "sticking_coeff",
                                                "direction", "use_motz_wise"}
     [] c = "PhaseDiagram" -> {"norm_factors"}
     [] c = "vanDerWaalsEOS" -> {"a", "b"}
     [] OTHER -> {} ]

Rng(s) == {s[i] : i \in 1..Len(s)}
SlotNames(c) == {Schema[c][i].s : i \in 1..Len(Schema[c])}

\* ------------------------------------------------------------------------
\* the two variants of the serialisation tables
\* ------------------------------------------------------------------------
Required == Variant = "required"

\* type_to_class
Registry == IF Required THEN Class
            ELSE Class \ {"ConstantMode", "LSR", "ChemkinReaction", "SurfaceReaction", "PhaseDiagram",
                          "Network", "ExtendedLSR", "OmkmBEP"}
\* attributes to_dict leaves out / from_dict does not hand to the constructor (pinned source)
NotWritten(c) == IF Required THEN {} ELSE
   CASE c = "GroundStateElec" -> {"D0"}
     [] c = "StatMech" -> {"elements"}
     [] c = "BEP" -> {"elements"}
     [] c = "PiecewiseCovEffect" -> {"name"}
     [] c \in RxnCls -> {"notes"} \cup (IF c = "SurfaceReaction" THEN {"id", "direction", "use_motz_wise"} ELSE {})
     [] c = "PhaseDiagram" -> {"norm_factors"}
     [] c \in {"Nasa", "Nasa9", "Reference"} -> {"add_gas_P_adj"}     \* the option was not kept at all
     [] c = "Shomate" -> {"add_gas_P_adj", "n_sites"}
     [] OTHER -> {}
NotRestored(c) == IF Required THEN {} ELSE
   CASE c = "StatMech" -> {"elements", "smiles"}
     [] c = "References" -> {"offset"}            \* comes back as a 0-d object array
     [] OTHER -> {}
SlotsNotRestored(c) == IF Required THEN {} ELSE IF c = "StatMech" THEN {"misc_models"} ELSE {}
\* child slots a from_dict does not decode when it is handed plain dictionaries
SlotsNotDecoded(c) == IF Required THEN {} ELSE
   CASE c \in {"Nasa", "Shomate"} -> {"misc_models"}
     [] c = "Reaction" -> {"transition_state"}
     [] OTHER -> {}
\* from_dict raises (key written by to_dict differs from the key read)
RaisesOnDecode == IF Required THEN {} ELSE {"Nasa9", "SingleNasa9"}
\* remove_class pops 'class' from the dictionary it was given
InPlace == ~Required

\* ------------------------------------------------------------------------
\* trees
\* ------------------------------------------------------------------------
RECURSIVE MinTree(_)
MinTree(c) == [kind |-> "obj", c |-> c, a |-> Attrs[c],
           k |-> [s \in SlotNames(c) |->
                    LET sl == CHOOSE x \in Rng(Schema[c]) : x.s = s
                    IN IF sl.kind = "one" THEN << MinTree(sl.of[1]) >>
                       ELSE IF sl.kind = "list" THEN [i \in 1..sl.min |-> MinTree(sl.of[1])]
                       ELSE << >>]]
MinT == [c \in Class |-> MinTree(c)]

SlotSeqs(sl, prev) ==
   LET ts == UNION {prev[c2] : c2 \in Rng(sl.of)}
       m == MinT[sl.of[1]]
   IN CASE sl.kind = "one" -> {<<t>> : t \in ts}
        [] sl.kind = "opt" -> {<<t>> : t \in ts} \cup {<< >>}
        [] OTHER -> {<<t>> : t \in ts} \cup {<<t, m>> : t \in ts} \cup {<<m, t>> : t \in ts}
                    \cup (IF sl.min = 0 THEN {<< >>} ELSE {})
\* one slot of the minimal tree varied at a time: every chain (class, slot, class, slot, ...) of
\* the schema up to the given length occurs, siblings stay minimal
Step(prev) == [c \in Class |->
   {MinT[c]} \cup UNION {{[MinT[c] EXCEPT !.k[Schema[c][i].s] = q] : q \in SlotSeqs(Schema[c][i], prev)}
                         : i \in 1..Len(Schema[c])}]
RECURSIVE VarAt(_)
VarAt(d) == IF d = 0 THEN [c \in Class |-> {MinT[c]}] ELSE Step(VarAt(d - 1))
Trees == UNION {VarAt(MaxDepth)[c] : c \in Roots}

Kids(t) == UNION {Rng(t.k[s]) : s \in DOMAIN t.k}

\* ------------------------------------------------------------------------
\* encode / decode
\* ------------------------------------------------------------------------
RECURSIVE Encode(_), HookDecode(_), DictDecode(_), After(_), HasKind(_, _), Shape(_)
MapSeq(q, f(_)) == [i \in 1..Len(q) |-> f(q[i])]

\* to_dict, recursively (what pmuttEncoder.default produces)
Encode(t) == [kind |-> "dict", c |-> t.c, a |-> t.a \ NotWritten(t.c),
              k |-> [s \in DOMAIN t.k |-> MapSeq(t.k[s], Encode)]]

HasKind(t, kd) == \/ t.kind = kd
                  \/ t.kind \in {"obj", "dict"} /\ \E x \in Kids(t) : HasKind(x, kd)

\* cls.from_dict on a dictionary whose children are `kids`
FromDict(c, a, kids) ==
   IF \/ c \in RaisesOnDecode
      \/ \E s \in DOMAIN kids : \E x \in Rng(kids[s]) : x.kind = "error"
      \/ ~Required /\ c = "References" /\ kids["references"] = << >>     \* iterates over None
   THEN Error
   ELSE [kind |-> "obj", c |-> c, a |-> a \ NotRestored(c),
         k |-> [s \in DOMAIN kids |-> IF s \in SlotsNotRestored(c) THEN << >> ELSE kids[s]]]

\* json.loads(text, object_hook=json_to_pmutt): the hook sees the innermost dictionaries first
HookDecode(j) ==
   LET kids == [s \in DOMAIN j.k |-> MapSeq(j.k[s], HookDecode)]
   IN IF j.c \in Registry THEN FromDict(j.c, j.a, kids)
      ELSE IF \E s \in DOMAIN kids : \E x \in Rng(kids[s]) : x.kind = "error" THEN Error
      ELSE [j EXCEPT !.k = kids]

\* json_to_pmutt(d): the outermost from_dict decodes (or not) its own children
DictDecode(j) ==
   IF j.kind # "dict" \/ j.c \notin Registry THEN j
   ELSE FromDict(j.c, j.a, [s \in DOMAIN j.k |-> IF s \in SlotsNotDecoded(j.c) THEN j.k[s]
                                                   ELSE MapSeq(j.k[s], DictDecode)])

\* the caller's dictionary after json_to_pmutt(d)
After(j) ==
   IF ~InPlace \/ j.kind # "dict" \/ j.c \notin Registry THEN j
   ELSE [j EXCEPT !.c = "none",
                  !.k = [s \in DOMAIN j.k |-> IF s \in SlotsNotDecoded(j.c) THEN j.k[s]
                                              ELSE MapSeq(j.k[s], DictDecode)]]

Shape(t) == IF t.kind \in {"null", "error"} THEN t
            ELSE [kind |-> t.kind, c |-> t.c, k |-> [s \in DOMAIN t.k |-> MapSeq(t.k[s], Shape)]]

\* ------------------------------------------------------------------------
\* lifecycle
\* ------------------------------------------------------------------------
VARIABLES obj,        \* the original object
          text,       \* what the last Encode / Reencode produced
          dictGiven,  \* the dictionary the caller keeps (json.loads(text) without hook)
          dict0,      \* its value when the caller made it
          decoded,    \* result of the last decode
          first,      \* result of the first DecodeDict
          h           \* names of the calls so far
vars == <<obj, text, dictGiven, dict0, decoded, first, h>>

Init == /\ obj \in Trees
        /\ text = Null /\ dictGiven = Null /\ dict0 = Null /\ decoded = Null /\ first = Null
        /\ h = << >>

Encode_ == /\ text = Null /\ Len(h) < MaxLife
           /\ text' = Encode(obj)
           /\ h' = Append(h, "Encode")
           /\ UNCHANGED <<obj, dictGiven, dict0, decoded, first>>
Load == /\ text # Null /\ Len(h) < MaxLife /\ (h = << >> \/ h[Len(h)] # "Load")
        /\ decoded' = HookDecode(text)
        /\ h' = Append(h, "Load")
        /\ UNCHANGED <<obj, text, dictGiven, dict0, first>>
DecodeDict == /\ text # Null /\ dictGiven = Null /\ Len(h) < MaxLife
              /\ decoded' = DictDecode(text) /\ first' = decoded'
              /\ dict0' = text
              /\ dictGiven' = After(text)
              /\ h' = Append(h, "DecodeDict")
              /\ UNCHANGED <<obj, text>>
DecodeAgain == /\ dictGiven # Null /\ Len(h) < MaxLife
               /\ decoded' = DictDecode(dictGiven)
               /\ dictGiven' = After(dictGiven)
               /\ h' = Append(h, "DecodeAgain")
               /\ UNCHANGED <<obj, text, dict0, first>>
Reencode == /\ decoded.kind = "obj" /\ Len(h) < MaxLife /\ h[Len(h)] # "Reencode"
            /\ ~HasKind(decoded, "dict")
            /\ text' = Encode(decoded)
            /\ h' = Append(h, "Reencode")
            /\ UNCHANGED <<obj, dictGiven, dict0, decoded, first>>

Next == Encode_ \/ Load \/ DecodeDict \/ DecodeAgain \/ Reencode
Spec == Init /\ [][Next]_vars

\* ------------------------------------------------------------------------
\* the property
\* ------------------------------------------------------------------------
Decoded == decoded # Null
NoRaise == decoded # Error
\* no dictionary with a class tag falls through json_to_pmutt unchanged
RegistryTotal == Decoded /\ decoded # Error => ~HasKind(decoded, "dict")
SameClassTree == Decoded /\ decoded # Error /\ ~HasKind(decoded, "dict") => Shape(decoded) = Shape(obj)
AttrsKept == Decoded /\ decoded # Error /\ ~HasKind(decoded, "dict") /\ Shape(decoded) = Shape(obj)
                => decoded = obj
DictUntouched == dictGiven # Null => dictGiven = dict0
Repeatable == h # << >> /\ h[Len(h)] = "DecodeAgain" => decoded = first
Idempotent == text # Null => text = Encode(obj)
TypeOK == /\ obj.kind = "obj" /\ text.kind \in {"null", "dict"}
          /\ decoded.kind \in {"null", "obj", "dict", "error"}

=============================================================================
