\* X08 design model, thorough: three mode ids, four calls
SPECIFICATION Spec
CONSTANTS
  ModeIds <- MCModeIds3
  MaxModes = 2
  MaxA = 1
  MaxB = 1
  MaxC = 1
  MaxOps = 4
  Walk = FALSE
  QRotRule = "product"
  DictRule = "complete"
INVARIANT TypeOK
INVARIANT QRotDimensionless
INVARIANT QRotLaw
INVARIANT SurfaceHasNoRotation
INVARIANT DefinedQuantities
INVARIANT DictComplete
INVARIANT NeverError
PROPERTY ToDictReturnsDict
PROPERTY RoundTrip
PROPERTY MomentLaw
PROPERTY SigmaLaw
PROPERTY AreaLaw
PROPERTY VibOnlyLaw
VIEW View
CHECK_DEADLOCK FALSE
