---------------------------- MODULE MC_OmkmRange ----------------------------
EXTENDS OmkmRange
HNone == <<>>                        \* no delimiter:            0004
HEmpty == <<95>>                     \* empty prefix:            _0004
HA == <<97, 95>>                     \*                          a_0004
HAB == <<97, 95, 98, 95>>            \* prefix with delimiter:   a_b_0004
HUU == <<95, 95>>                    \* prefix "_":              __0004
HA1 == <<97, 49, 95>>                \* prefix ending in a digit, and `a` is a prefix of it: a1_0004
XNonInt == <<97, 95, 120>>           \* a_x   (no integer suffix)
XNoSuffix == <<97, 95>>              \* a_    (empty suffix)
\* identifiers in the form the function must accept
HeadsCanon == {HNone, HA, HAB, HUU}
NumsCanon == {0, 1, 2, 5, 9999, 10000}
\* thorough tier, collections of <= 4
HeadsCanon4 == {HNone, HA, HA1}
NumsCanon4 == {1, 2, 3, 5, 9999, 10000}
\* every printed width, empty prefix included
HeadsAll == {HNone, HEmpty, HA}
NumsAll == {1, 2, 9, 10, 99999}
NumsQuick == {1, 2, 10, 99999}
NumsBig == {0, 1, 2, 9, 10, 12, 99999}
WidthsAll == {1, 4, 5}
WidthsQuick == {1, 4}
\* footers that cannot be encoded: ASCII oddities and digits of other scripts (code points)
XPlus == <<97, 95, 43, 50>>                          \* a_+2
XBlank == <<97, 95, 32, 50>>                         \* a_ 2
XMinus == <<97, 95, 45, 50>>                         \* a_-2
XExp == <<97, 95, 49, 101, 49>>                      \* a_1e1
XArabic == <<97, 95, 1634>>                          \* a_ + ARABIC-INDIC TWO        (would merge with a_1)
XDeva == <<97, 95, 2415>>                            \* a_ + DEVANAGARI NINE         (would merge with a_10)
XFull == <<97, 95, 65296, 65296, 65296, 65298>>      \* a_ + FULLWIDTH 0002          (would merge with a_0001)
XMixed == <<97, 95, 49, 1632>>                       \* a_1 + ARABIC-INDIC ZERO      (a_10 respelt)
XSuper == <<97, 95, 178>>                            \* a_ + SUPERSCRIPT TWO
XBareFull == <<65296, 65296, 65296, 65297>>          \* FULLWIDTH 0001, no delimiter
ExtraAscii == {XNonInt, XNoSuffix, XPlus, XBlank, XMinus, XExp}
ExtraUni == {XArabic, XDeva, XFull, XMixed, XSuper, XBareFull}
ExtraAll == ExtraAscii \cup ExtraUni
ExtraQuick == {XNonInt, XPlus, XArabic, XFull, XMixed, XSuper}
HeadsUni == {HNone, HA}
HeadsBig == {HNone, HEmpty, HA, HA1}
=============================================================================
