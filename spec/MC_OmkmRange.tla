---------------------------- MODULE MC_OmkmRange ----------------------------
EXTENDS OmkmRange
HNone == <<>>                        \* no delimiter:            0004
HEmpty == <<95>>                     \* empty prefix:            _0004
HA == <<97, 95>>                     \*                          a_0004
HAB == <<97, 95, 98, 95>>            \* prefix with delimiter:   a_b_0004
HUU == <<95, 95>>                    \* prefix "_":              __0004
XNonInt == <<97, 95, 120>>           \* a_x   (no integer suffix)
XNoSuffix == <<97, 95>>              \* a_    (empty suffix)
\* identifiers in the form the function must accept
HeadsCanon == {HNone, HA, HAB, HUU}
NumsCanon == {0, 1, 2, 3, 5, 9999, 10000}
\* thorough tier, collections of <= 4
HeadsCanon4 == {HNone, HA, HAB}
NumsCanon4 == {1, 2, 3, 5, 9999, 10000}
\* every printed width, empty prefix included
HeadsAll == {HNone, HEmpty, HA}
NumsAll == {1, 2, 9, 10, 99999}
NumsBig == {0, 1, 2, 9, 10, 12, 99999}
WidthsAll == {1, 4, 5}
WidthsQuick == {1, 4}
ExtraAll == {XNonInt, XNoSuffix}
=============================================================================
