\* exhaustive design model for the long initial lists: 4, 5 and 6 initial breakpoints (one list with a repeated
\* breakpoint), grid {0,2,5,6}, slopes {-1,2}, <= 8 breakpoints, <= 2 edits
SPECIFICATION Spec
CONSTANTS
  Grid = {0, 2, 5, 6}
  Slopes <- SlopeSmall
  MaxLen = 8
  MaxOps = 2
  Variant = "bisect"
  Sharing = "copy"
  InitSets <- MCInitLong
INVARIANT TypeOK
INVARIANT Ascending
INVARIANT Paired
INVARIANT FirstIsZero
INVARIANT InterceptsFresh
INVARIANT ZeroAtZero
INVARIANT Continuous
INVARIANT Unique
INVARIANT FrozenConsistent
PROPERTY FrozenUntouched
PROPERTY InsertRefines
PROPERTY PopRefines
VIEW View
CHECK_DEADLOCK FALSE
