\* exhaustive design model, required classification: every choice of <= 3 species from a pool of
\* 7 (2 gas, 3 adsorbates on 2 sites, 2 bulk), every set of <= 2 reactions with <= 2 molecules
\* per side, all files written
SPECIFICATION Spec
CONSTANTS
  Pool <- MCPool
  Sites <- MCSites
  MaxSp = 3
  MaxRx = 2
  MaxMol = 2
  MaxCoef = 2
  GasTest = "all"
  LoneBulk = FALSE
  SDelims <- MCSDelims
  RDelims <- MCRDelims
  RunLists <- MCRunLists
  EvalMode = "each"
INVARIANT DistinctInv
INVARIANT Partition
INVARIANT EachOnceReactions
INVARIANT EachOnceElements
INVARIANT EachOnceGasSpecies
INVARIANT EachOnceSites
INVARIANT EachOnceAdsorbates
INVARIANT EachOnceBulk
INVARIANT CountsMatch
INVARIANT ReadBack
INVARIANT TubeInv
INVARIANT RunsInv
CHECK_DEADLOCK FALSE
