\* removal wipes species.phase unconditionally: EXPECTED TO BE REJECTED (add s to p2, then remove it from
\* p1: s is listed by p2 only but refers to nothing)
SPECIFICATION Spec
CONSTANTS
  PhaseObj <- P3
  KindOf <- Kinds3
  Species <- S3
  GivenLists <- Given3
  MaxLen = 3
  MaxOps = 6
  Variant = "fresh"
  ElemOf <- Elem3
  CacheVariant = "none"
  OwnerVariant = "detach_always"
INVARIANT TypeOK
INVARIANT ListsExactlyItsSpecies
INVARIANT PhaseElementsAreUnionOfSpecies
INVARIANT MovedSpeciesRefersToItsPhase
PROPERTY Frame
PROPERTY NewIsWhatWasGiven
PROPERTY OwnerAfterInsert
PROPERTY RemovalKeepsForeignReference
VIEW ViewDepth
CHECK_DEADLOCK FALSE
